// csumast — translator for C16/C17: reads the SOURCE of tun/checksum.go of the tree under test and prints,
// as Gallina (Gen/CsumAst.v), the bodies of checksumNoFold, checksum and pseudoHeaderChecksumNoFold as terms
// of the deep-embedded mini-language of Offload/CsumAst.v.  Offload/CsumAstProofs.v proves that the
// interpreter of Offload/CsumAst.v run on these terms equals the hand-written mirror of Offload/Checksum.v
// for ALL inputs, hence (checksum_is_rfc1071) the RFC 1071 sum.
//
// Trusted here: go/parser; the rendering below (one Go construct -> one constructor; desugarings: a block ->
// right-nested SSeq ending in SSkip, `var x T` -> SAssign x (EConst 0), `for cond {}` -> SWhile, a name
// declared again in an inner scope -> the name with a suffix 'k (alpha renaming, so the flat environment of
// the interpreter needs no scopes), binary.NativeEndian -> little endian (GOARCH amd64/arm64; on a big-endian
// host NativeEndian is big endian and this translation is WRONG)); the light type inference below (an
// arithmetic node is only emitted when both operands are uint64 or untyped constants, so "wraps at 2^64" is
// the right reading).  Everything not recognised becomes EUnknown/BUnknown/SUnknown, on which the
// interpreter yields None, so an unrecognised construct can only break the theorems, never satisfy them.
package main

import (
	"flag"
	"fmt"
	"go/ast"
	"go/parser"
	"go/token"
	"math/big"
	"os"
	"path/filepath"
	"reflect"
	"strconv"
	"strings"
)

type fsig struct {
	params []string // types
	result string
}

var (
	funcs   = map[string]*ast.FuncDecl{}
	sigs    = map[string]fsig{}
	imports = map[string]string{} // local name -> path
)

func kind(n interface{}) string { return strings.TrimPrefix(reflect.TypeOf(n).String(), "*ast.") }

// Go type expression -> our type name ("" if not supported)
func typeName(e ast.Expr) string {
	switch v := e.(type) {
	case *ast.Ident:
		switch v.Name {
		case "uint64":
			return "u64"
		case "uint32":
			return "u32"
		case "uint16":
			return "u16"
		case "uint8", "byte":
			return "u8"
		}
	case *ast.ArrayType:
		if v.Len == nil && typeName(v.Elt) == "u8" {
			return "bytes"
		}
	}
	return ""
}

var bitsOf = map[string]int{"u64": 64, "u32": 32, "u16": 16, "u8": 8}

type tr struct {
	scopes  []map[string]string // source name -> emitted name
	types   map[string]string   // emitted name -> type
	made    map[string]bool     // emitted name -> was created by make([]byte, n) (may be a store target)
	counts  map[string]int      // source name -> number of declarations so far
	retType string
}

func (t *tr) lookup(name string) (string, bool) {
	for i := len(t.scopes) - 1; i >= 0; i-- {
		if n, ok := t.scopes[i][name]; ok {
			return n, true
		}
	}
	return "", false
}

func (t *tr) declare(name, typ string) string {
	em := name
	if k := t.counts[name]; k > 0 {
		em = name + "'" + strconv.Itoa(k)
	}
	t.counts[name]++
	t.scopes[len(t.scopes)-1][name] = em
	t.types[em] = typ
	return em
}

func eunk(what string) (string, string) { return fmt.Sprintf("(EUnknown %q)", what), "" }
func sunk(what string) string           { return fmt.Sprintf("(SUnknown %q)", what) }

// pkg.Sel.Name(...) with pkg imported from path and not shadowed by a local
func (t *tr) pkgCall(c *ast.CallExpr, path string) (mid, name string, ok bool) {
	s, ok1 := c.Fun.(*ast.SelectorExpr)
	if !ok1 {
		return
	}
	switch x := s.X.(type) {
	case *ast.Ident: // bits.Add64
		if _, sh := t.lookup(x.Name); !sh && imports[x.Name] == path {
			return "", s.Sel.Name, true
		}
	case *ast.SelectorExpr: // binary.NativeEndian.Uint64
		if id, ok2 := x.X.(*ast.Ident); ok2 {
			if _, sh := t.lookup(id.Name); !sh && imports[id.Name] == path {
				return x.Sel.Name, s.Sel.Name, true
			}
		}
	}
	return
}

func (t *tr) isBuiltin(e ast.Expr, name string) bool {
	id, ok := e.(*ast.Ident)
	if !ok || id.Name != name {
		return false
	}
	_, sh := t.lookup(name)
	return !sh && funcs[name] == nil
}

func numeric(ty string) bool { return bitsOf[ty] != 0 }

// an index / length operand: an untyped constant or an int (len)
func idx(ty string) bool { return ty == "const" || ty == "int" }

func (t *tr) optIdx(e ast.Expr) string {
	if e == nil {
		return "None"
	}
	s, ty := t.expr(e)
	if !idx(ty) {
		s, _ = eunk("slice bound of type " + ty)
	}
	return "(Some " + s + ")"
}

var binops = map[token.Token]string{token.SHR: "OShr", token.SHL: "OShl", token.AND: "OAnd", token.OR: "OOr", token.ADD: "OAdd", token.SUB: "OSub"}
var asgops = map[token.Token]string{token.SHR_ASSIGN: "OShr", token.SHL_ASSIGN: "OShl", token.AND_ASSIGN: "OAnd", token.OR_ASSIGN: "OOr", token.ADD_ASSIGN: "OAdd", token.SUB_ASSIGN: "OSub"}
var cmpops = map[token.Token]string{token.GEQ: "CGe", token.GTR: "CGt", token.LEQ: "CLe", token.LSS: "CLt", token.EQL: "CEq", token.NEQ: "CNe"}
var loadW = map[string]int{"Uint64": 8, "Uint32": 4, "Uint16": 2}
var storeW = map[string]int{"PutUint64": 8, "PutUint32": 4, "PutUint16": 2}
var endian = map[string]string{"NativeEndian": "LE", "LittleEndian": "LE", "BigEndian": "BE"}

// returns the rendered expression and its type
func (t *tr) expr(e ast.Expr) (string, string) {
	switch v := e.(type) {
	case *ast.ParenExpr:
		return t.expr(v.X)
	case *ast.BasicLit:
		if v.Kind == token.INT {
			n, ok := new(big.Int).SetString(strings.ReplaceAll(v.Value, "_", ""), 0)
			if ok && n.Sign() >= 0 && n.BitLen() <= 64 {
				return fmt.Sprintf("(EConst %s%%N)", n), "const"
			}
		}
	case *ast.Ident:
		if em, ok := t.lookup(v.Name); ok {
			return fmt.Sprintf("(EVar %q)", em), t.types[em]
		}
		return eunk("Ident")
	case *ast.SliceExpr:
		if v.Slice3 || v.Max != nil {
			return eunk("SliceExpr 3-index")
		}
		x, ty := t.expr(v.X)
		if ty != "bytes" {
			return eunk("SliceExpr of " + ty)
		}
		return fmt.Sprintf("(ESlice %s %s %s)", x, t.optIdx(v.Low), t.optIdx(v.High)), "bytes"
	case *ast.IndexExpr:
		x, ty := t.expr(v.X)
		i, ity := t.expr(v.Index)
		if ty != "bytes" || !idx(ity) {
			return eunk("IndexExpr")
		}
		return fmt.Sprintf("(EIndex %s %s)", x, i), "u8"
	case *ast.CompositeLit:
		if typeName(v.Type) != "bytes" {
			return eunk("CompositeLit type")
		}
		out := "EBytesNil"
		for i := len(v.Elts) - 1; i >= 0; i-- {
			s, ty := t.expr(v.Elts[i])
			if ty != "u8" && ty != "const" {
				s, _ = eunk("CompositeLit element of type " + ty)
			}
			out = fmt.Sprintf("(EBytesCons %s %s)", s, out)
		}
		return out, "bytes"
	case *ast.BinaryExpr:
		op, ok := binops[v.Op]
		if !ok {
			return eunk("BinaryExpr " + v.Op.String())
		}
		a, ta := t.expr(v.X)
		b, tb := t.expr(v.Y)
		if (ta == "u64" || ta == "const") && (tb == "u64" || tb == "const") && (ta == "u64" || tb == "u64") {
			return fmt.Sprintf("(EBin %s %s %s)", op, a, b), "u64"
		}
		return eunk("BinaryExpr " + v.Op.String() + " on " + ta + "," + tb)
	case *ast.CallExpr:
		if v.Ellipsis != token.NoPos {
			return eunk("CallExpr ellipsis")
		}
		// len(x)
		if t.isBuiltin(v.Fun, "len") && len(v.Args) == 1 {
			x, ty := t.expr(v.Args[0])
			if ty == "bytes" {
				return fmt.Sprintf("(ELen %s)", x), "int"
			}
			return eunk("len of " + ty)
		}
		// make([]byte, n)
		if t.isBuiltin(v.Fun, "make") && len(v.Args) == 2 && typeName(v.Args[0]) == "bytes" {
			n, ty := t.expr(v.Args[1])
			if idx(ty) {
				return fmt.Sprintf("(EMake %s)", n), "bytes"
			}
			return eunk("make length of " + ty)
		}
		// conversions uint64(e), uint32(e), uint16(e), uint8(e)/byte(e) of a numeric value
		if id, ok := v.Fun.(*ast.Ident); ok && len(v.Args) == 1 && numeric(typeName(id)) && t.isBuiltin(v.Fun, id.Name) {
			x, ty := t.expr(v.Args[0])
			if numeric(ty) {
				to := typeName(id)
				return fmt.Sprintf("(ECast %d%%N %s)", bitsOf[to], x), to
			}
			return eunk("conversion of " + ty)
		}
		// binary.<Endian>.UintNN(bytes)
		if mid, name, ok := t.pkgCall(v, "encoding/binary"); ok && endian[mid] != "" && loadW[name] != 0 && len(v.Args) == 1 {
			x, ty := t.expr(v.Args[0])
			if ty == "bytes" {
				return fmt.Sprintf("(ELoad%s %d%%N %s)", endian[mid], loadW[name], x), "u" + strconv.Itoa(8*loadW[name])
			}
			return eunk("load from " + ty)
		}
		// a call of a function of this file with two parameters
		if id, ok := v.Fun.(*ast.Ident); ok {
			if _, sh := t.lookup(id.Name); !sh {
				if sg, ok := sigs[id.Name]; ok && len(sg.params) == 2 && len(v.Args) == 2 && sg.result != "" {
					a, ta := t.expr(v.Args[0])
					b, tb := t.expr(v.Args[1])
					okA := ta == sg.params[0]
					okB := tb == sg.params[1] || (tb == "const" && numeric(sg.params[1]))
					if okA && okB {
						return fmt.Sprintf("(ECall %q %s %s)", id.Name, a, b), sg.result
					}
					return eunk("CallExpr argument types")
				}
			}
		}
		return eunk("CallExpr")
	}
	return eunk(kind(e))
}

func (t *tr) bexpr(e ast.Expr) string {
	switch v := e.(type) {
	case *ast.ParenExpr:
		return t.bexpr(v.X)
	case *ast.BinaryExpr:
		if op, ok := cmpops[v.Op]; ok {
			a, ta := t.expr(v.X)
			b, tb := t.expr(v.Y)
			same := ta == tb && (numeric(ta) || ta == "int")
			mixed := (tb == "const" && (numeric(ta) || ta == "int")) || (ta == "const" && (numeric(tb) || tb == "int"))
			if same || mixed {
				return fmt.Sprintf("(BCmp %s %s %s)", op, a, b)
			}
			return fmt.Sprintf("(BUnknown %q)", "comparison of "+ta+","+tb)
		}
		return fmt.Sprintf("(BUnknown %q)", "BinaryExpr "+v.Op.String())
	}
	return fmt.Sprintf("(BUnknown %q)", kind(e))
}

func assignable(from, to string) bool {
	return from != "" && (from == to || (from == "const" && numeric(to)))
}

func (t *tr) stmt(s ast.Stmt, ind string) string {
	switch v := s.(type) {
	case *ast.BlockStmt:
		return t.block(v, ind)
	case *ast.DeclStmt: // var x T
		gd, ok := v.Decl.(*ast.GenDecl)
		if !ok || gd.Tok != token.VAR || len(gd.Specs) != 1 {
			return sunk("DeclStmt")
		}
		vs := gd.Specs[0].(*ast.ValueSpec)
		if len(vs.Names) != 1 || len(vs.Values) != 0 || !numeric(typeName(vs.Type)) || vs.Names[0].Name == "_" {
			return sunk("DeclStmt")
		}
		em := t.declare(vs.Names[0].Name, typeName(vs.Type))
		return fmt.Sprintf("(SAssign %q (EConst 0%%N))", em)
	case *ast.ExprStmt: // binary.<Endian>.PutUintNN(buf, e)
		c, ok := v.X.(*ast.CallExpr)
		if !ok {
			return sunk("ExprStmt")
		}
		if mid, name, ok := t.pkgCall(c, "encoding/binary"); ok && endian[mid] != "" && storeW[name] != 0 && len(c.Args) == 2 {
			id, ok := c.Args[0].(*ast.Ident)
			if !ok {
				return sunk("store target is not a variable")
			}
			em, ok := t.lookup(id.Name)
			if !ok || !t.made[em] {
				return sunk("store target was not created by make in this function")
			}
			x, ty := t.expr(c.Args[1])
			if ty != "u"+strconv.Itoa(8*storeW[name]) {
				return sunk("store of " + ty)
			}
			return fmt.Sprintf("(SStore%s %d%%N %q %s)", endian[mid], storeW[name], em, x)
		}
		return sunk("ExprStmt call")
	case *ast.AssignStmt:
		// x, y = bits.Add64(a, b, c)
		if len(v.Lhs) == 2 && len(v.Rhs) == 1 && v.Tok == token.ASSIGN {
			c, ok := v.Rhs[0].(*ast.CallExpr)
			if !ok {
				return sunk("AssignStmt multi")
			}
			mid, name, ok := t.pkgCall(c, "math/bits")
			if !ok || mid != "" || name != "Add64" || len(c.Args) != 3 {
				return sunk("AssignStmt multi")
			}
			var names [2]string
			for i, l := range v.Lhs {
				id, ok := l.(*ast.Ident)
				if !ok {
					return sunk("AssignStmt multi lhs")
				}
				em, ok := t.lookup(id.Name)
				if !ok || t.types[em] != "u64" {
					return sunk("AssignStmt multi lhs")
				}
				names[i] = em
			}
			var args [3]string
			for i, a := range c.Args {
				s, ty := t.expr(a)
				if ty != "u64" && ty != "const" {
					s, _ = eunk("Add64 argument of type " + ty)
				}
				args[i] = s
			}
			return fmt.Sprintf("(SAdd64 %q %q %s %s %s)", names[0], names[1], args[0], args[1], args[2])
		}
		if len(v.Lhs) != 1 || len(v.Rhs) != 1 {
			return sunk("AssignStmt multi")
		}
		id, ok := v.Lhs[0].(*ast.Ident)
		if !ok || id.Name == "_" {
			return sunk("AssignStmt lhs")
		}
		switch {
		case v.Tok == token.DEFINE:
			rhs, ty := t.expr(v.Rhs[0]) // evaluated in the scope before the declaration
			if ty == "" || ty == "const" || ty == "int" {
				return fmt.Sprintf("(SSeq %s %s)", sunk("define of type "+ty), "SSkip")
			}
			if _, here := t.scopes[len(t.scopes)-1][id.Name]; here {
				return sunk("AssignStmt redeclaration in the same scope")
			}
			em := t.declare(id.Name, ty)
			if c, ok := v.Rhs[0].(*ast.CallExpr); ok && t.isBuiltin(c.Fun, "make") {
				t.made[em] = true
			}
			return fmt.Sprintf("(SAssign %q %s)", em, rhs)
		case v.Tok == token.ASSIGN:
			em, ok := t.lookup(id.Name)
			rhs, ty := t.expr(v.Rhs[0])
			if !ok || !assignable(ty, t.types[em]) {
				return sunk("AssignStmt types")
			}
			t.made[em] = false
			return fmt.Sprintf("(SAssign %q %s)", em, rhs)
		default:
			op, ok := asgops[v.Tok]
			em, ok2 := t.lookup(id.Name)
			rhs, ty := t.expr(v.Rhs[0])
			if !ok || !ok2 || t.types[em] != "u64" || (ty != "u64" && ty != "const") {
				return sunk("AssignStmt " + v.Tok.String())
			}
			return fmt.Sprintf("(SOpAssign %q %s %s)", em, op, rhs)
		}
	case *ast.IfStmt:
		if v.Init != nil {
			return sunk("IfStmt init")
		}
		c := t.bexpr(v.Cond)
		th := t.block(v.Body, ind+"  ")
		el := "SSkip"
		switch e := v.Else.(type) {
		case nil:
		case *ast.IfStmt:
			el = t.stmt(e, ind+"  ")
		case *ast.BlockStmt:
			el = t.block(e, ind+"  ")
		default:
			el = sunk("IfStmt else")
		}
		return fmt.Sprintf("(SIf %s\n%s  %s\n%s  %s)", c, ind, th, ind, el)
	case *ast.ForStmt:
		if v.Init != nil || v.Cond == nil || v.Post != nil {
			return sunk("ForStmt clauses")
		}
		c := t.bexpr(v.Cond)
		return fmt.Sprintf("(SWhile %s\n%s  %s)", c, ind, t.block(v.Body, ind+"  "))
	case *ast.ReturnStmt:
		if len(v.Results) == 1 {
			x, ty := t.expr(v.Results[0])
			if assignable(ty, t.retType) {
				return fmt.Sprintf("(SReturn %s)", x)
			}
		}
		return sunk("ReturnStmt")
	}
	return sunk(kind(s))
}

func (t *tr) block(b *ast.BlockStmt, ind string) string {
	t.scopes = append(t.scopes, map[string]string{})
	var sb strings.Builder
	for _, s := range b.List {
		sb.WriteString("(SSeq " + t.stmt(s, ind+"  ") + "\n" + ind)
	}
	sb.WriteString("SSkip" + strings.Repeat(")", len(b.List)))
	t.scopes = t.scopes[:len(t.scopes)-1]
	return sb.String()
}

func main() {
	repo := flag.String("repo", "/repo", "tree under test")
	flag.Parse()
	fset := token.NewFileSet()
	file, err := parser.ParseFile(fset, filepath.Join(*repo, "tun", "checksum.go"), nil, 0)
	if err != nil {
		fmt.Fprintln(os.Stderr, "csumast: cannot parse tun/checksum.go")
		os.Exit(1)
	}
	for _, im := range file.Imports {
		p, _ := strconv.Unquote(im.Path.Value)
		name := p[strings.LastIndex(p, "/")+1:]
		if im.Name != nil {
			name = im.Name.Name
		}
		imports[name] = p
	}
	for _, d := range file.Decls {
		fd, ok := d.(*ast.FuncDecl)
		if !ok || fd.Recv != nil || fd.Body == nil || fd.Type.TypeParams != nil {
			continue
		}
		funcs[fd.Name.Name] = fd
		var sg fsig
		for _, p := range fd.Type.Params.List {
			for range p.Names {
				sg.params = append(sg.params, typeName(p.Type))
			}
		}
		if r := fd.Type.Results; r != nil && len(r.List) == 1 && len(r.List[0].Names) == 0 {
			sg.result = typeName(r.List[0].Type)
		}
		sigs[fd.Name.Name] = sg
	}

	body := func(name string, params, ptypes []string, result string) string {
		fd := funcs[name]
		if fd == nil {
			return sunk("function not found")
		}
		var got, gotT []string
		for _, p := range fd.Type.Params.List {
			for _, n := range p.Names {
				got = append(got, n.Name)
				gotT = append(gotT, typeName(p.Type))
			}
		}
		if strings.Join(got, ",") != strings.Join(params, ",") || strings.Join(gotT, ",") != strings.Join(ptypes, ",") {
			return sunk("parameter list")
		}
		if sigs[name].result != result {
			return sunk("result type")
		}
		t := &tr{types: map[string]string{}, made: map[string]bool{}, counts: map[string]int{}, retType: result}
		t.scopes = []map[string]string{{}}
		for i, p := range params {
			t.declare(p, ptypes[i])
		}
		return t.block(fd.Body, "  ")
	}

	fmt.Println("(* GENERATED by harness/cmd/csumast from tun/checksum.go of the tree under test. Do not edit. *)")
	fmt.Println("From Coq Require Import NArith String.")
	fmt.Println("From WG Require Import Offload.CsumAst.")
	fmt.Println("Local Open Scope string_scope.")
	fmt.Println()
	fmt.Println("(* func checksumNoFold(b []byte, initial uint64) uint64 *)")
	fmt.Printf("Definition noFold_body : stmt :=\n  %s.\n\n", body("checksumNoFold", []string{"b", "initial"}, []string{"bytes", "u64"}, "u64"))
	fmt.Println("(* func checksum(b []byte, initial uint64) uint16 *)")
	fmt.Printf("Definition checksum_body : stmt :=\n  %s.\n\n", body("checksum", []string{"b", "initial"}, []string{"bytes", "u64"}, "u16"))
	fmt.Println("(* func pseudoHeaderChecksumNoFold(protocol uint8, srcAddr, dstAddr []byte, totalLen uint16) uint64 *)")
	fmt.Printf("Definition pseudo_body : stmt :=\n  %s.\n",
		body("pseudoHeaderChecksumNoFold", []string{"protocol", "srcAddr", "dstAddr", "totalLen"}, []string{"u8", "bytes", "bytes", "u16"}, "u64"))
}
