// c04 drives a real device (sim bind / sim TUN, independent remote parties from
// package ref) for property C04:
//
//   - sequential scenarios: one peer, one step at a time with quiescence in
//     between; the send counter is put next to the limits with
//     VerifSetSendNonce; every transport datagram is recorded as (receiver
//     index, counter, inner packet id), every initiation is counted.  The
//     Coq side compares with the slice model Nonce.Seq.dstep (kind 1) and
//     evaluates Nonce.Spec.seq_check (kind 2).
//   - stress traces: several goroutines flush the same peers concurrently
//     (TUN reader under traffic, UAPI set, SendKeepalivesToPeersWithCurrentKeypair,
//     handshake completion, first data under a new key, private-key change =
//     ExpireCurrentKeypairs) under schedule perturbation; every (receiver
//     index, counter) seen on the wire is recorded; Coq checks distinctness
//     and the limit (kind 2 only).
package main

import (
	"encoding/binary"
	"encoding/hex"
	"encoding/json"
	"errors"
	"flag"
	"fmt"
	"math/rand"
	"net/netip"
	"os"
	"os/exec"
	"path/filepath"
	"runtime"
	"sort"
	"strings"
	"sync"
	"sync/atomic"
	"time"

	"golang.zx2c4.com/wireguard/conn"
	"golang.zx2c4.com/wireguard/device"

	"wgv/cosim"
	"wgv/ref"
	"wgv/sim"
	"wgv/stress"
)

const (
	Reject = uint64(device.RejectAfterMessages)
	Rekey  = uint64(device.RekeyAfterMessages)
	badPl  = uint64(1) << 40 // payload marker: does not open / not one of our packets
)

type Ev struct {
	K  string `json:"k"`            // set | tun | ans | allow | uapi | refinit | refdata | tunerr | tunierr | retransmit
	Kf int    `json:"kf,omitempty"` // tunerr: datagrams that go out before Bind.Send returns its error
	F  bool   `json:"f,omitempty"`  // set: may LOWER the counter, to a range never used under this key
	V  uint64 `json:"v,omitempty"`
	N  int    `json:"n,omitempty"`
	On bool   `json:"on,omitempty"`
}

type Tx struct {
	Idx uint32 `json:"i"`
	Ctr uint64 `json:"c"`
	Pl  uint64 `json:"p"`
}

type Obs struct {
	Tx     []Tx     `json:"tx"`
	Init   int      `json:"init"`
	First  uint64   `json:"first,omitempty"` // tun: id of the first packet of the batch
	Idx    uint32   `json:"idx,omitempty"`   // ans: index chosen by the remote party
	PkaOn  bool     `json:"pka_on,omitempty"`
	HasKey bool     `json:"has_key"`
	Nonce  uint64   `json:"nonce"`           // sendNonce of the current keypair after the step
	Lost   []uint64 `json:"lost,omitempty"`  // tunerr: ids of the packets the bind refused
	Fired  bool     `json:"fired,omitempty"` // the injected bind error was actually returned
}

type KeyTrace struct {
	Key  uint32      `json:"key"`
	Runs [][2]uint64 `json:"runs"` // (first counter, length) in emission order
}

type StressCfg struct {
	Seed      int64 `json:"seed"`
	Peers     int   `json:"peers"`
	BindBatch int   `json:"bind_batch"`
	TunBatch  int   `json:"tun_batch"`
	Procs     int   `json:"procs"`
	Hogs      int   `json:"hogs"`
	OneIn     int   `json:"one_in"`
	MaxSleep  int   `json:"max_sleep_us"`
	DurMs     int   `json:"dur_ms"`
	Phases    int   `json:"phases"`
	Expire    bool  `json:"expire"`
	PaceUs    int   `json:"pace_us"`
	AnsDelay  int   `json:"answer_delay_ms"` // the remote party answers initiations after 0..2*AnsDelay ms
	KA        int   `json:"keepalive_flushers"`
	DownUp    bool  `json:"down_up"`         // prelude: Down; TUN packets for configured peers while down; Up
	SendErr   int   `json:"send_err_one_in"` // one in N transport Sends fails after a random prefix went out (0 = never)
	Cross     bool  `json:"cross"`           // every phase puts every peer's counter a few packets below the limit (many crossings under concurrent flushers)
}

type Case struct {
	Kind  string         `json:"kind"` // seq | conc
	Gen   string         `json:"gen"`
	Evs   []Ev           `json:"evs,omitempty"`
	Obs   []Obs          `json:"obs,omitempty"`
	Cfg   *StressCfg     `json:"cfg,omitempty"`
	Keys  []KeyTrace     `json:"keys,omitempty"`
	Info  map[string]any `json:"info,omitempty"`
	Slow  bool           `json:"slow,omitempty"`
	Long  bool           `json:"long,omitempty"`  // real-time scenario (waits for the retransmit timer, ~5.5 s)
	Stuck bool           `json:"stuck,omitempty"` // the device twice did not come to rest on this scenario
	BB    int            `json:"bb,omitempty"`
}

// ---------------------------------------------------------------- sequential scenarios

func parseSent(w *cosim.World, p *cosim.RefPeer, sent []sim.Sent, lastInit *[]byte) ([]Tx, int) {
	txs := []Tx{}
	inits := 0
	for _, s := range sent {
		if len(s.Data) < 4 {
			inits += 1000
			continue
		}
		switch {
		case s.Data[0] == ref.TypeInitiation && len(s.Data) == ref.InitiationSize:
			inits++
			*lastInit = s.Data
		case s.Data[0] == ref.TypeTransport && len(s.Data) >= 32:
			t := Tx{Idx: binary.LittleEndian.Uint32(s.Data[4:8]), Ctr: binary.LittleEndian.Uint64(s.Data[8:16]), Pl: badPl}
			for _, sess := range p.Sessions {
				if sess.LocalIdx != t.Idx {
					continue
				}
				if _, _, pt, err := sess.OpenTransport(s.Data); err == nil {
					if len(pt) == 0 {
						t.Pl = 0
					} else if _, seq, _, ok := stress.Parse(pt); ok {
						t.Pl = seq
					}
				}
			}
			txs = append(txs, t)
		default:
			inits += 1000 // nothing else is expected in these scenarios
		}
	}
	return txs, inits
}

var errInjected = errors.New("injected: network is unreachable")

func runSeq(evs []Ev, bindBatch int, long bool) ([]Ev, []Obs, bool) {
	p := cosim.NewPeer("A", "192.0.2.7:5555", "10.0.0.0/24")
	w, err := cosim.NewWorld(cosim.Config{Up: true, BindBatch: bindBatch, TunBatch: 128}, true, p)
	if err != nil {
		panic(err)
	}
	defer func() {
		closed := make(chan struct{})
		go func() { w.Close(); close(closed) }()
		select {
		case <-closed:
		case <-time.After(5 * time.Second):
		}
	}()
	w.Timeout = 3 * time.Second
	pk := cosim.NoisePK(p.Pub)
	var lastInit []byte
	// fault injection at the bind: one transport Send / one initiation Send fails when armed
	armT, armI, armG := -1, false, false
	var firedT, firedI bool
	var refused [][]byte
	w.Bind.SendErrFn = func(bufs [][]byte, to netip.AddrPort) (int, error) {
		if len(bufs) == 0 {
			return 0, nil
		}
		if armG && bufs[0][0] == ref.TypeTransport {
			// like StdNetBind when the kernel refuses UDP GSO: it switches GSO off, re-sends the batch itself and
			// reports ErrUDPGSODisabled with a nil RetryErr: everything is on the wire exactly once
			armG = false
			return len(bufs), conn.ErrUDPGSODisabled{}
		}
		if armT >= 0 && bufs[0][0] == ref.TypeTransport {
			k := armT
			if k > len(bufs) {
				k = len(bufs)
			}
			armT, firedT = -1, true
			for _, b := range bufs[k:] {
				refused = append(refused, append([]byte{}, b...))
			}
			return k, errInjected
		}
		if armI && len(bufs[0]) == ref.InitiationSize && bufs[0][0] == ref.TypeInitiation {
			armI, firedI = false, true
			return 0, errInjected
		}
		return 0, nil
	}
	nextID := uint64(1)
	pka := 0
	maxCtr := map[uint32]uint64{} // greatest counter seen on the wire per receiver index
	var lastRefSess *ref.Session
	var lastRefInit time.Time
	var aev []Ev
	var obs []Obs
	slow := false
	t0 := time.Now()
	for _, e := range evs {
		var out cosim.Out
		o := Obs{}
		firedT, firedI, refused = false, false, nil
		switch e.K {
		case "tunerr", "tunierr":
			if e.N < 1 {
				continue
			}
			if e.K == "tunerr" {
				if w.Dev.VerifPeer(pk).StagedLen != 0 {
					e = Ev{K: "tun", N: e.N} // the model applies the error only to a flush that starts with an empty staged queue
				} else {
					armT = e.Kf
				}
			} else {
				armI = true
			}
			pkts := make([][]byte, e.N)
			o.First = nextID
			for i := range pkts {
				pkts[i] = stress.Packet([4]byte{10, 9, 9, 9}, [4]byte{10, 0, 0, 2}, 36+int(nextID*13%90), 1, nextID)
				nextID++
			}
			out = w.TunIn(pkts...)
			armT, armI = -1, false
			if firedI {
				lastInit = nil // the device's handshake state has moved on; the refused initiation never reached anybody
			}
			o.Fired = firedT || firedI
			o.Lost = []uint64{}
			for _, b := range refused {
				id := badPl
				for _, sess := range p.Sessions {
					if _, _, pt, err := sess.OpenTransport(b); err == nil {
						if _, seq, _, ok := stress.Parse(pt); ok {
							id = seq
						}
					}
				}
				o.Lost = append(o.Lost, id)
			}
		case "retransmit":
			if !long {
				continue
			}
			// wait (real time) for the retransmit-handshake timer: RekeyTimeout + up to 334 ms jitter
			dl := time.Now().Add(8 * time.Second)
			var acc []sim.Sent
			for time.Now().Before(dl) {
				acc = append(acc, w.Bind.TakeSent()...)
				if cosim.FindInitiation(acc) != nil {
					break
				}
				time.Sleep(20 * time.Millisecond)
			}
			out = w.Take()
			out.Sent = append(acc, out.Sent...)
		case "tun", "tungso":
			if e.N < 1 {
				continue
			}
			armG = e.K == "tungso"
			pkts := make([][]byte, e.N)
			o.First = nextID
			for i := range pkts {
				pkts[i] = stress.Packet([4]byte{10, 9, 9, 9}, [4]byte{10, 0, 0, 2}, 36+int(nextID*13%90), 1, nextID)
				nextID++
			}
			out = w.TunIn(pkts...)
		case "set":
			st := w.Dev.VerifPeer(pk)
			if !st.Current.Present {
				continue
			}
			if e.V < st.Current.SendNonce {
				// lowering is only sound into a range no counter of this key has been taken from yet
				mx, used := maxCtr[st.Current.RemoteIndex]
				if !e.F || (used && e.V <= mx) {
					continue
				}
			}
			w.Dev.VerifSetSendNonce(pk, e.V)
			out = w.Take()
		case "ans":
			if lastInit == nil {
				continue
			}
			sess, o2, err := w.AnswerInitiation(p, lastInit, p.Addr)
			lastInit = nil
			if err != nil {
				continue
			}
			out = o2
			o.Idx = sess.LocalIdx
		case "allow":
			w.Dev.VerifShiftHandshakeTimes(pk, 6*time.Second)
			out = w.Take()
		case "uapi":
			want := 0
			if e.On {
				want = 3600
			}
			o.PkaOn = pka == 0 && want != 0
			pka = want
			_, out = w.Set(fmt.Sprintf("public_key=%s\npersistent_keepalive_interval=%d\n", hex.EncodeToString(p.Pub[:]), want))
		case "refinit":
			// the remote party initiates: the device is the RESPONDER of the new session
			if d := time.Since(lastRefInit); d < 25*time.Millisecond {
				time.Sleep(25*time.Millisecond - d) // HandshakeInitationRate
			}
			st, o2, sess, err := w.RefInitiates(p, p.Addr, ref.Tai64n(time.Now()))
			lastRefInit = time.Now()
			out = o2
			o.Idx = st.SenderIdx
			lastInit = nil // our own pending initiation is forgotten by the device
			// exactly one response, which the remote party accepts, is expected; it is not a C04 observable
			var rest []sim.Sent
			resp := 0
			for _, s := range out.Sent {
				if len(s.Data) == ref.ResponseSize && s.Data[0] == ref.TypeResponse {
					resp++
				} else {
					rest = append(rest, s)
				}
			}
			out.Sent = rest
			if err != nil || resp != 1 {
				out.Sent = append(out.Sent, sim.Sent{Data: []byte{0xff}}) // anomaly: counted as a mismatch
			} else {
				lastRefSess = sess
			}
		case "refdata":
			if lastRefSess == nil {
				continue
			}
			inner := stress.Packet([4]byte{10, 0, 0, 2}, [4]byte{10, 9, 9, 9}, 40, 0, 0)
			out = w.Inject(p.Addr, lastRefSess.Next(ref.Pad(inner)))
		default:
			continue
		}
		if !out.Settled {
			slow = true
		}
		o.Tx, o.Init = parseSent(w, p, out.Sent, &lastInit)
		for _, t := range o.Tx {
			if t.Ctr >= maxCtr[t.Idx] {
				maxCtr[t.Idx] = t.Ctr
			}
		}
		if st := w.Dev.VerifPeer(pk); st.Current.Present {
			o.HasKey, o.Nonce = true, st.Current.SendNonce
		}
		aev = append(aev, e)
		obs = append(obs, o)
		if slow {
			break // nothing after a step that did not settle can be judged
		}
	}
	if !long && time.Since(t0) > 2*time.Second {
		// the model's "5 s spacing" flag is only meaningful while the scenario is much shorter than RekeyTimeout
		slow = true
	}
	return aev, obs, slow
}

func clip(n int) int {
	if n < 1 {
		return 1
	}
	if n > 128 {
		return 128
	}
	return n
}

func genSeq(r *rand.Rand) ([]Ev, string) {
	evs := []Ev{{K: "tun", N: 1 + r.Intn(5)}, {K: "ans"}}
	kind := "mixed"
	if r.Intn(3) == 0 { // start as responder
		evs = []Ev{{K: "refinit"}, {K: "refdata"}, {K: "allow"}}
		kind = "responder"
	}
	steps := 5 + r.Intn(14)
	for i := 0; i < steps; i++ {
		switch x := r.Intn(100); {
		case x < 22: // straddle the reject limit
			d := r.Intn(131)
			evs = append(evs, Ev{K: "set", V: Reject - uint64(d)}, Ev{K: "tun", N: clip(d - 3 + r.Intn(7))})
			kind = "reject-straddle"
		case x < 30:
			evs = append(evs, Ev{K: "set", V: Reject + uint64(r.Intn(3))}, Ev{K: "tun", N: clip(1 + r.Intn(128))})
		case x < 44: // around 2^60
			d := r.Intn(131)
			evs = append(evs, Ev{K: "set", V: Rekey + 1 - uint64(d)}, Ev{K: "tun", N: clip(d - 3 + r.Intn(7))})
		case x < 50:
			evs = append(evs, Ev{K: "set", V: []uint64{0, Rekey - 1, Rekey, Rekey + 1, Rekey + 2, 1 << 32, 1 << 63, Reject - 130, Reject - 1, Reject, Reject + 1, Reject + 2}[r.Intn(12)]})
		case x < 68:
			n := 1 + r.Intn(128)
			if r.Intn(2) == 0 {
				n = 1 + r.Intn(6)
			}
			evs = append(evs, Ev{K: "tun", N: n})
		case x < 76:
			evs = append(evs, Ev{K: "ans"})
		case x < 81:
			evs = append(evs, Ev{K: "refinit"})
			if r.Intn(3) != 0 {
				evs = append(evs, Ev{K: "refdata"})
			}
		case x < 84:
			evs = append(evs, Ev{K: "refdata"})
		case x < 86:
			evs = append(evs, Ev{K: "tungso", N: 1 + r.Intn(40)}, Ev{K: "tun", N: 1 + r.Intn(8)})
		case x < 88:
			n := 1 + r.Intn(40)
			evs = append(evs, Ev{K: "tunerr", N: n, Kf: r.Intn(n + 1)}, Ev{K: "tun", N: 1 + r.Intn(8)})
		case x < 90:
			evs = append(evs, Ev{K: "tunierr", N: 1 + r.Intn(4)})
		case x < 92:
			evs = append(evs, Ev{K: "allow"})
		default:
			evs = append(evs, Ev{K: "uapi", On: r.Intn(2) == 0})
		}
	}
	// finish: let the device rekey and deliver whatever is still held
	evs = append(evs, Ev{K: "allow"}, Ev{K: "uapi", On: false}, Ev{K: "ans"})
	return evs, kind
}

// directed scenarios: every boundary value of the property text once
func directed() [][]Ev {
	var out [][]Ev
	vals := []uint64{0, Rekey - 1, Rekey, Rekey + 1}
	for d := uint64(130); ; d-- {
		vals = append(vals, Reject-d)
		if d == 0 {
			break
		}
	}
	vals = append(vals, Reject+1, Reject+2)
	for i, v := range vals {
		n := 1 + (i*37)%128
		if v < Reject && Reject-v <= 128 {
			n = clip(int(Reject-v) + (i%5 - 2))
		}
		out = append(out, []Ev{{K: "tun", N: 1}, {K: "ans"}, {K: "allow"}, {K: "set", V: v}, {K: "tun", N: n}, {K: "tun", N: 1 + i%3}, {K: "ans"}, {K: "tun", N: 2}})
		// the same boundary on a session where the device is the RESPONDER (every other one after an initiator session)
		pre := []Ev{{K: "refinit"}, {K: "refdata"}, {K: "allow"}}
		if i%2 == 1 {
			pre = []Ev{{K: "tun", N: 1}, {K: "ans"}, {K: "refinit"}, {K: "refdata"}, {K: "allow"}}
		}
		out = append(out, append(pre, Ev{K: "set", V: v}, Ev{K: "tun", N: n}, Ev{K: "tun", N: 1 + i%3}, Ev{K: "ans"}, Ev{K: "tun", N: 2}))
		if i%8 == 1 {
			// the bind falls back from UDP GSO on this batch (reports ErrUDPGSODisabled after re-sending it itself)
			out = append(out, []Ev{{K: "tun", N: 1}, {K: "ans"}, {K: "allow"}, {K: "set", V: v}, {K: "tungso", N: n}, {K: "tun", N: 2}, {K: "tungso", N: 1}, {K: "ans"}, {K: "tungso", N: 5}})
		}
		if i%8 == 5 {
			// the far side initiated and the device answered, but the confirmation never came ("next" pending); later the
			// device's own key runs out mid-batch, it initiates, the response arrives: the new session must become
			// current and deliver what was held
			out = append(out, []Ev{{K: "tun", N: 1}, {K: "ans"}, {K: "refinit"}, {K: "allow"}, {K: "set", V: v}, {K: "tun", N: n}, {K: "tun", N: 2},
				{K: "allow"}, {K: "uapi"}, {K: "ans"}, {K: "tun", N: 3}})
		}
		if i%8 == 3 {
			// bind errors at this boundary: clean failure / partial send of the batch, then more batches;
			// then an exhausted (or fresh) key whose initiation the bind refuses
			k := (i / 8) % (n + 1)
			out = append(out, []Ev{{K: "tun", N: 1}, {K: "ans"}, {K: "allow"}, {K: "set", V: v}, {K: "tunerr", N: n, Kf: k}, {K: "tun", N: 3}, {K: "tun", N: 2},
				{K: "allow"}, {K: "tunierr", N: 2}, {K: "allow"}, {K: "tun", N: 1}, {K: "ans"}, {K: "tunerr", N: 4, Kf: 0}, {K: "tun", N: 4}})
		}
	}
	// a REFUSED initiation exactly when the counter reaches 2^60 (the attempt consumes the 5 s spacing although nothing is
	// seen on the wire); then more traffic past 2^60 within the spacing, then after it
	for _, pre := range [][]Ev{{{K: "tun", N: 1}, {K: "ans"}, {K: "allow"}}, {{K: "refinit"}, {K: "refdata"}, {K: "allow"}}} {
		for _, d := range []uint64{1, 2, 29} {
			out = append(out, append(append([]Ev{}, pre...), Ev{K: "set", V: Rekey - d}, Ev{K: "tunierr", N: int(d) + 1}, Ev{K: "tun", N: 1}, Ev{K: "tun", N: 2},
				Ev{K: "allow"}, Ev{K: "tun", N: 1}, Ev{K: "ans"}, Ev{K: "tun", N: 1}))
		}
	}
	// several containers staged, the first of which ends EXACTLY at the last counter: the next one is wholly
	// unnumberable inside the loop (the top check passed), must be re-staged and delivered by the next session
	for _, nn := range [][2]int{{1, 1}, {2, 3}, {7, 1}, {64, 5}, {128, 128}, {3, 128}} {
		n1, n2 := nn[0], nn[1]
		out = append(out, []Ev{{K: "tun", N: 1}, {K: "ans"}, {K: "allow"}, {K: "set", V: Reject + 1}, {K: "tun", N: n1}, {K: "tun", N: n2},
			{K: "set", V: Reject - uint64(n1), F: true}, {K: "uapi"}, {K: "allow"}, {K: "uapi"}, {K: "ans"}, {K: "tun", N: 2}})
		out = append(out, []Ev{{K: "refinit"}, {K: "refdata"}, {K: "allow"}, {K: "set", V: Reject}, {K: "tun", N: n1}, {K: "tun", N: n2}, {K: "tun", N: 1},
			{K: "set", V: Reject - uint64(n1), F: true}, {K: "uapi", On: true}, {K: "allow"}, {K: "uapi"}, {K: "ans"}})
	}
	return out
}

// real-time scenarios (run concurrently with everything else, ~5.5 s each): the bind refuses the initiation of an
// exhausted key / of a key past 2^60; the retransmit timer must repeat it and the held packets go out under the new key
func longScenarios() [][]Ev {
	return [][]Ev{
		{{K: "tun", N: 1}, {K: "ans"}, {K: "allow"}, {K: "set", V: Reject - 1}, {K: "tunierr", N: 2}, {K: "retransmit"}, {K: "ans"}, {K: "tun", N: 1}},
		{{K: "refinit"}, {K: "refdata"}, {K: "allow"}, {K: "set", V: Rekey}, {K: "tunierr", N: 3}, {K: "retransmit"}, {K: "ans"}, {K: "tun", N: 2}},
	}
}

// ---------------------------------------------------------------- stress

type flusherCtl struct {
	paused   atomic.Bool
	stop     atomic.Bool
	inflight atomic.Int32
	wg       sync.WaitGroup
}

// op runs f unless paused/stopped; it reports whether the goroutine should go on.
func (c *flusherCtl) op(f func()) bool {
	if c.stop.Load() {
		return false
	}
	if c.paused.Load() {
		time.Sleep(100 * time.Microsecond)
		return true
	}
	c.inflight.Add(1)
	if c.paused.Load() || c.stop.Load() {
		c.inflight.Add(-1)
		return !c.stop.Load()
	}
	f()
	c.inflight.Add(-1)
	return true
}

func (c *flusherCtl) pause(timeout time.Duration) bool {
	c.paused.Store(true)
	dl := time.Now().Add(timeout)
	for c.inflight.Load() != 0 {
		if time.Now().After(dl) {
			return false
		}
		time.Sleep(50 * time.Microsecond)
	}
	return true
}

type refState struct {
	mu       sync.Mutex
	sessions map[uint32]*ref.Session // by our (ref's) index
	latest   []*ref.Session          // per peer
	pendInit map[uint32]*ref.InitiatorState
	peerOf   map[uint32]int
}

func runStress(c StressCfg) Case {
	rng := stress.NewRng(uint64(c.Seed))
	var peers []*cosim.RefPeer
	for i := 0; i < c.Peers; i++ {
		p := cosim.NewPeer(fmt.Sprintf("P%d", i), fmt.Sprintf("192.0.2.%d:%d", 10+i, 5000+i), fmt.Sprintf("10.0.%d.0/24", i))
		peers = append(peers, p)
	}
	w, err := cosim.NewWorld(cosim.Config{Up: true, BindBatch: c.BindBatch, TunBatch: c.TunBatch}, true, peers...)
	if err != nil {
		panic(err)
	}
	w.Timeout = 2 * time.Second
	pcfg := stress.Config{Procs: c.Procs, Hogs: c.Hogs, OneIn: c.OneIn, MaxSleep: time.Duration(c.MaxSleep) * time.Microsecond}
	per := stress.Start(w, rng, pcfg)
	w.Bind.SendGate = func(bufs [][]byte, to netip.AddrPort) { stress.Nap(rng, pcfg) }
	var sendErrs atomic.Int64
	if c.SendErr > 0 {
		w.Bind.SendErrFn = func(bufs [][]byte, to netip.AddrPort) (int, error) {
			if len(bufs) > 0 && bufs[0][0] == ref.TypeTransport && rng.Intn(c.SendErr) == 0 {
				sendErrs.Add(1)
				if rng.Intn(3) == 0 {
					return len(bufs), conn.ErrUDPGSODisabled{} // GSO fallback: all sent, by the bind itself
				}
				return rng.Intn(len(bufs) + 1), errInjected
			}
			return 0, nil
		}
	}
	info := map[string]any{}

	var nextIdx atomic.Uint32
	nextIdx.Store(0x100000)
	var devPub atomic.Pointer[ref.Key]
	dp := w.DevPub
	devPub.Store(&dp)
	rs := &refState{sessions: map[uint32]*ref.Session{}, latest: make([]*ref.Session, len(peers)), pendInit: map[uint32]*ref.InitiatorState{}, peerOf: map[uint32]int{}}

	// collected trace
	keyOrder := []uint32{}
	keyCtrs := map[uint32][]uint64{}
	var nInit, nResp, nTransport, nOther int
	var collMu sync.Mutex // held by the collector while it processes (and injects)

	peerByAddr := map[string]int{}
	for i, p := range peers {
		peerByAddr[p.Addr.String()] = i
	}

	type delayed struct {
		due time.Time
		d   sim.Dgram
	}
	var later []delayed
	flushLater := func(all bool) {
		now := time.Now()
		k := 0
		for _, x := range later {
			if all || !x.due.After(now) {
				w.Bind.Inject(x.d)
			} else {
				later[k] = x
				k++
			}
		}
		later = later[:k]
	}
	process := func(sent []sim.Sent) {
		flushLater(false)
		for _, s := range sent {
			if len(s.Data) < 4 {
				nOther++
				continue
			}
			pi, okp := peerByAddr[s.To.String()]
			switch {
			case s.Data[0] == ref.TypeTransport && len(s.Data) >= 32:
				key := binary.LittleEndian.Uint32(s.Data[4:8])
				ctr := binary.LittleEndian.Uint64(s.Data[8:16])
				if _, ok := keyCtrs[key]; !ok {
					keyOrder = append(keyOrder, key)
				}
				keyCtrs[key] = append(keyCtrs[key], ctr)
				nTransport++
			case s.Data[0] == ref.TypeInitiation && len(s.Data) == ref.InitiationSize && okp:
				nInit++
				p := peers[pi]
				st, err := ref.ConsumeInitiation(s.Data, p.Priv)
				if err != nil {
					continue
				}
				idx := nextIdx.Add(1)
				resp, sess := st.CreateResponse(ref.NewPrivate(), p.Psk, idx)
				rs.mu.Lock()
				rs.sessions[idx] = sess
				rs.latest[pi] = sess
				rs.peerOf[idx] = pi
				rs.mu.Unlock()
				if c.AnsDelay > 0 {
					later = append(later, delayed{time.Now().Add(time.Duration(rng.Intn(2*c.AnsDelay*1000+1)) * time.Microsecond), sim.Dgram{From: p.Addr, Data: resp}})
				} else {
					w.Bind.Inject(sim.Dgram{From: p.Addr, Data: resp})
				}
			case s.Data[0] == ref.TypeResponse && len(s.Data) == ref.ResponseSize && okp:
				nResp++
				ridx := binary.LittleEndian.Uint32(s.Data[8:12])
				rs.mu.Lock()
				st := rs.pendInit[ridx]
				delete(rs.pendInit, ridx)
				rs.mu.Unlock()
				if st == nil {
					continue
				}
				sess, err := st.ConsumeResponse(s.Data)
				if err != nil {
					continue
				}
				rs.mu.Lock()
				rs.sessions[ridx] = sess
				rs.latest[pi] = sess
				rs.peerOf[ridx] = pi
				// first data under the new key: the device promotes next -> current and flushes
				inner := stress.Packet([4]byte{10, 0, byte(pi), 2}, [4]byte{10, 9, 9, 9}, 40, 0, 0)
				msg := sess.Next(ref.Pad(inner))
				rs.mu.Unlock()
				w.Bind.Inject(sim.Dgram{From: peers[pi].Addr, Data: msg})
			default:
				nOther++
			}
		}
	}

	var collStop atomic.Bool
	var collWg sync.WaitGroup
	collWg.Add(1)
	go func() {
		defer collWg.Done()
		for {
			collMu.Lock()
			process(w.Bind.TakeSent())
			collMu.Unlock()
			if collStop.Load() {
				return
			}
			time.Sleep(150 * time.Microsecond)
		}
	}()

	if c.DownUp {
		// interface down; the TUN still delivers packets for configured (stopped) peers; interface up again
		w.Dev.Down()
		for k := 0; k < 3; k++ {
			for i := range peers {
				w.Tun.Inject(stress.Packet([4]byte{10, 9, 9, 9}, [4]byte{10, 0, byte(i), 2}, 60+k, uint64(i), 0))
			}
			w.Settle()
		}
		w.Dev.Up()
		for _, p := range peers {
			w.Dev.VerifShiftHandshakeTimes(cosim.NoisePK(p.Pub), 6*time.Second)
		}
	}
	// initial sessions: the device initiates towards every peer
	for i := range peers {
		w.Tun.Inject(stress.Packet([4]byte{10, 9, 9, 9}, [4]byte{10, 0, byte(i), 2}, 40, uint64(i), 0))
	}
	time.Sleep(20 * time.Millisecond)
	w.Settle()

	ctl := &flusherCtl{}
	spawn := func(f func()) {
		ctl.wg.Add(1)
		go func() {
			defer ctl.wg.Done()
			f()
		}()
	}
	pace := func(base int) {
		d := time.Duration(base/2+rng.Intn(base+1)) * time.Microsecond
		time.Sleep(d)
	}
	var seq atomic.Uint64
	// (a) traffic through the TUN reader
	for g := 0; g < 2; g++ {
		spawn(func() {
			for ctl.op(func() {
				pi := rng.Intn(len(peers))
				n := 1 + rng.Intn(128)
				if rng.Intn(3) != 0 {
					n = 1 + rng.Intn(12)
				}
				pkts := make([][]byte, n)
				for i := range pkts {
					pkts[i] = stress.Packet([4]byte{10, 9, 9, 9}, [4]byte{10, 0, byte(pi), 2}, 36+rng.Intn(200), uint64(pi), seq.Add(1))
				}
				w.Tun.Inject(pkts...)
			}) {
				pace(c.PaceUs)
			}
		})
	}
	// (b) UAPI set on a peer: handlePostConfig -> SendKeepalive / SendStagedPackets
	spawn(func() {
		on := make([]bool, len(peers))
		for ctl.op(func() {
			pi := rng.Intn(len(peers))
			on[pi] = !on[pi]
			v := 0
			if on[pi] {
				v = 3600
			}
			w.Dev.IpcSet(fmt.Sprintf("public_key=%s\npersistent_keepalive_interval=%d\n", hex.EncodeToString(peers[pi].Pub[:]), v))
		}) {
			pace(c.PaceUs)
		}
	})
	// (c) keepalives to every peer with a current keypair
	for g := 0; g < c.KA; g++ {
		spawn(func() {
			for ctl.op(func() { w.Dev.SendKeepalivesToPeersWithCurrentKeypair() }) {
				pace(c.PaceUs/4 + 20)
			}
		})
	}
	// (d) the remote party initiates: a new keypair becomes current on its first data message
	spawn(func() {
		for ctl.op(func() {
			pi := rng.Intn(len(peers))
			p := peers[pi]
			idx := nextIdx.Add(1)
			st := ref.CreateInitiation(p.Priv, ref.NewPrivate(), *devPub.Load(), p.Psk, idx, ref.Tai64n(time.Now()))
			rs.mu.Lock()
			rs.pendInit[idx] = st
			rs.mu.Unlock()
			w.Bind.Inject(sim.Dgram{From: p.Addr, Data: st.Msg})
		}) {
			time.Sleep(time.Duration(120+rng.Intn(200)) * time.Millisecond)
		}
	})
	// (e) incoming data (sequential receiver activity; keepalive replies are timer driven, 10 s)
	spawn(func() {
		for ctl.op(func() {
			pi := rng.Intn(len(peers))
			rs.mu.Lock()
			sess := rs.latest[pi]
			var msg []byte
			if sess != nil {
				msg = sess.Next(ref.Pad(stress.Packet([4]byte{10, 0, byte(pi), 2}, [4]byte{10, 9, 9, 9}, 40, 0, 0)))
			}
			rs.mu.Unlock()
			if msg != nil {
				w.Bind.Inject(sim.Dgram{From: peers[pi].Addr, Data: msg})
			}
		}) {
			pace(4 * c.PaceUs)
		}
	})

	// crossing worlds: a goroutine keeps every fresh key a few counters below the limit (raising only) and lifts the
	// 5 s spacing whenever a key is exhausted, so that the limit is crossed hundreds of times per second while the
	// flushers run; no quiescence is needed for raising a counter
	var crossings, crossExpires atomic.Int64
	var crossHung atomic.Bool
	var crossStop atomic.Bool
	var crossWg sync.WaitGroup
	if c.Cross {
		crossWg.Add(1)
		go func() {
			defer crossWg.Done()
			shifted := make([]uint32, len(peers)) // remote index of the exhausted key the spacing was last lifted for
			lastExp := time.Now()
			for !crossStop.Load() {
				if c.Expire && time.Since(lastExp) > 150*time.Millisecond {
					// private-key change = ExpireCurrentKeypairs: Store(Reject) into the live counters, here while keys sit at
					// their limit and flushers are clamping
					lastExp = time.Now()
					np := ref.NewPrivate()
					done := make(chan error, 1)
					go func() { done <- w.Dev.IpcSet("private_key=" + hex.EncodeToString(np[:]) + "\n") }()
					select {
					case <-done:
						npub := ref.PubOf(np)
						devPub.Store(&npub)
						crossExpires.Add(1)
					case <-time.After(5 * time.Second):
						crossHung.Store(true)
						return
					}
					for i := range shifted {
						shifted[i] = 0
					}
				}
				for i, p := range peers {
					pk := cosim.NoisePK(p.Pub)
					st := w.Dev.VerifPeer(pk)
					if !st.Current.Present {
						continue
					}
					switch n := st.Current.SendNonce; {
					case n < 1<<40:
						w.Dev.VerifSetSendNonce(pk, Reject-uint64(1+rng.Intn(8)))
						crossings.Add(1)
					case n >= Reject && shifted[i] != st.Current.RemoteIndex:
						shifted[i] = st.Current.RemoteIndex
						w.Dev.VerifShiftHandshakeTimes(pk, 6*time.Second) // once per exhausted key: the next flush initiates
					}
				}
				time.Sleep(30 * time.Microsecond)
			}
		}()
	}
	// phases
	t0 := time.Now()
	phaseDur := time.Duration(c.DurMs) * time.Millisecond / time.Duration(c.Phases)
	hookSkips, nearReject, nearRekey, expires, hung := 0, 0, 0, 0, 0
	aborted := false
	for ph := 0; ph < c.Phases && !aborted; ph++ {
		expireAt := time.Duration(-1)
		if c.Expire && ph%3 == 1 {
			expireAt = time.Duration(rng.Intn(int(phaseDur)))
		}
		start := time.Now()
		for time.Since(start) < phaseDur {
			if expireAt >= 0 && time.Since(start) >= expireAt {
				expireAt = -1
				// (f) private-key change: ExpireCurrentKeypairs stores Reject into live counters
				np := ref.NewPrivate()
				done := make(chan error, 1)
				go func() { done <- w.Dev.IpcSet("private_key=" + hex.EncodeToString(np[:]) + "\n") }()
				select {
				case <-done:
					npub := ref.PubOf(np)
					devPub.Store(&npub)
					expires++
				case <-time.After(5 * time.Second):
					hung++
					aborted = true
				}
				if aborted {
					break
				}
			}
			time.Sleep(2 * time.Millisecond)
		}
		if aborted {
			break
		}
		if !ctl.pause(3 * time.Second) {
			hung++
			aborted = true
			break
		}
		collMu.Lock()
		flushLater(true)
		collMu.Unlock()
		ok := w.Settle()
		collMu.Lock()
		process(w.Bind.TakeSent())
		flushLater(true)
		if ok && sim.Quiesce(w.Dev, w.Bind, w.Tun, 200*time.Millisecond) {
			for pi, p := range peers {
				pk := cosim.NoisePK(p.Pub)
				st := w.Dev.VerifPeer(pk)
				w.Dev.VerifShiftHandshakeTimes(pk, 6*time.Second)
				if !st.Current.Present {
					continue
				}
				var v uint64
				k3 := (ph + pi) % 3
				if c.Cross {
					k3 = 2 // the crossing goroutine does it
				}
				switch k3 {
				case 0:
					v = Reject - uint64(1+rng.Intn(2500))
					if rng.Intn(2) == 0 {
						v = Reject - uint64(1+rng.Intn(200))
					}
					nearReject++
				case 1:
					v = Rekey - uint64(rng.Intn(2000))
					nearRekey++
				default:
					continue
				}
				if v > st.Current.SendNonce {
					w.Dev.VerifSetSendNonce(pk, v)
				}
			}
		} else {
			hookSkips++
		}
		collMu.Unlock()
		ctl.paused.Store(false)
	}
	crossStop.Store(true)
	crossWg.Wait()
	ctl.stop.Store(true)
	ctl.paused.Store(false)
	waitDone := make(chan struct{})
	go func() { ctl.wg.Wait(); close(waitDone) }()
	select {
	case <-waitDone:
	case <-time.After(5 * time.Second):
		hung++
	}
	settled := w.Settle()
	collStop.Store(true)
	collWg.Wait()
	collMu.Lock()
	process(w.Bind.TakeSent())
	collMu.Unlock()
	per.Stop()
	closed := make(chan struct{})
	go func() { w.Close(); close(closed) }()
	select {
	case <-closed:
	case <-time.After(5 * time.Second):
		hung++
	}

	cs := Case{Kind: "conc", Gen: "stress", Cfg: &c, Keys: []KeyTrace{}}
	reached, interleaved := 0, 0
	for _, k := range keyOrder {
		kt := KeyTrace{Key: k}
		for i, ctr := range keyCtrs[k] {
			if ctr == Reject-1 {
				reached++
			}
			if i > 0 && ctr < keyCtrs[k][i-1] {
				interleaved++
			}
			if n := len(kt.Runs); n > 0 && kt.Runs[n-1][0]+kt.Runs[n-1][1] == ctr {
				kt.Runs[n-1][1]++
			} else {
				kt.Runs = append(kt.Runs, [2]uint64{ctr, 1})
			}
		}
		cs.Keys = append(cs.Keys, kt)
	}
	info["keys_reached_limit"] = reached
	info["out_of_order_neighbours"] = interleaved
	info["send_errors_injected"] = sendErrs.Load()
	info["counter_raised_to_limit"] = crossings.Load()
	info["private_key_changes_in_crossing"] = crossExpires.Load()
	if crossHung.Load() {
		hung++
	}
	info["transports"] = nTransport
	info["keys"] = len(keyOrder)
	info["initiations_answered"] = nInit
	info["responses_seen"] = nResp
	info["other"] = nOther
	info["hook_skips"] = hookSkips
	info["near_reject_sets"] = nearReject
	info["near_rekey_sets"] = nearRekey
	info["expires"] = expires
	info["hung"] = hung
	info["settled_at_end"] = settled
	info["wall_ms"] = time.Since(t0).Milliseconds()
	cs.Info = info
	cs.Slow = hung > 0
	return cs
}

// ---------------------------------------------------------------- duplicate responses

// runDupResp: the device initiates, the remote party answers, and the network DUPLICATES the response: copies of
// the same valid response arrive in one receive batch (or in two back-to-back batches) and are processed by
// different handshake workers.  Every (receiver index, counter) sent afterwards is recorded; one round per key.
func runDupResp(rounds, copies int, split bool, staged int, base uint32) Case {
	cs := Case{Kind: "conc", Gen: "dupresp", Keys: []KeyTrace{}, Cfg: &StressCfg{Peers: 1, BindBatch: 8, TunBatch: 8}}
	transports := 0
	for r := 0; r < rounds; r++ {
		p := cosim.NewPeer("B", "192.0.2.8:6666", "10.0.1.0/24")
		w, err := cosim.NewWorld(cosim.Config{Up: true, BindBatch: 8, TunBatch: 8}, true, p)
		if err != nil {
			panic(err)
		}
		var out cosim.Out
		if staged > 0 {
			pkts := make([][]byte, staged)
			for i := range pkts {
				pkts[i] = stress.Packet([4]byte{10, 9, 9, 9}, [4]byte{10, 0, 1, 77}, 60, 1, uint64(i+1))
			}
			out = w.TunIn(pkts...)
		} else { // nothing but a keepalive is staged: the handshake is started by turning persistent keepalive on
			_, out = w.Set(fmt.Sprintf("public_key=%s\npersistent_keepalive_interval=3600\n", hex.EncodeToString(p.Pub[:])))
		}
		init := cosim.FindInitiation(out.Sent)
		if init == nil {
			w.Close()
			continue
		}
		rs, err := ref.ConsumeInitiation(init.Data, p.Priv)
		if err != nil {
			w.Close()
			continue
		}
		idx := base + uint32(r)
		resp, _ := rs.CreateResponse(ref.NewPrivate(), p.Psk, idx)
		ds := make([]sim.Dgram, copies)
		for i := range ds {
			ds[i] = sim.Dgram{From: p.Addr, Data: resp}
		}
		if split && copies > 1 {
			w.Bind.Inject(ds[:copies/2]...)
			w.Bind.Inject(ds[copies/2:]...)
		} else {
			w.Bind.Inject(ds...)
		}
		out = w.Take()
		kt := KeyTrace{Key: idx}
		for _, s := range out.Sent {
			if len(s.Data) >= 32 && s.Data[0] == ref.TypeTransport && binary.LittleEndian.Uint32(s.Data[4:8]) == idx {
				kt.Runs = append(kt.Runs, [2]uint64{binary.LittleEndian.Uint64(s.Data[8:16]), 1})
				transports++
			}
		}
		cs.Keys = append(cs.Keys, kt)
		w.Close()
	}
	cs.Info = map[string]any{"transports": transports, "keys": len(cs.Keys), "keys_reached_limit": 0, "out_of_order_neighbours": 0,
		"expires": 0, "hung": 0, "copies": copies, "split": split, "staged": staged, "rounds": rounds}
	return cs
}

// isolatedSeq runs one scenario in a child process.  A scenario on which the
// device does not come to rest (or crashes) is run a second time; if that
// happens again it is reported as stuck (a livelock in SendStagedPackets, say,
// is a violation of "stops using the key and negotiates a new session").
func isolatedSeq(evs []Ev, gen string, bb int, long bool) Case {
	js, _ := json.Marshal(map[string]any{"evs": evs, "bb": bb, "long": long})
	var last string
	for attempt := 0; attempt < 2; attempt++ {
		cmd := exec.Command(os.Args[0], "-scen", string(js))
		var stderr strings.Builder
		cmd.Stderr = &stderr
		done := make(chan struct{})
		var out []byte
		var err error
		go func() { out, err = cmd.Output(); close(done) }()
		select {
		case <-done:
		case <-time.After(60 * time.Second):
			cmd.Process.Kill()
			<-done
			err = fmt.Errorf("timeout")
		}
		var cs Case
		if err == nil && json.Unmarshal(out, &cs) == nil && cs.Kind == "seq" {
			cs.Gen = gen
			cs.Long = long
			if !cs.Slow {
				return cs
			}
			last = "a step did not settle"
			continue
		}
		last = fmt.Sprintf("%v: %s", err, stderr.String())
		if len(last) > 600 {
			last = last[:600]
		}
	}
	return Case{Kind: "seq", Gen: gen, Evs: evs, Obs: []Obs{}, BB: bb, Long: long, Stuck: true, Info: map[string]any{"stuck": last}}
}

// isolatedStress runs one stress world in a child process: a deadlocked or
// crashed device cannot disturb the quiescence detection of the next world.
func isolatedStress(c StressCfg) Case {
	js, _ := json.Marshal(c)
	cmd := exec.Command(os.Args[0], "-world", string(js))
	var stderr strings.Builder
	cmd.Stderr = &stderr
	done := make(chan struct{})
	var out []byte
	var err error
	go func() { out, err = cmd.Output(); close(done) }()
	select {
	case <-done:
	case <-time.After(time.Duration(c.DurMs)*time.Millisecond + 90*time.Second):
		cmd.Process.Kill()
		<-done
		err = fmt.Errorf("timeout")
	}
	var cs Case
	if err == nil && json.Unmarshal(out, &cs) == nil && cs.Info != nil {
		return cs
	}
	msg := stderr.String()
	if len(msg) > 600 {
		msg = msg[:600]
	}
	// nothing observed: an empty trace (counted as a hung world, never as a violation of C04)
	return Case{Kind: "conc", Gen: "stress", Cfg: &c, Keys: []KeyTrace{}, Slow: true,
		Info: map[string]any{"crash": fmt.Sprintf("%v: %s", err, msg), "transports": 0, "keys": 0, "keys_reached_limit": 0,
			"out_of_order_neighbours": 0, "expires": 0, "hung": 1}}
}

// ---------------------------------------------------------------- Gallina

func hilo(v uint64) string { return fmt.Sprintf("%d %d", v>>32, v&0xffffffff) }

func gallinaSeq(c Case) string {
	var b strings.Builder
	if c.Stuck {
		return "CStuck"
	}
	b.WriteString("CSeq [")
	for i, e := range c.Evs {
		if i > 0 {
			b.WriteString(";\n  ")
		}
		o := c.Obs[i]
		b.WriteString("(")
		switch e.K {
		case "set":
			fmt.Fprintf(&b, "eSet %s", hilo(e.V))
		case "tun", "tungso": // the slice model knows no difference: a GSO fallback is not a failed send
			b.WriteString("eTun [")
			for k := 0; k < e.N; k++ {
				if k > 0 {
					b.WriteString(";")
				}
				fmt.Fprintf(&b, "%d", o.First+uint64(k))
			}
			b.WriteString("]")
		case "ans":
			fmt.Fprintf(&b, "eAns %d", o.Idx)
		case "allow":
			b.WriteString("eAllow")
		case "uapi":
			fmt.Fprintf(&b, "eUapi %v", o.PkaOn)
		case "tunerr", "tunierr":
			if e.K == "tunerr" {
				b.WriteString("eTunErr [")
			} else {
				b.WriteString("eTunIErr [")
			}
			for k := 0; k < e.N; k++ {
				if k > 0 {
					b.WriteString(";")
				}
				fmt.Fprintf(&b, "%d", o.First+uint64(k))
			}
			b.WriteString("]")
			if e.K == "tunerr" {
				fmt.Fprintf(&b, " %d [", e.Kf)
				for k, id := range o.Lost {
					if k > 0 {
						b.WriteString(";")
					}
					fmt.Fprintf(&b, "%d", id)
				}
				b.WriteString("]")
			}
		case "retransmit":
			b.WriteString("eRetransmit")
		case "refinit":
			fmt.Fprintf(&b, "eRefInit %d", o.Idx)
		case "refdata":
			b.WriteString("eRefData")
		}
		b.WriteString(", mko [")
		for k := 0; k < len(o.Tx); {
			t := o.Tx[k]
			n := 1
			for k+n < len(o.Tx) && t.Pl != 0 && o.Tx[k+n].Idx == t.Idx && o.Tx[k+n].Ctr == t.Ctr+uint64(n) && o.Tx[k+n].Pl == t.Pl+uint64(n) {
				n++
			}
			if k > 0 {
				b.WriteString(";")
			}
			if n > 1 {
				fmt.Fprintf(&b, "txrun %d %s %d %d", t.Idx, hilo(t.Ctr), t.Pl, n)
			} else {
				fmt.Fprintf(&b, "[tx %d %s %d]", t.Idx, hilo(t.Ctr), t.Pl)
			}
			k += n
		}
		fmt.Fprintf(&b, "] %d)", o.Init)
	}
	b.WriteString("] [")
	for i, o := range c.Obs {
		if i > 0 {
			b.WriteString(";")
		}
		if o.HasKey {
			fmt.Fprintf(&b, "nn %s", hilo(o.Nonce))
		} else {
			b.WriteString("None")
		}
	}
	b.WriteString("]")
	return b.String()
}

func gallinaConc(c Case) string {
	var b strings.Builder
	b.WriteString("CConc [")
	for i, k := range c.Keys {
		if i > 0 {
			b.WriteString(";\n  ")
		}
		fmt.Fprintf(&b, "ktr %d [", k.Key)
		// segments: a new one whenever the offset from the base would leave 0..2^31
		first := true
		for j := 0; j < len(k.Runs); {
			base := k.Runs[j][0]
			// the base is the smallest start among the runs that follow within reach
			if !first {
				b.WriteString(";")
			}
			first = false
			fmt.Fprintf(&b, "seg %s [", hilo(base))
			n := 0
			for j < len(k.Runs) && k.Runs[j][0] >= base && k.Runs[j][0]-base < 1<<31 {
				if n > 0 {
					b.WriteString(";")
				}
				fmt.Fprintf(&b, "%d;%d", k.Runs[j][0]-base, k.Runs[j][1])
				n++
				j++
			}
			b.WriteString("]")
		}
		b.WriteString("]")
	}
	b.WriteString("]")
	return b.String()
}

func writeShard(path string, cases []Case) error {
	var b strings.Builder
	b.WriteString("From Coq Require Import Uint63.\nFrom WG Require Import Base.Prelude Nonce.Seq Nonce.Spec Nonce.Check.\nLocal Open Scope uint63_scope.\nDefinition cases : list case := [\n")
	for i, c := range cases {
		if i > 0 {
			b.WriteString(";\n")
		}
		if c.Kind == "seq" {
			b.WriteString(gallinaSeq(c))
		} else {
			b.WriteString(gallinaConc(c))
		}
	}
	b.WriteString("].\nDefinition bad := Eval vm_compute in (check_cases cases 0%N).\nPrint bad.\nDefinition st := Eval vm_compute in (stats cases).\nPrint st.\n")
	return os.WriteFile(path, []byte(b.String()), 0o644)
}

// ---------------------------------------------------------------- main

func main() {
	seed := flag.Int64("seed", 1, "PRNG seed")
	n := flag.Int("n", 60, "number of random sequential scenarios (the directed ones are always run)")
	worlds := flag.Int("worlds", 5, "number of stress worlds")
	durMs := flag.Int("dur-ms", 2000, "stress duration per world")
	shards := flag.Int("shards", 8, "case files for the sequential scenarios")
	out := flag.String("out", "out/C04", "output directory")
	replayIn := flag.String("replay", "", "JSON file with cases to re-run")
	corpus := flag.String("corpus", "", "directory of corpus JSON cases to run first")
	scen := flag.String("scen", "", "run this single scenario (JSON {evs,bb}) in-process and print the case as JSON")
	cross := flag.Int("cross", 2, "number of crossing stress worlds")
	dupr := flag.Int("dup-rounds", 7, "rounds per duplicate-response family (6 families per run)")
	world := flag.String("world", "", "run this single stress configuration (JSON) in-process and print the case as JSON")
	flag.Parse()
	if *scen != "" {
		var in struct {
			Evs  []Ev `json:"evs"`
			BB   int  `json:"bb"`
			Long bool `json:"long"`
		}
		if err := json.Unmarshal([]byte(*scen), &in); err != nil {
			panic(err)
		}
		aev, obs, slow := runSeq(in.Evs, in.BB, in.Long)
		data, _ := json.Marshal(Case{Kind: "seq", Evs: aev, Obs: obs, Slow: slow, BB: in.BB, Long: in.Long})
		os.Stdout.Write(data)
		return
	}
	if *world != "" {
		var c StressCfg
		if err := json.Unmarshal([]byte(*world), &c); err != nil {
			panic(err)
		}
		data, _ := json.Marshal(runStress(c))
		os.Stdout.Write(data)
		return
	}
	if err := os.MkdirAll(*out, 0o755); err != nil {
		panic(err)
	}
	var cases []Case
	stuck := 0
	runOne := func(evs []Ev, gen string, bb int) {
		if stuck >= 3 && *replayIn == "" {
			return // three scenarios on which the device does not come to rest are evidence enough; each costs ~20 s
		}
		c := isolatedSeq(evs, gen, bb, false)
		if c.Stuck {
			stuck++
		}
		cases = append(cases, c)
	}
	var stressCases []Case
	if *replayIn != "" {
		data, err := os.ReadFile(*replayIn)
		if err != nil {
			panic(err)
		}
		var in []Case
		if err := json.Unmarshal(data, &in); err != nil {
			panic(err)
		}
		for _, c := range in {
			if c.Kind == "conc" && c.Gen == "dupresp" && c.Info != nil {
				num := func(k string) int { f, _ := c.Info[k].(float64); return int(f) }
				sp, _ := c.Info["split"].(bool)
				cases = append(cases, runDupResp(num("rounds"), num("copies"), sp, num("staged"), 0x300000))
			} else if c.Kind == "conc" && c.Cfg != nil {
				cases = append(cases, isolatedStress(*c.Cfg))
			} else {
				if c.Long {
					cases = append(cases, isolatedSeq(c.Evs, "replay", 4, true))
				} else {
					runOne(c.Evs, "replay", 4)
				}
			}
		}
		*shards = 1
	} else {
		r := rand.New(rand.NewSource(*seed))
		if *corpus != "" {
			files, _ := filepath.Glob(filepath.Join(*corpus, "*.json"))
			sort.Strings(files)
			for _, f := range files {
				data, err := os.ReadFile(f)
				if err != nil {
					continue
				}
				var cs []Case
				if json.Unmarshal(data, &cs) == nil {
					for _, c := range cs {
						if c.Kind == "seq" || c.Kind == "" {
							runOne(c.Evs, "corpus", 4)
						}
					}
				}
			}
		}
		longDone := make(chan []Case, 1)
		go func() {
			ls := longScenarios()
			res := make([]Case, len(ls))
			var wg sync.WaitGroup
			for i, evs := range ls {
				wg.Add(1)
				go func() {
					defer wg.Done()
					res[i] = isolatedSeq(evs, "retransmit", 4, true)
				}()
			}
			wg.Wait()
			longDone <- res
		}()
		for i, evs := range directed() {
			runOne(evs, "directed", 1+i%8)
		}
		for i := 0; i < *n; i++ {
			evs, kind := genSeq(r)
			runOne(evs, kind, 1+r.Intn(16))
		}
		cases = append(cases, (<-longDone)...)
		// duplicated handshake responses (network duplication): 2..4 copies in one batch or split over two
		dupRounds := *dupr
		fam := 0
		for _, copies := range []int{2, 3, 4} {
			for _, split := range []bool{false, true} {
				for _, staged := range []int{1, 4, 0} {
					if (fam+int(*seed))%3 != 0 { // a third of the 18 families per run, rotating with the seed
						fam++
						continue
					}
					stressCases = append(stressCases, runDupResp(dupRounds, copies, split, staged, uint32(0x200000+fam*1000)))
					fam++
				}
			}
		}
		procs := []int{runtime.NumCPU(), 1, 4, 2, 8, 16, 3}
		for i := 0; i < *worlds; i++ {
			c := StressCfg{Seed: *seed*1000 + int64(i), Peers: 1 + i%3, BindBatch: []int{1, 8, 128, 32}[r.Intn(4)], TunBatch: []int{128, 16, 1, 64}[r.Intn(4)],
				Procs: procs[i%len(procs)], Hogs: []int{0, 2, 6}[r.Intn(3)], OneIn: []int{0, 4, 16, 64}[r.Intn(4)], MaxSleep: []int{20, 100, 400}[r.Intn(3)],
				DurMs: *durMs, Phases: 8, Expire: true, PaceUs: []int{150, 400, 1000}[r.Intn(3)], AnsDelay: []int{0, 5, 30, 30}[r.Intn(4)], KA: 1 + r.Intn(3), DownUp: i%2 == 1, SendErr: []int{0, 300, 60}[i%3]}
			if c.Procs > runtime.NumCPU() {
				c.Procs = runtime.NumCPU()
			}
			stressCases = append(stressCases, isolatedStress(c))
		}
		// crossing worlds: one peer, many flushers, every 25..40 ms the counter is put 1..40 below the limit
		for i := 0; i < *cross; i++ {
			c := StressCfg{Seed: *seed*1000 + 500 + int64(i), Peers: 1, BindBatch: 8, TunBatch: []int{16, 4, 8}[i%3], Procs: []int{runtime.NumCPU(), 4, 8}[i%3],
				OneIn: 0, MaxSleep: 20, DurMs: *durMs, Phases: 2, PaceUs: 60, AnsDelay: 0, KA: 3, Cross: true}
			stressCases = append(stressCases, isolatedStress(c))
		}
	}
	if *shards > len(cases) {
		*shards = len(cases)
	}
	type shardInfo struct {
		File  string `json:"file"`
		First int    `json:"first"`
		N     int    `json:"n"`
	}
	var infos []shardInfo
	idx := 0
	if len(cases) > 0 {
		per := (len(cases) + *shards - 1) / *shards
		for s := 0; s < *shards && idx < len(cases); s++ {
			end := idx + per
			if end > len(cases) {
				end = len(cases)
			}
			name := fmt.Sprintf("cases_C04_%d.v", s)
			if err := writeShard(filepath.Join(*out, name), cases[idx:end]); err != nil {
				panic(err)
			}
			infos = append(infos, shardInfo{name, idx, end - idx})
			idx = end
		}
	}
	for i, c := range stressCases {
		name := fmt.Sprintf("cases_C04_s%d.v", i)
		if err := writeShard(filepath.Join(*out, name), []Case{c}); err != nil {
			panic(err)
		}
		infos = append(infos, shardInfo{name, len(cases), 1})
		cases = append(cases, c)
	}
	meta := map[string]any{"seed": *seed, "cases": cases, "shards": infos}
	data, _ := json.Marshal(meta)
	if err := os.WriteFile(filepath.Join(*out, "cases.json"), data, 0o644); err != nil {
		panic(err)
	}
}
