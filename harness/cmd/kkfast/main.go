// kkfast — translator for C07 / C04: reads the SOURCE of device/send.go, device/receive.go, device/constants.go,
// device/keypair.go and device/peer.go of the tree under test and prints, as Gallina (Gen/FreshAst.v), the bodies
// of (*Peer).keepKeyFreshSending and (*Peer).keepKeyFreshReceiving as terms of the deep-embedded mini-language
// of Keypairs/FreshAst.v, plus the values of the five specification constants they use.
// Keypairs/FreshAstProofs.v proves what the interpreter computes on these terms for ALL inputs.
//
// Trusted here: go/parser; the rendering below (one Go construct -> one constructor; the only desugarings are
// block -> right-nested SSeq ending in SSkip, `else if` -> SIf in the else position, constant expressions ->
// their exact value (time.Second = 10^9), the Go type of `+`/`-` written on the node); that the types are what
// the struct declarations say (checked syntactically: Keypair{sendNonce atomic.Uint64; isInitiator bool; created
// time.Time}, Peer.timers.sentLastMinuteHandshake atomic.Bool, Peer.keypairs Keypairs, Keypairs.Current()
// returning kp.current); that the Go files type-check.  Everything not recognised is emitted as
// EUnknown/BUnknown/SUnknown, on which the interpreter yields None.
package main

import (
	"flag"
	"fmt"
	"go/ast"
	"go/parser"
	"go/token"
	"go/types"
	"math/big"
	"os"
	"path/filepath"
	"reflect"
	"strings"
)

var (
	consts    = map[string]ast.Expr{}
	constBusy = map[string]bool{}
	locals    = map[string]bool{} // names declared in the function being translated: never folded as constants
	pkgNames  = map[string]bool{} // every package-level name that is not a constant (shadows nothing we fold)
	two63     = new(big.Int).Lsh(big.NewInt(1), 63)
	two64     = new(big.Int).Lsh(big.NewInt(1), 64)
	timeUnits = map[string]int64{"Nanosecond": 1, "Microsecond": 1e3, "Millisecond": 1e6, "Second": 1e9, "Minute": 60e9, "Hour": 3600e9}
)

// exact evaluation of an integer constant expression over the package constants of constants.go
func constVal(e ast.Expr) (*big.Int, bool) {
	switch v := e.(type) {
	case *ast.ParenExpr:
		return constVal(v.X)
	case *ast.BasicLit:
		if v.Kind == token.INT {
			return new(big.Int).SetString(strings.ReplaceAll(v.Value, "_", ""), 0)
		}
	case *ast.Ident:
		d, ok := consts[v.Name]
		if !ok || constBusy[v.Name] || locals[v.Name] {
			return nil, false
		}
		constBusy[v.Name] = true
		defer delete(constBusy, v.Name)
		return constVal(d)
	case *ast.SelectorExpr:
		if id, ok := v.X.(*ast.Ident); ok && id.Name == "time" && consts["time"] == nil && !pkgNames["time"] {
			if u, ok := timeUnits[v.Sel.Name]; ok {
				return big.NewInt(u), true
			}
		}
	case *ast.UnaryExpr:
		if v.Op == token.SUB {
			if a, ok := constVal(v.X); ok {
				return new(big.Int).Neg(a), true
			}
		}
	case *ast.BinaryExpr:
		a, ok1 := constVal(v.X)
		b, ok2 := constVal(v.Y)
		if !ok1 || !ok2 {
			return nil, false
		}
		r := new(big.Int)
		switch v.Op {
		case token.ADD:
			return r.Add(a, b), true
		case token.SUB:
			return r.Sub(a, b), true
		case token.MUL:
			return r.Mul(a, b), true
		case token.QUO:
			if b.Sign() != 0 {
				return r.Quo(a, b), true
			}
		case token.SHL:
			if b.Sign() >= 0 && b.IsInt64() && b.Int64() <= 512 {
				return r.Lsh(a, uint(b.Int64())), true
			}
		}
	}
	return nil, false
}

func fits(n *big.Int, ty string) bool {
	switch ty {
	case "U64":
		return n.Sign() >= 0 && n.Cmp(two64) < 0
	case "I64":
		return n.Cmp(two63) < 0 && n.Cmp(new(big.Int).Neg(two63)) >= 0
	}
	return false
}

func zlit(n *big.Int) string {
	if n.Sign() < 0 {
		return fmt.Sprintf("(%s)%%Z", n)
	}
	return fmt.Sprintf("%s%%Z", n)
}

func kind(n interface{}) string { return strings.TrimPrefix(reflect.TypeOf(n).String(), "*ast.") }

func isIdent(e ast.Expr, name string) bool {
	id, ok := e.(*ast.Ident)
	return ok && id.Name == name
}

type tr struct {
	recv string
	ints map[string]string // integer locals -> "U64" / "I64"
	kps  map[string]bool   // *Keypair locals
}

func (t *tr) declared(n string) bool { _, i := t.ints[n]; return i || t.kps[n] || n == t.recv }

// a name that means the builtin / package of that name here
func (t *tr) free(n string) bool { return !t.declared(n) && consts[n] == nil && !pkgNames[n] }

// f(args...) with f a selector: receiver expression, selected name
func method(e ast.Expr, nargs int) (ast.Expr, string, bool) {
	c, ok := e.(*ast.CallExpr)
	if !ok || len(c.Args) != nargs || c.Ellipsis != token.NoPos {
		return nil, "", false
	}
	s, ok := c.Fun.(*ast.SelectorExpr)
	if !ok {
		return nil, "", false
	}
	return s.X, s.Sel.Name, true
}

// x.<name> with x a keypair local
func (t *tr) kpField(e ast.Expr, name string) (string, bool) {
	s, ok := e.(*ast.SelectorExpr)
	if !ok || s.Sel.Name != name {
		return "", false
	}
	id, ok := s.X.(*ast.Ident)
	if ok && t.kps[id.Name] {
		return id.Name, true
	}
	return "", false
}

// peer.<a>.<b>
func (t *tr) recvPath(e ast.Expr, a, b string) bool {
	s, ok := e.(*ast.SelectorExpr)
	if !ok || s.Sel.Name != b {
		return false
	}
	s2, ok := s.X.(*ast.SelectorExpr)
	return ok && s2.Sel.Name == a && isIdent(s2.X, t.recv)
}

func unknownE(what string) (string, string) { return fmt.Sprintf("(EUnknown %q)", what), "bad" }

var binops = map[token.Token]string{token.ADD: "OAdd", token.SUB: "OSub"}
var cmpops = map[token.Token]string{token.GEQ: "CGe", token.GTR: "CGt", token.LEQ: "CLe", token.LSS: "CLt", token.EQL: "CEq", token.NEQ: "CNe"}
var casts = map[string]string{"int64": "I64", "uint64": "U64"}

// rendering and Go type ("U64", "I64", "const" with the value in the third result, "bad")
func (t *tr) expr(e ast.Expr) (string, string, *big.Int) {
	if id, ok := e.(*ast.Ident); !ok || !t.declared(id.Name) {
		if n, ok := constVal(e); ok {
			return fmt.Sprintf("(EConst %s)", zlit(n)), "const", n
		}
	}
	switch v := e.(type) {
	case *ast.ParenExpr:
		return t.expr(v.X)
	case *ast.Ident:
		if ty, ok := t.ints[v.Name]; ok {
			return fmt.Sprintf("(EVar %q)", v.Name), ty, nil
		}
	case *ast.CallExpr:
		// x.sendNonce.Load()
		if x, m, ok := method(v, 0); ok && m == "Load" {
			if k, ok := t.kpField(x, "sendNonce"); ok {
				return fmt.Sprintf("(ENonce %q)", k), "U64", nil
			}
		}
		// time.Since(x.created)
		if x, m, ok := method(v, 1); ok && m == "Since" && isIdent(x, "time") && t.free("time") {
			if k, ok := t.kpField(v.Args[0], "created"); ok {
				return fmt.Sprintf("(ESince %q)", k), "I64", nil
			}
		}
		// int64(e), uint64(e)
		if id, ok := v.Fun.(*ast.Ident); ok && len(v.Args) == 1 && t.free(id.Name) {
			if ty, ok := casts[id.Name]; ok {
				a, aty, n := t.expr(v.Args[0])
				if aty == "U64" || aty == "I64" || (aty == "const" && fits(n, ty)) {
					return fmt.Sprintf("(ECast %s %s)", ty, a), ty, nil
				}
			}
		}
	case *ast.BinaryExpr:
		if op, ok := binops[v.Op]; ok {
			a, aty, an := t.expr(v.X)
			b, bty, bn := t.expr(v.Y)
			ty := aty
			if aty == "const" {
				ty = bty
			}
			if (ty == "U64" || ty == "I64") && (aty == ty || (aty == "const" && fits(an, ty))) && (bty == ty || (bty == "const" && fits(bn, ty))) {
				return fmt.Sprintf("(EBin %s %s %s %s)", ty, op, a, b), ty, nil
			}
			s, k := unknownE("BinaryExpr " + v.Op.String() + " operand types")
			return s, k, nil
		}
		s, k := unknownE("BinaryExpr " + v.Op.String())
		return s, k, nil
	}
	s, k := unknownE(kind(e))
	return s, k, nil
}

func unknownB(what string) string { return fmt.Sprintf("(BUnknown %q)", what) }

func (t *tr) boolLit(e ast.Expr) (string, bool) {
	if id, ok := e.(*ast.Ident); ok && (id.Name == "true" || id.Name == "false") && t.free(id.Name) {
		return id.Name, true
	}
	return "", false
}

func (t *tr) bexpr(e ast.Expr) string {
	switch v := e.(type) {
	case *ast.ParenExpr:
		return t.bexpr(v.X)
	case *ast.Ident:
		if b, ok := t.boolLit(v); ok {
			return fmt.Sprintf("(BLit %s)", b)
		}
	case *ast.SelectorExpr:
		if k, ok := t.kpField(v, "isInitiator"); ok {
			return fmt.Sprintf("(BIsInit %q)", k)
		}
	case *ast.UnaryExpr:
		if v.Op == token.NOT {
			return fmt.Sprintf("(BNot %s)", t.bexpr(v.X))
		}
	case *ast.CallExpr:
		// peer.timers.sentLastMinuteHandshake.Load() / .CompareAndSwap(old, new)
		if x, m, ok := method(v, 0); ok && m == "Load" && t.recvPath(x, "timers", "sentLastMinuteHandshake") {
			return "BFlagLoad"
		}
		if x, m, ok := method(v, 2); ok && m == "CompareAndSwap" && t.recvPath(x, "timers", "sentLastMinuteHandshake") {
			o, ok1 := t.boolLit(v.Args[0])
			n, ok2 := t.boolLit(v.Args[1])
			if ok1 && ok2 {
				return fmt.Sprintf("(BFlagCAS %s %s)", o, n)
			}
		}
	case *ast.BinaryExpr:
		switch v.Op {
		case token.LAND:
			return fmt.Sprintf("(BAnd %s %s)", t.bexpr(v.X), t.bexpr(v.Y))
		case token.LOR:
			return fmt.Sprintf("(BOr %s %s)", t.bexpr(v.X), t.bexpr(v.Y))
		}
		// x == nil, x != nil
		if id, ok := v.X.(*ast.Ident); ok && t.kps[id.Name] && isIdent(v.Y, "nil") && t.free("nil") {
			switch v.Op {
			case token.EQL:
				return fmt.Sprintf("(BIsNil %q)", id.Name)
			case token.NEQ:
				return fmt.Sprintf("(BNotNil %q)", id.Name)
			}
		}
		if op, ok := cmpops[v.Op]; ok {
			a, aty, an := t.expr(v.X)
			b, bty, bn := t.expr(v.Y)
			ty := aty
			if aty == "const" {
				ty = bty
			}
			okA := aty == ty || (aty == "const" && fits(an, ty))
			okB := bty == ty || (bty == "const" && fits(bn, ty))
			if ty == "const" || ((ty == "U64" || ty == "I64") && okA && okB) {
				return fmt.Sprintf("(BCmp %s %s %s)", op, a, b)
			}
			return unknownB("comparison operand types")
		}
		return unknownB("BinaryExpr " + v.Op.String())
	}
	return unknownB(kind(e))
}

func unknownS(what string) string { return fmt.Sprintf("(SUnknown %q)", what) }

func (t *tr) stmt(s ast.Stmt, ind string) string {
	switch v := s.(type) {
	case *ast.BlockStmt:
		return t.block(v, ind)
	case *ast.ExprStmt:
		// peer.timers.sentLastMinuteHandshake.Store(b)
		if x, m, ok := method(v.X, 1); ok && m == "Store" && t.recvPath(x, "timers", "sentLastMinuteHandshake") {
			if b, ok := t.boolLit(v.X.(*ast.CallExpr).Args[0]); ok {
				return fmt.Sprintf("(SFlagStore %s)", b)
			}
		}
		// peer.SendHandshakeInitiation(b)
		if x, m, ok := method(v.X, 1); ok && m == "SendHandshakeInitiation" && isIdent(x, t.recv) {
			if b, ok := t.boolLit(v.X.(*ast.CallExpr).Args[0]); ok {
				return fmt.Sprintf("(SInitiate %s)", b)
			}
		}
		// CompareAndSwap used as a statement
		if b := t.bexpr(v.X); strings.HasPrefix(b, "(BFlagCAS ") {
			return fmt.Sprintf("(SEval %s)", b)
		}
		return unknownS("ExprStmt")
	case *ast.AssignStmt:
		if len(v.Lhs) != 1 || len(v.Rhs) != 1 || v.Tok != token.DEFINE {
			return unknownS("AssignStmt")
		}
		id, ok := v.Lhs[0].(*ast.Ident)
		if !ok || id.Name == "_" || t.declared(id.Name) {
			return unknownS("AssignStmt define")
		}
		// x := peer.keypairs.Current()
		if x, m, ok := method(v.Rhs[0], 0); ok && m == "Current" {
			if sx, ok := x.(*ast.SelectorExpr); ok && sx.Sel.Name == "keypairs" && isIdent(sx.X, t.recv) {
				t.kps[id.Name] = true
				locals[id.Name] = true
				return fmt.Sprintf("(SCurrent %q)", id.Name)
			}
		}
		rhs, ty, _ := t.expr(v.Rhs[0])
		if ty == "U64" || ty == "I64" {
			t.ints[id.Name] = ty
			locals[id.Name] = true
			return fmt.Sprintf("(SDefine %q %s)", id.Name, rhs)
		}
		return unknownS("AssignStmt define: right-hand side")
	case *ast.IfStmt:
		if v.Init != nil {
			return unknownS("IfStmt init")
		}
		c := t.bexpr(v.Cond)
		th := t.block(v.Body, ind+"  ")
		el := "SSkip"
		switch e := v.Else.(type) {
		case nil:
		case *ast.IfStmt:
			el = t.stmt(e, ind+"  ")
		case *ast.BlockStmt:
			el = t.block(e, ind+"  ")
		default:
			el = unknownS("IfStmt else")
		}
		return fmt.Sprintf("(SIf %s\n%s  %s\n%s  %s)", c, ind, th, ind, el)
	case *ast.ReturnStmt:
		if len(v.Results) == 0 {
			return "SReturn"
		}
		return unknownS("ReturnStmt")
	}
	return unknownS(kind(s))
}

func (t *tr) block(b *ast.BlockStmt, ind string) string {
	var sb strings.Builder
	for _, s := range b.List {
		sb.WriteString("(SSeq " + t.stmt(s, ind+"  ") + "\n" + ind)
	}
	sb.WriteString("SSkip" + strings.Repeat(")", len(b.List)))
	return sb.String()
}

// does the struct have the field "name type" (searching nested anonymous struct `outer` when given)
func hasField(st *ast.StructType, outer, name, ty string) bool {
	for _, f := range st.Fields.List {
		for _, n := range f.Names {
			if outer != "" && n.Name == outer {
				if in, ok := f.Type.(*ast.StructType); ok {
					return hasField(in, "", name, ty)
				}
			}
			if outer == "" && n.Name == name && types.ExprString(f.Type) == ty {
				return true
			}
		}
	}
	return false
}

func main() {
	repo := flag.String("repo", "/repo", "tree under test")
	flag.Parse()
	fset := token.NewFileSet()
	parse := func(name string) *ast.File {
		f, err := parser.ParseFile(fset, filepath.Join(*repo, "device", name), nil, 0)
		if err != nil {
			fmt.Fprintln(os.Stderr, "kkfast: cannot parse device/"+name)
			os.Exit(1)
		}
		return f
	}
	files := map[string]*ast.File{}
	for _, n := range []string{"constants.go", "keypair.go", "peer.go", "send.go", "receive.go"} {
		files[n] = parse(n)
	}
	timeOK := map[string]bool{}
	funcs := map[string]*ast.FuncDecl{}
	funcFile := map[string]string{}
	kpOK, peerOK, curOK := false, false, false
	for _, name := range []string{"constants.go", "keypair.go", "peer.go", "send.go", "receive.go"} {
		file := files[name]
		for _, im := range file.Imports {
			if im.Path.Value == `"time"` && im.Name == nil {
				timeOK[name] = true
			}
		}
		for _, d := range file.Decls {
			switch v := d.(type) {
			case *ast.GenDecl:
				for _, sp := range v.Specs {
					switch s := sp.(type) {
					case *ast.ValueSpec:
						for i, n := range s.Names {
							if v.Tok == token.CONST && name == "constants.go" && len(s.Names) == len(s.Values) {
								consts[n.Name] = s.Values[i]
							} else {
								pkgNames[n.Name] = true
							}
						}
					case *ast.TypeSpec:
						pkgNames[s.Name.Name] = true
						st, ok := s.Type.(*ast.StructType)
						if !ok {
							continue
						}
						if s.Name.Name == "Keypair" && name == "keypair.go" {
							kpOK = hasField(st, "", "sendNonce", "atomic.Uint64") && hasField(st, "", "isInitiator", "bool") && hasField(st, "", "created", "time.Time")
						}
						if s.Name.Name == "Peer" && name == "peer.go" {
							peerOK = hasField(st, "timers", "sentLastMinuteHandshake", "atomic.Bool") && hasField(st, "", "keypairs", "Keypairs")
						}
					}
				}
			case *ast.FuncDecl:
				if v.Recv == nil {
					pkgNames[v.Name.Name] = true
					continue
				}
				if len(v.Recv.List) != 1 || v.Body == nil || len(v.Recv.List[0].Names) != 1 {
					continue
				}
				st, ok := v.Recv.List[0].Type.(*ast.StarExpr)
				if !ok {
					continue
				}
				if isIdent(st.X, "Peer") && v.Recv.List[0].Names[0].Name != "_" {
					funcs[v.Name.Name] = v
					funcFile[v.Name.Name] = name
				}
				// func (kp *Keypairs) Current() *Keypair { kp.RLock(); defer kp.RUnlock(); return kp.current }
				if isIdent(st.X, "Keypairs") && v.Name.Name == "Current" && name == "keypair.go" {
					r := v.Recv.List[0].Names[0].Name
					if n := len(v.Body.List); n > 0 && v.Type.Params.NumFields() == 0 {
						if rs, ok := v.Body.List[n-1].(*ast.ReturnStmt); ok && len(rs.Results) == 1 {
							if s, ok := rs.Results[0].(*ast.SelectorExpr); ok && s.Sel.Name == "current" && isIdent(s.X, r) {
								curOK = true
							}
						}
					}
				}
			}
		}
	}
	// a package-level name that collides with a constant makes the constant table unreliable
	for n := range consts {
		if pkgNames[n] {
			delete(consts, n)
		}
	}

	body := func(fn, file string) string {
		fd := funcs[fn]
		if fd == nil || funcFile[fn] != file {
			return unknownS("function not found in device/" + file)
		}
		if !kpOK || !peerOK || !curOK || !timeOK[file] || !timeOK["constants.go"] {
			return unknownS("Keypair / Peer / Keypairs.Current / time import not as expected")
		}
		if fd.Type.Params.NumFields() != 0 || fd.Type.Results.NumFields() != 0 || fd.Type.TypeParams != nil {
			return unknownS("signature")
		}
		locals = map[string]bool{fd.Recv.List[0].Names[0].Name: true}
		t := &tr{recv: fd.Recv.List[0].Names[0].Name, ints: map[string]string{}, kps: map[string]bool{}}
		return t.block(fd.Body, "  ")
	}

	fmt.Println("(* GENERATED by harness/cmd/kkfast from device/{send,receive,constants,keypair,peer}.go of the tree under test. Do not edit. *)")
	fmt.Println("From Coq Require Import ZArith String.")
	fmt.Println("From WG Require Import Keypairs.FreshAst.")
	fmt.Println("Local Open Scope string_scope.")
	fmt.Println()
	fmt.Println("(* specification constants of device/constants.go, evaluated exactly (time.Second = 10^9 ns); 0 when absent *)")
	for _, c := range []string{"RekeyAfterMessages", "RejectAfterMessages", "RekeyAfterTime", "RejectAfterTime", "KeepaliveTimeout", "RekeyTimeout"} {
		val := "0%Z"
		if n, ok := constVal(ast.NewIdent(c)); ok {
			val = zlit(n)
		}
		fmt.Printf("Definition c_%s : Z := %s.\n", c, val)
	}
	fmt.Println()
	fmt.Println("(* device/send.go: func (peer *Peer) keepKeyFreshSending() *)")
	fmt.Printf("Definition kkf_sending_body : stmt :=\n  %s.\n\n", body("keepKeyFreshSending", "send.go"))
	fmt.Println("(* device/receive.go: func (peer *Peer) keepKeyFreshReceiving() *)")
	fmt.Printf("Definition kkf_receiving_body : stmt :=\n  %s.\n", body("keepKeyFreshReceiving", "receive.go"))
}
