// c08 drives device.AllowedIPs (public API: Insert, Remove, RemoveByPeer,
// Lookup, EntriesForPeer; plus the verif-tag accessors VerifDump and
// VerifCheckPointers) with generated operation histories and writes them,
// with everything observed, as Gallina case files + JSON.
package main

import (
	"encoding/binary"
	"encoding/json"
	"flag"
	"fmt"
	"math/rand"
	"net/netip"
	"os"
	"path/filepath"
	"sort"
	"strings"
	"sync"
	"time"

	"golang.zx2c4.com/wireguard/device"
)

const (
	kInsert       = 1
	kRemove       = 2
	kRemoveByPeer = 3
)

type Op struct {
	K int    `json:"k"`           // 1 insert, 2 remove, 3 remove-by-peer
	F int    `json:"f,omitempty"` // 4 / 6
	C int    `json:"c"`           // prefix length
	P int    `json:"p"`           // peer id
	A string `json:"a,omitempty"` // address of the prefix, host bits may be set
	O bool   `json:"o,omitempty"` // observe after this op
}

type Ob struct {
	At    int        `json:"at"` // index of the op after which this was observed, -1 = initial
	Look  []int      `json:"look"`
	Lists [][]uint32 `json:"lists"` // per peer: 6 numbers per entry
	Sh4   []uint32   `json:"sh4"`
	Sh6   []uint32   `json:"sh6"`
}

type Feat struct {
	Glue     bool `json:"glue"`     // a node without owner was seen
	Removed  int  `json:"removed"`  // removes that hit an entry of that owner
	Reassign int  `json:"reassign"` // inserts of a stored prefix
	ByPeer   int  `json:"bypeer"`   // remove-by-peer of a peer that owned something
	HostBits int  `json:"hostbits"` // ops whose address had bits set beyond the prefix length
	Emptied  bool `json:"emptied"`  // the history ends with an empty table after having had entries
}

type Case struct {
	Ops    []Op     `json:"ops"`
	NPeers int      `json:"npeers"`
	Probes []string `json:"probes"`
	Init   bool     `json:"init,omitempty"`
	Gen    string   `json:"gen"`

	Obs      []Ob   `json:"obs"`
	PtrBad   int    `json:"ptr_bad"` // 0, or 1 + item index
	PtrMsg   string `json:"ptr_msg,omitempty"`
	Crash    int    `json:"crash"` // 0, or 1 + item index
	CrashMsg string `json:"crash_msg,omitempty"`
	Feat     Feat   `json:"feat"`

	Conc    *ConcPlan  `json:"conc,omitempty"` // concurrent phase after the sequential one (conc.go)
	ConcRes ConcResult `json:"conc_res"`
}

// ---------- addresses ----------

func words(a netip.Addr) [4]uint32 {
	var w [4]uint32
	if a.Is4() {
		b := a.As4()
		w[0] = binary.BigEndian.Uint32(b[:])
	} else {
		b := a.As16()
		for i := 0; i < 4; i++ {
			w[i] = binary.BigEndian.Uint32(b[4*i:])
		}
	}
	return w
}

func famOf(a netip.Addr) int {
	if a.Is4() {
		return 4
	}
	return 6
}

func addrFrom(f int, b []byte) netip.Addr {
	if f == 4 {
		return netip.AddrFrom4([4]byte(b[:4]))
	}
	return netip.AddrFrom16([16]byte(b[:16]))
}

func bytesOf(a netip.Addr) []byte {
	if a.Is4() {
		b := a.As4()
		return b[:]
	}
	b := a.As16()
	return b[:]
}

// first and last address of the prefix a/c
func bounds(a netip.Addr, c int) (first, last netip.Addr) {
	b := bytesOf(a)
	lo := append([]byte{}, b...)
	hi := append([]byte{}, b...)
	for i := range b {
		for j := 0; j < 8; j++ {
			if i*8+j >= c {
				lo[i] &^= 0x80 >> j
				hi[i] |= 0x80 >> j
			}
		}
	}
	return addrFrom(famOf(a), lo), addrFrom(famOf(a), hi)
}

func step(a netip.Addr, up bool) netip.Addr {
	b := append([]byte{}, bytesOf(a)...)
	for i := len(b) - 1; i >= 0; i-- {
		if up {
			b[i]++
			if b[i] != 0 {
				break
			}
		} else {
			b[i]--
			if b[i] != 0xff {
				break
			}
		}
	}
	return addrFrom(famOf(a), b)
}

func randomize(r *rand.Rand, a netip.Addr, from int) netip.Addr {
	b := append([]byte{}, bytesOf(a)...)
	for i := from; i < len(b)*8; i++ {
		if r.Intn(2) == 0 {
			b[i/8] ^= 0x80 >> (i % 8)
		}
	}
	return addrFrom(famOf(a), b)
}

func masked(a netip.Addr, c int) netip.Prefix {
	lo, _ := bounds(a, c)
	return netip.PrefixFrom(lo, c)
}

// ---------- running the implementation ----------

type progress struct {
	sync.Mutex
	obs      []Ob
	ptrBad   int
	ptrMsg   string
	item     int // index of the item being executed
	done     bool
	crashMsg string
	glue     bool
}

func observe(table *device.AllowedIPs, peers []*device.Peer, id map[*device.Peer]int, probes []netip.Addr, at int) (Ob, bool) {
	ob := Ob{At: at, Look: make([]int, len(probes)), Lists: make([][]uint32, len(peers))}
	for i, a := range probes {
		p := table.Lookup(bytesOf(a))
		if p == nil {
			ob.Look[i] = 0
		} else if k, ok := id[p]; ok {
			ob.Look[i] = k + 1
		} else {
			ob.Look[i] = 1 << 20
		}
	}
	for i, p := range peers {
		l := []uint32{}
		n := 0
		table.EntriesForPeer(p, func(pf netip.Prefix) bool {
			w := words(pf.Addr())
			bits := uint32(999) // an invalid netip.Prefix (Bits() == -1) is listed with an impossible length
			if pf.IsValid() && pf.Bits() >= 0 {
				bits = uint32(pf.Bits())
			}
			l = append(l, uint32(famOf(pf.Addr())), bits, w[0], w[1], w[2], w[3])
			n++
			return n < 1<<16
		})
		ob.Lists[i] = l
	}
	d4, d6, _ := table.VerifDump()
	glue := false
	enc := func(d []device.VerifTrieNode, f int) []uint32 {
		out := []uint32{}
		for _, n := range d {
			if n.Nil {
				out = append(out, 0)
				continue
			}
			o := uint32(0)
			if n.Peer != nil {
				if k, ok := id[n.Peer]; ok {
					o = uint32(k + 1)
				} else {
					o = 1 << 20
				}
			} else {
				glue = true
			}
			out = append(out, uint32(n.Cidr)+1, o)
			bs := make([]byte, 16)
			copy(bs, n.Bits)
			nw := 1
			if f == 6 {
				nw = 4
			}
			for i := 0; i < nw; i++ {
				out = append(out, binary.BigEndian.Uint32(bs[4*i:]))
			}
		}
		return out
	}
	ob.Sh4 = enc(d4, 4)
	ob.Sh6 = enc(d6, 6)
	return ob, glue
}

func runImpl(c *Case) {
	probes := make([]netip.Addr, len(c.Probes))
	for i, s := range c.Probes {
		probes[i] = netip.MustParseAddr(s)
	}
	pr := &progress{}
	fin := make(chan struct{})
	go func() {
		defer func() {
			if e := recover(); e != nil {
				pr.Lock()
				pr.crashMsg = fmt.Sprint("panic: ", e)
				pr.done = true
				pr.Unlock()
				close(fin)
			}
		}()
		table := new(device.AllowedIPs)
		peers := make([]*device.Peer, c.NPeers)
		id := map[*device.Peer]int{}
		for i := range peers {
			peers[i] = &device.Peer{}
			id[peers[i]] = i
		}
		item := 0
		if c.Init {
			ob, _ := observe(table, peers, id, probes, -1)
			item++
			pr.Lock()
			pr.obs = append(pr.obs, ob)
			pr.item = item
			pr.Unlock()
		}
		for i, o := range c.Ops {
			switch o.K {
			case kInsert:
				table.Insert(netip.PrefixFrom(netip.MustParseAddr(o.A), o.C), peers[o.P])
			case kRemove:
				table.Remove(netip.PrefixFrom(netip.MustParseAddr(o.A), o.C), peers[o.P])
			case kRemoveByPeer:
				table.RemoveByPeer(peers[o.P])
			}
			msg := table.VerifCheckPointers(peers)
			pr.Lock()
			if msg != "" && pr.ptrBad == 0 {
				pr.ptrBad = item + 1
				pr.ptrMsg = msg
			}
			item++
			pr.item = item
			pr.Unlock()
			if o.O {
				ob, glue := observe(table, peers, id, probes, i)
				item++
				pr.Lock()
				pr.obs = append(pr.obs, ob)
				pr.glue = pr.glue || glue
				pr.item = item
				pr.Unlock()
			}
		}
		pr.Lock()
		pr.done = true
		pr.Unlock()
		close(fin)
	}()
	select {
	case <-fin:
	case <-time.After(10 * time.Second):
	}
	pr.Lock()
	defer pr.Unlock()
	c.Obs = append([]Ob{}, pr.obs...)
	c.PtrBad, c.PtrMsg = pr.ptrBad, pr.ptrMsg
	c.Crash, c.CrashMsg = 0, ""
	if !pr.done {
		c.Crash = pr.item + 1
		c.CrashMsg = "no answer within 10 s"
	} else if pr.crashMsg != "" {
		c.Crash = pr.item + 1
		c.CrashMsg = pr.crashMsg
	}
	c.Feat.Glue = pr.glue
}

// features of the history computed from the inputs alone (naive map)
func features(c *Case) {
	m := map[netip.Prefix]int{}
	had := false
	f := &c.Feat
	f.Removed, f.Reassign, f.ByPeer, f.HostBits = 0, 0, 0, 0
	for _, o := range c.Ops {
		if o.K == kRemoveByPeer {
			hit := false
			for k, v := range m {
				if v == o.P {
					delete(m, k)
					hit = true
				}
			}
			if hit {
				f.ByPeer++
			}
			continue
		}
		a := netip.MustParseAddr(o.A)
		pf := masked(a, o.C)
		if pf.Addr() != a {
			f.HostBits++
		}
		if o.K == kInsert {
			if _, ok := m[pf]; ok {
				f.Reassign++
			}
			m[pf] = o.P
			had = true
		} else if v, ok := m[pf]; ok && v == o.P {
			delete(m, pf)
			f.Removed++
		}
	}
	f.Emptied = had && len(m) == 0
}

// ---------- generators ----------

func u32addr(v uint32) netip.Addr {
	var b [4]byte
	binary.BigEndian.PutUint32(b[:], v)
	return netip.AddrFrom4(b)
}

func u128addr(hi, lo uint64) netip.Addr {
	var b [16]byte
	binary.BigEndian.PutUint64(b[:8], hi)
	binary.BigEndian.PutUint64(b[8:], lo)
	return netip.AddrFrom16(b)
}

var chain4 = []int{5, 7, 8, 9, 15, 16, 17, 23, 24, 25, 27}
var chain6 = []int{5, 7, 8, 9, 31, 32, 33, 62, 63, 64, 65, 66, 95, 96, 97, 120, 123}

// dense family: every prefix of length 0..4, every prefix of the last five
// lengths under each stem, and a chain of intermediate lengths along each stem
func denseFamily(f int, stems []netip.Addr) []netip.Prefix {
	w := 32
	chain := chain4
	if f == 6 {
		w = 128
		chain = chain6
	}
	seen := map[netip.Prefix]bool{}
	var out []netip.Prefix
	add := func(p netip.Prefix) {
		if !seen[p] {
			seen[p] = true
			out = append(out, p)
		}
	}
	zero := addrFrom(f, make([]byte, 16))
	for l := 0; l <= 4; l++ {
		for v := 0; v < 1<<l; v++ {
			b := append([]byte{}, bytesOf(zero)...)
			b[0] = byte(v << (8 - l))
			add(netip.PrefixFrom(addrFrom(f, b), l))
		}
	}
	for _, s := range stems {
		for l := w - 4; l <= w; l++ {
			for v := 0; v < 1<<(l-(w-4)); v++ {
				b := append([]byte{}, bytesOf(s)...)
				b[len(b)-1] = b[len(b)-1]&0xf0 | byte(v<<(w-l))
				add(masked(addrFrom(f, b), l))
			}
		}
		for _, l := range chain {
			add(masked(s, l))
		}
	}
	return out
}

var stems4 = []netip.Addr{u32addr(0x0A4DC3A0), u32addr(0x0A4DC3A0 ^ 1<<13), u32addr(0xC0A80150)}
var stems6 = []netip.Addr{
	u128addr(0x20010db8a1b2c3d4, 0x5e6f708192a3b4c0),
	u128addr(0x20010db8a1b2c3d4, 0x5e6f708192a3b4c0^1<<57), // forks at bit 70
	u128addr(0x20010db8a1b2c3d4^1<<43, 0x5e6f708192a3b4c0), // forks at bit 20
	u128addr(0xfe80000000000000, 0x00000000000000f0),
}

type gen struct {
	r       *rand.Rand
	prefill []netip.Prefix // inserted first by the next history
	owners  []int          // owners of the prefill entries (random if shorter)
}

// history over a pool of prefixes
func (g *gen) history(pool []netip.Prefix, npeers, n int, hostBits float64, removeAll bool) []Op {
	r := g.r
	cur := map[netip.Prefix]int{}
	var ops []Op
	emit := func(k int, pf netip.Prefix, p int) {
		a := pf.Addr()
		if r.Float64() < hostBits {
			a = randomize(r, a, pf.Bits())
		}
		ops = append(ops, Op{K: k, F: famOf(a), C: pf.Bits(), P: p, A: a.String()})
		if k == kInsert {
			cur[pf] = p
		} else if v, ok := cur[pf]; ok && v == p {
			delete(cur, pf)
		}
	}
	stored := func() (netip.Prefix, int, bool) {
		if len(cur) == 0 {
			return netip.Prefix{}, 0, false
		}
		ks := make([]netip.Prefix, 0, len(cur))
		for k := range cur {
			ks = append(ks, k)
		}
		sort.Slice(ks, func(i, j int) bool { return ks[i].String() < ks[j].String() })
		k := ks[r.Intn(len(ks))]
		return k, cur[k], true
	}
	forked := func() (netip.Prefix, int, bool) {
		var ks []netip.Prefix
		for k := range cur {
			if k.Bits() >= k.Addr().BitLen() {
				continue
			}
			var side [2]bool
			for d := range cur {
				if d.Bits() > k.Bits() && k.Contains(d.Addr()) {
					b := bytesOf(d.Addr())
					side[(b[k.Bits()/8]>>(7-k.Bits()%8))&1] = true
				}
			}
			if side[0] && side[1] {
				ks = append(ks, k)
			}
		}
		if len(ks) == 0 {
			return netip.Prefix{}, 0, false
		}
		sort.Slice(ks, func(i, j int) bool { return ks[i].String() < ks[j].String() })
		k := ks[r.Intn(len(ks))]
		return k, cur[k], true
	}
	for i, pf := range g.prefill {
		if i < len(g.owners) {
			emit(kInsert, pf, g.owners[i]%npeers)
		} else {
			emit(kInsert, pf, r.Intn(npeers))
		}
	}
	n += len(g.prefill)
	g.prefill, g.owners = nil, nil
	for len(ops) < n {
		x := r.Intn(100)
		switch {
		case x < 48:
			emit(kInsert, pool[r.Intn(len(pool))], r.Intn(npeers))
		case x < 58: // reassign a stored prefix
			if k, _, ok := stored(); ok {
				emit(kInsert, k, r.Intn(npeers))
			}
		case x < 72: // remove a stored prefix with its owner
			if k, p, ok := stored(); ok {
				emit(kRemove, k, p)
			}
		case x < 80: // remove a stored prefix that has stored prefixes below it on both sides
			if k, p, ok := forked(); ok {
				emit(kRemove, k, p)
			} else if k, p, ok := stored(); ok {
				emit(kRemove, k, p)
			}
		case x < 85: // remove a stored prefix with another peer
			if k, p, ok := stored(); ok && npeers > 1 {
				emit(kRemove, k, (p+1+r.Intn(npeers-1))%npeers)
			}
		case x < 92: // remove something from the pool, stored or not
			emit(kRemove, pool[r.Intn(len(pool))], r.Intn(npeers))
		default:
			p := r.Intn(npeers)
			ops = append(ops, Op{K: kRemoveByPeer, P: p})
			for k, v := range cur {
				if v == p {
					delete(cur, k)
				}
			}
		}
	}
	if removeAll {
		if r.Intn(2) == 0 {
			for p := 0; p < npeers; p++ {
				ops = append(ops, Op{K: kRemoveByPeer, P: p})
			}
		} else {
			for len(cur) > 0 {
				k, p, _ := stored()
				emit(kRemove, k, p)
			}
		}
	}
	return ops
}

// all prefixes extending a base prefix by 0..depth bits
func (g *gen) cluster(f int) []netip.Prefix {
	r := g.r
	w := 32
	stems := stems4
	if f == 6 {
		w = 128
		stems = stems6
	}
	depth := 2 + r.Intn(2)
	var base int
	switch r.Intn(4) {
	case 0:
		base = r.Intn(3)
	case 1:
		base = w - depth - r.Intn(2)
	case 2:
		base = []int{6, 7, 8, 14, 15, 16, 22, 23, 30, 31, 32, 61, 62, 63, 64, 94, 95, 96}[r.Intn(18)]
		if base+depth > w {
			base = w - depth
		}
	default:
		base = r.Intn(w - depth + 1)
	}
	stem := stems[r.Intn(len(stems))]
	var out []netip.Prefix
	for d := 0; d <= depth; d++ {
		for v := 0; v < 1<<d; v++ {
			b := append([]byte{}, bytesOf(masked(stem, base).Addr())...)
			for i := 0; i < d; i++ {
				if v>>(d-1-i)&1 == 1 {
					b[(base+i)/8] |= 0x80 >> ((base + i) % 8)
				}
			}
			out = append(out, netip.PrefixFrom(addrFrom(f, b), base+d))
		}
	}
	return out
}

func (g *gen) randomPrefix(f int) netip.Prefix {
	b := make([]byte, 16)
	g.r.Read(b)
	w := 32
	if f == 6 {
		w = 128
	}
	return masked(addrFrom(f, b), g.r.Intn(w+1))
}

func sample(r *rand.Rand, all []netip.Prefix, n int) []netip.Prefix {
	if n >= len(all) {
		return all
	}
	idx := r.Perm(len(all))[:n]
	out := make([]netip.Prefix, n)
	for i, j := range idx {
		out[i] = all[j]
	}
	return out
}

// the 14-prefix alphabet of the exhaustive model sweep, embedded below a stem:
// bit string b of length k  ->  stem/28 extended by b
var tiny14 = []string{"", "0", "1", "00", "01", "10", "000", "001", "011", "0000", "0001", "0010", "1011", "1111"}

func tinyPrefix(f int, s string) netip.Prefix {
	stem := stems4[0]
	w := 32
	if f == 6 {
		stem = stems6[0]
		w = 128
	}
	b := append([]byte{}, bytesOf(stem)...)
	b[len(b)-1] &= 0xf0
	for i, ch := range s {
		if ch == '1' {
			b[len(b)-1] |= 0x08 >> i
		}
	}
	return netip.PrefixFrom(addrFrom(f, b), w-4+len(s))
}

func tinyAlphabet(f int) []Op {
	var ops []Op
	for _, s := range tiny14 {
		pf := tinyPrefix(f, s)
		for _, k := range []int{kInsert, kRemove} {
			for p := 0; p < 2; p++ {
				ops = append(ops, Op{K: k, F: f, C: pf.Bits(), P: p, A: pf.Addr().String()})
			}
		}
	}
	return append(ops, Op{K: kRemoveByPeer, P: 0}, Op{K: kRemoveByPeer, P: 1})
}

func (g *gen) one(tier string) Case {
	r := g.r
	x := r.Intn(100)
	var c Case
	switch {
	case x < 22:
		c.Gen = "dense4"
		pool := sample(r, denseFamily(4, stems4), 5+r.Intn(18))
		c.NPeers = 2 + r.Intn(3)
		c.Ops = g.history(pool, c.NPeers, 5+r.Intn(36), 0.4, r.Intn(4) == 0)
	case x < 33:
		// complete subtrees: every prefix of up to 3 more bits below one or two bases
		f := 4 + 2*r.Intn(2)
		c.Gen = fmt.Sprintf("cluster%d", f)
		var pool []netip.Prefix
		for k := 0; k < 1+r.Intn(2); k++ {
			pool = append(pool, g.cluster(f)...)
		}
		all := denseFamily(f, map[int][]netip.Addr{4: stems4, 6: stems6}[f])
		pool = append(pool, sample(r, all, r.Intn(5))...)
		c.NPeers = 2 + r.Intn(2)
		if r.Intn(2) == 0 {
			// start from the full cluster, inserted in random order
			for _, i := range r.Perm(len(pool)) {
				g.prefill = append(g.prefill, pool[i])
			}
		}
		c.Ops = g.history(pool, c.NPeers, 8+r.Intn(40), 0.4, r.Intn(4) == 0)
	case x < 44:
		c.Gen = "dense6"
		pool := sample(r, denseFamily(6, stems6), 5+r.Intn(18))
		c.NPeers = 2 + r.Intn(3)
		c.Ops = g.history(pool, c.NPeers, 5+r.Intn(36), 0.4, r.Intn(4) == 0)
	case x < 56:
		c.Gen = "mixed"
		pool := append(sample(r, denseFamily(4, stems4), 4+r.Intn(10)), sample(r, denseFamily(6, stems6), 4+r.Intn(10))...)
		for i := 0; i < 4; i++ {
			pool = append(pool, g.randomPrefix(4+2*r.Intn(2)))
		}
		c.NPeers = 2 + r.Intn(4)
		c.Ops = g.history(pool, c.NPeers, 8+r.Intn(40), 0.3, r.Intn(3) == 0)
	case x < 70:
		c.Gen = "wide"
		var pool []netip.Prefix
		n := 6 + r.Intn(30)
		for i := 0; i < n; i++ {
			pool = append(pool, g.randomPrefix(4+2*r.Intn(2)))
		}
		c.NPeers = 2 + r.Intn(6)
		c.Ops = g.history(pool, c.NPeers, 10+r.Intn(50), 0.5, r.Intn(4) == 0)
	case x < 80:
		// special address VALUES: IPv4-mapped / IPv4-compatible IPv6 next to the same IPv4 prefixes (different
		// owners; the two tables are told apart by address LENGTH only), all-zero, all-ones, loopback, link-local,
		// multicast, NAT64, 6to4
		c.Gen = "special"
		pool := g.specialPool()
		c.NPeers = 3 + r.Intn(3)
		for i := range pool {
			g.prefill = append(g.prefill, pool[i])
			g.owners = append(g.owners, i)
		}
		crossProb = 1
		c.Ops = g.history(pool, c.NPeers, 4+r.Intn(24), 0.3, r.Intn(5) == 0)
	case x < 90:
		f := 4 + 2*r.Intn(2)
		c.Gen = fmt.Sprintf("tiny%d", f)
		alpha := tinyAlphabet(f)
		n := 1 + r.Intn(7)
		c.NPeers = 2
		for i := 0; i < n; i++ {
			o := alpha[r.Intn(len(alpha))]
			if o.K != kRemoveByPeer && r.Intn(3) == 0 {
				a := randomize(r, netip.MustParseAddr(o.A), o.C)
				o.A = a.String()
			}
			c.Ops = append(c.Ops, o)
		}
	default:
		c.Gen = "long"
		pool := append(sample(r, denseFamily(4, stems4), 10+r.Intn(14)), sample(r, denseFamily(6, stems6), 10+r.Intn(14))...)
		c.NPeers = 2 + r.Intn(4)
		n := 60 + r.Intn(60)
		if tier == "thorough" {
			n = 150 + r.Intn(151)
		}
		c.Ops = g.history(pool, c.NPeers, n, 0.3, r.Intn(2) == 0)
	}
	c.Init = r.Intn(8) == 0
	g.finish(&c)
	crossProb = 0.15
	return c
}

// share of the IPv4 probe addresses that are also looked up in their 16-byte IPv4-mapped and IPv4-compatible form
// (and IPv4-mapped 16-byte probes in their 4-byte form)
var crossProb = 0.15

func mustPrefix(s string) netip.Prefix {
	pf := netip.MustParsePrefix(s)
	return masked(pf.Addr(), pf.Bits())
}

func (g *gen) specialPool() []netip.Prefix {
	r := g.r
	var q [4]byte
	switch r.Intn(5) {
	case 0:
		q = [4]byte{10, 0, 0, 1}
	case 1:
		q = [4]byte{255, 255, 255, 255}
	case 2:
		q = [4]byte{0, 0, 0, 0}
	default:
		r.Read(q[:])
	}
	v4 := netip.AddrFrom4(q)
	mapped := netip.AddrFrom16(v4.As16()) // ::ffff:a.b.c.d, 16 bytes
	var cb [16]byte
	copy(cb[12:], q[:])
	compat := netip.AddrFrom16(cb) // ::a.b.c.d
	var sixto4 [16]byte
	sixto4[0], sixto4[1] = 0x20, 0x02
	copy(sixto4[2:], q[:])
	var nat64 [16]byte
	copy(nat64[:], []byte{0, 0x64, 0xff, 0x9b})
	copy(nat64[12:], q[:])
	// the mapped group: the same prefix in three dresses, consecutive (so: different owners)
	core := []netip.Prefix{
		masked(v4, 32), masked(mapped, 128), masked(compat, 128),
		masked(v4, 16), masked(mapped, 112), masked(compat, 112),
		masked(v4, 24), masked(mapped, 120),
		masked(mapped, 104), masked(mapped, 97+r.Intn(31)), masked(mapped, 97), masked(mapped, 127),
		masked(mapped, 64+r.Intn(32)), masked(mapped, r.Intn(64)),
		mustPrefix("::ffff:0:0/96"), mustPrefix("0.0.0.0/0"), mustPrefix("::/0"), mustPrefix("::/96"),
	}
	extra := []netip.Prefix{
		mustPrefix("0.0.0.0/32"), mustPrefix("255.255.255.255/32"), mustPrefix("255.255.255.254/31"), mustPrefix("127.0.0.0/8"),
		mustPrefix("169.254.0.0/16"), mustPrefix("224.0.0.0/4"), mustPrefix("240.0.0.0/4"), mustPrefix("0.0.0.0/8"),
		mustPrefix("::/128"), mustPrefix("::1/128"), mustPrefix("ffff:ffff:ffff:ffff:ffff:ffff:ffff:ffff/128"),
		mustPrefix("ffff:ffff:ffff:ffff:ffff:ffff:ffff:fffe/127"), mustPrefix("fe80::/10"), mustPrefix("fe80::/64"),
		mustPrefix("fe80::1/128"), mustPrefix("ff00::/8"), mustPrefix("ff02::1/128"), mustPrefix("::/80"), mustPrefix("::ffff:0:0/95"),
		mustPrefix("::ffff:255.255.255.255/128"), mustPrefix("::ffff:0.0.0.0/128"), mustPrefix("::ffff:0:0:0/96"),
		masked(netip.AddrFrom16(sixto4), 48), masked(netip.AddrFrom16(nat64), 128), mustPrefix("64:ff9b::/96"),
	}
	var pool []netip.Prefix
	for _, p := range core {
		if r.Intn(10) < 8 {
			pool = append(pool, p)
		}
	}
	return append(pool, sample(r, extra, 2+r.Intn(8))...)
}

// observation points and probe addresses
func (g *gen) finish(c *Case) {
	r := g.r
	n := len(c.Ops)
	for i := range c.Ops {
		switch {
		case n <= 12, i == n-1:
			c.Ops[i].O = true
		case c.Ops[i].K == kRemoveByPeer:
			c.Ops[i].O = r.Intn(10) < 7
		default:
			c.Ops[i].O = r.Float64() < 12.0/float64(n) || r.Intn(7) == 0
		}
	}
	c.Probes = probesFor(r, c.Ops, 480)
}

func probesFor(r *rand.Rand, ops []Op, max int) []string {
	seen := map[netip.Addr]bool{}
	var out []netip.Addr
	add := func(a netip.Addr) {
		if !seen[a] {
			seen[a] = true
			out = append(out, a)
		}
	}
	fams := map[int]bool{}
	done := map[netip.Prefix]bool{}
	for _, o := range ops {
		if o.K == kRemoveByPeer {
			continue
		}
		a := netip.MustParseAddr(o.A)
		pf := masked(a, o.C)
		fams[o.F] = true
		if done[pf] {
			continue
		}
		done[pf] = true
		lo, hi := bounds(a, o.C)
		add(lo)
		add(hi)
		add(step(lo, false))
		add(step(hi, true))
		add(randomize(r, lo, o.C))
	}
	for _, f := range []int{4, 6} {
		if fams[f] || r.Intn(2) == 0 {
			b := make([]byte, 16)
			r.Read(b)
			add(addrFrom(f, b))
			add(addrFrom(f, make([]byte, 16)))
			add(addrFrom(f, []byte{255, 255, 255, 255, 255, 255, 255, 255, 255, 255, 255, 255, 255, 255, 255, 255}))
		}
	}
	// the same 32 bits in the other table's dress: a.b.c.d <-> ::ffff:a.b.c.d (and ::a.b.c.d)
	for _, a := range append([]netip.Addr{}, out...) {
		switch {
		case a.Is4() && r.Float64() < crossProb:
			add(netip.AddrFrom16(a.As16()))
			var cb [16]byte
			q := a.As4()
			copy(cb[12:], q[:])
			add(netip.AddrFrom16(cb))
		case a.Is4In6():
			add(a.Unmap())
			var cb [16]byte
			q := a.Unmap().As4()
			copy(cb[12:], q[:])
			add(netip.AddrFrom16(cb))
		}
	}
	sort.Slice(out, func(i, j int) bool { return out[i].Less(out[j]) })
	if len(out) > max {
		r.Shuffle(len(out), func(i, j int) { out[i], out[j] = out[j], out[i] })
		out = out[:max]
		sort.Slice(out, func(i, j int) bool { return out[i].Less(out[j]) })
	}
	s := make([]string, len(out))
	for i, a := range out {
		s[i] = a.String()
	}
	return s
}

// all sequences of length <= l over the tiny alphabet (thorough tier)
func exhaustive(f, l int) []Case {
	alpha := tinyAlphabet(f)
	var out []Case
	var rec func(prefix []Op, d int)
	rec = func(prefix []Op, d int) {
		if len(prefix) > 0 {
			c := Case{Gen: fmt.Sprintf("exh%d", f), NPeers: 2, Ops: append([]Op{}, prefix...)}
			for i := range c.Ops {
				c.Ops[i].O = true
			}
			out = append(out, c)
		}
		if d == 0 {
			return
		}
		for _, o := range alpha {
			rec(append(prefix, o), d-1)
		}
	}
	rec(nil, l)
	return out
}

// ---------- Gallina ----------

func ints[T int | uint32](b *strings.Builder, l []T) {
	b.WriteString("[")
	for i, v := range l {
		if i > 0 {
			b.WriteString(";")
		}
		fmt.Fprintf(b, "%d", v)
	}
	b.WriteString("]")
}

func gallina(c *Case) string {
	var b strings.Builder
	b.WriteString("mkcase ")
	var pr []uint32
	for _, s := range c.Probes {
		a := netip.MustParseAddr(s)
		w := words(a)
		pr = append(pr, uint32(famOf(a)), w[0], w[1], w[2], w[3])
	}
	ints(&b, pr)
	b.WriteString(" [")
	first := true
	sep := func() {
		if !first {
			b.WriteString(";\n ")
		}
		first = false
	}
	oi := 0
	writeOb := func(ob *Ob) {
		sep()
		b.WriteString("IObs ")
		ints(&b, ob.Look)
		b.WriteString(" [")
		for i, l := range ob.Lists {
			if i > 0 {
				b.WriteString(";")
			}
			ints(&b, l)
		}
		b.WriteString("] ")
		ints(&b, ob.Sh4)
		b.WriteString(" ")
		ints(&b, ob.Sh6)
	}
	if oi < len(c.Obs) && c.Obs[oi].At == -1 {
		writeOb(&c.Obs[oi])
		oi++
	}
	items := oi
	for i, o := range c.Ops {
		if c.Crash != 0 && items >= c.Crash-1 {
			break // the op that crashed and everything after it is not replayed on the model
		}
		sep()
		var w [4]uint32
		f := o.F
		if o.K != kRemoveByPeer {
			w = words(netip.MustParseAddr(o.A))
		} else {
			f = 4
		}
		b.WriteString("IOp ")
		ints(&b, []uint32{uint32(o.K), uint32(f), uint32(o.C), uint32(o.P), w[0], w[1], w[2], w[3]})
		items++
		if oi < len(c.Obs) && c.Obs[oi].At == i {
			writeOb(&c.Obs[oi])
			oi++
			items++
		}
	}
	fmt.Fprintf(&b, "] %d %d ", c.PtrBad, c.Crash)
	pairs, from := concWant(c)
	ints(&b, pairs)
	fmt.Fprintf(&b, " %d %d", from, c.ConcRes.Wrong)
	return b.String()
}

func writeShard(path string, cases []*Case) error {
	var b strings.Builder
	b.WriteString("From Coq Require Import Uint63.\nFrom WG Require Import Base.Prelude AllowedIPs.Trie AllowedIPs.Spec AllowedIPs.Check.\nLocal Open Scope uint63_scope.\nDefinition cases : list case := [\n")
	for i, c := range cases {
		if i > 0 {
			b.WriteString(";\n")
		}
		b.WriteString(gallina(c))
	}
	b.WriteString("].\nDefinition bad := Eval vm_compute in (check_cases cases 0%N).\nPrint bad.\nDefinition st := Eval vm_compute in (stats cases).\nPrint st.\n")
	return os.WriteFile(path, []byte(b.String()), 0o644)
}

func cost(c *Case) int {
	n := 0
	for _, o := range c.Ops {
		if o.O {
			n++
		}
	}
	return 20 + len(c.Ops)*4 + n*(len(c.Probes)+30)
}

func main() {
	seed := flag.Int64("seed", 1, "PRNG seed")
	n := flag.Int("n", 300, "number of generated histories")
	shards := flag.Int("shards", 16, "case files")
	out := flag.String("out", "out/C08", "output directory")
	tier := flag.String("tier", "quick", "quick | thorough (longer histories)")
	exh := flag.Int("exh", 1, "also run ALL sequences up to this length over the 58-op tiny alphabet (v4; v6 up to length 1)")
	replayIn := flag.String("replay", "", "JSON file with cases (ops, npeers, probes) to run")
	nconc := flag.Int("conc", 8, "number of concurrent plans (look-ups racing with unrelated churn)")
	concms := flag.Int("concms", 300, "duration of the concurrent phase of one plan, milliseconds")
	flag.IntVar(&concScale, "concx", 1, "multiply the duration of concurrent phases (replay)")
	corpus := flag.String("corpus", "", "directory of corpus JSON cases to prepend")
	flag.Parse()
	if err := os.MkdirAll(*out, 0o755); err != nil {
		panic(err)
	}
	var cases []Case
	prep := func(c *Case, r *rand.Rand) {
		if c.Conc != nil && len(c.Ops) == 0 {
			concOps(c)
		}
		if c.NPeers == 0 {
			for _, o := range c.Ops {
				if o.P+1 > c.NPeers {
					c.NPeers = o.P + 1
				}
			}
		}
		if len(c.Probes) == 0 {
			c.Probes = probesFor(r, c.Ops, 480)
		}
		if c.Conc != nil {
			mergeConcProbes(c)
		}
	}
	if *replayIn != "" {
		data, err := os.ReadFile(*replayIn)
		if err != nil {
			panic(err)
		}
		if err := json.Unmarshal(data, &cases); err != nil {
			panic(err)
		}
		r := rand.New(rand.NewSource(1))
		for i := range cases {
			prep(&cases[i], r)
		}
		*shards = 1
	} else {
		r := rand.New(rand.NewSource(*seed))
		if *corpus != "" {
			files, _ := filepath.Glob(filepath.Join(*corpus, "*.json"))
			sort.Strings(files)
			for _, f := range files {
				data, err := os.ReadFile(f)
				if err != nil {
					continue
				}
				var cs []Case
				if json.Unmarshal(data, &cs) == nil {
					for _, c := range cs {
						c.Gen = "corpus"
						prep(&c, r)
						cases = append(cases, c)
					}
				}
			}
		}
		g := &gen{r: r}
		for _, c := range exhaustive(4, *exh) {
			c.Probes = probesFor(r, tinyAlphabet(4), 480)
			cases = append(cases, c)
		}
		for _, c := range exhaustive(6, 1) {
			c.Probes = probesFor(r, tinyAlphabet(6), 480)
			cases = append(cases, c)
		}
		for i := 0; i < *n; i++ {
			cases = append(cases, g.one(*tier))
		}
		for i := 0; i < *nconc; i++ {
			cases = append(cases, g.concPlan(4+2*(i%2), i/2, *concms))
		}
	}
	for i := range cases {
		runImpl(&cases[i])
		features(&cases[i])
		if cases[i].Conc != nil && cases[i].Crash == 0 {
			runConc(&cases[i])
		}
	}
	if *shards > len(cases) {
		*shards = len(cases)
	}
	if *shards < 1 {
		*shards = 1
	}
	// balance the shards by estimated cost
	order := make([]int, len(cases))
	for i := range order {
		order[i] = i
	}
	sort.SliceStable(order, func(a, b int) bool { return cost(&cases[order[a]]) > cost(&cases[order[b]]) })
	load := make([]int, *shards)
	members := make([][]int, *shards)
	for _, i := range order {
		k := 0
		for s := range load {
			if load[s] < load[k] {
				k = s
			}
		}
		load[k] += cost(&cases[i])
		members[k] = append(members[k], i)
	}
	type shardInfo struct {
		File  string `json:"file"`
		Cases []int  `json:"cases"`
	}
	var infos []shardInfo
	for s := range members {
		sort.Ints(members[s])
		cs := make([]*Case, len(members[s]))
		for j, i := range members[s] {
			cs[j] = &cases[i]
		}
		name := fmt.Sprintf("cases_C08_%d.v", s)
		if err := writeShard(filepath.Join(*out, name), cs); err != nil {
			panic(err)
		}
		infos = append(infos, shardInfo{name, members[s]})
	}
	meta := map[string]any{"seed": *seed, "cases": cases, "shards": infos}
	data, _ := json.Marshal(meta)
	if err := os.WriteFile(filepath.Join(*out, "cases.json"), data, 0o644); err != nil {
		panic(err)
	}
}
