// Concurrent part of the C08 harness: look-ups racing with configuration
// changes that cannot change their answer.
//
// A plan has stable prefixes (inserted once, never touched), probe addresses
// inside them whose longest stored prefix is a stable one for the whole run,
// and churn operation lists (one per churn goroutine, cycled) made only of
// operations that are "unrelated" to every probe in the sense of the Coq
// theorem lookup_stable_under_unrelated_ops: inserts of prefixes that are not
// a stable prefix and not a longer prefix containing a probe, removes of such
// prefixes (or of a stable prefix with a peer that does not own it),
// remove-by-peer of peers that own no stable prefix.  Hence in EVERY
// interleaving each look-up must return the stable owner.  The plan's
// operations are also run sequentially (Case.Ops) so that the model and the
// specification confirm, inside Coq, that the expected answers are the
// specification's at every step.
package main

import (
	"fmt"
	"net/netip"
	"runtime"
	"sync"
	"sync/atomic"
	"time"

	"golang.zx2c4.com/wireguard/device"
)

type ConcProbe struct {
	A    string `json:"a"`
	Want int    `json:"want"` // peer id
}

type ConcPlan struct {
	Stable  []Op        `json:"stable"`
	Churn   [][]Op      `json:"churn"`
	Probes  []ConcProbe `json:"probes"`
	Readers int         `json:"readers"`
	Millis  int         `json:"ms"`
}

type ConcResult struct {
	Ran      bool   `json:"ran"`
	Lookups  int64  `json:"lookups"`
	ChurnOps int64  `json:"churn_ops"`
	Wrong    int64  `json:"wrong"`
	Msg      string `json:"msg,omitempty"`
	Procs    int    `json:"gomaxprocs"`
}

func applyOp(table *device.AllowedIPs, peers []*device.Peer, o Op) {
	switch o.K {
	case kInsert:
		table.Insert(netip.PrefixFrom(netip.MustParseAddr(o.A), o.C), peers[o.P])
	case kRemove:
		table.Remove(netip.PrefixFrom(netip.MustParseAddr(o.A), o.C), peers[o.P])
	case kRemoveByPeer:
		table.RemoveByPeer(peers[o.P])
	}
}

var concScale = 1

func runConc(c *Case) {
	plan := c.Conc
	res := &c.ConcRes
	*res = ConcResult{}
	if runtime.NumCPU() < 2 {
		res.Msg = "skipped: fewer than 2 CPUs"
		return
	}
	procs := runtime.NumCPU()
	if procs < 4 {
		procs = 4
	}
	runtime.GOMAXPROCS(procs)
	res.Procs = procs
	res.Ran = true

	table := new(device.AllowedIPs)
	peers := make([]*device.Peer, c.NPeers)
	for i := range peers {
		peers[i] = &device.Peer{}
	}
	for _, o := range plan.Stable {
		applyOp(table, peers, o)
	}
	type probe struct {
		ip   []byte
		want *device.Peer
		s    string
	}
	probes := make([]probe, len(plan.Probes))
	for i, p := range plan.Probes {
		probes[i] = probe{bytesOf(netip.MustParseAddr(p.A)), peers[p.Want], p.A}
	}
	var stop atomic.Bool
	var lookups, churnOps, wrong atomic.Int64
	var mu sync.Mutex
	note := func(s string) {
		mu.Lock()
		if res.Msg == "" {
			res.Msg = s
		}
		mu.Unlock()
	}
	var wg sync.WaitGroup
	guard := func(what string) {
		if e := recover(); e != nil {
			wrong.Add(1)
			note(fmt.Sprintf("%s goroutine: panic: %v", what, e))
			stop.Store(true)
		}
		wg.Done()
	}
	readers := plan.Readers
	if readers < 4 {
		readers = 4
	}
	for r := 0; r < readers; r++ {
		wg.Add(1)
		go func(r int) {
			defer guard("reader")
			n := int64(0)
			for i := r % len(probes); !stop.Load(); i = (i + 1) % len(probes) {
				got := table.Lookup(probes[i].ip)
				n++
				if got != probes[i].want {
					wrong.Add(1)
					who := "no peer"
					for k, p := range peers {
						if p == got {
							who = fmt.Sprintf("peer %d", k)
						}
					}
					note(fmt.Sprintf("Lookup(%s) returned %s, the specification says peer %d in every interleaving", probes[i].s, who, plan.Probes[i].Want))
					stop.Store(true)
					break
				}
			}
			lookups.Add(n)
		}(r)
	}
	for _, list := range plan.Churn {
		wg.Add(1)
		go func(list []Op) {
			defer guard("churn")
			n := int64(0)
			for i := 0; !stop.Load(); i = (i + 1) % len(list) {
				applyOp(table, peers, list[i])
				n++
			}
			churnOps.Add(n)
		}(list)
	}
	fin := make(chan struct{})
	go func() { wg.Wait(); close(fin) }()
	select {
	case <-fin:
	case <-time.After(time.Duration(plan.Millis*concScale) * time.Millisecond):
		stop.Store(true)
		select {
		case <-fin:
		case <-time.After(10 * time.Second):
			wrong.Add(1)
			note("goroutines did not stop within 10 s (deadlock?)")
			res.Wrong = wrong.Load()
			return
		}
	}
	res.Lookups, res.ChurnOps = lookups.Load(), churnOps.Load()
	// the table is intact afterwards
	for i, p := range probes {
		if table.Lookup(p.ip) != p.want {
			wrong.Add(1)
			note(fmt.Sprintf("after the run Lookup(%s) is not peer %d", p.s, plan.Probes[i].Want))
		}
	}
	if msg := table.VerifCheckPointers(peers); msg != "" {
		wrong.Add(1)
		note("after the run: " + msg)
	}
	res.Wrong = wrong.Load()
}

// ---------- plans ----------

func contains(pf netip.Prefix, a netip.Addr) bool {
	lo, _ := bounds(a, pf.Bits())
	return lo == pf.Addr()
}

func truncate(a netip.Addr, c int) netip.Prefix { return masked(a, c) }

func flipBit(a netip.Addr, i int) netip.Addr {
	b := append([]byte{}, bytesOf(a)...)
	b[i/8] ^= 0x80 >> (i % 8)
	return addrFrom(famOf(a), b)
}

// concPlan builds a plan for family f; variant selects the flavour of the
// root-replacing churn.
func (g *gen) concPlan(f, variant int, ms int) Case {
	r := g.r
	w := 32
	if f == 6 {
		w = 128
	}
	var c Case
	c.Gen = fmt.Sprintf("conc%d", f)
	// stable prefixes: one or two chains  S (short) > S' (longer, inside S), plus one elsewhere
	lens := [][]int{{8, 24}, {24, 32}, {16, 30}, {1, 9}}
	if f == 6 {
		lens = [][]int{{32, 64}, {64, 128}, {48, 65}, {1, 63}}
	}
	ln := lens[variant%len(lens)]
	rb := make([]byte, 16)
	r.Read(rb)
	base := addrFrom(f, rb)
	type st struct {
		pf    netip.Prefix
		owner int
	}
	stables := []st{{masked(base, ln[0]), 0}, {masked(base, ln[1]), 1}}
	r.Read(rb)
	other := addrFrom(f, rb)
	if ln[0] > 0 && contains(stables[0].pf, other) {
		other = flipBit(other, 0)
	}
	stables = append(stables, st{masked(other, ln[0]+r.Intn(3)), r.Intn(2)})
	nStableOwners := 2
	plan := &ConcPlan{Readers: 4 + r.Intn(3), Millis: ms}
	for _, s := range stables {
		a := s.pf.Addr()
		if r.Intn(2) == 0 {
			a = randomize(r, a, s.pf.Bits())
		}
		plan.Stable = append(plan.Stable, Op{K: kInsert, F: f, C: s.pf.Bits(), P: s.owner, A: a.String(), O: true})
	}
	// probes: addresses inside a stable prefix; the expected owner is the longest stable prefix containing them
	type pr struct {
		a    netip.Addr
		want int
		plen int
	}
	var probes []pr
	addProbe := func(a netip.Addr) {
		best := -1
		for i, s := range stables {
			if contains(s.pf, a) && (best < 0 || s.pf.Bits() > stables[best].pf.Bits()) {
				best = i
			}
		}
		if best >= 0 {
			probes = append(probes, pr{a, stables[best].owner, stables[best].pf.Bits()})
		}
	}
	for _, s := range stables {
		lo, hi := bounds(s.pf.Addr(), s.pf.Bits())
		addProbe(lo)
		addProbe(hi)
		addProbe(randomize(r, lo, s.pf.Bits()))
	}
	unrelated := func(q netip.Prefix) bool {
		for _, s := range stables {
			if s.pf == q {
				return false
			}
		}
		for _, p := range probes {
			if contains(q, p.a) && q.Bits() > p.plen {
				return false
			}
		}
		return true
	}
	// churn prefixes
	var cands []netip.Prefix
	add := func(q netip.Prefix) {
		if q.Bits() >= 0 && q.Bits() <= w && unrelated(q) {
			cands = append(cands, q)
		}
	}
	zero := addrFrom(f, make([]byte, 16))
	top := []netip.Prefix{netip.PrefixFrom(zero, 0)}
	for k := 1; k < ln[0] && k <= 7; k++ {
		top = append(top, truncate(base, k))
	}
	for _, s := range stables {
		if s.pf.Bits() > 0 {
			add(masked(flipBit(s.pf.Addr(), s.pf.Bits()-1), s.pf.Bits())) // sibling
			add(truncate(s.pf.Addr(), s.pf.Bits()-1))                     // parent
			add(truncate(s.pf.Addr(), s.pf.Bits()/2))
		}
	}
	for _, p := range probes { // longer prefixes beside a probe
		for _, j := range []int{0, 1, 3} {
			if p.plen+j < w {
				add(masked(flipBit(p.a, p.plen+j), p.plen+j+1))
			}
		}
	}
	for i := 0; i < 6; i++ {
		add(g.randomPrefix(f))
	}
	// churn goroutines: the first one replaces the root (shortest covering prefixes), the others churn around
	nch := 1 + r.Intn(2)
	peer := nStableOwners
	for gi := 0; gi < nch; gi++ {
		p1, p2 := peer, peer+1
		peer += 2
		var list []Op
		ins := func(q netip.Prefix, p int) {
			a := q.Addr()
			if r.Intn(3) == 0 {
				a = randomize(r, a, q.Bits())
			}
			list = append(list, Op{K: kInsert, F: f, C: q.Bits(), P: p, A: a.String()})
		}
		rem := func(q netip.Prefix, p int) {
			list = append(list, Op{K: kRemove, F: f, C: q.Bits(), P: p, A: q.Addr().String()})
		}
		if gi == 0 {
			t := top[0]
			if variant%3 == 2 && len(top) > 1 {
				t = top[1+r.Intn(len(top)-1)]
			}
			if unrelated(t) {
				ins(t, p1)
				if variant%2 == 0 {
					rem(t, p1)
				} else {
					list = append(list, Op{K: kRemoveByPeer, P: p1})
				}
			}
		}
		n := 2 + r.Intn(5)
		for i := 0; i < n && len(cands) > 0; i++ {
			q := cands[r.Intn(len(cands))]
			switch r.Intn(6) {
			case 0:
				ins(q, p1)
				ins(q, p2) // reassign
				rem(q, p2)
			case 1:
				ins(q, p2)
				list = append(list, Op{K: kRemoveByPeer, P: p2})
			case 2: // a stable prefix "removed" by a peer that does not own it
				s := stables[r.Intn(len(stables))]
				rem(s.pf, p1)
				ins(q, p1)
				rem(q, p1)
			default:
				ins(q, p1)
				rem(q, p1)
			}
		}
		if len(list) == 0 {
			ins(cands[0], p1)
			rem(cands[0], p1)
		}
		plan.Churn = append(plan.Churn, list)
	}
	c.NPeers = peer
	for _, p := range probes {
		plan.Probes = append(plan.Probes, ConcProbe{A: p.a.String(), Want: p.want})
	}
	c.Conc = plan
	concOps(&c)
	c.Probes = probesFor(r, c.Ops, 400)
	mergeConcProbes(&c)
	return c
}

// the sequential rehearsal of a plan: stable inserts, then every churn list twice, interleaved once
func concOps(c *Case) {
	plan := c.Conc
	c.Ops = append([]Op{}, plan.Stable...)
	for _, l := range plan.Churn {
		c.Ops = append(c.Ops, l...)
	}
	for i := 0; ; i++ {
		any := false
		for _, l := range plan.Churn {
			if i < len(l) {
				c.Ops = append(c.Ops, l[i])
				any = true
			}
		}
		if !any {
			break
		}
	}
	for i := range c.Ops {
		c.Ops[i].O = true
	}
}

// the plan's probes must be among the case's probes (the Coq side refers to them by index)
func mergeConcProbes(c *Case) {
	have := map[string]bool{}
	for _, s := range c.Probes {
		have[netip.MustParseAddr(s).String()] = true
	}
	for _, p := range c.Conc.Probes {
		if !have[p.A] {
			have[p.A] = true
			c.Probes = append(c.Probes, p.A)
		}
	}
}

// [probe index; want+1] pairs and the first item from which they must hold
func concWant(c *Case) (pairs []uint32, from int) {
	if c.Conc == nil {
		return nil, 0
	}
	idx := map[string]int{}
	for i, s := range c.Probes {
		idx[netip.MustParseAddr(s).String()] = i
	}
	for _, p := range c.Conc.Probes {
		pairs = append(pairs, uint32(idx[p.A]), uint32(p.Want+1))
	}
	// items: [initial obs] + (op, obs) per op (all observed); the stable phase ends after len(Stable) ops
	from = 2*len(c.Conc.Stable) - 1
	if c.Init {
		from++
	}
	return pairs, from
}
