// c05w: the replay filter alone, for builds with another word size (GOARCH=386).
// Reads a JSON list of histories (file argument 1), runs each through the real
// replay.Filter and writes the same list with the observed verdicts (argument 2).
// The 64-bit harness cmd/c05 calls it so that the same histories are judged by the
// same Coq model on a 32-bit build of the package as well.
package main

import (
	"encoding/json"
	"fmt"
	"os"

	"golang.zx2c4.com/wireguard/replay"
)

type Op struct {
	C     uint64 `json:"c"`
	L     uint64 `json:"l"`
	Reset bool   `json:"reset,omitempty"`
}

type Case struct {
	Ops []Op   `json:"ops"`
	Obs []bool `json:"obs"`
	Gen string `json:"gen"`
}

func main() {
	if len(os.Args) != 3 {
		fmt.Fprintln(os.Stderr, "usage: c05w in.json out.json")
		os.Exit(2)
	}
	data, err := os.ReadFile(os.Args[1])
	if err != nil {
		panic(err)
	}
	var cases []Case
	if err := json.Unmarshal(data, &cases); err != nil {
		panic(err)
	}
	for i := range cases {
		var f replay.Filter
		obs := make([]bool, len(cases[i].Ops))
		for j, o := range cases[i].Ops {
			if o.Reset {
				f.Reset()
				obs[j] = true
			} else {
				obs[j] = f.ValidateCounter(o.C, o.L)
			}
		}
		cases[i].Obs = obs
	}
	out, err := json.Marshal(cases)
	if err != nil {
		panic(err)
	}
	if err := os.WriteFile(os.Args[2], out, 0o644); err != nil {
		panic(err)
	}
}
