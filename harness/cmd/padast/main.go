// padast — translator for C01 (padding): reads the SOURCE of device/send.go of the tree under test and
// prints, as Gallina (Gen/PadAst.v), the body of calculatePaddingSize(packetSize, mtu int) int as a term
// of the deep-embedded mini-language of Outbound/PadAst.v.  Outbound/PadAstProofs.v proves that the
// interpreter of Outbound/PadAst.v run on this term equals Outbound/Model.v (pad_len) for all inputs in range.
//
// What is trusted here: go/parser; the rendering below (one Go construct -> one constructor; the only
// desugarings are `x++`/`x--` -> SOpAssign x OAdd/OSub 1, a block -> right-nested SSeq ending in SSkip,
// `else if` -> SIf in the else position, and CONSTANT FOLDING: a subexpression built only from integer
// literals and untyped package constants is evaluated exactly (math/big, as the Go compiler does) and
// emitted as its value, so `^(PaddingMultiple - 1)` becomes EConst (-16)); that every variable is a Go
// `int` (checked syntactically: the parameter and result types; locals take their type from these).
// Package constants are collected from the const declarations of all non-test .go files of device/
// (a name declared twice, declared with a type, or with iota is not resolved).  Everything that is not
// recognised is emitted as EUnknown/BUnknown/SUnknown, on which the interpreter yields None, so an
// unrecognised construct can only break the equivalence theorem, never satisfy it.
package main

import (
	"flag"
	"fmt"
	"go/ast"
	"go/parser"
	"go/token"
	"math/big"
	"os"
	"path/filepath"
	"reflect"
	"sort"
	"strings"
)

var (
	consts    = map[string]ast.Expr{} // untyped package constant -> defining expression
	constDup  = map[string]bool{}
	constBusy = map[string]bool{}
	minInt    = new(big.Int).Neg(new(big.Int).Lsh(big.NewInt(1), 63))
	maxInt    = new(big.Int).Sub(new(big.Int).Lsh(big.NewInt(1), 63), big.NewInt(1))
)

type tr struct {
	vars map[string]bool // parameters and locals declared so far (function-wide: redeclaration is refused)
}

// evaluate a constant expression over the package constants (arbitrary precision, like Go);
// fails on anything that mentions a local variable
func (t *tr) constVal(e ast.Expr) (*big.Int, bool) {
	switch v := e.(type) {
	case *ast.ParenExpr:
		return t.constVal(v.X)
	case *ast.BasicLit:
		if v.Kind == token.INT {
			n, ok := new(big.Int).SetString(strings.ReplaceAll(v.Value, "_", ""), 0)
			return n, ok
		}
	case *ast.Ident:
		d, ok := consts[v.Name]
		if !ok || constDup[v.Name] || constBusy[v.Name] || t.vars[v.Name] {
			return nil, false
		}
		constBusy[v.Name] = true
		defer delete(constBusy, v.Name)
		return (&tr{vars: map[string]bool{}}).constVal(d)
	case *ast.UnaryExpr:
		a, ok := t.constVal(v.X)
		if !ok {
			return nil, false
		}
		switch v.Op {
		case token.XOR:
			return new(big.Int).Not(a), true
		case token.SUB:
			return new(big.Int).Neg(a), true
		case token.ADD:
			return a, true
		}
	case *ast.BinaryExpr:
		a, ok1 := t.constVal(v.X)
		b, ok2 := t.constVal(v.Y)
		if !ok1 || !ok2 {
			return nil, false
		}
		r := new(big.Int)
		switch v.Op {
		case token.ADD:
			return r.Add(a, b), true
		case token.SUB:
			return r.Sub(a, b), true
		case token.MUL:
			return r.Mul(a, b), true
		case token.AND:
			return r.And(a, b), true
		case token.OR:
			return r.Or(a, b), true
		case token.AND_NOT:
			return r.AndNot(a, b), true
		case token.SHL:
			if b.Sign() >= 0 && b.Cmp(big.NewInt(512)) < 0 {
				return r.Lsh(a, uint(b.Uint64())), true
			}
		case token.SHR:
			if b.Sign() >= 0 && b.Cmp(big.NewInt(512)) < 0 {
				return r.Rsh(a, uint(b.Uint64())), true
			}
		}
	}
	return nil, false
}

func isInt(n *big.Int) bool { return n.Cmp(minInt) >= 0 && n.Cmp(maxInt) <= 0 }

func zlit(n *big.Int) string {
	if n.Sign() < 0 {
		return fmt.Sprintf("(EConst (%s)%%Z)", n)
	}
	return fmt.Sprintf("(EConst %s%%Z)", n)
}

func kind(n interface{}) string {
	return strings.TrimPrefix(reflect.TypeOf(n).String(), "*ast.")
}

var binops = map[token.Token]string{token.ADD: "OAdd", token.SUB: "OSub", token.MUL: "OMul", token.REM: "ORem",
	token.AND: "OAnd", token.OR: "OOr", token.AND_NOT: "OAndNot"}
var asgops = map[token.Token]string{token.ADD_ASSIGN: "OAdd", token.SUB_ASSIGN: "OSub", token.MUL_ASSIGN: "OMul",
	token.REM_ASSIGN: "ORem", token.AND_ASSIGN: "OAnd", token.OR_ASSIGN: "OOr", token.AND_NOT_ASSIGN: "OAndNot"}
var unops = map[token.Token]string{token.XOR: "UNot", token.SUB: "UNeg"}
var cmpops = map[token.Token]string{token.GEQ: "CGe", token.GTR: "CGt", token.LEQ: "CLe", token.LSS: "CLt", token.EQL: "CEq", token.NEQ: "CNe"}

func (t *tr) expr(e ast.Expr) string {
	if n, ok := t.constVal(e); ok {
		if isInt(n) {
			return zlit(n)
		}
		return fmt.Sprintf("(EUnknown %q)", "constant overflows int")
	}
	switch v := e.(type) {
	case *ast.ParenExpr:
		return t.expr(v.X)
	case *ast.Ident:
		if t.vars[v.Name] {
			return fmt.Sprintf("(EVar %q)", v.Name)
		}
		return fmt.Sprintf("(EUnknown %q)", "Ident")
	case *ast.UnaryExpr:
		if op, ok := unops[v.Op]; ok {
			return fmt.Sprintf("(EUn %s %s)", op, t.expr(v.X))
		}
		return fmt.Sprintf("(EUnknown %q)", "UnaryExpr "+v.Op.String())
	case *ast.BinaryExpr:
		if op, ok := binops[v.Op]; ok {
			return fmt.Sprintf("(EBin %s %s %s)", op, t.expr(v.X), t.expr(v.Y))
		}
		return fmt.Sprintf("(EUnknown %q)", "BinaryExpr "+v.Op.String())
	}
	return fmt.Sprintf("(EUnknown %q)", kind(e))
}

func (t *tr) bexpr(e ast.Expr) string {
	switch v := e.(type) {
	case *ast.ParenExpr:
		return t.bexpr(v.X)
	case *ast.BinaryExpr:
		if op, ok := cmpops[v.Op]; ok {
			return fmt.Sprintf("(BCmp %s %s %s)", op, t.expr(v.X), t.expr(v.Y))
		}
		return fmt.Sprintf("(BUnknown %q)", "BinaryExpr "+v.Op.String())
	}
	return fmt.Sprintf("(BUnknown %q)", kind(e))
}

func unknownS(what string) string { return fmt.Sprintf("(SUnknown %q)", what) }

func (t *tr) lvar(e ast.Expr) (string, bool) {
	id, ok := e.(*ast.Ident)
	if ok && t.vars[id.Name] {
		return id.Name, true
	}
	return "", false
}

// statements are rendered one per line; ind is the indentation of this statement
func (t *tr) stmt(s ast.Stmt, ind string) string {
	switch v := s.(type) {
	case *ast.BlockStmt:
		return t.block(v, ind)
	case *ast.AssignStmt:
		if len(v.Lhs) != 1 || len(v.Rhs) != 1 {
			return unknownS("AssignStmt multi")
		}
		switch {
		case v.Tok == token.DEFINE:
			id, ok := v.Lhs[0].(*ast.Ident)
			if !ok || id.Name == "_" {
				return unknownS("AssignStmt define")
			}
			if t.vars[id.Name] {
				return unknownS("AssignStmt redeclaration")
			}
			rhs := t.expr(v.Rhs[0])
			t.vars[id.Name] = true
			return fmt.Sprintf("(SAssign %q %s)", id.Name, rhs)
		case v.Tok == token.ASSIGN:
			if x, ok := t.lvar(v.Lhs[0]); ok {
				return fmt.Sprintf("(SAssign %q %s)", x, t.expr(v.Rhs[0]))
			}
			return unknownS("AssignStmt target " + kind(v.Lhs[0]))
		default:
			op, ok := asgops[v.Tok]
			if !ok {
				return unknownS("AssignStmt " + v.Tok.String())
			}
			if x, ok := t.lvar(v.Lhs[0]); ok {
				return fmt.Sprintf("(SOpAssign %q %s %s)", x, op, t.expr(v.Rhs[0]))
			}
			return unknownS("AssignStmt target " + kind(v.Lhs[0]))
		}
	case *ast.IncDecStmt:
		op := "OAdd"
		if v.Tok == token.DEC {
			op = "OSub"
		}
		if x, ok := t.lvar(v.X); ok {
			return fmt.Sprintf("(SOpAssign %q %s (EConst 1%%Z))", x, op)
		}
		return unknownS("IncDecStmt target " + kind(v.X))
	case *ast.IfStmt:
		if v.Init != nil {
			return unknownS("IfStmt init")
		}
		c := t.bexpr(v.Cond)
		th := t.block(v.Body, ind+"  ")
		el := "SSkip"
		switch e := v.Else.(type) {
		case nil:
		case *ast.IfStmt:
			el = t.stmt(e, ind+"  ")
		case *ast.BlockStmt:
			el = t.block(e, ind+"  ")
		default:
			el = unknownS("IfStmt else")
		}
		return fmt.Sprintf("(SIf %s\n%s  %s\n%s  %s)", c, ind, th, ind, el)
	case *ast.ReturnStmt:
		if len(v.Results) == 1 {
			return fmt.Sprintf("(SReturn %s)", t.expr(v.Results[0]))
		}
		return unknownS("ReturnStmt")
	}
	return unknownS(kind(s))
}

func (t *tr) block(b *ast.BlockStmt, ind string) string {
	var sb strings.Builder
	for _, s := range b.List {
		sb.WriteString("(SSeq " + t.stmt(s, ind+"  ") + "\n" + ind)
	}
	sb.WriteString("SSkip" + strings.Repeat(")", len(b.List)))
	return sb.String()
}

func isIdent(e ast.Expr, name string) bool {
	id, ok := e.(*ast.Ident)
	return ok && id.Name == name
}

func mentionsIota(e ast.Expr) bool {
	found := false
	ast.Inspect(e, func(n ast.Node) bool {
		if id, ok := n.(*ast.Ident); ok && id.Name == "iota" {
			found = true
		}
		return true
	})
	return found
}

func main() {
	repo := flag.String("repo", "/repo", "tree under test")
	flag.Parse()
	dir := filepath.Join(*repo, "device")
	ents, err := os.ReadDir(dir)
	if err != nil {
		fmt.Fprintln(os.Stderr, "padast: cannot read device/")
		os.Exit(1)
	}
	var names []string
	for _, e := range ents {
		n := e.Name()
		if !e.IsDir() && strings.HasSuffix(n, ".go") && !strings.HasSuffix(n, "_test.go") {
			names = append(names, n)
		}
	}
	sort.Strings(names)
	fset := token.NewFileSet()
	var fn *ast.FuncDecl
	nfn := 0
	for _, n := range names {
		file, err := parser.ParseFile(fset, filepath.Join(dir, n), nil, 0)
		if err != nil {
			fmt.Fprintln(os.Stderr, "padast: cannot parse device/"+n)
			os.Exit(1)
		}
		for _, d := range file.Decls {
			switch v := d.(type) {
			case *ast.GenDecl:
				if v.Tok != token.CONST {
					continue
				}
				for _, sp := range v.Specs {
					s := sp.(*ast.ValueSpec)
					for i, nm := range s.Names {
						if _, seen := consts[nm.Name]; seen {
							constDup[nm.Name] = true
						}
						if s.Type != nil || len(s.Names) != len(s.Values) || mentionsIota(s.Values[i]) {
							constDup[nm.Name] = true // not an untyped, explicitly valued constant: never resolved
							consts[nm.Name] = nil
							continue
						}
						consts[nm.Name] = s.Values[i]
					}
				}
			case *ast.FuncDecl:
				if v.Recv == nil && v.Name.Name == "calculatePaddingSize" && v.Body != nil && n == "send.go" {
					fn = v
					nfn++
				}
			}
		}
	}

	body := func() string {
		if fn == nil || nfn != 1 {
			return unknownS("function not found")
		}
		var got []string
		for _, p := range fn.Type.Params.List {
			if !isIdent(p.Type, "int") {
				return unknownS("parameter type")
			}
			for _, n := range p.Names {
				got = append(got, n.Name)
			}
		}
		if strings.Join(got, ",") != "packetSize,mtu" {
			return unknownS("parameter list")
		}
		res := fn.Type.Results
		if res == nil || len(res.List) != 1 || len(res.List[0].Names) != 0 || !isIdent(res.List[0].Type, "int") {
			return unknownS("result type")
		}
		t := &tr{vars: map[string]bool{"packetSize": true, "mtu": true}}
		return t.block(fn.Body, "  ")
	}

	pm := "(EUnknown \"PaddingMultiple\")"
	if n, ok := (&tr{vars: map[string]bool{}}).constVal(ast.NewIdent("PaddingMultiple")); ok && isInt(n) {
		pm = zlit(n)
	}

	fmt.Println("(* GENERATED by harness/cmd/padast from device/send.go (constants: device/*.go) of the tree under test. Do not edit. *)")
	fmt.Println("From Coq Require Import ZArith String.")
	fmt.Println("From WG Require Import Outbound.PadAst.")
	fmt.Println("Local Open Scope string_scope.")
	fmt.Println()
	fmt.Println("(* const PaddingMultiple *)")
	fmt.Printf("Definition padding_multiple : expr := %s.\n\n", pm)
	fmt.Println("(* func calculatePaddingSize(packetSize, mtu int) int *)")
	fmt.Printf("Definition pad_body : stmt :=\n  %s.\n", body())
}
