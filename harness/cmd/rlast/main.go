// rlast — translator for C19: reads the SOURCE of ratelimiter/ratelimiter.go of the tree under test and prints,
// as Gallina (Gen/RlAst.v), the body of (*Ratelimiter).Allow and the per-entry body of the range loop of
// (*Ratelimiter).cleanup as terms of the deep-embedded mini-language of Ratelimit/Ast.v, plus the values of the
// package constants.  Ratelimit/AstProofs.v proves that the interpreter of Ratelimit/Ast.v run on these terms
// equals Ratelimit/Model.v (allow_t, keep) for ALL inputs.
//
// What is trusted here: go/parser; the rendering below (one Go construct -> one constructor; the only
// desugarings are a block -> right-nested SSeq ending in SSkip, `else if` -> SIf in the else position, package
// constants -> their value, time.Second etc. -> nanoseconds); that the types are what the struct declarations
// say (checked syntactically: RatelimiterEntry{mu sync.Mutex; lastTime time.Time; tokens int64}, the four
// fields of Ratelimiter, Allow(ip netip.Addr) bool); that the Go file type-checks (the language is untyped
// between int64 and time).  Everything that is not recognised is emitted as
// EUnknown/BUnknown/LUnknown/SUnknown, on which the interpreter yields None, so an unrecognised construct can
// only break the equivalence theorem, never satisfy it.
package main

import (
	"flag"
	"fmt"
	"go/ast"
	"go/parser"
	"go/token"
	"go/types"
	"math/big"
	"os"
	"path/filepath"
	"reflect"
	"strings"
)

var (
	consts    = map[string]ast.Expr{} // package constant -> defining expression
	constBusy = map[string]bool{}
	two63     = new(big.Int).Lsh(big.NewInt(1), 63)
	timeUnits = map[string]int64{"Nanosecond": 1, "Microsecond": 1e3, "Millisecond": 1e6, "Second": 1e9, "Minute": 60e9, "Hour": 3600e9}
	timePkg   = false // the file imports "time" under its own name
)

// evaluate a constant expression over the package constants (arbitrary precision, like Go)
func constVal(e ast.Expr) (*big.Int, bool) {
	switch v := e.(type) {
	case *ast.ParenExpr:
		return constVal(v.X)
	case *ast.BasicLit:
		if v.Kind == token.INT {
			n, ok := new(big.Int).SetString(strings.ReplaceAll(v.Value, "_", ""), 0)
			return n, ok
		}
	case *ast.Ident:
		d, ok := consts[v.Name]
		if !ok || constBusy[v.Name] {
			return nil, false
		}
		constBusy[v.Name] = true
		defer delete(constBusy, v.Name)
		return constVal(d)
	case *ast.SelectorExpr:
		if id, ok := v.X.(*ast.Ident); ok && id.Name == "time" && timePkg && consts["time"] == nil {
			if u, ok := timeUnits[v.Sel.Name]; ok {
				return big.NewInt(u), true
			}
		}
	case *ast.UnaryExpr:
		if v.Op == token.SUB {
			if a, ok := constVal(v.X); ok {
				return new(big.Int).Neg(a), true
			}
		}
	case *ast.BinaryExpr:
		a, ok1 := constVal(v.X)
		b, ok2 := constVal(v.Y)
		if !ok1 || !ok2 {
			return nil, false
		}
		r := new(big.Int)
		switch v.Op {
		case token.ADD:
			return r.Add(a, b), true
		case token.SUB:
			return r.Sub(a, b), true
		case token.MUL:
			return r.Mul(a, b), true
		case token.QUO: // integer constants: truncated division
			if b.Sign() != 0 {
				return r.Quo(a, b), true
			}
		}
	}
	return nil, false
}

func i64(n *big.Int) bool { return n.Cmp(two63) < 0 && n.Cmp(new(big.Int).Neg(two63)) >= 0 }

func zlit(n *big.Int) string {
	if n.Sign() < 0 {
		return fmt.Sprintf("(%s)%%Z", n)
	}
	return fmt.Sprintf("%s%%Z", n)
}

func kind(n interface{}) string {
	return strings.TrimPrefix(reflect.TypeOf(n).String(), "*ast.")
}

type tr struct {
	recv  string          // receiver name
	ip    string          // the netip.Addr parameter (Allow) — "" in cleanup
	key   string          // the range key (cleanup) — "" in Allow
	ints  map[string]bool // integer / time locals declared so far (function-wide: redeclaration is refused)
	ptrs  map[string]bool // *RatelimiterEntry locals
	retsB bool
}

func (t *tr) declared(n string) bool {
	return t.ints[n] || t.ptrs[n] || n == t.recv || (t.ip != "" && n == t.ip) || (t.key != "" && n == t.key)
}

var binops = map[token.Token]string{token.ADD: "OAdd", token.SUB: "OSub"}
var asgops = map[token.Token]string{token.ADD_ASSIGN: "OAdd", token.SUB_ASSIGN: "OSub"}
var cmpops = map[token.Token]string{token.GEQ: "CGe", token.GTR: "CGt", token.LEQ: "CLe", token.LSS: "CLt", token.EQL: "CEq", token.NEQ: "CNe"}

// rate.<name>
func (t *tr) isRecvField(e ast.Expr, name string) bool {
	s, ok := e.(*ast.SelectorExpr)
	if !ok || s.Sel.Name != name {
		return false
	}
	id, ok := s.X.(*ast.Ident)
	return ok && id.Name == t.recv
}

// x.<name> with x a pointer local; returns x
func (t *tr) ptrField(e ast.Expr, name string) (string, bool) {
	s, ok := e.(*ast.SelectorExpr)
	if !ok || s.Sel.Name != name {
		return "", false
	}
	id, ok := s.X.(*ast.Ident)
	if ok && t.ptrs[id.Name] {
		return id.Name, true
	}
	return "", false
}

// rate.table[ip]
func (t *tr) isTableAtIP(e ast.Expr) bool {
	ix, ok := e.(*ast.IndexExpr)
	return ok && t.ip != "" && t.isRecvField(ix.X, "table") && isIdent(ix.Index, t.ip)
}

// f(args...) with f a method selector: returns receiver expression, method name
func method(e ast.Expr, nargs int) (ast.Expr, string, bool) {
	c, ok := e.(*ast.CallExpr)
	if !ok || len(c.Args) != nargs || c.Ellipsis != token.NoPos {
		return nil, "", false
	}
	s, ok := c.Fun.(*ast.SelectorExpr)
	if !ok {
		return nil, "", false
	}
	return s.X, s.Sel.Name, true
}

func (t *tr) expr(e ast.Expr) string {
	switch v := e.(type) {
	case *ast.ParenExpr:
		return t.expr(v.X)
	case *ast.BasicLit:
		if n, ok := constVal(v); ok && i64(n) {
			return fmt.Sprintf("(EConst %s)", zlit(n))
		}
	case *ast.Ident:
		if t.ints[v.Name] {
			return fmt.Sprintf("(EVar %q)", v.Name)
		}
		if !t.declared(v.Name) {
			if n, ok := constVal(v); ok && i64(n) {
				return fmt.Sprintf("(EConst %s)", zlit(n))
			}
		}
		return fmt.Sprintf("(EUnknown %q)", "Ident")
	case *ast.SelectorExpr:
		if x, ok := t.ptrField(v, "tokens"); ok {
			return fmt.Sprintf("(ETokens %q)", x)
		}
		if x, ok := t.ptrField(v, "lastTime"); ok {
			return fmt.Sprintf("(ELastTime %q)", x)
		}
	case *ast.CallExpr:
		// rate.timeNow()
		if x, m, ok := method(v, 0); ok && m == "timeNow" && isIdent(x, t.recv) {
			return "ENow"
		}
		// len(rate.table)
		if isIdent(v.Fun, "len") && !t.declared("len") && len(v.Args) == 1 && t.isRecvField(v.Args[0], "table") {
			return "ELen"
		}
		// a.Sub(b).Nanoseconds()
		if x, m, ok := method(v, 0); ok && m == "Nanoseconds" {
			if a, m2, ok := method(x, 1); ok && m2 == "Sub" {
				return fmt.Sprintf("(EElapsedNs %s %s)", t.expr(a), t.expr(x.(*ast.CallExpr).Args[0]))
			}
		}
		// a.Sub(b)
		if a, m, ok := method(v, 1); ok && m == "Sub" {
			return fmt.Sprintf("(EElapsed %s %s)", t.expr(a), t.expr(v.Args[0]))
		}
	case *ast.BinaryExpr:
		if op, ok := binops[v.Op]; ok {
			return fmt.Sprintf("(EBin %s %s %s)", op, t.expr(v.X), t.expr(v.Y))
		}
		return fmt.Sprintf("(EUnknown %q)", "BinaryExpr "+v.Op.String())
	}
	return fmt.Sprintf("(EUnknown %q)", kind(e))
}

func (t *tr) bexpr(e ast.Expr) string {
	switch v := e.(type) {
	case *ast.ParenExpr:
		return t.bexpr(v.X)
	case *ast.Ident:
		if !t.declared(v.Name) && consts[v.Name] == nil && (v.Name == "true" || v.Name == "false") {
			return fmt.Sprintf("(BLit %s)", v.Name)
		}
	case *ast.BinaryExpr:
		// x == nil, x != nil
		if id, ok := v.X.(*ast.Ident); ok && t.ptrs[id.Name] && isIdent(v.Y, "nil") && !t.declared("nil") && consts["nil"] == nil {
			switch v.Op {
			case token.EQL:
				return fmt.Sprintf("(BIsNil %q)", id.Name)
			case token.NEQ:
				return fmt.Sprintf("(BNotNil %q)", id.Name)
			}
		}
		if op, ok := cmpops[v.Op]; ok {
			return fmt.Sprintf("(BCmp %s %s %s)", op, t.expr(v.X), t.expr(v.Y))
		}
		return fmt.Sprintf("(BUnknown %q)", "BinaryExpr "+v.Op.String())
	}
	return fmt.Sprintf("(BUnknown %q)", kind(e))
}

func (t *tr) lhs(e ast.Expr) string {
	switch v := e.(type) {
	case *ast.Ident:
		if t.ints[v.Name] {
			return fmt.Sprintf("(LVar %q)", v.Name)
		}
	case *ast.SelectorExpr:
		if x, ok := t.ptrField(v, "tokens"); ok {
			return fmt.Sprintf("(LTokens %q)", x)
		}
		if x, ok := t.ptrField(v, "lastTime"); ok {
			return fmt.Sprintf("(LLastTime %q)", x)
		}
	}
	return fmt.Sprintf("(LUnknown %q)", kind(e))
}

func unknownS(what string) string { return fmt.Sprintf("(SUnknown %q)", what) }

func isEntryPtrType(e ast.Expr) bool {
	st, ok := e.(*ast.StarExpr)
	return ok && isIdent(st.X, "RatelimiterEntry")
}

var rateLockOps = map[string]string{"RLock": "KRLock", "RUnlock": "KRUnlock", "Lock": "KLock", "Unlock": "KUnlock"}
var entryLockOps = map[string]string{"Lock": "KLock", "Unlock": "KUnlock"}

// statements are rendered one per line; ind is the indentation of this statement
func (t *tr) stmt(s ast.Stmt, ind string) string {
	switch v := s.(type) {
	case *ast.BlockStmt:
		return t.block(v, ind)
	case *ast.DeclStmt:
		// var x *RatelimiterEntry
		if g, ok := v.Decl.(*ast.GenDecl); ok && g.Tok == token.VAR && len(g.Specs) == 1 {
			sp := g.Specs[0].(*ast.ValueSpec)
			if len(sp.Names) == 1 && len(sp.Values) == 0 && isEntryPtrType(sp.Type) && sp.Names[0].Name != "_" {
				n := sp.Names[0].Name
				if t.declared(n) {
					return unknownS("DeclStmt redeclaration")
				}
				t.ptrs[n] = true
				return fmt.Sprintf("(SDeclPtr %q)", n)
			}
		}
		return unknownS("DeclStmt")
	case *ast.ExprStmt:
		// rate.mu.RLock() ... x.mu.Unlock()
		if x, m, ok := method(v.X, 0); ok {
			if t.isRecvField(x, "mu") {
				if k, ok := rateLockOps[m]; ok {
					return fmt.Sprintf("(SLockOp %s TRate)", k)
				}
			}
			if p, ok := t.ptrField(x, "mu"); ok {
				if k, ok := entryLockOps[m]; ok {
					return fmt.Sprintf("(SLockOp %s (TEntry %q))", k, p)
				}
			}
		}
		// delete(rate.table, key)
		if c, ok := v.X.(*ast.CallExpr); ok && isIdent(c.Fun, "delete") && !t.declared("delete") && len(c.Args) == 2 &&
			t.key != "" && t.isRecvField(c.Args[0], "table") && isIdent(c.Args[1], t.key) {
			return "SDelete"
		}
		return unknownS("ExprStmt")
	case *ast.SendStmt:
		// rate.stopReset <- struct{}{}
		if cl, ok := v.Value.(*ast.CompositeLit); ok && t.isRecvField(v.Chan, "stopReset") && len(cl.Elts) == 0 {
			if st, ok := cl.Type.(*ast.StructType); ok && (st.Fields == nil || len(st.Fields.List) == 0) {
				return "SNotify"
			}
		}
		return unknownS("SendStmt")
	case *ast.AssignStmt:
		if len(v.Lhs) != 1 || len(v.Rhs) != 1 {
			return unknownS("AssignStmt multi")
		}
		switch {
		case v.Tok == token.DEFINE:
			id, ok := v.Lhs[0].(*ast.Ident)
			if !ok || id.Name == "_" {
				return unknownS("AssignStmt define")
			}
			if t.declared(id.Name) {
				return unknownS("AssignStmt redeclaration")
			}
			rhs := t.expr(v.Rhs[0])
			t.ints[id.Name] = true
			return fmt.Sprintf("(SAssign (LVar %q) %s)", id.Name, rhs)
		case v.Tok == token.ASSIGN:
			// x = rate.table[ip], x = new(RatelimiterEntry)
			if id, ok := v.Lhs[0].(*ast.Ident); ok && t.ptrs[id.Name] {
				if t.isTableAtIP(v.Rhs[0]) {
					return fmt.Sprintf("(SLookup %q)", id.Name)
				}
				if c, ok := v.Rhs[0].(*ast.CallExpr); ok && isIdent(c.Fun, "new") && !t.declared("new") && len(c.Args) == 1 && isIdent(c.Args[0], "RatelimiterEntry") {
					return fmt.Sprintf("(SNew %q)", id.Name)
				}
				return unknownS("AssignStmt pointer")
			}
			// rate.table[ip] = x
			if t.isTableAtIP(v.Lhs[0]) {
				if id, ok := v.Rhs[0].(*ast.Ident); ok && t.ptrs[id.Name] {
					return fmt.Sprintf("(SStore %q)", id.Name)
				}
				return unknownS("AssignStmt table")
			}
			return fmt.Sprintf("(SAssign %s %s)", t.lhs(v.Lhs[0]), t.expr(v.Rhs[0]))
		default:
			if op, ok := asgops[v.Tok]; ok {
				return fmt.Sprintf("(SOpAssign %s %s %s)", t.lhs(v.Lhs[0]), op, t.expr(v.Rhs[0]))
			}
			return unknownS("AssignStmt " + v.Tok.String())
		}
	case *ast.IfStmt:
		if v.Init != nil {
			return unknownS("IfStmt init")
		}
		c := t.bexpr(v.Cond)
		th := t.block(v.Body, ind+"  ")
		el := "SSkip"
		switch e := v.Else.(type) {
		case nil:
		case *ast.IfStmt:
			el = t.stmt(e, ind+"  ")
		case *ast.BlockStmt:
			el = t.block(e, ind+"  ")
		default:
			el = unknownS("IfStmt else")
		}
		return fmt.Sprintf("(SIf %s\n%s  %s\n%s  %s)", c, ind, th, ind, el)
	case *ast.ReturnStmt:
		if len(v.Results) == 1 && t.retsB {
			return fmt.Sprintf("(SReturn %s)", t.bexpr(v.Results[0]))
		}
		return unknownS("ReturnStmt")
	}
	return unknownS(kind(s))
}

func (t *tr) block(b *ast.BlockStmt, ind string) string {
	var sb strings.Builder
	for _, s := range b.List {
		sb.WriteString("(SSeq " + t.stmt(s, ind+"  ") + "\n" + ind)
	}
	sb.WriteString("SSkip" + strings.Repeat(")", len(b.List)))
	return sb.String()
}

func isIdent(e ast.Expr, name string) bool {
	id, ok := e.(*ast.Ident)
	return ok && id.Name == name
}

// "name type" of every field, in order
func fields(st *ast.StructType) []string {
	var out []string
	for _, f := range st.Fields.List {
		ty := types.ExprString(f.Type)
		if len(f.Names) == 0 {
			out = append(out, "_embedded "+ty)
		}
		for _, n := range f.Names {
			out = append(out, n.Name+" "+ty)
		}
	}
	return out
}

func main() {
	repo := flag.String("repo", "/repo", "tree under test")
	flag.Parse()
	fset := token.NewFileSet()
	file, err := parser.ParseFile(fset, filepath.Join(*repo, "ratelimiter", "ratelimiter.go"), nil, 0)
	if err != nil {
		fmt.Fprintln(os.Stderr, "rlast: cannot parse ratelimiter/ratelimiter.go")
		os.Exit(1)
	}
	for _, im := range file.Imports {
		if im.Path.Value == `"time"` && im.Name == nil {
			timePkg = true
		}
	}
	funcs := map[string]*ast.FuncDecl{}
	entryOK, rateOK := false, false
	for _, d := range file.Decls {
		switch v := d.(type) {
		case *ast.GenDecl:
			for _, sp := range v.Specs {
				switch s := sp.(type) {
				case *ast.ValueSpec:
					if v.Tok == token.CONST && len(s.Names) == len(s.Values) {
						for i, n := range s.Names {
							consts[n.Name] = s.Values[i]
						}
					}
				case *ast.TypeSpec:
					st, ok := s.Type.(*ast.StructType)
					if !ok {
						continue
					}
					fl := strings.Join(fields(st), "; ")
					if s.Name.Name == "RatelimiterEntry" {
						entryOK = fl == "mu sync.Mutex; lastTime time.Time; tokens int64"
					}
					if s.Name.Name == "Ratelimiter" {
						rateOK = fl == "mu sync.RWMutex; timeNow func() time.Time; stopReset chan struct{}; table map[netip.Addr]*RatelimiterEntry"
					}
				}
			}
		case *ast.FuncDecl:
			if v.Recv != nil && len(v.Recv.List) == 1 && v.Body != nil {
				if st, ok := v.Recv.List[0].Type.(*ast.StarExpr); ok && isIdent(st.X, "Ratelimiter") && len(v.Recv.List[0].Names) == 1 {
					funcs[v.Name.Name] = v
				}
			}
		}
	}
	typesOK := entryOK && rateOK && timePkg

	allow := func() string {
		fd := funcs["Allow"]
		if fd == nil {
			return unknownS("function not found")
		}
		if !typesOK {
			return unknownS("Ratelimiter/RatelimiterEntry types not as expected")
		}
		pl := fd.Type.Params.List
		if len(pl) != 1 || len(pl[0].Names) != 1 || types.ExprString(pl[0].Type) != "netip.Addr" || pl[0].Names[0].Name == "_" {
			return unknownS("parameter list")
		}
		res := fd.Type.Results
		if res == nil || len(res.List) != 1 || len(res.List[0].Names) != 0 || !isIdent(res.List[0].Type, "bool") {
			return unknownS("result type")
		}
		t := &tr{recv: fd.Recv.List[0].Names[0].Name, ip: pl[0].Names[0].Name, ints: map[string]bool{}, ptrs: map[string]bool{}, retsB: true}
		return t.block(fd.Body, "  ")
	}

	// cleanup(): the range loop over rate.table, its value variable, its body, and the condition of the delete
	cleanup := func() (entryVar, body, cond string) {
		entryVar = "entry"
		body, cond = unknownS("cleanup: range loop not found"), fmt.Sprintf("(BUnknown %q)", "cleanup: delete condition not found")
		fd := funcs["cleanup"]
		if fd == nil || !typesOK {
			return
		}
		t := &tr{recv: fd.Recv.List[0].Names[0].Name, ints: map[string]bool{}, ptrs: map[string]bool{}}
		var loop *ast.RangeStmt
		n := 0
		for _, s := range fd.Body.List {
			if r, ok := s.(*ast.RangeStmt); ok {
				loop = r
				n++
			}
		}
		if n != 1 || loop.Tok != token.DEFINE || !t.isRecvField(loop.X, "table") {
			return
		}
		k, ok1 := loop.Key.(*ast.Ident)
		e, ok2 := loop.Value.(*ast.Ident)
		if !ok1 || !ok2 || k.Name == "_" || e.Name == "_" || k.Name == e.Name || k.Name == t.recv || e.Name == t.recv {
			return
		}
		t.key, entryVar = k.Name, e.Name
		t.ptrs[e.Name] = true
		body = t.block(loop.Body, "  ")
		// the if whose body is exactly { delete(rate.table, key) }
		for _, s := range loop.Body.List {
			if is, ok := s.(*ast.IfStmt); ok && is.Init == nil && is.Else == nil && len(is.Body.List) == 1 && t.stmt(is.Body.List[0], "") == "SDelete" {
				cond = t.bexpr(is.Cond)
			}
		}
		return
	}

	fmt.Println("(* GENERATED by harness/cmd/rlast from ratelimiter/ratelimiter.go of the tree under test. Do not edit. *)")
	fmt.Println("From Coq Require Import ZArith String.")
	fmt.Println("From WG Require Import Ratelimit.Ast.")
	fmt.Println("Local Open Scope string_scope.")
	fmt.Println()
	fmt.Println("(* package constants, evaluated (time.Second = 10^9 ns); 0 when absent or not an int64 constant *)")
	for _, c := range []string{"packetsPerSecond", "packetsBurstable", "garbageCollectTime", "packetCost", "maxTokens"} {
		val := "0%Z"
		if n, ok := constVal(ast.NewIdent(c)); ok && i64(n) {
			val = zlit(n)
		}
		fmt.Printf("Definition c_%s : Z := %s.\n", c, val)
	}
	fmt.Println()
	fmt.Println("(* func (rate *Ratelimiter) Allow(ip netip.Addr) bool *)")
	fmt.Printf("Definition allow_body : stmt :=\n  %s.\n\n", allow())
	ev, cb, cc := cleanup()
	fmt.Println("(* func (rate *Ratelimiter) cleanup(): for key, entry := range rate.table { <cleanup_entry_body> } *)")
	fmt.Printf("Definition cleanup_entry_var : string := %q.\n", ev)
	fmt.Printf("Definition cleanup_entry_body : stmt :=\n  %s.\n\n", cb)
	fmt.Println("(* the condition of the if whose body is delete(rate.table, key) *)")
	fmt.Printf("Definition cleanup_cond : bexpr :=\n  %s.\n", cc)
}
