package main

import (
	"encoding/hex"
	"encoding/json"
	"errors"
	"fmt"
	"io"
	"net/netip"
	"os"
	"strings"
	"sync/atomic"
	"time"

	"golang.zx2c4.com/wireguard/device"

	"wgv/cosim"
	"wgv/ref"
	"wgv/sim"
)

// Deterministic replays of the `…_deadlocks` schedules of Lifecycle/Proofs.v on the real
// device.  Each runs in its own (child) process: a deadlocked device cannot be cleaned up.
// Schedule control uses only harness-owned blocking points (sim.Bind gates); nothing is
// added inside the device.
//
// Output (stdout, one JSON line):
//   {"replay":"f3a","hang":true,"key":"deadlock-…","entries":[…],"steps":[…]}
//   {"replay":"f3a","hang":false,...}   the calls returned: the defect is gone

type replayResult struct {
	Replay  string   `json:"replay"`
	Hang    bool     `json:"hang"`
	Key     string   `json:"key,omitempty"`
	Entries []string `json:"entries,omitempty"`
	Steps   []string `json:"steps"`
	Note    string   `json:"note,omitempty"`
	Stacks  string   `json:"stacks,omitempty"`
}

type stepLog struct{ steps []string }

func (s *stepLog) add(f string, a ...any) { s.steps = append(s.steps, fmt.Sprintf(f, a...)) }

// waitEntry polls the goroutine dump until some blocked device chain satisfies pred.
func waitEntry(pred func(string) bool, timeout time.Duration) bool {
	deadline := time.Now().Add(timeout)
	for {
		for _, g := range parseStacks(dumpStacks()) {
			if e := blockedEntry(g); e != "" && pred(e) {
				return true
			}
		}
		if time.Now().After(deadline) {
			return false
		}
		time.Sleep(5 * time.Millisecond)
	}
}

// waitFrame polls until some goroutine has a frame containing sub.
func waitFrame(sub string, timeout time.Duration) bool {
	deadline := time.Now().Add(timeout)
	for {
		if strings.Contains(dumpStacks(), sub) {
			return true
		}
		if time.Now().After(deadline) {
			return false
		}
		time.Sleep(5 * time.Millisecond)
	}
}

func finishReplay(name string, sl *stepLog, done []chan struct{}, wait time.Duration, withStacks bool) {
	res := replayResult{Replay: name, Steps: sl.steps}
	deadline := time.After(wait)
	returned := 0
	for _, d := range done {
		select {
		case <-d:
			returned++
		case <-deadline:
			deadline = time.After(0)
		}
	}
	if returned == len(done) {
		res.Hang = false
		res.Note = "all calls returned"
	} else {
		// confirm: two dumps 1 s apart with the same blocked set and nothing running in the
		// device; on a slow machine wait (up to 30 s) until the blocked set has settled, so a
		// half-formed cycle is never given a signature of its own
		var raw string
		var h2 Hang
		stable := false
		for try := 0; try < 30 && !stable; try++ {
			d1 := parseStacks(dumpStacks())
			time.Sleep(time.Second)
			raw = dumpStacks()
			d2 := parseStacks(raw)
			h1 := classify(d1)
			h2 = classify(d2)
			stable = strings.Join(h1.Entries, ";") == strings.Join(h2.Entries, ";") && !deviceBusy(d2)
		}
		// did the calls return meanwhile?
		returned = 0
		for _, d := range done {
			select {
			case <-d:
				returned++
			default:
			}
		}
		if returned == len(done) {
			res.Hang = false
			res.Note = "all calls returned (late)"
			b, _ := json.Marshal(res)
			fmt.Println(string(b))
			os.Exit(0)
		}
		res.Hang = true
		res.Key = h2.Key
		res.Entries = h2.Entries
		if !stable {
			res.Note = "blocked set still changing after the timeout"
		}
		if withStacks {
			res.Stacks = raw
		}
	}
	b, _ := json.Marshal(res)
	fmt.Println(string(b))
	os.Exit(0)
}

func hexKey(k ref.Key) string { return hex.EncodeToString(k[:]) }

// establish makes the device the INITIATOR of a session with p (TUN packet -> initiation ->
// ref answers), so that keypair.isInitiator holds and keepKeyFreshSending may rekey.
func establishDeviceInitiated(w *cosim.World, p *cosim.RefPeer, dst [4]byte) error {
	pkt := ref.IPv4([4]byte{10, 9, 9, 9}, dst, 64, 1)
	out := w.TunIn(pkt)
	init := cosim.FindInitiation(out.Sent)
	if init == nil {
		return fmt.Errorf("device sent no initiation")
	}
	_, out2, err := w.AnswerInitiation(p, init.Data, p.Addr)
	if err != nil {
		return err
	}
	_ = out2
	st := w.Dev.VerifPeer(cosim.NoisePK(p.Pub))
	if !st.Current.Present || !st.Current.IsInitiator {
		return fmt.Errorf("no initiator keypair: %+v", st.Current)
	}
	return nil
}

// replayF3a — Proofs.bindupdate_vs_removepeer_deadlocks.
//
//	T1 BindUpdate: net.Lock, blocked inside bind.Close() by the harness (CloseGate)
//	T2 sender of peer A: a data packet makes it call SendBuffers -> net.RLock (blocked by T1)
//	T3 IpcSet(remove A): peers.Lock, Peer.Stop waits for T2
//	release T1: Open, then peers.RLock -> blocked by T3.  Cycle T1 -> T3 -> T2 -> T1.
func replayF3a(withStacks bool) {
	sl := &stepLog{}
	a := cosim.NewPeer("A", "192.0.2.7:5555", "10.0.0.2/32")
	w, err := cosim.NewWorld(cosim.Config{Up: true}, true, a)
	if err != nil {
		panic(err)
	}
	if _, _, _, err := w.RefInitiates(a, a.Addr, ref.Tai64n(time.Now())); err != nil {
		panic(err)
	}
	// confirm the session with one transport packet so the device will use it for sending
	w.Inject(a.Addr, a.Session().Next(ref.Pad(ref.IPv4([4]byte{10, 0, 0, 2}, [4]byte{10, 9, 9, 9}, 40, 2))))
	sl.add("device up, peer A configured with endpoint, session established (ref initiated)")

	entered := make(chan struct{})
	release := make(chan struct{})
	var armed atomic.Bool
	armed.Store(true)
	w.Bind.CloseGate = func() {
		if armed.Swap(false) {
			close(entered)
			<-release
		}
	}
	d1 := make(chan struct{})
	go func() { defer close(d1); w.Dev.BindUpdate() }()
	<-entered
	sl.add("T1 BindUpdate holds net.Lock, blocked in bind.Close() (CloseGate)")

	w.Tun.Inject(ref.IPv4([4]byte{10, 9, 9, 9}, [4]byte{10, 0, 0, 2}, 64, 3))
	ok := waitEntry(func(e string) bool { return strings.HasSuffix(e, "Peer.SendBuffers@RWMutex.RLock") }, 5*time.Second)
	sl.add("T2 data packet from TUN: RoutineSequentialSender blocked in SendBuffers on net.RLock: %v", ok)

	d3 := make(chan struct{})
	go func() {
		defer close(d3)
		w.Dev.IpcSet("public_key=" + hexKey(a.Pub) + "\nremove=true\n")
	}()
	ok = waitEntry(func(e string) bool { return strings.Contains(e, "removePeerLocked>Peer.Stop") }, 5*time.Second)
	sl.add("T3 IpcSet(remove A) holds peers.Lock, Peer.Stop waits for the sender: %v", ok)

	close(release)
	sl.add("CloseGate released: T1 continues to Open and peers.RLock")
	finishReplay("f3a", sl, []chan struct{}{d1, d3}, 6*time.Second, withStacks)
}

// replayF3b — Proofs.setprivatekey_collision_vs_sender_rekey_deadlocks.
//
//	device is initiator of A's session, keypair aged 121 s (> RekeyAfterTime), last handshake 6 s ago
//	T2 sender of A blocked inside bind.Send (SendGate) on a data packet
//	T1 IpcSet(private_key = A's private key): staticIdentity.Lock, peers.Lock, A matches,
//	   removePeerLocked -> Peer.Stop waits for T2
//	release T2: send done, keepKeyFreshSending -> SendHandshakeInitiation ->
//	   CreateMessageInitiation -> staticIdentity.RLock, blocked by T1.  Cycle T1 -> T2 -> T1.
func replayF3b(withStacks bool) {
	sl := &stepLog{}
	a := cosim.NewPeer("A", "192.0.2.7:5555", "10.0.0.2/32")
	w, err := cosim.NewWorld(cosim.Config{Up: true}, true, a)
	if err != nil {
		panic(err)
	}
	if err := establishDeviceInitiated(w, a, [4]byte{10, 0, 0, 2}); err != nil {
		panic(err)
	}
	pk := cosim.NoisePK(a.Pub)
	w.Dev.VerifShiftKeypairAges(pk, 121*time.Second)
	w.Dev.VerifShiftHandshakeTimes(pk, 6*time.Second)
	w.Settle()
	w.Bind.TakeSent()
	sl.add("device up, device-initiated session with A, keypair aged 121 s, last handshake 6 s ago")

	entered := make(chan struct{})
	release := make(chan struct{})
	var armed atomic.Bool
	armed.Store(true)
	w.Bind.SendGate = func(bufs [][]byte, to netip.AddrPort) {
		if armed.Swap(false) {
			close(entered)
			<-release
		}
	}
	w.Tun.Inject(ref.IPv4([4]byte{10, 9, 9, 9}, [4]byte{10, 0, 0, 2}, 64, 3))
	select {
	case <-entered:
	case <-time.After(5 * time.Second):
		panic("sender never reached bind.Send")
	}
	sl.add("T2 RoutineSequentialSender blocked inside bind.Send (SendGate)")

	d1 := make(chan struct{})
	go func() {
		defer close(d1)
		w.Dev.IpcSet("private_key=" + hexKey(a.Priv) + "\n")
	}()
	ok := waitEntry(func(e string) bool { return strings.Contains(e, "SetPrivateKey>removePeerLocked>Peer.Stop") }, 5*time.Second)
	sl.add("T1 IpcSet(private_key = A's private key) holds staticIdentity.Lock and peers.Lock, Peer.Stop waits for the sender: %v", ok)

	close(release)
	sl.add("SendGate released: sender goes on to keepKeyFreshSending -> CreateMessageInitiation -> staticIdentity.RLock")
	finishReplay("f3b", sl, []chan struct{}{d1}, 6*time.Second, withStacks)
}

// replayUpKey — Proofs.up_keepalive_vs_direct_setprivatekey_deadlocks (public Go API, not
// reachable through UAPI alone because upLocked holds ipcMutex).
//
//	two peers with persistent keepalive, no sessions.
//	T1 Up: upLocked holds ipcMutex and peers.RLock; first peer's SendKeepalive ->
//	   SendHandshakeInitiation -> SendBuffers -> bind.Send blocked (SendGate)
//	T2 device.SetPrivateKey(new key) (direct call): staticIdentity.Lock, peers.Lock pending
//	release T1: second peer's SendKeepalive -> CreateMessageInitiation -> staticIdentity.RLock.
func replayUpKey(withStacks bool) {
	sl := &stepLog{}
	a := cosim.NewPeer("A", "192.0.2.7:5555", "10.0.0.2/32")
	b := cosim.NewPeer("B", "192.0.2.8:5555", "10.0.0.3/32")
	a.Keepalive, b.Keepalive = 25, 25
	w, err := cosim.NewWorld(cosim.Config{Up: false}, true, a, b)
	if err != nil {
		panic(err)
	}
	sl.add("device down, peers A and B with endpoint and persistent keepalive")
	entered := make(chan struct{})
	release := make(chan struct{})
	var armed atomic.Bool
	armed.Store(true)
	w.Bind.SendGate = func(bufs [][]byte, to netip.AddrPort) {
		if armed.Swap(false) {
			close(entered)
			<-release
		}
	}
	d1 := make(chan struct{})
	go func() { defer close(d1); w.Dev.Up() }()
	select {
	case <-entered:
	case <-time.After(5 * time.Second):
		panic("Up never reached bind.Send")
	}
	sl.add("T1 Up holds state, ipcMutex, peers.RLock; first keepalive's handshake initiation blocked in bind.Send (SendGate)")
	d2 := make(chan struct{})
	go func() {
		defer close(d2)
		var sk device.NoisePrivateKey
		k := ref.NewPrivate()
		copy(sk[:], k[:])
		w.Dev.SetPrivateKey(sk)
	}()
	ok := waitEntry(func(e string) bool { return strings.HasSuffix(e, "Device.SetPrivateKey@RWMutex.Lock") }, 5*time.Second)
	sl.add("T2 device.SetPrivateKey (direct call) holds staticIdentity.Lock, waits for peers.Lock: %v", ok)
	close(release)
	sl.add("SendGate released: Up goes on to the second peer's SendKeepalive -> CreateMessageInitiation -> staticIdentity.RLock")
	finishReplay("upkey", sl, []chan struct{}{d1, d2}, 6*time.Second, withStacks)
}

// replayF3c — Proofs.setprivatekey_vs_consume_response_deadlocks.
//
//	peers A and B; ref-initiated session with A (fresh key, no rekey); the device has a pending
//	initiation toward B (state handshakeInitiationCreated).
//	T2 sender of A parked inside bind.Send (SendGate)
//	T1 IpcSet(private_key = A's private key): staticIdentity.Lock, peers.Lock; A matches, so
//	   Peer.Stop(A) waits for T2 -- this only serves to HOLD T1 inside SetPrivateKey with
//	   staticIdentity.Lock taken (any private_key set passes through the same code)
//	T3 the response from B arrives: RoutineHandshake -> ConsumeMessageResponse takes
//	   B.handshake.RLock, then staticIdentity.RLock: blocked by T1
//	release T2: Stop(A) completes, T1 goes on to ExpireCurrentKeypairs(B) -> B.handshake.Lock:
//	   blocked by T3's read lock.  Cycle T1 -> T3 -> T1.
func replayF3c(withStacks bool) {
	sl := &stepLog{}
	a := cosim.NewPeer("A", "192.0.2.7:5555", "10.0.0.2/32")
	b := cosim.NewPeer("B", "192.0.2.8:5555", "10.0.1.2/32")
	w, err := cosim.NewWorld(cosim.Config{Up: true}, true, a, b)
	if err != nil {
		panic(err)
	}
	if _, _, _, err := w.RefInitiates(a, a.Addr, ref.Tai64n(time.Now())); err != nil {
		panic(err)
	}
	w.Inject(a.Addr, a.Session().Next(ref.Pad(ref.IPv4([4]byte{10, 0, 0, 2}, [4]byte{10, 9, 9, 9}, 40, 2))))
	out := w.TunIn(ref.IPv4([4]byte{10, 9, 9, 9}, [4]byte{10, 0, 1, 2}, 64, 1))
	init := cosim.FindInitiation(out.Sent)
	if init == nil {
		panic("device sent no initiation toward B")
	}
	rs, err := ref.ConsumeInitiation(init.Data, b.Priv)
	if err != nil {
		panic(err)
	}
	resp, _ := rs.CreateResponse(ref.NewPrivate(), b.Psk, 0x7001)
	sl.add("device up; session with A (ref initiated); device initiation toward B pending, B's response prepared")

	entered := make(chan struct{})
	release := make(chan struct{})
	var armed atomic.Bool
	armed.Store(true)
	w.Bind.SendGate = func(bufs [][]byte, to netip.AddrPort) {
		if to == a.Addr && armed.Swap(false) {
			close(entered)
			<-release
		}
	}
	w.Tun.Inject(ref.IPv4([4]byte{10, 9, 9, 9}, [4]byte{10, 0, 0, 2}, 64, 3))
	select {
	case <-entered:
	case <-time.After(5 * time.Second):
		panic("A's sender never reached bind.Send")
	}
	sl.add("T2 A's RoutineSequentialSender parked inside bind.Send (SendGate)")
	d1 := make(chan struct{})
	go func() {
		defer close(d1)
		w.Dev.IpcSet("private_key=" + hexKey(a.Priv) + "\n")
	}()
	ok := waitEntry(func(e string) bool { return strings.Contains(e, "SetPrivateKey>removePeerLocked>Peer.Stop") }, 5*time.Second)
	sl.add("T1 IpcSet(private_key) is inside SetPrivateKey holding staticIdentity.Lock (parked in Stop(A)): %v", ok)
	w.Bind.Inject(sim.Dgram{From: b.Addr, Data: resp})
	ok = waitEntry(func(e string) bool { return strings.HasSuffix(e, "Device.ConsumeMessageResponse.func1@RWMutex.RLock") }, 5*time.Second)
	sl.add("T3 B's response: ConsumeMessageResponse holds B.handshake.RLock, blocked on staticIdentity.RLock: %v", ok)
	close(release)
	sl.add("SendGate released: Stop(A) completes, SetPrivateKey reaches ExpireCurrentKeypairs(B) -> B.handshake.Lock")
	finishReplay("f3c", sl, []chan struct{}{d1}, 6*time.Second, withStacks)
}

// scenarioCollide — NOT a deadlock replay: a scenario that must RETURN.  IpcSet(private_key =
// the private key of a configured, running peer) on an UP device without traffic, without an
// aged key and without a handshake in flight (so none of the listed findings applies):
// SetPrivateKey removes that peer (removePeerLocked -> Peer.Stop -> ZeroAndFlushAll takes the
// peer's handshake.Lock, which SetPrivateKey therefore releases around the call) and returns.
// Variants: peer without a session / with a fresh ref-initiated session / two peers.
func scenarioCollide(withStacks bool) {
	sl := &stepLog{}
	var done []chan struct{}
	for v := 0; v < 3; v++ {
		a := cosim.NewPeer("A", "192.0.2.7:5555", "10.0.0.2/32")
		b := cosim.NewPeer("B", "192.0.2.8:5555", "10.0.1.2/32")
		peers := []*cosim.RefPeer{a}
		if v == 2 {
			peers = append(peers, b)
		}
		w, err := cosim.NewWorld(cosim.Config{Up: true}, true, peers...)
		if err != nil {
			panic(err)
		}
		if v >= 1 {
			if _, _, _, err := w.RefInitiates(a, a.Addr, ref.Tai64n(time.Now())); err != nil {
				panic(err)
			}
			w.Inject(a.Addr, a.Session().Next(ref.Pad(ref.IPv4([4]byte{10, 0, 0, 2}, [4]byte{10, 9, 9, 9}, 40, 2))))
		}
		w.Settle()
		d := make(chan struct{})
		go func() {
			defer close(d)
			w.Dev.IpcSet("private_key=" + hexKey(a.Priv) + "\n")
			w.Dev.IpcGet()
			w.Dev.Down()
			w.Dev.Close()
		}()
		sl.add("variant %d: device up, peer A running (session: %v, peers: %d); IpcSet(private_key = A's private key); IpcGet; Down; Close", v, v >= 1, len(peers))
		done = append(done, d)
		select {
		case <-d:
		case <-time.After(8 * time.Second):
			finishReplay("collide", sl, done, time.Second, withStacks)
		}
	}
	finishReplay("collide", sl, done, time.Second, withStacks)
}

// scenarioResult prints a must-hold scenario's verdict (violation = a clause of the property
// observed broken, with a key) and exits.
func scenarioResult(name string, sl *stepLog, key, detail string) {
	res := struct {
		Replay    string   `json:"replay"`
		Hang      bool     `json:"hang"`
		Violation bool     `json:"violation"`
		Key       string   `json:"key,omitempty"`
		Detail    string   `json:"detail,omitempty"`
		Steps     []string `json:"steps"`
	}{Replay: name, Violation: key != "", Key: key, Detail: detail, Steps: sl.steps}
	b, _ := json.Marshal(res)
	fmt.Println(string(b))
	os.Exit(0)
}

// waitAll waits for the channels; false on timeout.
func waitAll(done []chan struct{}, d time.Duration) bool {
	deadline := time.After(d)
	for _, c := range done {
		select {
		case <-c:
		case <-deadline:
			return false
		}
	}
	return true
}

// scenarioClose2 — overlapping Close calls must be idempotent ("nothing panics", "a closed device
// stays closed", goroutines terminate).  A panic kills this child: the driver reports it from
// the exit status and stderr (key=panic-<first device frame>).
//
//	variant A: a UAPI set whose input is still arriving holds ipcMutex (io.Pipe, one line
//	           written); two Close() calls 50 ms apart; then the input ends.
//	variant B: Up is parked inside bind.Open (OpenGate) holding state.mu; two Close() calls;
//	           then the gate is released.
func scenarioClose2(withStacks bool) {
	sl := &stepLog{}
	for v := 0; v < 2; v++ {
		a := cosim.NewPeer("A", "192.0.2.7:5555", "10.0.0.2/32")
		w, err := cosim.NewWorld(cosim.Config{Up: v == 0}, true, a)
		if err != nil {
			panic(err)
		}
		var done []chan struct{}
		spawn := func(f func()) {
			d := make(chan struct{})
			done = append(done, d)
			go func() { defer close(d); f() }()
		}
		release := make(chan struct{})
		if v == 0 {
			pr, pw := io.Pipe()
			spawn(func() { w.Dev.IpcSetOperation(pr) })
			pw.Write([]byte("fwmark=1\n"))
			if !waitFrame("device.(*Device).IpcSetOperation", 5*time.Second) {
				panic("set not started")
			}
			go func() { <-release; pw.Close() }()
			sl.add("variant A: IpcSetOperation reading from a stalled pipe (holds ipcMutex)")
		} else {
			entered := make(chan struct{})
			var armed atomic.Bool
			armed.Store(true)
			w.Bind.OpenGate = func(uint16) {
				if armed.Swap(false) {
					close(entered)
					<-release
				}
			}
			spawn(func() { w.Dev.Up() })
			<-entered
			sl.add("variant B: Up parked inside bind.Open (holds state.mu and net)")
		}
		spawn(func() { w.Dev.Close() })
		time.Sleep(50 * time.Millisecond)
		spawn(func() { w.Dev.Close() })
		time.Sleep(50 * time.Millisecond)
		sl.add("two Close() calls issued 50 ms apart, both waiting")
		close(release)
		if !waitAll(done, 10*time.Second) {
			finishReplay("close2", sl, done, time.Second, withStacks)
		}
		sl.add("all calls returned; state=%d", w.Dev.VerifDeviceState())
		if w.Dev.VerifDeviceState() != 2 {
			scenarioResult("close2", sl, "not-closed-after-close", "device state is not closed after Close returned")
		}
		// goroutines started by the device terminate
		deadline := time.Now().Add(10 * time.Second)
		for {
			n, left := deviceCount()
			if n == 0 {
				break
			}
			if time.Now().After(deadline) {
				scenarioResult("close2", sl, "goroutine-leak-"+topDevice(left[0]), fmt.Sprintf("%d device goroutines alive 10 s after overlapping Close calls returned", n))
			}
			time.Sleep(5 * time.Millisecond)
		}
	}
	scenarioResult("close2", sl, "", "")
}

// recvLoopsParked reports whether some RoutineReceiveIncoming goroutine is parked in its loop
// (not merely finishing) in two scans 20 ms apart.
func recvLoopsParked() bool {
	scan := func() bool {
		for _, g := range parseStacks(dumpStacks()) {
			for _, f := range g.Funcs {
				if strings.HasSuffix(f, "device.(*Device).RoutineReceiveIncoming") && g.State != "running" && g.State != "runnable" {
					return true
				}
			}
		}
		return false
	}
	if !scan() {
		return false
	}
	time.Sleep(20 * time.Millisecond)
	return scan()
}

// scenarioCloseFault — "after Down or Close has returned the device has stopped its receive
// loops", also when bind.Close() reports an error although it did close the sockets
// (StdNetBind.Close passes on a UDPConn.Close error) and the blocked receive calls need 300 ms
// to notice.  closeBindLocked must still wait for net.stopping before the error is returned.
func scenarioCloseFault(withStacks bool) {
	sl := &stepLog{}
	a := cosim.NewPeer("A", "192.0.2.7:5555", "10.0.0.2/32")
	w, err := cosim.NewWorld(cosim.Config{Up: false}, true, a)
	if err != nil {
		panic(err)
	}
	w.Bind.NumRecv = 2
	if err := w.Dev.Up(); err != nil {
		panic(err)
	}
	w.Settle()
	// fault-free Down first: the check itself must be satisfied in the normal case
	w.Dev.Down()
	if recvLoopsParked() {
		scenarioResult("closefault", sl, "recvloop-alive-after-down", "receive loop still parked after a fault-free Down returned")
	}
	sl.add("fault-free Down: no receive loop left")
	for _, what := range []string{"down", "close"} {
		if err := w.Dev.Up(); err != nil {
			panic(err)
		}
		w.Settle()
		w.Bind.CloseErr = errors.New("sim: close reported an error")
		w.Bind.CloseDelay = 300 * time.Millisecond
		t0 := time.Now()
		if what == "down" {
			w.Dev.Down()
		} else {
			w.Dev.Close()
		}
		dt := time.Since(t0)
		parked := recvLoopsParked()
		sl.add("bind.Close reports an error and receive calls need 300 ms to notice: %s returned after %v; receive loop parked afterwards: %v", what, dt.Round(time.Millisecond), parked)
		if parked {
			scenarioResult("closefault", sl, "recvloop-alive-after-"+what+"-with-bind-close-error",
				"RoutineReceiveIncoming still inside the bind's receive call after "+what+" returned (bind.Close reported an error)")
		}
		time.Sleep(350 * time.Millisecond)
		w.Bind.CloseErr = nil
		w.Bind.CloseDelay = 0
	}
	scenarioResult("closefault", sl, "", "")
}

// scenarioBindFault — "every control call returns", also after the bind refused an operation:
// Up with a failing bind.Open, then (device up) a fwmark change that bind.SetMark refuses.  Every
// later control call (IpcGet, listen_port, fwmark again, Down, Up, Close) must still return, and a
// data send must not be parked on a lock the failed call left behind.
func scenarioBindFault(withStacks bool) {
	sl := &stepLog{}
	a := cosim.NewPeer("A", "192.0.2.7:5555", "10.0.0.2/32")
	w, err := cosim.NewWorld(cosim.Config{Up: false}, true, a)
	if err != nil {
		panic(err)
	}
	done := make(chan struct{})
	go func() {
		defer close(done)
		w.Bind.OpenErr = errors.New("sim: open refused")
		e := w.Dev.Up()
		sl.add("Up with bind.Open failing returned %v", e)
		w.Bind.OpenErr = nil
		_, e = w.Dev.IpcGet()
		sl.add("IpcGet returned (err %v)", e)
		e = w.Dev.Up()
		sl.add("Up returned %v", e)
		w.Bind.MarkErr = errors.New("sim: setmark refused")
		e = w.Dev.IpcSet("fwmark=7\n")
		sl.add("IpcSet fwmark=7 with bind.SetMark failing returned %v", e)
		w.Bind.MarkErr = nil
		_, e = w.Dev.IpcGet()
		sl.add("IpcGet returned (err %v)", e)
		e = w.Dev.IpcSet("fwmark=9\n")
		sl.add("IpcSet fwmark=9 returned %v", e)
		e = w.Dev.IpcSet("listen_port=4242\n")
		sl.add("IpcSet listen_port returned %v", e)
		e = w.Dev.Down()
		sl.add("Down returned %v", e)
		e = w.Dev.Up()
		sl.add("Up returned %v", e)
		w.Dev.Close()
		sl.add("Close returned")
	}()
	select {
	case <-done:
	case <-time.After(5 * time.Second):
	}
	finishReplay("bindfault", sl, []chan struct{}{done}, 100*time.Millisecond, withStacks)
}

// replayF3d — Proofs.down_vs_setprivatekey_vs_sender_rekey_deadlocks (first met by the thorough
// stress run with the sender; replayed here with the peer's RECEIVER, the only one of the
// routines Peer.Stop joins that can be parked at a harness-owned point holding no device lock).
//
//	device is the initiator of A's session; two transport packets from A.
//	T2 RoutineSequentialReceiver: first packet processed, parked inside tun.Write (WriteGate);
//	   the second container is already queued behind it.  Now the keypair is aged 170 s
//	   (> RejectAfterTime - KeepaliveTimeout - RekeyTimeout = 165 s) and the last handshake 6 s.
//	T0 Down: bind closed, peers.RLock, Peer.Stop(A) waits for T2.
//	T1 IpcSet(private_key = a fresh random key): staticIdentity.Lock, waits for peers.Lock.
//	release T2: second container -> keepKeyFreshReceiving -> SendHandshakeInitiation ->
//	   CreateMessageInitiation -> staticIdentity.RLock: blocked by T1.  Cycle T0 -> T2 -> T1 -> T0.
func replayF3d(withStacks bool) {
	sl := &stepLog{}
	a := cosim.NewPeer("A", "192.0.2.7:5555", "10.0.0.2/32")
	w, err := cosim.NewWorld(cosim.Config{Up: true}, true, a)
	if err != nil {
		panic(err)
	}
	if err := establishDeviceInitiated(w, a, [4]byte{10, 0, 0, 2}); err != nil {
		panic(err)
	}
	w.Settle()
	pk := cosim.NoisePK(a.Pub)
	sl.add("device up, device-initiated session with A")
	entered := make(chan struct{})
	release := make(chan struct{})
	var armed atomic.Bool
	armed.Store(true)
	w.Tun.WriteGate = func(bufs [][]byte) {
		if armed.Swap(false) {
			close(entered)
			<-release
		}
	}
	inner := ref.Pad(ref.IPv4([4]byte{10, 0, 0, 2}, [4]byte{10, 9, 9, 9}, 40, 2))
	w.Bind.Inject(sim.Dgram{From: a.Addr, Data: a.Session().Next(inner)})
	select {
	case <-entered:
	case <-time.After(5 * time.Second):
		panic("receiver never reached tun.Write")
	}
	w.Bind.Inject(sim.Dgram{From: a.Addr, Data: a.Session().Next(inner)})
	deadline := time.Now().Add(5 * time.Second)
	for w.Dev.VerifPeer(pk).InboundLen < 1 {
		if time.Now().After(deadline) {
			panic("second container not queued")
		}
		time.Sleep(time.Millisecond)
	}
	w.Dev.VerifShiftKeypairAges(pk, 170*time.Second)
	w.Dev.VerifShiftHandshakeTimes(pk, 6*time.Second)
	sl.add("T2 RoutineSequentialReceiver parked inside tun.Write (WriteGate), second container queued; keypair aged 170 s, last handshake 6 s ago")
	d0 := make(chan struct{})
	go func() { defer close(d0); w.Dev.Down() }()
	ok := waitEntry(func(e string) bool { return strings.Contains(e, "Device.downLocked>Peer.Stop@WaitGroup.Wait") }, 5*time.Second)
	sl.add("T0 Down holds peers.RLock, Peer.Stop(A) waits for the receiver: %v", ok)
	d1 := make(chan struct{})
	go func() {
		defer close(d1)
		w.Dev.IpcSet("private_key=" + hexKey(ref.NewPrivate()) + "\n")
	}()
	ok = waitEntry(func(e string) bool { return strings.HasSuffix(e, "Device.SetPrivateKey@RWMutex.Lock") }, 5*time.Second)
	sl.add("T1 IpcSet(private_key = fresh key) holds staticIdentity.Lock, waits for peers.Lock: %v", ok)
	close(release)
	sl.add("WriteGate released: receiver takes the second container -> keepKeyFreshReceiving -> CreateMessageInitiation -> staticIdentity.RLock")
	finishReplay("f3d", sl, []chan struct{}{d0, d1}, 6*time.Second, withStacks)
}

// scenarioTunFail — a fatal TUN read error under a running device (the interface deleted):
// RoutineReadFromTUN starts Close.  On the reference tree device.Wait() fires, every later
// call returns, the bind is closed and every goroutine of the device terminates.
func scenarioTunFail(withStacks bool) {
	sl := &stepLog{}
	a := cosim.NewPeer("A", "192.0.2.7:5555", "10.0.0.2/32")
	w, err := cosim.NewWorld(cosim.Config{Up: true}, true, a)
	if err != nil {
		panic(err)
	}
	if _, _, _, err := w.RefInitiates(a, a.Addr, ref.Tai64n(time.Now())); err != nil {
		panic(err)
	}
	inner := ref.Pad(ref.IPv4([4]byte{10, 0, 0, 2}, [4]byte{10, 9, 9, 9}, 40, 2))
	for i := 0; i < 5; i++ {
		w.Bind.Inject(sim.Dgram{From: a.Addr, Data: a.Session().Next(inner)})
		w.Tun.Inject(ref.IPv4([4]byte{10, 9, 9, 9}, [4]byte{10, 0, 0, 2}, 64, byte(i)))
	}
	w.Settle()
	sl.add("device up, session with A, traffic both ways")
	w.Tun.FailRead(errors.New("file descriptor in bad state"))
	d0 := make(chan struct{})
	go func() { defer close(d0); <-w.Dev.Wait() }()
	sl.add("tun.Read returned a fatal error; waiting for device.Wait()")
	if !waitAll([]chan struct{}{d0}, 8*time.Second) {
		// later calls on the wedged device, to show what else hangs
		go w.Dev.IpcGet()
		go w.Dev.Up()
		time.Sleep(200 * time.Millisecond)
		finishReplay("tunfail", sl, []chan struct{}{d0}, time.Second, withStacks)
	}
	sl.add("device.Wait() fired, state=%d", w.Dev.VerifDeviceState())
	d1 := make(chan struct{})
	go func() {
		defer close(d1)
		w.Dev.Up()
		w.Dev.Down()
		w.Dev.IpcSet("listen_port=1001\n")
		w.Dev.IpcSet(cosim.PeerConfig(a, true))
		w.Dev.IpcGet()
		w.Dev.BindUpdate()
		w.Dev.Close()
	}()
	if !waitAll([]chan struct{}{d1}, 8*time.Second) {
		finishReplay("tunfail", sl, []chan struct{}{d1}, time.Second, withStacks)
	}
	sl.add("Up, Down, IpcSet x2, IpcGet, BindUpdate, Close all returned")
	if w.Dev.VerifDeviceState() != 2 {
		scenarioResult("tunfail", sl, "not-closed-after-tun-read-error", "device state is not closed after a fatal TUN read error")
	}
	if w.Bind.IsOpen() {
		scenarioResult("tunfail", sl, "bind-open-after-tun-read-error", "bind still open after the device closed itself")
	}
	deadline := time.Now().Add(10 * time.Second)
	for {
		n, left := deviceCount()
		if n == 0 {
			break
		}
		if time.Now().After(deadline) {
			scenarioResult("tunfail", sl, "goroutine-leak-"+topDevice(left[0]), fmt.Sprintf("%d device goroutines alive 10 s after the device closed itself", n))
		}
		time.Sleep(5 * time.Millisecond)
	}
	scenarioResult("tunfail", sl, "", "")
}

// scenarioSendInFlight — "after Down or Close has returned the device puts nothing further on the
// network": a bind.Send call that is in progress (parked inside the sim bind's SendGate, i.e. the
// datagram not yet handed over) must be waited for by Down, Close and BindUpdate, because
// SendBuffers holds net.RLock across the send.  For each of the three: session with A, a TUN
// packet parks A's sender in bind.Send, the operation is started; if it returns while the send is
// still parked, the clause is broken.  On the reference tree it returns only after the release.
func scenarioSendInFlight(withStacks bool) {
	sl := &stepLog{}
	for _, what := range []string{"down-handshake", "down", "bindupdate", "close"} {
		a := cosim.NewPeer("A", "192.0.2.7:5555", "10.0.0.2/32")
		w, err := cosim.NewWorld(cosim.Config{Up: true}, true, a)
		if err != nil {
			panic(err)
		}
		if _, _, _, err := w.RefInitiates(a, a.Addr, ref.Tai64n(time.Now())); err != nil {
			panic(err)
		}
		w.Inject(a.Addr, a.Session().Next(ref.Pad(ref.IPv4([4]byte{10, 0, 0, 2}, [4]byte{10, 9, 9, 9}, 40, 2))))
		w.Bind.TakeSent()
		entered := make(chan struct{})
		release := make(chan struct{})
		var armed atomic.Bool
		armed.Store(true)
		w.Bind.SendGate = func(bufs [][]byte, to netip.AddrPort) {
			if armed.Swap(false) {
				close(entered)
				<-release
			}
		}
		if what == "down-handshake" {
			// the parked send is a handshake response written by a handshake worker, which no
			// Peer.Stop joins: only the net lock makes Down wait for it
			time.Sleep(25 * time.Millisecond) // past the 20 ms initiation flood gap
			st := ref.CreateInitiation(a.Priv, ref.NewPrivate(), w.DevPub, a.Psk, 0x4242, ref.Tai64n(time.Now()))
			w.Bind.Inject(sim.Dgram{From: a.Addr, Data: st.Msg})
		} else {
			w.Tun.Inject(ref.IPv4([4]byte{10, 9, 9, 9}, [4]byte{10, 0, 0, 2}, 64, 3))
		}
		select {
		case <-entered:
		case <-time.After(5 * time.Second):
			panic("no send reached bind.Send (" + what + ")")
		}
		d := make(chan struct{})
		go func() {
			defer close(d)
			switch what {
			case "down", "down-handshake":
				w.Dev.Down()
			case "bindupdate":
				w.Dev.BindUpdate()
			case "close":
				w.Dev.Close()
			}
		}()
		early := false
		select {
		case <-d:
			early = true
		case <-time.After(400 * time.Millisecond):
		}
		sl.add("%s started while a data send is parked inside bind.Send: returned before the send was released: %v", what, early)
		if early {
			close(release)
			time.Sleep(50 * time.Millisecond)
			n := 0
			for _, e := range w.Bind.Log() {
				if e.Kind == "send" || e.Kind == "send-while-closed" {
					n++
				}
			}
			scenarioResult("sendinflight", sl, "send-in-flight-when-"+what+"-returned",
				fmt.Sprintf("%s returned while a bind.Send call that had started on the open bind was still in progress (SendBuffers no longer holds net.RLock across the send); the send completed afterwards (%d send events logged after release)", what, n))
		}
		close(release)
		if !waitAll([]chan struct{}{d}, 10*time.Second) {
			finishReplay("sendinflight", sl, []chan struct{}{d}, time.Second, withStacks)
		}
		if what != "close" {
			w.Dev.Close()
		}
	}
	scenarioResult("sendinflight", sl, "", "")
}

// scenarioFullQueue — control calls under back-pressure: a per-peer queue that is exactly FULL at
// the moment the peer is stopped.  Peer.Stop's nil sentinels are blocking channel sends, so they
// wait for room and the routines always see them.
//
//	V1 outbound full: A's sender parked inside bind.Send (SendGate), the TUN keeps producing until
//	   len(outbound) = cap = 1024 (the TUN reader blocks on the next push); UAPI remove A ->
//	   Peer.Stop; gate released; remove must return, then Down and Close, all goroutines gone.
//	V2 outbound full, then Down (waits for net.Lock behind the parked send), gate released.
//	V3 inbound full: A's receiver parked inside tun.Write (WriteGate), 1024 more transport
//	   packets from A; Down (closeBindLocked waits for RoutineReceiveIncoming, which waits for
//	   room in the inbound queue), gate released; then Close.
func scenarioFullQueue(withStacks bool) {
	sl := &stepLog{}
	for _, v := range []string{"outbound-remove", "outbound-down", "inbound-down"} {
		a := cosim.NewPeer("A", "192.0.2.7:5555", "10.0.0.2/32")
		w, err := cosim.NewWorld(cosim.Config{Up: true, TunBatch: 1, BindBatch: 1}, true, a)
		if err != nil {
			panic(err)
		}
		if _, _, _, err := w.RefInitiates(a, a.Addr, ref.Tai64n(time.Now())); err != nil {
			panic(err)
		}
		inner := ref.Pad(ref.IPv4([4]byte{10, 0, 0, 2}, [4]byte{10, 9, 9, 9}, 40, 2))
		w.Inject(a.Addr, a.Session().Next(inner))
		w.Tun.TakeWritten()
		pk := cosim.NoisePK(a.Pub)
		entered := make(chan struct{})
		release := make(chan struct{})
		var armed atomic.Bool
		armed.Store(true)
		park := func() {
			if armed.Swap(false) {
				close(entered)
				<-release
			}
		}
		full := func() int {
			st := w.Dev.VerifPeer(pk)
			if strings.HasPrefix(v, "outbound") {
				return st.OutboundLen
			}
			return st.InboundLen
		}
		if strings.HasPrefix(v, "outbound") {
			w.Bind.SendGate = func([][]byte, netip.AddrPort) { park() }
		} else {
			w.Tun.WriteGate = func([][]byte) { park() }
		}
		feed := func(n int) {
			for i := 0; i < n; i++ {
				if strings.HasPrefix(v, "outbound") {
					w.Tun.Inject(ref.IPv4([4]byte{10, 9, 9, 9}, [4]byte{10, 0, 0, 2}, 64, byte(i)))
				} else {
					w.Bind.Inject(sim.Dgram{From: a.Addr, Data: a.Session().Next(inner)})
				}
			}
		}
		feed(1)
		select {
		case <-entered:
		case <-time.After(5 * time.Second):
			panic("routine never reached the gate (" + v + ")")
		}
		feed(1100)
		deadline := time.Now().Add(15 * time.Second)
		for full() < 1024 && time.Now().Before(deadline) {
			time.Sleep(2 * time.Millisecond)
		}
		sl.add("%s: routine parked in the gate, queue length %d of 1024", v, full())
		if full() < 1024 {
			panic("could not fill the queue")
		}
		var done []chan struct{}
		d := make(chan struct{})
		done = append(done, d)
		go func() {
			defer close(d)
			switch v {
			case "outbound-remove":
				w.Dev.IpcSet("public_key=" + hexKey(a.Pub) + "\nremove=true\n")
			default:
				w.Dev.Down()
			}
			w.Dev.Down()
			w.Dev.Close()
		}()
		time.Sleep(100 * time.Millisecond) // the call reaches Peer.Stop / the net lock
		close(release)
		if !waitAll(done, 10*time.Second) {
			sl.add("%s: the control call did not return after the gate was released", v)
			finishReplay("fullqueue", sl, done, time.Second, withStacks)
		}
		deadline = time.Now().Add(10 * time.Second)
		for {
			n, left := deviceCount()
			if n == 0 {
				break
			}
			if time.Now().After(deadline) {
				scenarioResult("fullqueue", sl, "goroutine-leak-"+topDevice(left[0]), fmt.Sprintf("%s: %d device goroutines alive 10 s after Close returned", v, n))
			}
			time.Sleep(5 * time.Millisecond)
		}
		sl.add("%s: remove/Down, Down, Close returned; no device goroutine left", v)
	}
	scenarioResult("fullqueue", sl, "", "")
}
