// c13 — control-plane / lifecycle safety of the real device under concurrent callers.
//
//	-mode stress   random concurrent plans {Up, Down, BindUpdate, IpcSet…, IpcGet, traffic, Close};
//	               per-call watchdog (hang -> "HANG {json}" on stdout, exit 3), goroutine census
//	               after Close, bind Open/Close/Send log + call log written as Gallina case files
//	               (judged by Lifecycle/Check.v) and cases.json.  Build with -race for the race runs.
//	-mode f3a|f3b|upkey   deterministic replay of a `…_deadlocks` schedule (run as a child process)
//	-mode family   random plans that INCLUDE the excluded overlaps (Unsafe), to measure how fast
//	               the listed lock-order findings are hit; hangs are printed like in stress.
//	-replay f      re-run the plans of a cases.json / plan file
package main

import (
	"encoding/json"
	"flag"
	"fmt"
	"os"
	"path/filepath"
	"strings"
	"time"
)

func gallinaCase(c Case) string {
	var b strings.Builder
	b.WriteString("mk [")
	for i, x := range c.Trace {
		if i > 0 {
			b.WriteString(";")
		}
		fmt.Fprintf(&b, "%d", x)
	}
	b.WriteString("]%uint63")
	return b.String()
}

func writeShard(path string, cases []Case) error {
	var b strings.Builder
	b.WriteString("From Coq Require Import Uint63.\nFrom WG Require Import Base.Prelude Lifecycle.Check.\nDefinition cases : list case := [\n")
	for i, c := range cases {
		if i > 0 {
			b.WriteString(";\n")
		}
		b.WriteString(gallinaCase(c))
	}
	b.WriteString("].\nDefinition bad := Eval vm_compute in (check_cases cases 0%N).\nPrint bad.\nDefinition st := Eval vm_compute in (stats cases).\nPrint st.\nDefinition nt := Eval vm_compute in (nontrivial cases).\nPrint nt.\n")
	return os.WriteFile(path, []byte(b.String()), 0o644)
}

type shardMeta struct {
	File  string `json:"file"`
	First int    `json:"first"`
	N     int    `json:"n"`
}

type meta struct {
	Seed   int64       `json:"seed"`
	Shards []shardMeta `json:"shards"`
	Cases  []Case      `json:"cases"`
	WallS  float64     `json:"wall_s"`
}

func writeAll(out string, seed int64, cases []Case, per int, t0 time.Time) {
	m := meta{Seed: seed, Cases: cases}
	for i := 0; i < len(cases); i += per {
		j := i + per
		if j > len(cases) {
			j = len(cases)
		}
		name := fmt.Sprintf("cases_C13_%d.v", len(m.Shards))
		if err := writeShard(filepath.Join(out, name), cases[i:j]); err != nil {
			panic(err)
		}
		m.Shards = append(m.Shards, shardMeta{File: name, First: i, N: j - i})
	}
	m.WallS = time.Since(t0).Seconds()
	b, _ := json.Marshal(m)
	if err := os.WriteFile(filepath.Join(out, "cases.json"), b, 0o644); err != nil {
		panic(err)
	}
}

func main() {
	mode := flag.String("mode", "stress", "stress | family | family-a | f3a | f3b | f3c | upkey")
	seed := flag.Int64("seed", 1, "PRNG seed")
	dur := flag.Float64("dur", 10, "seconds of stress (rounds are started until the time is used up)")
	maxRounds := flag.Int("n", 1000000, "maximum number of rounds")
	callers := flag.Int("callers", 4, "concurrent callers per round")
	opsPer := flag.Int("ops", 14, "mean operations per caller")
	out := flag.String("out", "out/C13/stress", "output directory")
	hang := flag.Float64("hang", 10, "per-call watchdog in seconds")
	replay := flag.String("replay", "", "cases.json or plan file to re-run")
	reps := flag.Int("reps", 1, "repetitions of each replayed plan")
	corpus := flag.String("corpus", "", "directory with corpus plans (*.json), run first")
	stacks := flag.Bool("stacks", false, "include the goroutine dump in replay output")
	focus := flag.String("focus", "", "comma-separated plan ops to prioritise (directed search)")
	flag.Parse()
	if *focus != "" {
		focusOps = strings.Split(*focus, ",")
	}

	switch *mode {
	case "f3a":
		replayF3a(*stacks)
		return
	case "f3b":
		replayF3b(*stacks)
		return
	case "f3c":
		replayF3c(*stacks)
		return
	case "upkey":
		replayUpKey(*stacks)
		return
	case "f3d":
		replayF3d(*stacks)
		return
	case "classify":
		// print the signature of a saved goroutine dump (-replay <stacks file>)
		data, err := os.ReadFile(*replay)
		if err != nil {
			panic(err)
		}
		b, _ := json.Marshal(classify(parseStacks(string(data))))
		fmt.Println(string(b))
		return
	case "collide":
		scenarioCollide(*stacks)
		return
	case "close2":
		scenarioClose2(*stacks)
		return
	case "closefault":
		scenarioCloseFault(*stacks)
		return
	case "tunfail":
		scenarioTunFail(*stacks)
		return
	case "bindfault":
		scenarioBindFault(*stacks)
		return
	case "sendinflight":
		scenarioSendInFlight(*stacks)
		return
	case "fullqueue":
		scenarioFullQueue(*stacks)
		return
	}
	if err := os.MkdirAll(*out, 0o755); err != nil {
		panic(err)
	}
	t0 := time.Now()
	limit := time.Duration(*hang * float64(time.Second))
	var cases []Case
	var plans []Plan
	load := func(path string) {
		data, err := os.ReadFile(path)
		if err != nil {
			panic(err)
		}
		var m meta
		if json.Unmarshal(data, &m) == nil && len(m.Cases) > 0 {
			for _, c := range m.Cases {
				plans = append(plans, c.Plan)
			}
			return
		}
		var obj struct {
			Input *Plan `json:"input"`
			Plan  *Plan `json:"plan"`
		}
		if json.Unmarshal(data, &obj) == nil && (obj.Input != nil || obj.Plan != nil) {
			if obj.Input != nil {
				plans = append(plans, *obj.Input)
			} else {
				plans = append(plans, *obj.Plan)
			}
			return
		}
		var p Plan
		if err := json.Unmarshal(data, &p); err != nil || len(p.Callers) == 0 {
			panic("cannot read a plan from " + path)
		}
		plans = append(plans, p)
	}
	if *replay != "" {
		load(*replay)
		for _, p := range plans {
			for i := 0; i < *reps; i++ {
				cases = append(cases, runRound(p, *out, limit))
			}
		}
		writeAll(*out, *seed, cases, 64, t0)
		return
	}
	if *corpus != "" {
		files, _ := filepath.Glob(filepath.Join(*corpus, "*.json"))
		for _, f := range files {
			load(f)
		}
		for _, p := range plans {
			cases = append(cases, runRound(p, *out, limit))
		}
	}
	deadline := t0.Add(time.Duration(*dur * float64(time.Second)))
	for round := 0; round < *maxRounds && time.Now().Before(deadline); round++ {
		p := genPlan(*seed, round, *callers, *opsPer)
		if *mode == "family" || *mode == "family-a" {
			// family: all exclusions lifted (F3c dominates); family-a: responses off, so only the
			// net <-> peers inversion family (F3a) is reachable
			p.Unsafe = true
			p.Traffic = true
			p.StartUp = true
			p.Respond = *mode == "family"
		}
		cases = append(cases, runRound(p, *out, limit))
	}
	writeAll(*out, *seed, cases, 64, t0)
	nv := 0
	for _, c := range cases {
		nv += len(c.Viols)
	}
	fmt.Printf("DONE rounds=%d violations=%d wall=%.1fs\n", len(cases), nv, time.Since(t0).Seconds())
}
