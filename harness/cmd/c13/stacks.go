package main

import (
	"crypto/sha1"
	"encoding/hex"
	"regexp"
	"runtime"
	"sort"
	"strings"
	"sync"
)

// Gor is one goroutine of a runtime.Stack dump.
type Gor struct {
	ID     string
	State  string   // text between [ and ] of the header, without the minutes suffix
	Funcs  []string // function names, innermost first
	Raw    string
	Device bool // has a frame in golang.zx2c4.com/wireguard/ (not the harness)
}

var hdrRe = regexp.MustCompile(`^goroutine (\d+)(?: gp=\S+ m=\S+(?: mp=\S+)?)? \[([^\]]*)\]:`)

var stackPool = sync.Pool{New: func() any { b := make([]byte, 1<<20); return &b }}

func dumpStacks() string {
	bp := stackPool.Get().(*[]byte)
	for {
		n := runtime.Stack(*bp, true)
		if n < len(*bp) {
			s := string((*bp)[:n])
			stackPool.Put(bp)
			return s
		}
		b := make([]byte, 2*len(*bp))
		bp = &b
	}
}

func parseStacks(s string) []Gor {
	var out []Gor
	for _, blk := range strings.Split(s, "\n\n") {
		blk = strings.TrimSpace(blk)
		if blk == "" {
			continue
		}
		lines := strings.Split(blk, "\n")
		m := hdrRe.FindStringSubmatch(lines[0])
		if m == nil {
			continue
		}
		st := m[2]
		if i := strings.Index(st, ","); i >= 0 {
			st = st[:i]
		}
		g := Gor{ID: m[1], State: st, Raw: blk}
		for _, l := range lines[1:] {
			if strings.HasPrefix(l, "\t") || strings.HasPrefix(l, "created by ") || l == "" {
				continue
			}
			// "pkg.(*T).Method(args...)" or "pkg.Func(...)"
			f := l
			if i := strings.LastIndex(f, "("); i > 0 {
				f = f[:i]
			}
			g.Funcs = append(g.Funcs, f)
			if strings.HasPrefix(f, "golang.zx2c4.com/wireguard/") {
				g.Device = true
			}
		}
		out = append(out, g)
	}
	return out
}

// short turns "golang.zx2c4.com/wireguard/device.(*Peer).Stop" into "Peer.Stop".
func short(f string) string {
	f = strings.TrimPrefix(f, "golang.zx2c4.com/wireguard/")
	if i := strings.Index(f, "."); i >= 0 {
		pkg := f[:i]
		rest := f[i+1:]
		rest = strings.ReplaceAll(rest, "(*", "")
		rest = strings.ReplaceAll(rest, ")", "")
		if pkg != "device" {
			return pkg + "." + rest
		}
		return rest
	}
	return f
}

// waitKind classifies the innermost sync frame of a blocked goroutine.
func waitKind(g Gor) string {
	for _, f := range g.Funcs {
		switch {
		case strings.HasPrefix(f, "sync.(*RWMutex).RLock"):
			return "RWMutex.RLock"
		case strings.HasPrefix(f, "sync.(*RWMutex).Lock"):
			return "RWMutex.Lock"
		case strings.HasPrefix(f, "sync.(*Mutex).Lock"):
			return "Mutex.Lock"
		case strings.HasPrefix(f, "sync.(*WaitGroup).Wait"):
			return "WaitGroup.Wait"
		case strings.HasPrefix(f, "golang.zx2c4.com/wireguard/"), strings.HasPrefix(f, "main."), strings.HasPrefix(f, "wgv/"):
			// reached non-runtime code without meeting a sync frame
			switch g.State {
			case "chan send":
				return "chan-send"
			case "chan receive":
				return "chan-receive"
			case "select":
				return "select"
			}
			return ""
		}
	}
	return ""
}

// blockedEntry returns "Outer>...>Inner@Wait" for a goroutine that is blocked on a lock or a
// wait-group (or a channel send) inside the device, "" for everything else (idle workers
// parked in their queue receive are not part of a hang).
func blockedEntry(g Gor) string {
	if !g.Device {
		return ""
	}
	switch {
	case strings.HasPrefix(g.State, "sync."), strings.HasPrefix(g.State, "semacquire"), g.State == "chan send":
	default:
		return ""
	}
	wk := waitKind(g)
	if wk == "" || wk == "chan-receive" || wk == "select" {
		return ""
	}
	var chain []string
	for i := len(g.Funcs) - 1; i >= 0; i-- {
		f := g.Funcs[i]
		if strings.HasPrefix(f, "golang.zx2c4.com/wireguard/") {
			s := short(f)
			// closures: "NewTimer.func1" kept, generic suffixes dropped
			if len(chain) == 0 || chain[len(chain)-1] != s {
				chain = append(chain, s)
			}
		}
	}
	if len(chain) == 0 {
		return ""
	}
	// the three queue closers wait for their reference count from NewDevice to Close: normal
	if len(chain) == 1 && strings.HasPrefix(chain[0], "new") && strings.HasSuffix(chain[0], "Queue.func1") {
		return ""
	}
	return strings.Join(chain, ">") + "@" + wk
}

// Hang describes the blocked part of the device.
type Hang struct {
	Key     string   `json:"key"`
	Entries []string `json:"entries"`
}

func has(entries []string, pred func(string) bool) bool {
	for _, e := range entries {
		if pred(e) {
			return true
		}
	}
	return false
}

// classify maps the sorted set of blocked device chains to a signature.  The rules name the
// lock-order findings of DESIGN.md F3; any other set gets a key derived from the set itself,
// so a different hang can never be mistaken for a listed one.
func classify(gs []Gor) Hang {
	set := map[string]bool{}
	for _, g := range gs {
		if e := blockedEntry(g); e != "" {
			set[e] = true
		}
	}
	var entries []string
	for e := range set {
		entries = append(entries, e)
	}
	sort.Strings(entries)
	h := Hang{Entries: entries}
	c := strings.Contains
	bindUpdR := has(entries, func(e string) bool { return strings.HasSuffix(e, "Device.BindUpdate@RWMutex.RLock") })
	sendBufR := has(entries, func(e string) bool { return strings.HasSuffix(e, "Peer.SendBuffers@RWMutex.RLock") })
	stopFromRemove := has(entries, func(e string) bool {
		return (c(e, "Device.RemovePeer>removePeerLocked>Peer.Stop") || c(e, "Device.RemoveAllPeers>removePeerLocked>Peer.Stop")) &&
			!c(e, "SetPrivateKey") && (strings.HasSuffix(e, "@WaitGroup.Wait") || strings.HasSuffix(e, "Timer.DelSync@Mutex.Lock"))
	})
	stopFromSetKey := has(entries, func(e string) bool {
		return c(e, "Device.SetPrivateKey>removePeerLocked>Peer.Stop") &&
			(strings.HasSuffix(e, "@WaitGroup.Wait") || strings.HasSuffix(e, "Timer.DelSync@Mutex.Lock"))
	})
	createInitR := has(entries, func(e string) bool { return strings.HasSuffix(e, "Device.CreateMessageInitiation@RWMutex.RLock") })
	consumeRespR := has(entries, func(e string) bool { return strings.HasSuffix(e, "Device.ConsumeMessageResponse.func1@RWMutex.RLock") })
	// SetPrivateKey blocked anywhere but in Peer.Stop: at staticIdentity.Lock (pending writer),
	// at a handshake RLock, or in ExpireCurrentKeypairs at the handshake Lock
	setKeyHsR := has(entries, func(e string) bool {
		return c(e, "Device.SetPrivateKey") && !c(e, "removePeerLocked") &&
			(strings.HasSuffix(e, "Device.SetPrivateKey>Peer.ExpireCurrentKeypairs@RWMutex.Lock") ||
				strings.HasSuffix(e, "Device.SetPrivateKey@RWMutex.RLock") || strings.HasSuffix(e, "Device.SetPrivateKey@RWMutex.Lock"))
	})
	upSetKey := has(entries, func(e string) bool {
		return c(e, "Device.upLocked>") && strings.HasSuffix(e, "Device.CreateMessageInitiation@RWMutex.RLock")
	}) && has(entries, func(e string) bool { return strings.HasSuffix(e, "Device.SetPrivateKey@RWMutex.Lock") })
	// Down (or a failed Up) in downLocked>Peer.Stop, SetPrivateKey blocked on a write lock
	// (peers.Lock, holding staticIdentity.Lock), somebody in CreateMessageInitiation
	stopFromDown := has(entries, func(e string) bool {
		return c(e, "Device.downLocked>Peer.Stop") && !c(e, "Device.Close>") &&
			(strings.HasSuffix(e, "@WaitGroup.Wait") || strings.HasSuffix(e, "Timer.DelSync@Mutex.Lock"))
	})
	setKeyW := has(entries, func(e string) bool { return strings.HasSuffix(e, "Device.SetPrivateKey@RWMutex.Lock") })
	switch {
	case stopFromDown && setKeyW && createInitR && !consumeRespR:
		h.Key = "deadlock-down-vs-setprivatekey-vs-rekey"
	case bindUpdR && sendBufR && stopFromRemove:
		h.Key = "deadlock-bindupdate-vs-removepeer"
	case stopFromSetKey && createInitR:
		h.Key = "deadlock-setprivatekey-collision-vs-sender-rekey"
	case consumeRespR && setKeyHsR:
		h.Key = "deadlock-consumeresponse-vs-setprivatekey"
	case upSetKey:
		h.Key = "deadlock-up-keepalive-vs-setprivatekey"
	case len(entries) == 0:
		h.Key = "hang-no-blocked-device-frame"
	default:
		sum := sha1.Sum([]byte(strings.Join(entries, ";")))
		h.Key = "hang-" + hex.EncodeToString(sum[:5])
	}
	return h
}

// deviceBusy reports whether some goroutine inside the device is running or runnable.
func deviceBusy(gs []Gor) bool {
	for _, g := range gs {
		if g.Device && (g.State == "running" || g.State == "runnable") {
			// the goroutine that took the dump is "running" but has no device frame unless it is a caller
			busy := true
			for _, f := range g.Funcs {
				if strings.HasPrefix(f, "main.dumpStacks") {
					busy = false
				}
			}
			if busy {
				return true
			}
		}
	}
	return false
}

// deviceGoroutines lists goroutines that have a wireguard frame (for the census after Close).
func deviceGoroutines(gs []Gor) []Gor {
	var out []Gor
	for _, g := range gs {
		if g.Device {
			out = append(out, g)
		}
	}
	return out
}

// topDevice is the innermost wireguard frame of a goroutine.
func topDevice(g Gor) string {
	for _, f := range g.Funcs {
		if strings.HasPrefix(f, "golang.zx2c4.com/wireguard/") {
			return short(f)
		}
	}
	return ""
}
