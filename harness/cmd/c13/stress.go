package main

import (
	"crypto/sha1"
	"encoding/hex"
	"encoding/json"
	"errors"
	"fmt"
	"io"
	"math/rand"
	"net/netip"
	"os"
	"path/filepath"
	"runtime"
	"sort"
	"strings"
	"sync"
	"sync/atomic"
	"time"

	"golang.zx2c4.com/wireguard/device"
	"golang.zx2c4.com/wireguard/tun"

	"wgv/cosim"
	"wgv/ref"
	"wgv/sim"
)

// ---------------------------------------------------------------- plans

type PlanOp struct {
	K string `json:"k"`
	P int    `json:"p,omitempty"`
	A int    `json:"a,omitempty"`
}

type Plan struct {
	Seed      int64 `json:"seed"`
	Round     int   `json:"round"`
	Peers     int   `json:"peers"`
	InitPeers []int `json:"init_peers"`
	StartUp   bool  `json:"start_up"`
	BindBatch int   `json:"bind_batch"`
	TunBatch  int   `json:"tun_batch"`
	Gomax     int   `json:"gomaxprocs"`
	Traffic   bool  `json:"traffic"`
	// Respond: the harness answers the device's handshake initiations (so the device runs
	// ConsumeMessageResponse).  Rounds with Respond never set the private key (not even to the
	// same value: SetPrivateKey's staticIdentity.Lock alone is enough as the pending writer)
	// and rounds that set the private key never answer: that overlap is the listed finding F3c.
	Respond bool       `json:"respond"`
	Callers [][]PlanOp `json:"callers"`
	// CloseFault: at the end of the round the sim bind is told to report an error from Close
	// (after really closing) and to let its receive functions notice the close only after
	// 45 ms; 1 = before a final Down, 2 = before the final Close.  The device is up then.
	CloseFault int `json:"close_fault,omitempty"`
	// FinalClose2: the final Close is issued by two goroutines at once.
	FinalClose2 bool `json:"final_close2,omitempty"`
	// FinalTunFail: before the final Close the TUN device reports a fatal read error (the
	// interface deleted under a running device): the device must close itself.
	FinalTunFail bool `json:"final_tunfail,omitempty"`
	// SendDelayUs > 0: every bind.Send call (except cookie replies, which the code sends without
	// the net lock) is stamped on entry, held for this long inside the sim bind's gate, and
	// stamped again: a send in flight when Down / Close / BindUpdate run.
	SendDelayUs int `json:"send_delay_us,omitempty"`
	// Unsafe lifts the exclusion of the overlaps behind the listed lock-order findings
	// (direct BindUpdate together with peer-set / private-key changes).  Never set by the
	// random generator of the check; used by the dedicated F3 family runs only.
	Unsafe bool `json:"unsafe,omitempty"`
}

// focusOps, when set (-focus a,b,...), are drawn for half of the plan positions: the directed
// search after a new lock-order inversion was found in the source (operations of the two witness
// functions are prioritised).
var focusOps []string

func genPlan(seed int64, round int, callers, opsPer int) Plan {
	r := rand.New(rand.NewSource(seed*1000003 + int64(round)*7919 + 17))
	p := Plan{Seed: seed, Round: round, Peers: 3, StartUp: r.Intn(3) != 0, Traffic: r.Intn(8) != 0}
	p.BindBatch = []int{1, 4, 16}[r.Intn(3)]
	p.TunBatch = []int{1, 4, 16}[r.Intn(3)]
	p.Gomax = []int{2, 4, 8, 16}[r.Intn(4)]
	p.Respond = r.Intn(2) == 0
	for i := 0; i < p.Peers; i++ {
		if r.Intn(3) != 0 {
			p.InitPeers = append(p.InitPeers, i)
		}
	}
	closeMid := r.Intn(3) == 0
	closer := r.Intn(callers)
	closer2 := -1 // a second caller that also closes mid-plan
	if r.Intn(2) == 0 {
		closer2 = r.Intn(callers)
	}
	closeTwice := r.Intn(2) == 0 // the closer issues two overlapping Close calls
	if r.Intn(5) == 0 {
		p.CloseFault = 1 + r.Intn(2)
	}
	p.FinalClose2 = r.Intn(2) == 0
	tunFailMid := r.Intn(4) == 0 // the mid-plan closer does not call Close: the TUN read fails fatally instead
	p.FinalTunFail = r.Intn(6) == 0
	if r.Intn(4) == 0 {
		p.SendDelayUs = 300 + r.Intn(2500)
	}
	for c := 0; c < callers; c++ {
		var ops []PlanOp
		n := opsPer/2 + r.Intn(opsPer)
		closeAt := -1
		if closeMid && (c == closer || c == closer2) {
			closeAt = n/2 + r.Intn(n/2+1)
		}
		for i := 0; i < n; i++ {
			if i == closeAt {
				if tunFailMid && c == closer {
					ops = append(ops, PlanOp{K: "tunfail"})
				} else if closeTwice && c == closer {
					ops = append(ops, PlanOp{K: "close2", A: r.Intn(300)})
				} else {
					ops = append(ops, PlanOp{K: "close"})
				}
			}
			x := r.Intn(100)
			if len(focusOps) > 0 && r.Intn(2) == 0 {
				k := focusOps[r.Intn(len(focusOps))]
				if (k == "set_key" || k == "set_samekey") && p.Respond {
					k = "get"
				}
				ops = append(ops, PlanOp{K: k, P: r.Intn(p.Peers), A: []int{0, 1, 2, 25}[r.Intn(4)]})
				continue
			}
			switch {
			case x < 14:
				ops = append(ops, PlanOp{K: "up"})
			case x < 27:
				ops = append(ops, PlanOp{K: "down"})
			case x < 35:
				ops = append(ops, PlanOp{K: "bindupdate"})
			case x < 43:
				ops = append(ops, PlanOp{K: "get"})
			case x < 52:
				ops = append(ops, PlanOp{K: "set_add", P: r.Intn(p.Peers), A: []int{0, 0, 1, 25}[r.Intn(4)]})
			case x < 60:
				ops = append(ops, PlanOp{K: "set_remove", P: r.Intn(p.Peers)})
			case x < 67:
				ops = append(ops, PlanOp{K: "set_port", A: 1000 + r.Intn(4)})
			case x < 71:
				if p.Respond {
					ops = append(ops, PlanOp{K: "get"})
				} else {
					ops = append(ops, PlanOp{K: "set_key"})
				}
			case x < 73:
				if p.Respond {
					ops = append(ops, PlanOp{K: "get"})
				} else {
					ops = append(ops, PlanOp{K: "set_samekey"})
				}
			case x < 78:
				ops = append(ops, PlanOp{K: "set_keepalive", P: r.Intn(p.Peers), A: []int{0, 1, 2, 25}[r.Intn(4)]})
			case x < 83:
				ops = append(ops, PlanOp{K: "set_endpoint", P: r.Intn(p.Peers), A: r.Intn(3)})
			case x < 85:
				ops = append(ops, PlanOp{K: "set_fwmark", A: r.Intn(3)})
			case x < 87:
				ops = append(ops, PlanOp{K: "set_replace_peers"})
			case x < 89:
				ops = append(ops, PlanOp{K: "mtu", A: []int{1280, 1420, 9000}[r.Intn(3)]})
			case x < 94:
				ops = append(ops, PlanOp{K: "tunburst", P: r.Intn(p.Peers), A: 1 + r.Intn(20)})
			case x < 97:
				ops = append(ops, PlanOp{K: "sleep", A: r.Intn(3000)})
			default:
				// a UAPI set whose input arrives slowly: IpcSetOperation holds ipcMutex meanwhile
				ops = append(ops, PlanOp{K: "set_slow", A: 200 + r.Intn(3000)})
			}
		}
		p.Callers = append(p.Callers, ops)
	}
	return p
}

// ---------------------------------------------------------------- events

// Event codes of the trace handed to Lifecycle/Check.v (code + 32 * op id).
const (
	evOpen = iota
	evClose
	evSend
	evOpenWhileOpen
	evSendClosed
	evInvUp
	evRetUp
	evInvDown
	evRetDown
	evInvClose
	evRetClose
	evInvOther
	evRetOther
	evPeerRunning // the harness found a peer running (number taken AFTER the reads)
	evInvPeerCfg  // UAPI set with a peer section: handlePostConfig may start the peer
	evRetPeerCfg
	evObsBegin  // the harness is about to read the peers' run state (number taken BEFORE the reads)
	evRecvLoop  // the harness found a RoutineReceiveIncoming goroutine parked in its loop (two scans)
	evSendEnter // a bind.Send call has started (stamped in the sim bind's SendGate)
	evSendExit  // ... and is about to complete (the gate returns, the datagram is handed over next)
)

type Ev struct {
	Seq  uint64
	Code int
	Op   int
}

type Viol struct {
	Key    string   `json:"key"`
	Detail string   `json:"detail"`
	Frames []string `json:"frames,omitempty"`
}

type Case struct {
	Plan   Plan           `json:"plan"`
	Trace  []int          `json:"trace"` // code + 32*op, ordered by global sequence number
	Stats  map[string]int `json:"stats"`
	Viols  []Viol         `json:"violations,omitempty"`
	Ops    []string       `json:"ops"` // call id -> "caller:kind" (for reading traces)
	Seqs   []uint64       `json:"seqs,omitempty"`
	WallMs int64          `json:"wall_ms"`
}

// ---------------------------------------------------------------- round

type inflight struct {
	op    PlanOp
	id    int
	start time.Time
}

type round struct {
	plan     Plan
	w        *cosim.World
	peers    []*cosim.RefPeer
	mu       sync.Mutex
	evs      []Ev
	nextID   int
	fl       map[int]*inflight // by caller
	excl     sync.RWMutex      // A = direct BindUpdate (Lock), B = peer-set / key changes through UAPI (RLock)
	devPub   atomic.Pointer[ref.Key]
	keyMu    sync.Mutex
	downExcl sync.RWMutex // Down (RLock) never overlaps a private_key set (Lock): listed finding "down vs setprivatekey vs rekey"
	tunMu    sync.RWMutex // sim.Tun.Event must not race with sim.Tun.Close (harness objects)
	tunDead  atomic.Bool  // a fatal TUN read error has been injected: no more sim.Tun.Event (the device closes the TUN by itself)
	curKey   ref.Key
	keyGen   atomic.Int64
	stop     atomic.Bool
	closed   atomic.Bool
	stats    map[string]int
	statsMu  sync.Mutex
	opNames  []string
}

func (r *round) count(k string, n int) {
	r.statsMu.Lock()
	r.stats[k] += n
	r.statsMu.Unlock()
}

func (r *round) begin(caller int, op PlanOp, inv int) int {
	r.mu.Lock()
	id := r.nextID
	r.nextID++
	r.fl[caller] = &inflight{op: op, id: id, start: time.Now()}
	r.opNames = append(r.opNames, fmt.Sprintf("%d:%s", caller, op.K))
	// the sequence number is taken BEFORE the call starts
	r.evs = append(r.evs, Ev{Seq: sim.Seq.Add(1), Code: inv, Op: id})
	r.mu.Unlock()
	return id
}

func (r *round) end(caller, id, ret int) {
	// the sequence number is taken AFTER the call returned
	s := sim.Seq.Add(1)
	r.mu.Lock()
	r.evs = append(r.evs, Ev{Seq: s, Code: ret, Op: id})
	delete(r.fl, caller)
	r.mu.Unlock()
}

func peerSection(p *cosim.RefPeer, keepalive int, withAllowed bool) string {
	var b strings.Builder
	fmt.Fprintf(&b, "public_key=%s\n", hexKey(p.Pub))
	fmt.Fprintf(&b, "endpoint=%s\n", p.Addr)
	if keepalive > 0 {
		fmt.Fprintf(&b, "persistent_keepalive_interval=%d\n", keepalive)
	}
	if withAllowed {
		b.WriteString("replace_allowed_ips=true\n")
		for _, a := range p.AllowedIPs {
			fmt.Fprintf(&b, "allowed_ip=%s\n", a)
		}
	}
	return b.String()
}

func (r *round) exec(caller int, op PlanOp) {
	dev := r.w.Dev
	inv, ret := evInvOther, evRetOther
	switch op.K {
	case "up":
		inv, ret = evInvUp, evRetUp
	case "down":
		inv, ret = evInvDown, evRetDown
	case "close", "tunfail":
		inv, ret = evInvClose, evRetClose
	case "set_add", "set_keepalive", "set_endpoint", "set_replace_peers":
		inv, ret = evInvPeerCfg, evRetPeerCfg
	case "close2":
		// two overlapping Close calls (RoutineReadFromTUN's `go device.Close()` on a read error,
		// a signal handler and device.Wait() users do this in real deployments)
		var wg sync.WaitGroup
		for k := 0; k < 2; k++ {
			wg.Add(1)
			go func(k int) {
				defer wg.Done()
				if k == 1 {
					time.Sleep(time.Duration(op.A) * time.Microsecond)
				}
				r.exec(1000+2*caller+k+2, PlanOp{K: "close"})
			}(k)
		}
		wg.Wait()
		return
	case "sleep":
		time.Sleep(time.Duration(op.A) * time.Microsecond)
		return
	case "tunburst":
		for i := 0; i < op.A; i++ {
			r.w.Tun.Inject(ref.IPv4([4]byte{10, 9, 9, 9}, [4]byte{10, 0, byte(op.P), 2}, 40+i, byte(i)))
		}
		r.count("tun_injected", op.A)
		return
	}
	// harness-level exclusion of the overlaps behind the listed deadlocks
	classA := op.K == "bindupdate"
	classB := op.K == "set_add" || op.K == "set_remove" || op.K == "set_key" || op.K == "set_samekey" ||
		op.K == "set_keepalive" || op.K == "set_endpoint" || op.K == "set_replace_peers"
	if !r.plan.Unsafe {
		if op.K == "down" {
			r.downExcl.RLock()
			defer r.downExcl.RUnlock()
		} else if op.K == "set_key" || op.K == "set_samekey" {
			r.downExcl.Lock()
			defer r.downExcl.Unlock()
		}
		if classA {
			r.excl.Lock()
			defer r.excl.Unlock()
		} else if classB {
			r.excl.RLock()
			defer r.excl.RUnlock()
		}
	}
	if (op.K == "set_key" || op.K == "set_samekey") && r.plan.Respond && !r.plan.Unsafe {
		r.count("skipped_set_key_in_respond_round", 1)
		return
	}
	id := r.begin(caller, op, inv)
	var err error
	switch op.K {
	case "up":
		err = dev.Up()
	case "down":
		err = dev.Down()
	case "close":
		r.tunMu.RLock() // several Close calls may overlap; only sim.Tun.Event is kept out
		dev.Close()
		r.closed.Store(true)
		r.tunMu.RUnlock()
	case "tunfail":
		// fatal TUN read error: RoutineReadFromTUN starts Close by itself; the "call" lasts
		// until device.Wait() fires (close(device.closed) is the last step of Close)
		r.tunMu.Lock()
		r.tunDead.Store(true)
		r.tunMu.Unlock()
		r.w.Tun.FailRead(errors.New("file descriptor in bad state"))
		<-dev.Wait()
		r.closed.Store(true)
	case "set_slow":
		pr, pw := io.Pipe()
		go func() {
			pw.Write([]byte(fmt.Sprintf("fwmark=%d\n", op.A%3)))
			time.Sleep(time.Duration(op.A) * time.Microsecond)
			pw.Close()
		}()
		err = dev.IpcSetOperation(pr)
	case "bindupdate":
		err = dev.BindUpdate()
	case "get":
		var s string
		s, err = dev.IpcGet()
		if err == nil {
			for _, l := range strings.Split(strings.TrimSpace(s), "\n") {
				if l != "" && !strings.Contains(l, "=") {
					err = fmt.Errorf("malformed get line %q", l)
				}
			}
		}
	case "set_add":
		err = dev.IpcSet(peerSection(r.peers[op.P], op.A, true))
	case "set_remove":
		err = dev.IpcSet("public_key=" + hexKey(r.peers[op.P].Pub) + "\nremove=true\n")
	case "set_port":
		err = dev.IpcSet(fmt.Sprintf("listen_port=%d\n", op.A))
	case "set_key":
		// a fresh random key: can collide with a configured peer's public key only with
		// negligible probability (the colliding case is the listed finding F3b)
		k := ref.NewPrivate()
		r.keyMu.Lock()
		err = dev.IpcSet("private_key=" + hexKey(k) + "\n")
		if err == nil {
			r.curKey = k
			pub := ref.PubOf(k)
			r.devPub.Store(&pub)
			r.keyGen.Add(1)
		}
		r.keyMu.Unlock()
	case "set_samekey":
		// re-set the current key: SetPrivateKey returns right after comparing
		r.keyMu.Lock()
		err = dev.IpcSet("private_key=" + hexKey(r.curKey) + "\n")
		r.keyMu.Unlock()
	case "set_keepalive":
		err = dev.IpcSet(fmt.Sprintf("public_key=%s\nupdate_only=true\npersistent_keepalive_interval=%d\n", hexKey(r.peers[op.P].Pub), op.A))
	case "set_endpoint":
		err = dev.IpcSet(fmt.Sprintf("public_key=%s\nupdate_only=true\nendpoint=192.0.2.%d:%d\n", hexKey(r.peers[op.P].Pub), 10+op.P, 5000+op.P+100*op.A))
	case "set_fwmark":
		err = dev.IpcSet(fmt.Sprintf("fwmark=%d\n", op.A))
	case "set_replace_peers":
		err = dev.IpcSet("replace_peers=true\n" + peerSection(r.peers[0], 0, true))
	case "mtu":
		r.w.Tun.SetMTU(op.A)
		r.tunMu.Lock()
		if !r.closed.Load() && !r.tunDead.Load() {
			r.w.Tun.Event(tun.EventMTUUpdate)
		}
		r.tunMu.Unlock()
	}
	r.end(caller, id, ret)
	if op.K == "down" || op.K == "close" || op.K == "tunfail" {
		r.observePeers(id, op.A == forceScan || op.K == "tunfail")
	}
	r.count("op_"+op.K, 1)
	if err != nil {
		r.count("op_errors", 1)
	}
}

// observePeers brackets a read of the peers' run state by two numbered events; the monitor
// counts "a peer is running" only if the whole bracket lies inside a window in which the model
// says peers are stopped (so a stale read stamped after a later Close/Down cannot alarm, and any
// Up / peer-section call invoked before the reads ended closes the window first).
// forceScan as the argument of a down/close op makes observePeers scan for receive loops
// regardless of the sampling.
const forceScan = -7

func (r *round) observePeers(id int, force bool) {
	running := false
	dbg := ""
	s0 := sim.Seq.Add(1)
	r.mu.Lock()
	r.evs = append(r.evs, Ev{Seq: s0, Code: evObsBegin, Op: id})
	r.mu.Unlock()
	for _, pk := range r.w.Dev.VerifPeerKeys() {
		if st := r.w.Dev.VerifPeer(pk); st.Running {
			running = true
			if os.Getenv("C13_DEBUG") != "" {
				dbg += fmt.Sprintf("state=%v %+v\n%s\n", r.w.Dev.VerifDeviceState(), st, dumpStacks())
			}
		}
	}
	// "has stopped its receive loops": a RoutineReceiveIncoming goroutine that is PARKED inside
	// its loop (waiting in the bind's receive function, sleeping, or blocked on a queue) in two
	// scans 20 ms apart.  A goroutine that is merely finishing (running/runnable after its
	// net.stopping.Done()) is not counted, so a slow machine cannot alarm.
	recvParked := func() bool {
		d := dumpStacks()
		if !strings.Contains(d, "device.(*Device).RoutineReceiveIncoming") {
			return false
		}
		for _, g := range parseStacks(d) {
			in := false
			for _, f := range g.Funcs {
				if strings.HasSuffix(f, "device.(*Device).RoutineReceiveIncoming") {
					in = true
				}
			}
			if in && g.State != "running" && g.State != "runnable" {
				return true
			}
		}
		return false
	}
	loop := false
	// scanned only while the sim bind is closed: with the bind open either a later Up has ended
	// the window, or clauses 2/4 of the monitor already report the open bind
	if (force || id%2 == 0 || r.closed.Load()) && !r.w.Bind.IsOpen() {
		r.count("recv_loop_scans", 1)
		if recvParked() {
			time.Sleep(20 * time.Millisecond)
			loop = recvParked()
		}
	}
	if running || loop {
		s := sim.Seq.Add(1)
		if dbg != "" {
			fmt.Fprintf(os.Stderr, "DEBUGSEQ %d\n%s\nENDDEBUG\n", s, dbg)
		}
		r.mu.Lock()
		if running {
			r.evs = append(r.evs, Ev{Seq: s, Code: evPeerRunning, Op: id})
		}
		if loop {
			r.evs = append(r.evs, Ev{Seq: s, Code: evRecvLoop, Op: id})
		}
		r.mu.Unlock()
		if running {
			r.count("peer_running_observed_after_down_or_close", 1)
		}
		if loop {
			r.count("recv_loop_parked_after_down_or_close", 1)
		}
	}
}

// traffic drives both directions while the plan runs: ref-initiated handshakes and
// transport packets from the network side, answers to device initiations, TUN packets.
func (r *round) traffic(wg *sync.WaitGroup) {
	defer wg.Done()
	type pst struct {
		sess     *ref.Session
		pending  *ref.InitiatorState
		lastInit time.Time
		gen      int64
		idx      uint32
	}
	sts := make([]*pst, len(r.peers))
	for i := range sts {
		sts[i] = &pst{idx: uint32(0x1000 * (i + 1))}
	}
	rng := rand.New(rand.NewSource(r.plan.Seed*31 + int64(r.plan.Round)))
	for !r.stop.Load() {
		devPub := *r.devPub.Load()
		gen := r.keyGen.Load()
		// 1. what the device sent
		for _, s := range r.w.Bind.TakeSent() {
			if len(s.Data) < 4 {
				continue
			}
			switch s.Data[0] {
			case ref.TypeResponse:
				for _, st := range sts {
					if st.pending != nil {
						if sess, err := st.pending.ConsumeResponse(s.Data); err == nil {
							st.sess, st.pending = sess, nil
							r.count("handshakes_ref_initiated", 1)
						}
					}
				}
			case ref.TypeInitiation:
				if !r.plan.Respond {
					r.count("device_initiations_unanswered", 1)
					continue
				}
				for i, p := range r.peers {
					rs, err := ref.ConsumeInitiation(s.Data, p.Priv)
					if err != nil || rs.InitiatorStatic != devPub {
						continue
					}
					sts[i].idx++
					resp, sess := rs.CreateResponse(ref.NewPrivate(), p.Psk, sts[i].idx)
					r.w.Bind.Inject(sim.Dgram{From: p.Addr, Data: resp})
					sts[i].sess = sess
					sts[i].gen = gen
					r.count("handshakes_device_initiated", 1)
				}
			case ref.TypeTransport:
				r.count("transport_from_device", 1)
			}
		}
		// 2. network side
		for i, p := range r.peers {
			st := sts[i]
			if st.gen != gen {
				st.sess, st.pending, st.gen = nil, nil, gen
			}
			if st.sess == nil || rng.Intn(40) == 0 {
				if time.Since(st.lastInit) > 30*time.Millisecond {
					st.idx++
					st.pending = ref.CreateInitiation(p.Priv, ref.NewPrivate(), devPub, p.Psk, st.idx, ref.Tai64n(time.Now()))
					st.lastInit = time.Now()
					r.w.Bind.Inject(sim.Dgram{From: p.Addr, Data: st.pending.Msg})
				}
			} else {
				n := 1 + rng.Intn(4)
				for k := 0; k < n; k++ {
					inner := ref.IPv4([4]byte{10, 0, byte(i), 2}, [4]byte{10, 9, 9, 9}, 40+rng.Intn(200), byte(k))
					r.w.Bind.Inject(sim.Dgram{From: p.Addr, Data: st.sess.Next(ref.Pad(inner))})
				}
				r.count("transport_injected", n)
			}
		}
		// 3. TUN side
		if rng.Intn(2) == 0 {
			i := rng.Intn(len(r.peers))
			n := 1 + rng.Intn(6)
			pk := make([][]byte, n)
			for k := range pk {
				pk[k] = ref.IPv4([4]byte{10, 9, 9, 9}, [4]byte{10, 0, byte(i), 2}, 40+rng.Intn(200), byte(k))
			}
			r.w.Tun.Inject(pk...)
			r.count("tun_injected", n)
		}
		r.w.Tun.TakeWritten()
		time.Sleep(time.Duration(200+rng.Intn(800)) * time.Microsecond)
	}
}

// hangReport is printed (one JSON line on stdout, prefixed HANG) before the process exits.
type hangReport struct {
	Key     string   `json:"key"`
	Entries []string `json:"entries"`
	Op      PlanOp   `json:"op"`
	Caller  int      `json:"caller"`
	WaitedS float64  `json:"waited_s"`
	Plan    string   `json:"plan_file"`
	Stacks  string   `json:"stacks_file"`
	Note    string   `json:"note,omitempty"`
}

// watchdog: a call that has not returned after `limit` is examined: two goroutine dumps 2 s
// apart; if the call is still in flight, the blocked set is identical and nothing inside the
// device is running, it is a hang.  Otherwise (slow machine) it is given up to 6*limit.
func (r *round) watchdog(limit time.Duration, outDir, planFile string, done chan struct{}) {
	tick := time.NewTicker(250 * time.Millisecond)
	defer tick.Stop()
	for {
		select {
		case <-done:
			return
		case <-tick.C:
		}
		r.mu.Lock()
		var worst *inflight
		wc := -1
		for c, f := range r.fl {
			if worst == nil || f.start.Before(worst.start) {
				worst, wc = f, c
			}
		}
		r.mu.Unlock()
		if worst == nil || time.Since(worst.start) < limit {
			continue
		}
		d1 := parseStacks(dumpStacks())
		time.Sleep(2 * time.Second)
		r.mu.Lock()
		f2, still := r.fl[wc]
		still = still && f2.id == worst.id
		r.mu.Unlock()
		if !still {
			r.count("slow_calls", 1)
			continue
		}
		raw := dumpStacks()
		d2 := parseStacks(raw)
		h1, h2 := classify(d1), classify(d2)
		confirmed := strings.Join(h1.Entries, ";") == strings.Join(h2.Entries, ";") && !deviceBusy(d2) && len(h2.Entries) > 0
		if !confirmed && time.Since(worst.start) < 6*limit {
			continue
		}
		rep := hangReport{Key: h2.Key, Entries: h2.Entries, Op: worst.op, Caller: wc, WaitedS: time.Since(worst.start).Seconds(), Plan: planFile}
		if !confirmed {
			rep.Key = "stall-" + h2.Key
			rep.Note = "call did not return within 6x the watchdog limit but the blocked set was not stable"
		}
		rep.Stacks = filepath.Join(outDir, fmt.Sprintf("hang_%d_%d.stacks.txt", r.plan.Seed, r.plan.Round))
		os.WriteFile(rep.Stacks, []byte(raw), 0o644)
		b, _ := json.Marshal(rep)
		fmt.Println("HANG " + string(b))
		os.Stdout.Sync()
		os.Exit(3)
	}
}

func deviceCount() (int, []Gor) {
	gs := deviceGoroutines(parseStacks(dumpStacks()))
	return len(gs), gs
}

func runRound(plan Plan, outDir string, hangLimit time.Duration) Case {
	t0 := time.Now()
	planFile := filepath.Join(outDir, fmt.Sprintf("plan_%d_%d.json", plan.Seed, plan.Round))
	pb, _ := json.Marshal(plan)
	os.WriteFile(planFile, pb, 0o644)
	runtime.GOMAXPROCS(plan.Gomax)
	defer runtime.GOMAXPROCS(runtime.NumCPU())

	// census baseline: goroutines with a wireguard frame before NewDevice (none expected)
	base, _ := deviceCount()

	r := &round{plan: plan, fl: map[int]*inflight{}, stats: map[string]int{}}
	for i := 0; i < plan.Peers; i++ {
		p := cosim.NewPeer(fmt.Sprintf("P%d", i), fmt.Sprintf("192.0.2.%d:%d", 10+i, 5000+i), fmt.Sprintf("10.0.%d.0/24", i))
		p.Configured = false
		r.peers = append(r.peers, p)
	}
	for _, i := range plan.InitPeers {
		r.peers[i].Configured = true
	}
	seq0 := sim.Seq.Load()
	w, err := cosim.NewWorld(cosim.Config{Up: false, BindBatch: plan.BindBatch, TunBatch: plan.TunBatch, Port: 1000}, true, r.peers...)
	if err != nil {
		panic(err)
	}
	r.w = w
	if plan.SendDelayUs > 0 {
		// set before any caller or device routine that sends exists
		var sendID atomic.Int64
		w.Bind.SendGate = func(bufs [][]byte, to netip.AddrPort) {
			if len(bufs) > 0 && len(bufs[0]) > 0 && bufs[0][0] == 3 {
				return // cookie reply: SendHandshakeCookie calls bind.Send without net.RLock (existing code)
			}
			id := int(sendID.Add(1))
			s0 := sim.Seq.Add(1)
			r.mu.Lock()
			r.evs = append(r.evs, Ev{Seq: s0, Code: evSendEnter, Op: id})
			r.mu.Unlock()
			time.Sleep(time.Duration(plan.SendDelayUs) * time.Microsecond)
			s1 := sim.Seq.Add(1)
			r.mu.Lock()
			r.evs = append(r.evs, Ev{Seq: s1, Code: evSendExit, Op: id})
			r.mu.Unlock()
		}
	}
	pub := w.DevPub
	r.devPub.Store(&pub)
	r.curKey = w.DevPriv
	wdDone := make(chan struct{})
	go r.watchdog(hangLimit, outDir, planFile, wdDone)
	if plan.StartUp {
		r.exec(-1, PlanOp{K: "up"})
	}
	var twg sync.WaitGroup
	if plan.Traffic {
		twg.Add(1)
		go r.traffic(&twg)
	}
	var cwg sync.WaitGroup
	for c, ops := range plan.Callers {
		cwg.Add(1)
		go func(c int, ops []PlanOp) {
			defer cwg.Done()
			for _, op := range ops {
				r.exec(c, op)
			}
		}(c, ops)
	}
	cwg.Wait()
	// fault injection at the end (no caller is running any more, so setting the sim bind's
	// fields is ordered before every later read): bind.Close reports an error although it did
	// close, and the receive functions notice the close only after 45 ms.  The device must still
	// wait for its receive loops before Down / Close return (closeBindLocked: stopping.Wait()).
	fault := func(on bool) {
		if on {
			w.Bind.CloseErr = errors.New("sim: close reported an error")
			w.Bind.CloseDelay = 45 * time.Millisecond
		} else {
			w.Bind.CloseErr = nil
			w.Bind.CloseDelay = 0
		}
	}
	if !r.closed.Load() && plan.CloseFault == 1 {
		r.exec(-1, PlanOp{K: "up"})
		fault(true)
		r.exec(-1, PlanOp{K: "down", A: forceScan})
		fault(false)
		r.count("close_fault_down", 1)
	} else if !r.closed.Load() && plan.Round%2 == 0 {
		// a last Down with the traffic still running exercises "nothing sent after Down returned"
		r.exec(-1, PlanOp{K: "down"})
		time.Sleep(3 * time.Millisecond)
	}
	r.stop.Store(true)
	twg.Wait()
	if !r.closed.Load() && plan.CloseFault == 2 {
		r.exec(-1, PlanOp{K: "up"})
		fault(true)
		r.count("close_fault_close", 1)
	}
	if plan.FinalTunFail && !r.closed.Load() {
		// the device closes itself on a fatal TUN read error; the explicit Close afterwards is a no-op
		r.exec(-1, PlanOp{K: "tunfail"})
		r.count("final_tunfail", 1)
	}
	if plan.FinalClose2 {
		r.exec(-1, PlanOp{K: "close2", A: 50})
	} else {
		r.exec(-1, PlanOp{K: "close", A: forceScan})
	}
	fault(false)
	// operations after Close must not reopen anything
	r.exec(-1, PlanOp{K: "up"})
	r.exec(-1, PlanOp{K: "bindupdate"})
	r.exec(-1, PlanOp{K: "set_port", A: 1003})
	close(wdDone)

	c := Case{Plan: plan, Stats: r.stats}
	r.mu.Lock()
	c.Ops = append([]string{}, r.opNames...)
	r.mu.Unlock()
	// census: every goroutine with a wireguard frame must be gone (the harness has stopped its own)
	deadline := time.Now().Add(20 * time.Second)
	var left []Gor
	for {
		var n int
		n, left = deviceCount()
		if n <= base {
			break
		}
		if time.Now().After(deadline) {
			var frames []string
			seen := map[string]bool{}
			for _, g := range left {
				t := topDevice(g)
				if !seen[t] {
					seen[t] = true
					frames = append(frames, t)
				}
			}
			sort.Strings(frames)
			c.Viols = append(c.Viols, Viol{Key: "goroutine-leak-" + strings.Join(frames, "+"),
				Detail: fmt.Sprintf("%d goroutines with device frames still alive 20 s after Close returned (baseline %d)", n, base), Frames: frames})
			os.WriteFile(filepath.Join(outDir, fmt.Sprintf("leak_%d_%d.stacks.txt", plan.Seed, plan.Round)), []byte(dumpStacks()), 0o644)
			break
		}
		time.Sleep(2 * time.Millisecond)
	}
	r.stats["census_left"] = len(left) - base
	if w.Bind.IsOpen() {
		c.Viols = append(c.Viols, Viol{Key: "bind-open-after-close", Detail: "sim bind still open after Close returned"})
	}

	// merge the bind log and the call log by global sequence number
	var evs []Ev
	for _, e := range w.Bind.Log() {
		if e.Seq <= seq0 {
			continue
		}
		code := -1
		switch e.Kind {
		case "open":
			code = evOpen
		case "close":
			code = evClose
		case "send":
			code = evSend
		case "open-while-open":
			code = evOpenWhileOpen
		case "send-while-closed":
			code = evSendClosed
		}
		if code >= 0 {
			evs = append(evs, Ev{Seq: e.Seq, Code: code})
		}
	}
	r.mu.Lock()
	evs = append(evs, r.evs...)
	r.mu.Unlock()
	sort.Slice(evs, func(i, j int) bool { return evs[i].Seq < evs[j].Seq })
	last := -1
	for _, e := range evs {
		// runs of accepted sends (and of refused sends) are collapsed: only their presence
		// between two other events matters to the specification
		if (e.Code == evSend || e.Code == evSendClosed) && e.Code == last {
			continue
		}
		last = e.Code
		c.Trace = append(c.Trace, e.Code+32*e.Op)
		if os.Getenv("C13_DEBUG") != "" {
			c.Seqs = append(c.Seqs, e.Seq)
		}
		switch e.Code {
		case evOpen:
			r.stats["bind_open"]++
		case evClose:
			r.stats["bind_close"]++
		case evSend:
			r.stats["send_runs"]++
		case evSendClosed:
			r.stats["send_refused_runs"]++
		case evOpenWhileOpen:
			r.stats["open_while_open"]++
		}
	}
	c.WallMs = time.Since(t0).Milliseconds()
	if len(c.Viols) == 0 {
		os.Remove(planFile) // kept only when the round crashed, hung or failed
	}
	return c
}

func planHash(p Plan) string {
	b, _ := json.Marshal(p.Callers)
	s := sha1.Sum(b)
	return hex.EncodeToString(s[:6])
}

var _ = device.NewDevice
var _ netip.AddrPort
