// c01 (a) sweeps calculatePaddingSize over the boundary domain and (b) drives a
// real device through the co-simulation library with TUN batches of arbitrary
// packets toward peers with nested allowed-IPs, opening everything the device
// emits with the harness's own protocol implementation.  Scenarios (events +
// observed datagram descriptors) go to Gallina case files + JSON for
// Outbound/Check.v.
package main

import (
	"encoding/binary"
	"encoding/json"
	"errors"
	"flag"
	"fmt"
	"math/rand"
	"net/netip"
	"os"
	"path/filepath"
	"strings"
	"sync/atomic"
	"time"

	"golang.org/x/net/ipv4"
	"golang.org/x/net/ipv6"
	"golang.zx2c4.com/wireguard/conn"
	"golang.zx2c4.com/wireguard/device"
	"golang.zx2c4.com/wireguard/tun"

	"wgv/cosim"
	"wgv/dpath"
	"wgv/ref"
	"wgv/sim"
)

type Obs struct {
	Kind  int    `json:"kind"` // 1 initiation, 2 response, 3 cookie, 4 transport, 0 malformed
	Peer  int    `json:"peer"` // 1-based, 0 = attributable to nobody
	Sess  int    `json:"sess"` // serial of the session that opens it
	Ep    int    `json:"ep"`
	Rcv   uint32 `json:"rcv"`
	Ctr   uint64 `json:"ctr"`
	Len   int    `json:"len"`
	Plain []byte `json:"plain"`
	Raw   []byte `json:"raw,omitempty"` // the datagram itself when nobody's keys open it
}

type Ev struct {
	Kind string `json:"k"` // tun, tunf, mtu, refhs, anshs, roam, shifths, expire, down, up
	// tunf: the first bind.Send toward peer FaultPeer's endpoint transmits FaultK buffers and fails
	// ("err": some errno; "gso": conn.ErrUDPGSODisabled{RetryErr: nil} after transmitting everything)
	Sections  []ConfSection `json:"sections,omitempty"` // conf: one UAPI set operation of several peer sections (see ConfSection)
	FaultPeer int           `json:"fp,omitempty"`
	FaultK    int           `json:"fk,omitempty"`
	FaultErr  string        `json:"ferr,omitempty"`
	Peer      int           `json:"peer,omitempty"`
	Pkts      [][]byte      `json:"pkts,omitempty"`
	Mtu       int           `json:"mtu,omitempty"`
	Ep        int           `json:"ep,omitempty"`
	// anshs2: two authenticating responses to one initiation of the device -- the genuine one (Sender Ridx, from Ep) and a
	// copy with another Sender word and a recomputed MAC1 (Sender Ridx2, from Ep2) -- are delivered in ONE receive batch, so
	// that two handshake workers process them concurrently (Swap: the copy comes first).  Win = which one completed the
	// handshake, read off the wire: the response whose source address the step's first transport datagram goes to.
	Ep2   int    `json:"ep2,omitempty"`
	Ridx2 uint32 `json:"ridx2,omitempty"`
	Swap  bool   `json:"swap,omitempty"`
	Win   int    `json:"win,omitempty"`
	// oracle / observed
	Ridx uint32 `json:"ridx,omitempty"`
	Obs  []Obs  `json:"obs"`
}

type Scenario struct {
	Kind      string        `json:"kind"` // "scenario" or "pad"
	Gen       string        `json:"gen"`
	NPeers    int           `json:"npeers,omitempty"`
	Table     []dpath.Entry `json:"table,omitempty"`
	MTU       int           `json:"mtu"`
	TunBatch  int           `json:"tun_batch,omitempty"`
	Eps       []int         `json:"eps,omitempty"` // configured endpoint id per peer, 0 = none
	Evs       []Ev          `json:"evs,omitempty"`
	Lens      []int         `json:"lens,omitempty"` // pad sweep
	Pads      []int         `json:"pads,omitempty"`
	Discarded string        `json:"discarded,omitempty"`
	Rounds    int           `json:"rounds,omitempty"`  // real-bind scenarios
	Partial   bool          `json:"partial,omitempty"` // the last recorded step did not settle: judged by the property only
	Crash     string        `json:"crash,omitempty"`
	Flood     *FloodStats   `json:"flood,omitempty"`
}

// FloodStats summarises a flood pass: only the datagrams that failed the filter are in the scenario's observations.
type FloodStats struct {
	Injected  int  `json:"injected"`
	Datagrams int  `json:"datagrams"`
	Good      int  `json:"good"`
	Offenders int  `json:"offenders"`
	Stalled   bool `json:"stalled,omitempty"`
}

// ConfSection is one peer section of a UAPI set operation.
type ConfSection struct {
	Who       int  `json:"who"`          // peer index, -1 = the device's own public key
	Ep        int  `json:"ep,omitempty"` // endpoint= line (endpoint id), 0 = none
	Keepalive bool `json:"keepalive,omitempty"`
	Psk       bool `json:"psk,omitempty"`
}

// raceArmed: while an anshs2 step runs, the handshake worker that has just consumed a response is held back for a moment at
// the device's log call between ConsumeMessageResponse and BeginSymmetricSession (the logger is a dependency the harness
// injects: a schedule-control point like the gates of the simulated bind), so that the other worker -- which is refused --
// finishes inside that window in most rounds instead of a few per cent of them.
var raceArmed atomic.Bool

func raceLogger() *device.Logger {
	return &device.Logger{
		Verbosef: func(format string, args ...any) {
			if raceArmed.Load() && strings.HasSuffix(format, "Received handshake response") {
				time.Sleep(200 * time.Microsecond)
			}
		},
		Errorf: func(string, ...any) {},
	}
}

// poisoned: this process must not run another scenario (a step did not settle or the device did not close)
var poisoned bool

func closeWorld(w *cosim.World) {
	done := make(chan struct{})
	go func() { w.Close(); close(done) }()
	select {
	case <-done:
	case <-time.After(3 * time.Second):
		poisoned = true
	}
}

// Endpoint ids: 1..99 = 192.0.2.<id>:4000+<id>; 100+k = the SAME address as id k and another port (7000+id): a peer whose
// source port alone changed (NAT rebinding, restart with an ephemeral port).
func epAddr(id int) netip.AddrPort {
	if id >= 100 && id < 200 {
		return netip.MustParseAddrPort(fmt.Sprintf("192.0.2.%d:%d", id-100, 7000+id))
	}
	return netip.MustParseAddrPort(fmt.Sprintf("192.0.2.%d:%d", id, 4000+id))
}

func epID(ap netip.AddrPort) int {
	b := ap.Addr().As4()
	if b[0] == 192 && b[1] == 0 && b[2] == 2 && int(ap.Port()) == 4000+int(b[3]) {
		return int(b[3])
	}
	if b[0] == 192 && b[1] == 0 && b[2] == 2 && int(b[3]) < 100 && int(ap.Port()) == 7100+int(b[3]) {
		return 100 + int(b[3])
	}
	return 255
}

// portTwin: the endpoint id of the same address with the other port
func portTwin(id int) int {
	if id >= 100 {
		return id - 100
	}
	return id + 100
}

// ---------------------------------------------------------------- running

type hstate struct {
	sc       *Scenario
	w        *cosim.World
	peers    []*cosim.RefPeer
	sessions []*ref.Session // by serial-1
	owner    []int
	lastInit [][]byte       // device's unanswered initiation per peer
	cur      []*ref.Session // latest session per peer
	expired  []bool
	down     bool
	ep       []int    // current endpoint id per peer as far as the harness moved it
	refInit  [][]byte // the remote's most recent handshake initiation per peer (consumed by the device)
	routable [][]byte // packets sent so far (for duplicates)
}

func (h *hstate) describe(sent []sim.Sent) []Obs {
	out := []Obs{}
	for _, s := range sent {
		d := h.w.Describe(s)
		o := Obs{Ep: epID(s.To), Rcv: d.Receiver, Ctr: d.Counter, Len: d.Len, Plain: []byte{}}
		name := ""
		switch d.Kind {
		case "initiation":
			o.Kind = 1
			name = d.OpensAs
		case "response":
			o.Kind = 2
			name = d.Mac1Peer
		case "cookie":
			o.Kind = 3
		case "transport":
			o.Kind = 4
			for i, ss := range h.sessions {
				if ss == nil {
					continue
				}
				if _, _, pt, err := ss.OpenTransport(s.Data); err == nil {
					o.Sess = i + 1
					o.Peer = h.owner[i] + 1
					if pt != nil {
						o.Plain = pt
					}
				}
			}
		}
		if name != "" {
			fmt.Sscanf(name, "P%d", &o.Peer)
			o.Peer++
		}
		if o.Kind == 1 && o.Peer > 0 {
			h.lastInit[o.Peer-1] = s.Data
		}
		if o.Peer == 0 {
			o.Raw = s.Data
		}
		out = append(out, o)
	}
	return out
}

// run executes events drawn from src (nil = end) and records them in sc.Evs.
func run(sc *Scenario, src func(i int, h *hstate) *Ev) {
	sc.Discarded = ""
	sc.Partial = false
	sc.Evs = nil
	peers := make([]*cosim.RefPeer, sc.NPeers)
	for i := range peers {
		var allowed []string
		for _, e := range sc.Table {
			if e.Owner == i {
				allowed = append(allowed, e.CIDR())
			}
		}
		addr := ""
		if sc.Eps[i] != 0 {
			addr = epAddr(sc.Eps[i]).String()
		}
		peers[i] = cosim.NewPeer(fmt.Sprintf("P%d", i), addr, allowed...)
	}
	w, err := cosim.NewWorld(cosim.Config{Up: true, BindBatch: 8, TunBatch: sc.TunBatch, MTU: sc.MTU, Logger: raceLogger()}, true, peers...)
	if err != nil {
		sc.Discarded = "world: " + err.Error()
		return
	}
	defer closeWorld(w)
	start := time.Now()
	h := &hstate{sc: sc, w: w, peers: peers, lastInit: make([][]byte, sc.NPeers), cur: make([]*ref.Session, sc.NPeers), expired: make([]bool, sc.NPeers), ep: append([]int{}, sc.Eps...), refInit: make([][]byte, sc.NPeers)}
	for i := 0; ; i++ {
		e := src(i, h)
		if e == nil {
			break
		}
		ev := *e
		ev.Obs = []Obs{}
		var sent []sim.Sent
		settled := true
		take := func(o cosim.Out) {
			sent = append(sent, o.Sent...)
			settled = settled && o.Settled
		}
		if h.down && (ev.Kind == "refhs" || ev.Kind == "anshs" || ev.Kind == "anshs2" || ev.Kind == "roam" || ev.Kind == "replayinit") {
			continue // the bind is closed: nothing can arrive
		}
		switch ev.Kind {
		case "down":
			w.Dev.Down()
			take(w.Take())
			h.down = true
			for p := range h.cur {
				h.cur[p] = nil
				h.lastInit[p] = nil
			}
		case "up":
			w.Dev.Up()
			take(w.Take())
			h.down = false
		case "tun":
			take(w.TunIn(ev.Pkts...))
			h.routable = append(h.routable, ev.Pkts...)
		case "tunf":
			var fired atomic.Bool
			target := netip.AddrPort{}
			if ev.FaultPeer < len(h.ep) && h.ep[ev.FaultPeer] != 0 {
				target = epAddr(h.ep[ev.FaultPeer])
			}
			fe := ev
			w.Bind.SendErrFn = func(bufs [][]byte, to netip.AddrPort) (int, error) {
				if to != target || !fired.CompareAndSwap(false, true) {
					return 0, nil
				}
				if fe.FaultErr == "gso" {
					return len(bufs), conn.ErrUDPGSODisabled{RetryErr: nil}
				}
				k := fe.FaultK
				if k > len(bufs) {
					k = len(bufs)
				}
				return k, errors.New("sim: sendmmsg: no buffer space available")
			}
			take(w.TunIn(ev.Pkts...))
			w.Bind.SendErrFn = nil
			h.routable = append(h.routable, ev.Pkts...)
		case "mtu":
			w.Tun.SetMTU(ev.Mtu)
			take(w.TunEvent(tun.EventMTUUpdate))
		case "refhs":
			p := peers[ev.Peer]
			from := epAddr(ev.Ep)
			w.Dev.VerifShiftHandshakeTimes(cosim.NoisePK(p.Pub), time.Second)
			ist, out, s, err := w.RefInitiates(p, from, ref.Tai64n(time.Now()))
			take(out)
			if ist != nil {
				h.refInit[ev.Peer] = ist.Msg
			}
			if err != nil {
				sc.Discarded = fmt.Sprintf("event %d: handshake: %v", i, err)
				return
			}
			h.sessions = append(h.sessions, s)
			h.owner = append(h.owner, ev.Peer)
			h.cur[ev.Peer] = s
			h.expired[ev.Peer] = false
			h.lastInit[ev.Peer] = nil
			h.ep[ev.Peer] = ev.Ep
			ev.Ridx = s.LocalIdx
			take(w.Inject(from, s.Next(nil)))
		case "anshs":
			if h.lastInit[ev.Peer] == nil {
				continue // nothing to answer: the event does not exist
			}
			p := peers[ev.Peer]
			s, out, err := w.AnswerInitiation(p, h.lastInit[ev.Peer], epAddr(ev.Ep))
			if err != nil {
				sc.Discarded = fmt.Sprintf("event %d: answer: %v", i, err)
				return
			}
			h.sessions = append(h.sessions, s)
			h.owner = append(h.owner, ev.Peer)
			h.cur[ev.Peer] = s
			h.expired[ev.Peer] = false
			h.lastInit[ev.Peer] = nil
			h.ep[ev.Peer] = ev.Ep
			ev.Ridx = s.LocalIdx
			take(out)
		case "anshs2":
			if h.lastInit[ev.Peer] == nil || ev.Ep == ev.Ep2 {
				continue // nothing to answer: the event does not exist
			}
			p := peers[ev.Peer]
			rs, err := ref.ConsumeInitiation(h.lastInit[ev.Peer], p.Priv)
			if err != nil || rs.InitiatorStatic != w.DevPub {
				sc.Discarded = fmt.Sprintf("event %d: answer (race): %v", i, err)
				return
			}
			p.NextIdx += 2
			ev.Ridx, ev.Ridx2 = p.NextIdx-1, p.NextIdx
			resp, sess := rs.CreateResponse(ref.NewPrivate(), p.Psk, ev.Ridx)
			// the Sender word is outside the Noise transcript: only MAC1 (keyed by the device's public key) covers it
			twin := append([]byte{}, resp...)
			binary.LittleEndian.PutUint32(twin[4:8], ev.Ridx2)
			twin = ref.WithCookie(twin, w.DevPub, nil)
			ds := []sim.Dgram{{From: epAddr(ev.Ep), Data: resp}, {From: epAddr(ev.Ep2), Data: twin}}
			if ev.Swap {
				ds[0], ds[1] = ds[1], ds[0]
			}
			raceArmed.Store(true)
			w.Bind.Inject(ds...) // one receive batch: two elements on the handshake queue, two workers
			out := w.Take()
			raceArmed.Store(false)
			take(out)
			ev.Win = 0
			for _, sn := range out.Sent {
				if len(sn.Data) >= 32 && sn.Data[0] == ref.TypeTransport {
					if sn.To == epAddr(ev.Ep2) {
						ev.Win = 1
					}
					break
				}
			}
			ws := *sess
			h.ep[ev.Peer] = ev.Ep
			if ev.Win == 1 {
				ws.LocalIdx = ev.Ridx2
				h.ep[ev.Peer] = ev.Ep2
			}
			p.Sessions = append(p.Sessions, &ws)
			h.sessions = append(h.sessions, &ws)
			h.owner = append(h.owner, ev.Peer)
			h.cur[ev.Peer] = &ws
			h.expired[ev.Peer] = false
			h.lastInit[ev.Peer] = nil
		case "conf":
			if h.down {
				continue
			}
			var cfg strings.Builder
			for _, sec := range ev.Sections {
				if sec.Who < 0 {
					fmt.Fprintf(&cfg, "public_key=%x\n", w.DevPub[:])
				} else {
					fmt.Fprintf(&cfg, "public_key=%x\n", peers[sec.Who].Pub[:])
				}
				if sec.Psk {
					k := ref.NewPrivate()
					fmt.Fprintf(&cfg, "preshared_key=%x\n", k[:])
				}
				if sec.Ep != 0 {
					fmt.Fprintf(&cfg, "endpoint=%s\n", epAddr(sec.Ep))
				}
				if sec.Keepalive {
					cfg.WriteString("persistent_keepalive_interval=25\n")
				}
			}
			err, out := w.Set(cfg.String())
			take(out)
			if err != nil {
				sc.Discarded = fmt.Sprintf("event %d: conf: %v", i, err)
				return
			}
			h.ep[ev.Peer] = ev.Ep
		case "replayinit":
			// a byte-identical copy of the remote's latest initiation, from another address, later than
			// HandshakeInitationRate (20 ms) after the original: must be dropped as a replay
			if h.refInit[ev.Peer] == nil {
				continue
			}
			time.Sleep(25 * time.Millisecond)
			take(w.Inject(epAddr(ev.Ep), h.refInit[ev.Peer]))
		case "roam":
			if h.cur[ev.Peer] == nil || h.expired[ev.Peer] {
				continue
			}
			take(w.Inject(epAddr(ev.Ep), h.cur[ev.Peer].Next(nil)))
			h.ep[ev.Peer] = ev.Ep
		case "shifths":
			w.Dev.VerifShiftHandshakeTimes(cosim.NoisePK(peers[ev.Peer].Pub), 6*time.Second)
		case "expire":
			w.Dev.VerifShiftKeypairAges(cosim.NoisePK(peers[ev.Peer].Pub), 200*time.Second)
			h.expired[ev.Peer] = true
		}
		if !settled {
			// keep what was emitted: the property can still be judged on it (never the model)
			poisoned = true
			sc.Partial = true
			ev.Obs = h.describe(sent)
			sc.Evs = append(sc.Evs, ev)
			return
		}
		// the device's own timers (handshake retransmission after RekeyTimeout = 5 s, ...) are outside
		// the slice model: a scenario that took this long on a loaded machine is not a verdict
		if time.Since(start) > 4*time.Second {
			sc.Discarded = fmt.Sprintf("event %d: scenario exceeded 4 s of wall time", i)
			return
		}
		ev.Obs = h.describe(sent)
		if ev.Kind == "tunf" && ev.FaultErr == "err" && ev.FaultK == 0 && ev.FaultPeer < sc.NPeers {
			// If the refused Send was a handshake initiation, the device has replaced its handshake state and the
			// initiation we may still hold for that peer can no longer be answered: forget it unless a new one
			// was seen on the wire in this step.
			fresh := false
			for _, o := range ev.Obs {
				if o.Kind == 1 && o.Peer == ev.FaultPeer+1 {
					fresh = true
				}
			}
			if !fresh {
				h.lastInit[ev.FaultPeer] = nil
			}
		}
		sc.Evs = append(sc.Evs, ev)
	}
}

func fixed(evs []Ev) func(int, *hstate) *Ev {
	return func(i int, _ *hstate) *Ev {
		if i >= len(evs) {
			return nil
		}
		return &evs[i]
	}
}

// ---------------------------------------------------------------- generators

type gen struct {
	r      *rand.Rand
	sc     *Scenario
	bnd4   [][]byte
	bnd6   [][]byte
	serial int
	n      int
	downs  int
	big    bool
	mtu    int
}

func (g *gen) pktLen() int {
	r := g.r
	m := g.mtu
	switch x := r.Intn(100); {
	case x < 20:
		return []int{0, 1, 19, 20, 21, 39, 40, 41}[r.Intn(8)]
	case x < 68:
		return 20 + r.Intn(100)
	case x < 78: // around the MTU
		if m > 2 && (m <= 1500 || r.Intn(8) == 0) {
			return []int{m - 1, m, m + 1, m - 16, m - 15, m - 17}[r.Intn(6)]
		}
		return 60 + r.Intn(40)
	case x < 84: // beyond the MTU: k*mtu + delta
		if m > 0 && m <= 600 {
			return (1+r.Intn(3))*m + []int{-1, 0, 1, 7, 15, 16, 17}[r.Intn(7)]
		}
		return 100 + r.Intn(40)
	case x < 96:
		return []int{48, 64, 128, 256}[r.Intn(4)]
	case x < 99:
		return []int{576, 1280, 1400, 1420, 1500}[r.Intn(5)]
	default:
		if g.big && r.Intn(4) == 0 {
			return []int{9000, 65503, 65504, 65518, 65519}[r.Intn(5)]
		}
		return 2000
	}
}

func (g *gen) packet(h *hstate) []byte {
	r := g.r
	if len(h.routable) > 0 && r.Intn(25) == 0 { // the same packet again
		return append([]byte{}, h.routable[r.Intn(len(h.routable))]...)
	}
	n := g.pktLen()
	if n < 0 {
		n = 0
	}
	if n > 65519 {
		n = 65519
	}
	b := make([]byte, n)
	for i := range b {
		b[i] = byte(r.Intn(256))
	}
	if n == 0 {
		return b
	}
	fam := 4
	if r.Intn(5) < 2 {
		fam = 6
	}
	v := byte(fam)
	if r.Intn(12) == 0 {
		v = byte(r.Intn(16))
	}
	b[0] = v<<4 | byte(r.Intn(16))
	bnd, off := g.bnd4, 16
	if fam == 6 {
		bnd, off = g.bnd6, 24
	}
	dst := bnd[r.Intn(len(bnd))]
	if fam == 6 {
		switch r.Intn(12) {
		case 0: // ::ffff:a.b.c.d for an IPv4 boundary address: only the IPv6 table may route it
			dst = append([]byte{0, 0, 0, 0, 0, 0, 0, 0, 0, 0, 0xff, 0xff}, g.bnd4[r.Intn(len(g.bnd4))]...)
		case 1: // ::a.b.c.d
			dst = append(make([]byte, 12), g.bnd4[r.Intn(len(g.bnd4))]...)
		}
	}
	if n >= off+len(dst) {
		copy(b[off:], dst)
	} else if n > off {
		copy(b[off:], dst[:n-off])
	}
	// a source that would route elsewhere, so routing on the source shows
	src := g.bnd4[r.Intn(len(g.bnd4))]
	soff := 12
	if fam == 6 {
		src, soff = g.bnd6[r.Intn(len(g.bnd6))], 8
	}
	if n >= soff+len(src) {
		copy(b[soff:], src)
	}
	if n >= 6 { // unique tag: distinct packets are never zero-extensions of each other
		g.serial++
		binary.BigEndian.PutUint16(b[4:], uint16(g.serial))
	}
	if r.Intn(6) == 0 { // trailing zero bytes, indistinguishable from padding to a careless reader
		for i := n - 1; i >= 0 && i >= n-1-r.Intn(9) && i >= 44; i-- {
			b[i] = 0
		}
	}
	return b
}

// conf: a set operation with 2-4 peer sections in varying order: one real section moves peer p's endpoint, the others are
// bare sections of other peers and sections for the device's own key whose lines must not touch anybody
func (g *gen) conf(p int) *Ev {
	r := g.r
	ep := 50 + p
	secs := []ConfSection{{Who: p, Ep: ep}}
	for k := 1 + r.Intn(3); k > 0; k-- {
		var s ConfSection
		// (a section of another real peer would end with that peer's SendStagedPackets: one model event per conf, so none here)
		s = ConfSection{Who: -1, Ep: 99, Keepalive: r.Intn(2) == 0, Psk: r.Intn(4) == 0}
		if r.Intn(3) == 0 {
			secs = append([]ConfSection{s}, secs...)
		} else {
			secs = append(secs, s)
		}
	}
	// A keepalive line in a placeholder section is kept only in the LAST section: on the tree as found the "keepalive was
	// switched on" flag of the UAPI parser survives into the next section, whose peer then sends one (allowed) keepalive
	// that the model does not predict (see notes/C01.md, round 9)
	for i := range secs {
		if i != len(secs)-1 {
			secs[i].Keepalive = false
		}
	}
	return &Ev{Kind: "conf", Peer: p, Ep: ep, Sections: secs}
}

var mtus = []int{0, 1, 15, 16, 17, 576, 1280, 1420, 1500, 9000, 65535, 70000}

func (g *gen) next(i int, h *hstate) *Ev {
	r := g.r
	sc := g.sc
	if i < sc.NPeers { // opening: some peers get a session through a handshake by the remote
		if r.Intn(10) < 6 {
			ep := sc.Eps[i]
			if ep == 0 || r.Intn(5) == 0 {
				ep = 10 + i
			}
			return &Ev{Kind: "refhs", Peer: i, Ep: ep}
		}
		return &Ev{Kind: "shifths", Peer: i}
	}
	if i >= g.n+sc.NPeers {
		return nil
	}
	p := r.Intn(sc.NPeers)
	x := r.Intn(100)
	if h.down { // interface down: TUN traffic keeps coming, nothing else can happen until Up
		switch {
		case x < 60:
			x = 0
		case x < 92:
			return &Ev{Kind: "up"}
		default:
			x = 65
		}
	} else if g.downs > 0 && r.Intn(12) == 0 {
		g.downs--
		return &Ev{Kind: "down"}
	}
	switch {
	case x < 62:
		k := 1 + r.Intn(sc.TunBatch)
		if k > 6 && r.Intn(3) != 0 {
			k = 1 + r.Intn(6)
		}
		ev := &Ev{Kind: "tun"}
		for j := 0; j < k; j++ {
			ev.Pkts = append(ev.Pkts, g.packet(h))
		}
		if !h.down && r.Intn(9) == 0 { // the bind refuses (part of) this peer's batch
			ev.Kind = "tunf"
			ev.FaultPeer = p
			ev.FaultK = []int{0, 0, 1, 2, 3}[r.Intn(5)]
			ev.FaultErr = "err"
			if r.Intn(4) == 0 {
				ev.FaultErr = "gso"
				ev.FaultK = 1 << 20
			}
		}
		return ev
	case x < 68:
		g.mtu = mtus[r.Intn(len(mtus))]
		ev := &Ev{Kind: "mtu", Mtu: g.mtu}
		if g.mtu > device.MaxContentSize {
			g.mtu = device.MaxContentSize
		}
		return ev
	case x < 76:
		ep := []int{sc.Eps[p], 10 + p, 20 + p}[1+r.Intn(2)]
		if h.ep[p] != 0 && r.Intn(4) == 0 { // the remote initiates from its address and another port
			ep = portTwin(h.ep[p])
		}
		return &Ev{Kind: "refhs", Peer: p, Ep: ep}
	case x < 86:
		for q := 0; q < sc.NPeers; q++ { // prefer a peer with an outstanding initiation
			if h.lastInit[(p+q)%sc.NPeers] != nil {
				p = (p + q) % sc.NPeers
				break
			}
		}
		ep := sc.Eps[p]
		if ep == 0 || r.Intn(4) == 0 {
			ep = 20 + p
		}
		if h.ep[p] != 0 && r.Intn(5) == 0 { // the response comes from the address the initiation went to, another port
			ep = portTwin(h.ep[p])
		}
		if r.Intn(4) == 0 { // two responses that differ in the Sender word race through two handshake workers
			ep2 := 60 + p
			if r.Intn(2) == 0 {
				ep2 = portTwin(ep)
			}
			return &Ev{Kind: "anshs2", Peer: p, Ep: ep, Ep2: ep2, Swap: r.Intn(2) == 0}
		}
		return &Ev{Kind: "anshs", Peer: p, Ep: ep}
	case x < 90:
		if h.ep[p] != 0 && r.Intn(2) == 0 { // authenticated packet from the same address and another port
			return &Ev{Kind: "roam", Peer: p, Ep: portTwin(h.ep[p])}
		}
		return &Ev{Kind: "roam", Peer: p, Ep: 30 + p}
	case x < 91:
		return &Ev{Kind: "replayinit", Peer: p, Ep: 40 + p}
	case x < 92:
		return g.conf(p)
	case x < 97:
		return &Ev{Kind: "shifths", Peer: p}
	default:
		return &Ev{Kind: "expire", Peer: p}
	}
}

func genScenario(r *rand.Rand, big bool) (*Scenario, *gen) {
	sc := &Scenario{Kind: "scenario", Gen: "random", NPeers: 1 + r.Intn(4)}
	sc.Table = dpath.GenTable(r, sc.NPeers)
	sc.MTU = []int{1420, 1420, 1280, 1500, 576, 9000, 65535}[r.Intn(7)]
	sc.TunBatch = []int{1, 2, 4, 16, 128}[r.Intn(5)]
	for i := 0; i < sc.NPeers; i++ {
		ep := i + 1
		if r.Intn(5) == 0 {
			ep = 0
		}
		sc.Eps = append(sc.Eps, ep)
	}
	g := &gen{r: r, sc: sc, big: big, mtu: sc.MTU, n: 6 + r.Intn(16)}
	if r.Intn(4) == 0 {
		g.downs = 1 + r.Intn(2)
		g.n += 6
	}
	g.bnd4 = dpath.Boundary(r, sc.Table, 4)
	g.bnd6 = dpath.Boundary(r, sc.Table, 6)
	return sc, g
}

func v4to(dst [4]byte, n int, tag uint16) []byte {
	p := ref.IPv4([4]byte{10, 200, 0, 1}, dst, n, byte(tag))
	binary.BigEndian.PutUint16(p[4:], tag)
	return p
}

func directed() []*Scenario {
	var out []*Scenario
	tbl := []dpath.Entry{{Fam: 4, Bits: []byte{10, 1, 0, 0}, Len: 16, Owner: 0}, {Fam: 4, Bits: []byte{10, 1, 2, 0}, Len: 24, Owner: 1},
		{Fam: 6, Bits: []byte{0xfd, 1, 0, 0, 0, 0, 0, 0, 0, 0, 0, 0, 0, 0, 0, 0}, Len: 64, Owner: 1}}
	// every version nibble and the short-header lengths, toward a routable destination
	sc := &Scenario{Kind: "scenario", Gen: "directed-classify", NPeers: 2, Table: tbl, MTU: 1420, TunBatch: 128, Eps: []int{1, 2}}
	ev := Ev{Kind: "tun"}
	tag := uint16(1)
	for v := 0; v < 16; v++ {
		for _, n := range []int{19, 20, 39, 40, 41} {
			p := make([]byte, n)
			for i := range p {
				p[i] = byte(i + v)
			}
			p[0] = byte(v<<4) | 5
			if n >= 20 {
				copy(p[16:], []byte{10, 1, 2, 3})
			}
			if n >= 40 {
				copy(p[24:], []byte{0xfd, 1, 0, 0, 0, 0, 0, 0, 0, 0, 0, 0, 0, 0, 0, 9})
			}
			binary.BigEndian.PutUint16(p[4:], tag)
			tag++
			ev.Pkts = append(ev.Pkts, p)
		}
	}
	ev.Pkts = append(ev.Pkts, []byte{}, []byte{0x45})
	sc.Evs = []Ev{{Kind: "refhs", Peer: 0, Ep: 1}, {Kind: "refhs", Peer: 1, Ep: 2}, ev}
	out = append(out, sc)
	// staging without a session, initiation once, flush on the answer; keepalive when nothing is staged;
	// overflow of the staged queue (QueueStagedSize containers): the oldest are dropped
	sc2 := &Scenario{Kind: "scenario", Gen: "directed-staging", NPeers: 2, Table: tbl, MTU: 1420, TunBatch: 4, Eps: []int{1, 0}}
	sc2.Evs = []Ev{{Kind: "tun", Pkts: [][]byte{v4to([4]byte{10, 1, 9, 9}, 61, 1), v4to([4]byte{10, 1, 2, 9}, 62, 2)}},
		{Kind: "tun", Pkts: [][]byte{v4to([4]byte{10, 1, 9, 8}, 63, 3)}},
		{Kind: "anshs", Peer: 0, Ep: 1},
		{Kind: "tun", Pkts: [][]byte{v4to([4]byte{10, 1, 9, 7}, 64, 4)}},
		{Kind: "refhs", Peer: 1, Ep: 12},
		{Kind: "expire", Peer: 0}, {Kind: "shifths", Peer: 0},
		{Kind: "tun", Pkts: [][]byte{v4to([4]byte{10, 1, 9, 6}, 65, 5)}},
		{Kind: "anshs", Peer: 0, Ep: 21},
		{Kind: "expire", Peer: 0}, {Kind: "shifths", Peer: 0},
	}
	for i := 0; i < device.QueueStagedSize+3; i++ {
		sc2.Evs = append(sc2.Evs, Ev{Kind: "tun", Pkts: [][]byte{v4to([4]byte{10, 1, 9, 5}, 40+i%7, uint16(100+i))}})
	}
	sc2.Evs = append(sc2.Evs, Ev{Kind: "anshs", Peer: 0, Ep: 1}, Ev{Kind: "anshs", Peer: 0, Ep: 1},
		Ev{Kind: "shifths", Peer: 0}, Ev{Kind: "expire", Peer: 0},
		Ev{Kind: "tun", Pkts: [][]byte{v4to([4]byte{10, 1, 9, 4}, 40, 999)}}, Ev{Kind: "anshs", Peer: 0, Ep: 1})
	out = append(out, sc2)
	// MTU changes between packets of boundary lengths
	sc3 := &Scenario{Kind: "scenario", Gen: "directed-mtu", NPeers: 1, Table: tbl[:1], MTU: 1420, TunBatch: 16, Eps: []int{1}}
	sc3.Evs = []Ev{{Kind: "refhs", Peer: 0, Ep: 1}}
	tag = 1
	for _, m := range []int{1420, 0, 1, 15, 16, 17, 100, 65535, 70000} {
		sc3.Evs = append(sc3.Evs, Ev{Kind: "mtu", Mtu: m})
		ev := Ev{Kind: "tun"}
		for _, n := range []int{20, 31, 32, 33, 99, 100, 101, 116, 200, 1419, 1420, 1421} {
			ev.Pkts = append(ev.Pkts, v4to([4]byte{10, 1, 0, 1}, n, tag))
			tag++
		}
		sc3.Evs = append(sc3.Evs, ev)
	}
	out = append(out, sc3)
	// TUN traffic while the interface is down is dropped and nothing of it survives Up:
	// sessions are gone, traffic for another peer afterwards goes to that peer only
	sc4 := &Scenario{Kind: "scenario", Gen: "directed-down-up", NPeers: 2, Table: tbl, MTU: 1420, TunBatch: 4, Eps: []int{1, 2}}
	sc4.Evs = []Ev{{Kind: "refhs", Peer: 0, Ep: 1}, {Kind: "refhs", Peer: 1, Ep: 2},
		{Kind: "tun", Pkts: [][]byte{v4to([4]byte{10, 1, 9, 1}, 60, 1), v4to([4]byte{10, 1, 2, 1}, 61, 2)}},
		{Kind: "down"},
		{Kind: "tun", Pkts: [][]byte{v4to([4]byte{10, 1, 9, 2}, 62, 3)}},
		{Kind: "tun", Pkts: [][]byte{v4to([4]byte{10, 1, 9, 3}, 63, 4), v4to([4]byte{10, 1, 9, 4}, 64, 5)}},
		{Kind: "up"},
		{Kind: "tun", Pkts: [][]byte{v4to([4]byte{10, 1, 2, 2}, 65, 6)}},
		{Kind: "anshs", Peer: 1, Ep: 2}, {Kind: "anshs", Peer: 0, Ep: 1},
		{Kind: "tun", Pkts: [][]byte{v4to([4]byte{10, 1, 2, 3}, 66, 7), v4to([4]byte{10, 1, 9, 5}, 67, 8)}},
		{Kind: "anshs", Peer: 0, Ep: 1}, {Kind: "anshs", Peer: 1, Ep: 2},
		{Kind: "tun", Pkts: [][]byte{v4to([4]byte{10, 1, 2, 4}, 68, 9), v4to([4]byte{10, 1, 9, 6}, 69, 10), v4to([4]byte{10, 1, 2, 5}, 70, 11)}},
		{Kind: "down"}, {Kind: "tun", Pkts: [][]byte{v4to([4]byte{10, 1, 2, 6}, 71, 12)}}, {Kind: "up"},
		{Kind: "tun", Pkts: [][]byte{v4to([4]byte{10, 1, 9, 7}, 72, 13)}},
		{Kind: "anshs", Peer: 0, Ep: 1}, {Kind: "anshs", Peer: 1, Ep: 2},
		{Kind: "tun", Pkts: [][]byte{v4to([4]byte{10, 1, 2, 7}, 73, 14), v4to([4]byte{10, 1, 9, 8}, 74, 15)}},
		{Kind: "anshs", Peer: 1, Ep: 2},
	}
	out = append(out, sc4)
	// replay of the remote's LATEST initiation from another address: dropped, the endpoint stays, traffic keeps going to the peer
	sc8 := &Scenario{Kind: "scenario", Gen: "directed-replayed-initiation", NPeers: 2, Table: tbl, MTU: 1420, TunBatch: 4, Eps: []int{1, 2}}
	sc8.Evs = []Ev{{Kind: "refhs", Peer: 0, Ep: 1}, {Kind: "refhs", Peer: 1, Ep: 2},
		{Kind: "tun", Pkts: [][]byte{v4to([4]byte{10, 1, 9, 1}, 60, 1), v4to([4]byte{10, 1, 2, 1}, 61, 2)}},
		{Kind: "replayinit", Peer: 0, Ep: 41},
		{Kind: "tun", Pkts: [][]byte{v4to([4]byte{10, 1, 9, 2}, 62, 3), v4to([4]byte{10, 1, 2, 2}, 63, 4)}},
		{Kind: "refhs", Peer: 0, Ep: 11}, // an honest new handshake from another address does move it
		{Kind: "replayinit", Peer: 0, Ep: 42}, {Kind: "replayinit", Peer: 1, Ep: 43},
		{Kind: "tun", Pkts: [][]byte{v4to([4]byte{10, 1, 9, 3}, 64, 5), v4to([4]byte{10, 1, 2, 3}, 65, 6)}},
	}
	out = append(out, sc8)
	// configuration text: the device's own key as a non-first section with endpoint / keepalive lines
	sc9 := &Scenario{Kind: "scenario", Gen: "directed-config-text", NPeers: 2, Table: tbl, MTU: 1420, TunBatch: 4, Eps: []int{1, 2}}
	sc9.Evs = []Ev{{Kind: "refhs", Peer: 0, Ep: 1}, {Kind: "refhs", Peer: 1, Ep: 2},
		{Kind: "conf", Peer: 0, Ep: 50, Sections: []ConfSection{{Who: 0, Ep: 50}, {Who: -1, Ep: 99, Keepalive: true}}},
		{Kind: "tun", Pkts: [][]byte{v4to([4]byte{10, 1, 9, 1}, 60, 1), v4to([4]byte{10, 1, 2, 1}, 61, 2)}},
		{Kind: "conf", Peer: 1, Ep: 51, Sections: []ConfSection{{Who: -1, Ep: 99}, {Who: -1, Ep: 98}, {Who: 1, Ep: 51}, {Who: -1, Ep: 97, Keepalive: true}}},
		{Kind: "tun", Pkts: [][]byte{v4to([4]byte{10, 1, 9, 2}, 62, 3), v4to([4]byte{10, 1, 2, 2}, 63, 4)}},
	}
	out = append(out, sc9)
	// the source port alone changes (same address): every kind of authenticated inbound message moves the endpoint, the
	// next datagrams go to the new port
	sc10 := &Scenario{Kind: "scenario", Gen: "directed-port-change", NPeers: 2, Table: tbl, MTU: 1420, TunBatch: 4, Eps: []int{1, 2}}
	pair := func(t uint16) Ev {
		return Ev{Kind: "tun", Pkts: [][]byte{v4to([4]byte{10, 1, 9, 1}, 60, t), v4to([4]byte{10, 1, 2, 1}, 61, t+1)}}
	}
	sc10.Evs = []Ev{{Kind: "refhs", Peer: 0, Ep: 1}, {Kind: "refhs", Peer: 1, Ep: 2}, pair(1),
		{Kind: "roam", Peer: 0, Ep: 101}, pair(3),
		{Kind: "roam", Peer: 1, Ep: 102}, pair(5),
		{Kind: "roam", Peer: 0, Ep: 1}, pair(7),
		{Kind: "expire", Peer: 0}, {Kind: "shifths", Peer: 0}, pair(9),
		{Kind: "anshs", Peer: 0, Ep: 101}, pair(11), // the response comes from the other port
		{Kind: "refhs", Peer: 1, Ep: 2}, pair(13), // the remote initiates from the first port again
		{Kind: "expire", Peer: 1}, {Kind: "shifths", Peer: 1}, pair(15),
		{Kind: "anshs2", Peer: 1, Ep: 2, Ep2: 102}, pair(17),
		{Kind: "roam", Peer: 1, Ep: 32}, {Kind: "roam", Peer: 1, Ep: 132}, pair(19),
	}
	out = append(out, sc10)
	// bind.Send errors: what the bind did not transmit is never transmitted, nothing goes out twice, and
	// unroutable plaintext read into recycled buffers never reaches the wire
	sc6 := &Scenario{Kind: "scenario", Gen: "directed-send-errors", NPeers: 2, Table: tbl, MTU: 1420, TunBatch: 4, Eps: []int{1, 2}}
	junk := func(n int) [][]byte {
		var o [][]byte
		for j := 0; j < n; j++ {
			x := make([]byte, 300)
			for i := range x {
				x[i] = 0xbb
			}
			x[0] = 0x45
			copy(x[16:], []byte{9, 9, 9, byte(j)})
			o = append(o, x)
		}
		return o
	}
	a3 := func(t uint16) [][]byte {
		return [][]byte{v4to([4]byte{10, 1, 9, 1}, 61, t), v4to([4]byte{10, 1, 9, 2}, 77, t+1), v4to([4]byte{10, 1, 9, 3}, 100, t+2)}
	}
	sc6.Evs = []Ev{{Kind: "refhs", Peer: 0, Ep: 1}, {Kind: "refhs", Peer: 1, Ep: 2},
		{Kind: "tunf", Pkts: a3(1), FaultPeer: 0, FaultK: 0, FaultErr: "err"},
		{Kind: "tun", Pkts: junk(4)},
		{Kind: "tun", Pkts: [][]byte{v4to([4]byte{10, 1, 9, 4}, 50, 10), v4to([4]byte{10, 1, 2, 4}, 51, 11)}},
		{Kind: "tunf", Pkts: a3(20), FaultPeer: 0, FaultK: 1, FaultErr: "err"},
		{Kind: "tun", Pkts: junk(3)},
		{Kind: "tun", Pkts: [][]byte{v4to([4]byte{10, 1, 9, 5}, 52, 30), v4to([4]byte{10, 1, 9, 6}, 53, 31)}},
		{Kind: "tunf", Pkts: append(a3(40), v4to([4]byte{10, 1, 2, 5}, 54, 43)), FaultPeer: 0, FaultK: 1 << 20, FaultErr: "gso"},
		{Kind: "tun", Pkts: junk(2)},
		{Kind: "tun", Pkts: [][]byte{v4to([4]byte{10, 1, 9, 7}, 55, 50), v4to([4]byte{10, 1, 2, 6}, 56, 51)}},
		{Kind: "tunf", Pkts: a3(60), FaultPeer: 0, FaultK: 2, FaultErr: "err"},
		{Kind: "tun", Pkts: [][]byte{v4to([4]byte{10, 1, 2, 7}, 57, 70)}},
		{Kind: "tun", Pkts: a3(80)},
		{Kind: "expire", Peer: 1}, {Kind: "shifths", Peer: 1},
		{Kind: "tunf", Pkts: [][]byte{v4to([4]byte{10, 1, 2, 8}, 58, 90)}, FaultPeer: 1, FaultK: 0, FaultErr: "err"}, // the initiation is refused
		{Kind: "shifths", Peer: 1},
		{Kind: "tun", Pkts: [][]byte{v4to([4]byte{10, 1, 2, 9}, 59, 91)}},
		{Kind: "anshs", Peer: 1, Ep: 2},
	}
	out = append(out, sc6)
	// IPv4-mapped IPv6 destinations are IPv6 destinations: peer 0 owns 1.0.0.0/24 only, so ::ffff:1.0.0.1 has no route
	// (i), goes to peer 1 who owns ::ffff:0:0/96 (ii), or to peer 1 through ::/0 (iii) — never to peer 0
	mp := func(v4 ...byte) []byte { return append([]byte{0, 0, 0, 0, 0, 0, 0, 0, 0, 0, 0xff, 0xff}, v4...) }
	for vi, extra := range [][]dpath.Entry{{}, {{Fam: 6, Bits: mp(0, 0, 0, 0), Len: 96, Owner: 1}}, {{Fam: 6, Bits: make([]byte, 16), Len: 0, Owner: 1}}} {
		t := append([]dpath.Entry{{Fam: 4, Bits: []byte{1, 0, 0, 0}, Len: 24, Owner: 0}, {Fam: 4, Bits: []byte{2, 0, 0, 0}, Len: 24, Owner: 1}}, extra...)
		sc7 := &Scenario{Kind: "scenario", Gen: fmt.Sprintf("directed-v4-mapped-%d", vi), NPeers: 2, Table: t, MTU: 1420, TunBatch: 16, Eps: []int{1, 2}}
		ev := Ev{Kind: "tun"}
		tg := uint16(1)
		for _, dst := range [][]byte{mp(1, 0, 0, 1), mp(1, 0, 0, 255), mp(2, 0, 0, 1), append(make([]byte, 12), 1, 0, 0, 1), make([]byte, 16), mp(255, 255, 255, 255)} {
			p := make([]byte, 60)
			p[0] = 0x60
			binary.BigEndian.PutUint16(p[4:], tg)
			copy(p[24:], dst)
			for i := 40; i < 60; i++ {
				p[i] = byte(i) + byte(tg)
			}
			tg++
			ev.Pkts = append(ev.Pkts, p)
		}
		ev.Pkts = append(ev.Pkts, v4to([4]byte{1, 0, 0, 1}, 40, 100), v4to([4]byte{2, 0, 0, 1}, 41, 101))
		sc7.Evs = []Ev{{Kind: "refhs", Peer: 0, Ep: 1}, {Kind: "refhs", Peer: 1, Ep: 2}, ev}
		out = append(out, sc7)
	}
	// buffer history: long unroutable packets full of non-zero bytes are dropped by the reader, which
	// keeps their buffers for the next read; the short routable packets that follow must be padded with zeros
	for _, tb := range []int{1, 4} {
		sc5 := &Scenario{Kind: "scenario", Gen: fmt.Sprintf("directed-stale-buffer-%d", tb), NPeers: 1, Table: tbl[:1], MTU: 1420, TunBatch: tb, Eps: []int{1}}
		sc5.Evs = []Ev{{Kind: "refhs", Peer: 0, Ep: 1}}
		tag = 1
		for round := 0; round < 3; round++ {
			for _, n := range []int{37, 20, 21, 47, 100, 1409, 1419, 33} {
				junk := Ev{Kind: "tun"}
				good := Ev{Kind: "tun"}
				for j := 0; j < tb; j++ {
					x := make([]byte, 1420)
					for i := range x {
						x[i] = 0xaa
					}
					x[0] = 0x45
					copy(x[16:], []byte{172, 16, 0, byte(j)}) // no route
					junk.Pkts = append(junk.Pkts, x)
					good.Pkts = append(good.Pkts, v4to([4]byte{10, 1, 0, byte(j)}, n+j, tag))
					tag++
				}
				sc5.Evs = append(sc5.Evs, junk, good)
			}
		}
		out = append(out, sc5)
	}
	return out
}

// raceScenario: a statistical pass (like C04's duplicate-response pass): `rounds` times the device initiates, and two
// authenticating responses that differ in the Sender word (and in the source address, so that the wire shows which of them
// completed the handshake) arrive in one receive batch; a TUN packet is staged before (flushed by the winner) and another
// follows; then the session is aged out and the next round begins.  Every datagram is judged by the ordinary specification:
// receiver index AND endpoint must be those of ONE response.
func raceScenario(npeers, rounds int, twinPort bool) *Scenario {
	tbl := []dpath.Entry{{Fam: 4, Bits: []byte{10, 1, 0, 0}, Len: 16, Owner: 0}, {Fam: 4, Bits: []byte{10, 1, 2, 0}, Len: 24, Owner: 1}}
	sc := &Scenario{Kind: "scenario", Gen: fmt.Sprintf("race-responses-%d-peers", npeers), NPeers: npeers, Table: tbl[:npeers], MTU: 1420, TunBatch: 4, Rounds: rounds}
	for p := 0; p < npeers; p++ {
		sc.Eps = append(sc.Eps, p+1)
	}
	tag := uint16(1)
	for r := 0; r < rounds; r++ {
		p := r % npeers
		dst := [4]byte{10, 1, 9, byte(r)}
		if p == 1 {
			dst = [4]byte{10, 1, 2, byte(r)}
		}
		ep2 := 60 + p
		if twinPort {
			ep2 = portTwin(p + 1)
		}
		staged := Ev{Kind: "tun", Pkts: [][]byte{v4to(dst, 60+r%40, tag)}}
		if r%3 == 2 {
			staged.Pkts = append(staged.Pkts, v4to(dst, 70+r%40, tag+2))
		}
		sc.Evs = append(sc.Evs, Ev{Kind: "shifths", Peer: p}, staged,
			Ev{Kind: "anshs2", Peer: p, Ep: p + 1, Ep2: ep2, Swap: r%2 == 1},
			Ev{Kind: "tun", Pkts: [][]byte{v4to(dst, 61+r%40, tag+1)}},
			Ev{Kind: "roam", Peer: p, Ep: p + 1}, // the remote keeps talking from its configured address
			Ev{Kind: "expire", Peer: p})
		tag += 3
	}
	return sc
}

func padSweeps() []*Scenario {
	var out []*Scenario
	for _, m := range []int{0, 1, 15, 16, 17, 576, 1280, 1420, 1500, 9000, 65535} {
		seen := map[int]bool{}
		var lens []int
		add := func(n int) {
			if n >= 0 && n <= 70000 && !seen[n] {
				seen[n] = true
				lens = append(lens, n)
			}
		}
		for n := 0; n <= 2100; n++ {
			add(n)
		}
		if m > 0 {
			for k := 1; k <= 8 && k*m <= 70000; k++ {
				for d := -17; d <= 17; d++ {
					add(k*m + d)
				}
			}
		}
		for _, n := range []int{65503, 65504, 65519, 65535, 65536} {
			for d := -2; d <= 2; d++ {
				add(n + d)
			}
		}
		sc := &Scenario{Kind: "pad", Gen: fmt.Sprintf("pad-sweep-mtu-%d", m), MTU: m, Lens: lens}
		out = append(out, sc)
	}
	return out
}

func runPad(sc *Scenario) {
	sc.Pads = make([]int, len(sc.Lens))
	for i, n := range sc.Lens {
		sc.Pads[i] = device.VerifCalculatePaddingSize(n, sc.MTU)
	}
}

// ---------------------------------------------------------------- output

func ints(v []int) string {
	var sb strings.Builder
	sb.WriteByte('[')
	for i, x := range v {
		if i > 0 {
			sb.WriteByte(';')
		}
		if x < 0 { // never produced by calculatePaddingSize on this domain; keep the file well-formed
			x = 1 << 40
		}
		fmt.Fprintf(&sb, "%d", x)
	}
	sb.WriteByte(']')
	return sb.String()
}

func gallina(sc *Scenario) string {
	if sc.Kind == "pad" {
		return fmt.Sprintf("PadSweep %d %s %s", sc.MTU, ints(sc.Lens), ints(sc.Pads))
	}
	if sc.Kind == "crashed" {
		return "Crashed"
	}
	var b strings.Builder
	partial := 0
	if sc.Partial {
		partial = 1
	}
	fmt.Fprintf(&b, "Scenario [%d;%d;%d;%d] %s %s [", sc.MTU, ipv4.HeaderLen, ipv6.HeaderLen, partial, dpath.TableGallina(sc.Table), ints(sc.Eps))
	for i, ev := range sc.Evs {
		if i > 0 {
			b.WriteString(";\n ")
		}
		switch ev.Kind {
		case "tun":
			b.WriteString("RTun [")
			for j, p := range ev.Pkts {
				if j > 0 {
					b.WriteString(";")
				}
				b.WriteString(dpath.Packed(p))
			}
			b.WriteString("]")
		case "tunf":
			b.WriteString("RTunF [")
			for j, p := range ev.Pkts {
				if j > 0 {
					b.WriteString(";")
				}
				b.WriteString(dpath.Packed(p))
			}
			fmt.Fprintf(&b, "] %d %d", ev.FaultPeer, ev.FaultK)
		case "mtu":
			fmt.Fprintf(&b, "RMtu %d", ev.Mtu)
		case "refhs":
			fmt.Fprintf(&b, "RRef %d %d %d", ev.Peer, ev.Ridx, ev.Ep)
		case "anshs":
			fmt.Fprintf(&b, "RAns %d %d %d", ev.Peer, ev.Ridx, ev.Ep)
		case "anshs2":
			fmt.Fprintf(&b, "RAns2 %d %d %d %d %d %d", ev.Peer, ev.Ridx, ev.Ep, ev.Ridx2, ev.Ep2, ev.Win)
		case "roam":
			fmt.Fprintf(&b, "RRoam %d %d", ev.Peer, ev.Ep)
		case "replayinit":
			fmt.Fprintf(&b, "RReplayInit %d %d", ev.Peer, ev.Ep)
		case "conf":
			fmt.Fprintf(&b, "RSetEp %d %d", ev.Peer, ev.Ep)
		case "shifths":
			fmt.Fprintf(&b, "RShift %d", ev.Peer)
		case "expire":
			fmt.Fprintf(&b, "RExp %d", ev.Peer)
		case "down":
			b.WriteString("RDown")
		case "up":
			b.WriteString("RUp")
		}
	}
	b.WriteString("]\n [")
	for i, ev := range sc.Evs {
		if i > 0 {
			b.WriteString(";\n ")
		}
		b.WriteString("[")
		for j, o := range ev.Obs {
			if j > 0 {
				b.WriteString(";")
			}
			fmt.Fprintf(&b, "([%d;%d;%d;%d;%d;%d;%d;%d;%d],%s)", o.Kind, o.Peer, o.Sess, o.Ep, o.Rcv, o.Ctr>>32, o.Ctr&0xffffffff, o.Len, len(o.Plain), dpath.Ints(o.Plain))
		}
		b.WriteString("]")
	}
	b.WriteString("]")
	return b.String()
}

const imports = "From WG Require Import Base.Prelude Outbound.Check."

// A job produces one case.  The list is a pure function of the flags, so parent and children agree on it.
type job struct {
	name string
	run  func() *Scenario
}

var floodMs = 1500

func buildJobs(seed int64, n int, big bool, corpus, replayIn string) []job {
	var jobs []job
	fixedJob := func(sc *Scenario) job {
		return job{sc.Gen, func() *Scenario {
			if sc.Kind == "pad" {
				runPad(sc)
				return sc
			}
			if strings.HasPrefix(sc.Gen, "flood-") {
				runFlood(sc)
				return sc
			}
			if strings.HasPrefix(sc.Gen, "real-bind") {
				runRealBind(sc)
				if sc.Discarded != "" && !poisoned && replayIn == "" {
					runRealBind(sc)
				}
				return sc
			}
			evs := sc.Evs
			run(sc, fixed(evs))
			if sc.Discarded != "" && !poisoned && replayIn == "" {
				run(sc, fixed(evs))
			}
			return sc
		}}
	}
	if replayIn != "" {
		data, err := os.ReadFile(replayIn)
		if err != nil {
			panic(err)
		}
		var scs []*Scenario
		if err := json.Unmarshal(data, &scs); err != nil {
			panic(err)
		}
		for _, sc := range scs {
			jobs = append(jobs, fixedJob(sc))
		}
		return jobs
	}
	if corpus != "" {
		files, _ := filepath.Glob(filepath.Join(corpus, "*.json"))
		for _, f := range files {
			data, err := os.ReadFile(f)
			if err != nil {
				continue
			}
			var cs []*Scenario
			if json.Unmarshal(data, &cs) == nil {
				for _, c := range cs {
					c.Gen = "corpus/" + filepath.Base(f)
					jobs = append(jobs, fixedJob(c))
				}
			}
		}
	}
	for _, sc := range padSweeps() {
		jobs = append(jobs, fixedJob(sc))
	}
	for _, sc := range directed() {
		jobs = append(jobs, fixedJob(sc))
	}
	jobs = append(jobs, fixedJob(realBindScenario(2, 150)), fixedJob(realBindScenario(3, 100)))
	jobs = append(jobs, fixedJob(floodScenario(1, floodMs)), fixedJob(floodScenario(1, floodMs)), fixedJob(floodScenario(3, floodMs/2)))
	jobs = append(jobs, fixedJob(raceScenario(1, 40, false)), fixedJob(raceScenario(1, 40, true)), fixedJob(raceScenario(2, 40, false)))
	master := rand.New(rand.NewSource(seed)) // ONE PRNG: it deals a seed to every random scenario
	for i := 0; i < n; i++ {
		s := master.Int63()
		jobs = append(jobs, job{"random", func() *Scenario {
			sc, g := genScenario(rand.New(rand.NewSource(s)), big)
			run(sc, g.next)
			return sc
		}})
	}
	return jobs
}

func main() {
	seed := flag.Int64("seed", 1, "PRNG seed")
	n := flag.Int("n", 160, "number of random scenarios")
	shards := flag.Int("shards", 16, "case files")
	out := flag.String("out", "out/C01", "output directory")
	replayIn := flag.String("replay", "", "JSON file with scenarios (inputs) to re-run")
	corpus := flag.String("corpus", "", "directory of corpus JSON scenarios to run first")
	big := flag.Bool("big", false, "thorough tier: largest packets too")
	flag.IntVar(&floodMs, "floodms", 1500, "duration of a flood pass in ms")
	child := flag.String("child", "", "internal: run jobs lo:hi")
	childOut := flag.String("childout", "", "internal: result file of a child")
	flag.Parse()
	if err := os.MkdirAll(*out, 0o755); err != nil {
		panic(err)
	}
	jobs := buildJobs(*seed, *n, *big, *corpus, *replayIn)
	if *child != "" {
		lo, hi := dpath.ChildRange(*child)
		var results []json.RawMessage
		for i := lo; i < hi && i < len(jobs); i++ {
			sc := jobs[i].run()
			data, _ := json.Marshal(sc)
			results = append(results, data)
			dpath.ChildWrite(*childOut, results)
			if poisoned {
				os.Exit(dpath.ExitPoisoned)
			}
		}
		return
	}
	var args []string
	for _, a := range os.Args[1:] {
		args = append(args, a)
	}
	solo := map[int]bool{}
	for i, j := range jobs {
		if strings.HasPrefix(j.name, "flood-") {
			solo[i] = true
		}
	}
	raw, crash := dpath.RunChildren(len(jobs), 12, 6, solo, args, *out, 20*time.Second)
	var kept []*Scenario
	discarded, crashed := 0, 0
	for i := range jobs {
		if raw[i] == nil {
			crashed++
			fmt.Fprintln(os.Stderr, "crashed:", jobs[i].name, crash[i])
			kept = append(kept, &Scenario{Kind: "crashed", Gen: jobs[i].name, Crash: crash[i]})
			continue
		}
		sc := &Scenario{}
		if err := json.Unmarshal(raw[i], sc); err != nil {
			panic(err)
		}
		if sc.Discarded != "" {
			discarded++
			fmt.Fprintln(os.Stderr, "discarded:", sc.Gen, sc.Discarded)
			if *replayIn == "" {
				continue
			}
		}
		kept = append(kept, sc)
	}
	if *replayIn != "" {
		*shards = 1
	}
	if *shards > len(kept) {
		*shards = len(kept)
	}
	if *shards < 1 {
		*shards = 1
	}
	type shardInfo struct {
		File  string `json:"file"`
		First int    `json:"first"`
		N     int    `json:"n"`
	}
	var infos []shardInfo
	per := (len(kept) + *shards - 1) / *shards
	for s, idx := 0, 0; s < *shards && idx < len(kept); s++ {
		end := idx + per
		if end > len(kept) {
			end = len(kept)
		}
		var cs []string
		for _, sc := range kept[idx:end] {
			cs = append(cs, gallina(sc))
		}
		name := fmt.Sprintf("cases_C01_%d.v", s)
		if err := dpath.WriteShard(filepath.Join(*out, name), imports, cs); err != nil {
			panic(err)
		}
		infos = append(infos, shardInfo{name, idx, end - idx})
		idx = end
	}
	meta := map[string]any{"seed": *seed, "cases": kept, "shards": infos, "discarded": discarded, "crashed": crashed}
	data, _ := json.Marshal(meta)
	if err := os.WriteFile(filepath.Join(*out, "cases.json"), data, 0o644); err != nil {
		panic(err)
	}
}
