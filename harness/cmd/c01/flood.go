package main

// Flood pass: schedule pressure on the TUN reader / encryption workers /
// sequential sender hand-off.  One container per TUN packet (batch size 1),
// hundreds of thousands of packets in a second or two toward one or several
// peers, and EVERY datagram that reaches the bind is judged: transport
// message of the right size, receiver index of the peer's session, opens under
// that session's key, counters consecutive, plaintext = the next TUN packet of
// that peer padded with zeros.  Whatever does not pass that filter (plus its
// neighbours) is handed, as descriptors, to the ordinary specification in a
// `partial` scenario (judged by the property only), so a TUN packet in the
// clear, a datagram that opens under nobody's key, a repeated counter or a
// foreign plaintext becomes a concrete failing input.  A watchdog notices a
// wedged TUN reader.

import (
	"bytes"
	"encoding/binary"
	"fmt"
	"time"

	"wgv/cosim"
	"wgv/dpath"
	"wgv/ref"
	"wgv/sim"
)

func floodScenario(np, ms int) *Scenario {
	return &Scenario{Kind: "scenario", Gen: fmt.Sprintf("flood-%d-peers", np), NPeers: np, MTU: 1420, TunBatch: 1, Rounds: ms}
}

func floodPkt(peer int, seq uint32) []byte {
	p := make([]byte, 32)
	p[0] = 0x45
	p[3] = 32
	binary.BigEndian.PutUint32(p[4:], seq)
	p[8], p[9] = 64, 17
	copy(p[12:], []byte{10, 200, 0, 1})
	copy(p[16:], []byte{10, byte(peer + 1), 0, 9})
	for i := 20; i < 32; i++ {
		p[i] = byte(seq) + byte(i)
	}
	return p
}

func runFlood(sc *Scenario) {
	sc.Discarded = ""
	sc.Partial = true // judged by the property only: the observations are the datagrams that fail the filter
	sc.Evs = nil
	np := sc.NPeers
	sc.Table = nil
	sc.Eps = nil
	peers := make([]*cosim.RefPeer, np)
	for i := range peers {
		peers[i] = cosim.NewPeer(fmt.Sprintf("P%d", i), epAddr(i+1).String(), fmt.Sprintf("10.%d.0.0/16", i+1))
		sc.Table = append(sc.Table, dpath.Entry{Fam: 4, Bits: []byte{10, byte(i + 1), 0, 0}, Len: 16, Owner: i})
		sc.Eps = append(sc.Eps, i+1)
	}
	w, err := cosim.NewWorld(cosim.Config{Up: true, BindBatch: 1, TunBatch: 1, MTU: sc.MTU}, true, peers...)
	if err != nil {
		sc.Discarded = "world: " + err.Error()
		return
	}
	defer closeWorld(w)
	sess := make([]*ref.Session, np)
	for i, p := range peers {
		_, out, s, err := w.RefInitiates(p, epAddr(i+1), ref.Tai64n(time.Now()))
		if err != nil || !out.Settled {
			sc.Discarded = fmt.Sprintf("handshake: %v", err)
			return
		}
		o2 := w.Inject(epAddr(i+1), s.Next(nil))
		sess[i] = s
		h := &hstate{sc: sc, w: w, peers: peers, sessions: sess[:i+1], owner: seqInts(i + 1), lastInit: make([][]byte, np)}
		sc.Evs = append(sc.Evs, Ev{Kind: "refhs", Peer: i, Ep: i + 1, Ridx: s.LocalIdx, Obs: h.describe(append(out.Sent, o2.Sent...))})
	}
	h := &hstate{sc: sc, w: w, peers: peers, sessions: sess, owner: seqInts(np), lastInit: make([][]byte, np)}
	nextSeq := make([]uint32, np) // next packet to inject per peer
	expSeq := make([]uint32, np)  // next packet expected on the wire per peer
	expCtr := make([]uint64, np)  // next counter expected per peer
	var offenders []sim.Sent
	var tunPkts [][]byte
	good, total := 0, 0
	judge := func(s sim.Sent) {
		total++
		id := epID(s.To) - 1
		ok := false
		if id >= 0 && id < np && len(s.Data) == 64 && binary.LittleEndian.Uint32(s.Data[:4]) == ref.TypeTransport &&
			binary.LittleEndian.Uint32(s.Data[4:8]) == sess[id].LocalIdx && binary.LittleEndian.Uint64(s.Data[8:16]) == expCtr[id] {
			if _, _, pt, err := sess[id].OpenTransport(s.Data); err == nil && bytes.Equal(pt, floodPkt(id, expSeq[id])) {
				ok = true
			}
		}
		if ok {
			good++
			expSeq[id]++
			expCtr[id]++
			return
		}
		if len(offenders) < 40 {
			offenders = append(offenders, s)
			if id >= 0 && id < np { // the packets this datagram could legitimately carry
				for d := uint32(0); d < 3; d++ {
					tunPkts = append(tunPkts, floodPkt(id, expSeq[id]+d))
				}
				// resynchronise on what it says, if it opens at all
				if _, c, pt, err := sess[id].OpenTransport(s.Data); err == nil && len(pt) == 32 {
					expCtr[id] = c + 1
					expSeq[id] = binary.BigEndian.Uint32(pt[4:8]) + 1
				}
			}
		}
	}
	deadline := time.Now().Add(time.Duration(sc.Rounds) * time.Millisecond)
	lastProgress := time.Now()
	stalled := false
	injected := 0
	for time.Now().Before(deadline) && len(offenders) < 40 {
		chunk := make([][]byte, 0, 512)
		for k := 0; k < 512; k++ {
			p := k % np
			chunk = append(chunk, floodPkt(p, nextSeq[p]))
			nextSeq[p]++
		}
		w.Tun.Inject(chunk...)
		injected += len(chunk)
		// back-pressure: let the reader drain the chunk, judge what has been sent meanwhile
		for !w.Tun.Idle() {
			before := total
			for _, s := range w.Bind.TakeSent() {
				judge(s)
			}
			if total != before {
				lastProgress = time.Now()
			} else if time.Since(lastProgress) > 2*time.Second {
				stalled = true
				break
			}
			time.Sleep(50 * time.Microsecond)
		}
		if stalled {
			break
		}
	}
	settled := false
	if !stalled {
		settled = w.Settle()
	}
	for _, s := range w.Bind.TakeSent() {
		judge(s)
	}
	if stalled || !settled {
		poisoned = true
	}
	ev := Ev{Kind: "tun", Pkts: tunPkts, Obs: h.describe(offenders)}
	sc.Evs = append(sc.Evs, ev)
	sc.Flood = &FloodStats{Injected: injected, Datagrams: total, Good: good, Offenders: len(offenders), Stalled: stalled || !settled}
}

func seqInts(n int) []int {
	o := make([]int, n)
	for i := range o {
		o[i] = i
	}
	return o
}
