package main

// Scenarios over the REAL UDP bind (conn.NewStdNetBind on loopback): the
// remote parties are UDP sockets of the harness, so "goes to the current
// endpoint of P" is observed as "arrives at P's socket".  What the simulated
// bind cannot show is how the bind itself attributes source addresses to the
// datagrams of one receive batch (recvmmsg): every round lets all peers send
// an authenticated keepalive at (almost) the same moment and then makes the
// device send one TUN packet to each of them.  The events are the ordinary
// ones (refhs, roam, tun), so the same model and specification judge the trace.

import (
	"encoding/binary"
	"encoding/hex"
	"fmt"
	"net"
	"strings"
	"time"

	"golang.zx2c4.com/wireguard/conn"
	"golang.zx2c4.com/wireguard/device"

	"wgv/dpath"
	"wgv/ref"
	"wgv/sim"
)

type realPeer struct {
	priv, pub ref.Key
	sock      *net.UDPConn
	sess      *ref.Session
	nextIdx   uint32
}

type realDgram struct {
	sock int // index of the peer socket it arrived at
	data []byte
}

func freePort() int {
	c, err := net.ListenUDP("udp4", &net.UDPAddr{IP: net.IPv4(127, 0, 0, 1)})
	if err != nil {
		return 0
	}
	defer c.Close()
	return c.LocalAddr().(*net.UDPAddr).Port
}

func realBindScenario(np, rounds int) *Scenario {
	return &Scenario{Kind: "scenario", Gen: fmt.Sprintf("real-bind-%d-peers", np), NPeers: np, MTU: 1420, TunBatch: 16, Rounds: rounds}
}

// runRealBind fills sc.Table, sc.Eps and sc.Evs.
func runRealBind(sc *Scenario) {
	sc.Discarded = ""
	sc.Evs = nil
	np := sc.NPeers
	sc.Table = nil
	sc.Eps = make([]int, np)
	peers := make([]*realPeer, np)
	for i := range peers {
		p := &realPeer{priv: ref.NewPrivate(), nextIdx: 0x2000 + uint32(i)<<8}
		p.pub = ref.PubOf(p.priv)
		s, err := net.ListenUDP("udp4", &net.UDPAddr{IP: net.IPv4(127, 0, 0, 1)})
		if err != nil {
			sc.Discarded = "no loopback UDP socket: " + err.Error()
			return
		}
		defer s.Close()
		p.sock = s
		peers[i] = p
		sc.Table = append(sc.Table, dpath.Entry{Fam: 4, Bits: []byte{10, byte(i + 1), 0, 0}, Len: 16, Owner: i})
	}
	port := freePort()
	if port == 0 {
		sc.Discarded = "no free UDP port"
		return
	}
	devPriv := ref.NewPrivate()
	devPub := ref.PubOf(devPriv)
	tn := sim.NewTun(16, sc.MTU)
	dev := device.NewDevice(tn, conn.NewStdNetBind(), device.NewLogger(device.LogLevelSilent, ""))
	defer func() {
		done := make(chan struct{})
		go func() { dev.Close(); close(done) }()
		select {
		case <-done:
		case <-time.After(3 * time.Second):
			poisoned = true
		}
	}()
	var cfg strings.Builder
	fmt.Fprintf(&cfg, "private_key=%s\nlisten_port=%d\n", hex.EncodeToString(devPriv[:]), port)
	for i, p := range peers {
		fmt.Fprintf(&cfg, "public_key=%s\nallowed_ip=10.%d.0.0/16\n", hex.EncodeToString(p.pub[:]), i+1)
	}
	if err := dev.IpcSet(cfg.String()); err != nil {
		sc.Discarded = "ipc: " + err.Error()
		return
	}
	if err := dev.Up(); err != nil {
		sc.Discarded = "up (real bind unavailable): " + err.Error()
		return
	}
	devAddr := &net.UDPAddr{IP: net.IPv4(127, 0, 0, 1), Port: port}
	pk := func(p *realPeer) (k device.NoisePublicKey) { copy(k[:], p.pub[:]); return }
	buf := make([]byte, 70000)
	// whatever arrives at any peer socket until `want` datagrams are there or d has passed
	collect := func(want int, d time.Duration) []realDgram {
		var out []realDgram
		deadline := time.Now().Add(d)
		for len(out) < want && time.Now().Before(deadline) {
			for i, p := range peers {
				p.sock.SetReadDeadline(time.Now().Add(time.Millisecond))
				n, _, err := p.sock.ReadFromUDP(buf)
				if err == nil {
					out = append(out, realDgram{i, append([]byte{}, buf[:n]...)})
				}
			}
		}
		return out
	}
	// session serial of peer i is i+1 (one handshake each, in order)
	describe := func(ds []realDgram) []Obs {
		out := []Obs{}
		for _, d := range ds {
			o := Obs{Ep: d.sock + 1, Len: len(d.data), Plain: []byte{}}
			if len(d.data) >= 4 {
				switch binary.LittleEndian.Uint32(d.data[:4]) {
				case ref.TypeInitiation:
					if len(d.data) == ref.InitiationSize {
						o.Kind = 1
						for j, q := range peers {
							if rs, err := ref.ConsumeInitiation(d.data, q.priv); err == nil && rs.InitiatorStatic == devPub {
								o.Peer = j + 1
							}
						}
					}
				case ref.TypeResponse:
					if len(d.data) == ref.ResponseSize {
						o.Kind = 2
						o.Rcv = binary.LittleEndian.Uint32(d.data[8:12])
						for j, q := range peers {
							if ref.CheckMac1(d.data, q.pub) {
								o.Peer = j + 1
							}
						}
					}
				case ref.TypeCookie:
					if len(d.data) == ref.CookieSize {
						o.Kind = 3
					}
				case ref.TypeTransport:
					if len(d.data) >= 32 {
						o.Kind = 4
						o.Rcv = binary.LittleEndian.Uint32(d.data[4:8])
						o.Ctr = binary.LittleEndian.Uint64(d.data[8:16])
						for j, q := range peers {
							if q.sess == nil {
								continue
							}
							if _, _, pt, err := q.sess.OpenTransport(d.data); err == nil {
								o.Sess, o.Peer = j+1, j+1
								if pt != nil {
									o.Plain = pt
								}
							}
						}
					}
				}
			}
			if o.Peer == 0 {
				o.Raw = d.data
			}
			out = append(out, o)
		}
		return out
	}
	waitRx := func(p *realPeer, atLeast uint64) bool {
		dl := time.Now().Add(2 * time.Second)
		for time.Now().Before(dl) {
			if dev.VerifPeer(pk(p)).RxBytes >= atLeast {
				return true
			}
			time.Sleep(20 * time.Microsecond)
		}
		return false
	}
	// handshakes: the remote initiates from its socket and confirms with a keepalive
	for i, p := range peers {
		p.nextIdx++
		st := ref.CreateInitiation(p.priv, ref.NewPrivate(), devPub, ref.Key{}, p.nextIdx, ref.Tai64n(time.Now()))
		if _, err := p.sock.WriteToUDP(st.Msg, devAddr); err != nil {
			sc.Discarded = "send: " + err.Error()
			return
		}
		got := collect(1, 2*time.Second)
		if len(got) != 1 {
			sc.Discarded = fmt.Sprintf("real bind: %d datagrams instead of the handshake response for peer %d", len(got), i)
			return
		}
		s, err := st.ConsumeResponse(got[0].data)
		if err != nil {
			sc.Discarded = "real bind: response: " + err.Error()
			return
		}
		p.sess = s
		before := dev.VerifPeer(pk(p)).RxBytes
		p.sock.WriteToUDP(s.Next(nil), devAddr)
		if !waitRx(p, before+32) {
			sc.Discarded = "real bind: confirming keepalive not processed in 2 s"
			return
		}
		sc.Evs = append(sc.Evs, Ev{Kind: "refhs", Peer: i, Ep: i + 1, Ridx: s.LocalIdx, Obs: describe(got)})
	}
	tag := uint16(1)
	start := time.Now()
	for r := 0; r < sc.Rounds; r++ {
		if time.Since(start) > 4*time.Second { // the device's own timers are outside the model
			break
		}
		// all peers speak at the same moment (order rotates): candidates for one receive batch
		before := make([]uint64, np)
		for i, p := range peers {
			before[i] = dev.VerifPeer(pk(p)).RxBytes
		}
		msgs := make([][]byte, np)
		for i, p := range peers {
			msgs[i] = p.sess.Next(nil)
		}
		for k := 0; k < np; k++ {
			i := (k + r) % np
			peers[i].sock.WriteToUDP(msgs[i], devAddr)
		}
		for k := 0; k < np; k++ {
			i := (k + r) % np
			if !waitRx(peers[i], before[i]+32) {
				sc.Discarded = "real bind: keepalive not processed in 2 s"
				return
			}
			sc.Evs = append(sc.Evs, Ev{Kind: "roam", Peer: i, Ep: i + 1, Obs: []Obs{}})
		}
		var pkts [][]byte
		for i := range peers {
			pkts = append(pkts, v4to([4]byte{10, byte(i + 1), 0, byte(r)}, 40+r%40, tag))
			tag++
		}
		tn.Inject(pkts...)
		got := collect(np, 2*time.Second)
		if len(got) < np {
			// late or lost datagrams are a matter of the machine, wrong addressing shows in what did arrive
			extra := collect(np-len(got), 200*time.Millisecond)
			got = append(got, extra...)
		}
		if len(got) < np {
			sc.Partial = true
		}
		sc.Evs = append(sc.Evs, Ev{Kind: "tun", Pkts: pkts, Obs: describe(got)})
		if sc.Partial {
			return
		}
	}
}
