// Package dpath holds what the C01 (outbound) and C02 (inbound) harnesses
// share: allowed-IPs tables from a dense nested family, addresses on prefix
// boundaries, and the Gallina printers for bytes and tables.
package dpath

import (
	"fmt"
	"math/rand"
	"net/netip"
	"os"
	"strings"
)

// Entry is one allowed-IPs assignment in configuration order.
type Entry struct {
	Fam   int    `json:"fam"` // 4 or 6
	Bits  []byte `json:"bits"`
	Len   int    `json:"len"`
	Owner int    `json:"owner"`
}

func (e Entry) CIDR() string {
	a, _ := netip.AddrFromSlice(e.Bits)
	return fmt.Sprintf("%s/%d", a, e.Len)
}

func alen(fam int) int {
	if fam == 6 {
		return 16
	}
	return 4
}

// Mask returns the first address of the prefix.
func Mask(b []byte, n int) []byte {
	o := make([]byte, len(b))
	for i := range b {
		switch {
		case n >= 8*(i+1):
			o[i] = b[i]
		case n > 8*i:
			o[i] = b[i] & ^byte(0xff>>(uint(n)-8*uint(i)))
		}
	}
	return o
}

// Last returns the last address of the prefix.
func Last(b []byte, n int) []byte {
	o := Mask(b, n)
	for i := range o {
		switch {
		case n >= 8*(i+1):
		case n > 8*i:
			o[i] |= 0xff >> (uint(n) - 8*uint(i))
		default:
			o[i] = 0xff
		}
	}
	return o
}

func Inc(b []byte) []byte {
	o := append([]byte{}, b...)
	for i := len(o) - 1; i >= 0; i-- {
		o[i]++
		if o[i] != 0 {
			break
		}
	}
	return o
}

func Dec(b []byte) []byte {
	o := append([]byte{}, b...)
	for i := len(o) - 1; i >= 0; i-- {
		o[i]--
		if o[i] != 0xff {
			break
		}
	}
	return o
}

func flip(b []byte, bit int) []byte {
	o := append([]byte{}, b...)
	o[bit/8] ^= 0x80 >> uint(bit%8)
	return o
}

var lens4 = []int{0, 1, 7, 8, 9, 15, 16, 17, 23, 24, 25, 30, 31, 32}
var lens6 = []int{0, 1, 7, 8, 16, 47, 48, 49, 63, 64, 65, 96, 120, 127, 128}

// GenTable draws nested and overlapping v4+v6 prefixes around two anchor
// addresses (prefixes of the anchor and of its siblings at every length) and
// deals them to the peers.  Entries come out in configuration order
// (peer by peer); the same prefix may occur twice (the later owner wins).
func GenTable(r *rand.Rand, npeers int) []Entry {
	a4 := []byte{10, byte(r.Intn(256)), byte(r.Intn(256)), byte(r.Intn(256))}
	a6 := make([]byte, 16)
	r.Read(a6)
	a6[0] = 0xfd
	var all []Entry
	n4 := 2 + r.Intn(7)
	n6 := 1 + r.Intn(6)
	pick := func(fam int, anchor []byte, lens []int) Entry {
		l := lens[r.Intn(len(lens))]
		b := append([]byte{}, anchor...)
		switch r.Intn(4) {
		case 0: // sibling at a deeper bit
			if l > 0 {
				b = flip(b, r.Intn(l))
			}
		case 1: // sibling at the last prefix bit
			if l > 0 {
				b = flip(b, l-1)
			}
		}
		if r.Intn(3) != 0 {
			b = Mask(b, l)
		} else if l < 8*len(b) { // unmasked as configured: host bits set
			b = flip(b, l+r.Intn(8*len(b)-l))
		}
		return Entry{Fam: fam, Bits: b, Len: l, Owner: r.Intn(npeers)}
	}
	for i := 0; i < n4; i++ {
		all = append(all, pick(4, a4, lens4))
	}
	for i := 0; i < n6; i++ {
		all = append(all, pick(6, a6, lens6))
	}
	// IPv4-mapped / IPv4-compatible IPv6 space: the families are kept apart by address length, so ::ffff:a.b.c.d is
	// routed by the IPv6 table only — whether nothing there covers it, ::ffff:0:0/96 or the /128 belongs to another
	// peer than the owner of a.b.c.d, or only ::/0 does
	mapped := func(v4 []byte) []byte {
		return append([]byte{0, 0, 0, 0, 0, 0, 0, 0, 0, 0, 0xff, 0xff}, v4...)
	}
	switch r.Intn(5) {
	case 0: // nothing covers the mapped space (unless the random v6 prefixes happen to)
	case 1:
		all = append(all, Entry{Fam: 6, Bits: mapped([]byte{0, 0, 0, 0}), Len: 96, Owner: r.Intn(npeers)})
	case 2:
		all = append(all, Entry{Fam: 6, Bits: mapped(a4), Len: 128, Owner: r.Intn(npeers)})
	case 3:
		all = append(all, Entry{Fam: 6, Bits: make([]byte, 16), Len: 0, Owner: r.Intn(npeers)})
	default:
		all = append(all, Entry{Fam: 6, Bits: mapped([]byte{0, 0, 0, 0}), Len: 96, Owner: r.Intn(npeers)},
			Entry{Fam: 6, Bits: mapped(a4), Len: 128, Owner: r.Intn(npeers)},
			Entry{Fam: 6, Bits: make([]byte, 16), Len: 0, Owner: r.Intn(npeers)})
	}
	if r.Intn(8) == 0 && len(all) > 0 { // the same prefix given to a second peer
		d := all[r.Intn(len(all))]
		d.Owner = r.Intn(npeers)
		all = append(all, d)
	}
	// configuration order: peer by peer
	var out []Entry
	for p := 0; p < npeers; p++ {
		for _, e := range all {
			if e.Owner == p {
				out = append(out, e)
			}
		}
	}
	return out
}

// Boundary returns addresses on and around every prefix boundary of the
// family (first, last, first-1, last+1, a random inner address) plus random ones.
func Boundary(r *rand.Rand, tbl []Entry, fam int) [][]byte {
	var out [][]byte
	for _, e := range tbl {
		if e.Fam != fam {
			continue
		}
		f, l := Mask(e.Bits, e.Len), Last(e.Bits, e.Len)
		in := append([]byte{}, f...)
		for i := range in {
			in[i] |= l[i] & byte(r.Intn(256))
		}
		out = append(out, f, l, Dec(f), Inc(l), in)
	}
	x := make([]byte, alen(fam))
	r.Read(x)
	out = append(out, x)
	zero := make([]byte, alen(fam))
	ones := make([]byte, alen(fam))
	for i := range ones {
		ones[i] = 0xff
	}
	out = append(out, zero, ones)
	if fam == 6 { // every IPv4 boundary address once as ::ffff:a.b.c.d (v4-mapped) and once as ::a.b.c.d (v4-compatible)
		for _, e := range tbl {
			if e.Fam != 4 {
				continue
			}
			f, l := Mask(e.Bits, e.Len), Last(e.Bits, e.Len)
			in := append([]byte{}, f...)
			for i := range in {
				in[i] |= l[i] & byte(r.Intn(256))
			}
			for _, a := range [][]byte{f, l, in} {
				out = append(out, append([]byte{0, 0, 0, 0, 0, 0, 0, 0, 0, 0, 0xff, 0xff}, a...),
					append([]byte{0, 0, 0, 0, 0, 0, 0, 0, 0, 0, 0, 0}, a...))
			}
		}
	}
	return out
}

// Lookup is the harness's own longest-prefix match (used only to steer
// generators toward routable / non-routable addresses, never as an oracle).
func Lookup(tbl []Entry, addr []byte) int {
	best, bl := -1, -1
	fam := 4
	if len(addr) == 16 {
		fam = 6
	}
	for _, e := range tbl {
		if e.Fam != fam {
			continue
		}
		if string(Mask(addr, e.Len)) == string(Mask(e.Bits, e.Len)) && e.Len >= bl {
			best, bl = e.Owner, e.Len
		}
	}
	return best
}

// ---------------------------------------------------------------- Gallina

// Ints packs bytes 7 per Uint63 literal, little end first: "[a;b;c]".
func Ints(b []byte) string {
	var sb strings.Builder
	sb.WriteByte('[')
	for i := 0; i < len(b); i += 7 {
		var v uint64
		for j := 6; j >= 0; j-- {
			v <<= 8
			if i+j < len(b) {
				v |= uint64(b[i+j])
			}
		}
		if i > 0 {
			sb.WriteByte(';')
		}
		fmt.Fprintf(&sb, "%d", v)
	}
	sb.WriteByte(']')
	return sb.String()
}

// Packed renders "(len, [ints])".
func Packed(b []byte) string { return fmt.Sprintf("(%d,%s)", len(b), Ints(b)) }

func word(b []byte, i int) uint32 {
	return uint32(b[4*i])<<24 | uint32(b[4*i+1])<<16 | uint32(b[4*i+2])<<8 | uint32(b[4*i+3])
}

// TableGallina renders the table as a list of [fam;len;owner;w0;w1;w2;w3].
func TableGallina(tbl []Entry) string {
	var parts []string
	for _, e := range tbl {
		if e.Fam == 4 {
			parts = append(parts, fmt.Sprintf("[4;%d;%d;%d;0;0;0]", e.Len, e.Owner, word(e.Bits, 0)))
		} else {
			parts = append(parts, fmt.Sprintf("[6;%d;%d;%d;%d;%d;%d]", e.Len, e.Owner, word(e.Bits, 0), word(e.Bits, 1), word(e.Bits, 2), word(e.Bits, 3)))
		}
	}
	return "[" + strings.Join(parts, ";") + "]"
}

// WriteShard writes a case file evaluating check_cases and stats.
func WriteShard(path, imports string, cases []string) error {
	var b strings.Builder
	b.WriteString("From Coq Require Import Uint63 List NArith.\nImport ListNotations.\n")
	b.WriteString(imports)
	b.WriteString("\nLocal Open Scope uint63_scope.\nDefinition cases : list case := [\n")
	b.WriteString(strings.Join(cases, ";\n"))
	b.WriteString("].\nDefinition bad := Eval vm_compute in (check_cases cases 0%N).\nPrint bad.\nDefinition st := Eval vm_compute in (stats cases).\nPrint st.\n")
	return os.WriteFile(path, []byte(b.String()), 0o644)
}

// ---------------------------------------------------------------- job runner
//
// Scenarios run in child processes (the harness re-executes itself): a panic
// or a wedged device costs one scenario, not the run, slow scenarios run
// beside the others, and goroutines leaked by a device that no longer closes
// cannot disturb the quiescence detector of later scenarios.
//
// Child protocol: "<exe> <same args> -child lo:hi -childout file" runs jobs
// lo..hi-1 in order and rewrites file (a JSON array, one element per finished
// job) after every job.  Exit 0 = all done; exit 3 = the last finished job left
// the process unusable, continue after it; anything else = the job after the
// last finished one crashed.
