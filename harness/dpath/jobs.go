package dpath

import (
	"bytes"
	"context"
	"encoding/json"
	"fmt"
	"os"
	"os/exec"
	"path/filepath"
	"sync"
	"time"
)

// ChildRange parses "lo:hi".
func ChildRange(s string) (lo, hi int) {
	fmt.Sscanf(s, "%d:%d", &lo, &hi)
	return
}

// ChildWrite atomically rewrites the child's result file.
func ChildWrite(path string, results []json.RawMessage) {
	data, _ := json.Marshal(results)
	tmp := path + ".tmp"
	if err := os.WriteFile(tmp, data, 0o644); err == nil {
		os.Rename(tmp, path)
	}
}

// ExitPoisoned is the exit code of a child that finished its current job but must not run another.
const ExitPoisoned = 3

// RunChildren runs jobs 0..n-1 in child processes, par at a time, chunk jobs
// per child; jobs in solo get a child of their own (started first).  args are
// the parent's arguments.  It returns the raw result per job (nil = the
// scenario crashed the process, with the tail of its stderr in crash[i]).
func RunChildren(n, chunk, par int, solo map[int]bool, args []string, dir string, perJob time.Duration) ([]json.RawMessage, []string) {
	res := make([]json.RawMessage, n)
	crash := make([]string, n)
	exe, err := os.Executable()
	if err != nil {
		panic(err)
	}
	type rng struct{ lo, hi int }
	var work []rng
	for i := 0; i < n; i++ {
		if solo[i] {
			work = append(work, rng{i, i + 1})
		}
	}
	for i := 0; i < n; {
		if solo[i] {
			i++
			continue
		}
		j := i
		for j < n && j-i < chunk && !solo[j] {
			j++
		}
		work = append(work, rng{i, j})
		i = j
	}
	var mu sync.Mutex
	next := 0
	var wg sync.WaitGroup
	runRange := func(id int, r rng) {
		lo := r.lo
		for lo < r.hi {
			out := filepath.Join(dir, fmt.Sprintf(".child_%d_%d.json", id, lo))
			os.Remove(out)
			ctx, cancel := context.WithTimeout(context.Background(), time.Duration(r.hi-lo)*perJob+30*time.Second)
			cmd := exec.CommandContext(ctx, exe, append(append([]string{}, args...), "-child", fmt.Sprintf("%d:%d", lo, r.hi), "-childout", out)...)
			var stderr bytes.Buffer
			cmd.Stderr = &stderr
			err := cmd.Run()
			cancel()
			var got []json.RawMessage
			if data, e := os.ReadFile(out); e == nil {
				json.Unmarshal(data, &got)
			}
			os.Remove(out)
			if len(got) > r.hi-lo {
				got = got[:r.hi-lo]
			}
			for k, g := range got {
				res[lo+k] = g
			}
			lo += len(got)
			code := 0
			if err != nil {
				code = -1
				if ee, ok := err.(*exec.ExitError); ok {
					code = ee.ExitCode()
				}
			}
			if code == 0 && lo < r.hi && len(got) == 0 {
				code = -1 // nothing produced, nothing reported: treat as a crash of the next job
			}
			if code != 0 && code != ExitPoisoned && lo < r.hi {
				t := stderr.String()
				if len(t) > 1500 {
					t = t[len(t)-1500:]
				}
				if ctx.Err() != nil {
					t = "timeout (hung)\n" + t
				}
				crash[lo] = fmt.Sprintf("exit %d: %s", code, t)
				lo++
			}
		}
	}
	for w := 0; w < par; w++ {
		wg.Add(1)
		go func(id int) {
			defer wg.Done()
			for {
				mu.Lock()
				if next >= len(work) {
					mu.Unlock()
					return
				}
				r := work[next]
				next++
				mu.Unlock()
				runRange(id*100000+r.lo, r)
			}
		}(w)
	}
	wg.Wait()
	return res, crash
}
