(* History: coalesceMessages as it was BEFORE /repo commit ba89367 ("do not
   coalesce a zero-length datagram into the previous UDP GSO message"): the join
   condition lacked `msgLen > 0`, so an empty datagram after a non-empty one
   satisfied `msgLen <= gsoSize`, was "appended" to the previous message and
   vanished on the wire (finding F4, send side).  Kept so that the refutation
   (Proofs.v: old_coalesce_drops_empty_refuted) stays checkable.  Not used by
   Check.v; the current code is mirrored in Model.v. *)
From WG Require Import Base.Prelude Gen.Constants UdpGso.Model.
Local Open Scope N_scope.

Definition old_can_join (c : cfg) (s : st) (m : msg) (b : buf) : bool :=
  let msgLen := len (b_data b) in
  let baseLenBefore := len (m_data m) in
  let freeBaseCap := m_cap m - baseLenBefore in
  (msgLen + baseLenBefore <=? max_payload c) &&
  (msgLen <=? s_gso s) &&
  (msgLen <=? freeBaseCap) &&
  (s_cnt s <? conn_udpSegmentMaxDatagrams) &&
  negb (s_end s).

Definition old_step (c : cfg) (s : st) (b : buf) (i_pos is_last : bool) : st :=
  match (if i_pos then s_cur s else None) with
  | Some m =>
      if old_can_join c s m b then
        let m1 := {| m_data := m_data m ++ b_data b; m_cap := m_cap m; m_oob := m_oob m;
                     m_gso := m_gso m; m_addr := m_addr m |} in
        let m2 := if is_last then set_gso c m1 (s_gso s) else m1 in
        {| s_done := s_done s; s_cur := Some m2; s_gso := s_gso s; s_cnt := s_cnt s + 1;
           s_end := if len (b_data b) <? s_gso s then true else s_end s |}
      else fresh c s b
  | None => fresh c s b
  end.

Fixpoint old_loop (c : cfg) (s : st) (bufs : list buf) (i_pos : bool) : st :=
  match bufs with
  | [] => s
  | b :: r => old_loop c (old_step c s b i_pos (match r with [] => true | _ => false end)) r true
  end.

Definition old_coalesce (c : cfg) (bufs : list buf) : list msg := msgs_of (old_loop c st0 bufs false).
