(* Correspondence checker for C18.  Depends on Model and KernelSpec only.

   Case files carry sizes and a deterministic byte pattern instead of bytes:
   a byte string is a list of runs (seed, offset, length); seed < 256 is the
   pattern [pat seed (offset + k)], seed >= 256 is the constant byte seed-256.
   The runs are expanded here, everything after that works on real bytes. *)
From WG Require Import Base.Prelude Gen.Constants UdpGso.Model UdpGso.KernelSpec.
From WG Require Import Base.Ints.
From Coq Require Import Uint63.
Local Open Scope N_scope.

Definition pat (s j : N) : N := (s + 31 * j + j / 251) mod 256.
(* [pat s j; pat s (j+1); ...] computed incrementally (one division per run,
   not per byte): x is the current byte, r = j mod 251 *)
Fixpoint pat_inc (n : nat) (x r : N) : list N :=
  match n with
  | O => []
  | S k =>
      let y := if r =? 250 then x + 32 else x + 31 in
      x :: pat_inc k (if 256 <=? y then y - 256 else y) (if r =? 250 then 0 else r + 1)
  end.
Definition pat_run (n : nat) (s j : N) : list N := pat_inc n (pat s j) (j mod 251).
(* the direct definition, for the self-test below *)
Fixpoint pat_run_direct (n : nat) (s j : N) : list N :=
  match n with O => [] | S k => pat s j :: pat_run_direct k s (j + 1) end.
Example pat_run_selftest :
  forallb (fun sj => list_eqb (pat_run 1200 (fst sj) (snd sj)) (pat_run_direct 1200 (fst sj) (snd sj)))
          [(0, 0); (255, 0); (37, 249); (200, 250); (13, 251); (99, 65000); (255, 131000)] = true.
Proof. vm_compute. reflexivity. Qed.
Definition run_bytes (s o l : N) : list N :=
  if s <? 256 then pat_run (N.to_nat l) s o else repeat (s - 256) (N.to_nat l).
Fixpoint runs (l : list int) : list N :=
  match l with
  | s :: o :: n :: t => run_bytes (n_of_int s) (n_of_int o) (n_of_int n) ++ runs t
  | _ => []
  end.

Definition nth_int (l : list int) (i : nat) : N := n_of_int (nth i l 0%uint63).

(* ---------------- send cases ---------------- *)

Record scase := { sc_cfg : cfg; sc_bufs : list buf; sc_obs : list msg; sc_n : N }.

Fixpoint mk_bufs (l : list int) : list buf :=
  match l with
  | sz :: cp :: seed :: t =>
      {| b_data := run_bytes (n_of_int seed) 0 (n_of_int sz); b_cap := n_of_int cp |} :: mk_bufs t
  | _ => []
  end.

(* observed message: [cap; addr], oob bytes in front of the first UDP_SEGMENT
   control message, UDP_SEGMENT values, payload runs *)
Definition omsg := (list int * list int * list int * list int)%type.
Definition mk_msg (o : omsg) : msg :=
  let '(h, oob, gso, data) := o in
  {| m_data := runs data; m_cap := nth_int h 0; m_oob := ns_of_ints oob; m_gso := ns_of_ints gso;
     m_addr := nth_int h 1 |}.

(* hdr = [is6; oobcap; addr; returned n] *)
Definition mk_send (hdr src bufs : list int) (obs : list omsg) : scase :=
  {| sc_cfg := {| c_is6 := negb (nth_int hdr 0 =? 0); c_src := ns_of_ints src;
                  c_oobcap := nth_int hdr 1; c_addr := nth_int hdr 2 |};
     sc_bufs := mk_bufs bufs; sc_obs := map mk_msg obs; sc_n := nth_int hdr 3 |}.

Definition msg_eqb (a b : msg) : bool :=
  list_eqb (m_data a) (m_data b) && (m_cap a =? m_cap b) && list_eqb (m_oob a) (m_oob b) &&
  list_eqb (m_gso a) (m_gso b) && (m_addr a =? m_addr b).

Fixpoint first_msg_diff (a b : list msg) (i : N) : option N :=
  match a, b with
  | [], [] => None
  | x :: a', y :: b' => if msg_eqb x y then first_msg_diff a' b' (i + 1) else Some i
  | _, _ => Some i
  end.

Fixpoint find_false {A} (f : A -> bool) (l : list A) (i : N) : option N :=
  match l with
  | [] => None
  | x :: t => if f x then find_false f t (i + 1) else Some i
  end.

(* the control buffer has room for the sticky source and one UDP_SEGMENT: the
   pooled vectors of StdNetBind always do; below that nothing is promised *)
Definition oob_ok (c : cfg) : bool := len (c_src c) + conn_gsoControlSize <=? c_oobcap c.

(* kind 1: differs from the mirror model; kind 2: the property fails on what
   the implementation produced: position = index of the first wire datagram
   that differs from the input (transparency), 1000+i = message i breaks a
   limit, 2000+i = message i not addressed to the endpoint / sticky source *)
Definition check_send (k : scase) : list (N * N) :=
  let c := sc_cfg k in
  let model := coalesce c (sc_bufs k) in
  (if negb (sc_n k =? len (sc_obs k)) then [(1, 999999)] else
   match first_msg_diff model (sc_obs k) 0 with Some i => [(1, i)] | None => [] end) ++
  (if oob_ok c then
     (match first_diff (wire (sc_obs k)) (map b_data (sc_bufs k)) 0 with Some i => [(2, i)] | None => [] end) ++
     (match find_false (msg_limitsb c) (sc_obs k) 0 with Some i => [(2, 1000 + i)] | None => [] end) ++
     (match find_false (msg_addrb c) (sc_obs k) 0 with Some i => [(2, 2000 + i)] | None => [] end)
   else []).

(* ---------------- receive cases ---------------- *)

(* slot = [buflen-independent header: N; ctl (70000 = getGSO error); addr], buffer runs *)
Definition oslot := (list int * list int)%type.
Definition mk_slot (o : oslot) : rmsg :=
  let '(h, data) := o in
  {| r_buf := runs data; r_n := nth_int h 0;
     r_ctl := if nth_int h 1 =? 70000 then None else Some (nth_int h 1);
     r_addr := nth_int h 2 |}.

(* expected datagram = [size; seed; addr] *)
Fixpoint mk_expect (l : list int) : list (list N * N) :=
  match l with
  | sz :: seed :: a :: t => (run_bytes (n_of_int seed) 0 (n_of_int sz), n_of_int a) :: mk_expect t
  | _ => []
  end.

Record rcase := { rc_in : list rmsg; rc_first : nat; rc_has_expect : bool; rc_expect : list (list N * N);
                  rc_obs : list rmsg; rc_n : N; rc_status : N }.

(* hdr = [firstMsgAt; has_expect; returned n; status] ; observed slots carry only
   the first N bytes of their buffer *)
Definition mk_recv (hdr : list int) (slots : list oslot) (expect : list int) (obs : list oslot) : rcase :=
  {| rc_in := map mk_slot slots; rc_first := N.to_nat (nth_int hdr 0);
     rc_has_expect := negb (nth_int hdr 1 =? 0); rc_expect := mk_expect expect;
     rc_obs := map mk_slot obs; rc_n := nth_int hdr 2; rc_status := nth_int hdr 3 |}.

Definition head_bytes (m : rmsg) : list N := firstn (N.to_nat (r_n m)) (r_buf m).
Definition slot_eqb (model obs : rmsg) : bool :=
  (r_n model =? r_n obs) && (r_addr model =? r_addr obs) && list_eqb (head_bytes model) (head_bytes obs).
Fixpoint first_slot_diff (a b : list rmsg) (i : N) : option N :=
  match a, b with
  | [], [] => None
  | x :: a', y :: b' => if slot_eqb x y then first_slot_diff a' b' (i + 1) else Some i
  | _, _ => Some i
  end.

Definition dgram_eqb (a b : list N * N) : bool := list_eqb (fst a) (fst b) && (snd a =? snd b).
Fixpoint first_dgram_diff (a b : list (list N * N)) (i : N) : option N :=
  match a, b with
  | [], [] => None
  | x :: a', y :: b' => if dgram_eqb x y then first_dgram_diff a' b' (i + 1) else Some i
  | _, _ => Some i
  end.

(* kind 1: status 500000, count 500001, slot i; kind 2: first datagram that is
   not delivered as sent (bytes, boundary or sender), 900000 = an error/panic *)
Definition check_recv (k : rcase) : list (N * N) :=
  let '(ms, n, e) := split (rc_in k) (rc_first k) in
  (if negb (e =? rc_status k) then [(1, 500000)]
   else if negb (N.of_nat n =? rc_n k) then [(1, 500001)]
   else match first_slot_diff ms (rc_obs k) 0 with Some i => [(1, i)] | None => [] end) ++
  (if rc_has_expect k then
     if negb (rc_status k =? 0) then [(2, 900000)] else
     match first_dgram_diff (received (rc_obs k, N.to_nat (rc_n k), 0)) (rc_expect k) 0 with
     | Some i => [(2, i)] | None => [] end
   else []).

(* ---------------- send-loop cases (StdNetBind.send under an injected oracle) ---------------- *)

(* messages are their indices 0..L-1; oracle entry 0 = the call fails, k > 0 =
   the call accepts k messages; observed: indices in the order the writer
   accepted them, error flag (2 = the loop panicked) *)
Record lcase := { lc_len : nat; lc_oracle : list wres; lc_obs : list N; lc_err : N }.
Definition mk_loop (hdr oracle obs : list int) : lcase :=
  {| lc_len := N.to_nat (nth_int hdr 0);
     lc_oracle := map (fun x => if n_of_int x =? 0 then WErr else WOk (N.to_nat (n_of_int x))) oracle;
     lc_obs := ns_of_ints obs; lc_err := nth_int hdr 1 |}.

Fixpoint iota (n : nat) (from : N) : list N :=
  match n with O => [] | S k => from :: iota k (from + 1) end.
Definition all_accept (o : list wres) : bool :=
  forallb (fun r => match r with WOk k => Nat.ltb 0 k | WErr => false end) o.

(* kind 1: 600000 = error flag differs, 600001 = transmitted sequence differs;
   kind 2 (oracle without failures, long enough): 700000 = an error/panic was
   reported, else the first position where the transmitted sequence is not 0,1,2,... each once *)
Definition check_loop (k : lcase) : list (N * N) :=
  let msgs := iota (lc_len k) 0 in
  let '(t, e) := send_loop (S (lc_len k)) msgs 0 (lc_oracle k) in
  (if negb ((if e then 1 else 0) =? lc_err k) then [(1, 600000)]
   else if list_eqb t (lc_obs k) then [] else [(1, 600001)]) ++
  (if all_accept (lc_oracle k) && Nat.leb (lc_len k) (length (lc_oracle k)) then
     if negb (lc_err k =? 0) then [(2, 700000)]
     else match first_diff (map (fun x => [x]) (lc_obs k)) (map (fun x => [x]) msgs) 0 with
          | Some i => [(2, i)] | None => [] end
   else []).

(* ---------------- all ---------------- *)

Inductive case := SendCase (k : scase) | RecvCase (k : rcase) | LoopCase (k : lcase).
Definition Snd hdr src bufs obs := SendCase (mk_send hdr src bufs obs).
Definition Rcv hdr slots expect obs := RecvCase (mk_recv hdr slots expect obs).
Definition Lop hdr oracle obs := LoopCase (mk_loop hdr oracle obs).

Definition check_case (k : case) : list (N * N) :=
  match k with SendCase s => check_send s | RecvCase r => check_recv r | LoopCase l => check_loop l end.

Fixpoint check_cases (ks : list case) (idx : N) : list (N * N * N) :=
  match ks with
  | [] => []
  | k :: ks' => map (fun p => (idx, fst p, snd p)) (check_case k) ++ check_cases ks' (idx + 1)
  end.

(* Branch statistics of the model over the cases:
   send: [joined; new: over max payload; new: larger than gsoSize; new: no capacity left;
          new: 64 segments; new: after a short tail; gso set at the last buffer; gso set when closing;
          messages; single-datagram messages]
   recv: [split messages; unsplit messages; stop at N == 0; overflow error; getGSO error; segments out]
   send: [new: zero-length datagram] *)
Fixpoint bump (l : list N) (i : nat) : list N :=
  match l, i with
  | [], _ => []
  | x :: t, O => (x + 1) :: t
  | x :: t, S j => x :: bump t j
  end.

Definition classify_send (c : cfg) (s : st) (b : buf) : nat :=
  match s_cur s with
  | None => 8%nat
  | Some m =>
      let msgLen := len (b_data b) in
      let baseLen := len (m_data m) in
      if negb (0 <? msgLen) then 16%nat
      else if negb (msgLen + baseLen <=? max_payload c) then 1%nat
      else if negb (msgLen <=? s_gso s) then 2%nat
      else if negb (msgLen <=? m_cap m - baseLen) then 3%nat
      else if negb (s_cnt s <? conn_udpSegmentMaxDatagrams) then 4%nat
      else if s_end s then 5%nat
      else 0%nat
  end.

Fixpoint stats_send (c : cfg) (s : st) (bufs : list buf) (i_pos : bool) (acc : list N) : list N :=
  match bufs with
  | [] => acc
  | b :: r =>
      let last := match r with [] => true | _ => false end in
      let k := classify_send c s b in
      let acc1 := bump acc k in
      let acc2 := if Nat.eqb k 0 && last then bump acc1 6
                  else if negb (Nat.eqb k 0) && (1 <? s_cnt s) then bump acc1 7 else acc1 in
      let acc3 := if negb (Nat.eqb k 0) && (s_cnt s =? 1) then bump acc2 9 else acc2 in
      stats_send c (step c s b i_pos last) r true acc3
  end.

Fixpoint stats_recv (ms : list rmsg) (i : nat) (fuel : nat) (acc : list N) : list N :=
  match fuel with
  | O => acc
  | S f =>
      let m := nth i ms rdflt in
      if r_n m =? 0 then bump acc 12 else
      match r_ctl m with
      | None => bump acc 14
      | Some g => stats_recv ms (S i) f (bump acc (if 0 <? g then 10 else 11))
      end
  end.

Definition stats_case (acc : list N) (k : case) : list N :=
  match k with
  | SendCase s => stats_send (sc_cfg s) st0 (sc_bufs s) false acc
  | RecvCase r =>
      let acc1 := stats_recv (rc_in r) (rc_first r) (length (rc_in r) - rc_first r) acc in
      let '(_, n, e) := split (rc_in r) (rc_first r) in
      let acc2 := if e =? 1 then bump acc1 13 else acc1 in
      set_nth acc2 15 (nth 15 acc2 0 + N.of_nat n)
  | LoopCase l =>
      (* 17: send-loop cases; 18: partial writes in them; 19: injected failures *)
      let parts := N.of_nat (length (filter (fun r => match r with WOk k => Nat.ltb k (lc_len l) | WErr => false end) (lc_oracle l))) in
      let errs := N.of_nat (length (filter (fun r => match r with WErr => true | _ => false end) (lc_oracle l))) in
      set_nth (set_nth (bump acc 17) 18 (nth 18 acc 0 + parts)) 19 (nth 19 acc 0 + errs)
  end.

Definition stats (ks : list case) : list N :=
  fold_left stats_case ks [0;0;0;0;0;0;0;0;0;0;0;0;0;0;0;0;0;0;0;0].
