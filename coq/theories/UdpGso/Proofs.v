(* C18: proofs about the mirror of coalesceMessages / splitCoalescedMessages
   against the kernel model of KernelSpec.v. *)
From WG Require Import Base.Prelude Gen.Constants UdpGso.Model UdpGso.OldModel UdpGso.KernelSpec.
Local Open Scope N_scope.

(* ------------------------------------------------------------------ *)
(* small facts                                                          *)
(* ------------------------------------------------------------------ *)

Lemma len_nil {A} : len (@nil A) = 0.
Proof. reflexivity. Qed.
Lemma len_cons {A} (x : A) l : len (x :: l) = 1 + len l.
Proof. unfold len. cbn [length]. lia. Qed.
Lemma len_app {A} (a b : list A) : len (a ++ b) = len a + len b.
Proof. unfold len. rewrite app_length. lia. Qed.
Lemma len_0 {A} (l : list A) : len l = 0 -> l = [].
Proof. destruct l; [reflexivity|]. rewrite len_cons. lia. Qed.
Lemma len_length {A} (l : list A) : N.to_nat (len l) = length l.
Proof. unfold len. lia. Qed.

Lemma max_payload_small c : max_payload c < 65536.
Proof. unfold max_payload. destruct (c_is6 c); vm_compute; reflexivity. Qed.

Lemma list_eqb_refl l : list_eqb l l = true.
Proof. induction l as [|x l IH]; cbn; [reflexivity|]. now rewrite N.eqb_refl, IH. Qed.

Lemma concat_bound (g : list (list N)) s :
  (forall d, In d g -> len d <= s) -> len (concat g) <= s * len g.
Proof.
  induction g as [|d g IH]; intros H; cbn [concat].
  - rewrite !len_nil. lia.
  - rewrite len_app, len_cons.
    assert (len d <= s) by (apply H; left; reflexivity).
    assert (len (concat g) <= s * len g) by (apply IH; intros; apply H; right; assumption).
    lia.
Qed.

Lemma in_split_last {A} (g : list A) (d : A) x : g <> [] -> In x g -> In x (removelast g) \/ x = last g d.
Proof.
  intros Hne Hin. rewrite (app_removelast_last d Hne) in Hin.
  apply in_app_or in Hin as [H|[H|[]]]; auto.
Qed.

(* ------------------------------------------------------------------ *)
(* kernel segmentation of a well-formed group                           *)
(* ------------------------------------------------------------------ *)

Lemma chunks_step f s (l : list N) : l <> [] -> chunks (S f) s l = firstn s l :: chunks f s (skipn s l).
Proof. destruct l; [congruence|reflexivity]. Qed.

Lemma chunks_group : forall (ds : list (list N)) s fuel,
  (0 < s)%nat -> ds <> [] ->
  (forall d, In d (removelast ds) -> length d = s) ->
  (0 < length (last ds []) <= s)%nat -> (length (concat ds) <= fuel)%nat ->
  chunks fuel s (concat ds) = ds.
Proof.
  induction ds as [|d ds IH]; intros s fuel Hs Hne Hall Hlast Hfuel; [congruence|].
  destruct ds as [|d' ds'].
  - cbn in *. rewrite app_nil_r in *. destruct fuel; [lia|].
    rewrite chunks_step by (destruct d; cbn in *; [lia|discriminate]).
    rewrite firstn_all2 by lia. rewrite skipn_all2 by lia.
    destruct fuel; reflexivity.
  - assert (Hd: length d = s) by (apply Hall; cbn; auto).
    cbn [concat] in *. rewrite app_length in Hfuel.
    destruct fuel; [lia|].
    rewrite chunks_step by (destruct d; cbn in *; [lia|discriminate]).
    rewrite <- Hd. rewrite firstn_app, Nat.sub_diag, firstn_all, firstn_O, app_nil_r.
    rewrite skipn_app, Nat.sub_diag, skipn_all. cbn [skipn app].
    f_equal. rewrite Hd. apply IH; auto; try discriminate.
    + intros d0 Hin. apply Hall. cbn. right. exact Hin.
    + lia.
Qed.

(* the facts about the datagrams [g] merged into one message with segment size [gs] *)
(* a message of one datagram may be empty; merged datagrams never are *)
Record grp (gs : N) (g : list (list N)) : Prop := {
  g_ne : g <> [];
  g_pos : (1 < length g)%nat -> 0 < gs;
  g_hd : len (hd [] g) = gs;
  g_eq : forall d, In d (removelast g) -> len d = gs;
  g_last : len (last g []) <= gs;
  g_lastpos : (1 < length g)%nat -> 0 < len (last g []);
}.

Lemma grp_all_le gs g : grp gs g -> forall d, In d g -> len d <= gs.
Proof.
  intros G d Hin. destruct (in_split_last g [] d (g_ne _ _ G) Hin) as [H|H].
  - rewrite (g_eq _ _ G d H). lia.
  - subst. apply (g_last _ _ G).
Qed.

Lemma grp_all_pos gs g : grp gs g -> (1 < length g)%nat -> forall d, In d g -> 0 < len d.
Proof.
  intros G H1 d Hin. destruct (in_split_last g [] d (g_ne _ _ G) Hin) as [H|H].
  - rewrite (g_eq _ _ G d H). apply (g_pos _ _ G H1).
  - subst. apply (g_lastpos _ _ G H1).
Qed.

Lemma grp_total_gt gs g : grp gs g -> (1 < length g)%nat -> gs < len (concat g).
Proof.
  intros G H. destruct g as [|a [|b r]]; cbn [length] in H; try lia.
  pose proof (g_hd _ _ G) as Hh. cbn [hd] in Hh.
  assert (0 < len b) by (apply (grp_all_pos _ _ G); [cbn [length]; lia|right; left; reflexivity]).
  cbn [concat]. rewrite !len_app. lia.
Qed.

Lemma kernel_group gs g :
  grp gs g ->
  kernel_gso_send (concat g) (if (1 <? length g)%nat then Some gs else None) = g.
Proof.
  intros G. destruct (1 <? length g)%nat eqn:E.
  - apply Nat.ltb_lt in E. unfold kernel_gso_send.
    pose proof (grp_total_gt _ _ G E) as Ht. pose proof (g_pos _ _ G E) as Hp.
    replace (gs =? 0) with false by (symmetry; apply N.eqb_neq; lia).
    replace (len (concat g) <=? gs) with false by (symmetry; apply N.leb_gt; lia).
    cbn [orb]. apply chunks_group.
    + lia.
    + apply (g_ne _ _ G).
    + intros d Hd. pose proof (g_eq _ _ G d Hd). unfold len in *. lia.
    + pose proof (g_last _ _ G). pose proof (g_lastpos _ _ G E). unfold len in *. lia.
    + lia.
  - apply Nat.ltb_ge in E. destruct g as [|a [|b r]]; cbn [length] in E; try lia.
    + exfalso. apply (g_ne _ _ G). reflexivity.
    + cbn. now rewrite app_nil_r.
Qed.

(* ------------------------------------------------------------------ *)
(* send side: invariant of the coalescing loop                          *)
(* ------------------------------------------------------------------ *)

Definition wf_cfg (c : cfg) : Prop := len (c_src c) + conn_gsoControlSize <= c_oobcap c.
(* a Go slice: len <= cap (it may be empty) *)
Definition wf_buf (b : buf) : Prop := len (b_data b) <= b_cap b.

Section Send.
Variable c : cfg.
Variable all : list buf.
Hypothesis Hwf : wf_cfg c.

(* message [m] carries the datagrams [g] with segment size [gs] *)
Record carries (gs : N) (m : msg) (g : list (list N)) : Prop := {
  k_grp : grp gs g;
  k_data : m_data m = concat g;
  k_cap : len (concat g) <= m_cap m;
  k_64 : len g <= conn_udpSegmentMaxDatagrams;
  k_tot : length g = 1%nat \/ len (concat g) <= max_payload c;
  k_oob : m_oob m = c_src c;
  k_addr : m_addr m = c_addr c;
  k_first : exists b, In b all /\ m_cap m = b_cap b /\ hd [] g = b_data b;
}.

(* a finished message: the control message is there iff more than one datagram was merged *)
Definition closed_ok (m : msg) (g : list (list N)) : Prop :=
  exists gs, carries gs m g /\ m_gso m = if (1 <? length g)%nat then [gs] else [].

Definition open_ok (s : st) (m : msg) (g : list (list N)) : Prop :=
  carries (s_gso s) m g /\ s_cnt s = len g /\ (s_end s = false -> len (last g []) = s_gso s).

Lemma set_src_ok : set_src c [] = c_src c.
Proof.
  unfold set_src. unfold wf_cfg in Hwf.
  destruct (c_oobcap c <? len (c_src c)) eqn:E; [|reflexivity].
  apply N.ltb_lt in E. pose proof (N.le_0_l conn_gsoControlSize). lia.
Qed.

Lemma set_gso_ok m gs g :
  carries gs m g -> (1 < length g)%nat -> m_gso m = [] ->
  closed_ok (set_gso c m gs) g.
Proof.
  intros K H1 Hg. unfold set_gso. rewrite Hg, (k_oob _ _ _ K). change (len (@nil N)) with 0.
  unfold wf_cfg in Hwf.
  destruct (c_oobcap c - (len (c_src c) + conn_gsoControlSize * 0) <? conn_gsoControlSize) eqn:E.
  { apply N.ltb_lt in E. lia. }
  exists gs. split.
  - destruct K. constructor; cbn [m_data m_cap m_oob m_addr]; try assumption; reflexivity.
  - cbn [m_gso app]. replace (1 <? length g)%nat with true by (symmetry; apply Nat.ltb_lt; exact H1).
    assert (gs < 65536).
    { pose proof (grp_total_gt _ _ (k_grp _ _ _ K) H1). pose proof (max_payload_small c).
      destruct (k_tot _ _ _ K); lia. }
    rewrite N.mod_small by assumption. reflexivity.
Qed.

Lemma closed_single m gs g : carries gs m g -> length g = 1%nat -> m_gso m = [] -> closed_ok m g.
Proof. intros K H Hg. exists gs. split; [exact K|]. rewrite H. exact Hg. Qed.

Lemma fresh_open s b :
  wf_buf b -> In b all ->
  match s_cur (fresh c s b) with
  | Some m => open_ok (fresh c s b) m [b_data b] /\ m_gso m = []
  | None => False
  end.
Proof.
  intros Hb2 Hin. unfold wf_buf in Hb2. cbn [fresh s_cur]. split; [|reflexivity].
  unfold open_ok. cbn [s_gso s_cnt s_end fresh]. split; [|split].
  - constructor; cbn [m_data m_cap m_oob m_addr concat length]; try rewrite app_nil_r.
    + constructor; cbn [hd last removelast length]; try discriminate; try lia. intros d [].
    + reflexivity.
    + exact Hb2.
    + rewrite len_cons, len_nil. vm_compute. discriminate.
    + left. reflexivity.
    + apply set_src_ok.
    + reflexivity.
    + exists b. auto.
  - rewrite len_cons, len_nil. reflexivity.
  - intros _. reflexivity.
Qed.

Lemma join_open s m g b :
  open_ok s m g -> wf_buf b -> can_join c s m b = true ->
  let m1 := {| m_data := m_data m ++ b_data b; m_cap := m_cap m; m_oob := m_oob m;
               m_gso := m_gso m; m_addr := m_addr m |} in
  let s1 := {| s_done := s_done s; s_cur := Some m1; s_gso := s_gso s; s_cnt := s_cnt s + 1;
               s_end := if len (b_data b) <? s_gso s then true else s_end s |} in
  open_ok s1 m1 (g ++ [b_data b]).
Proof.
  intros (K & Hcnt & Hend) Hb2 Hj. unfold can_join in Hj.
  rewrite !andb_true_iff in Hj. destruct Hj as (((((J0 & J1) & J2) & J3) & J4) & J5).
  apply N.leb_le in J1, J2, J3. apply N.ltb_lt in J0, J4. apply negb_true_iff in J5.
  specialize (Hend J5). destruct K as [G Kd Kc K64 Kt Ko Ka Kf]. rewrite Kd in *.
  intros m1 s1. unfold open_ok. cbn [s_gso s_cnt s_end s1].
  assert (Hne : g <> []) by apply (g_ne _ _ G).
  split; [|split].
  - constructor; cbn [m_data m_cap m_oob m_addr m1].
    + constructor.
      * destruct g; discriminate.
      * intros _. lia.
      * destruct g; [congruence|]. cbn [app hd]. apply (g_hd _ _ G).
      * rewrite removelast_last. intros d Hd.
        destruct (in_split_last g [] d Hne Hd) as [H|H]; [apply (g_eq _ _ G d H)|subst; exact Hend].
      * rewrite last_last. lia.
      * intros _. rewrite last_last. lia.
    + rewrite concat_app. cbn [concat]. now rewrite app_nil_r.
    + rewrite concat_app, len_app. cbn [concat]. rewrite app_nil_r. lia.
    + rewrite len_app, len_cons, len_nil. lia.
    + right. rewrite concat_app, len_app. cbn [concat]. rewrite app_nil_r. lia.
    + exact Ko.
    + exact Ka.
    + destruct Kf as (b0 & H1 & H2 & H3). exists b0. split; [exact H1|]. split; [exact H2|].
      destruct g; [congruence|]. exact H3.
  - rewrite len_app, len_cons, len_nil. lia.
  - rewrite last_last. destruct (len (b_data b) <? s_gso s) eqn:E; [discriminate|].
    intros _. apply N.ltb_ge in E. lia.
Qed.

Lemma open_ok_len2 s m g b : open_ok s m g -> (1 < length (g ++ [b]))%nat.
Proof. intros (K & _). pose proof (g_ne _ _ (k_grp _ _ _ K)). destruct g; [congruence|]. cbn. rewrite app_length. cbn. lia. Qed.

(* the loop, from a state whose open message may still lack its control message *)
Lemma loop_ok : forall bufs s m g gdone,
  s_cur s = Some m -> open_ok s m g ->
  Forall2 closed_ok (rev (s_done s)) gdone ->
  (bufs = [] -> m_gso m = if (1 <? length g)%nat then [s_gso s] else []) ->
  (bufs <> [] -> m_gso m = []) ->
  Forall wf_buf bufs -> incl bufs all ->
  exists gs, Forall2 closed_ok (msgs_of (loop c s bufs true)) gs /\
             concat gs = concat gdone ++ g ++ map b_data bufs.
Proof.
  induction bufs as [|b r IH]; intros s m g gdone Hcur Hopen Hdone Hg0 Hg1 Hwfb Hincl.
  - cbn [loop map]. unfold msgs_of. rewrite Hcur.
    exists (gdone ++ [g]). split.
    + apply Forall2_app; [exact Hdone|]. constructor; [|constructor].
      exists (s_gso s). split; [apply Hopen|]. apply Hg0. reflexivity.
    + rewrite concat_app. cbn [concat]. now rewrite !app_nil_r.
  - inversion Hwfb as [|? ? Hb Hr]; subst.
    assert (Hinb : In b all) by (apply Hincl; left; reflexivity).
    assert (Hincl' : incl r all) by (intros x Hx; apply Hincl; right; exact Hx).
    specialize (Hg1 ltac:(discriminate)).
    cbn [loop]. unfold step. rewrite Hcur.
    destruct (can_join c s m b) eqn:Ej.
    + (* joined *)
      pose proof (join_open s m g b Hopen Hb Ej) as Hopen'. cbn zeta in Hopen'.
      set (m1 := {| m_data := m_data m ++ b_data b; m_cap := m_cap m; m_oob := m_oob m;
                    m_gso := m_gso m; m_addr := m_addr m |}) in *.
      destruct r as [|b' r'].
      * (* last buffer: control message set now *)
        cbn [loop]. unfold msgs_of. cbn [s_done s_cur].
        destruct Hopen' as (K' & Hc' & He').
        assert (H2 : (1 < length (g ++ [b_data b]))%nat) by (eapply open_ok_len2; exact Hopen).
        pose proof (set_gso_ok m1 (s_gso s) _ K' H2 Hg1) as Hcl.
        exists (gdone ++ [g ++ [b_data b]]). split.
        { apply Forall2_app; [exact Hdone|]. constructor; [exact Hcl|constructor]. }
        { rewrite concat_app. cbn [concat map]. rewrite ?app_nil_r, <- ?app_assoc; reflexivity. }
      * match goal with |- context [loop c ?s1 _ true] => set (s1' := s1) end.
        destruct (IH s1' m1 (g ++ [b_data b]) gdone) as (gs & H1 & H2); auto.
        { discriminate. }
        exists gs. split; [exact H1|]. rewrite H2. cbn [map]. rewrite <- ?app_assoc; reflexivity.
    + (* new message *)
      pose proof (fresh_open s b Hb Hinb) as Hf.
      destruct (s_cur (fresh c s b)) as [m'|] eqn:Ecur'; [|contradiction].
      destruct Hf as [Hopen' Hg'].
      assert (Hdone' : Forall2 closed_ok (rev (s_done (fresh c s b))) (gdone ++ [g])).
      { cbn [fresh s_done]. rewrite Hcur. cbn [app rev].
        apply Forall2_app; [exact Hdone|]. constructor; [|constructor].
        destruct Hopen as (K & Hc & He).
        destruct (1 <? s_cnt s) eqn:E1.
        - apply set_gso_ok; auto. apply N.ltb_lt in E1. rewrite Hc in E1. unfold len in E1. lia.
        - apply (closed_single _ (s_gso s)); auto. apply N.ltb_ge in E1. rewrite Hc in E1.
          pose proof (g_ne _ _ (k_grp _ _ _ K)). destruct g; [congruence|]. unfold len in E1. cbn [length] in *. lia. }
      destruct (IH (fresh c s b) m' [b_data b] (gdone ++ [g])) as (gs & H1 & H2); auto.
      exists gs. split; [exact H1|]. rewrite H2, concat_app. cbn [concat map app].
      rewrite ?app_nil_r, <- ?app_assoc; reflexivity.
Qed.

Lemma coalesce_ok bufs :
  Forall wf_buf bufs -> incl bufs all ->
  exists gs, Forall2 closed_ok (coalesce c bufs) gs /\ concat gs = map b_data bufs.
Proof.
  intros Hwfb Hincl. unfold coalesce. destruct bufs as [|b r].
  - exists []. split; [constructor|reflexivity].
  - inversion Hwfb as [|? ? Hb Hr]; subst.
    assert (Hinb : In b all) by (apply Hincl; left; reflexivity).
    cbn [loop]. unfold step. cbn [s_cur st0].
    pose proof (fresh_open st0 b Hb Hinb) as Hf.
    destruct (s_cur (fresh c st0 b)) as [m'|] eqn:Ecur'; [|contradiction].
    destruct Hf as [Hopen' Hg'].
    destruct (loop_ok r (fresh c st0 b) m' [b_data b] []) as (gs & H1 & H2); auto.
    + constructor.
    + intros x Hx. apply Hincl. right. exact Hx.
    + exists gs. split; [exact H1|]. rewrite H2. reflexivity.
Qed.

Lemma closed_kernel m g : closed_ok m g -> kernel_send m = g.
Proof.
  intros (gs & K & Hg). unfold kernel_send, gso_of. rewrite Hg, (k_data _ _ _ K).
  pose proof (kernel_group gs g (k_grp _ _ _ K)) as H.
  destruct (1 <? length g)%nat; exact H.
Qed.

Lemma closed_limits m g :
  closed_ok m g -> len (hd [] g) <= max_payload c -> msg_limitsb c m = true.
Proof.
  intros Hc Hfit. pose proof (closed_kernel m g Hc) as Hk. destruct Hc as (gs & K & Hg).
  pose proof (k_grp _ _ _ K) as G.
  assert (Htot : len (concat g) <= max_payload c).
  { destruct (k_tot _ _ _ K) as [H|H]; [|exact H].
    destruct g as [|a [|? ?]]; cbn [length] in H; try lia. cbn in *. now rewrite app_nil_r. }
  unfold msg_limitsb. rewrite Hk. unfold kernel_accepts, gso_of. rewrite Hg, (k_data _ _ _ K).
  rewrite !andb_true_iff. repeat split.
  - apply N.leb_le. exact Htot.
  - destruct (1 <? length g)%nat; cbn [rev app]; [|reflexivity].
    apply orb_true_iff. right. apply N.leb_le.
    pose proof (concat_bound g gs (fun d H => grp_all_le _ _ G d H)).
    pose proof (k_64 _ _ _ K). nia.
  - apply N.leb_le. apply (k_64 _ _ _ K).
  - unfold all_but_last_eq. apply forallb_forall. intros d Hd. apply N.eqb_eq.
    rewrite (g_eq _ _ G d Hd). symmetry. apply (g_hd _ _ G).
  - apply N.leb_le. exact Htot.
  - apply N.leb_le. apply (k_cap _ _ _ K).
Qed.

Lemma closed_addr m g : closed_ok m g -> msg_addrb c m = true.
Proof.
  intros (gs & K & _). unfold msg_addrb. rewrite (k_oob _ _ _ K), (k_addr _ _ _ K).
  now rewrite N.eqb_refl, list_eqb_refl.
Qed.

End Send.

(* every datagram reaches the wire as its own datagram, unchanged, in order *)
Theorem send_transparent c bufs :
  wf_cfg c -> Forall wf_buf bufs ->
  flat_map kernel_send (coalesce c bufs) = map b_data bufs.
Proof.
  intros Hc Hb. destruct (coalesce_ok c bufs Hc bufs Hb (incl_refl _)) as (gs & H1 & H2).
  rewrite <- H2. clear H2. induction H1 as [|m g ms gs' Hm _ IH]; [reflexivity|].
  cbn [flat_map concat]. rewrite IH. f_equal. eapply closed_kernel; eauto.
Qed.

(* merged runs respect the kernel's limits; the message is addressed to the
   endpoint with the sticky source control in front; its buffer is the first
   datagram's buffer and nothing is written beyond its capacity *)
Theorem send_limits c bufs :
  wf_cfg c -> Forall wf_buf bufs -> Forall (fun b => len (b_data b) <= max_payload c) bufs ->
  Forall (fun m => msg_limitsb c m = true /\ msg_addrb c m = true /\
                   exists b, In b bufs /\ m_cap m = b_cap b /\ len (m_data m) <= b_cap b /\
                             firstn (length (b_data b)) (m_data m) = b_data b)
         (coalesce c bufs).
Proof.
  intros Hc Hb Hfit. destruct (coalesce_ok c bufs Hc bufs Hb (incl_refl _)) as (gs & H1 & _).
  induction H1 as [|m g ms gs' Hm _ IH]; constructor; [|exact IH].
  pose proof Hm as (gs0 & K & _).
  destruct (k_first _ _ _ _ _ K) as (b & Hin & Hcap & Hhd).
  split; [|split].
  - eapply closed_limits; eauto. rewrite Hhd. rewrite Forall_forall in Hfit. apply Hfit. exact Hin.
  - eapply closed_addr; eauto.
  - exists b. split; [exact Hin|]. split; [exact Hcap|]. split.
    + rewrite (k_data _ _ _ _ _ K), <- Hcap. apply (k_cap _ _ _ _ _ K).
    + rewrite (k_data _ _ _ _ _ K). pose proof (g_ne _ _ (k_grp _ _ _ _ _ K)).
      destruct g as [|a r]; [congruence|]. cbn [hd concat] in *. subst a.
      rewrite firstn_app, Nat.sub_diag, firstn_all. cbn [firstn]. now rewrite app_nil_r.
Qed.

(* F4 (send side, history).  For the code BEFORE ba89367 (OldModel.v) the
   statement was false: a zero-length datagram after a non-empty one was
   appended to the previous message and was not on the wire.  With the repair
   mirrored in Model.v the hypothesis "non-empty" is gone from
   [send_transparent] above. *)
Definition f4_cfg : cfg := {| c_is6 := false; c_src := []; c_oobcap := 64; c_addr := 1 |}.
Definition f4_bufs : list buf :=
  [ {| b_data := [1;1;1]; b_cap := 100 |}; {| b_data := [2;2;2]; b_cap := 100 |};
    {| b_data := []; b_cap := 100 |}; {| b_data := [3;3;3]; b_cap := 100 |}; {| b_data := [4;4]; b_cap := 100 |} ].

Theorem old_coalesce_drops_empty_refuted :
  exists c bufs, wf_cfg c /\ Forall wf_buf bufs /\
    flat_map kernel_send (old_coalesce c bufs) <> map b_data bufs /\
    flat_map kernel_send (old_coalesce c bufs) = filter (fun d => negb (len d =? 0)) (map b_data bufs).
Proof.
  exists f4_cfg, f4_bufs. split; [vm_compute; discriminate|]. split.
  - repeat constructor; vm_compute; discriminate.
  - split; [vm_compute; discriminate|vm_compute; reflexivity].
Qed.

Corollary old_send_transparent_any_size_refuted :
  ~ (forall c bufs, wf_cfg c -> Forall wf_buf bufs ->
       flat_map kernel_send (old_coalesce c bufs) = map b_data bufs).
Proof.
  intros H. destruct old_coalesce_drops_empty_refuted as (c & bufs & H1 & H2 & H3 & _).
  apply H3. apply H; assumption.
Qed.

(* the same batch with the repaired code: the empty datagram is a message of
   its own (no control message), the run after it starts afresh *)
Example fixed_coalesce_keeps_empty :
  map (fun m => (m_data m, m_gso m)) (coalesce f4_cfg f4_bufs) =
    [ ([1;1;1;2;2;2], [3]); ([], []); ([3;3;3;4;4], [3]) ] /\
  flat_map kernel_send (coalesce f4_cfg f4_bufs) = map b_data f4_bufs.
Proof. split; vm_compute; reflexivity. Qed.

(* ------------------------------------------------------------------ *)
(* receive side                                                         *)
(* ------------------------------------------------------------------ *)

Ltac len0 := repeat match goal with |- context [len (@nil ?A)] => change (len (@nil A)) with 0 end.

Definition view (m : rmsg) : list N * N := (firstn (N.to_nat (r_n m)) (r_buf m), r_addr m).

Lemma slice_mid (pre d rest : list N) : slice (pre ++ d ++ rest) (len pre) (len pre + len d) = d.
Proof.
  unfold slice. replace (len pre + len d - len pre) with (len d) by lia.
  rewrite !len_length. rewrite skipn_app, skipn_all, Nat.sub_diag. cbn [skipn app].
  rewrite firstn_app, firstn_all, Nat.sub_diag. cbn [firstn]. now rewrite app_nil_r.
Qed.

Lemma copy_into_fit (dst src : list N) :
  len src <= len dst -> copy_into dst src = (src ++ skipn (length src) dst, len src).
Proof.
  intros H. unfold copy_into. rewrite N.min_r by exact H. rewrite len_length.
  now rewrite firstn_all.
Qed.

Lemma len_copied (dst src : list N) : len src <= len dst -> len (src ++ skipn (length src) dst) = len dst.
Proof. intros H. unfold len in *. rewrite app_length, skipn_length. lia. Qed.

(* datagrams after the first of a train: all of size gso, the last one 1..gso *)
Fixpoint tail_ok (gso : N) (l : list (list N)) : Prop :=
  match l with
  | [] => True
  | d :: r => match r with [] => 0 < len d <= gso | _ => len d = gso /\ tail_ok gso r end
  end.

Lemma tail_ok_of : forall r d s,
  (forall x, In x (removelast (d :: r)) -> len x = s) ->
  (r <> [] -> 0 < len (last (d :: r) []) <= s) -> tail_ok s r.
Proof.
  induction r as [|d' r IH]; intros d s Hall Hlast; [exact I|].
  cbn [tail_ok]. destruct r as [|d'' r'].
  - apply Hlast. discriminate.
  - split.
    + apply Hall. cbn. right. left. reflexivity.
    + apply (IH d'); [|intros _; apply Hlast; discriminate].
      intros x Hx. apply Hall. cbn [removelast] in *. right. exact Hx.
Qed.

Lemma train_tail g : train_ok g -> exists d r, g = d :: r /\ 0 < len d /\ tail_ok (len d) r.
Proof.
  intros (Hne & Hall & Hlast & _). destruct g as [|d r]; [congruence|].
  exists d, r. cbn [hd] in *. split; [reflexivity|]. split.
  - lia.
  - apply (tail_ok_of r d); [exact Hall|intros _; exact Hlast].
Qed.

Lemma tail_total : forall r s, tail_ok s r -> r <> [] ->
  exists q l, len (concat r) = q * s + l /\ 0 < l <= s /\ len r = q + 1.
Proof.
  induction r as [|d r IH]; intros s H Hne; [congruence|].
  cbn [tail_ok] in H. destruct r as [|d' r'].
  - exists 0, (len d). cbn [concat]. rewrite app_nil_r, len_cons. len0. lia.
  - destruct H as [Hd Ht]. destruct (IH s Ht ltac:(discriminate)) as (q & l & H1 & H2 & H3).
    exists (q + 1), l. cbn [concat] in *. rewrite len_app, H1, Hd. rewrite (len_cons d), H3. lia.
Qed.

Lemma div_ceil q s l : 0 < l <= s -> ((q + 1) * s + l + s - 1) / s = q + 2.
Proof.
  intros H. replace ((q + 1) * s + l + s - 1) with ((q + 1) * s + (l + s - 1)) by lia.
  rewrite N.div_add_l by lia.
  assert ((l + s - 1) / s = 1).
  { symmetry. apply (N.div_unique _ _ 1 (l - 1)); lia. }
  lia.
Qed.

Lemma num_to_split d r : 0 < len d -> tail_ok (len d) r -> r <> [] ->
  N.to_nat ((len (concat (d :: r)) + len d - 1) / len d) = length (d :: r).
Proof.
  intros Hd Ht Hne. destruct (tail_total r (len d) Ht Hne) as (q & l & H1 & H2 & H3).
  cbn [concat]. rewrite len_app, H1.
  replace (len d + (q * len d + l) + len d - 1) with ((q + 1) * len d + l + len d - 1) by lia.
  rewrite div_ceil by exact H2. cbn [length]. unfold len in H3. lia.
Qed.

Lemma split_inner_ok : forall rest ms n pre end_ i gso mx junk,
  (i < length ms)%nat ->
  (n + length rest <= S i)%nat ->
  r_buf (nth i ms rdflt) = pre ++ concat rest ++ junk ->
  r_n (nth i ms rdflt) = len pre + len (concat rest) ->
  tail_ok gso (tl rest) ->
  match rest with d :: _ => end_ = len pre + len d | [] => True end ->
  (forall d, In d rest -> len d <= mx) ->
  (forall j, (j < length ms)%nat -> mx <= len (r_buf (nth j ms rdflt))) ->
  exists ms',
    split_inner (length rest) i gso ms n (len pre) end_ = (ms', (n + length rest)%nat, 0) /\
    length ms' = length ms /\
    (forall j, (j < n)%nat -> nth j ms' rdflt = nth j ms rdflt) /\
    (forall j, (i < j)%nat -> nth j ms' rdflt = nth j ms rdflt) /\
    (forall k, (k < length rest)%nat ->
        view (nth (n + k) ms' rdflt) = (nth k rest [], r_addr (nth i ms rdflt))) /\
    (forall j, (j < length ms')%nat -> mx <= len (r_buf (nth j ms' rdflt))).
Proof.
  induction rest as [|d rest' IH]; intros ms n pre end_ i gso mx junk Hi Hn HB HN Ht Hend Hmx Hbuf.
  - exists ms. cbn [length split_inner]. rewrite Nat.add_0_r.
    repeat split; auto. intros k Hk. cbn in Hk. lia.
  - cbn [length] in Hn. subst end_. cbn [length split_inner].
    replace (i <? n)%nat with false by (symmetry; apply Nat.ltb_ge; lia).
    cbn [concat] in HB, HN. rewrite len_app in HN.
    assert (Hpanic : (len (r_buf (nth i ms rdflt)) <? len pre + len d) = false).
    { apply N.ltb_ge. rewrite HB, !len_app. lia. }
    rewrite Hpanic. rewrite HB, <- app_assoc, slice_mid.
    assert (Hnlt : (n < length ms)%nat) by lia.
    assert (Hd : len d <= mx) by (apply Hmx; left; reflexivity).
    rewrite copy_into_fit by (specialize (Hbuf n Hnlt); lia).
    set (w := {| r_buf := d ++ skipn (length d) (r_buf (nth n ms rdflt)); r_n := len d;
                 r_ctl := r_ctl (nth n ms rdflt); r_addr := r_addr (nth i ms rdflt) |}).
    set (ms1 := set_nth ms n w).
    assert (Hlen1 : length ms1 = length ms) by apply set_nth_length.
    assert (Hw : nth n ms1 rdflt = w).
    { unfold ms1. rewrite nth_set_nth, Nat.eqb_refl.
      replace (n <? length ms)%nat with true by (symmetry; apply Nat.ltb_lt; lia). reflexivity. }
    assert (Hother : forall j, j <> n -> nth j ms1 rdflt = nth j ms rdflt).
    { intros j Hj. unfold ms1. rewrite nth_set_nth.
      replace (j =? n)%nat with false by (symmetry; apply Nat.eqb_neq; exact Hj). reflexivity. }
    assert (Hvw : view w = (d, r_addr (nth i ms rdflt))).
    { unfold view, w. cbn [r_n r_buf r_addr]. rewrite len_length, firstn_app, firstn_all, Nat.sub_diag.
      cbn [firstn]. now rewrite app_nil_r. }
    assert (Hbuf1 : forall j, (j < length ms1)%nat -> mx <= len (r_buf (nth j ms1 rdflt))).
    { intros j Hj. destruct (Nat.eq_dec j n) as [->|Hne].
      - rewrite Hw. unfold w. cbn [r_buf]. rewrite len_copied; [apply Hbuf; lia|].
        specialize (Hbuf n Hnlt). lia.
      - rewrite Hother by exact Hne. apply Hbuf. lia. }
    destruct (Nat.eq_dec n i) as [Heq|Hneq].
    + (* the last segment lands on the source message itself *)
      assert (rest' = []) by (destruct rest'; [reflexivity|cbn [length] in Hn; lia]). subst rest'.
      cbn [length split_inner]. exists ms1.
      split; [f_equal; f_equal; lia|]. split; [exact Hlen1|].
      split; [intros j Hj; apply Hother; lia|].
      split; [intros j Hj; apply Hother; lia|].
      split; [|exact Hbuf1].
      intros k Hk. cbn [length] in Hk. assert (k = 0%nat) by lia. subst k.
      rewrite Nat.add_0_r, Hw. cbn [nth]. exact Hvw.
    + assert (Hi1 : nth i ms1 rdflt = nth i ms rdflt) by (apply Hother; lia).
      rewrite Hi1.
      specialize (IH ms1 (S n) (pre ++ d)
                    (if r_n (nth i ms rdflt) <? len pre + len d + gso then r_n (nth i ms rdflt) else len pre + len d + gso)
                    i gso mx junk).
      rewrite len_app in IH.
      destruct IH as (ms' & E & Hl & Hlo & Hhi & Hv & Hb').
      * lia.
      * lia.
      * rewrite Hi1, HB. rewrite <- !app_assoc. reflexivity.
      * rewrite Hi1, HN. lia.
      * cbn [tl] in Ht. destruct rest' as [|d' r'']; [exact I|]. cbn [tl]. cbn [tail_ok] in Ht.
        destruct r''; [exact I|apply Ht].
      * destruct rest' as [|d' r'']; [exact I|].
        cbn [tl tail_ok] in Ht. rewrite HN. cbn [concat]. rewrite len_app.
        destruct r'' as [|d'' r'''].
        { cbn [concat]. len0.
          destruct (len pre + (len d + (len d' + 0)) <? len pre + len d + gso) eqn:E; [lia|].
          apply N.ltb_ge in E. lia. }
        { destruct Ht as [Hd' _].
          replace (len pre + (len d + (len d' + len (concat (d'' :: r'''))))
                   <? len pre + len d + gso) with false; [lia|].
          symmetry. apply N.ltb_ge. lia. }
      * intros x Hx. apply Hmx. right. exact Hx.
      * exact Hbuf1.
      * exists ms'. rewrite E.
        split; [f_equal; f_equal; lia|]. split; [lia|].
        split; [intros j Hj; rewrite Hlo by lia; apply Hother; lia|].
        split; [intros j Hj; rewrite Hhi by lia; apply Hother; lia|].
        split; [|exact Hb'].
        intros k Hk. destruct k as [|k'].
        { rewrite Nat.add_0_r, Hlo by lia. rewrite Hw. cbn [nth]. exact Hvw. }
        { cbn [length] in Hk. replace (n + S k')%nat with (S n + k')%nat by lia.
          rewrite Hv by lia. rewrite Hi1. reflexivity. }
Qed.

(* trains with their senders; the datagrams they stand for *)
Definition dgrams_of (trains : list (list (list N) * N)) : list (list N * N) :=
  flat_map (fun t => map (fun d => (d, snd t)) (fst t)) trains.

Lemma dgrams_cons g a rest : dgrams_of ((g, a) :: rest) = map (fun d => (d, a)) g ++ dgrams_of rest.
Proof. reflexivity. Qed.

Lemma clear_step ms1 i n1 :
  let ms2 := if Nat.eqb (S i) n1 then ms1 else set_nth ms1 i (clear_n (nth i ms1 rdflt)) in
  length ms2 = length ms1 /\
  (forall j, j <> i -> nth j ms2 rdflt = nth j ms1 rdflt) /\
  (S i = n1 -> ms2 = ms1) /\
  (forall j, r_buf (nth j ms2 rdflt) = r_buf (nth j ms1 rdflt)).
Proof.
  cbn zeta. destruct (Nat.eqb (S i) n1) eqn:E.
  - repeat split; auto.
  - apply Nat.eqb_neq in E. split; [apply set_nth_length|]. split; [|split].
    + intros j Hj. rewrite nth_set_nth.
      replace (j =? i)%nat with false by (symmetry; apply Nat.eqb_neq; exact Hj). reflexivity.
    + intros H. congruence.
    + intros j. rewrite nth_set_nth. destruct (j =? i)%nat eqn:Ej; [|reflexivity].
      apply Nat.eqb_eq in Ej. subst j. destruct (i <? length ms1)%nat; reflexivity.
Qed.

Lemma split_outer_ok : forall trains ms i n mx,
  (i + length trains <= length ms)%nat ->
  (forall t g a, nth_error trains t = Some (g, a) ->
     exists junk, nth (i + t) ms rdflt = rx_of junk a g) ->
  Forall (fun t => train_ok (fst t)) trains ->
  ((i + length trains < length ms)%nat -> r_n (nth (i + length trains) ms rdflt) = 0) ->
  (forall t, (t < length trains)%nat ->
     (n + length (dgrams_of (firstn (S t) trains)) <= i + t + 1)%nat) ->
  (forall d, In d (dgrams_of trains) -> len (fst d) <= mx) ->
  (forall j, (j < length ms)%nat -> mx <= len (r_buf (nth j ms rdflt))) ->
  exists ms',
    split_outer (length ms - i) i ms n = (ms', (n + length (dgrams_of trains))%nat, 0) /\
    length ms' = length ms /\
    (forall j, (j < n)%nat -> nth j ms' rdflt = nth j ms rdflt) /\
    (forall k, (k < length (dgrams_of trains))%nat ->
       view (nth (n + k) ms' rdflt) = nth k (dgrams_of trains) ([], 0)).
Proof.
  induction trains as [|[g a] rest IH]; intros ms i n mx Hlen Hslot Hok Hstop Hroom Hmx Hbuf.
  - exists ms. cbn [dgrams_of flat_map length] in *. rewrite Nat.add_0_r in *.
    split; [|repeat split; auto; intros k Hk; lia].
    destruct (length ms - i)%nat eqn:Ef; [reflexivity|].
    cbn [split_outer]. rewrite Hstop by lia. reflexivity.
  - cbn [length] in Hlen.
    destruct (Hslot 0%nat g a eq_refl) as (junk & Hrx). rewrite Nat.add_0_r in Hrx.
    inversion Hok as [|? ? Hg Hok']; subst. cbn [fst] in Hg.
    destruct (train_tail g Hg) as (d & r & -> & Hdpos & Htail).
    replace (length ms - i)%nat with (S (length ms - S i)) by lia.
    cbn [split_outer]. rewrite Hrx. cbn [rx_of r_n r_ctl].
    assert (Htot : 0 < len (concat (d :: r))) by (cbn [concat]; rewrite len_app; lia).
    replace (len (concat (d :: r)) =? 0) with false by (symmetry; apply N.eqb_neq; lia).
    pose proof (Hroom 0%nat ltac:(cbn [length]; lia)) as Hroom0.
    cbn [firstn] in Hroom0. rewrite dgrams_cons in Hroom0. cbn [dgrams_of flat_map] in Hroom0.
    rewrite app_nil_r, map_length in Hroom0.
    (* the inner loop *)
    assert (Hinner : exists ms1,
      split_inner
        (N.to_nat (if 0 <? (if (1 <? length (d :: r))%nat then len (hd [] (d :: r)) else 0)
                   then (len (concat (d :: r)) + (if (1 <? length (d :: r))%nat then len (hd [] (d :: r)) else 0) - 1)
                        / (if (1 <? length (d :: r))%nat then len (hd [] (d :: r)) else 0)
                   else 1))
        i (if (1 <? length (d :: r))%nat then len (hd [] (d :: r)) else 0) ms n 0
        (if 0 <? (if (1 <? length (d :: r))%nat then len (hd [] (d :: r)) else 0)
         then (if (1 <? length (d :: r))%nat then len (hd [] (d :: r)) else 0)
         else len (concat (d :: r)))
      = (ms1, (n + length (d :: r))%nat, 0) /\
      length ms1 = length ms /\
      (forall j, (j < n)%nat -> nth j ms1 rdflt = nth j ms rdflt) /\
      (forall j, (i < j)%nat -> nth j ms1 rdflt = nth j ms rdflt) /\
      (forall k, (k < length (d :: r))%nat -> view (nth (n + k) ms1 rdflt) = (nth k (d :: r) [], a)) /\
      (forall j, (j < length ms1)%nat -> mx <= len (r_buf (nth j ms1 rdflt)))).
    { assert (Hmxg : forall x, In x (d :: r) -> len x <= mx).
      { intros x Hx. apply (Hmx (x, a)). rewrite dgrams_cons. apply in_or_app. left.
        apply in_map_iff. exists x. auto. }
      assert (Ha : r_addr (nth i ms rdflt) = a) by (rewrite Hrx; reflexivity).
      rewrite <- Ha.
      change 0 with (len (@nil N)) at 3.
      cbn [hd]. destruct r as [|d' r'].
      - (* a single datagram, no UDP_GRO control message *)
        cbn [length Nat.ltb Nat.leb]. replace (0 <? 0) with false by reflexivity.
        change (N.to_nat 1) with (length [d]).
        apply (split_inner_ok [d] ms n [] _ i 0 mx junk); auto; try (cbn [length] in *; lia).
        + rewrite Hrx. reflexivity.
        + rewrite Hrx. cbn [rx_of r_n]. len0. lia.
        + cbn [concat]. rewrite app_nil_r. len0. lia.
      - replace (1 <? length (d :: d' :: r'))%nat with true by reflexivity.
        replace (0 <? len d) with true by (symmetry; apply N.ltb_lt; exact Hdpos).
        rewrite num_to_split by (auto; discriminate).
        apply (split_inner_ok (d :: d' :: r') ms n [] _ i (len d) mx junk); auto; try (cbn [length] in *; lia).
        + rewrite Hrx. reflexivity.
        + rewrite Hrx. cbn [rx_of r_n]. len0. lia. }
    destruct Hinner as (ms1 & E & Hl1 & Hlo1 & Hhi1 & Hv1 & Hb1). rewrite E.
    replace (negb (0 =? 0)) with false by reflexivity. cbv iota.
    destruct (clear_step ms1 i (n + length (d :: r))) as (Hl2 & Hne2 & Heq2 & Hbuf2).
    set (ms2 := if Nat.eqb (S i) (n + length (d :: r)) then ms1
                else set_nth ms1 i (clear_n (nth i ms1 rdflt))) in *.
    assert (Hlow2 : forall j, (j < n + length (d :: r))%nat -> nth j ms2 rdflt = nth j ms1 rdflt).
    { intros j Hj. destruct (Nat.eq_dec (S i) (n + length (d :: r))) as [H|H].
      - rewrite (Heq2 H). reflexivity.
      - apply Hne2. lia. }
    destruct (IH ms2 (S i) (n + length (d :: r))%nat mx) as (ms' & E' & Hl' & Hlo' & Hv').
    + lia.
    + intros t g' a' Ht. destruct (Hslot (S t) g' a' Ht) as (junk' & Hj). exists junk'.
      rewrite Hne2 by lia. rewrite Hhi1 by lia. rewrite <- Hj. f_equal. lia.
    + exact Hok'.
    + intros H. rewrite Hne2 by lia. rewrite Hhi1 by lia.
      replace (S i + length rest)%nat with (i + length ((d :: r, a) :: rest))%nat by (cbn [length]; lia).
      apply Hstop. cbn [length]. lia.
    + intros t Ht. specialize (Hroom (S t) ltac:(cbn [length]; lia)).
      cbn [firstn] in Hroom. rewrite dgrams_cons, app_length, map_length in Hroom.
      cbn [firstn]. lia.
    + intros x Hx. apply Hmx. rewrite dgrams_cons. apply in_or_app. right. exact Hx.
    + intros j Hj. rewrite Hbuf2. apply Hb1. lia.
    + exists ms'. replace (length ms - S i)%nat with (length ms2 - S i)%nat by lia. rewrite E'.
      rewrite dgrams_cons, app_length, map_length.
      split; [f_equal; f_equal; lia|]. split; [lia|].
      split; [intros j Hj; rewrite Hlo' by lia; rewrite Hlow2 by lia; apply Hlo1; exact Hj|].
      intros k Hk. destruct (Nat.lt_ge_cases k (length (d :: r))) as [Hk1|Hk1].
      * rewrite Hlo' by lia. rewrite Hlow2 by lia. rewrite Hv1 by exact Hk1.
        rewrite app_nth1 by (rewrite map_length; exact Hk1).
        rewrite (nth_indep _ ([], 0) ([], a)) by (rewrite map_length; exact Hk1).
        symmetry. apply (map_nth (fun x => (x, a))).
      * rewrite app_nth2 by (rewrite map_length; exact Hk1). rewrite map_length.
        replace (n + k)%nat with (n + length (d :: r) + (k - length (d :: r)))%nat by lia.
        apply Hv'. lia.
Qed.

Lemma nth_firstn_lt {A} (l : list A) n k d : (k < n)%nat -> nth k (firstn n l) d = nth k l d.
Proof.
  revert n k; induction l as [|x l IH]; intros [|n] [|k] H; cbn [firstn nth]; auto; try lia.
  apply IH. lia.
Qed.

(* the message vector receiveIP hands to splitCoalescedMessages: untouched
   slots in front (the room to split into), the messages the kernel filled,
   then slots with N = 0 *)
Definition rx_vector (front : list rmsg) (junk : list N) (trains : list (list (list N) * N))
  (back : list rmsg) : list rmsg :=
  front ++ map (fun t => rx_of junk (snd t) (fst t)) trains ++ back.

(* enough room in front: the segments of the first t+1 messages fit into the
   slots up to and including message t's own slot *)
Definition no_overflow (f : nat) (trains : list (list (list N) * N)) : Prop :=
  forall t, (t < length trains)%nat -> (length (dgrams_of (firstn (S t) trains)) <= f + t + 1)%nat.

Theorem recv_split_inverse : forall front back junk trains mx,
  Forall (fun t => train_ok (fst t)) trains ->
  match back with [] => True | m :: _ => r_n m = 0 end ->
  no_overflow (length front) trains ->
  (forall d, In d (dgrams_of trains) -> len (fst d) <= mx) ->
  Forall (fun m => mx <= len (r_buf m)) (rx_vector front junk trains back) ->
  let r := split (rx_vector front junk trains back) (length front) in
  snd r = 0 /\ received r = dgrams_of trains.
Proof.
  intros front back junk trains mx Hok Hback Hroom Hmx Hbuf.
  set (ms := rx_vector front junk trains back).
  assert (Hlen : length ms = (length front + (length trains + length back))%nat).
  { unfold ms, rx_vector. now rewrite !app_length, map_length. }
  destruct (split_outer_ok trains ms (length front) 0 mx) as (ms' & E & Hl & _ & Hv).
  - lia.
  - intros t g a Ht. exists junk. unfold ms, rx_vector.
    rewrite app_nth2 by lia. replace (length front + t - length front)%nat with t by lia.
    assert (t < length trains)%nat by (apply nth_error_Some; congruence).
    rewrite app_nth1 by (rewrite map_length; assumption).
    rewrite (nth_indep _ rdflt (rx_of junk (snd (g, a)) (fst (g, a)))) by (rewrite map_length; assumption).
    rewrite (map_nth (fun t => rx_of junk (snd t) (fst t))).
    erewrite nth_error_nth by exact Ht. reflexivity.
  - exact Hok.
  - intros H. unfold ms, rx_vector. rewrite app_nth2 by lia.
    replace (length front + length trains - length front)%nat with (length trains) by lia.
    rewrite app_nth2 by (rewrite map_length; lia). rewrite map_length, Nat.sub_diag.
    destruct back as [|m back']; [cbn [length] in *; lia|]. exact Hback.
  - intros t Ht. specialize (Hroom t Ht). lia.
  - exact Hmx.
  - intros j Hj. rewrite Forall_forall in Hbuf. apply Hbuf. apply nth_In. exact Hj.
  - intros r. unfold r, split. fold ms. rewrite E. cbn [snd]. split; [reflexivity|].
    unfold received. cbn [Nat.add] in *.
    assert (HD : (length (dgrams_of trains) <= length ms')%nat).
    { destruct trains as [|t0 tr]; [cbn; lia|].
      specialize (Hroom (length tr) ltac:(cbn [length]; lia)).
      rewrite firstn_all2 in Hroom by (cbn [length]; lia). cbn [length] in *. lia. }
    apply (nth_ext _ _ ([], 0) ([], 0)).
    + rewrite map_length, firstn_length. lia.
    + intros k Hk. rewrite map_length, firstn_length in Hk.
      rewrite <- Hv by lia.
      rewrite (nth_indep _ ([], 0) (view rdflt)) by (rewrite map_length, firstn_length; lia).
      change (fun m : rmsg => (firstn (N.to_nat (r_n m)) (r_buf m), r_addr m)) with view.
      rewrite (map_nth view). f_equal.
      apply nth_firstn_lt. lia.
Qed.

(* the layout of receiveIP: readAt = len(msgs) - IdealBatchSize/udpSegmentMaxDatagrams,
   at most IdealBatchSize/udpSegmentMaxDatagrams messages read, every train
   at most udpSegmentMaxDatagrams long: there is always room *)
Lemma real_layout_no_overflow (front : list rmsg) trains :
  length front = N.to_nat (conn_IdealBatchSize - conn_IdealBatchSize / conn_udpSegmentMaxDatagrams) ->
  (length trains <= N.to_nat (conn_IdealBatchSize / conn_udpSegmentMaxDatagrams))%nat ->
  Forall (fun t => train_ok (fst t)) trains ->
  no_overflow (length front) trains.
Proof.
  intros Hf Ht Hok t Hlt.
  assert (Hb : forall l : list (list (list N) * N), Forall (fun t => train_ok (fst t)) l ->
               (length (dgrams_of l) <= 64 * length l)%nat).
  { induction l as [|[g a] l IH]; intros H; [cbn; lia|].
    inversion H as [|? ? Hg Hl]; subst. rewrite dgrams_cons, app_length, map_length.
    specialize (IH Hl). destruct Hg as (_ & _ & _ & H64). cbn [fst length] in *.
    unfold len in H64. change conn_udpSegmentMaxDatagrams with 64 in H64. lia. }
  assert (Hfn : Forall (fun t => train_ok (fst t)) (firstn (S t) trains)).
  { rewrite Forall_forall in *. intros x Hx. apply Hok. rewrite <- (firstn_skipn (S t) trains). apply in_or_app. left. exact Hx. }
  specialize (Hb _ Hfn). rewrite firstn_length in Hb.
  rewrite Hf. change (N.to_nat (conn_IdealBatchSize - conn_IdealBatchSize / conn_udpSegmentMaxDatagrams)) with 126%nat.
  change (N.to_nat (conn_IdealBatchSize / conn_udpSegmentMaxDatagrams)) with 2%nat in Ht. lia.
Qed.

(* F4, receive side: N == 0 is the end-of-batch sentinel, so an empty datagram
   hides everything received after it *)
Definition f4_rx : list rmsg :=
  [ rdflt; rdflt;
    {| r_buf := [0;0;0;0]; r_n := 0; r_ctl := Some 0; r_addr := 7 |};
    {| r_buf := [5;6;7;0]; r_n := 3; r_ctl := Some 0; r_addr := 7 |} ].

Theorem split_stops_at_empty_refuted :
  exists ms f expected, received (split ms f) <> expected /\
    expected = [([], 7); ([5;6;7], 7)] /\ received (split ms f) = [].
Proof. exists f4_rx, 2%nat, [([], 7); ([5;6;7], 7)]. repeat split; vm_compute; discriminate || reflexivity. Qed.

(* ------------------------------------------------------------------ *)
(* the canonical (greedy) GRO merge is one of the admissible choices    *)
(* ------------------------------------------------------------------ *)

Lemma gro_go_concat : forall ds cur open, concat (gro_go cur open ds) = cur ++ ds.
Proof.
  induction ds as [|d r IH]; intros cur open; cbn [gro_go].
  - cbn [concat]. now rewrite app_nil_r.
  - destruct (open && (0 <? len d) && (len d <=? len (hd [] cur)) && (len cur <? conn_udpSegmentMaxDatagrams)).
    + rewrite IH, <- app_assoc. reflexivity.
    + cbn [concat]. rewrite IH. reflexivity.
Qed.

Lemma gro_trains_concat ds : concat (kernel_gro_trains ds) = ds.
Proof. destruct ds as [|d r]; [reflexivity|]. unfold kernel_gro_trains. now rewrite gro_go_concat. Qed.

Definition cur_inv (cur : list (list N)) (open : bool) : Prop :=
  train_ok cur /\ (open = true -> len (last cur []) = len (hd [] cur)).

Lemma cur_inv_single d : 0 < len d -> cur_inv [d] (0 <? len d).
Proof.
  intros H. split.
  - split; [discriminate|]. split; [intros x []|]. split; [cbn [last hd]; lia|].
    vm_compute. discriminate.
  - reflexivity.
Qed.

Lemma gro_go_ok : forall ds cur open,
  Forall (fun d => 0 < len d) ds -> cur_inv cur open -> Forall train_ok (gro_go cur open ds).
Proof.
  induction ds as [|d r IH]; intros cur open Hds [Hok Hopen]; cbn [gro_go].
  - constructor; [exact Hok|constructor].
  - inversion Hds as [|? ? Hd Hr]; subst.
    destruct (open && (0 <? len d) && (len d <=? len (hd [] cur)) && (len cur <? conn_udpSegmentMaxDatagrams)) eqn:E.
    + rewrite !andb_true_iff in E. destruct E as (((E1 & E2) & E3) & E4).
      apply N.leb_le in E3. apply N.ltb_lt in E4. specialize (Hopen E1).
      destruct Hok as (Hne & Hall & Hlast & H64).
      apply IH; [exact Hr|]. split.
      * split; [destruct cur; discriminate|]. 
        assert (Hhd : hd [] (cur ++ [d]) = hd [] cur) by (destruct cur; [congruence|reflexivity]).
        rewrite Hhd, removelast_last, last_last. split.
        { intros x Hx. destruct (in_split_last cur [] x Hne Hx) as [H|H]; [apply Hall; exact H|subst; exact Hopen]. }
        split; [lia|]. rewrite len_app, len_cons. change (len (@nil (list N))) with 0. lia.
      * intros H. apply N.eqb_eq in H. rewrite last_last.
        destruct cur; [congruence|]. exact H.
    + constructor; [exact Hok|]. apply IH; [exact Hr|]. apply cur_inv_single. exact Hd.
Qed.

Lemma gro_trains_ok ds : Forall (fun d => 0 < len d) ds -> Forall train_ok (kernel_gro_trains ds).
Proof.
  intros H. destruct ds as [|d r]; [constructor|]. inversion H; subst.
  unfold kernel_gro_trains. apply gro_go_ok; [assumption|]. apply cur_inv_single. assumption.
Qed.

Lemma dgrams_of_one_sender a gs :
  dgrams_of (map (fun g => (g, a)) gs) = map (fun d => (d, a)) (concat gs).
Proof.
  induction gs as [|g gs IH]; [reflexivity|]. cbn [map]. rewrite dgrams_cons, IH.
  cbn [concat]. now rewrite map_app.
Qed.

(* split (kernel_gro_recv ds) = ds, with the sender's address on every datagram *)
Theorem recv_split_inverse_greedy : forall front back junk (ds : list (list N)) (a mx : N),
  Forall (fun d => 0 < len d <= mx) ds ->
  match back with [] => True | m :: _ => r_n m = 0 end ->
  let trains := map (fun g => (g, a)) (kernel_gro_trains ds) in
  no_overflow (length front) trains ->
  Forall (fun m => mx <= len (r_buf m)) (rx_vector front junk trains back) ->
  let r := split (rx_vector front junk trains back) (length front) in
  snd r = 0 /\ received r = map (fun d => (d, a)) ds.
Proof.
  intros front back junk ds a mx Hds Hback trains Hroom Hbuf.
  assert (Hpos : Forall (fun d => 0 < len d) ds).
  { rewrite Forall_forall in *. intros d Hd. apply Hds. exact Hd. }
  assert (Hdg : dgrams_of trains = map (fun d => (d, a)) ds).
  { unfold trains. now rewrite dgrams_of_one_sender, gro_trains_concat. }
  destruct (recv_split_inverse front back junk trains mx) as [H1 H2]; auto.
  - unfold trains. rewrite Forall_map. cbn [fst]. apply gro_trains_ok. exact Hpos.
  - rewrite Hdg. intros d Hd. apply in_map_iff in Hd as (x & <- & Hx). cbn [fst].
    rewrite Forall_forall in Hds. apply Hds. exact Hx.
  - split; [exact H1|]. rewrite <- Hdg. exact H2.
Qed.

(* ------------------------------------------------------------------ *)
(* glue: the WriteBatch loop and the retry after GSO was disabled       *)
(* ------------------------------------------------------------------ *)

Lemma skipn_add {A} (l : list A) a b : skipn a (skipn b l) = skipn (b + a) l.
Proof.
  revert l; induction b as [|b IH]; intros l; [reflexivity|].
  destruct l as [|x l]; [now rewrite !skipn_nil|]. cbn [skipn Nat.add]. apply IH.
Qed.

Definition accepts_some (r : wres) : Prop := match r with WOk k => (0 < k)%nat | WErr => False end.

(* whatever positive numbers of messages the kernel accepts per call: every
   message is handed over exactly once, in order, and no error is reported *)
Lemma send_loop_complete {A} : forall fuel (msgs : list A) start oracle,
  Forall accepts_some oracle ->
  (length (skipn start msgs) <= length oracle)%nat ->
  (length (skipn start msgs) <= fuel)%nat ->
  send_loop fuel msgs start oracle = (skipn start msgs, false).
Proof.
  induction fuel as [|f IH]; intros msgs start oracle Hpos Ho Hf.
  - cbn [send_loop]. destruct (skipn start msgs); [reflexivity|cbn [length] in Hf; lia].
  - destruct oracle as [|r o].
    + cbn [send_loop]. destruct (skipn start msgs); [reflexivity|cbn [length] in Ho; lia].
    + inversion Hpos as [|? ? Hr Hpos']; subst. cbn [send_loop].
      destruct r as [k|]; [|contradiction]. cbn [accepts_some] in Hr.
      set (rest := skipn start msgs) in *.
      destruct (Nat.eqb (Nat.min k (length rest)) (length rest)) eqn:E.
      * apply Nat.eqb_eq in E. rewrite E, firstn_all. reflexivity.
      * apply Nat.eqb_neq in E. assert (Hk : Nat.min k (length rest) = k) by lia. rewrite Hk.
        assert (Hs : skipn (start + k) msgs = skipn k rest).
        { unfold rest. rewrite skipn_add. reflexivity. }
        rewrite (IH msgs (start + k)%nat o Hpos').
        -- rewrite Hs, firstn_skipn. reflexivity.
        -- rewrite Hs, skipn_length. cbn [length] in Ho. lia.
        -- rewrite Hs, skipn_length. lia.
Qed.

(* with any behaviour of the kernel (errors, zero counts): what was handed over
   is a prefix of the vector: nothing skipped, repeated or reordered *)
Lemma send_loop_prefix {A} : forall fuel (msgs : list A) start oracle,
  exists suffix, fst (send_loop fuel msgs start oracle) ++ suffix = skipn start msgs.
Proof.
  induction fuel as [|f IH]; intros msgs start oracle.
  - exists (skipn start msgs). reflexivity.
  - destruct oracle as [|r o]; [exists (skipn start msgs); reflexivity|].
    cbn [send_loop]. destruct r as [k|]; [|exists (skipn start msgs); reflexivity].
    set (rest := skipn start msgs).
    destruct (Nat.eqb (Nat.min k (length rest)) (length rest)) eqn:E.
    + cbn [fst]. exists (skipn (Nat.min k (length rest)) rest). apply firstn_skipn.
    + destruct (IH msgs (start + Nat.min k (length rest))%nat o) as (suf & Hs).
      destruct (send_loop f msgs (start + Nat.min k (length rest)) o) as [t e]. cbn [fst] in *.
      exists suf. rewrite <- app_assoc, Hs.
      replace (skipn (start + Nat.min k (length rest)) msgs) with (skipn (Nat.min k (length rest)) rest).
      * apply firstn_skipn.
      * unfold rest. rewrite skipn_add. reflexivity.
Qed.

Lemma unmerged_ok c : wf_cfg c -> forall bufs pre,
  map m_data (unmerged c pre bufs) = map b_data bufs /\
  Forall (fun m => m_gso m = [] /\ m_oob m = c_src c /\ m_addr m = c_addr c) (unmerged c pre bufs).
Proof.
  intros Hwf. unfold wf_cfg in Hwf.
  assert (Hs : forall p, set_src_over c p = (c_src c, [])).
  { intros p. unfold set_src_over. destruct (c_oobcap c <? len (c_src c)) eqn:E; [|reflexivity].
    apply N.ltb_lt in E. pose proof (N.le_0_l conn_gsoControlSize). lia. }
  induction bufs as [|b r IH]; intros pre; cbn [unmerged map].
  - split; constructor.
  - rewrite Hs. destruct (IH (tl pre)) as [H1 H2]. cbn [map m_data]. split.
    + f_equal. exact H1.
    + constructor; [cbn; auto|exact H2].
Qed.

Lemma wire_no_gso ms : Forall (fun m => m_gso m = []) ms -> wire ms = map m_data ms.
Proof.
  induction 1 as [|m ms Hm _ IH]; [reflexivity|].
  unfold wire in *. cbn [flat_map map]. rewrite IH. unfold kernel_send, gso_of. rewrite Hm. reflexivity.
Qed.

(* After the kernel refused segmentation offload (EIO) the batch is sent again
   from the same pooled vector, one message per datagram: no message of the
   second attempt carries a UDP_SEGMENT control message any more, each is
   addressed to the endpoint with the sticky source, and the wire image of the
   second attempt is the batch; what the first attempt handed over before the
   error is a prefix of the merged vector. *)
Theorem gso_disable_retry_transparent : forall c bufs oracle1 oracle2,
  wf_cfg c ->
  Forall accepts_some oracle2 -> (length bufs <= length oracle2)%nat ->
  let '(t1, t2, e2) := send_with_gso_disable c bufs oracle1 oracle2 in
  e2 = false /\
  wire t2 = map b_data bufs /\
  Forall (fun m => m_gso m = [] /\ m_oob m = c_src c /\ m_addr m = c_addr c) t2 /\
  exists suffix, t1 ++ suffix = coalesce c bufs.
Proof.
  intros c bufs oracle1 oracle2 Hwf Hpos Hlen. unfold send_with_gso_disable.
  destruct (send_loop_prefix (S (length (coalesce c bufs))) (coalesce c bufs) 0 oracle1) as (suf & Hsuf).
  destruct (send_loop (S (length (coalesce c bufs))) (coalesce c bufs) 0 oracle1) as [t1 e1]. cbn [fst] in Hsuf.
  set (pre := coalesce c bufs ++ _).
  destruct (unmerged_ok c Hwf bufs pre) as [Hd Hall].
  assert (Hl : length (unmerged c pre bufs) = length bufs).
  { rewrite <- (map_length m_data), Hd, map_length. reflexivity. }
  rewrite send_loop_complete; cbn [skipn]; try (rewrite Hl; lia); [|exact Hpos].
  split; [reflexivity|]. split; [|split; [exact Hall|exists suf; exact Hsuf]].
  rewrite wire_no_gso, Hd; [reflexivity|].
  rewrite Forall_forall in *. intros m Hm. apply (Hall m Hm).
Qed.

(* ------------------------------------------------------------------ *)
(* glue: the pooled destination address                                 *)
(* ------------------------------------------------------------------ *)

Definition apool_ok (p : apool) : Prop := length (ap_buf p) = 16%nat /\ (ap_len p = 4%nat \/ ap_len p = 16%nat).
Definition req_ok (x : bool * list N) : Prop := length (snd x) = (if fst x then 16 else 4)%nat.

Lemma copy_n_full n (buf src : list N) :
  (length src <= n)%nat -> (length src <= length buf)%nat ->
  copy_n n buf src = src ++ skipn (length src) buf.
Proof. intros H1 H2. unfold copy_n. rewrite Nat.min_r by exact H1. now rewrite firstn_all. Qed.

Lemma store4_ok p a : apool_ok p -> length a = 4%nat -> apool_ok (store4 p a) /\ ap_ip (store4 p a) = a.
Proof.
  intros [Hb Hl] Ha. unfold store4, ap_ip, apool_ok. cbn [ap_buf ap_len].
  rewrite copy_n_full by (destruct Hl; lia). split.
  - split; [|left; reflexivity]. rewrite app_length, skipn_length. lia.
  - rewrite <- Ha at 1. rewrite firstn_app, firstn_all, Nat.sub_diag. cbn [firstn]. now rewrite app_nil_r.
Qed.

Lemma store6_ok p a : apool_ok p -> length a = 16%nat -> apool_ok (store6 p a) /\ ap_ip (store6 p a) = a.
Proof.
  intros [Hb Hl] Ha. unfold store6, ap_ip, apool_ok. cbn [ap_buf ap_len].
  rewrite copy_n_full by lia. split.
  - split; [|right; reflexivity]. rewrite app_length, skipn_length. lia.
  - rewrite <- Ha at 1. rewrite firstn_app, firstn_all, Nat.sub_diag. cbn [firstn]. now rewrite app_nil_r.
Qed.

(* repaired order: whatever the pooled object went through, every Send hands
   the kernel exactly the address of its endpoint *)
Theorem addr_history_correct : forall h p,
  apool_ok p -> Forall req_ok h -> addr_history store6 p h = map snd h.
Proof.
  induction h as [|[is6 a] r IH]; intros p Hp Hh; [reflexivity|].
  inversion Hh as [|? ? Ha Hr]; subst. unfold req_ok in Ha. cbn [fst snd] in Ha.
  cbn [addr_history map snd]. destruct is6.
  - destruct (store6_ok p a Hp Ha) as [Hp' He]. rewrite He. f_equal. apply IH; assumption.
  - destruct (store4_ok p a Hp Ha) as [Hp' He]. rewrite He. f_equal. apply IH; assumption.
Qed.

Lemma apool_new_ok : apool_ok apool_new.
Proof. split; [reflexivity|right; reflexivity]. Qed.

(* /repo HEAD: an IPv6 Send after an IPv4 Send on the same pooled object
   overwrites only 4 bytes; bytes 4..15 are those of the previous IPv6
   destination: fd00::2, 127.0.0.1, ::1  goes to  ::2 *)
Definition ex_fd : list N := [253;0;0;0;0;0;0;0;0;0;0;0;0;0;0;2].
Definition ex_lo6 : list N := [0;0;0;0;0;0;0;0;0;0;0;0;0;0;0;1].
Definition ex_lo4 : list N := [127;0;0;1].
Definition ex_hist : list (bool * list N) := [(true, ex_fd); (false, ex_lo4); (true, ex_lo6)].

Theorem addr_history_old_refuted :
  exists h, Forall req_ok h /\ addr_history old_store6 apool_new h <> map snd h /\
    addr_history old_store6 apool_new h = [ex_fd; ex_lo4; [0;0;0;0;0;0;0;0;0;0;0;0;0;0;0;2]].
Proof.
  exists ex_hist. split; [repeat constructor|]. split; [vm_compute; discriminate|vm_compute; reflexivity].
Qed.

(* ------------------------------------------------------------------ *)
(* glue: datagrams sent twice around the GSO-disable retry              *)
(* ------------------------------------------------------------------ *)

Lemma skipn_map' {A B} (f : A -> B) (l : list A) n : skipn n (map f l) = map f (skipn n l).
Proof. revert l; induction n as [|n IH]; intros [|x l]; cbn [skipn map]; auto. Qed.

Lemma wire_app a b : wire (a ++ b) = wire a ++ wire b.
Proof. unfold wire. apply flat_map_app. Qed.

(* /repo HEAD: when the kernel has sent the messages in front of the refused
   one before it reports EIO, the resend of the WHOLE batch puts their datagrams
   on the wire a second time. *)
Definition dup_bufs : list buf :=
  [ {| b_data := [1]; b_cap := 100 |}; {| b_data := [2;2]; b_cap := 100 |}; {| b_data := [3;3]; b_cap := 100 |} ].

Theorem gso_disable_retry_duplicates_refuted :
  exists c bufs o1 o2, wf_cfg c /\ Forall wf_buf bufs /\
    let '(t1, t2, e2) := send_with_gso_disable c bufs o1 o2 in
    e2 = false /\ wire (t1 ++ t2) <> map b_data bufs /\ wire (t1 ++ t2) = [[1]; [1]; [2;2]; [3;3]].
Proof.
  exists f4_cfg, dup_bufs, [WOk 1; WErr], [WOk 3]. split; [vm_compute; discriminate|]. split.
  - repeat constructor; vm_compute; discriminate.
  - vm_compute. split; [reflexivity|]. split; [discriminate|reflexivity].
Qed.

(* with the repair: whatever the first attempt handed over before the error,
   first attempt + resend put exactly the batch on the wire, nothing twice *)
Theorem gso_disable_retry_fixed_exact : forall c bufs oracle1 oracle2,
  wf_cfg c -> Forall wf_buf bufs ->
  Forall accepts_some oracle2 -> (length bufs <= length oracle2)%nat ->
  let '(t1, t2, e2) := send_with_gso_disable_fixed wire c bufs oracle1 oracle2 in
  e2 = false /\ wire t1 ++ wire t2 = map b_data bufs /\ Forall (fun m => m_gso m = []) t2.
Proof.
  intros c bufs oracle1 oracle2 Hwf Hb Hpos Hlen. unfold send_with_gso_disable_fixed.
  destruct (send_loop_prefix (S (length (coalesce c bufs))) (coalesce c bufs) 0 oracle1) as (suf & Hsuf).
  destruct (send_loop (S (length (coalesce c bufs))) (coalesce c bufs) 0 oracle1) as [t1 e1]. cbn [fst skipn] in Hsuf.
  pose proof (send_transparent c bufs Hwf Hb) as Htr. fold (wire (coalesce c bufs)) in Htr.
  rewrite <- Hsuf, wire_app in Htr.
  set (rest := skipn (length (wire t1)) bufs).
  set (pre := coalesce c bufs ++ _).
  destruct (unmerged_ok c Hwf rest pre) as [Hd Hall].
  assert (Hl : (length (unmerged c pre rest) <= length bufs)%nat).
  { rewrite <- (map_length m_data), Hd, map_length. unfold rest. rewrite skipn_length. lia. }
  rewrite send_loop_complete; cbn [skipn]; try lia; [|exact Hpos].
  assert (Hg : Forall (fun m => m_gso m = []) (unmerged c pre rest)).
  { rewrite Forall_forall in *. intros m Hm. apply (Hall m Hm). }
  split; [reflexivity|]. split; [|exact Hg].
  rewrite (wire_no_gso (unmerged c pre rest) Hg). rewrite Hd. unfold rest. rewrite <- skipn_map', <- Htr.
  rewrite skipn_app, skipn_all, Nat.sub_diag. reflexivity.
Qed.
