(* The kernel half of C18 as a stated model (validated by the loopback runs of
   the harness, not proved): what Linux does with one sendmsg carrying a
   UDP_SEGMENT control message, and what a UDP_GRO socket hands to recvmsg.
   Plus the property itself as boolean checkers over observed message vectors. *)
From WG Require Import Base.Prelude Gen.Constants UdpGso.Model.
Local Open Scope N_scope.

(* ---------- send: UDP_SEGMENT (net/ipv4/udp.c udp_send_skb) ---------- *)

(* cut the payload every s bytes *)
Fixpoint chunks (fuel s : nat) (l : list N) : list (list N) :=
  match fuel with
  | O => []
  | S f => match l with [] => [] | _ => firstn s l :: chunks f s (skipn s l) end
  end.

(* datagrams put on the wire for one message: no control message, gso_size 0 or
   a payload that fits one segment: the payload as one datagram (empty
   datagrams exist in UDP); otherwise segments of gso_size bytes, the last one
   possibly shorter *)
Definition kernel_gso_send (payload : list N) (gso : option N) : list (list N) :=
  match gso with
  | None => [payload]
  | Some s => if (s =? 0) || (len payload <=? s) then [payload]
              else chunks (length payload) (N.to_nat s) payload
  end.

(* sendmsg does not fail with EMSGSIZE (payload beyond the family's maximum) or
   EINVAL (more than UDP_MAX_SEGMENTS = 64 segments) *)
Definition kernel_accepts (maxp : N) (payload : list N) (gso : option N) : bool :=
  (len payload <=? maxp) &&
  match gso with
  | Some s => (s =? 0) || (len payload <=? s * conn_udpSegmentMaxDatagrams)
  | None => true
  end.

(* the last UDP_SEGMENT control message wins (udp_cmsg_send) *)
Definition gso_of (m : msg) : option N :=
  match rev (m_gso m) with [] => None | g :: _ => Some g end.
Definition kernel_send (m : msg) : list (list N) := kernel_gso_send (m_data m) (gso_of m).

(* ---------- receive: UDP_GRO (udp_gro_receive, udp_cmsg_recv) ---------- *)

(* A GRO train: consecutive datagrams of one flow, all of the size of the
   first, the last one possibly shorter (it ends the train), at most 64.  The
   kernel chooses the trains (timing); every choice must be split correctly. *)
Definition train_ok (g : list (list N)) : Prop :=
  g <> [] /\
  (forall d, In d (removelast g) -> len d = len (hd [] g)) /\
  0 < len (last g []) <= len (hd [] g) /\
  len g <= conn_udpSegmentMaxDatagrams.

(* what recvmsg returns for a train from sender [addr]: the payload at the
   front of the buffer (the rest of the buffer, [junk], stays as it was), N,
   the UDP_GRO value (only present on merged skbs), the sender *)
Definition rx_of (junk : list N) (addr : N) (g : list (list N)) : rmsg :=
  {| r_buf := concat g ++ junk;
     r_n := len (concat g);
     r_ctl := Some (if (1 <? length g)%nat then len (hd [] g) else 0);
     r_addr := addr |}.

(* the canonical choice: merge greedily (equal sizes, a shorter one ends the
   train, 64 at most) *)
Fixpoint gro_go (cur : list (list N)) (open : bool) (ds : list (list N)) : list (list (list N)) :=
  match ds with
  | [] => [cur]
  | d :: r =>
      if open && (0 <? len d) && (len d <=? len (hd [] cur)) && (len cur <? conn_udpSegmentMaxDatagrams)
      then gro_go (cur ++ [d]) (len d =? len (hd [] cur)) r
      else cur :: gro_go [d] (0 <? len d) r
  end.
Definition kernel_gro_trains (ds : list (list N)) : list (list (list N)) :=
  match ds with [] => [] | d :: r => gro_go [d] (0 <? len d) r end.

(* ---------- the property on observed vectors (used by Check.v) ---------- *)

Fixpoint list_eqb (a b : list N) : bool :=
  match a, b with
  | [], [] => true
  | x :: a', y :: b' => (x =? y) && list_eqb a' b'
  | _, _ => false
  end.
Fixpoint lists_eqb (a b : list (list N)) : bool :=
  match a, b with
  | [], [] => true
  | x :: a', y :: b' => list_eqb x y && lists_eqb a' b'
  | _, _ => false
  end.

(* index of the first wire datagram that differs (or is missing/extra) *)
Fixpoint first_diff (a b : list (list N)) (i : N) : option N :=
  match a, b with
  | [], [] => None
  | x :: a', y :: b' => if list_eqb x y then first_diff a' b' (i + 1) else Some i
  | _, _ => Some i
  end.

Definition wire (out : list msg) : list (list N) := flat_map kernel_send out.

Definition all_but_last_eq (s : N) (segs : list (list N)) : bool :=
  forallb (fun d => len d =? s) (removelast segs).

(* limits of one message as it goes to sendmsg *)
Definition msg_limitsb (c : cfg) (m : msg) : bool :=
  kernel_accepts (max_payload c) (m_data m) (gso_of m) &&
  (len (kernel_send m) <=? conn_udpSegmentMaxDatagrams) &&
  all_but_last_eq (len (hd [] (kernel_send m))) (kernel_send m) &&
  (len (m_data m) <=? max_payload c) &&
  (len (m_data m) <=? m_cap m).

(* addressed to the endpoint, sticky source control in front *)
Definition msg_addrb (c : cfg) (m : msg) : bool :=
  (m_addr m =? c_addr c) && list_eqb (m_oob m) (c_src c).
