(* Mirror of conn/bind_std.go coalesceMessages (as of ba89367: zero-length datagrams are
   never merged; the code before that commit is kept in OldModel.v) and splitCoalescedMessages
   (with conn/gso_linux.go setGSOSize and conn/sticky_linux.go setSrcControl as
   far as the length bookkeeping of the control buffer goes).

   Payload bytes are N below 256, buffers are lists of bytes; a Go slice is its
   contents plus the capacity of its backing array counted from the slice start.
   Lengths are N ([len]); indices into the message vector are nat. *)
From WG Require Import Base.Prelude Gen.Constants.
Local Open Scope N_scope.

Definition len {A} (l : list A) : N := N.of_nat (length l).

(* ------------------------------------------------------------------ *)
(* Send side: coalesceMessages(addr, ep, bufs, msgs, setGSO)            *)
(* ------------------------------------------------------------------ *)

(* one element of bufs *)
Record buf := { b_data : list N; b_cap : N }.

(* what the call gets besides bufs: ep.DstIP().Is6(), ep.src, the capacity of
   every msgs[i].OOB (its length is 0, as putMessages leaves it), addr *)
Record cfg := { c_is6 : bool; c_src : list N; c_oobcap : N; c_addr : N }.

(* one element of msgs after the call: Buffers[0] (contents, capacity), the
   sticky-source part of OOB, the UDP_SEGMENT control messages appended to it
   (their uint16 payloads, in order), Addr (0 = nil) *)
Record msg := { m_data : list N; m_cap : N; m_oob : list N; m_gso : list N; m_addr : N }.

Definition max_payload (c : cfg) : N :=
  if c_is6 c then conn_maxIPv6PayloadLen else conn_maxIPv4PayloadLen.

(* setSrcControl(&control, ep) on a control slice of length 0 *)
Definition set_src (c : cfg) (oob : list N) : list N :=
  if c_oobcap c <? len (c_src c) then oob else c_src c.

(* setGSOSize(&control, uint16(gsoSize)): appended only if the space is there *)
Definition set_gso (c : cfg) (m : msg) (gsoSize : N) : msg :=
  let existingLen := len (m_oob m) + conn_gsoControlSize * len (m_gso m) in
  let avail := c_oobcap c - existingLen in
  if avail <? conn_gsoControlSize then m
  else {| m_data := m_data m; m_cap := m_cap m; m_oob := m_oob m;
          m_gso := m_gso m ++ [gsoSize mod 65536]; m_addr := m_addr m |}.

(* loop state: msgs[0..base-1] (reversed), msgs[base] (None: base = -1),
   gsoSize, dgramCnt, endBatch *)
Record st := { s_done : list msg; s_cur : option msg; s_gso : N; s_cnt : N; s_end : bool }.
Definition st0 : st := {| s_done := []; s_cur := None; s_gso := 0; s_cnt := 0; s_end := false |}.

(* the tail of the loop body: close msgs[base], start a new one from buf *)
Definition fresh (c : cfg) (s : st) (b : buf) : st :=
  let closed :=
    match s_cur s with
    | Some m => [if 1 <? s_cnt s then set_gso c m (s_gso s) else m]
    | None => []
    end in
  {| s_done := closed ++ s_done s;
     s_cur := Some {| m_data := b_data b; m_cap := b_cap b; m_oob := set_src c [];
                      m_gso := []; m_addr := c_addr c |};
     s_gso := len (b_data b); s_cnt := 1; s_end := false |}.

Definition can_join (c : cfg) (s : st) (m : msg) (b : buf) : bool :=
  let msgLen := len (b_data b) in
  let baseLenBefore := len (m_data m) in
  let freeBaseCap := m_cap m - baseLenBefore in
  (0 <? msgLen) &&   (* ba89367: an empty datagram must stay a datagram of its own *)
  (msgLen + baseLenBefore <=? max_payload c) &&
  (msgLen <=? s_gso s) &&
  (msgLen <=? freeBaseCap) &&
  (s_cnt s <? conn_udpSegmentMaxDatagrams) &&
  negb (s_end s).

(* one iteration: [i_pos] is i > 0, [is_last] is i == len(bufs)-1 *)
Definition step (c : cfg) (s : st) (b : buf) (i_pos is_last : bool) : st :=
  match (if i_pos then s_cur s else None) with
  | Some m =>
      if can_join c s m b then
        let m1 := {| m_data := m_data m ++ b_data b; m_cap := m_cap m; m_oob := m_oob m;
                     m_gso := m_gso m; m_addr := m_addr m |} in
        let m2 := if is_last then set_gso c m1 (s_gso s) else m1 in
        {| s_done := s_done s; s_cur := Some m2; s_gso := s_gso s; s_cnt := s_cnt s + 1;
           s_end := if len (b_data b) <? s_gso s then true else s_end s |}
      else fresh c s b
  | None => fresh c s b
  end.

Fixpoint loop (c : cfg) (s : st) (bufs : list buf) (i_pos : bool) : st :=
  match bufs with
  | [] => s
  | b :: r => loop c (step c s b i_pos (match r with [] => true | _ => false end)) r true
  end.

Definition msgs_of (s : st) : list msg :=
  rev (s_done s) ++ match s_cur s with Some m => [m] | None => [] end.

(* msgs[:n] after n := coalesceMessages(...) *)
Definition coalesce (c : cfg) (bufs : list buf) : list msg := msgs_of (loop c st0 bufs false).

(* ------------------------------------------------------------------ *)
(* Receive side: splitCoalescedMessages(msgs, firstMsgAt, getGSO)       *)
(* ------------------------------------------------------------------ *)

(* one element of msgs: Buffers[0] (whole slice, len = cap), N, the value
   getGSO(OOB[:NN]) would return (None: parse error), Addr *)
Record rmsg := { r_buf : list N; r_n : N; r_ctl : option N; r_addr : N }.
Definition rdflt : rmsg := {| r_buf := []; r_n := 0; r_ctl := Some 0; r_addr := 0 |}.

(* s[a:b] *)
Definition slice (l : list N) (a b : N) : list N := firstn (N.to_nat (b - a)) (skipn (N.to_nat a) l).

(* copy(dst, src) : new dst and the number of bytes copied *)
Definition copy_into (dst src : list N) : list N * N :=
  let k := N.min (len dst) (len src) in
  (firstn (N.to_nat k) src ++ skipn (N.to_nat k) dst, k).

(* status: 0 = nil error, 1 = "splitting coalesced packet resulted in overflow",
   2 = getGSO error, 3 = slice bounds out of range (run-time panic) *)

(* the j-loop; [cnt] iterations remain.  msg is &msgs[i], so its fields are
   read from the current vector. *)
Fixpoint split_inner (cnt : nat) (i : nat) (gsoSize : N) (ms : list rmsg) (n : nat) (start end_ : N)
  : list rmsg * nat * N :=
  match cnt with
  | O => (ms, n, 0)
  | S cnt' =>
      if (i <? n)%nat then (ms, n, 1) else
      let msg := nth i ms rdflt in
      if len (r_buf msg) <? end_ then (ms, n, 3) else
      let '(nb, copied) := copy_into (r_buf (nth n ms rdflt)) (slice (r_buf msg) start end_) in
      let dst := nth n ms rdflt in
      let ms1 := set_nth ms n {| r_buf := nb; r_n := copied; r_ctl := r_ctl dst; r_addr := r_addr msg |} in
      let msgN := r_n (nth i ms1 rdflt) in
      let end1 := end_ + gsoSize in
      let end2 := if msgN <? end1 then msgN else end1 in
      split_inner cnt' i gsoSize ms1 (S n) end_ end2
  end.

Definition clear_n (m : rmsg) : rmsg := {| r_buf := r_buf m; r_n := 0; r_ctl := r_ctl m; r_addr := r_addr m |}.

(* the i-loop; [fuel] = len(msgs) - i *)
Fixpoint split_outer (fuel : nat) (i : nat) (ms : list rmsg) (n : nat) : list rmsg * nat * N :=
  match fuel with
  | O => (ms, n, 0)
  | S fuel' =>
      let msg := nth i ms rdflt in
      if r_n msg =? 0 then (ms, n, 0) else
      match r_ctl msg with
      | None => (ms, n, 2)
      | Some gsoSize =>
          let numToSplit := if 0 <? gsoSize then (r_n msg + gsoSize - 1) / gsoSize else 1 in
          let end_ := if 0 <? gsoSize then gsoSize else r_n msg in
          let '(ms1, n1, e) := split_inner (N.to_nat numToSplit) i gsoSize ms n 0 end_ in
          if negb (e =? 0) then (ms1, n1, e) else
          (* if i != n-1 { msg.N = 0 }   (n >= 1 here) *)
          let ms2 := if Nat.eqb (S i) n1 then ms1 else set_nth ms1 i (clear_n (nth i ms1 rdflt)) in
          split_outer fuel' (S i) ms2 n1
      end
  end.

Definition split (ms : list rmsg) (firstMsgAt : nat) : list rmsg * nat * N :=
  split_outer (length ms - firstMsgAt) firstMsgAt ms 0.

(* what receiveIP reads off the first n messages: bytes and sender *)
Definition received (r : list rmsg * nat * N) : list (list N * N) :=
  let '(ms, n, _) := r in
  map (fun m => (firstn (N.to_nat (r_n m)) (r_buf m), r_addr m)) (firstn n ms).

(* ------------------------------------------------------------------ *)
(* Glue around the core: StdNetBind.send and the GSO-disable retry      *)
(* ------------------------------------------------------------------ *)

(* What one WriteBatch (sendmmsg) call does is the kernel's choice: it accepts
   the first k of the messages offered (k >= 1 unless it fails), or fails. *)
Inductive wres := WOk (k : nat) | WErr.

(* for { n, err = pc.WriteBatch(msgs[start:], 0);
         if err != nil || n == len(msgs[start:]) { break }; start += n }
   Result: the messages accepted, in the order accepted, and err != nil.
   [fuel] bounds the number of calls (the oracle list does too). *)
Fixpoint send_loop {A} (fuel : nat) (msgs : list A) (start : nat) (oracle : list wres) : list A * bool :=
  match fuel, oracle with
  | S f, r :: o =>
      let rest := skipn start msgs in
      match r with
      | WErr => ([], true)
      | WOk k =>
          let n := Nat.min k (length rest) in
          if Nat.eqb n (length rest) then (firstn n rest, false)
          else let '(t, e) := send_loop f msgs (start + n) o in (firstn n rest ++ t, e)
      end
  | _, _ => ([], false)
  end.

(* setSrcControl on a pooled message that may still carry the control data of
   an earlier attempt: nothing at all if the capacity is too small, else
   truncate to 0 and append ep.src (which also removes a UDP_SEGMENT message) *)
Definition set_src_over (c : cfg) (m : msg) : list N * list N :=
  if c_oobcap c <? len (c_src c) then (m_oob m, m_gso m) else (c_src c, []).

(* Send, branch without offload: msgs[i] = {Addr: ua, Buffers[0]: bufs[i]},
   setSrcControl(&msgs[i].OOB, ep); [pre] is the state of the pooled vector
   (after a first, merged attempt when the branch is reached through retry) *)
Fixpoint unmerged (c : cfg) (pre : list msg) (bufs : list buf) : list msg :=
  match bufs with
  | [] => []
  | b :: r =>
      let p := match pre with [] => {| m_data := []; m_cap := 0; m_oob := []; m_gso := []; m_addr := 0 |} | p :: _ => p end in
      let '(oob, gso) := set_src_over c p in
      {| m_data := b_data b; m_cap := b_cap b; m_oob := oob; m_gso := gso; m_addr := c_addr c |}
        :: unmerged c (tl pre) r
  end.

(* Send with offload available whose first attempt ends with an error for
   which errShouldDisableUDPGSO holds: offload is switched off and the batch is
   sent again, one message per datagram, from the same pooled vector.
   Result: what the two attempts hand to the kernel. *)
Definition send_with_gso_disable (c : cfg) (bufs : list buf) (oracle1 oracle2 : list wres)
  : list msg * list msg * bool :=
  let first := coalesce c bufs in
  let '(t1, _) := send_loop (S (length first)) first 0 oracle1 in
  let second := unmerged c (first ++ repeat {| m_data := []; m_cap := 0; m_oob := []; m_gso := []; m_addr := 0 |} (length bufs)) bufs in
  let '(t2, e2) := send_loop (S (length second)) second 0 oracle2 in
  (t1, t2, e2).

(* ------------------------------------------------------------------ *)
(* Glue: the pooled destination address of Send (udpAddrPool)           *)
(* ------------------------------------------------------------------ *)

(* ua.IP of a pooled *net.UDPAddr: a backing array of 16 bytes (New: make([]byte, 16))
   and the current length of the slice (16 after an IPv6 Send, 4 after an IPv4 one) *)
Record apool := { ap_buf : list N; ap_len : nat }.
Definition apool_new : apool := {| ap_buf := repeat 0 16; ap_len := 16 |}.

(* copy(dst[:n], src): min(n, len src) bytes *)
Definition copy_n (n : nat) (buf src : list N) : list N :=
  let k := Nat.min n (length src) in firstn k src ++ skipn k buf.

(* the address the kernel is given: ua.IP *)
Definition ap_ip (p : apool) : list N := firstn (ap_len p) (ap_buf p).

(* IPv4 destination: copy(ua.IP, as4[:]); ua.IP = ua.IP[:4] *)
Definition store4 (p : apool) (a : list N) : apool :=
  {| ap_buf := copy_n (ap_len p) (ap_buf p) a; ap_len := 4 |}.

(* IPv6 destination as Send has it at /repo HEAD: copy(ua.IP, as16[:]); ua.IP = ua.IP[:16]
   (the copy is limited by the length the slice was left with) *)
Definition old_store6 (p : apool) (a : list N) : apool :=
  {| ap_buf := copy_n (ap_len p) (ap_buf p) a; ap_len := 16 |}.

(* repaired order (notes/C18-fix-dualstack.patch): ua.IP = ua.IP[:16]; copy(ua.IP, as16[:]) *)
Definition store6 (p : apool) (a : list N) : apool :=
  {| ap_buf := copy_n 16 (ap_buf p) a; ap_len := 16 |}.

(* a history of Sends on one bind that keep drawing the same pooled object:
   (true, 16 bytes) = IPv6 destination, (false, 4 bytes) = IPv4 destination;
   result: the addresses handed to the kernel *)
Fixpoint addr_history (st6 : apool -> list N -> apool) (p : apool) (h : list (bool * list N)) : list (list N) :=
  match h with
  | [] => []
  | (is6, a) :: r =>
      let p1 := if is6 then st6 p a else store4 p a in
      ap_ip p1 :: addr_history st6 p1 r
  end.

(* The same with the repair of notes/C18-fix3.patch: the datagrams carried by the
   messages that the first attempt already handed to the kernel are not sent
   again.  (The patch finds their number by walking the written messages and
   the batch by byte counts; here it is the number of wire datagrams of t1.) *)
Definition send_with_gso_disable_fixed (wire_of : list msg -> list (list N))
  (c : cfg) (bufs : list buf) (oracle1 oracle2 : list wres) : list msg * list msg * bool :=
  let first := coalesce c bufs in
  let '(t1, _) := send_loop (S (length first)) first 0 oracle1 in
  let rest := skipn (length (wire_of t1)) bufs in
  let second := unmerged c (first ++ repeat {| m_data := []; m_cap := 0; m_oob := []; m_gso := []; m_addr := 0 |} (length bufs)) rest in
  let '(t2, e2) := send_loop (S (length second)) second 0 oracle2 in
  (t1, t2, e2).
