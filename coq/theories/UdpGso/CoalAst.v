(* Deep-embedded mini-language for the body of conn/bind_std.go coalesceMessages and an executable
   interpreter over the records of UdpGso/Model.v (buf, msg).  The term is produced from the Go SOURCE by
   harness/cmd/gsoast (Gen/GsoAst.v); UdpGso/CoalAstProofs.v proves interpreter = Model.coalesce for all inputs.
   No proofs here.

   Semantics.  Every local is a Go int, held as a Z (no wrap-around is modelled: with lengths below 2^16 and
   capacities below 2^62 nothing gets near 2^63); a bool local is held as 0 / 1.  All locals of the function are
   declared up front with their zero value (the translator lists them and refuses a second declaration of a name,
   so there is no shadowing), an assignment to a name that is not a local yields None.  bufs is a list of
   Model.buf; the range value variable is the field cur of the state.  msgs is a list of Model.msg;
   msgs[e] with e outside the vector yields None (Go panics).  append(msgs[e].Buffers[0], buf...) is the
   concatenation of the contents PROVIDED the result fits the capacity of msgs[e].Buffers[0]; otherwise None
   (Go would move the slice to a new backing array, which is outside this language).  setGSO is a parameter
   of the Go function and a parameter here (msg -> N -> msg, given uint16(gsoSize) = gsoSize mod 2^16);
   setSrcControl(&msgs[e].OOB, ep) is a parameter too.  && is short-circuit.  continue ends the iteration.
   Every *Unknown node yields None. *)
From Coq Require Import String.
From WG Require Import Base.Prelude UdpGso.Model.
Local Open Scope Z_scope.

Inductive cmpop := CGe | CGt | CLe | CLt | CEq | CNe.

Inductive expr :=
| EConst (z : Z)
| EVar (x : string)
| ELenVal                         (* len(buf), buf the range value variable *)
| ELenBufs                        (* len(bufs) *)
| ELenMsg (e : expr)              (* len(msgs[e].Buffers[0]) *)
| ECapMsg (e : expr)              (* cap(msgs[e].Buffers[0]) *)
| EAdd (a b : expr)
| ESub (a b : expr)
| EUnknown (what : string).

Inductive bexpr :=
| BLit (b : bool)
| BVar (x : string)               (* a bool local *)
| BNot (b : bexpr)
| BAnd (a b : bexpr)
| BCmp (o : cmpop) (a b : expr)
| BIs6                            (* ep.DstIP().Is6() *)
| BUnknown (what : string).

Inductive stmt :=
| SSkip
| SSeq (a b : stmt)
| SAssign (x : string) (e : expr)        (* x = e, x := e, var x = e, var x int *)
| SAssignB (x : string) (b : bexpr)      (* the same for a bool local *)
| SInc (x : string)                      (* x++ *)
| SIf (c : bexpr) (t e : stmt)
| SRange (i : string) (body : stmt)      (* for i, buf := range bufs *)
| SContinue
| SAppend (e : expr)                     (* msgs[e].Buffers[0] = append(msgs[e].Buffers[0], buf...) *)
| SSetGSO (e g : expr)                   (* setGSO(&msgs[e].OOB, uint16(g)) *)
| SSetSrc (e : expr)                     (* setSrcControl(&msgs[e].OOB, ep) *)
| SSetBuf (e : expr)                     (* msgs[e].Buffers[0] = buf *)
| SSetAddr (e : expr)                    (* msgs[e].Addr = addr *)
| SReturn (e : expr)
| SUnknown (what : string).

(* what the call is given *)
Record ctx := { x_bufs : list buf; x_is6 : bool; x_addr : N;
                x_setGSO : msg -> N -> msg; x_setSrc : msg -> msg }.

Record state := { env : list (string * Z); cur : buf; msgs : list msg }.

Inductive outcome :=
| Normal (st : state)
| Continued (st : state)
| Returned (st : state) (r : Z).

Fixpoint lookup (x : string) (e : list (string * Z)) : option Z :=
  match e with
  | [] => None
  | (y, v) :: t => if String.eqb x y then Some v else lookup x t
  end.

(* replace in place; None if the name is not a local *)
Fixpoint update (x : string) (v : Z) (e : list (string * Z)) : option (list (string * Z)) :=
  match e with
  | [] => None
  | (y, w) :: t =>
      if String.eqb x y then Some ((y, v) :: t)
      else match update x v t with Some t' => Some ((y, w) :: t') | None => None end
  end.

Definition cmpop_sem (o : cmpop) (x y : Z) : bool :=
  match o with
  | CGe => y <=? x
  | CGt => y <? x
  | CLe => x <=? y
  | CLt => x <? y
  | CEq => x =? y
  | CNe => negb (x =? y)
  end.

Definition msg_at (st : state) (z : Z) : option msg :=
  if (0 <=? z) && (z <? Z.of_nat (length (msgs st))) then nth_error (msgs st) (Z.to_nat z) else None.

Definition lenZ {A} (l : list A) : Z := Z.of_N (len l).

Fixpoint eval (cx : ctx) (e : expr) (st : state) : option Z :=
  match e with
  | EConst z => Some z
  | EVar x => lookup x (env st)
  | ELenVal => Some (lenZ (b_data (cur st)))
  | ELenBufs => Some (Z.of_nat (length (x_bufs cx)))
  | ELenMsg i =>
      match eval cx i st with
      | Some z => match msg_at st z with Some m => Some (lenZ (m_data m)) | None => None end
      | None => None
      end
  | ECapMsg i =>
      match eval cx i st with
      | Some z => match msg_at st z with Some m => Some (Z.of_N (m_cap m)) | None => None end
      | None => None
      end
  | EAdd a b =>
      match eval cx a st with
      | Some x => match eval cx b st with Some y => Some (x + y) | None => None end
      | None => None
      end
  | ESub a b =>
      match eval cx a st with
      | Some x => match eval cx b st with Some y => Some (x - y) | None => None end
      | None => None
      end
  | EUnknown _ => None
  end.

Fixpoint evalb (cx : ctx) (b : bexpr) (st : state) : option bool :=
  match b with
  | BLit v => Some v
  | BVar x => match lookup x (env st) with Some z => Some (negb (z =? 0)) | None => None end
  | BNot a => match evalb cx a st with Some v => Some (negb v) | None => None end
  | BAnd a b =>
      match evalb cx a st with
      | Some true => evalb cx b st
      | Some false => Some false
      | None => None
      end
  | BCmp o a b =>
      match eval cx a st with
      | Some x => match eval cx b st with Some y => Some (cmpop_sem o x y) | None => None end
      | None => None
      end
  | BIs6 => Some (x_is6 cx)
  | BUnknown _ => None
  end.

Definition set_var (x : string) (v : Z) (st : state) : option outcome :=
  match update x v (env st) with
  | Some e' => Some (Normal {| env := e'; cur := cur st; msgs := msgs st |})
  | None => None
  end.

(* msgs[e] = f(msgs[e]) *)
Definition upd_msg (cx : ctx) (e : expr) (f : msg -> option msg) (st : state) : option outcome :=
  match eval cx e st with
  | Some z =>
      match msg_at st z with
      | Some m =>
          match f m with
          | Some m' => Some (Normal {| env := env st; cur := cur st; msgs := set_nth (msgs st) (Z.to_nat z) m' |})
          | None => None
          end
      | None => None
      end
  | None => None
  end.

Definition append_buf (b : buf) (m : msg) : option msg :=
  if (len (m_data m) + len (b_data b) <=? m_cap m)%N
  then Some {| m_data := m_data m ++ b_data b; m_cap := m_cap m; m_oob := m_oob m; m_gso := m_gso m;
               m_addr := m_addr m |}
  else None.

Definition andthen (r : option outcome) (k : state -> option outcome) : option outcome :=
  match r with
  | Some (Normal st) => k st
  | other => other
  end.

Fixpoint range_loop (body : state -> option outcome) (ivar : string) (i : Z) (l : list buf) (st : state)
  : option outcome :=
  match l with
  | [] => Some (Normal st)
  | b :: r =>
      match update ivar i (env st) with
      | None => None
      | Some e1 =>
          match body {| env := e1; cur := b; msgs := msgs st |} with
          | Some (Normal st') => range_loop body ivar (i + 1) r st'
          | Some (Continued st') => range_loop body ivar (i + 1) r st'
          | other => other
          end
      end
  end.

Fixpoint exec (cx : ctx) (s : stmt) (st : state) : option outcome :=
  match s with
  | SSkip => Some (Normal st)
  | SSeq a b => andthen (exec cx a st) (exec cx b)
  | SAssign x e => match eval cx e st with Some v => set_var x v st | None => None end
  | SAssignB x b => match evalb cx b st with Some v => set_var x (if v then 1 else 0) st | None => None end
  | SInc x => match lookup x (env st) with Some v => set_var x (v + 1) st | None => None end
  | SIf c t e =>
      match evalb cx c st with
      | Some true => exec cx t st
      | Some false => exec cx e st
      | None => None
      end
  | SRange i body => range_loop (exec cx body) i 0 (x_bufs cx) st
  | SContinue => Some (Continued st)
  | SAppend e => upd_msg cx e (append_buf (cur st)) st
  | SSetGSO e g =>
      match eval cx g st with
      | Some gz =>
          if 0 <=? gz then upd_msg cx e (fun m => Some (x_setGSO cx m (Z.to_N gz mod 65536)%N)) st else None
      | None => None
      end
  | SSetSrc e => upd_msg cx e (fun m => Some (x_setSrc cx m)) st
  | SSetBuf e =>
      upd_msg cx e (fun m => Some {| m_data := b_data (cur st); m_cap := b_cap (cur st); m_oob := m_oob m;
                                     m_gso := m_gso m; m_addr := m_addr m |}) st
  | SSetAddr e =>
      upd_msg cx e (fun m => Some {| m_data := m_data m; m_cap := m_cap m; m_oob := m_oob m;
                                     m_gso := m_gso m; m_addr := x_addr cx |}) st
  | SReturn e => match eval cx e st with Some v => Some (Returned st v) | None => None end
  | SUnknown _ => None
  end.

Definition blank_buf : buf := {| b_data := []; b_cap := 0 |}.

(* n := coalesceMessages(addr, ep, bufs, msgs, setGSO): msgs after the call and n *)
Definition run (locals : list string) (body : stmt) (cx : ctx) (ms0 : list msg) : option (list msg * Z) :=
  match exec cx body {| env := map (fun x => (x, 0)) locals; cur := blank_buf; msgs := ms0 |} with
  | Some (Returned st n) => Some (msgs st, n)
  | _ => None
  end.
