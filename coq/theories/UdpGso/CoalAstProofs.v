(* C18, source tie: the interpreter of UdpGso/CoalAst.v run on the term that harness/cmd/gsoast prints from the
   SOURCE of conn/bind_std.go coalesceMessages (Gen/GsoAst.v) equals UdpGso/Model.v coalesce. *)
From Coq Require Import String.
From WG Require Import Base.Prelude Gen.Constants UdpGso.Model UdpGso.KernelSpec UdpGso.Proofs UdpGso.CoalAst Gen.GsoAst.
Local Open Scope Z_scope.

(* the pooled message as putMessages leaves it: control of length 0 *)
Definition blank : msg := {| m_data := []; m_cap := 0; m_oob := []; m_gso := []; m_addr := 0 |}.

(* the parameters of the call, from the configuration of the model: setGSO is the mirror of setGSOSize,
   setSrcControl the mirror Model.set_src_over *)
Definition mk_cx (c : cfg) (bufs : list buf) : ctx :=
  {| x_bufs := bufs; x_is6 := c_is6 c; x_addr := c_addr c; x_setGSO := set_gso c;
     x_setSrc := fun m => {| m_data := m_data m; m_cap := m_cap m; m_oob := fst (set_src_over c m);
                             m_gso := snd (set_src_over c m); m_addr := m_addr m |} |}.

Definition run_coal (c : cfg) (bufs : list buf) (k : nat) : option (list msg * Z) :=
  run coal_locals coal_body (mk_cx c bufs) (repeat blank k).

(* ---------------------------------------------------------------- *)
(* the pieces of the generated term                                  *)
(* ---------------------------------------------------------------- *)
Definition pre1 : stmt := Eval cbv in match coal_body with SSeq a _ => a | _ => SSkip end.
Definition pre2 : stmt := Eval cbv in match coal_body with SSeq _ (SSeq a _) => a | _ => SSkip end.
Definition pre3 : stmt := Eval cbv in match coal_body with SSeq _ (SSeq _ (SSeq a _)) => a | _ => SSkip end.
Definition loop_body : stmt := Eval cbv in
  match coal_body with SSeq _ (SSeq _ (SSeq _ (SSeq (SRange _ b) _))) => b | _ => SSkip end.
Definition ret_part : stmt := Eval cbv in
  match coal_body with SSeq _ (SSeq _ (SSeq _ (SSeq _ r))) => r | _ => SSkip end.
Definition join_part : stmt := Eval cbv in match loop_body with SSeq a _ => a | _ => SSkip end.
Definition tail_part : stmt := Eval cbv in match loop_body with SSeq _ (SSeq b _) => b | _ => SSkip end.
Definition tail_rest : stmt := Eval cbv in match loop_body with SSeq _ (SSeq _ r) => r | _ => SSkip end.
Definition tail_all : stmt := Eval cbv in match loop_body with SSeq _ b => b | _ => SSkip end.

Lemma coal_split :
  coal_body = SSeq pre1 (SSeq pre2 (SSeq pre3 (SSeq (SRange "i" (SSeq join_part tail_all)) ret_part))).
Proof. reflexivity. Qed.

Lemma tail_all_eq : tail_all = SSeq tail_part tail_rest.
Proof. reflexivity. Qed.

Lemma exec_seq_normal cx a b st st' : exec cx a st = Some (Normal st') -> exec cx (SSeq a b) st = exec cx b st'.
Proof. intros H. cbn [exec]. rewrite H. reflexivity. Qed.

Definition envI (basez g cnt : Z) (e : bool) (mp i a b f : Z) : list (string * Z) :=
  [("base"%string, basez); ("gsoSize"%string, g); ("dgramCnt"%string, cnt);
   ("endBatch"%string, if e then 1 else 0); ("maxPayloadLen"%string, mp); ("i"%string, i);
   ("msgLen"%string, a); ("baseLenBefore"%string, b); ("freeBaseCap"%string, f)].

(* ---------------------------------------------------------------- *)
(* the message vector as a zipper                                    *)
(* ---------------------------------------------------------------- *)
Lemma msg_at_mid e cu l (a : list msg) m rest z :
  l = a ++ m :: rest -> z = Z.of_nat (length a) ->
  msg_at {| env := e; cur := cu; msgs := l |} z = Some m.
Proof.
  intros -> ->. unfold msg_at. cbn [msgs]. rewrite app_length. cbn [length].
  replace ((0 <=? Z.of_nat (length a)) && (Z.of_nat (length a) <? Z.of_nat (length a + S (length rest)))) with true
    by (symmetry; apply andb_true_iff; split; [apply Z.leb_le | apply Z.ltb_lt]; lia).
  rewrite Nat2Z.id, nth_error_app2 by lia. rewrite Nat.sub_diag. reflexivity.
Qed.

Lemma set_nth_mid (a : list msg) m rest m' : set_nth (a ++ m :: rest) (length a) m' = a ++ m' :: rest.
Proof. induction a as [|h t IH]; cbn; [reflexivity | now rewrite IH]. Qed.

Lemma set_mid l (a : list msg) m rest z m' :
  l = a ++ m :: rest -> z = Z.of_nat (length a) -> set_nth l (Z.to_nat z) m' = a ++ m' :: rest.
Proof. intros -> ->. rewrite Nat2Z.id. apply set_nth_mid. Qed.

Lemma set_gso_mod c m g : set_gso c m (Z.to_N (Z.of_N g) mod 65536)%N = set_gso c m g.
Proof. rewrite N2Z.id. unfold set_gso. rewrite N.mod_mod by lia. reflexivity. Qed.

Lemma zltb_N a b : (Z.of_N a <? Z.of_N b) = (a <? b)%N.
Proof. destruct (Z.ltb_spec (Z.of_N a) (Z.of_N b)), (N.ltb_spec a b); try reflexivity; exfalso; lia. Qed.
Lemma zleb_N a b : (Z.of_N a <=? Z.of_N b) = (a <=? b)%N.
Proof. destruct (Z.leb_spec (Z.of_N a) (Z.of_N b)), (N.leb_spec a b); try reflexivity; exfalso; lia. Qed.

Lemma zle0 g : (0 <=? Z.of_N g) = true.
Proof. apply Z.leb_le; lia. Qed.
Lemma len_snoc (a : list msg) m : Z.of_nat (length a) + 1 = Z.of_nat (length (a ++ [m])).
Proof. rewrite app_length; cbn; lia. Qed.

Lemma zlt0_N l : (0 <? Z.of_N l) = (0 <? l)%N.
Proof. apply (zltb_N 0 l). Qed.
Lemma zlt64_N l : (Z.of_N l <? 64) = (l <? 64)%N.
Proof. apply (zltb_N l 64). Qed.
Lemma zsub_N l cp b : (0 <? l)%N = true -> (Z.of_N l <=? Z.of_N cp - Z.of_N b) = (l <=? cp - b)%N.
Proof.
  intros H. apply N.ltb_lt in H.
  destruct (Z.leb_spec (Z.of_N l) (Z.of_N cp - Z.of_N b)), (N.leb_spec l (cp - b)); try reflexivity; exfalso; lia.
Qed.
Lemma append_fits l cp b : (0 <? l)%N = true -> (l <=? cp - b)%N = true -> (b + l <=? cp)%N = true.
Proof. intros H1 H2. apply N.ltb_lt in H1. apply N.leb_le in H2. apply N.leb_le. lia. Qed.
Lemma zadd_N a b : Z.of_N a + Z.of_N b = Z.of_N (a + b).
Proof. lia. Qed.
Lemma last_flag {A} (r : list A) iz n :
  iz + Z.of_nat (length (r)) + 1 = n -> (iz =? n - 1) = match r with [] => true | _ => false end.
Proof. intros H. destruct r; cbn [length] in H; destruct (Z.eqb_spec iz (n - 1)); try reflexivity; exfalso; lia. Qed.

Section Sym.
Local Arguments msg_at : simpl never.
Local Arguments set_nth : simpl never.
Local Arguments lenZ : simpl never.
Local Arguments len : simpl never.
Local Arguments Z.add : simpl never.
Local Arguments Z.sub : simpl never.
Local Arguments Z.leb : simpl never.
Local Arguments Z.ltb : simpl never.
Local Arguments Z.eqb : simpl never.
Local Arguments Z.of_N : simpl never.
Local Arguments Z.of_nat : simpl never.
Local Arguments Z.to_N : simpl never.
Local Arguments Z.to_nat : simpl never.
Local Arguments N.modulo : simpl never.
Local Arguments N.leb : simpl never.
Local Arguments N.ltb : simpl never.
Local Arguments N.add : simpl never.
Local Arguments set_gso : simpl never.
Local Arguments set_src_over : simpl never.
Local Arguments set_src : simpl never.
Local Arguments app : simpl never.
Local Arguments length : simpl never.
Local Arguments append_buf : simpl never.

Definition newmsg (c : cfg) (bf : buf) : msg :=
  {| m_data := b_data bf; m_cap := b_cap bf; m_oob := set_src c []; m_gso := []; m_addr := c_addr c |}.

Lemma src_blank c : fst (set_src_over c blank) = set_src c [] /\ snd (set_src_over c blank) = [].
Proof. unfold set_src_over, set_src, blank. cbn. destruct (c_oobcap c <? len (c_src c))%N; split; reflexivity. Qed.

(* the tail of the loop body: close msgs[base], open the next one *)
Lemma tail_ok c bufs (a : list msg) m rest g cnt e mp i x y z bf :
  exec (mk_cx c bufs) tail_all
    {| env := envI (Z.of_nat (length a)) (Z.of_N g) (Z.of_N cnt) e mp i x y z; cur := bf;
       msgs := a ++ m :: blank :: rest |} =
  Some (Normal
    {| env := envI (Z.of_nat (length (a ++ [if (1 <? cnt)%N then set_gso c m g else m])))
                   (lenZ (b_data bf)) 1 false mp i x y z; cur := bf;
       msgs := (a ++ [if (1 <? cnt)%N then set_gso c m g else m]) ++ newmsg c bf :: rest |}).
Proof.
  set (m' := if (1 <? cnt)%N then set_gso c m g else m).
  assert (E : exec (mk_cx c bufs) tail_part
    {| env := envI (Z.of_nat (length a)) (Z.of_N g) (Z.of_N cnt) e mp i x y z; cur := bf;
       msgs := a ++ m :: blank :: rest |} =
    Some (Normal {| env := envI (Z.of_nat (length a)) (Z.of_N g) (Z.of_N cnt) e mp i x y z; cur := bf;
       msgs := a ++ m' :: blank :: rest |})).
  { unfold tail_part, envI. cbn.
    change (1 <? Z.of_N cnt) with (Z.of_N 1 <? Z.of_N cnt). rewrite zltb_N.
    subst m'. destruct (1 <? cnt)%N; cbn; [|reflexivity].
    rewrite zle0.
    unfold upd_msg. cbn.
    rewrite (msg_at_mid _ _ _ a m (blank :: rest) _ eq_refl eq_refl).
    rewrite (set_mid _ a m (blank :: rest) _ _ eq_refl eq_refl), set_gso_mod. reflexivity. }
  rewrite tail_all_eq, (exec_seq_normal _ _ _ _ _ E). clear E. unfold tail_rest, envI. cbn.
  assert (Hz : Z.of_nat (length a) + 1 = Z.of_nat (length (a ++ [m']))) by apply len_snoc.
  assert (Hl : a ++ m' :: blank :: rest = (a ++ [m']) ++ blank :: rest) by (rewrite <- app_assoc; reflexivity).
  unfold upd_msg. cbn.
  rewrite (msg_at_mid _ _ _ (a ++ [m']) blank rest _ Hl Hz). cbn.
  rewrite (set_mid _ (a ++ [m']) blank rest _ _ Hl Hz).
  rewrite (msg_at_mid _ _ _ (a ++ [m']) _ rest _ eq_refl Hz). cbn.
  rewrite (set_mid _ (a ++ [m']) _ rest _ _ eq_refl Hz).
  rewrite (msg_at_mid _ _ _ (a ++ [m']) _ rest _ eq_refl Hz). cbn.
  rewrite (set_mid _ (a ++ [m']) _ rest _ _ eq_refl Hz).
  rewrite Hz. unfold newmsg. cbn. destruct (src_blank c) as [-> ->]. reflexivity.
Qed.

Lemma join_ok c bufs (a : list msg) m rest s iz x y z bf :
  0 < iz ->
  exec (mk_cx c bufs) join_part
    {| env := envI (Z.of_nat (length a)) (Z.of_N (s_gso s)) (Z.of_N (s_cnt s)) (s_end s)
                   (Z.of_N (max_payload c)) iz x y z; cur := bf; msgs := a ++ m :: rest |} =
  if can_join c s m bf then
    Some (Continued
      {| env := envI (Z.of_nat (length a)) (Z.of_N (s_gso s)) (Z.of_N (s_cnt s + 1))
                     (if (len (b_data bf) <? s_gso s)%N then true else s_end s)
                     (Z.of_N (max_payload c)) iz (lenZ (b_data bf)) (lenZ (m_data m))
                     (Z.of_N (m_cap m) - lenZ (m_data m)); cur := bf;
         msgs := a ++ (let m1 := {| m_data := m_data m ++ b_data bf; m_cap := m_cap m; m_oob := m_oob m;
                                   m_gso := m_gso m; m_addr := m_addr m |} in
                       if iz =? Z.of_nat (length bufs) - 1 then set_gso c m1 (s_gso s) else m1) :: rest |})
  else
    Some (Normal
      {| env := envI (Z.of_nat (length a)) (Z.of_N (s_gso s)) (Z.of_N (s_cnt s)) (s_end s)
                     (Z.of_N (max_payload c)) iz (lenZ (b_data bf)) (lenZ (m_data m))
                     (Z.of_N (m_cap m) - lenZ (m_data m)); cur := bf; msgs := a ++ m :: rest |}).
Proof.
  intros Hi. apply Z.ltb_lt in Hi. unfold join_part, envI. cbn. rewrite Hi. cbn.
  rewrite (msg_at_mid _ _ _ a m rest _ eq_refl eq_refl). cbn.
  rewrite (msg_at_mid _ _ _ a m rest _ eq_refl eq_refl). cbn.
  unfold lenZ. rewrite zlt0_N, zadd_N, !zleb_N, zlt64_N.
  unfold can_join, conn_udpSegmentMaxDatagrams.
  destruct (0 <? len (b_data bf))%N eqn:E1; cbn; [|reflexivity].
  destruct (len (b_data bf) + len (m_data m) <=? max_payload c)%N eqn:E2; cbn; [|reflexivity].
  destruct (len (b_data bf) <=? s_gso s)%N eqn:E3; cbn; [|reflexivity].
  rewrite (zsub_N _ _ _ E1).
  destruct (len (b_data bf) <=? m_cap m - len (m_data m))%N eqn:E4; cbn; [|reflexivity].
  destruct (s_cnt s <? 64)%N eqn:E5; cbn; [|reflexivity].
  destruct (s_end s) eqn:E6; cbn.
  { change (1 =? 0) with false. cbn. reflexivity. }
  change (0 =? 0) with true. cbn.
  unfold upd_msg. cbn. rewrite (msg_at_mid _ _ _ a m rest _ eq_refl eq_refl).
  unfold append_buf. rewrite (append_fits _ _ _ E1 E4).
  rewrite (set_mid _ a m rest _ _ eq_refl eq_refl). cbn.
  destruct (iz =? Z.of_nat (length bufs) - 1); cbn.
  - rewrite zle0. cbn. rewrite (msg_at_mid _ _ _ a _ rest _ eq_refl eq_refl).
    rewrite (set_mid _ a _ rest _ _ eq_refl eq_refl), set_gso_mod. cbn.
    rewrite zltb_N, <- zadd_N.
    destruct (len (b_data bf) <? s_gso s)%N; cbn; reflexivity.
  - rewrite zltb_N, <- zadd_N.
    destruct (len (b_data bf) <? s_gso s)%N; cbn; reflexivity.
Qed.

Lemma first_ok c bufs rest mp bf :
  exec (mk_cx c bufs) (SSeq join_part tail_all)
    {| env := envI (-1) 0 0 false mp 0 0 0 0; cur := bf; msgs := blank :: rest |} =
  Some (Normal {| env := envI 0 (lenZ (b_data bf)) 1 false mp 0 0 0 0; cur := bf; msgs := newmsg c bf :: rest |}).
Proof.
  unfold join_part, tail_all, envI. cbn. change (0 <? 0) with false. cbn. change (1 <? 0) with false. cbn.
  change (-1 + 1) with 0. unfold upd_msg. cbn.
  rewrite (msg_at_mid _ _ _ [] blank rest 0 eq_refl eq_refl). cbn.
  rewrite (set_mid _ [] blank rest 0 _ eq_refl eq_refl).
  rewrite (msg_at_mid _ _ _ [] _ rest 0 eq_refl eq_refl). cbn.
  rewrite (set_mid _ [] _ rest 0 _ eq_refl eq_refl).
  rewrite (msg_at_mid _ _ _ [] _ rest 0 eq_refl eq_refl). cbn.
  rewrite (set_mid _ [] _ rest 0 _ eq_refl eq_refl).
  unfold newmsg. cbn. destruct (src_blank c) as [-> ->]. reflexivity.
Qed.

Lemma prefix_ok c bufs K ms :
  exec (mk_cx c bufs) (SSeq pre1 (SSeq pre2 (SSeq pre3 K)))
    {| env := map (fun x => (x, 0)) coal_locals; cur := blank_buf; msgs := ms |} =
  exec (mk_cx c bufs) K
    {| env := envI (-1) 0 0 false (Z.of_N (max_payload c)) 0 0 0 0; cur := blank_buf; msgs := ms |}.
Proof.
  unfold pre1, pre2, pre3, coal_locals, max_payload, envI. cbn. destruct (c_is6 c); cbn; reflexivity.
Qed.

Lemma ret_ok cx bz g cn e mp i x y z bf ms :
  exec cx ret_part {| env := envI bz g cn e mp i x y z; cur := bf; msgs := ms |} =
  Some (Returned {| env := envI bz g cn e mp i x y z; cur := bf; msgs := ms |} (bz + 1)).
Proof. reflexivity. Qed.

Lemma update_i bz g cn e mp i x y z v :
  update "i" v (envI bz g cn e mp i x y z) = Some (envI bz g cn e mp v x y z).
Proof. reflexivity. Qed.
End Sym.

Definition stI (c : cfg) (s : st) (m : msg) (i x y z : Z) (bf : buf) (rest : list msg) : state :=
  {| env := envI (Z.of_nat (length (rev (s_done s)))) (Z.of_N (s_gso s)) (Z.of_N (s_cnt s)) (s_end s)
                 (Z.of_N (max_payload c)) i x y z; cur := bf; msgs := rev (s_done s) ++ m :: rest |}.

(* one iteration with i > 0 is Model.step *)
Lemma body_step c bufs s m rest iz x y z bf last :
  s_cur s = Some m -> 0 < iz -> (iz =? Z.of_nat (length bufs) - 1) = last ->
  exists s' m' x' y' z' rest',
    s' = step c s bf true last /\ s_cur s' = Some m' /\ (rest' = blank :: rest \/ rest' = rest) /\
    (exec (mk_cx c bufs) (SSeq join_part tail_all) (stI c s m iz x y z bf (blank :: rest)) =
       Some (Normal (stI c s' m' iz x' y' z' bf rest')) \/
     exec (mk_cx c bufs) (SSeq join_part tail_all) (stI c s m iz x y z bf (blank :: rest)) =
       Some (Continued (stI c s' m' iz x' y' z' bf rest'))).
Proof.
  intros Hc Hi Hl. unfold stI. cbn [exec]. rewrite join_ok by exact Hi. unfold step. rewrite Hc.
  destruct (can_join c s m bf).
  - cbn [andthen]. do 6 eexists. split; [reflexivity|]. cbn [s_cur s_done s_gso s_cnt s_end].
    split; [reflexivity|]. split; [left; reflexivity|]. right. rewrite Hl. reflexivity.
  - cbn [andthen]. rewrite tail_ok. unfold fresh. rewrite Hc.
    do 6 eexists. split; [reflexivity|]. cbn [s_cur s_done s_gso s_cnt s_end app rev].
    split; [reflexivity|]. split; [right; reflexivity|]. left. reflexivity.
Qed.

Lemma loop_ok c bufs : forall r s m n iz i0 x y z bf,
  s_cur s = Some m -> 0 < iz -> iz + Z.of_nat (length r) = Z.of_nat (length bufs) -> (length r <= n)%nat ->
  exists s' m' n' i' x' y' z' bf',
    range_loop (exec (mk_cx c bufs) (SSeq join_part tail_all)) "i" iz r (stI c s m i0 x y z bf (repeat blank n)) =
      Some (Normal (stI c s' m' i' x' y' z' bf' (repeat blank n'))) /\
    s_cur s' = Some m' /\ s' = loop c s r true.
Proof.
  induction r as [|b r IH]; intros s m n iz i0 x y z bf Hc Hi Hlen Hn.
  - exists s, m, n, i0, x, y, z, bf. cbn [range_loop loop]. auto.
  - cbn [length] in Hlen, Hn. destruct n as [|n]; [lia|].
    assert (Hlast : (iz =? Z.of_nat (length bufs) - 1) = match r with [] => true | _ => false end)
      by (apply last_flag; lia).
    destruct (body_step c bufs s m (repeat blank n) iz x y z b _ Hc Hi Hlast)
      as (s' & m' & x' & y' & z' & rest' & Hs & Hc' & Hr & He).
    cbn [range_loop loop]. rewrite <- Hs.
    unfold stI at 1. cbn [env cur msgs repeat]. rewrite update_i.
    unfold stI at 1 3 in He.
    change (msgs (stI c s m i0 x y z bf (blank :: repeat blank n))) with (rev (s_done s) ++ m :: blank :: repeat blank n).
    destruct He as [He|He]; rewrite He; destruct Hr as [-> | ->];
      try change (blank :: repeat blank n) with (repeat blank (S n));
      apply IH; try assumption; lia.
Qed.

Lemma exec_seq_eq cx a b st : exec cx (SSeq a b) st = andthen (exec cx a st) (exec cx b).
Proof. reflexivity. Qed.
Lemma exec_range_eq cx i b st : exec cx (SRange i b) st = range_loop (exec cx b) i 0 (x_bufs cx) st.
Proof. reflexivity. Qed.

(* The interpreter, run on the term printed from the source, computes Model.coalesce: same messages
   (contents, capacity, control data, address) in the same order, the rest of the vector untouched,
   and the count returned is their number.  For ALL batches and configurations. *)
Theorem coalesce_ast_eq c bufs k :
  (length bufs <= k)%nat ->
  exists n, run_coal c bufs k =
            Some (coalesce c bufs ++ repeat blank n, Z.of_nat (length (coalesce c bufs))).
Proof.
  intros Hk. unfold run_coal, run. rewrite coal_split, prefix_ok, exec_seq_eq, exec_range_eq.
  destruct bufs as [|b0 r].
  - change (x_bufs (mk_cx c [])) with (@nil buf). cbn [range_loop andthen]. rewrite ret_ok. exists k. reflexivity.
  - cbn [length] in Hk. destruct k as [|k]; [lia|].
    change (x_bufs (mk_cx c (b0 :: r))) with (b0 :: r).
    cbn [range_loop env cur msgs repeat]. rewrite update_i.
    rewrite first_ok.
    pose (s1 := fresh c st0 b0).
    destruct (loop_ok c (b0 :: r) r s1 (newmsg c b0) k (0 + 1) 0 0 0 0 b0 eq_refl) as
      (s' & m' & n' & i' & x' & y' & z' & bf' & Hrun & Hc' & Hs'); [lia | cbn [length]; lia | lia |].
    change {| env := envI 0 (lenZ (b_data b0)) 1 false (Z.of_N (max_payload c)) 0 0 0 0; cur := b0;
              msgs := newmsg c b0 :: repeat blank k |} with (stI c s1 (newmsg c b0) 0 0 0 0 b0 (repeat blank k)).
    rewrite Hrun. cbn [andthen]. unfold stI. rewrite ret_ok. exists n'.
    unfold coalesce. cbn [loop]. change (step c st0 b0 false _) with s1. rewrite <- Hs'.
    unfold msgs_of. rewrite Hc', <- app_assoc, len_snoc with (m := m'). reflexivity.
Qed.

Print Assumptions coalesce_ast_eq.

(* with Proofs.send_transparent: what the interpreted source hands to the kernel reaches the wire as the
   datagrams of the batch, each its own, unchanged, in order *)
Corollary coalesce_ast_transparent c bufs k :
  (length bufs <= k)%nat -> wf_cfg c -> Forall wf_buf bufs ->
  exists ms n, run_coal c bufs k = Some (ms, n) /\
               flat_map kernel_send (firstn (Z.to_nat n) ms) = map b_data bufs.
Proof.
  intros Hk Hc Hb. destruct (coalesce_ast_eq c bufs k Hk) as [n H]. eexists _, _. split; [exact H|].
  rewrite Nat2Z.id, firstn_app, Nat.sub_diag, firstn_all. cbn [firstn]. rewrite app_nil_r.
  apply send_transparent; assumption.
Qed.
Print Assumptions coalesce_ast_transparent.

(* ---------------------------------------------------------------- *)
(* executable comparison and the grid                                *)
(* ---------------------------------------------------------------- *)
Fixpoint leqb (a b : list N) : bool :=
  match a, b with
  | [], [] => true
  | x :: a', y :: b' => (x =? y)%N && leqb a' b'
  | _, _ => false
  end.
Definition msg_eqb (a b : msg) : bool :=
  leqb (m_data a) (m_data b) && (m_cap a =? m_cap b)%N && leqb (m_oob a) (m_oob b) &&
  leqb (m_gso a) (m_gso b) && (m_addr a =? m_addr b)%N.
Fixpoint msgs_eqb (a b : list msg) : bool :=
  match a, b with
  | [], [] => true
  | x :: a', y :: b' => msg_eqb x y && msgs_eqb a' b'
  | _, _ => false
  end.

(* interpreter = model on one batch given by its (length, slack) pairs: same messages, same control, same count,
   the rest of the vector untouched *)
Definition mkbufs (l : list (N * N)) : list buf :=
  map (fun p => {| b_data := repeat (fst p mod 251)%N (N.to_nat (fst p)); b_cap := (fst p + snd p)%N |}) l.
Definition agree (c : cfg) (l : list (N * N)) : bool :=
  let bufs := mkbufs l in
  let k := S (length bufs) in
  let want := coalesce c bufs in
  match run_coal c bufs k with
  | Some (ms, n) => (n =? Z.of_nat (length want)) && msgs_eqb ms (want ++ repeat blank (k - length want))
  | None => false
  end.

Definition cfg4 : cfg := {| c_is6 := false; c_src := [1; 2; 3]%N; c_oobcap := 100; c_addr := 7 |}.
Definition cfg6 : cfg := {| c_is6 := true; c_src := [1; 2; 3]%N; c_oobcap := 30; c_addr := 9 |}.
Definition cfg0 : cfg := {| c_is6 := false; c_src := [1; 2; 3]%N; c_oobcap := 2; c_addr := 9 |}.

Definition sizes : list N := [0; 1; 2; 3; 5]%N.
Definition triples : list (list (N * N)) :=
  flat_map (fun a => flat_map (fun b => flat_map (fun d => map (fun sl => [(a, sl); (b, sl); (d, sl)]) [0; 4; 100]%N) sizes) sizes) sizes.
Definition quads : list (list (N * N)) :=
  flat_map (fun a => flat_map (fun b => map (fun d => [(3, 50); (a, 0); (b, 9); (d, 9); (3, 9)]%N) sizes) sizes) sizes.
Definition rep (n : nat) (a s : N) : list (N * N) := repeat (a, s) n.
Definition big : list (list (N * N)) :=
  [ (1456, 70000)%N :: rep 44 1456%N 0%N;            (* 45 * 1456 = 65520 > 65507 *)
    (1456, 70000)%N :: rep 43 1456%N 0%N ++ [(1443, 0)%N];   (* total 65507 exactly *)
    (1456, 70000)%N :: rep 43 1456%N 0%N ++ [(1444, 0)%N];   (* total 65508 *)
    (1456, 70000)%N :: rep 43 1456%N 0%N ++ [(1463, 0)%N; (1, 0)%N];
    (1023, 70000)%N :: rep 63 1023%N 0%N ++ [(1023, 0)%N; (1023, 0)%N];  (* 66 datagrams, 64 limit *)
    (1, 70000)%N :: rep 130 1%N 0%N;                      (* 131 datagrams *)
    (1, 63)%N :: rep 70 1%N 0%N;                          (* capacity cut at 64 bytes *)
    (65507, 10)%N :: [(1, 0)%N];
    (65506, 10)%N :: [(1, 0)%N; (1, 0)%N];
    (2, 70000)%N :: rep 70 2%N 0%N ++ [(1, 0); (2, 0); (0, 0); (2, 0); (2, 0)]%N ].

Example grid_small : forallb (fun c => forallb (agree c) (triples ++ quads)) [cfg4; cfg6; cfg0] = true.
Proof. vm_compute. reflexivity. Qed.
Example grid_big : forallb (agree cfg4) big && forallb (agree cfg6) big = true.
Proof. vm_compute. reflexivity. Qed.
Example grid_count : (length (triples ++ quads) * 3 + length big * 2)%nat = 1520%nat.
Proof. vm_compute. reflexivity. Qed.
