(* Correspondence checker for C03.

   A case is a co-simulation scenario: what the harness did to the real device
   (events carry how each message was CONSTRUCTED: which static key, which
   responder key it was addressed to, which key MAC1 was keyed with, which psk,
   which ephemeral, which initiation a response answers) and what was observed
   (descriptors of every datagram / TUN write, the verdict of the harness's
   own protocol implementation [ref], the keypair slots of every peer).

   kind 1: the slice model of the device (Noise/Model.dev_step), run against
           paper parties (Noise/Paper) that build their messages from the
           descriptors, predicts something else than was observed;
   kind 2: the property itself ([holdsb]) fails on the observed trace;
   kind 3 (reported as 2): a device-emitted handshake message does not decode
           with Wire/Codec to the fields ref parsed.

   Depends only on Model / Paper / Codec, not on proof files. *)
From WG Require Import Base.Prelude Gen.Constants Sym.Term Noise.Msg Noise.Model Noise.Paper Wire.Codec.
From WG Require Import Base.Ints.
Local Open Scope N_scope.

(* ---------------------------------------------------------------- events *)
Inductive hev :=
| HRInit (xid : N) (s r mk e : kid) (idx ts : N) (pskid : nat) (er : kid) (ir : N)
    (* ref party with static s sends an initiation built for responder key r, MAC1 keyed for mk;
       er, ir: ephemeral / index of the device's response if one is seen *)
| HRResp (xid : N) (ans : N) (r : kid) (pskid : nat) (e : kid) (idx : N)
    (* ref party with static r answers the device initiation of exchange [ans] *)
| HRData (xid : N) (ctr : N) (keepalive : bool)
    (* ref sends a transport message under the keys it derived in exchange xid *)
| HTun (xid : N) (p : kid) (e : kid) (ts idx : N)
    (* a packet for peer p enters the TUN; xid, e, ts, idx: if the device initiates *)
| HKick (xid : N) (p : kid) (e : kid) (ts idx : N)
    (* hook: SendHandshakeInitiation(false) for peer p *)
| HRestart
    (* Device.Down(); Device.Up() *)
| HRInitKey (xid : N) (s r mk e : kid) (idx ts : N) (pskid : nat) (er : kid) (ir : N) (new : kid)
    (* as HRInit, and UAPI private_key=<key new> issued while the handshake worker sits between
       ConsumeMessageInitiation and SendHandshakeResponse (after the worker is done if it never gets there) *)
| HRInitLoad (xid : N) (s r mk e : kid) (idx ts : N) (pskid : nat) (er : kid) (ir : N) (ckid : N) (withmac2 : bool)
    (* as HRInit while the device is under load; ckid names the cookie the device hands out to this source
       (read off its reply; 0 if the reply could not be opened); withmac2: the initiation carries MAC2 under it *)
| HGhost (k : kid)
    (* UAPI set  public_key=<pub k> update_only=true ...  for a key that is NOT configured: creates nothing *)
| HAge (secs : N)
    (* hook: every peer's received cookie ages by secs seconds (far from the 120 s boundary) *)
| HSetKey (new : kid)
    (* UAPI private_key=<key new>: the device's identity changes *)
| HCookie (keykid : kid) (msgx adx : N) (garbage : bool) (cid : N).
    (* a cookie reply addressed to the sender index of the device's handshake message of exchange msgx,
       sealed under Hash("cookie--" || pub(keykid)) with the MAC1 of the device's message of exchange adx
       as associated data (0: unrelated bytes), or not sealed at all (garbage); cid names the cookie *)

Record obs := {
  o_outs : list (list N);      (* descriptors of what the device emitted, in order *)
  o_ref : N;                   (* ref's verdict: 0 none, 1 ok, 2 failed *)
  o_peers : list (list N);     (* per configured peer: [state; previous?; current?; next?] *)
  o_raw : list (list N * list N)   (* handshake messages: raw bytes, fields as ref parsed them *)
}.

Record case := {
  c_dev : kid;
  c_conf : list (kid * nat);   (* configured peers: static key, psk id the device holds *)
  c_parties : list kid;        (* static keys whose private half ref holds *)
  c_steps : list (hev * obs)
}.

(* ---------------------------------------------------------------- descriptors
   init:      [1; to; len; sender; mac1 key owner; mac2 class; opened by]
   response:  [2; to; len; sender; receiver; mac1 key owner; mac2 class]
   mac2 class: 1 = all zero, 2 = Mac(cookie, msg[:smac2]) under a cookie some party issued, 0 = anything else
   transport: [4; to; receiver; exchange whose ref keys open it; keepalive]
   tun write: [5; from]
   init has an 8th field: timestamp is TAI64N of now and not older than the previous one (1/0)
   cookie reply: [3; len; receiver; the addressed initiator can open it (1/0)] *)
Definition b2n (b : bool) : N := if b then 1 else 0.
Definition k2n (k : kid) : N := N.of_nat k.

Fixpoint first_kid (f : kid -> bool) (l : list kid) : N :=
  match l with [] => 0 | k :: r => if f k then k2n k else first_kid f r end.

Record rsess := { rs_xid : N; rs_send : term; rs_recv : term; rs_ridx : N; rs_peer : kid }.
Record dinit := { di_xid : N; di_to : kid; di_msg : init_msg }.
Record world := { w_dev : dev; w_sess : list rsess; w_dinits : list dinit;
                  w_dmsgs : list (N * N * term);   (* device handshake messages: exchange, sender index, MAC1 *)
                  w_cookies : list term;           (* cookies issued by ref parties *)
                  w_refmac1 : term }.              (* MAC1 of the last initiation a ref party sent *)

Definition mac2_class (cookies : list term) (body m1 m2 : term) : N :=
  if is_zero m2 then 1
  else if existsb (fun c => teqb m2 (TMac c (TPair body m1))) cookies then 2 else 0.

Fixpoint opener (key : term) (l : list rsess) : N :=
  match l with [] => 0 | s :: r => if teqb (rs_recv s) key then rs_xid s else opener key r end.

Definition describe (dv : kid) (parties : list kid) (w : world) (o : out) : list N :=
  match o with
  | OInit to m =>
      [1; k2n to; MessageInitiationSize; i_sender m;
       first_kid (fun k => Paper.mac1_valid (TPub k) (init_body m) (i_mac1 m)) (dv :: parties);
       mac2_class (w_cookies w) (init_body m) (i_mac1 m) (i_mac2 m);
       first_kid (fun k => match Paper.consume_initiation k (fun pk => teqb pk (TPub dv)) m with
                           | Some _ => true | None => false end) parties;
       1]   (* the timestamp is a TAI64N label of the time of sending, not older than the previous one *)
  | OResp to m =>
      [2; k2n to; MessageResponseSize; r_sender m; r_receiver m;
       first_kid (fun k => Paper.mac1_valid (TPub k) (resp_body m) (r_mac1 m)) (dv :: parties);
       mac2_class (w_cookies w) (resp_body m) (r_mac1 m) (r_mac2 m)]
  | OTransport to receiver key ka => [4; k2n to; receiver; opener key (w_sess w); b2n ka]
  | OTunWrite from => [5; k2n from]
  | OCookieReply receiver nonce c =>
      (* the initiator opens it under Hash("cookie--" || device key) with the MAC1 of its own message *)
      [3; MessageCookieReplySize; receiver;
       match aead_open (cookie_key (TPub dv)) nonce c (w_refmac1 w) with Some _ => 1 | None => 0 end]
  end.

Fixpoint find_sess (l : list rsess) (x : N) : option rsess :=
  match l with [] => None | s :: r => if rs_xid s =? x then Some s else find_sess r x end.
Fixpoint find_dinit (l : list dinit) (x : N) : option dinit :=
  match l with [] => None | s :: r => if di_xid s =? x then Some s else find_dinit r x end.

Definition peer_state (p : peer) : list N :=
  let has (o : option keypair) := match o with Some _ => 1 | None => 0 end in
  [st (p_hs p); has (previous (p_kp p)); has (current (p_kp p)); has (next (p_kp p))].

Definition remember_inits (xid : N) (outs : list out) (l : list dinit) : list dinit :=
  fold_left (fun acc o => match o with OInit to m => acc ++ [{| di_xid := xid; di_to := to; di_msg := m |}] | _ => acc end) outs l.

Definition set_mac2 (m : init_msg) (t : term) : init_msg :=
  {| i_type := i_type m; i_sender := i_sender m; i_eph := i_eph m; i_static := i_static m;
     i_ts := i_ts m; i_mac1 := i_mac1 m; i_mac2 := t |}.

Definition remember_msgs (xid : N) (outs : list out) (l : list (N * N * term)) : list (N * N * term) :=
  fold_left (fun acc o => match o with
                          | OInit _ m => acc ++ [(xid, i_sender m, i_mac1 m)]
                          | OResp _ m => acc ++ [(xid, r_sender m, r_mac1 m)]
                          | _ => acc end) outs l.
Fixpoint find_dmsg (l : list (N * N * term)) (x : N) : option (N * term) :=
  match l with [] => None | (i, s, m) :: r => if i =? x then Some (s, m) else find_dmsg r x end.

Definition set_mac1 (m : init_msg) (t : term) : init_msg :=
  {| i_type := i_type m; i_sender := i_sender m; i_eph := i_eph m; i_static := i_static m;
     i_ts := i_ts m; i_mac1 := t; i_mac2 := i_mac2 m |}.

(* a ref party sends an initiation; the device reacts as [mkev] says; ref consumes the response, if any *)
Definition ref_initiates (w : world) (xid : N) (s r mk e : kid) (idx ts : N) (pskid : nat) (mkev : init_msg -> ev)
  : world * list out * N :=
      match Paper.initiation s e (TPub r) ts idx with
      | None => (w, [], 0)
      | Some (s1, m) =>
        let m' := set_mac1 m (TMac (THash2 LabelMac1 (TPub mk)) (init_body m)) in
        let '(d', outs) := dev_step (w_dev w) (mkev m') in
        (* ref consumes the response, if any *)
        let '(sess, verdict) :=
          fold_left (fun acc o =>
            match o with
            | OResp _ rm =>
                match Paper.consume_response s e s1 (psk_term pskid) rm with
                | Some s2 => (fst acc ++ [{| rs_xid := xid; rs_send := fst (Paper.initiator_keys s2);
                                             rs_recv := snd (Paper.initiator_keys s2); rs_ridx := r_sender rm; rs_peer := s |}], 1)
                | None =>
                    match Paper.consume_response_unchecked s e s1 (psk_term pskid) rm with
                    | Some s2 => (fst acc ++ [{| rs_xid := xid; rs_send := fst (Paper.initiator_keys s2);
                                                 rs_recv := snd (Paper.initiator_keys s2); rs_ridx := r_sender rm; rs_peer := s |}], 2)
                    | None => (fst acc, 2)
                    end
                end
            | _ => acc
            end) outs (w_sess w, 0) in
        ({| w_dev := d'; w_sess := sess; w_dinits := w_dinits w;
            w_dmsgs := remember_msgs xid outs (w_dmsgs w); w_cookies := w_cookies w; w_refmac1 := i_mac1 m' |}, outs, verdict)
      end.

(* one step of the world: the device slice against paper parties; returns the
   predicted outputs and ref's predicted verdict *)
Definition wstep (w : world) (h : hev) : world * list out * N :=
  let dv := d_static (w_dev w) in
  match h with
  | HRInit xid s r mk e idx ts pskid er ir =>
      ref_initiates w xid s r mk e idx ts pskid (fun m' => EInit m' er ir)
  | HRInitKey xid s r mk e idx ts pskid er ir new =>
      ref_initiates w xid s r mk e idx ts pskid (fun m' => EInitKey m' er ir new)
  | HRInitLoad xid s r mk e idx ts pskid er ir ckid withmac2 =>
      let ck := TC (200 + N.to_nat ckid) in
      ref_initiates w xid s r mk e idx ts pskid
        (fun m' => EInitLoad (if withmac2 then set_mac2 m' (TMac ck (TPair (init_body m') (i_mac1 m'))) else m') er ir ck ckid)
  | HRResp xid ans r pskid e idx =>
      match find_dinit (w_dinits w) ans with
      | None => (w, [], 0)
      | Some di =>
        let m := di_msg di in
        let '(st1, verdict) :=
          match Paper.consume_initiation r (fun pk => teqb pk (TPub dv)) m with
          | Some (s1, _, _) => (Some s1, 1)
          | None => (Paper.consume_initiation_unchecked r (TPub dv) m, 2)
          end in
        match st1 with
        | None => (w, [], verdict)
        | Some s1 =>
          match Paper.response s1 e (i_eph m) (TPub dv) (psk_term pskid) idx (i_sender m) with
          | None => (w, [], verdict)
          | Some (s2, rm) =>
            (* the ref session exists before the device reacts (its keepalive must open under it) *)
            let sess := w_sess w ++ [{| rs_xid := xid; rs_send := fst (Paper.responder_keys s2);
                                        rs_recv := snd (Paper.responder_keys s2); rs_ridx := i_sender m; rs_peer := r |}] in
            let '(d', outs) := dev_step (w_dev w) (EResp rm) in
            ({| w_dev := d'; w_sess := sess; w_dinits := w_dinits w; w_dmsgs := w_dmsgs w; w_cookies := w_cookies w; w_refmac1 := w_refmac1 w |}, outs, verdict)
          end
        end
      end
  | HRData xid ctr ka =>
      match find_sess (w_sess w) xid with
      | None => (w, [], 0)
      | Some s =>
        let '(d', outs) := dev_step (w_dev w)
                             (EData (rs_ridx s) ctr (Paper.transport (rs_send s) ctr (if ka then TEmpty else TJunk 1))) in
        ({| w_dev := d'; w_sess := w_sess w; w_dinits := w_dinits w; w_dmsgs := w_dmsgs w; w_cookies := w_cookies w; w_refmac1 := w_refmac1 w |}, outs, 0)
      end
  | HTun xid p e ts idx =>
      let '(d', outs) := dev_step (w_dev w) (ETun p e ts idx) in
      ({| w_dev := d'; w_sess := w_sess w; w_dinits := remember_inits xid outs (w_dinits w);
          w_dmsgs := remember_msgs xid outs (w_dmsgs w); w_cookies := w_cookies w; w_refmac1 := w_refmac1 w |}, outs, 0)
  | HKick xid p e ts idx =>
      let '(d', outs) := dev_step (w_dev w) (EKick p e ts idx) in
      ({| w_dev := d'; w_sess := w_sess w; w_dinits := remember_inits xid outs (w_dinits w);
          w_dmsgs := remember_msgs xid outs (w_dmsgs w); w_cookies := w_cookies w; w_refmac1 := w_refmac1 w |}, outs, 0)
  | HGhost _ => (w, [], 0)
  | HAge secs =>
      let '(d', outs) := dev_step (w_dev w) (EAge secs) in
      ({| w_dev := d'; w_sess := w_sess w; w_dinits := w_dinits w; w_dmsgs := w_dmsgs w; w_cookies := w_cookies w; w_refmac1 := w_refmac1 w |}, outs, 0)
  | HSetKey new =>
      let '(d', outs) := dev_step (w_dev w) (ESetPrivateKey new) in
      ({| w_dev := d'; w_sess := w_sess w; w_dinits := w_dinits w; w_dmsgs := w_dmsgs w; w_cookies := w_cookies w; w_refmac1 := w_refmac1 w |}, outs, 0)
  | HRestart =>
      let '(d', outs) := dev_step (w_dev w) ERestart in
      ({| w_dev := d'; w_sess := w_sess w; w_dinits := w_dinits w; w_dmsgs := w_dmsgs w; w_cookies := w_cookies w; w_refmac1 := w_refmac1 w |}, outs, 0)
  | HCookie keykid msgx adx garbage cid =>
      match find_dmsg (w_dmsgs w) msgx with
      | None => (w, [], 0)
      | Some (sidx, _) =>
        let ad := match find_dmsg (w_dmsgs w) adx with Some (_, m1) => m1 | None => TJunk 9 end in
        let ck := TC (100 + N.to_nat cid) in
        let c := if garbage then TJunk 8 else TAead (cookie_key (TPub keykid)) cid ck ad in
        let '(d', outs) := dev_step (w_dev w) (ECookie sidx cid c) in
        ({| w_dev := d'; w_sess := w_sess w; w_dinits := w_dinits w; w_dmsgs := w_dmsgs w;
            w_cookies := ck :: w_cookies w; w_refmac1 := w_refmac1 w |}, outs, 0)
      end
  end.

Definition init_world (c : case) : world :=
  {| w_dev := {| d_static := c_dev c;
                 d_peers := map (fun kp => new_peer (fst kp) (new_handshake (Some (c_dev c)) (fst kp) (psk_term (snd kp))))
                                (c_conf c);
                 d_olds := [] |};
     w_sess := []; w_dinits := []; w_dmsgs := []; w_cookies := []; w_refmac1 := TZero |}.

Fixpoint nlist_eqb (a b : list N) : bool :=
  match a, b with
  | [], [] => true
  | x :: a', y :: b' => (x =? y) && nlist_eqb a' b'
  | _, _ => false
  end.
Fixpoint nll_eqb (a b : list (list N)) : bool :=
  match a, b with
  | [], [] => true
  | x :: a', y :: b' => nlist_eqb x y && nll_eqb a' b'
  | _, _ => false
  end.

(* kind 1: first step where the prediction differs from the observation *)
Fixpoint compare (c : case) (w : world) (steps : list (hev * obs)) (i : N) : option N :=
  match steps with
  | [] => None
  | (h, o) :: rest =>
      let '(w', outs, verdict) := wstep w h in
      let pred := map (describe (d_static (w_dev w')) (c_parties c) w') outs in
      if nll_eqb pred (o_outs o) && (verdict =? o_ref o) &&
         nll_eqb (map peer_state (d_peers (w_dev w'))) (o_peers o)
      then compare c w' rest (i + 1) else Some i
  end.

(* ---------------------------------------------------------------- the property
   evaluated on the OBSERVED trace; ground truth comes from the construction
   descriptors of the events only (never from the device model). *)
Fixpoint conf_psk (conf : list (kid * nat)) (s : kid) : option nat :=
  match conf with [] => None | (k, p) :: r => if Nat.eqb k s then Some p else conf_psk r s end.

(* spec state, per static key: greatest timestamp of a well-formed initiation so far,
   the device initiation still open, the exchange whose keypair is the device's
   [current] / the newest keypair-deriving exchange -- all read off observations *)
Record sp := { sp_k : kid; sp_maxts : N; sp_open : option N; sp_cur : option N; sp_last : option N;
               sp_lastmsg : N;   (* exchange of the last handshake message the device sent to this peer *)
               sp_ck : N }.      (* cookie replies that are authentic BY CONSTRUCTION delivered for this peer:
                                    0 none (or expired), 1 one was sent but its index may be dead or time has passed,
                                    2 one was delivered to a live index less than CookieRefreshTime ago: it is held *)
Record xinfo := { x_id : N; x_peer : kid; x_good : bool }.
Record sstate := { ss_sp : list sp; ss_x : list xinfo; ss_di : list (N * kid);
                   ss_dv : kid;            (* the device's current static key *)
                   ss_dead : list kid;     (* peers whose [current] keypair was expired by a key change *)
                   ss_dis : list (N * kid) }.  (* device initiations: the identity they were made under *)
Definition sstate0 (dv : kid) : sstate := {| ss_sp := []; ss_x := []; ss_di := []; ss_dv := dv; ss_dead := []; ss_dis := [] |}.
Definition undead (l : list kid) (p : kid) : list kid := filter (fun x => negb (Nat.eqb x p)) l.
Definition is_dead (l : list kid) (p : kid) : bool := existsb (Nat.eqb p) l.

Fixpoint get_sp (l : list sp) (k : kid) : sp :=
  match l with
  | [] => {| sp_k := k; sp_maxts := 0; sp_open := None; sp_cur := None; sp_last := None; sp_lastmsg := 0; sp_ck := 0 |}
  | s :: r => if Nat.eqb (sp_k s) k then s else get_sp r k
  end.
Definition put_sp (l : list sp) (s : sp) : list sp :=
  s :: filter (fun x => negb (Nat.eqb (sp_k x) (sp_k s))) l.
Fixpoint get_x (l : list xinfo) (x : N) : option xinfo :=
  match l with [] => None | i :: r => if x_id i =? x then Some i else get_x r x end.
Fixpoint get_di (l : list (N * kid)) (x : N) : option kid :=
  match l with [] => None | (i, k) :: r => if i =? x then Some k else get_di r x end.

Definition nth0 (l : list N) (i : nat) : N := nth i l 0.
Definition is_kind (k : N) (d : list N) : bool := nth0 d 0 =? k.
Definition oeq (a : option N) (x : N) : bool := match a with Some y => y =? x | None => false end.

(* every emitted handshake message: size, MAC1 under the addressee's key, MAC2 zero unless a
   cookie reply that is authentic by construction was delivered for that peer before ("absent a
   cookie": a reply that does not authenticate is not a cookie),
   an initiation opens under the addressed (configured) peer's key and carries the device's key *)
Definition hs_msg_ok (conf : list (kid * nat)) (sps : list sp) (d : list N) : bool :=
  let ck := sp_ck (get_sp sps (N.to_nat (nth0 d 1))) in
  (* MAC2: zero absent a cookie; the MAC under a cookie the peer issued when one is held; either when unsure *)
  let mac2_ok (c : N) := match ck with 0 => c =? 1 | 2 => c =? 2 | _ => (c =? 1) || (c =? 2) end in
  if is_kind 1 d then
    (nth0 d 2 =? MessageInitiationSize) && (nth0 d 4 =? nth0 d 1) && mac2_ok (nth0 d 5) && (nth0 d 6 =? nth0 d 1) && (nth0 d 7 =? 1) &&
    (match conf_psk conf (N.to_nat (nth0 d 1)) with Some _ => true | None => false end)
  else if is_kind 2 d then
    (nth0 d 2 =? MessageResponseSize) && (nth0 d 5 =? nth0 d 1) && mac2_ok (nth0 d 6)
  else true.

(* transports go only to the peer of a good exchange and open under its keys *)
Definition transport_ok (xs : list xinfo) (d : list N) : bool :=
  if is_kind 4 d then
    match get_x xs (nth0 d 3) with
    | Some xi => x_good xi && (k2n (x_peer xi) =? nth0 d 1)
    | None => false
    end
  else true.

Definition no_kind (k : N) (l : list (list N)) : bool := forallb (fun d => negb (is_kind k d)) l.
Definition count_kind (k : N) (l : list (list N)) : nat := length (filter (is_kind k) l).

Definition sstep (conf : list (kid * nat)) (s : sstate) (h : hev) (o : obs) : sstate * bool :=
  let dv := ss_dv s in
  let outs := o_outs o in
  let base := forallb (hs_msg_ok conf (ss_sp s)) outs in
  match h with
  | HRInit xid sk r mk e idx ts pskid _ _ =>
      let wellformed := match conf_psk conf sk with Some _ => true | None => false end
                        && Nat.eqb r dv && Nat.eqb mk dv in
      let same_psk := match conf_psk conf sk with Some p => Nat.eqb p pskid | None => false end in
      let good := wellformed && same_psk in
      let q := get_sp (ss_sp s) sk in
      let fresh := sp_maxts q <? ts in
      let responded := negb (no_kind 2 outs) in
      let resp_ok := forallb (fun d => if is_kind 2 d then (nth0 d 1 =? k2n sk) && (nth0 d 4 =? idx) else true) outs in
      let ok :=
        base && resp_ok &&
        (* a response only to a configured key that addressed the device's true key; exactly when fresh *)
        Bool.eqb responded (wellformed && fresh) &&
        (Nat.leb (count_kind 2 outs) 1) &&
        (* ref completes iff the device responded and the preshared keys agree *)
        (o_ref o =? (if responded then (if same_psk then 1 else 2) else 0)) &&
        (* no transport, no TUN write in reaction to an initiation *)
        no_kind 4 outs && no_kind 5 outs && no_kind 1 outs in
      let q' := {| sp_k := sk; sp_maxts := if wellformed && fresh then ts else sp_maxts q;
                   sp_open := if responded then None else sp_open q; sp_cur := sp_cur q;
                   sp_last := if responded then Some xid else sp_last q;
                   sp_lastmsg := if responded then xid else sp_lastmsg q; sp_ck := sp_ck q |} in
      ({| ss_sp := put_sp (ss_sp s) q'; ss_x := {| x_id := xid; x_peer := sk; x_good := good |} :: ss_x s;
          ss_di := ss_di s; ss_dv := ss_dv s; ss_dead := ss_dead s; ss_dis := ss_dis s |}, ok)
  | HRResp xid ans r pskid e idx =>
      match get_di (ss_di s) ans with
      | None => (s, false)
      | Some p =>
        let same_psk := match conf_psk conf p with Some q => Nat.eqb q pskid | None => false end in
        let cur_id := match get_di (ss_dis s) ans with Some i => Nat.eqb i dv | None => false end in
        let good := Nat.eqb r p && same_psk && cur_id in
        let q := get_sp (ss_sp s) p in
        let pending := oeq (sp_open q) ans in
        let accepted := negb (no_kind 4 outs) in
        let ok :=
          base &&
          (* the device reacts (keepalive or staged data under the new keys) iff the exchange is good
             and answers its open initiation *)
          Bool.eqb accepted (good && pending) &&
          forallb (fun d => if is_kind 4 d then (nth0 d 3 =? xid) && (nth0 d 1 =? k2n p) && (nth0 d 2 =? idx) else true) outs &&
          (* ref opens the initiation iff it holds the addressed key, and finds the device's CURRENT key in it
             iff the initiation was made under the current identity *)
          (o_ref o =? (if Nat.eqb r p && (match get_di (ss_dis s) ans with Some i => Nat.eqb i dv | None => false end)
                       then 1 else 2)) &&
          no_kind 1 outs && no_kind 2 outs && no_kind 5 outs in
        let q' := {| sp_k := p; sp_maxts := sp_maxts q; sp_open := if accepted then None else sp_open q;
                     sp_cur := if accepted then Some xid else sp_cur q;
                     sp_last := if accepted then Some xid else sp_last q;
                     sp_lastmsg := sp_lastmsg q; sp_ck := sp_ck q |} in
        ({| ss_sp := put_sp (ss_sp s) q'; ss_x := {| x_id := xid; x_peer := p; x_good := good |} :: ss_x s;
            ss_di := ss_di s; ss_dv := ss_dv s;
            ss_dead := if accepted then undead (ss_dead s) p else ss_dead s; ss_dis := ss_dis s |}, ok)
      end
  | HRData xid ctr ka =>
      match get_x (ss_x s) xid with
      | None => (s, false)
      | Some xi =>
        let q := get_sp (ss_sp s) (x_peer xi) in
        let live := oeq (sp_last q) xid || oeq (sp_cur q) xid in
        let wrote := negb (no_kind 5 outs) in
        let ok :=
          base && forallb (transport_ok (ss_x s)) outs &&
          (* accepted only under the keys of a good exchange, and then from its peer *)
          (if wrote then x_good xi && forallb (fun d => if is_kind 5 d then nth0 d 1 =? k2n (x_peer xi) else true) outs else true) &&
          (* a data packet under the newest keys of a good exchange is accepted *)
          (if x_good xi && live && negb ka then wrote else true) &&
          (if x_good xi then true else no_kind 4 outs) &&
          no_kind 2 outs in
        let q' := {| sp_k := sp_k q; sp_maxts := sp_maxts q; sp_open := sp_open q;
                     sp_cur := if wrote && oeq (sp_last q) xid then Some xid else sp_cur q; sp_last := sp_last q;
                     sp_lastmsg := sp_lastmsg q; sp_ck := sp_ck q |} in
        ({| ss_sp := put_sp (ss_sp s) q'; ss_x := ss_x s; ss_di := ss_di s; ss_dv := ss_dv s;
            ss_dead := if wrote && oeq (sp_last q) xid then undead (ss_dead s) (x_peer xi) else ss_dead s; ss_dis := ss_dis s |}, ok)
      end
  | HTun xid p e ts idx | HKick xid p e ts idx =>
      let q := get_sp (ss_sp s) p in
      let initiated := negb (no_kind 1 outs) in
      let is_tun := match h with HTun _ _ _ _ _ => true | _ => false end in
      let ok :=
        base && forallb (transport_ok (ss_x s)) outs && no_kind 2 outs && no_kind 5 outs &&
        forallb (fun d => if is_kind 1 d then nth0 d 1 =? k2n p else true) outs &&
        forallb (fun d => if is_kind 4 d then nth0 d 1 =? k2n p else true) outs &&
        (if is_tun then
           match (if is_dead (ss_dead s) p then None else sp_cur q) with
           | Some x => (* mirrored keys: the packet leaves under the keys of the confirmed exchange *)
               negb initiated && (Nat.eqb (count_kind 4 outs) 1) &&
               forallb (fun d => if is_kind 4 d then (nth0 d 3 =? x) && (nth0 d 4 =? 0) else true) outs
           | None => (* no confirmed session: nothing is sent but a handshake initiation *)
               no_kind 4 outs && initiated
           end
         else initiated && no_kind 4 outs) in
      let q' := {| sp_k := p; sp_maxts := sp_maxts q; sp_open := if initiated then Some xid else sp_open q;
                   sp_cur := sp_cur q; sp_last := sp_last q;
                   sp_lastmsg := if initiated then xid else sp_lastmsg q; sp_ck := sp_ck q |} in
      ({| ss_sp := put_sp (ss_sp s) q'; ss_x := ss_x s;
          ss_di := if initiated then (xid, p) :: ss_di s else ss_di s; ss_dv := ss_dv s; ss_dead := ss_dead s;
          ss_dis := if initiated then (xid, ss_dv s) :: ss_dis s else ss_dis s |}, ok)
  | HRInitKey xid sk r mk e idx ts pskid _ _ new =>
      (* the identity changes while an initiation is being processed: whatever the initiation was, the
         exchange is void -- no response, no keypair; the initiation may have been consumed (its timestamp
         counts); afterwards as after any key change *)
      let wellformed := match conf_psk conf sk with Some _ => true | None => false end
                        && Nat.eqb r dv && Nat.eqb mk dv in
      let q := get_sp (ss_sp s) sk in
      let fresh := sp_maxts q <? ts in
      let noop := Nat.eqb new dv || existsb (fun kp => Nat.eqb (fst kp) new) conf in
      let q' := {| sp_k := sk; sp_maxts := if wellformed && fresh then ts else sp_maxts q; sp_open := sp_open q;
                   sp_cur := sp_cur q; sp_last := sp_last q; sp_lastmsg := sp_lastmsg q; sp_ck := sp_ck q |} in
      ({| ss_sp := map (fun q => {| sp_k := sp_k q; sp_maxts := sp_maxts q; sp_open := None; sp_cur := sp_cur q;
                                    sp_last := sp_last q; sp_lastmsg := sp_lastmsg q; sp_ck := sp_ck q |})
                       (put_sp (ss_sp s) q');
          ss_x := {| x_id := xid; x_peer := sk; x_good := false |} :: ss_x s;
          ss_di := ss_di s; ss_dv := new; ss_dead := map fst conf; ss_dis := ss_dis s |},
       negb noop && (o_ref o =? 0) && match outs with [] => true | _ => false end)
  | HRInitLoad xid sk r mk e idx ts pskid _ _ ckid withmac2 =>
      (* under load, an initiation without a valid MAC2 whose MAC1 is keyed for the device gets exactly one
         cookie reply, addressed to its sender index, that its sender can open; nothing else happens.
         (With MAC2 under that cookie the step is judged as HRInit: see [norm].) *)
      let n3 := count_kind 3 outs in
      (s, base && no_kind 1 outs && no_kind 2 outs && no_kind 4 outs && no_kind 5 outs && (o_ref o =? 0) &&
          (if Nat.eqb mk dv then Nat.eqb n3 1 else Nat.eqb n3 0) &&
          forallb (fun d => if is_kind 3 d then (nth0 d 1 =? MessageCookieReplySize) && (nth0 d 2 =? idx) && (nth0 d 3 =? 1)
                            else true) outs)
  | HGhost _ =>
      (* update_only for an unknown key configures nobody: nothing is sent, nothing changes *)
      (s, match outs with [] => true | _ => false end)
  | HAge secs =>
      (* a cookie is valid for CookieRefreshTime only: once more than that has passed since it was
         received the device holds no cookie ("absent a cookie") until the next authentic reply;
         shorter ages leave "may hold a cookie" as it is *)
      ({| ss_sp := map (fun q => {| sp_k := sp_k q; sp_maxts := sp_maxts q; sp_open := sp_open q; sp_cur := sp_cur q;
                                    sp_last := sp_last q; sp_lastmsg := sp_lastmsg q;
                                    sp_ck := if CookieRefreshTimeSecs <? secs then 0 else N.min 1 (sp_ck q) |}) (ss_sp s);
          ss_x := ss_x s; ss_di := ss_di s; ss_dv := ss_dv s; ss_dead := ss_dead s; ss_dis := ss_dis s |},
       match outs with [] => true | _ => false end)
  | HSetKey new =>
      (* the identity changes: open initiations are void, nothing more is sent under the keypairs
         negotiated so far (they may still receive); nothing is emitted *)
      ({| ss_sp := map (fun q => {| sp_k := sp_k q; sp_maxts := sp_maxts q; sp_open := None; sp_cur := sp_cur q;
                                    sp_last := sp_last q; sp_lastmsg := sp_lastmsg q; sp_ck := sp_ck q |}) (ss_sp s);
          ss_x := ss_x s; ss_di := ss_di s; ss_dv := new; ss_dead := map fst conf; ss_dis := ss_dis s |},
       match outs with [] => true | _ => false end)
  | HRestart =>
      (* every peer stopped and started: keypairs and open handshakes are gone, nothing is sent;
         the configuration (and the greatest timestamp) stays *)
      ({| ss_sp := map (fun q => {| sp_k := sp_k q; sp_maxts := sp_maxts q; sp_open := None; sp_cur := None;
                                    sp_last := None; sp_lastmsg := sp_lastmsg q; sp_ck := sp_ck q |}) (ss_sp s);
          ss_x := ss_x s; ss_di := ss_di s; ss_dv := ss_dv s; ss_dead := ss_dead s; ss_dis := ss_dis s |},
       match outs with [] => true | _ => false end)
  | HCookie keykid msgx adx garbage cid =>
      let peer := match get_di (ss_di s) msgx with
                  | Some p => Some p
                  | None => match get_x (ss_x s) msgx with Some xi => Some (x_peer xi) | None => None end
                  end in
      match peer with
      | None => (s, false)
      | Some p =>
        let q := get_sp (ss_sp s) p in
        let authentic := negb garbage && Nat.eqb keykid p && (adx =? sp_lastmsg q) && negb (adx =? 0) in
        (* the index it addresses is certainly alive: the device's open initiation, or the response of the
           newest exchange in which it derived a keypair (the index then names that keypair) *)
        let live := (msgx =? sp_lastmsg q) && (oeq (sp_open q) msgx || oeq (sp_last q) msgx) in
        let q' := {| sp_k := p; sp_maxts := sp_maxts q; sp_open := sp_open q; sp_cur := sp_cur q; sp_last := sp_last q;
                     sp_lastmsg := sp_lastmsg q;
                     sp_ck := if authentic && live then 2 else if authentic then N.max 1 (sp_ck q) else sp_ck q |} in
        ({| ss_sp := put_sp (ss_sp s) q'; ss_x := ss_x s; ss_di := ss_di s; ss_dv := ss_dv s; ss_dead := ss_dead s; ss_dis := ss_dis s |},
         match outs with [] => true | _ => false end)   (* a cookie reply is never answered *)
      end
  end.

(* no session with a stranger, on the observed slots: a peer has a keypair only
   after an exchange in which the device derived one *)
Definition slots_ok (conf : list (kid * nat)) (s : sstate) (o : obs) : bool :=
  (length (o_peers o) =? length conf)%nat &&
  forallb (fun pr => let '(kp, ps) := pr in
             let q := get_sp (ss_sp s) (fst kp) in
             let any := negb ((nth0 ps 1 =? 0) && (nth0 ps 2 =? 0) && (nth0 ps 3 =? 0)) in
             (if any then match sp_last q with Some _ => true | None => false end else true) &&
             (* current exists iff a confirmed exchange exists *)
             Bool.eqb (negb (nth0 ps 2 =? 0)) (match sp_cur q with Some _ => true | None => false end))
          (combine conf (o_peers o)).

(* a loaded initiation that carries MAC2 under the cookie the device handed out is an ordinary initiation *)
Definition norm (h : hev) : hev :=
  match h with
  | HRInitLoad xid s r mk e idx ts pskid er ir ckid true => if ckid =? 0 then h else HRInit xid s r mk e idx ts pskid er ir
  | _ => h
  end.

Fixpoint holds_from (conf : list (kid * nat)) (s : sstate) (steps : list (hev * obs)) (i : N) : option N :=
  match steps with
  | [] => None
  | (h, o) :: rest =>
      let '(s', ok) := sstep conf s (norm h) o in
      if ok && slots_ok conf s' o then holds_from conf s' rest (i + 1) else Some i
  end.

Definition holdsb (c : case) : bool :=
  match holds_from (c_conf c) (sstate0 (c_dev c)) (c_steps c) 0 with
  | None => true | Some _ => false end.

(* ---------------------------------------------------------------- wire layout
   raw bytes of every device-emitted handshake message against what ref parsed:
   fields = [type; sender; receiver (0 for initiations); mac2 class] ++ ephemeral bytes;
   the MAC2 field decoded at offset size-16 is all zero exactly when ref classified it as zero *)
Definition raw_ok (r : list N * list N) : bool :=
  let '(bytes, fields) := r in
  let eph := skipn 4 fields in
  match nth0 bytes 0 with
  | 1 => match decode_init bytes with
         | Some m => (wi_type m =? MessageInitiationType) && (wi_type m =? nth0 fields 0) &&
                     (wi_sender m =? nth0 fields 1) && nlist_eqb (wi_eph m) eph &&
                     Bool.eqb (all_zero (wi_mac2 m)) (nth0 fields 3 =? 1) && nlist_eqb (encode_init m) bytes
         | None => false
         end
  | 2 => match decode_resp bytes with
         | Some m => (wr_type m =? MessageResponseType) && (wr_type m =? nth0 fields 0) &&
                     (wr_sender m =? nth0 fields 1) && (wr_receiver m =? nth0 fields 2) &&
                     nlist_eqb (wr_eph m) eph && Bool.eqb (all_zero (wr_mac2 m)) (nth0 fields 3 =? 1) && nlist_eqb (encode_resp m) bytes
         | None => false
         end
  | _ => false
  end.

Fixpoint raw_from (steps : list (hev * obs)) (i : N) : option N :=
  match steps with
  | [] => None
  | (_, o) :: rest => if forallb raw_ok (o_raw o) then raw_from rest (i + 1) else Some i
  end.

(* ---------------------------------------------------------------- driver *)
Definition check_case (c : case) : list (N * N) :=
  (match compare c (init_world c) (c_steps c) 0 with Some i => [(1, i)] | None => [] end) ++
  (match holds_from (c_conf c) (sstate0 (c_dev c)) (c_steps c) 0 with
   | Some i => [(2, i)] | None => [] end) ++
  (match raw_from (c_steps c) 0 with Some i => [(2, 1000 + i)] | None => [] end).

Fixpoint check_cases (ks : list case) (idx : N) : list (N * N * N) :=
  match ks with
  | [] => []
  | k :: ks' => map (fun p => (idx, fst p, snd p)) (check_case k) ++ check_cases ks' (idx + 1)
  end.

(* statistics: [initiations accepted; initiations refused; responses accepted; responses refused;
                data accepted; data refused; device initiations; completed by ref; refused by ref; restarts; cookie replies; key changes; cookie ageings] *)
Fixpoint bump (l : list N) (i : nat) : list N :=
  match l, i with
  | [], _ => []
  | x :: t, O => (x + 1) :: t
  | x :: t, S j => x :: bump t j
  end.

Definition stat_step (st : list N) (ho : hev * obs) : list N :=
  let '(h, o) := ho in
  let outs := o_outs o in
  let st := match h with
            | HRInit _ _ _ _ _ _ _ _ _ _ => bump st (if no_kind 2 outs then 1 else 0)
            | HRInitLoad _ _ _ _ _ _ _ _ _ _ _ _ => bump st (if no_kind 2 outs then 1 else 0)
            | HRInitKey _ _ _ _ _ _ _ _ _ _ _ => bump (bump st (if no_kind 2 outs then 1 else 0)) 11
            | HRResp _ _ _ _ _ _ => bump st (if no_kind 4 outs then 3 else 2)
            | HRData _ _ ka => if ka then st else bump st (if no_kind 5 outs then 5 else 4)
            | HTun _ _ _ _ _ | HKick _ _ _ _ _ => if no_kind 1 outs then st else bump st 6
            | HSetKey _ => bump st 11
            | HAge _ => bump st 12
            | HGhost _ => st
            | HRestart => bump st 9
            | HCookie _ _ _ _ _ => bump st 10
            end in
  match o_ref o with 1 => bump st 7 | 2 => bump st 8 | _ => st end.

Definition stats (ks : list case) : list N :=
  fold_left (fun st k => fold_left stat_step (c_steps k) st) ks [0;0;0;0;0;0;0;0;0;0;0;0;0].

(* ---------------------------------------------------------------- case-file glue *)
Definition mk_obs (outs : list (list N)) (rf : N) (peers : list (list N))
                  (raw : list (Uint63.int * list Uint63.int * list N * list Uint63.int)) : obs :=
  {| o_outs := outs; o_ref := rf; o_peers := peers;
     o_raw := map (fun r => let '(len, bytes, fields, eph) := r in
                            (unpack len bytes, fields ++ firstn 32 (unpack7 eph))) raw |}.

(* constructors over N only, so that case files need no scope annotations *)
Definition n2k (n : N) : kid := N.to_nat n.
Definition rinit (xid s r mk e idx ts pskid er ir : N) : hev :=
  HRInit xid (n2k s) (n2k r) (n2k mk) (n2k e) idx ts (N.to_nat pskid) (n2k er) ir.
Definition rinitkey (xid s r mk e idx ts pskid er ir new : N) : hev :=
  HRInitKey xid (n2k s) (n2k r) (n2k mk) (n2k e) idx ts (N.to_nat pskid) (n2k er) ir (n2k new).
Definition rinitload (xid s r mk e idx ts pskid er ir ckid withmac2 : N) : hev :=
  HRInitLoad xid (n2k s) (n2k r) (n2k mk) (n2k e) idx ts (N.to_nat pskid) (n2k er) ir ckid (negb (withmac2 =? 0)).
Definition rresp (xid ans r pskid e idx : N) : hev := HRResp xid ans (n2k r) (N.to_nat pskid) (n2k e) idx.
Definition rdata (xid ctr ka : N) : hev := HRData xid ctr (negb (ka =? 0)).
Definition tun (xid p e ts idx : N) : hev := HTun xid (n2k p) (n2k e) ts idx.
Definition kick (xid p e ts idx : N) : hev := HKick xid (n2k p) (n2k e) ts idx.
Definition restart : hev := HRestart.
Definition age (secs : N) : hev := HAge secs.
Definition ghost (k : N) : hev := HGhost (n2k k).
Definition setkey (new : N) : hev := HSetKey (n2k new).
Definition cookie (keykid msgx adx garbage cid : N) : hev := HCookie (n2k keykid) msgx adx (negb (garbage =? 0)) cid.
Definition mk_case (dv : N) (conf : list (N * N)) (parties : list N) (steps : list (hev * obs)) : case :=
  {| c_dev := n2k dv; c_conf := map (fun p => (n2k (fst p), N.to_nat (snd p))) conf;
     c_parties := map n2k parties; c_steps := steps |}.
