(* Theorems about the handshake model: the device model emits and accepts
   exactly the white-paper's messages, a handshake between the device model
   and a paper party (either role) ends with mirrored transport keys, and the
   negative results in the symbolic algebra. *)
From WG Require Import Base.Prelude Gen.Constants Sym.Term Noise.Msg Noise.Model Noise.Paper.
Local Open Scope N_scope.

(* A peer table as NewPeer / SetPrivateKey leave it. *)
Definition entry_ok (sdev : kid) (e : kid * hs) : Prop :=
  rstatic (snd e) = fst e /\ ss (snd e) = dhn sdev (fst e).
Definition peers_ok (sdev : kid) (peers : list (kid * hs)) : Prop := Forall (entry_ok sdev) peers.

Definition known_in (peers : list (kid * hs)) (pk : term) : bool :=
  existsb (fun e => teqb (TPub (fst e)) pk) peers.

Lemma find_peer_some peers pk pid h :
  find_peer peers pk = Some (pid, h) -> pk = TPub pid /\ In (pid, h) peers.
Proof.
  induction peers as [|[k h0] r IH]; cbn [find_peer]; [discriminate|].
  destruct (teqb (TPub k) pk) eqn:E.
  - intros H; inversion H; subst. apply teqb_spec in E. split; [now symmetry|now left].
  - intros H. destruct (IH H) as [A B]. split; [exact A|now right].
Qed.

Lemma find_peer_known peers pk : known_in peers pk = match find_peer peers pk with Some _ => true | None => false end.
Proof.
  induction peers as [|[k h0] r IH]; cbn [find_peer known_in existsb fst]; [reflexivity|].
  destruct (teqb (TPub k) pk); cbn [orb]; [reflexivity|exact IH].
Qed.

Lemma find_peer_none peers k : (forall h, ~ In (k, h) peers) -> find_peer peers (TPub k) = None.
Proof.
  induction peers as [|[k0 h0] r IH]; intros H; cbn [find_peer]; [reflexivity|].
  destruct (teqb (TPub k0) (TPub k)) eqn:E.
  - apply teqb_spec in E. inversion E; subst. exfalso. apply (H h0). now left.
  - apply IH. intros h Hin. apply (H h). now right.
Qed.

Lemma peers_ok_in sdev peers pid h : peers_ok sdev peers -> In (pid, h) peers -> rstatic h = pid /\ ss h = dhn sdev pid.
Proof. intros Hok Hin. unfold peers_ok in Hok. rewrite Forall_forall in Hok. exact (Hok _ Hin). Qed.

(* ------------------------------------------------------------------------
   1. The device model emits the paper's messages. *)

Theorem create_initiation_is_paper : forall (sdev : kid) (h : hs) (e : kid) (ts idx : N),
  ss h = dhn sdev (rstatic h) ->
  exists h' m s,
    create_init sdev h e ts idx = Some (h', m) /\
    Paper.initiation sdev e (TPub (rstatic h)) ts idx = Some (s, stamp_init (TPub (rstatic h)) None m) /\
    hash h' = H s /\ ck h' = C s /\ st h' = handshakeInitiationCreated /\
    leph h' = e /\ lidx h' = idx /\ psk h' = psk h /\ rstatic h' = rstatic h.
Proof.
  intros sdev h e ts idx Hss.
  unfold create_init, Paper.initiation. cbn [dh kdf2]. rewrite Hss. cbn [is_zero dhn].
  do 3 eexists. split; [reflexivity|].
  split; [reflexivity|]. cbn. repeat split; reflexivity.
Qed.

(* The device accepts an initiation exactly when the paper's responder does
   (with the device's peer table as the set of known keys) and the timestamp
   is newer than the last one and the flood gap has passed; it then holds the
   paper's (C, H). *)
Theorem consume_initiation_is_paper : forall sdev peers flood m,
  peers_ok sdev peers ->
  match consume_init sdev peers flood m with
  | Some (pid, h') =>
      exists s ts h, Paper.consume_initiation sdev (known_in peers) m = Some (s, TPub pid, ts) /\
        In (pid, h) peers /\ lastTs h < ts /\ flood = false /\
        hash h' = H s /\ ck h' = C s /\ st h' = handshakeInitiationConsumed /\
        reph h' = i_eph m /\ ridx h' = i_sender m /\ psk h' = psk h /\ rstatic h' = pid /\ lastTs h' = ts
  | None =>
      match Paper.consume_initiation sdev (known_in peers) m with
      | None => True
      | Some (s, pk, ts) => exists pid h, pk = TPub pid /\ In (pid, h) peers /\ (ts <= lastTs h \/ flood = true)
      end
  end.
Proof.
  intros sdev peers flood m Hok.
  unfold consume_init, Paper.consume_initiation. unfold type_initiation.
  change MessageInitiationType with 1.
  destruct (i_type m =? 1); cbn [negb]; [|exact I].
  destruct (dh sdev (i_eph m)) as [se|]; [|exact I].
  cbn [kdf2 start C H]. unfold mixHash, mixKey, kdf1, InitialHash, InitialChainKey, mixHash.
  destruct (aead_open (TKdf 2 (TKdf 1 (THash1 Construction) (i_eph m)) se) 0 (i_static m) _) as [pk|]; [|exact I].
  rewrite find_peer_known.
  destruct (find_peer peers pk) as [[pid h]|] eqn:Ef; cbn [negb]; [|exact I].
  destruct (find_peer_some _ _ _ _ Ef) as [-> Hin].
  destruct (peers_ok_in _ _ _ _ Hok Hin) as [Hrs Hss].
  rewrite Hss. cbn [is_zero dhn dh].
  match goal with |- context [aead_open ?k 0 (i_ts m) ?a] => destruct (aead_open k 0 (i_ts m) a) as [[]|] end; try exact I.
  destruct (lastTs h <? n) eqn:Elt; cbn [negb].
  - destruct flood.
    + exists pid, h. repeat split; auto.
    + exists {| C := TKdf 1 (TKdf 1 (TKdf 1 (THash1 Construction) (i_eph m)) se) (dhn sdev pid);
               H := THash2 (THash2 (THash2 (THash2 (THash2 (THash1 Construction) Identifier) (TPub sdev)) (i_eph m)) (i_static m)) (i_ts m) |}, n, h.
      apply N.ltb_lt in Elt. cbn. repeat split; auto.
  - exists pid, h. apply N.ltb_ge in Elt. repeat split; auto.
Qed.

Theorem create_response_is_paper : forall (h : hs) (s : sym) (e : kid) (idx : N) (Ei_pub : term),
  st h = handshakeInitiationConsumed -> hash h = H s -> ck h = C s -> reph h = Ei_pub ->
  match create_resp h e idx with
  | Some (h', r) =>
      exists s', Paper.response s e Ei_pub (TPub (rstatic h)) (psk h) idx (ridx h)
                   = Some (s', stamp_resp (TPub (rstatic h)) None r) /\
        hash h' = H s' /\ ck h' = C s' /\ st h' = handshakeResponseCreated /\
        lidx h' = idx /\ ridx h' = ridx h
  | None => Paper.response s e Ei_pub (TPub (rstatic h)) (psk h) idx (ridx h) = None
  end.
Proof.
  intros h s e idx Ei_pub Hst Hh Hc Hre.
  unfold create_resp, Paper.response. rewrite Hst, Hh, Hc, Hre. cbn [N.eqb negb handshakeInitiationConsumed Pos.eqb].
  destruct (dh e Ei_pub) as [ee|]; [|reflexivity].
  cbn [dh kdf3].
  eexists. split; [reflexivity|]. cbn. repeat split; reflexivity.
Qed.

(* After an accepted initiation the response is always produced. *)
Corollary create_response_total : forall sdev peers m pid h1 e idx,
  peers_ok sdev peers -> consume_init sdev peers false m = Some (pid, h1) ->
  exists h2 r, create_resp h1 e idx = Some (h2, r).
Proof.
  intros sdev peers m pid h1 e idx Hok Hc.
  unfold consume_init in Hc.
  destruct (negb (i_type m =? MessageInitiationType)); [discriminate|].
  destruct (i_eph m) eqn:Ee; cbn [dh] in Hc; try discriminate.
  cbn [kdf2] in Hc.
  match type of Hc with context [aead_open ?k 0 (i_static m) ?a] => destruct (aead_open k 0 (i_static m) a) end; [|discriminate].
  destruct (find_peer peers t) as [[q hq]|]; [|discriminate].
  destruct (is_zero (ss hq)); [discriminate|].
  match type of Hc with context [aead_open ?k 0 (i_ts m) ?a] => destruct (aead_open k 0 (i_ts m) a) as [[]|] end; try discriminate.
  destruct (negb (lastTs hq <? n)); [discriminate|].
  inversion Hc; subst. unfold create_resp. cbn [st reph rstatic N.eqb negb dh kdf3 handshakeInitiationConsumed Pos.eqb].
  do 2 eexists. reflexivity.
Qed.

(* The device accepts a response exactly when the paper's initiator does. *)
Theorem consume_response_is_paper : forall sdev h s m,
  st h = handshakeInitiationCreated -> hash h = H s -> ck h = C s ->
  match consume_resp sdev h m, Paper.consume_response sdev (leph h) s (psk h) m with
  | Some h', Some s' => hash h' = H s' /\ ck h' = C s' /\ st h' = handshakeResponseConsumed /\
                        ridx h' = r_sender m /\ lidx h' = lidx h
  | None, None => True
  | _, _ => False
  end.
Proof.
  intros sdev h s m Hst Hh Hc.
  unfold consume_resp, Paper.consume_response, type_response. change MessageResponseType with 2.
  destruct (r_type m =? 2); cbn [negb]; [|exact I].
  rewrite Hst, Hh, Hc. cbn [N.eqb negb handshakeInitiationCreated Pos.eqb].
  destruct (dh (leph h) (r_eph m)) as [ee|]; [|exact I].
  destruct (dh sdev (r_eph m)) as [se|]; [|exact I].
  cbn [kdf3]. unfold mixHash, mixKey, kdf1.
  match goal with |- context [aead_open ?k 0 (r_empty m) ?a] => destruct (aead_open k 0 (r_empty m) a) as [[]|] end; try exact I.
  cbn. repeat split; reflexivity.
Qed.

(* BeginSymmetricSession derives the paper's transport keys, in the paper's direction. *)
Theorem begin_session_is_paper : forall h s,
  ck h = C s ->
  (st h = handshakeResponseConsumed ->
     exists k, derive_keypair h = Some k /\ (kp_send k, kp_recv k) = Paper.initiator_keys s /\ kp_init k = true /\
               kp_lidx k = lidx h /\ kp_ridx k = ridx h) /\
  (st h = handshakeResponseCreated ->
     exists k, derive_keypair h = Some k /\ (kp_send k, kp_recv k) = Paper.responder_keys s /\ kp_init k = false /\
               kp_lidx k = lidx h /\ kp_ridx k = ridx h) /\
  (st h <> handshakeResponseConsumed -> st h <> handshakeResponseCreated -> derive_keypair h = None).
Proof.
  intros h s Hc. unfold derive_keypair, Paper.initiator_keys, Paper.responder_keys. rewrite Hc.
  split; [|split].
  - intros ->. cbn. eexists. split; [reflexivity|]. cbn. repeat split; reflexivity.
  - intros ->. cbn. eexists. split; [reflexivity|]. cbn. repeat split; reflexivity.
  - intros A B. destruct (st h =? handshakeResponseConsumed) eqn:E1; [apply N.eqb_eq in E1; contradiction|].
    destruct (st h =? handshakeResponseCreated) eqn:E2; [apply N.eqb_eq in E2; contradiction|reflexivity].
Qed.

(* ------------------------------------------------------------------------
   2. A handshake completes with mirrored keys, both role assignments. *)

Definition one_peer (sdev rs : kid) (p : term) : list (kid * hs) := [(rs, new_handshake (Some sdev) rs p)].

(* device = initiator, paper party = responder *)
Theorem handshake_completes_mirrored_device_initiator :
  forall (sdev sR eI eR : kid) (p : term) (ts idxI idxR : N) (known : term -> bool),
  known (TPub sdev) = true ->
  exists hI1 m1 s1 s2 m2 hI2 k,
    create_init sdev (new_handshake (Some sdev) sR p) eI ts idxI = Some (hI1, m1) /\
    (let m1' := stamp_init (TPub sR) None m1 in
     Paper.mac1_valid (TPub sR) (init_body m1') (i_mac1 m1') = true /\ i_mac2 m1' = TZero /\
     Paper.consume_initiation sR known m1' = Some (s1, TPub sdev, ts)) /\
    Paper.response s1 eR (i_eph m1) (TPub sdev) p idxR (i_sender m1) = Some (s2, m2) /\
    check_mac1 sdev (resp_body m2) (r_mac1 m2) = true /\
    consume_resp sdev hI1 m2 = Some hI2 /\
    derive_keypair hI2 = Some k /\
    (* send_I = recv_R /\ recv_I = send_R *)
    kp_send k = snd (Paper.responder_keys s2) /\ kp_recv k = fst (Paper.responder_keys s2) /\
    kp_init k = true /\ kp_lidx k = idxI /\ kp_ridx k = idxR /\ r_receiver m2 = idxI.
Proof.
  intros sdev sR eI eR p ts idxI idxR known Hk.
  unfold create_init, new_handshake, precompute. cbn [rstatic ss dh kdf2 is_zero dhn psk ridx reph lastTs].
  do 7 eexists. split; [reflexivity|].
  split.
  { cbn [stamp_init add_macs i_type i_sender i_eph i_static i_ts i_mac1 i_mac2 init_body].
    unfold Paper.mac1_valid, mac, mac1_key. rewrite teqb_refl.
    split; [reflexivity|]. split; [reflexivity|].
    unfold Paper.consume_initiation, type_initiation. change MessageInitiationType with 1.
    cbn [i_type i_eph i_static i_ts N.eqb Pos.eqb negb dh start C H].
    unfold aead_seal, aead_open, mixHash, mixKey, kdf1, InitialHash, InitialChainKey, mixHash.
    rewrite (dhn_comm sR eI). rewrite !teqb_refl. cbn [andb N.eqb]. rewrite Hk. cbn [negb dh].
    rewrite (dhn_comm sR sdev). rewrite !teqb_refl. cbn [andb N.eqb]. reflexivity. }
  cbn [C H i_eph i_sender].
  split. { unfold Paper.response. cbn [dh C H]. reflexivity. }
  split. { cbn [r_mac1 resp_body r_type r_sender r_receiver r_eph r_empty]. unfold check_mac1, mac_ok, mac1_key. apply teqb_refl. }
  split.
  { unfold consume_resp, type_response. change MessageResponseType with 2.
    cbn [r_type r_eph r_empty r_sender st hash ck leph psk N.eqb Pos.eqb negb dh kdf3 handshakeInitiationCreated].
    unfold aead_open, mixHash, mixKey, kdf1, InitialHash, InitialChainKey, mixHash, aead_seal.
    rewrite (dhn_comm eI eR), (dhn_comm sdev eR). rewrite !teqb_refl. cbn [andb N.eqb]. reflexivity. }
  split. { unfold derive_keypair. cbn [st N.eqb Pos.eqb handshakeResponseConsumed kdf2 ck]. reflexivity. }
  cbn. repeat split; reflexivity.
Qed.

(* paper party = initiator, device = responder *)
Theorem handshake_completes_mirrored_device_responder :
  forall (sdev sI eI eR : kid) (p : term) (ts idxI idxR : N),
  0 < ts ->
  exists s1 m1 h1 h2 m2 s2 k,
    Paper.initiation sI eI (TPub sdev) ts idxI = Some (s1, m1) /\
    check_mac1 sdev (init_body m1) (i_mac1 m1) = true /\
    consume_init sdev (one_peer sdev sI p) false m1 = Some (sI, h1) /\
    create_resp h1 eR idxR = Some (h2, m2) /\
    (let m2' := stamp_resp (TPub sI) None m2 in
     Paper.mac1_valid (TPub sI) (resp_body m2') (r_mac1 m2') = true /\ r_mac2 m2' = TZero /\
     r_receiver m2' = idxI /\
     Paper.consume_response sI eI s1 p m2' = Some s2) /\
    derive_keypair h2 = Some k /\
    (* send_I = recv_R /\ recv_I = send_R *)
    fst (Paper.initiator_keys s2) = kp_recv k /\ snd (Paper.initiator_keys s2) = kp_send k /\
    kp_init k = false /\ kp_lidx k = idxR /\ kp_ridx k = idxI.
Proof.
  intros sdev sI eI eR p ts idxI idxR Hts.
  unfold Paper.initiation. cbn [dh start C H].
  do 7 eexists. split; [reflexivity|].
  split. { cbn [i_mac1 init_body i_type i_sender i_eph i_static i_ts]. unfold check_mac1, mac_ok, mac1_key. apply teqb_refl. }
  split.
  { unfold consume_init, type_initiation. change MessageInitiationType with 1.
    cbn [i_type i_eph i_static i_ts i_sender N.eqb Pos.eqb negb dh kdf2].
    unfold aead_open, mixHash, mixKey, kdf1, InitialHash, InitialChainKey, mixHash.
    rewrite (dhn_comm sdev eI). rewrite !teqb_refl. cbn [andb N.eqb].
    unfold one_peer. cbn [find_peer]. rewrite teqb_refl.
    unfold new_handshake, precompute. cbn [ss is_zero dhn lastTs psk leph lidx rstatic].
    fold (dhn sdev sI). rewrite (dhn_comm sdev sI). rewrite !teqb_refl. cbn [andb N.eqb].
    replace (0 <? ts) with true by (symmetry; now apply N.ltb_lt). cbn [negb]. reflexivity. }
  split.
  { unfold create_resp. cbn [st N.eqb Pos.eqb negb handshakeInitiationConsumed reph rstatic dh kdf3 hash ck psk ridx]. reflexivity. }
  split.
  { cbn [stamp_resp add_macs r_type r_sender r_receiver r_eph r_empty r_mac1 r_mac2 resp_body].
    unfold Paper.mac1_valid, mac, mac1_key. rewrite teqb_refl.
    split; [reflexivity|]. split; [reflexivity|]. split; [reflexivity|].
    unfold Paper.consume_response, type_response. change MessageResponseType with 2.
    cbn [r_type r_eph r_empty N.eqb Pos.eqb negb dh C H].
    unfold aead_open, aead_seal, mixHash, mixKey, kdf1, InitialHash, InitialChainKey, mixHash.
    rewrite (dhn_comm eI eR), (dhn_comm sI eR). rewrite !teqb_refl. cbn [andb N.eqb]. reflexivity. }
  split. { unfold derive_keypair. cbn [st N.eqb Pos.eqb handshakeResponseConsumed handshakeResponseCreated kdf2 ck]. reflexivity. }
  cbn. repeat split; reflexivity.
Qed.

(* ------------------------------------------------------------------------
   3. MACs of emitted messages (cookie.go AddMacs). *)

Theorem mac1_is_paper : forall peer_pk cookie body,
  fst (add_macs peer_pk cookie body) = TMac (THash2 LabelMac1 peer_pk) body.
Proof. reflexivity. Qed.

Theorem mac2_zero_without_cookie : forall peer_pk body, snd (add_macs peer_pk None body) = TZero.
Proof. reflexivity. Qed.

Theorem mac1_checked_by_receiver : forall sdev body m1,
  check_mac1 sdev body m1 = true <-> m1 = fst (add_macs (TPub sdev) None body).
Proof. intros. unfold check_mac1, mac_ok. cbn [add_macs fst]. apply teqb_spec. Qed.

(* ------------------------------------------------------------------------
   4. Negative results in the symbolic algebra. *)

(* whatever opens as the static field was sealed for the device's true key *)
Lemma consume_init_inv : forall sdev peers flood m pid h',
  consume_init sdev peers flood m = Some (pid, h') ->
  exists e h ts,
    i_eph m = TPub e /\ find_peer peers (TPub pid) = Some (pid, h) /\
    i_static m = TAead (TKdf 2 (TKdf 1 InitialChainKey (TPub e)) (dhn sdev e)) 0 (TPub pid)
                       (THash2 (THash2 InitialHash (TPub sdev)) (TPub e)) /\
    i_ts m = TAead (TKdf 2 (TKdf 1 (TKdf 1 InitialChainKey (TPub e)) (dhn sdev e)) (ss h)) 0 (TN ts)
                   (THash2 (THash2 (THash2 InitialHash (TPub sdev)) (TPub e)) (i_static m)) /\
    lastTs h < ts /\ i_type m = MessageInitiationType /\
    hash h' = THash2 (THash2 (THash2 (THash2 InitialHash (TPub sdev)) (TPub e)) (i_static m)) (i_ts m) /\
    ck h' = TKdf 1 (TKdf 1 (TKdf 1 InitialChainKey (TPub e)) (dhn sdev e)) (ss h) /\
    psk h' = psk h /\ rstatic h' = rstatic h /\ ss h' = ss h /\ st h' = handshakeInitiationConsumed /\
    reph h' = i_eph m /\ ridx h' = i_sender m.
Proof.
  intros sdev peers flood m pid h' Hc. unfold consume_init in Hc.
  destruct (i_type m =? MessageInitiationType) eqn:Et; cbn [negb] in Hc; [|discriminate].
  destruct (i_eph m) eqn:Ee; cbn [dh] in Hc; try discriminate.
  cbn [kdf2] in Hc. unfold mixHash, mixKey, kdf1 in Hc.
  match type of Hc with context [aead_open ?k 0 (i_static m) ?a] => destruct (aead_open k 0 (i_static m) a) as [pk|] eqn:Eo end; [|discriminate].
  destruct (find_peer peers pk) as [[q hq]|] eqn:Ef; [|discriminate].
  destruct (find_peer_some _ _ _ _ Ef) as [-> Hin].
  destruct (is_zero (ss hq)); [discriminate|].
  match type of Hc with context [aead_open ?k 0 (i_ts m) ?a] => destruct (aead_open k 0 (i_ts m) a) as [[]|] eqn:Eo2 end; try discriminate.
  destruct (lastTs hq <? n) eqn:Elt; cbn [negb] in Hc; [|discriminate].
  destruct flood; [discriminate|]. inversion Hc; subst.
  apply aead_open_inv in Eo, Eo2. apply N.ltb_lt in Elt. apply N.eqb_eq in Et.
  exists k, hq, n. repeat split; auto.
Qed.

(* responder: an initiation whose static key is not a configured peer is
   rejected, and the device (slice) state is unchanged and nothing is sent *)
Theorem unknown_static_rejected : forall sdev peers flood (sI eI : kid) ts idx s m,
  (forall h, ~ In (sI, h) peers) ->
  Paper.initiation sI eI (TPub sdev) ts idx = Some (s, m) ->
  consume_init sdev peers flood m = None.
Proof.
  intros sdev peers flood sI eI ts idx s m Hnot Hp.
  unfold Paper.initiation in Hp. cbn [dh start C H] in Hp. inversion Hp; subst; clear Hp.
  unfold consume_init. change MessageInitiationType with 1. unfold type_initiation.
  cbn [i_type i_eph i_static i_ts i_sender N.eqb Pos.eqb negb dh kdf2].
  unfold aead_open, mixHash, mixKey, kdf1, InitialHash, InitialChainKey, mixHash.
  rewrite (dhn_comm sdev eI). rewrite !teqb_refl. cbn [andb N.eqb].
  now rewrite (find_peer_none _ _ Hnot).
Qed.

Theorem unknown_static_state_unchanged : forall d (sI eI : kid) ts idx s m er ir,
  (forall h, ~ In (sI, h) (hs_list d)) ->
  Paper.initiation sI eI (TPub (d_static d)) ts idx = Some (s, m) ->
  dev_step d (EInit m er ir) = (d, []).
Proof.
  intros d sI eI ts idx s m er ir Hnot Hp. cbn [dev_step]. unfold init_step.
  destruct (negb (check_mac1 (d_static d) (init_body m) (i_mac1 m))); [reflexivity|].
  now rewrite (unknown_static_rejected _ _ false _ _ _ _ _ _ Hnot Hp).
Qed.

(* an initiation built for another responder key S' <> S_dev is rejected,
   whatever its MAC fields are *)
Theorem wrong_responder_key_rejected : forall sdev peers flood (sI eI s' : kid) ts idx s m mac1 mac2,
  s' <> sdev ->
  Paper.initiation sI eI (TPub s') ts idx = Some (s, m) ->
  consume_init sdev peers flood
    {| i_type := i_type m; i_sender := i_sender m; i_eph := i_eph m; i_static := i_static m;
       i_ts := i_ts m; i_mac1 := mac1; i_mac2 := mac2 |} = None.
Proof.
  intros sdev peers flood sI eI s' ts idx s m mac1 mac2 Hne Hp.
  unfold Paper.initiation in Hp. cbn [dh start C H] in Hp. inversion Hp; subst; clear Hp.
  unfold consume_init. change MessageInitiationType with 1. unfold type_initiation.
  cbn [i_type i_eph i_static i_ts i_sender N.eqb Pos.eqb negb dh kdf2].
  unfold aead_open, mixHash, mixKey, kdf1, InitialHash, InitialChainKey, mixHash.
  assert (E : teqb (THash2 (THash2 (THash2 (THash1 Construction) Identifier) (TPub s')) (TPub eI))
                   (THash2 (THash2 (THash2 (THash1 Construction) Identifier) (TPub sdev)) (TPub eI)) = false).
  { apply teqb_neq. intros E. inversion E. contradiction. }
  cbn [teqb] in E |- *. rewrite E. now rewrite andb_false_r.
Qed.

(* preshared keys differ, device = initiator: the response is rejected, no session *)
Theorem psk_mismatch_initiator_rejects :
  forall (sdev sR eI eR : kid) (p q : term) (ts idxI idxR : N) (known : term -> bool) hI1 m1 s1 s2 m2,
  p <> q ->
  create_init sdev (new_handshake (Some sdev) sR p) eI ts idxI = Some (hI1, m1) ->
  Paper.consume_initiation sR known (stamp_init (TPub sR) None m1) = Some (s1, TPub sdev, ts) ->
  Paper.response s1 eR (i_eph m1) (TPub sdev) q idxR (i_sender m1) = Some (s2, m2) ->
  consume_resp sdev hI1 m2 = None /\ derive_keypair hI1 = None.
Proof.
  intros sdev sR eI eR p q ts idxI idxR known hI1 m1 s1 s2 m2 Hpq H1 H2 H3.
  unfold create_init, new_handshake, precompute in H1.
  cbn [rstatic ss dh kdf2 is_zero dhn psk ridx reph lastTs] in H1. inversion H1; subst; clear H1.
  unfold Paper.consume_initiation, type_initiation in H2. change MessageInitiationType with 1 in H2.
  cbn [stamp_init add_macs i_type i_eph i_static i_ts N.eqb Pos.eqb negb dh start C H] in H2.
  unfold aead_seal, aead_open, mixHash, mixKey, kdf1, InitialHash, InitialChainKey, mixHash in H2.
  rewrite (dhn_comm sR eI) in H2. rewrite !teqb_refl in H2. cbn [andb N.eqb] in H2.
  destruct (known (TPub sdev)); cbn [negb dh] in H2; [|discriminate].
  rewrite (dhn_comm sR sdev) in H2. rewrite !teqb_refl in H2. cbn [andb N.eqb] in H2.
  inversion H2; subst; clear H2.
  unfold Paper.response in H3. cbn [dh C H i_eph i_sender] in H3. inversion H3; subst; clear H3.
  split; [|reflexivity].
  unfold consume_resp, type_response. change MessageResponseType with 2.
  cbn [r_type r_eph r_empty r_sender st hash ck leph psk N.eqb Pos.eqb negb dh kdf3 handshakeInitiationCreated].
  unfold aead_open, mixHash, mixKey, kdf1, InitialHash, InitialChainKey, mixHash, aead_seal.
  rewrite (dhn_comm eI eR), (dhn_comm sdev eR).
  assert (E : teqb q p = false) by (apply teqb_neq; congruence).
  cbn [teqb]. rewrite !teqb_refl, E. cbn [andb]. rewrite ?andb_false_r. reflexivity.
Qed.

(* preshared keys differ, device = responder: the paper initiator rejects the
   response; and even an initiator that goes on regardless derives keys under
   which nothing it seals opens with the device's unconfirmed key (so [next]
   is never confirmed and nothing is sent under it), and nothing the device
   would seal opens on its side. *)
Theorem psk_mismatch_responder_never_confirmed :
  forall (sdev sI eI eR : kid) (p q : term) (ts idxI idxR : N) s1 m1 h1 h2 m2 k,
  p <> q ->
  Paper.initiation sI eI (TPub sdev) ts idxI = Some (s1, m1) ->
  consume_init sdev (one_peer sdev sI p) false m1 = Some (sI, h1) ->
  create_resp h1 eR idxR = Some (h2, m2) ->
  derive_keypair h2 = Some k ->
  Paper.consume_response sI eI s1 q (stamp_resp (TPub sI) None m2) = None /\
  (forall s2, Paper.consume_response_unchecked sI eI s1 q (stamp_resp (TPub sI) None m2) = Some s2 ->
     forall n n' P, aead_open (kp_recv k) n (Paper.transport (fst (Paper.initiator_keys s2)) n' P) TEmpty = None /\
                    aead_open (snd (Paper.initiator_keys s2)) n (Paper.transport (kp_send k) n' P) TEmpty = None).
Proof.
  intros sdev sI eI eR p q ts idxI idxR s1 m1 h1 h2 m2 k Hpq H1 H2 H3 H4.
  unfold Paper.initiation in H1. cbn [dh start C H] in H1. inversion H1; subst; clear H1.
  unfold consume_init, type_initiation in H2. change MessageInitiationType with 1 in H2.
  cbn [i_type i_eph i_static i_ts i_sender N.eqb Pos.eqb negb dh kdf2] in H2.
  unfold aead_open, mixHash, mixKey, kdf1, InitialHash, InitialChainKey, mixHash in H2.
  rewrite (dhn_comm sdev eI) in H2. rewrite !teqb_refl in H2. cbn [andb N.eqb] in H2.
  unfold one_peer in H2. cbn [find_peer] in H2. rewrite teqb_refl in H2.
  unfold new_handshake, precompute in H2. cbn [ss is_zero dhn lastTs psk leph lidx rstatic] in H2.
  fold (dhn sdev sI) in H2. rewrite (dhn_comm sdev sI) in H2. rewrite !teqb_refl in H2. cbn [andb N.eqb] in H2.
  destruct (negb (0 <? ts)); [discriminate|]. inversion H2; subst; clear H2.
  unfold create_resp in H3.
  cbn [st N.eqb Pos.eqb negb handshakeInitiationConsumed reph rstatic dh kdf3 hash ck psk ridx] in H3.
  inversion H3; subst; clear H3.
  unfold derive_keypair in H4. cbn [st N.eqb Pos.eqb handshakeResponseConsumed handshakeResponseCreated kdf2 ck] in H4.
  inversion H4; subst; clear H4.
  assert (E : teqb p q = false) by (apply teqb_neq; congruence).
  split.
  - unfold Paper.consume_response, type_response. change MessageResponseType with 2.
    cbn [stamp_resp add_macs r_type r_eph r_empty N.eqb Pos.eqb negb dh C H].
    unfold aead_open, aead_seal, mixHash, mixKey, kdf1, InitialHash, InitialChainKey, mixHash.
    rewrite (dhn_comm eI eR), (dhn_comm sI eR).
    cbn [teqb]. rewrite !teqb_refl, E. cbn [andb]. rewrite ?andb_false_r. reflexivity.
  - intros s2 Hu n n' P.
    unfold Paper.consume_response_unchecked in Hu.
    cbn [stamp_resp add_macs r_type r_eph r_empty dh C H] in Hu. inversion Hu; subst; clear Hu.
    unfold Paper.transport, Paper.initiator_keys. cbn [C fst snd kp_recv kp_send aead_open].
    rewrite (dhn_comm eI eR), (dhn_comm sI eR).
    unfold mixKey, kdf1.
    assert (E' : teqb q p = false) by (apply teqb_neq; congruence).
    cbn [teqb]. rewrite !teqb_refl, E, E'. cbn [andb]. rewrite ?andb_false_r. cbn [andb]. split; reflexivity.
Qed.

(* No session with a stranger.  (i) Responder: whatever message the device
   accepts as an initiation IS, field by field, the paper's initiation by a
   configured peer [pid], addressed to the device's true public key: the
   static field is sealed under DH(S_dev, E) and the timestamp under
   DH(S_dev, S_pid) -- terms only a holder of S_pid's (or the device's)
   private key can form. *)
Theorem accepted_initiation_is_from_configured_peer : forall sdev peers flood m pid h',
  peers_ok sdev peers ->
  consume_init sdev peers flood m = Some (pid, h') ->
  exists e ts s pm h,
    In (pid, h) peers /\ i_eph m = TPub e /\
    Paper.initiation pid e (TPub sdev) ts (i_sender m) = Some (s, pm) /\
    i_type m = i_type pm /\ i_eph m = i_eph pm /\ i_static m = i_static pm /\ i_ts m = i_ts pm /\
    hash h' = H s /\ ck h' = C s.
Proof.
  intros sdev peers flood m pid h' Hok Hc.
  destruct (consume_init_inv _ _ _ _ _ _ Hc) as (e & h & ts & He & Hf & Hs & Ht & Hlt & Hty & Hh & Hck & _).
  destruct (find_peer_some _ _ _ _ Hf) as [_ Hin].
  destruct (peers_ok_in _ _ _ _ Hok Hin) as [Hrs Hss].
  rewrite Hss in Ht, Hck.
  exists e, ts. unfold Paper.initiation. cbn [dh start C H].
  do 2 eexists. exists h. split; [exact Hin|]. split; [exact He|]. split; [reflexivity|].
  cbn [i_type i_eph i_static i_ts C H].
  unfold InitialHash, InitialChainKey, mixHash in Hs, Ht, Hh, Hck.
  rewrite (dhn_comm e sdev), (dhn_comm pid sdev).
  rewrite Hh, Hck, Ht, Hs.
  split; [exact Hty|]. split; [exact He|]. repeat split; reflexivity.
Qed.

(* (ii) Initiator: whatever the device accepts as a response to its initiation
   toward [rstatic] IS the paper's response built from that initiation with
   the SAME preshared key, by a party that computed DH(E_r, E_i) and
   DH(E_r, S_dev) on top of a chain that already mixes DH(E_i, S_r) and
   DH(S_dev, S_r) -- i.e. by the holder of S_r's private key who knows the
   device's public key. *)
Theorem accepted_response_is_from_addressed_peer : forall sdev h s m h',
  st h = handshakeInitiationCreated -> hash h = H s -> ck h = C s ->
  consume_resp sdev h m = Some h' ->
  exists eR s' pm,
    r_eph m = TPub eR /\
    Paper.response s eR (TPub (leph h)) (TPub sdev) (psk h) (r_sender m) (r_receiver m) = Some (s', pm) /\
    r_type m = r_type pm /\ r_eph m = r_eph pm /\ r_empty m = r_empty pm /\
    hash h' = H s' /\ ck h' = C s'.
Proof.
  intros sdev h s m h' Hst Hh Hck Hc. unfold consume_resp in Hc.
  destruct (r_type m =? MessageResponseType) eqn:Et; cbn [negb] in Hc; [|discriminate].
  rewrite Hst in Hc. cbn [N.eqb Pos.eqb negb handshakeInitiationCreated] in Hc.
  destruct (r_eph m) eqn:Ee; cbn [dh] in Hc; try discriminate.
  cbn [kdf3] in Hc. unfold mixHash, mixKey, kdf1 in Hc.
  match type of Hc with context [aead_open ?kk 0 (r_empty m) ?a] => destruct (aead_open kk 0 (r_empty m) a) as [[]|] eqn:Eo end; try discriminate.
  inversion Hc; subst h'; clear Hc. apply aead_open_inv in Eo. apply N.eqb_eq in Et.
  exists k. unfold Paper.response. cbn [dh].
  do 2 eexists. split; [reflexivity|]. split; [reflexivity|].
  cbn [r_type r_eph r_empty hash ck C H]. rewrite <- Hh, <- Hck.
  rewrite (dhn_comm k (leph h)), (dhn_comm k sdev).
  split; [exact Et|]. split; [reflexivity|].
  split; [exact Eo|]. rewrite Eo. split; reflexivity.
Qed.
