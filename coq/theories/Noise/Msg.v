(* Symbolic handshake messages: the fields of MessageInitiation and
   MessageResponse (noise-protocol.go) = the messages of white-paper sections
   5.4.2 / 5.4.3, shared by the device model (Noise/Model.v) and the
   specification (Noise/Paper.v). *)
From WG Require Import Base.Prelude Sym.Term.
Local Open Scope N_scope.

Record init_msg := { i_type : N; i_sender : N; i_eph : term; i_static : term; i_ts : term;
                     i_mac1 : term; i_mac2 : term }.
Record resp_msg := { r_type : N; r_sender : N; r_receiver : N; r_eph : term; r_empty : term;
                     r_mac1 : term; r_mac2 : term }.

(* The bytes covered by MAC1 (msg[:smac1] / "msg alpha"): every field before it, in order. *)
Definition init_body (m : init_msg) : term :=
  TPair (TN (i_type m)) (TPair (TN (i_sender m)) (TPair (i_eph m) (TPair (i_static m) (i_ts m)))).
Definition resp_body (m : resp_msg) : term :=
  TPair (TN (r_type m)) (TPair (TN (r_sender m)) (TPair (TN (r_receiver m)) (TPair (r_eph m) (r_empty m)))).

(* Protocol constants as atoms. *)
Definition Construction : term := TC 0.   (* "Noise_IKpsk2_25519_ChaChaPoly_BLAKE2s" *)
Definition Identifier   : term := TC 1.   (* "WireGuard v1 zx2c4 Jason@zx2c4.com" *)
Definition LabelMac1    : term := TC 2.   (* "mac1----" *)
Definition LabelCookie  : term := TC 3.   (* "cookie--" *)

(* A preshared key: id 0 is the all-zero key (the default when none is configured). *)
Definition psk_term (n : nat) : term := match n with O => TZero | _ => TPsk n end.

Lemma psk_term_inj a b : psk_term a = psk_term b -> a = b.
Proof. destruct a, b; cbn; intros H; try discriminate; try reflexivity. now inversion H. Qed.

Definition init_eqb (a b : init_msg) : bool :=
  N.eqb (i_type a) (i_type b) && N.eqb (i_sender a) (i_sender b) && teqb (i_eph a) (i_eph b) &&
  teqb (i_static a) (i_static b) && teqb (i_ts a) (i_ts b) && teqb (i_mac1 a) (i_mac1 b) &&
  teqb (i_mac2 a) (i_mac2 b).
Definition resp_eqb (a b : resp_msg) : bool :=
  N.eqb (r_type a) (r_type b) && N.eqb (r_sender a) (r_sender b) && N.eqb (r_receiver a) (r_receiver b) &&
  teqb (r_eph a) (r_eph b) && teqb (r_empty a) (r_empty b) && teqb (r_mac1 a) (r_mac1 b) &&
  teqb (r_mac2 a) (r_mac2 b).
