(* No session with a stranger, as an invariant of the device slice over ALL
   event sequences: every keypair in any slot of any peer carries the
   white-paper's transport keys (5.4.5) of a complete exchange between the
   device's true static key and THAT configured peer's static key in which
   both sides mixed the preshared key the device holds for that peer. *)
From WG Require Import Base.Prelude Gen.Constants Sym.Term Noise.Msg Noise.Model Noise.Paper Noise.Proofs.
Local Open Scope N_scope.

(* complete paper exchanges between dv and pid with preshared key q *)
Definition exch_I (dv pid : kid) (q : term) (s : sym) : Prop :=   (* device initiated *)
  exists e ts idx s0 m eR ir ii rm,
    Paper.initiation dv e (TPub pid) ts idx = Some (s0, m) /\
    Paper.response s0 eR (TPub e) (TPub dv) q ir ii = Some (s, rm).
Definition exch_R (dv pid : kid) (q : term) (s : sym) : Prop :=   (* peer initiated *)
  exists e ts idx s0 m eR ir ii rm,
    Paper.initiation pid e (TPub dv) ts idx = Some (s0, m) /\
    Paper.response s0 eR (TPub e) (TPub pid) q ir ii = Some (s, rm).

Definition kp_ok1 (dv pid : kid) (q : term) (k : keypair) : Prop :=
  (kp_init k = true /\ exists s, exch_I dv pid q s /\ (kp_send k, kp_recv k) = Paper.initiator_keys s) \/
  (kp_init k = false /\ exists s, exch_R dv pid q s /\ (kp_send k, kp_recv k) = Paper.responder_keys s).

(* ... under the device's current static key or one it had before (SetPrivateKey keeps the keypairs) *)
Definition kp_ok (dvs : list kid) (pid : kid) (q : term) (k : keypair) : Prop :=
  exists dv, In dv dvs /\ kp_ok1 dv pid q k.

Definition okp_ok (dv : list kid) (pid : kid) (q : term) (o : option keypair) : Prop :=
  match o with Some k => kp_ok dv pid q k | None => True end.

Definition slots_ok (dv : list kid) (pid : kid) (q : term) (s : slots) : Prop :=
  okp_ok dv pid q (previous s) /\ okp_ok dv pid q (current s) /\ okp_ok dv pid q (next s).

(* between events the handshake is zeroed or holds the paper's initiator state *)
Definition hs_ok (dv : kid) (h : hs) : Prop :=
  st h = handshakeZeroed \/
  (st h = handshakeInitiationCreated /\
   exists ts idx s m, Paper.initiation dv (leph h) (TPub (rstatic h)) ts idx = Some (s, m) /\
                      hash h = H s /\ ck h = C s).

Definition peer_ok (dv : kid) (dvs : list kid) (p : peer) : Prop :=
  rstatic (p_hs p) = p_id p /\ ss (p_hs p) = dhn dv (p_id p) /\
  hs_ok dv (p_hs p) /\ slots_ok dvs (p_id p) (psk (p_hs p)) (p_kp p).

Definition hist (d : dev) : list kid := d_static d :: d_olds d.
Definition dev_ok (d : dev) : Prop := Forall (peer_ok (d_static d) (hist d)) (d_peers d).

(* ---- list plumbing ---------------------------------------------------------- *)
Lemma get_peer_in ps k p : get_peer ps k = Some p -> In p ps /\ p_id p = k.
Proof.
  induction ps as [|p0 r IH]; cbn [get_peer]; [discriminate|].
  destruct (Nat.eqb (p_id p0) k) eqn:E.
  - intros H; inversion H; subst. apply Nat.eqb_eq in E. split; [now left|exact E].
  - intros H. destruct (IH H). split; [now right|assumption].
Qed.

Lemma find_hs_index_in ps i p : find_hs_index ps i = Some p -> In p ps.
Proof.
  induction ps as [|p0 r IH]; cbn [find_hs_index]; [discriminate|].
  destruct (negb (lidx (p_hs p0) =? 0) && (lidx (p_hs p0) =? i)).
  - intros H; inversion H; subst. now left.
  - intros H. right. auto.
Qed.

Lemma find_kp_index_in ps i p k : find_kp_index ps i = Some (p, k) -> In p ps.
Proof.
  induction ps as [|p0 r IH]; cbn [find_kp_index]; [discriminate|].
  destruct (kp_get (p_kp p0) i).
  - intros H; inversion H; subst. now left.
  - intros H. right. auto.
Qed.

Lemma find_any_index_in ps i p : find_any_index ps i = Some p -> In p ps.
Proof.
  unfold find_any_index. destruct (find_hs_index ps i) eqn:E1.
  - intros H; inversion H; subst. eapply find_hs_index_in; eauto.
  - destruct (find_kp_index ps i) as [[q k]|] eqn:E2; [|discriminate].
    intros H; inversion H; subst. eapply find_kp_index_in; eauto.
Qed.

Lemma find_peer_get_peer ps pk pid h :
  find_peer (map (fun p => (p_id p, p_hs p)) ps) pk = Some (pid, h) ->
  exists p, get_peer ps pid = Some p /\ p_hs p = h.
Proof.
  induction ps as [|p0 r IH]; cbn [map find_peer get_peer]; [discriminate|].
  destruct (teqb (TPub (p_id p0)) pk) eqn:E.
  - intros H; inversion H; subst. rewrite Nat.eqb_refl. now exists p0.
  - intros H. destruct (find_peer_some _ _ _ _ H) as [-> _].
    assert (Nat.eqb (p_id p0) pid = false) as ->.
    { apply Nat.eqb_neq. intros Heq. rewrite Heq in E. now rewrite teqb_refl in E. }
    now apply IH.
Qed.

Lemma upd_peer_ok d q : dev_ok d -> peer_ok (d_static d) (hist d) q -> dev_ok (upd_peer d q).
Proof.
  unfold dev_ok, upd_peer. cbn [d_static d_peers]. intros H Hq.
  induction (d_peers d) as [|p r IH]; cbn [map]; [constructor|].
  inversion H; subst. constructor; [|now apply IH].
  destruct (Nat.eqb (p_id p) (p_id q)); assumption.
Qed.

Lemma upd_peer_static d q : d_static (upd_peer d q) = d_static d.
Proof. reflexivity. Qed.

Lemma dev_ok_in d p : dev_ok d -> In p (d_peers d) -> peer_ok (d_static d) (hist d) p.
Proof. unfold dev_ok. rewrite Forall_forall. auto. Qed.

Lemma dev_ok_peers_ok d : dev_ok d -> peers_ok (d_static d) (hs_list d).
Proof.
  unfold dev_ok, peers_ok, hs_list. intros H. induction (d_peers d) as [|p r IH]; cbn [map]; [constructor|].
  inversion H; subst. constructor; [|now apply IH].
  destruct H2 as (A & B & _). split; assumption.
Qed.

(* ---- the static part of a handshake record is never changed ----------------- *)
Lemma create_init_static dv h e ts idx h' m :
  create_init dv h e ts idx = Some (h', m) -> psk h' = psk h /\ rstatic h' = rstatic h /\ ss h' = ss h /\ leph h' = e.
Proof.
  unfold create_init. cbn [dh kdf2]. destruct (is_zero (ss h)); [discriminate|].
  intros H; inversion H; subst. cbn. auto.
Qed.

Lemma consume_resp_static dv h m h' :
  consume_resp dv h m = Some h' ->
  st h = handshakeInitiationCreated /\ psk h' = psk h /\ rstatic h' = rstatic h /\ ss h' = ss h /\ st h' = handshakeResponseConsumed.
Proof.
  unfold consume_resp. destruct (negb (r_type m =? MessageResponseType)); [discriminate|].
  destruct (st h =? handshakeInitiationCreated) eqn:E; cbn [negb]; [|discriminate].
  destruct (dh (leph h) (r_eph m)); [|discriminate]. destruct (dh dv (r_eph m)); [|discriminate].
  cbn [kdf3].
  match goal with |- context [aead_open ?k 0 (r_empty m) ?a] => destruct (aead_open k 0 (r_empty m) a) as [[]|] end; try discriminate.
  intros H; inversion H; subst. cbn. apply N.eqb_eq in E. auto.
Qed.

Lemma create_resp_static h e idx h' r :
  create_resp h e idx = Some (h', r) -> psk h' = psk h /\ rstatic h' = rstatic h /\ ss h' = ss h.
Proof.
  unfold create_resp. destruct (negb (st h =? handshakeInitiationConsumed)); [discriminate|].
  destruct (dh e (reph h)); [|discriminate]. cbn [dh kdf3].
  intros H; inversion H; subst. cbn. auto.
Qed.

Lemma zero_ok dv h : hs_ok dv (zero_handshake h).
Proof. left. reflexivity. Qed.

Lemma okp_ok_mono l l' pid q o : incl l l' -> okp_ok l pid q o -> okp_ok l' pid q o.
Proof. destruct o; cbn [okp_ok]; [|auto]. intros Hi (dv & Hin & H). exists dv. split; [now apply Hi|exact H]. Qed.

Lemma okp_ok_expire l pid q o : okp_ok l pid q o -> okp_ok l pid q (expire_kp o).
Proof. destruct o; cbn [okp_ok expire_kp]; [|auto]. intros (dv & Hin & H). exists dv. split; [exact Hin|exact H]. Qed.

Lemma rotate_ok (dv : list kid) pid q k s : kp_ok dv pid q k -> slots_ok dv pid q s -> slots_ok dv pid q (rotate k s).
Proof.
  intros Hk (Hp & Hc & Hn). unfold rotate. destruct (kp_init k).
  - destruct (next s) eqn:E; unfold slots_ok; cbn [previous current next okp_ok]; repeat split; auto.
  - unfold slots_ok; cbn [previous current next okp_ok]; repeat split; auto.
Qed.

Lemma received_with_ok (dv : list kid) pid q i s : slots_ok dv pid q s -> slots_ok dv pid q (fst (received_with i s)).
Proof.
  intros (Hp & Hc & Hn). unfold received_with. destruct (next s) eqn:E; [|cbn; repeat split; auto; now rewrite E].
  destruct (kp_lidx k =? i); cbn [fst]; unfold slots_ok; cbn [previous current next okp_ok]; repeat split; auto.
  now rewrite E.
Qed.

(* ---- the two ways a keypair comes into existence ---------------------------- *)

(* responder: consume_init; create_resp; begin_session *)
Lemma responder_keypair_ok d m pid h1 er idx h2 r h3 s3 k p :
  dev_ok d ->
  consume_init (d_static d) (hs_list d) false m = Some (pid, h1) ->
  get_peer (d_peers d) pid = Some p ->
  create_resp h1 er idx = Some (h2, r) ->
  begin_session h2 (p_kp p) = Some (h3, s3, k) ->
  peer_ok (d_static d) (hist d) (upd p h3 s3 (p_staged p)).
Proof.
  intros Hd Hc Hg Hr Hb. set (dv := d_static d) in *.
  pose proof (dev_ok_peers_ok d Hd) as Hpo. fold dv in Hpo.
  (* the accepted initiation is the paper's, by the configured peer pid *)
  destruct (accepted_initiation_is_from_configured_peer _ _ _ _ _ _ Hpo Hc)
    as (e & ts & s & pm & h & _ & He & Hpi & _ & _ & _ & _ & Hh1 & Hc1).
  destruct (consume_init_inv _ _ _ _ _ _ Hc)
    as (e' & hq & ts' & _ & Ef & _ & _ & _ & _ & _ & _ & Hpsk1 & Hrs1 & Hss1 & Hst1 & Hre1 & Hri1).
  (* which peer record it was *)
  destruct (find_peer_get_peer _ _ _ _ Ef) as (p' & Hg' & Hhq). rewrite Hg in Hg'. inversion Hg'; subst p'; clear Hg'.
  destruct (get_peer_in _ _ _ Hg) as [Hinp Hid].
  destruct (dev_ok_in d p Hd Hinp) as (Hrs & Hss & _ & Hsl). fold dv in Hss, Hsl. rewrite Hid in *. rewrite Hhq in *.
  (* the response is the paper's *)
  pose proof (create_response_is_paper h1 s er idx (i_eph m) Hst1 Hh1 Hc1 Hre1) as Hcr.
  rewrite Hr in Hcr. destruct Hcr as (s2 & Hpr & _ & Hc2 & Hst2 & _ & _).
  destruct (create_resp_static _ _ _ _ _ Hr) as (Hpsk2 & Hrs2 & Hss2).
  (* the keypair *)
  unfold begin_session in Hb. destruct (derive_keypair h2) as [k'|] eqn:Edk; [|discriminate].
  inversion Hb; subst h3 s3 k'; clear Hb.
  destruct (begin_session_is_paper h2 s2 Hc2) as (_ & HR & _).
  destruct (HR Hst2) as (k' & Edk' & Hkeys & Hinit & _). rewrite Edk in Edk'. inversion Edk'; subst k'; clear Edk'.
  unfold peer_ok. cbn [upd p_id p_hs p_kp zero_handshake rstatic ss psk]. rewrite ?Hid.
  split; [congruence|]. split; [congruence|]. split; [left; reflexivity|].
  rewrite Hpsk2, Hpsk1. apply rotate_ok; [|exact Hsl].
  exists dv. split; [now left|].
  right. split; [exact Hinit|]. exists s2. split; [|exact Hkeys].
  rewrite He, Hrs1, Hrs, Hpsk1, Hri1 in Hpr.
  exists e, ts, (i_sender m), s, pm, er, idx, (i_sender m), (stamp_resp (TPub pid) None r). split; assumption.
Qed.

(* initiator: consume_resp; begin_session *)
Lemma initiator_keypair_ok d p m h1 h2 s2 k :
  dev_ok d -> In p (d_peers d) ->
  consume_resp (d_static d) (p_hs p) m = Some h1 ->
  begin_session h1 (p_kp p) = Some (h2, s2, k) ->
  peer_ok (d_static d) (hist d) (upd p h2 s2 0).
Proof.
  intros Hd Hin Hc Hb. set (dv := d_static d) in *.
  destruct (dev_ok_in d p Hd Hin) as (Hrs & Hss & Hhs & Hsl). fold dv in Hss, Hsl, Hhs.
  destruct (consume_resp_static _ _ _ _ Hc) as (Hst & Hpsk1 & Hrs1 & Hss1 & Hst1).
  destruct Hhs as [Hz|(_ & ts & idx & s & im & Hpi & Hh & Hck)].
  { rewrite Hz in Hst. discriminate. }
  destruct (accepted_response_is_from_addressed_peer _ _ _ _ _ Hst Hh Hck Hc)
    as (eR & s' & pm & _ & Hpr & _ & _ & _ & _ & Hc1).
  unfold begin_session in Hb. destruct (derive_keypair h1) as [k'|] eqn:Edk; [|discriminate].
  inversion Hb; subst h2 s2 k'; clear Hb.
  destruct (begin_session_is_paper h1 s' Hc1) as (HI & _ & _).
  destruct (HI Hst1) as (k' & Edk' & Hkeys & Hinit & _). rewrite Edk in Edk'. inversion Edk'; subst k'; clear Edk'.
  unfold peer_ok. cbn [upd p_id p_hs p_kp zero_handshake rstatic ss psk].
  split; [congruence|]. split; [congruence|]. split; [left; reflexivity|].
  rewrite Hpsk1. apply rotate_ok; [|exact Hsl].
  exists dv. split; [now left|].
  left. split; [exact Hinit|]. exists s'. split; [|exact Hkeys].
  rewrite Hrs in Hpi.
  exists (leph (p_hs p)), ts, idx, s, im, eR, (r_sender m), (r_receiver m), pm. split; assumption.
Qed.

Lemma send_initiation_ok d p e ts idx :
  dev_ok d -> peer_ok (d_static d) (hist d) p -> dev_ok (fst (send_initiation d p e ts idx)).
Proof.
  intros Hd (Hrs & Hss & Hhs & Hsl). unfold send_initiation.
  destruct (create_init (d_static d) (p_hs p) e ts idx) as [[h' m]|] eqn:Ec; cbn [fst]; [|exact Hd].
  apply upd_peer_ok; [exact Hd|].
  destruct (create_init_static _ _ _ _ _ _ _ Ec) as (Hpsk & Hrs' & Hss' & Hle).
  assert (Hss0 : ss (p_hs p) = dhn (d_static d) (rstatic (p_hs p))) by congruence.
  destruct (create_initiation_is_paper (d_static d) (p_hs p) e ts idx Hss0)
    as (h'' & m' & s & Ec' & Hpi & Hh & Hck & Hst & _).
  rewrite Ec in Ec'. inversion Ec'; subst h'' m'; clear Ec'.
  unfold peer_ok. cbn [sent_mac1 upd p_id p_hs p_kp].
  split; [congruence|]. split; [congruence|].
  split.
  - right. split; [exact Hst|]. rewrite Hle, Hrs'. do 4 eexists. split; [exact Hpi|split; assumption].
  - rewrite Hpsk. exact Hsl.
Qed.

(* ---- the invariant ------------------------------------------------------------ *)
Lemma init_step_ok d m er idx : dev_ok d -> dev_ok (fst (init_step d m er idx)).
Proof.
  intros Hd. unfold init_step.
  destruct (negb (check_mac1 (d_static d) (init_body m) (i_mac1 m))); [exact Hd|].
  destruct (consume_init (d_static d) (hs_list d) false m) as [[pid h1]|] eqn:Ec; [|exact Hd].
  destruct (get_peer (d_peers d) pid) as [p|] eqn:Eg; [|exact Hd].
  destruct (create_response_total _ _ _ _ _ er idx (dev_ok_peers_ok d Hd) Ec) as (h2 & r & Er).
  rewrite Er.
  destruct (begin_session h2 (p_kp p)) as [[[h3 s3] k]|] eqn:Eb.
  + cbn [fst]. apply upd_peer_ok; [exact Hd|].
    exact (responder_keypair_ok d m pid h1 er idx h2 r h3 s3 k p Hd Ec Eg Er Eb).
  + (* impossible: the state is handshakeResponseCreated *)
    exfalso. unfold begin_session in Eb.
    assert (st h2 = handshakeResponseCreated).
    { unfold create_resp in Er. destruct (negb (st h1 =? handshakeInitiationConsumed)); [discriminate|].
      destruct (dh er (reph h1)); [|discriminate]. cbn [dh kdf3] in Er. inversion Er; subst. reflexivity. }
    unfold derive_keypair in Eb. rewrite H in Eb. cbn in Eb. discriminate.
Qed.

(* peer_ok without the clause on the handshake state: what SetPrivateKey needs (it clears that state) *)
Definition peer_okw (dv : kid) (dvs : list kid) (p : peer) : Prop :=
  rstatic (p_hs p) = p_id p /\ ss (p_hs p) = dhn dv (p_id p) /\ slots_ok dvs (p_id p) (psk (p_hs p)) (p_kp p).

Lemma peer_ok_w dv dvs p : peer_ok dv dvs p -> peer_okw dv dvs p.
Proof. intros (A & B & _ & D). split; [exact A|]. split; [exact B|exact D]. Qed.

Lemma rekey_dev_ok d new : Forall (peer_okw (d_static d) (hist d)) (d_peers d) -> dev_ok (rekey_dev d new).
Proof.
  intros Hd. unfold dev_ok, rekey_dev, hist in *. cbn [d_static d_peers d_olds]. rewrite Forall_forall in *.
  intros q Hq. apply in_map_iff in Hq. destruct Hq as (p & <- & Hin).
  destruct (Hd p Hin) as (A & B & (Sp & Sc & Sn)).
  unfold peer_ok, rekey_peer. cbn [upd p_id p_hs p_kp clear_handshake rstatic ss psk st].
  split; [exact A|]. split; [now rewrite A|]. split; [left; reflexivity|].
  assert (Hi : incl (d_static d :: d_olds d) (new :: d_static d :: d_olds d)) by (intros x Hx; now right).
  unfold slots_ok. cbn [previous current next].
  split; [exact (okp_ok_mono _ _ _ _ _ Hi Sp)|].
  split; apply okp_ok_expire; [exact (okp_ok_mono _ _ _ _ _ Hi Sc)|exact (okp_ok_mono _ _ _ _ _ Hi Sn)].
Qed.

Lemma set_private_key_ok d new : dev_ok d -> dev_ok (set_private_key d new).
Proof.
  intros Hd. unfold set_private_key. destruct (set_key_noop d new); [exact Hd|].
  apply rekey_dev_ok. unfold dev_ok in Hd. rewrite Forall_forall in *. intros p Hin. apply peer_ok_w. now apply Hd.
Qed.

Lemma rekey_get_peer_st new ps k p2 : get_peer (map (rekey_peer new) ps) k = Some p2 -> st (p_hs p2) = handshakeZeroed.
Proof.
  induction ps as [|a r IH]; cbn [map get_peer]; [discriminate|].
  destruct (Nat.eqb (p_id (rekey_peer new a)) k); [|exact IH].
  intros H; inversion H; subst. reflexivity.
Qed.

Theorem dev_step_ok : forall d e, dev_ok d -> dev_ok (fst (dev_step d e)).
Proof.
  intros d e Hd. destruct e as [m er idx|m|receiver counter c|to e ts idx|to e ts idx| |receiver nonce c|new|secs|m er idx ck nonce|m er idx new]; cbn [dev_step].
  - (* EInit *)
    now apply init_step_ok.
  - (* EResp *)
    destruct (negb (check_mac1 (d_static d) (resp_body m) (r_mac1 m))); [exact Hd|].
    destruct (find_hs_index (d_peers d) (r_receiver m)) as [p|] eqn:Ef; [|exact Hd].
    destruct (consume_resp (d_static d) (p_hs p) m) as [h1|] eqn:Ec; [|exact Hd].
    destruct (begin_session h1 (p_kp p)) as [[[h2 s2] k]|] eqn:Eb; [|exact Hd].
    cbn [fst]. apply upd_peer_ok; [exact Hd|].
    exact (initiator_keypair_ok d p m h1 h2 s2 k Hd (find_hs_index_in _ _ _ Ef) Ec Eb).
  - (* EData *)
    destruct (find_kp_index (d_peers d) receiver) as [[p k]|] eqn:Ef; [|exact Hd].
    destruct (aead_open (kp_recv k) counter c TEmpty); [|exact Hd].
    destruct (received_with (kp_lidx k) (p_kp p)) as [s' promoted] eqn:Er.
    cbn [fst]. apply upd_peer_ok; [exact Hd|].
    destruct (dev_ok_in d p Hd (find_kp_index_in _ _ _ _ Ef)) as (A & B & C0 & D).
    unfold peer_ok. cbn [upd p_id p_hs p_kp]. split; [exact A|]. split; [exact B|]. split; [exact C0|].
    replace s' with (fst (received_with (kp_lidx k) (p_kp p))) by now rewrite Er.
    apply received_with_ok; exact D.
  - (* ETun *)
    destruct (get_peer (d_peers d) to) as [p|] eqn:Eg; [|exact Hd].
    destruct (get_peer_in _ _ _ Eg) as [Hin _].
    pose proof (dev_ok_in d p Hd Hin) as Hp.
    assert (Hs : dev_ok (fst (send_initiation (upd_peer d (upd p (p_hs p) (p_kp p) (p_staged p + 1)))
                                (upd p (p_hs p) (p_kp p) (p_staged p + 1)) e ts idx))).
    { apply send_initiation_ok; [apply upd_peer_ok; [exact Hd|]; exact Hp|exact Hp]. }
    destruct (current (p_kp p)) as [k0|]; [destruct (kp_dead k0)|]; try exact Hs.
    cbn [fst]. apply upd_peer_ok; [exact Hd|]. exact Hp.
  - (* EKick *)
    destruct (get_peer (d_peers d) to) as [p|] eqn:Eg; [|exact Hd].
    destruct (get_peer_in _ _ _ Eg) as [Hin _].
    apply send_initiation_ok; [exact Hd|]. exact (dev_ok_in d p Hd Hin).
  - (* ERestart *)
    cbn [fst]. unfold dev_ok in *. cbn [d_static d_peers]. rewrite Forall_forall in *.
    intros q Hq. apply in_map_iff in Hq. destruct Hq as (p & <- & Hin).
    destruct (Hd p Hin) as (A & B & _ & _).
    unfold peer_ok, restart_peer. cbn [upd p_id p_hs p_kp clear_handshake rstatic ss psk].
    split; [exact A|]. split; [exact B|]. split; [left; reflexivity|].
    unfold slots_ok, no_slots. cbn. auto.
  - (* ECookie *)
    destruct (find_any_index (d_peers d) receiver) as [p|] eqn:Ef; [|exact Hd].
    destruct (p_lastmac1 p); [|exact Hd].
    destruct (aead_open (cookie_key (TPub (p_id p))) nonce c t); [|exact Hd].
    cbn [fst]. apply upd_peer_ok; [exact Hd|].
    exact (dev_ok_in d p Hd (find_any_index_in _ _ _ Ef)).
  - (* ESetPrivateKey *)
    cbn [fst]. now apply set_private_key_ok.
  - (* EAge *)
    cbn [fst]. unfold dev_ok, hist in *. cbn [d_static d_peers d_olds]. rewrite Forall_forall in *.
    intros q Hq. apply in_map_iff in Hq. destruct Hq as (p & <- & Hin). exact (Hd p Hin).
  - (* EInitLoad *)
    destruct (negb (check_mac1 (d_static d) (init_body m) (i_mac1 m))); [exact Hd|].
    destruct (teqb (i_mac2 m) (mac ck (TPair (init_body m) (i_mac1 m)))); [now apply init_step_ok|exact Hd].
  - (* EInitKey *)
    destruct (negb (check_mac1 (d_static d) (init_body m) (i_mac1 m))); [cbn [fst]; now apply set_private_key_ok|].
    destruct (consume_init (d_static d) (hs_list d) false m) as [[pid h1]|] eqn:Ec; [|cbn [fst]; now apply set_private_key_ok].
    destruct (get_peer (d_peers d) pid) as [p|] eqn:Eg; [|cbn [fst]; now apply set_private_key_ok].
    destruct (set_key_noop d new); [now apply init_step_ok|].
    assert (Hd2 : dev_ok (rekey_dev (upd_peer d (upd p h1 (p_kp p) (p_staged p))) new)).
    { apply rekey_dev_ok. unfold upd_peer, hist. cbn [d_static d_peers d_olds].
      destruct (consume_init_inv _ _ _ _ _ _ Ec) as (e' & hq & ts' & _ & Ef & _ & _ & _ & _ & _ & _ & Hpsk1 & Hrs1 & Hss1 & _).
      destruct (find_peer_get_peer _ _ _ _ Ef) as (p' & Hg' & Hhq). rewrite Eg in Hg'. inversion Hg'; subst p'; clear Hg'.
      destruct (get_peer_in _ _ _ Eg) as [Hinp Hid]. subst hq.
      destruct (dev_ok_in d p Hd Hinp) as (A & B & _ & D).
      unfold dev_ok in Hd. rewrite Forall_forall in *. intros q Hq. apply in_map_iff in Hq. destruct Hq as (p0 & Hsel & Hin0).
      destruct (Nat.eqb (p_id p0) (p_id (upd p h1 (p_kp p) (p_staged p)))); subst q.
      - unfold peer_okw. cbn [upd p_id p_hs p_kp]. rewrite Hrs1, Hss1, Hpsk1. auto.
      - apply peer_ok_w. exact (Hd p0 Hin0). }
    destruct (get_peer (d_peers (rekey_dev (upd_peer d (upd p h1 (p_kp p) (p_staged p))) new)) pid) as [p2|] eqn:Eg2; [|exact Hd2].
    assert (Hz : st (p_hs p2) = handshakeZeroed) by (eapply rekey_get_peer_st; exact Eg2).
    unfold create_resp. rewrite Hz. cbn [N.eqb negb handshakeZeroed handshakeInitiationConsumed]. exact Hd2.
Qed.

Theorem no_session_with_stranger : forall (d : dev) (evs : list ev),
  dev_ok d -> dev_ok (final dev_step d evs).
Proof. intros d evs H. revert d H. apply (final_inv dev_step dev_ok). intros s o Hs. now apply dev_step_ok. Qed.

(* a freshly configured device satisfies the invariant *)
Lemma fresh_dev_ok dv (conf : list (kid * term)) :
  dev_ok {| d_static := dv;
            d_peers := map (fun kp => new_peer (fst kp) (new_handshake (Some dv) (fst kp) (snd kp))) conf;
            d_olds := [] |}.
Proof.
  unfold dev_ok. cbn [d_static d_peers]. induction conf as [|[k q] r IH]; cbn [map]; constructor; [|exact IH].
  unfold peer_ok. cbn. repeat split; auto. left. reflexivity.
Qed.

(* =========================================================================
   Restarts keep the configuration.  Whatever happens to a device -- handshakes
   in both roles, data, cookie replies, Down/Up cycles that stop and start
   every peer (Handshake.Clear) -- the preshared key, the remote static key and
   the precomputed static-static secret stored for a peer are the ones it was
   configured with.  Hence the keypair invariant above, which speaks about
   [psk (p_hs p)], speaks about the CONFIGURED preshared key, also after
   restarts: psk_mismatch_no_session continues to hold. *)
Definition static_of (h : hs) : term * kid := (psk h, rstatic h).
Definition view (d : dev) (k : kid) : option (term * kid) :=
  option_map (fun p => static_of (p_hs p)) (get_peer (d_peers d) k).
Definition ids (d : dev) : list kid := map p_id (d_peers d).

(* every peer record that q would replace carries q's configuration *)
Definition agrees (d : dev) (q : peer) : Prop :=
  forall p0, In p0 (d_peers d) -> p_id p0 = p_id q -> static_of (p_hs p0) = static_of (p_hs q).

Lemma nodup_id_inj ps p q : NoDup (map p_id ps) -> In p ps -> In q ps -> p_id p = p_id q -> p = q.
Proof.
  induction ps as [|a r IH]; cbn [map]; intros Hn Hp Hq Heq; [contradiction|].
  inversion Hn as [|x l Hnot Hn']; subst.
  destruct Hp as [->|Hp], Hq as [->|Hq]; auto.
  - exfalso. apply Hnot. rewrite Heq. now apply in_map.
  - exfalso. apply Hnot. rewrite <- Heq. now apply in_map.
Qed.

Lemma agrees_of_in d p q :
  NoDup (ids d) -> In p (d_peers d) -> p_id q = p_id p -> static_of (p_hs q) = static_of (p_hs p) -> agrees d q.
Proof.
  intros Hn Hin Hid Hst p0 Hin0 Hid0.
  assert (p0 = p) by (apply (nodup_id_inj (d_peers d)); auto; congruence). subst. now symmetry.
Qed.

Lemma upd_peer_ids d q : ids (upd_peer d q) = ids d.
Proof.
  unfold ids, upd_peer. cbn [d_peers]. induction (d_peers d) as [|a r IH]; cbn [map]; [reflexivity|].
  rewrite IH. destruct (Nat.eqb (p_id a) (p_id q)) eqn:E; [|reflexivity].
  apply Nat.eqb_eq in E. now rewrite E.
Qed.

Lemma upd_peer_view d q k : agrees d q -> view (upd_peer d q) k = view d k.
Proof.
  unfold view, upd_peer, agrees. cbn [d_peers]. induction (d_peers d) as [|a r IH]; intros Ha; cbn [map get_peer]; [reflexivity|].
  destruct (Nat.eqb (p_id a) (p_id q)) eqn:E.
  - apply Nat.eqb_eq in E. replace (Nat.eqb (p_id q) k) with (Nat.eqb (p_id a) k) by now rewrite E.
    destruct (Nat.eqb (p_id a) k); cbn [option_map].
    + f_equal. symmetry. apply Ha; [now left|exact E].
    + apply IH. intros p0 H0. apply Ha. now right.
  - destruct (Nat.eqb (p_id a) k); [reflexivity|]. apply IH. intros p0 H0. apply Ha. now right.
Qed.

Lemma agrees_upd d q1 q2 :
  agrees d q1 -> p_id q2 = p_id q1 -> static_of (p_hs q2) = static_of (p_hs q1) -> agrees (upd_peer d q1) q2.
Proof.
  intros Ha Hid Hst p0 Hin Hid0. unfold upd_peer in Hin. cbn [d_peers] in Hin.
  apply in_map_iff in Hin. destruct Hin as (a & Hsel & Hina).
  destruct (Nat.eqb (p_id a) (p_id q1)) eqn:E.
  - subst p0. now symmetry.
  - subst p0. apply Nat.eqb_neq in E. exfalso. apply E. congruence.
Qed.

Lemma begin_session_static h s h' s' k : begin_session h s = Some (h', s', k) -> static_of h' = static_of h.
Proof.
  unfold begin_session. destruct (derive_keypair h); [|discriminate]. intros H; inversion H; subst. reflexivity.
Qed.

Lemma static_eq h h' : psk h' = psk h -> rstatic h' = rstatic h -> static_of h' = static_of h.
Proof. unfold static_of. intros -> ->. reflexivity. Qed.

Lemma send_initiation_view d p e ts idx k :
  agrees d p ->
  view (fst (send_initiation d p e ts idx)) k = view d k /\ ids (fst (send_initiation d p e ts idx)) = ids d.
Proof.
  intros Ha. unfold send_initiation.
  destruct (create_init (d_static d) (p_hs p) e ts idx) as [[h' m]|] eqn:Ec; cbn [fst]; [|split; reflexivity].
  destruct (create_init_static _ _ _ _ _ _ _ Ec) as (A & B & C0 & _).
  split; [|apply upd_peer_ids]. apply upd_peer_view.
  intros p0 Hin Hid. cbn [sent_mac1 upd p_id p_hs] in *. rewrite (Ha p0 Hin Hid). symmetry. now apply static_eq.
Qed.

Lemma init_step_view d m er idx k : NoDup (ids d) ->
  view (fst (init_step d m er idx)) k = view d k /\ ids (fst (init_step d m er idx)) = ids d.
Proof.
  intros Hn. unfold init_step.
    destruct (negb (check_mac1 (d_static d) (init_body m) (i_mac1 m))); [split; reflexivity|].
    destruct (consume_init (d_static d) (hs_list d) false m) as [[pid h1]|] eqn:Ec; [|split; reflexivity].
    destruct (get_peer (d_peers d) pid) as [p|] eqn:Eg; [|split; reflexivity].
    destruct (consume_init_inv _ _ _ _ _ _ Ec) as (e' & hq & ts' & _ & Ef & _ & _ & _ & _ & _ & _ & Hpsk1 & Hrs1 & Hss1 & _).
    destruct (find_peer_get_peer _ _ _ _ Ef) as (p' & Hg' & Hhq). rewrite Eg in Hg'. inversion Hg'; subst p'; clear Hg'.
    destruct (get_peer_in _ _ _ Eg) as [Hin Hid]. subst hq.
    assert (S1 : static_of h1 = static_of (p_hs p)) by now apply static_eq.
    destruct (create_resp h1 er idx) as [[h2 r]|] eqn:Er; cbn [fst].
    + destruct (create_resp_static _ _ _ _ _ Er) as (A & B & C0).
      assert (S2 : static_of h2 = static_of (p_hs p)) by (rewrite <- S1; now apply static_eq).
      destruct (begin_session h2 (p_kp p)) as [[[h3 s3] k0]|] eqn:Eb; cbn [fst];
        (split; [|apply upd_peer_ids]); apply upd_peer_view; apply (agrees_of_in d p); auto.
      cbn [sent_mac1 upd p_hs]. rewrite (begin_session_static _ _ _ _ _ Eb). exact S2.
    + split; [|apply upd_peer_ids]. apply upd_peer_view. apply (agrees_of_in d p); auto.
Qed.

Lemma rekey_dev_view d new k : view (rekey_dev d new) k = view d k /\ ids (rekey_dev d new) = ids d.
Proof.
  unfold view, ids, rekey_dev. cbn [d_peers]. split.
  - induction (d_peers d) as [|a r IH]; cbn [map get_peer]; [reflexivity|].
    cbn [rekey_peer upd p_id]. destruct (Nat.eqb (p_id a) k); [reflexivity|]. apply IH.
  - rewrite map_map. reflexivity.
Qed.

Lemma set_private_key_view d new k :
  view (set_private_key d new) k = view d k /\ ids (set_private_key d new) = ids d.
Proof. unfold set_private_key. destruct (set_key_noop d new); [split; reflexivity|apply rekey_dev_view]. Qed.

Theorem dev_step_view : forall d e k, NoDup (ids d) ->
  view (fst (dev_step d e)) k = view d k /\ ids (fst (dev_step d e)) = ids d.
Proof.
  intros d e k Hn. destruct e as [m er idx|m|receiver counter c|to e ts idx|to e ts idx| |receiver nonce c|new|secs|m er idx ck nonce|m er idx new]; cbn [dev_step].
  - (* EInit *)
    now apply init_step_view.
  - (* EResp *)
    destruct (negb (check_mac1 (d_static d) (resp_body m) (r_mac1 m))); [split; reflexivity|].
    destruct (find_hs_index (d_peers d) (r_receiver m)) as [p|] eqn:Ef; [|split; reflexivity].
    destruct (consume_resp (d_static d) (p_hs p) m) as [h1|] eqn:Ec; [|split; reflexivity].
    destruct (begin_session h1 (p_kp p)) as [[[h2 s2] k0]|] eqn:Eb; [|split; reflexivity].
    cbn [fst]. split; [|apply upd_peer_ids]. apply upd_peer_view.
    apply (agrees_of_in d p); auto. { eapply find_hs_index_in; eauto. }
    cbn [upd p_hs]. rewrite (begin_session_static _ _ _ _ _ Eb).
    destruct (consume_resp_static _ _ _ _ Ec) as (_ & A & B & C0 & _). now apply static_eq.
  - (* EData *)
    destruct (find_kp_index (d_peers d) receiver) as [[p k0]|] eqn:Ef; [|split; reflexivity].
    destruct (aead_open (kp_recv k0) counter c TEmpty); [|split; reflexivity].
    destruct (received_with (kp_lidx k0) (p_kp p)) as [s' promoted].
    cbn [fst]. split; [|apply upd_peer_ids]. apply upd_peer_view.
    apply (agrees_of_in d p); auto. eapply find_kp_index_in; eauto.
  - (* ETun *)
    destruct (get_peer (d_peers d) to) as [p|] eqn:Eg; [|split; reflexivity].
    destruct (get_peer_in _ _ _ Eg) as [Hin _].
    assert (Ha : agrees d (upd p (p_hs p) (p_kp p) (p_staged p + 1))) by (apply (agrees_of_in d p); auto).
    assert (Hs : view (fst (send_initiation (upd_peer d (upd p (p_hs p) (p_kp p) (p_staged p + 1)))
                              (upd p (p_hs p) (p_kp p) (p_staged p + 1)) e ts idx)) k = view d k /\
                 ids (fst (send_initiation (upd_peer d (upd p (p_hs p) (p_kp p) (p_staged p + 1)))
                             (upd p (p_hs p) (p_kp p) (p_staged p + 1)) e ts idx)) = ids d).
    { destruct (send_initiation_view (upd_peer d (upd p (p_hs p) (p_kp p) (p_staged p + 1)))
                  (upd p (p_hs p) (p_kp p) (p_staged p + 1)) e ts idx k) as [V I].
      { apply agrees_upd; auto. }
      rewrite V, I. split; [now apply upd_peer_view|apply upd_peer_ids]. }
    destruct (current (p_kp p)) as [k0|]; [destruct (kp_dead k0)|]; try exact Hs.
    cbn [fst]. split; [|apply upd_peer_ids]. apply upd_peer_view. apply (agrees_of_in d p); auto.
  - (* EKick *)
    destruct (get_peer (d_peers d) to) as [p|] eqn:Eg; [|split; reflexivity].
    destruct (get_peer_in _ _ _ Eg) as [Hin _].
    apply send_initiation_view. apply (agrees_of_in d p); auto.
  - (* ERestart *)
    cbn [fst]. unfold view, ids. cbn [d_peers]. split.
    + induction (d_peers d) as [|a r IH]; cbn [map get_peer]; [reflexivity|].
      cbn [restart_peer upd p_id]. destruct (Nat.eqb (p_id a) k); [reflexivity|].
      apply IH.
    + rewrite map_map. reflexivity.
  - (* ECookie *)
    destruct (find_any_index (d_peers d) receiver) as [p|] eqn:Ef; [|split; reflexivity].
    destruct (p_lastmac1 p); [|split; reflexivity].
    destruct (aead_open (cookie_key (TPub (p_id p))) nonce c t); [|split; reflexivity].
    cbn [fst]. split; [|apply upd_peer_ids]. apply upd_peer_view.
    apply (agrees_of_in d p); auto. eapply find_any_index_in; eauto.
  - (* ESetPrivateKey *)
    cbn [fst]. apply set_private_key_view.
  - (* EAge *)
    cbn [fst]. unfold view, ids. cbn [d_peers]. split.
    + induction (d_peers d) as [|a r IH]; cbn [map get_peer]; [reflexivity|].
      cbn [age_peer p_id]. destruct (Nat.eqb (p_id a) k); [reflexivity|]. apply IH.
    + rewrite map_map. reflexivity.
  - (* EInitLoad *)
    destruct (negb (check_mac1 (d_static d) (init_body m) (i_mac1 m))); [split; reflexivity|].
    destruct (teqb (i_mac2 m) (mac ck (TPair (init_body m) (i_mac1 m)))); [now apply init_step_view|split; reflexivity].
  - (* EInitKey *)
    destruct (negb (check_mac1 (d_static d) (init_body m) (i_mac1 m))); [cbn [fst]; apply set_private_key_view|].
    destruct (consume_init (d_static d) (hs_list d) false m) as [[pid h1]|] eqn:Ec; [|cbn [fst]; apply set_private_key_view].
    destruct (get_peer (d_peers d) pid) as [p|] eqn:Eg; [|cbn [fst]; apply set_private_key_view].
    destruct (set_key_noop d new); [now apply init_step_view|].
    destruct (consume_init_inv _ _ _ _ _ _ Ec) as (e' & hq & ts' & _ & Ef & _ & _ & _ & _ & _ & _ & Hpsk1 & Hrs1 & Hss1 & _).
    destruct (find_peer_get_peer _ _ _ _ Ef) as (p' & Hg' & Hhq). rewrite Eg in Hg'. inversion Hg'; subst p'; clear Hg'.
    destruct (get_peer_in _ _ _ Eg) as [Hin Hid]. subst hq.
    assert (V : view (rekey_dev (upd_peer d (upd p h1 (p_kp p) (p_staged p))) new) k = view d k /\
                ids (rekey_dev (upd_peer d (upd p h1 (p_kp p) (p_staged p))) new) = ids d).
    { destruct (rekey_dev_view (upd_peer d (upd p h1 (p_kp p) (p_staged p))) new k) as [V I]. rewrite V, I.
      split; [|apply upd_peer_ids]. apply upd_peer_view. apply (agrees_of_in d p); auto. cbn [upd p_hs]. now apply static_eq. }
    destruct (get_peer (d_peers (rekey_dev (upd_peer d (upd p h1 (p_kp p) (p_staged p))) new)) pid) as [p2|] eqn:Eg2; [|exact V].
    assert (Hz : st (p_hs p2) = handshakeZeroed) by (eapply rekey_get_peer_st; exact Eg2).
    unfold create_resp. rewrite Hz. cbn [N.eqb negb handshakeZeroed handshakeInitiationConsumed]. exact V.
Qed.

Theorem restart_keeps_psk_and_identity : forall (d : dev) (evs : list ev) (k : kid),
  NoDup (ids d) -> view (final dev_step d evs) k = view d k.
Proof.
  intros d evs k Hn.
  assert (H : view (final dev_step d evs) k = view d k /\ ids (final dev_step d evs) = ids d).
  { apply (final_inv dev_step (fun s => view s k = view d k /\ ids s = ids d)); [|split; reflexivity].
    intros s o [Hv Hi]. assert (Hn' : NoDup (ids s)) by now rewrite Hi.
    destruct (dev_step_view s o k Hn') as [V I]. split; congruence. }
  exact (proj1 H).
Qed.

(* the preshared key a peer's handshake functions use is the configured one, at every moment *)
Corollary psk_is_configured : forall (d : dev) (evs : list ev) (p : peer),
  NoDup (ids d) -> In p (d_peers (final dev_step d evs)) ->
  exists p0, In p0 (d_peers d) /\ p_id p0 = p_id p /\ psk (p_hs p) = psk (p_hs p0) /\
             rstatic (p_hs p) = rstatic (p_hs p0).
Proof.
  intros d evs p Hn Hin.
  assert (Hi : ids (final dev_step d evs) = ids d).
  { apply (final_inv dev_step (fun s => ids s = ids d)); [|reflexivity].
    intros s o Hi. assert (Hn' : NoDup (ids s)) by now rewrite Hi.
    destruct (dev_step_view s o O Hn'). congruence. }
  pose proof (restart_keeps_psk_and_identity d evs (p_id p) Hn) as Hv. unfold view in Hv.
  assert (Hg : get_peer (d_peers (final dev_step d evs)) (p_id p) = Some p).
  { assert (Hn' : NoDup (ids (final dev_step d evs))) by now rewrite Hi.
    clear -Hin Hn'. unfold ids in Hn'. induction (d_peers (final dev_step d evs)) as [|a r IH]; [contradiction|].
    cbn [get_peer]. destruct (Nat.eqb (p_id a) (p_id p)) eqn:E.
    - apply Nat.eqb_eq in E. f_equal. apply (nodup_id_inj (a :: r)); auto. now left.
    - destruct Hin as [->|Hin]; [rewrite Nat.eqb_refl in E; discriminate|].
      apply IH; auto. cbn [map] in Hn'. now inversion Hn'. }
  rewrite Hg in Hv. cbn [option_map] in Hv.
  destruct (get_peer (d_peers d) (p_id p)) as [p0|] eqn:Eg; cbn [option_map] in Hv; [|discriminate].
  destruct (get_peer_in _ _ _ Eg) as [Hin0 Hid0].
  exists p0. unfold static_of in Hv. inversion Hv. auto.
Qed.

(* The cached static-static secret follows the identity: after ANY history --
   handshakes, restarts, cookie replies, private-key changes -- every peer's
   precomputedStaticStatic is DH(the device's CURRENT static key, that peer's
   static key), and remoteStatic is that peer's key.  Hence the theorems about
   create_init / consume_init (which assume exactly this: [peers_ok]) and with
   them handshake_completes_mirrored apply under the new identity. *)
Theorem ss_follows_identity : forall (d : dev) (evs : list ev),
  dev_ok d ->
  let d' := final dev_step d evs in
  peers_ok (d_static d') (hs_list d') /\
  forall p, In p (d_peers d') -> rstatic (p_hs p) = p_id p /\ ss (p_hs p) = dhn (d_static d') (p_id p).
Proof.
  intros d evs Hd d'. pose proof (no_session_with_stranger d evs Hd) as H. fold d' in H.
  split; [now apply dev_ok_peers_ok|].
  intros p Hin. destruct (dev_ok_in d' p H Hin) as (A & B & _). split; assumption.
Qed.

(* the identity the device ends with is the last key set (or the initial one) *)
Lemma set_private_key_identity d new :
  new <> d_static d -> (forall p, In p (d_peers d) -> p_id p <> new) ->
  d_static (fst (dev_step d (ESetPrivateKey new))) = new.
Proof.
  intros H1 H2. cbn [dev_step fst]. unfold set_private_key, set_key_noop.
  assert (Nat.eqb new (d_static d) = false) as -> by now apply Nat.eqb_neq.
  assert (existsb (fun p => Nat.eqb (p_id p) new) (d_peers d) = false) as ->.
  { destruct (existsb _ _) eqn:E; [|reflexivity]. apply existsb_exists in E. destruct E as (p & Hin & E).
    apply Nat.eqb_eq in E. exfalso. exact (H2 p Hin E). }
  reflexivity.
Qed.

(* A received cookie is used for CookieRefreshTime only: once it is older, AddMacs
   leaves MAC2 zero again ("absent a cookie"), for initiations and responses alike,
   until another authentic cookie reply arrives. *)
Lemma expired_cookie_not_held p c age : p_cookie p = Some (c, age) -> CookieRefreshTimeSecs <= age -> held_cookie p = None.
Proof.
  intros H Ha. unfold held_cookie. rewrite H.
  replace (age <? CookieRefreshTimeSecs)%N with false; [reflexivity|]. symmetry. apply N.ltb_ge. exact Ha.
Qed.

Theorem expired_cookie_zero_mac2 : forall d p e ts idx c age,
  p_cookie p = Some (c, age) -> (CookieRefreshTimeSecs <= age)%N ->
  forall to m, In (OInit to m) (snd (send_initiation d p e ts idx)) -> i_mac2 m = TZero.
Proof.
  intros d p e ts idx c age Hc Ha to m Hin. unfold send_initiation in Hin.
  rewrite (expired_cookie_not_held p c age Hc Ha) in Hin.
  destruct (create_init (d_static d) (p_hs p) e ts idx) as [[h' m0]|]; cbn [snd] in Hin; [|contradiction].
  destruct Hin as [Hin|[]]. inversion Hin; subst. reflexivity.
Qed.

Lemma age_accumulates secs p c age : p_cookie p = Some (c, age) -> p_cookie (age_peer secs p) = Some (c, (age + secs)%N).
Proof. intros H. unfold age_peer. cbn [p_cookie]. now rewrite H. Qed.

(* A change of the private key that falls between ConsumeMessageInitiation and
   CreateMessageResponse voids the consumed initiation: no response is sent and the
   device is exactly the re-keyed device (every handshake cleared, no new keypair);
   at most the consumed handshake fields of one peer were written before, and
   Handshake.Clear() erases them.  So no session forms under the new identity with
   an initiator that addressed the old one. *)
Theorem key_change_voids_consumed_initiation : forall d m er idx new,
  set_key_noop d new = false ->
  exists d1, dev_step d (EInitKey m er idx new) = (rekey_dev d1 new, []) /\
             (d1 = d \/ exists p h1, In p (d_peers d) /\ d1 = upd_peer d (upd p h1 (p_kp p) (p_staged p))).
Proof.
  intros d m er idx new Hn. cbn [dev_step]. unfold set_private_key. rewrite Hn.
  destruct (negb (check_mac1 (d_static d) (init_body m) (i_mac1 m))); [exists d; auto|].
  destruct (consume_init (d_static d) (hs_list d) false m) as [[pid h1]|]; [|exists d; auto].
  destruct (get_peer (d_peers d) pid) as [p|] eqn:Eg; [|exists d; auto].
  exists (upd_peer d (upd p h1 (p_kp p) (p_staged p))).
  split; [|right; exists p, h1; split; [exact (proj1 (get_peer_in _ _ _ Eg))|reflexivity]].
  destruct (get_peer (d_peers (rekey_dev (upd_peer d (upd p h1 (p_kp p) (p_staged p))) new)) pid) as [p2|] eqn:Eg2; [|reflexivity].
  assert (Hz : st (p_hs p2) = handshakeZeroed) by (eapply rekey_get_peer_st; exact Eg2).
  unfold create_resp. rewrite Hz. reflexivity.
Qed.

Lemma rekey_dev_no_open_handshake d new p : In p (d_peers (rekey_dev d new)) ->
  st (p_hs p) = handshakeZeroed /\ lidx (p_hs p) = 0%N.
Proof.
  unfold rekey_dev. cbn [d_peers]. intros H. apply in_map_iff in H. destruct H as (q & <- & _). split; reflexivity.
Qed.

(* Under load the device answers an initiation without a valid MAC2 (and with a valid MAC1) by a
   cookie reply that the SENDER can open: sealed under Hash("cookie--" || device key) with the
   MAC1 of the sender's own message as associated data, addressed to the message's sender index;
   nothing else happens.  Retrying the same initiation with MAC2 under that cookie is then
   processed as without load. *)
Theorem cookie_reply_opens_at_initiator : forall d m er idx ck nonce,
  check_mac1 (d_static d) (init_body m) (i_mac1 m) = true ->
  i_mac2 m <> mac ck (TPair (init_body m) (i_mac1 m)) ->
  exists c, dev_step d (EInitLoad m er idx ck nonce) = (d, [OCookieReply (i_sender m) nonce c]) /\
            aead_open (cookie_key (TPub (d_static d))) nonce c (i_mac1 m) = Some ck.
Proof.
  intros d m er idx ck nonce H1 H2. cbn [dev_step]. rewrite H1. cbn [negb].
  rewrite (teqb_neq _ _ H2). eexists. split; [reflexivity|]. apply aead_open_seal.
Qed.

Theorem loaded_retry_with_cookie_as_unloaded : forall d m er idx ck nonce,
  check_mac1 (d_static d) (init_body m) (i_mac1 m) = true ->
  i_mac2 m = mac ck (TPair (init_body m) (i_mac1 m)) ->
  dev_step d (EInitLoad m er idx ck nonce) = init_step d m er idx.
Proof. intros d m er idx ck nonce H1 H2. cbn [dev_step]. rewrite H1, H2, teqb_refl. reflexivity. Qed.
