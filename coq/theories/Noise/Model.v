(* Executable mirror of device/noise-protocol.go (CreateMessageInitiation,
   ConsumeMessageInitiation, CreateMessageResponse, ConsumeMessageResponse,
   BeginSymmetricSession, ReceivedWithKeypair), of CookieGenerator.AddMacs /
   CookieChecker.CheckMAC1 (cookie.go) and of the handshake paths of send.go /
   receive.go, over symbolic terms.  Same order of hash / chain-key updates as
   the code, same checks, same state tags.  No proofs here.

   Values the device draws at random or reads from the clock (ephemeral key,
   index, timestamp, "flood" time class) are inputs (oracles). *)
From WG Require Import Base.Prelude Gen.Constants Sym.Term Noise.Msg.
Local Open Scope N_scope.

(* handshakeState *)
Definition handshakeZeroed : N := 0.
Definition handshakeInitiationCreated : N := 1.
Definition handshakeInitiationConsumed : N := 2.
Definition handshakeResponseCreated : N := 3.
Definition handshakeResponseConsumed : N := 4.

(* type Handshake struct *)
Record hs := {
  st : N;                 (* state *)
  hash : term;
  ck : term;              (* chainKey *)
  psk : term;             (* presharedKey *)
  leph : kid;             (* localEphemeral *)
  lidx : N;               (* localIndex *)
  ridx : N;               (* remoteIndex *)
  rstatic : kid;          (* remoteStatic (public key of this private-key id) *)
  reph : term;            (* remoteEphemeral *)
  ss : term;              (* precomputedStaticStatic *)
  lastTs : N              (* lastTimestamp *)
}.

(* init(): InitialChainKey = Hash(Construction); InitialHash = Hash(InitialChainKey || Identifier) *)
Definition InitialChainKey : term := THash1 Construction.
Definition InitialHash : term := mixHash InitialChainKey Identifier.

(* NewPeer / SetPrivateKey: precomputedStaticStatic = sharedSecret(device private, peer public);
   a device without a private key has the all-zero secret. *)
Definition precompute (sdev : option kid) (rs : kid) : term :=
  match sdev with Some d => dhn d rs | None => TZero end.

Definition new_handshake (sdev : option kid) (rs : kid) (p : term) : hs :=
  {| st := handshakeZeroed; hash := TZero; ck := TZero; psk := p; leph := O; lidx := 0; ridx := 0;
     rstatic := rs; reph := TZero; ss := precompute sdev rs; lastTs := 0 |}.

(* ---- CreateMessageInitiation ------------------------------------------ *)
Definition create_init (sdev : kid) (h : hs) (e : kid) (ts idx : N) : option (hs * init_msg) :=
  let hash0 := InitialHash in
  let ck0 := InitialChainKey in
  let hash1 := mixHash hash0 (TPub (rstatic h)) in           (* handshake.mixHash(remoteStatic) *)
  let E := TPub e in                                         (* msg.Ephemeral *)
  let ck1 := mixKey ck0 E in                                 (* handshake.mixKey(msg.Ephemeral) *)
  let hash2 := mixHash hash1 E in                            (* handshake.mixHash(msg.Ephemeral) *)
  match dh e (TPub (rstatic h)) with                         (* localEphemeral.sharedSecret(remoteStatic) *)
  | None => None
  | Some es =>
    let '(ck2, key1) := kdf2 ck1 es in                       (* KDF2(&chainKey, &key, chainKey, ss) *)
    let static := aead_seal key1 0 (TPub sdev) hash2 in      (* Seal(.., publicKey, hash) *)
    let hash3 := mixHash hash2 static in
    if is_zero (ss h) then None else                         (* isZero(precomputedStaticStatic) *)
    let '(ck3, key2) := kdf2 ck2 (ss h) in
    let tsf := aead_seal key2 0 (TN ts) hash3 in             (* Seal(.., timestamp, hash) *)
    let hash4 := mixHash hash3 tsf in                        (* mixHash(msg.Timestamp) *)
    Some ({| st := handshakeInitiationCreated; hash := hash4; ck := ck3; psk := psk h; leph := e;
             lidx := idx; ridx := ridx h; rstatic := rstatic h; reph := reph h; ss := ss h;
             lastTs := lastTs h |},
          {| i_type := MessageInitiationType; i_sender := idx; i_eph := E; i_static := static;
             i_ts := tsf; i_mac1 := TZero; i_mac2 := TZero |})
  end.

(* device.LookupPeer(peerPK) over the configured peers *)
Fixpoint find_peer (peers : list (kid * hs)) (pk : term) : option (kid * hs) :=
  match peers with
  | [] => None
  | (k, h) :: r => if teqb (TPub k) pk then Some (k, h) else find_peer r pk
  end.

(* ---- ConsumeMessageInitiation ------------------------------------------
   [flood] is the time class  time.Since(lastInitiationConsumption) <= HandshakeInitationRate. *)
Definition consume_init (sdev : kid) (peers : list (kid * hs)) (flood : bool) (m : init_msg)
  : option (kid * hs) :=
  if negb (i_type m =? MessageInitiationType) then None else
  let hash1 := mixHash InitialHash (TPub sdev) in            (* mixHash(&hash, &InitialHash, publicKey) *)
  let hash2 := mixHash hash1 (i_eph m) in                    (* mixHash(&hash, &hash, msg.Ephemeral) *)
  let ck1 := mixKey InitialChainKey (i_eph m) in             (* mixKey(&chainKey, &InitialChainKey, msg.Ephemeral) *)
  match dh sdev (i_eph m) with                               (* privateKey.sharedSecret(msg.Ephemeral) *)
  | None => None
  | Some se =>
    let '(ck2, key1) := kdf2 ck1 se in
    match aead_open key1 0 (i_static m) hash2 with           (* aead.Open(peerPK, .., msg.Static, hash) *)
    | None => None
    | Some peerPK =>
      let hash3 := mixHash hash2 (i_static m) in
      match find_peer peers peerPK with                      (* LookupPeer; nil => return nil *)
      | None => None
      | Some (pid, h) =>
        if is_zero (ss h) then None else
        let '(ck3, key2) := kdf2 ck2 (ss h) in
        match aead_open key2 0 (i_ts m) hash3 with           (* aead.Open(timestamp, .., msg.Timestamp, hash) *)
        | Some (TN ts) =>
          let hash4 := mixHash hash3 (i_ts m) in
          let replay := negb (lastTs h <? ts) in             (* !timestamp.After(lastTimestamp) *)
          if replay then None else
          if flood then None else
          Some (pid, {| st := handshakeInitiationConsumed; hash := hash4; ck := ck3; psk := psk h;
                        leph := leph h; lidx := lidx h; ridx := i_sender m; rstatic := rstatic h;
                        reph := i_eph m; ss := ss h; lastTs := ts |})
        | _ => None
        end
      end
    end
  end.

(* ---- CreateMessageResponse -------------------------------------------- *)
Definition create_resp (h : hs) (e : kid) (idx : N) : option (hs * resp_msg) :=
  if negb (st h =? handshakeInitiationConsumed) then None else
  let E := TPub e in
  let hash1 := mixHash (hash h) E in                         (* handshake.mixHash(msg.Ephemeral) *)
  let ck1 := mixKey (ck h) E in                              (* handshake.mixKey(msg.Ephemeral) *)
  match dh e (reph h) with                                   (* sharedSecret(remoteEphemeral) *)
  | None => None
  | Some ee =>
    let ck2 := mixKey ck1 ee in
    match dh e (TPub (rstatic h)) with                       (* sharedSecret(remoteStatic) *)
    | None => None
    | Some se =>
      let ck3 := mixKey ck2 se in
      let '(ck4, tau, key) := kdf3 ck3 (psk h) in            (* KDF3(&chainKey, &tau, &key, chainKey, presharedKey) *)
      let hash2 := mixHash hash1 tau in
      let empty := aead_seal key 0 TEmpty hash2 in
      let hash3 := mixHash hash2 empty in
      Some ({| st := handshakeResponseCreated; hash := hash3; ck := ck4; psk := psk h; leph := e;
               lidx := idx; ridx := ridx h; rstatic := rstatic h; reph := reph h; ss := ss h;
               lastTs := lastTs h |},
            {| r_type := MessageResponseType; r_sender := idx; r_receiver := ridx h; r_eph := E;
               r_empty := empty; r_mac1 := TZero; r_mac2 := TZero |})
    end
  end.

(* ---- ConsumeMessageResponse (on the handshake the index table returned) -- *)
Definition consume_resp (sdev : kid) (h : hs) (m : resp_msg) : option hs :=
  if negb (r_type m =? MessageResponseType) then None else
  if negb (st h =? handshakeInitiationCreated) then None else
  let hash1 := mixHash (hash h) (r_eph m) in
  let ck1 := mixKey (ck h) (r_eph m) in
  match dh (leph h) (r_eph m) with                           (* localEphemeral.sharedSecret(msg.Ephemeral) *)
  | None => None
  | Some ee =>
    let ck2 := mixKey ck1 ee in
    match dh sdev (r_eph m) with                             (* privateKey.sharedSecret(msg.Ephemeral) *)
    | None => None
    | Some se =>
      let ck3 := mixKey ck2 se in
      let '(ck4, tau, key) := kdf3 ck3 (psk h) in
      let hash2 := mixHash hash1 tau in
      match aead_open key 0 (r_empty m) hash2 with          (* msg.Empty is TagSize bytes: the plaintext is empty *)
      | Some TEmpty =>
        let hash3 := mixHash hash2 (r_empty m) in
        Some {| st := handshakeResponseConsumed; hash := hash3; ck := ck4; psk := psk h; leph := leph h;
                lidx := lidx h; ridx := r_sender m; rstatic := rstatic h; reph := reph h; ss := ss h;
                lastTs := lastTs h |}
      | _ => None
      end
    end
  end.

(* ---- BeginSymmetricSession --------------------------------------------- *)
Record keypair := { kp_send : term; kp_recv : term; kp_init : bool; kp_lidx : N; kp_ridx : N;
                    kp_dead : bool }.   (* sendNonce forced to RejectAfterMessages: nothing more is sent under it *)
Record slots := { previous : option keypair; current : option keypair; next : option keypair }.
Definition no_slots : slots := {| previous := None; current := None; next := None |}.

Definition derive_keypair (h : hs) : option keypair :=
  if st h =? handshakeResponseConsumed then
    let '(s, r) := kdf2 (ck h) TEmpty in                     (* KDF2(&sendKey, &recvKey, chainKey, nil) *)
    Some {| kp_send := s; kp_recv := r; kp_init := true; kp_lidx := lidx h; kp_ridx := ridx h; kp_dead := false |}
  else if st h =? handshakeResponseCreated then
    let '(r, s) := kdf2 (ck h) TEmpty in                     (* KDF2(&recvKey, &sendKey, chainKey, nil) *)
    Some {| kp_send := s; kp_recv := r; kp_init := false; kp_lidx := lidx h; kp_ridx := ridx h; kp_dead := false |}
  else None.

Definition zero_handshake (h : hs) : hs :=
  {| st := handshakeZeroed; hash := TZero; ck := TZero; psk := psk h; leph := O; lidx := 0;
     ridx := ridx h; rstatic := rstatic h; reph := reph h; ss := ss h; lastTs := lastTs h |}.

Definition rotate (k : keypair) (s : slots) : slots :=
  if kp_init k then
    match next s with
    | Some n => {| previous := Some n; current := Some k; next := None |}
    | None => {| previous := current s; current := Some k; next := None |}
    end
  else {| previous := None; current := current s; next := Some k |}.

Definition begin_session (h : hs) (s : slots) : option (hs * slots * keypair) :=
  match derive_keypair h with
  | None => None
  | Some k => Some (zero_handshake h, rotate k s, k)
  end.

(* ReceivedWithKeypair: a packet authenticated under [next] promotes it. *)
Definition received_with (lidx_of_kp : N) (s : slots) : slots * bool :=
  match next s with
  | Some n => if kp_lidx n =? lidx_of_kp
              then ({| previous := current s; current := Some n; next := None |}, true)
              else (s, false)
  | None => (s, false)
  end.

(* ---- cookie.go: AddMacs / CheckMAC1 ------------------------------------ *)
(* CookieGenerator.Init(pk): mac1.key = Hash(WGLabelMAC1 || pk) *)
Definition mac1_key (pk : term) : term := THash2 LabelMac1 pk.

(* AddMacs(msg): mac1 over msg[:smac1]; mac2 over msg[:smac2] only while a fresh cookie is held *)
Definition add_macs (peer_pk : term) (cookie : option term) (body : term) : term * term :=
  let m1 := mac (mac1_key peer_pk) body in
  (m1, match cookie with None => TZero | Some c => mac c (TPair body m1) end).

Definition stamp_init (peer_pk : term) (cookie : option term) (m : init_msg) : init_msg :=
  let '(m1, m2) := add_macs peer_pk cookie (init_body m) in
  {| i_type := i_type m; i_sender := i_sender m; i_eph := i_eph m; i_static := i_static m;
     i_ts := i_ts m; i_mac1 := m1; i_mac2 := m2 |}.
Definition stamp_resp (peer_pk : term) (cookie : option term) (m : resp_msg) : resp_msg :=
  let '(m1, m2) := add_macs peer_pk cookie (resp_body m) in
  {| r_type := r_type m; r_sender := r_sender m; r_receiver := r_receiver m; r_eph := r_eph m;
     r_empty := r_empty m; r_mac1 := m1; r_mac2 := m2 |}.

(* CookieChecker.CheckMAC1 with the device's own public key *)
Definition check_mac1 (sdev : kid) (body m1 : term) : bool := mac_ok (mac1_key (TPub sdev)) body m1.

(* =========================================================================
   Slice of the device: the handshake paths of receive.go (RoutineHandshake,
   the transport receive path as far as key selection goes) and send.go
   (SendHandshakeInitiation, SendHandshakeResponse, SendKeepalive /
   SendStagedPackets as far as key selection goes), the cookie generator of
   each peer (ConsumeReply / AddMacs) and Device.Down();Up() (Peer.Stop ->
   ZeroAndFlushAll -> Handshake.Clear).  Between restarts the device is up and
   the peers run; not under load; no timer fires and a held cookie does not
   expire (scenarios last milliseconds; the 20 ms / 5 s rate limits are moved
   out of the way by the harness with VerifShiftHandshakeTimes). *)

Record peer := { p_id : kid; p_hs : hs; p_kp : slots; p_staged : N;
                 p_cookie : option (term * N);  (* cookieGenerator.mac2.cookie and whole seconds since cookieSet *)
                 p_lastmac1 : option term }.  (* cookieGenerator.mac2.lastMAC1 / hasLastMAC1 *)
Record dev := { d_static : kid; d_peers : list peer;
                d_olds : list kid }.   (* static keys the device had before (ghost: history of SetPrivateKey) *)

Definition new_peer (id : kid) (h : hs) : peer :=
  {| p_id := id; p_hs := h; p_kp := no_slots; p_staged := 0; p_cookie := None; p_lastmac1 := None |}.
(* protocol state of a peer replaced, cookie generator kept *)
Definition upd (p : peer) (h : hs) (s : slots) (n : N) : peer :=
  {| p_id := p_id p; p_hs := h; p_kp := s; p_staged := n; p_cookie := p_cookie p; p_lastmac1 := p_lastmac1 p |}.
Definition sent_mac1 (p : peer) (m1 : term) : peer :=
  {| p_id := p_id p; p_hs := p_hs p; p_kp := p_kp p; p_staged := p_staged p; p_cookie := p_cookie p;
     p_lastmac1 := Some m1 |}.
Definition got_cookie (p : peer) (c : term) : peer :=
  {| p_id := p_id p; p_hs := p_hs p; p_kp := p_kp p; p_staged := p_staged p; p_cookie := Some (c, 0);
     p_lastmac1 := p_lastmac1 p |}.

(* AddMacs: MAC2 is filled only while  time.Since(cookieSet) <= CookieRefreshTime.  Ages are whole
   seconds moved by the harness (VerifShiftPeerCookie), far from the boundary; a scenario itself
   lasts milliseconds. *)
Definition held_cookie (p : peer) : option term :=
  match p_cookie p with
  | Some (c, age) => if age <? CookieRefreshTimeSecs then Some c else None
  | None => None
  end.
Definition age_peer (secs : N) (p : peer) : peer :=
  {| p_id := p_id p; p_hs := p_hs p; p_kp := p_kp p; p_staged := p_staged p;
     p_cookie := match p_cookie p with Some (c, age) => Some (c, age + secs) | None => None end;
     p_lastmac1 := p_lastmac1 p |}.

Definition hs_list (d : dev) : list (kid * hs) := map (fun p => (p_id p, p_hs p)) (d_peers d).

Definition upd_peer (d : dev) (q : peer) : dev :=
  {| d_static := d_static d;
     d_peers := map (fun p => if Nat.eqb (p_id p) (p_id q) then q else p) (d_peers d);
     d_olds := d_olds d |}.

Fixpoint get_peer (ps : list peer) (k : kid) : option peer :=
  match ps with
  | [] => None
  | p :: r => if Nat.eqb (p_id p) k then Some p else get_peer r k
  end.

(* What the device hands to the bind / the TUN. *)
Inductive out :=
| OInit (to : kid) (m : init_msg)
| OResp (to : kid) (m : resp_msg)
| OTransport (to : kid) (receiver : N) (key : term) (keepalive : bool)
| OTunWrite (from : kid)
| OCookieReply (receiver : N) (nonce : N) (c : term).   (* SendHandshakeCookie: to the source of the denied message *)

(* What reaches the device. *)
Inductive ev :=
| EInit (m : init_msg) (e : kid) (idx : N)         (* datagram: initiation; oracles for the response *)
| EResp (m : resp_msg)                             (* datagram: response *)
| EData (receiver : N) (counter : N) (c : term)    (* datagram: transport, c = sealed content *)
| ETun (to : kid) (e : kid) (ts idx : N)           (* TUN packet routed to peer [to]; oracles if it initiates *)
| EKick (to : kid) (e : kid) (ts idx : N)          (* SendHandshakeInitiation(false) (hook) *)
| ERestart                                         (* Device.Down(); Device.Up(): every peer Stop()ped and Start()ed *)
| ECookie (receiver : N) (nonce : N) (c : term)    (* datagram: cookie reply, c = the sealed cookie field *)
| ESetPrivateKey (new : kid)                       (* UAPI private_key=: Device.SetPrivateKey *)
| EAge (secs : N)
| EInitLoad (m : init_msg) (e : kid) (idx : N) (ck : term) (nonce : N)
    (* an initiation while the device is under load (IsUnderLoad); ck = the cookie the checker computes
       for the datagram's source (Mac(secret, source): an oracle atom), nonce = the reply's nonce *)
| EInitKey (m : init_msg) (e : kid) (idx : N) (new : kid).
    (* an initiation, and SetPrivateKey(new) scheduled in the handshake worker exactly between
       ConsumeMessageInitiation and SendHandshakeResponse (if the initiation gets that far; else
       after the worker is done) *)                                 (* secs seconds pass for every peer's cookie (hook VerifShiftPeerCookie) *)

(* Handshake.Clear(): the per-handshake secrets and the local index go; the
   CONFIGURATION of the peer (presharedKey, remoteStatic, precomputedStaticStatic)
   and lastTimestamp / remoteIndex stay. *)
Definition clear_handshake (h : hs) : hs :=
  {| st := handshakeZeroed; hash := TZero; ck := TZero; psk := psk h; leph := O; lidx := 0;
     ridx := ridx h; rstatic := rstatic h; reph := TZero; ss := ss h; lastTs := lastTs h |}.

(* Peer.Stop() -> ZeroAndFlushAll(): keypairs deleted, handshake cleared, staged packets flushed;
   the cookie generator is not touched. *)
Definition restart_peer (p : peer) : peer := upd p (clear_handshake (p_hs p)) no_slots 0.

(* SetPrivateKey: for every peer  precomputedStaticStatic = sharedSecret(NEW private key, remoteStatic)
   and ExpireCurrentKeypairs(): handshake index deleted, Handshake.Clear(), the send counters of
   [current] and [next] forced to RejectAfterMessages (they still receive). *)
Definition expire_kp (o : option keypair) : option keypair :=
  match o with
  | Some k => Some {| kp_send := kp_send k; kp_recv := kp_recv k; kp_init := kp_init k; kp_lidx := kp_lidx k;
                      kp_ridx := kp_ridx k; kp_dead := true |}
  | None => None
  end.
Definition rekey_peer (new : kid) (p : peer) : peer :=
  let h := clear_handshake (p_hs p) in
  upd p {| st := st h; hash := hash h; ck := ck h; psk := psk h; leph := leph h; lidx := lidx h; ridx := ridx h;
           rstatic := rstatic h; reph := reph h; ss := dhn new (rstatic h); lastTs := lastTs h |}
      {| previous := previous (p_kp p); current := expire_kp (current (p_kp p)); next := expire_kp (next (p_kp p)) |}
      (p_staged p).

(* SendHandshakeInitiation *)
Definition send_initiation (d : dev) (p : peer) (e : kid) (ts idx : N) : dev * list out :=
  match create_init (d_static d) (p_hs p) e ts idx with
  | None => (d, [])
  | Some (h', m) =>
    let m' := stamp_init (TPub (p_id p)) (held_cookie p) m in
    (upd_peer d (sent_mac1 (upd p h' (p_kp p) (p_staged p)) (i_mac1 m')), [OInit (p_id p) m'])
  end.

(* SendStagedPackets / SendKeepalive under the current keypair: staged packets
   if any, else (when [ka]) one keepalive.  Send counters are not part of this
   slice (C04); the replay filter neither (C05): the harness uses fresh counters. *)
Fixpoint staged_outs (to : kid) (k : keypair) (n : nat) : list out :=
  match n with
  | O => []
  | S n' => OTransport to (kp_ridx k) (kp_send k) false :: staged_outs to k n'
  end.

Definition flush (to : kid) (k : keypair) (staged : N) (ka : bool) : list out :=
  if staged =? 0 then (if ka then [OTransport to (kp_ridx k) (kp_send k) true] else [])
  else staged_outs to k (N.to_nat staged).

(* index table: handshake entries *)
Fixpoint find_hs_index (ps : list peer) (idx : N) : option peer :=
  match ps with
  | [] => None
  | p :: r => if (negb (lidx (p_hs p) =? 0)) && (lidx (p_hs p) =? idx) then Some p else find_hs_index r idx
  end.

(* index table: keypair entries *)
Definition kp_has (o : option keypair) (idx : N) : bool :=
  match o with Some k => kp_lidx k =? idx | None => false end.
Definition kp_get (s : slots) (idx : N) : option keypair :=
  if kp_has (current s) idx then current s
  else if kp_has (next s) idx then next s
  else if kp_has (previous s) idx then previous s else None.
Fixpoint find_kp_index (ps : list peer) (idx : N) : option (peer * keypair) :=
  match ps with
  | [] => None
  | p :: r => match kp_get (p_kp p) idx with Some k => Some (p, k) | None => find_kp_index r idx end
  end.

(* index table: the peer of any entry (cookie replies) *)
Definition find_any_index (ps : list peer) (idx : N) : option peer :=
  match find_hs_index ps idx with
  | Some p => Some p
  | None => match find_kp_index ps idx with Some (p, _) => Some p | None => None end
  end.

(* CookieGenerator.Init(pk): mac2.encryptionKey = Hash(WGLabelCookie || pk) *)
Definition cookie_key (pk : term) : term := THash2 LabelCookie pk.

(* Device.SetPrivateKey.  sk.Equals(current) => nothing.  A key whose public half is a configured
   peer's key would remove that peer; the real device deadlocks there (design finding F3c), so
   this is modelled as not happening. *)
Definition set_key_noop (d : dev) (new : kid) : bool :=
  Nat.eqb new (d_static d) || existsb (fun p => Nat.eqb (p_id p) new) (d_peers d).
Definition rekey_dev (d : dev) (new : kid) : dev :=
  {| d_static := new; d_peers := map (rekey_peer new) (d_peers d); d_olds := d_static d :: d_olds d |}.
Definition set_private_key (d : dev) (new : kid) : dev :=
  if set_key_noop d new then d else rekey_dev d new.

(* RoutineHandshake, MessageInitiationType: CheckMAC1, ConsumeMessageInitiation, SendHandshakeResponse *)
Definition init_step (d : dev) (m : init_msg) (er : kid) (idx : N) : dev * list out :=
      if negb (check_mac1 (d_static d) (init_body m) (i_mac1 m)) then (d, []) else
      match consume_init (d_static d) (hs_list d) false m with
      | None => (d, [])
      | Some (pid, h1) =>
        match get_peer (d_peers d) pid with
        | None => (d, [])
        | Some p =>
          match create_resp h1 er idx with
          | None => (upd_peer d (upd p h1 (p_kp p) (p_staged p)), [])
          | Some (h2, r) =>
            let r' := stamp_resp (TPub pid) (held_cookie p) r in
            match begin_session h2 (p_kp p) with
            | None => (upd_peer d (sent_mac1 (upd p h2 (p_kp p) (p_staged p)) (r_mac1 r')), [])
            | Some (h3, s3, _) =>
              (upd_peer d (sent_mac1 (upd p h3 s3 (p_staged p)) (r_mac1 r')), [OResp pid r'])
            end
          end
        end
      end.

Definition dev_step (d : dev) (e : ev) : dev * list out :=
  match e with
  | EInit m er idx => init_step d m er idx
  | EResp m =>
      if negb (check_mac1 (d_static d) (resp_body m) (r_mac1 m)) then (d, []) else
      match find_hs_index (d_peers d) (r_receiver m) with
      | None => (d, [])
      | Some p =>
        match consume_resp (d_static d) (p_hs p) m with
        | None => (d, [])
        | Some h1 =>
          match begin_session h1 (p_kp p) with
          | None => (d, [])
          | Some (h2, s2, k) =>
            (* timersHandshakeComplete; SendKeepalive: staged packets or one keepalive *)
            (upd_peer d (upd p h2 s2 0), flush (p_id p) k (p_staged p) true)
          end
        end
      end
  | EData receiver counter c =>
      match find_kp_index (d_peers d) receiver with
      | None => (d, [])
      | Some (p, k) =>
        match aead_open (kp_recv k) counter c TEmpty with
        | None => (d, [])
        | Some plain =>
          let '(s', promoted) := received_with (kp_lidx k) (p_kp p) in
          (* SendStagedPackets after the promotion; under an expired keypair it would start a handshake
             instead -- the harness never sends data under keys older than the last key change *)
          let promoted := promoted && negb (kp_dead k) in
          let outs1 := if promoted then flush (p_id p) k (p_staged p) false else [] in
          let staged' := if promoted then 0 else p_staged p in
          (upd_peer d (upd p (p_hs p) s' staged'),
           (match plain with TEmpty => [] | _ => [OTunWrite (p_id p)] end) ++ outs1)
        end
      end
  | ETun to e ts idx =>
      match get_peer (d_peers d) to with
      | None => (d, [])
      | Some p =>
        (* SendStagedPackets: keypair == nil || sendNonce >= RejectAfterMessages => SendHandshakeInitiation *)
        match current (p_kp p) with
        | Some k =>
          if kp_dead k then
            let p' := upd p (p_hs p) (p_kp p) (p_staged p + 1) in
            send_initiation (upd_peer d p') p' e ts idx
          else (upd_peer d (upd p (p_hs p) (p_kp p) 0), flush to k (p_staged p + 1) false)
        | None =>
          let p' := upd p (p_hs p) (p_kp p) (p_staged p + 1) in
          send_initiation (upd_peer d p') p' e ts idx
        end
      end
  | EKick to e ts idx =>
      match get_peer (d_peers d) to with
      | None => (d, [])
      | Some p => send_initiation d p e ts idx
      end
  | ERestart =>
      ({| d_static := d_static d; d_peers := map restart_peer (d_peers d); d_olds := d_olds d |}, [])
  | ECookie receiver nonce c =>
      (* RoutineHandshake, MessageCookieReplyType: index lookup, CookieGenerator.ConsumeReply *)
      match find_any_index (d_peers d) receiver with
      | None => (d, [])
      | Some p =>
        match p_lastmac1 p with
        | None => (d, [])                                  (* !hasLastMAC1 *)
        | Some m1 =>
          match aead_open (cookie_key (TPub (p_id p))) nonce c m1 with   (* xchapoly.Open(.., msg.Nonce, msg.Cookie, lastMAC1) *)
          | None => (d, [])                                (* does not authenticate: nothing is stored *)
          | Some ck => (upd_peer d (got_cookie p ck), [])
          end
        end
      end
  | ESetPrivateKey new =>
      (set_private_key d new, [])
  | EAge secs =>
      ({| d_static := d_static d; d_peers := map (age_peer secs) (d_peers d); d_olds := d_olds d |}, [])
  | EInitLoad m er idx ck nonce =>
      (* RoutineHandshake under load: CheckMAC1; CheckMAC2 under the cookie for the source, else
         SendHandshakeCookie: CookieChecker.CreateReply seals the cookie under
         Hash("cookie--" || own public key) with the message's MAC1 as associated data, receiver = the
         message's sender index; with a valid MAC2 (and the rate limiter allowing) as without load *)
      if negb (check_mac1 (d_static d) (init_body m) (i_mac1 m)) then (d, []) else
      if teqb (i_mac2 m) (mac ck (TPair (init_body m) (i_mac1 m))) then init_step d m er idx
      else (d, [OCookieReply (i_sender m) nonce (aead_seal (cookie_key (TPub (d_static d))) nonce ck (i_mac1 m))])
  | EInitKey m er idx new =>
      (* RoutineHandshake as for EInit, with SetPrivateKey run by another goroutine after
         ConsumeMessageInitiation has stored the consumed state and before CreateMessageResponse:
         ExpireCurrentKeypairs -> Handshake.Clear() zeroes that state, so no response is built *)
      if negb (check_mac1 (d_static d) (init_body m) (i_mac1 m)) then (set_private_key d new, []) else
      match consume_init (d_static d) (hs_list d) false m with
      | None => (set_private_key d new, [])
      | Some (pid, h1) =>
        match get_peer (d_peers d) pid with
        | None => (set_private_key d new, [])
        | Some p =>
          if set_key_noop d new then init_step d m er idx else
          let d2 := rekey_dev (upd_peer d (upd p h1 (p_kp p) (p_staged p))) new in
          match get_peer (d_peers d2) pid with
          | None => (d2, [])
          | Some p2 =>
            match create_resp (p_hs p2) er idx with            (* SendHandshakeResponse *)
            | None => (d2, [])
            | Some (h2, r) =>
              let r' := stamp_resp (TPub pid) (held_cookie p2) r in
              match begin_session h2 (p_kp p2) with
              | None => (upd_peer d2 (sent_mac1 (upd p2 h2 (p_kp p2) (p_staged p2)) (r_mac1 r')), [])
              | Some (h3, s3, _) =>
                (upd_peer d2 (sent_mac1 (upd p2 h3 s3 (p_staged p2)) (r_mac1 r')), [OResp pid r'])
              end
            end
          end
        end
      end
  end.
