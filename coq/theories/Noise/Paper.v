(* The WireGuard handshake written directly from the white-paper, section 5.4
   ("Protocol & Cryptography"), in the paper's own notation.  This is the
   SPECIFICATION: Noise/Model.v (the mirror of the Go code) is proved to emit
   and accept exactly these messages (Noise/Proofs.v), and package ref of the
   harness (written from the same section on x/crypto) realises it in bytes.

   Paper notation                        here
     DH(priv, pub)                         dh priv pub
     Hash(a || b)                          THash2 a b
     Kdf_n(key, input) = (t1..tn)          TKdf 1.. key input
     Aead(key, counter, plain, auth)       TAead key counter plain auth
     Mac(key, input)                       TMac key input
     epsilon                               TEmpty
     Q (preshared key, 0^32 if none)       q                                 *)
From WG Require Import Base.Prelude Sym.Term Noise.Msg.
Local Open Scope N_scope.

(* 5.4: message type words *)
Definition type_initiation : N := 1.
Definition type_response : N := 2.

(* the pair (C, H) every party carries through the handshake *)
Record sym := { C : term; H : term }.

(* 5.4.2  First message: initiator to responder
     C_i := Hash(Construction)
     H_i := Hash(C_i || Identifier)
     H_i := Hash(H_i || S_r^pub)                                            *)
Definition start (Sr_pub : term) : sym :=
  let Ci := THash1 Construction in
  let Hi := THash2 Ci Identifier in
  {| C := Ci; H := THash2 Hi Sr_pub |}.

(*   (E_i^priv, E_i^pub) := DH-Generate()
     C_i := Kdf1(C_i, E_i^pub)
     msg.ephemeral := E_i^pub
     H_i := Hash(H_i || msg.ephemeral)
     (C_i, k) := Kdf2(C_i, DH(E_i^priv, S_r^pub))
     msg.static := Aead(k, 0, S_i^pub, H_i)
     H_i := Hash(H_i || msg.static)
     (C_i, k) := Kdf2(C_i, DH(S_i^priv, S_r^pub))
     msg.timestamp := Aead(k, 0, Timestamp(), H_i)
     H_i := Hash(H_i || msg.timestamp)
   5.4.4: msg.mac1 := Mac(Hash(Label-Mac1 || S_m'^pub), msg_alpha); msg.mac2 := 0^16 without a cookie *)
Definition initiation (Si Ei : kid) (Sr_pub : term) (ts : N) (Ii : N) : option (sym * init_msg) :=
  let s0 := start Sr_pub in
  let Epub := TPub Ei in
  let C1 := TKdf 1 (C s0) Epub in
  let H1 := THash2 (H s0) Epub in
  match dh Ei Sr_pub, dh Si Sr_pub with
  | Some es, Some ss =>
    let C2 := TKdf 1 C1 es in let k1 := TKdf 2 C1 es in
    let static := TAead k1 0 (TPub Si) H1 in
    let H2 := THash2 H1 static in
    let C3 := TKdf 1 C2 ss in let k2 := TKdf 2 C2 ss in
    let timestamp := TAead k2 0 (TN ts) H2 in
    let H3 := THash2 H2 timestamp in
    let m := {| i_type := type_initiation; i_sender := Ii; i_eph := Epub; i_static := static;
                i_ts := timestamp; i_mac1 := TZero; i_mac2 := TZero |} in
    Some ({| C := C3; H := H3 |},
          {| i_type := type_initiation; i_sender := Ii; i_eph := Epub; i_static := static;
             i_ts := timestamp; i_mac1 := TMac (THash2 LabelMac1 Sr_pub) (init_body m); i_mac2 := TZero |})
  | _, _ => None
  end.

(* The responder's half of 5.4.2: the same computation with the roles of the
   keys exchanged; it learns S_i^pub and the timestamp.  [known] is the
   responder's set of configured public keys. *)
Definition consume_initiation (Sr : kid) (known : term -> bool) (m : init_msg)
  : option (sym * term * N) :=
  if negb (i_type m =? type_initiation) then None else
  let s0 := start (TPub Sr) in
  let C1 := TKdf 1 (C s0) (i_eph m) in
  let H1 := THash2 (H s0) (i_eph m) in
  match dh Sr (i_eph m) with
  | None => None
  | Some es =>
    let C2 := TKdf 1 C1 es in let k1 := TKdf 2 C1 es in
    match aead_open k1 0 (i_static m) H1 with
    | None => None
    | Some Si_pub =>
      if negb (known Si_pub) then None else
      let H2 := THash2 H1 (i_static m) in
      match dh Sr Si_pub with
      | None => None
      | Some ss =>
        let C3 := TKdf 1 C2 ss in let k2 := TKdf 2 C2 ss in
        match aead_open k2 0 (i_ts m) H2 with
        | Some (TN ts) => Some ({| C := C3; H := THash2 H2 (i_ts m) |}, Si_pub, ts)
        | _ => None
        end
      end
    end
  end.

(* 5.4.3  Second message: responder to initiator
     (E_r^priv, E_r^pub) := DH-Generate()
     C_r := Kdf1(C_r, E_r^pub)
     msg.ephemeral := E_r^pub
     H_r := Hash(H_r || msg.ephemeral)
     C_r := Kdf1(C_r, DH(E_r^priv, E_i^pub))
     C_r := Kdf1(C_r, DH(E_r^priv, S_i^pub))
     (C_r, tau, k) := Kdf3(C_r, Q)
     H_r := Hash(H_r || tau)
     msg.empty := Aead(k, 0, epsilon, H_r)
     H_r := Hash(H_r || msg.empty)                                          *)
Definition response (s : sym) (Er : kid) (Ei_pub Si_pub : term) (q : term) (Ir Ii : N)
  : option (sym * resp_msg) :=
  let Epub := TPub Er in
  let C1 := TKdf 1 (C s) Epub in
  let H1 := THash2 (H s) Epub in
  match dh Er Ei_pub, dh Er Si_pub with
  | Some ee, Some se =>
    let C2 := TKdf 1 C1 ee in
    let C3 := TKdf 1 C2 se in
    let C4 := TKdf 1 C3 q in let tau := TKdf 2 C3 q in let k := TKdf 3 C3 q in
    let H2 := THash2 H1 tau in
    let empty := TAead k 0 TEmpty H2 in
    let H3 := THash2 H2 empty in
    let m := {| r_type := type_response; r_sender := Ir; r_receiver := Ii; r_eph := Epub;
                r_empty := empty; r_mac1 := TZero; r_mac2 := TZero |} in
    Some ({| C := C4; H := H3 |},
          {| r_type := type_response; r_sender := Ir; r_receiver := Ii; r_eph := Epub; r_empty := empty;
             r_mac1 := TMac (THash2 LabelMac1 Si_pub) (resp_body m); r_mac2 := TZero |})
  | _, _ => None
  end.

(* The initiator's half of 5.4.3. *)
Definition consume_response (Si Ei : kid) (s : sym) (q : term) (m : resp_msg) : option sym :=
  if negb (r_type m =? type_response) then None else
  let C1 := TKdf 1 (C s) (r_eph m) in
  let H1 := THash2 (H s) (r_eph m) in
  match dh Ei (r_eph m), dh Si (r_eph m) with
  | Some ee, Some se =>
    let C2 := TKdf 1 C1 ee in
    let C3 := TKdf 1 C2 se in
    let C4 := TKdf 1 C3 q in let tau := TKdf 2 C3 q in let k := TKdf 3 C3 q in
    let H2 := THash2 H1 tau in
    match aead_open k 0 (r_empty m) H2 with
    | Some TEmpty => Some {| C := C4; H := THash2 H2 (r_empty m) |}
    | _ => None
    end
  | _, _ => None
  end.

(* 5.4.5  Transport data key derivation
     (T_i^send = T_r^recv, T_i^recv = T_r^send) := Kdf2(C_i = C_r, epsilon)   *)
Definition initiator_keys (s : sym) : term * term := (TKdf 1 (C s) TEmpty, TKdf 2 (C s) TEmpty).   (* (send, recv) *)
Definition responder_keys (s : sym) : term * term := (TKdf 2 (C s) TEmpty, TKdf 1 (C s) TEmpty).   (* (send, recv) *)

(* 5.4.6  Subsequent messages: msg.packet := Aead(T^send, counter, P, epsilon) *)
Definition transport (key : term) (counter : N) (P : term) : term := TAead key counter P TEmpty.

(* 5.4.4: a receiver first checks msg.mac1 under its own public key *)
Definition mac1_valid (Sm_pub : term) (body m1 : term) : bool := teqb m1 (TMac (THash2 LabelMac1 Sm_pub) body).

(* A party that goes on although a check failed (used for the negative
   results: whatever such a party derives, it does not match the device).
   It assumes the initiator's static key instead of decrypting it. *)
Definition consume_initiation_unchecked (Sr : kid) (assumed_Si_pub : term) (m : init_msg) : option sym :=
  let s0 := start (TPub Sr) in
  let C1 := TKdf 1 (C s0) (i_eph m) in
  let H1 := THash2 (H s0) (i_eph m) in
  match dh Sr (i_eph m), dh Sr assumed_Si_pub with
  | Some es, Some ss =>
    let C2 := TKdf 1 C1 es in
    let H2 := THash2 H1 (i_static m) in
    let C3 := TKdf 1 C2 ss in
    Some {| C := C3; H := THash2 H2 (i_ts m) |}
  | _, _ => None
  end.

Definition consume_response_unchecked (Si Ei : kid) (s : sym) (q : term) (m : resp_msg) : option sym :=
  match dh Ei (r_eph m), dh Si (r_eph m) with
  | Some ee, Some se =>
    let C1 := TKdf 1 (C s) (r_eph m) in
    let C3 := TKdf 1 (TKdf 1 C1 ee) se in
    Some {| C := TKdf 1 C3 q; H := THash2 (THash2 (THash2 (H s) (r_eph m)) (TKdf 2 C3 q)) (r_empty m) |}
  | _, _ => None
  end.
