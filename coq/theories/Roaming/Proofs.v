(* Theorems about the C11 slice model (Roaming/Model.v): for all states and
   events, and for all event lists. *)
From WG Require Import Base.Prelude Gen.Constants Replay.Model Replay.Spec Roaming.Model.
Local Open Scope N_scope.

(* ------------------------------------------------------------ peer table *)

Lemma find_id st : forall p x, find_peer st p = Some x -> p_id x = p.
Proof.
  induction st as [|y t IH]; intros p x H; cbn [find_peer] in H; [discriminate|].
  destruct (N.eqb_spec (p_id y) p) as [E|E]; [inversion H; subst; reflexivity|apply IH; exact H].
Qed.

Lemma find_put st x : forall q,
  find_peer (put_peer st x) q =
  if p_id x =? q then match find_peer st (p_id x) with Some _ => Some x | None => None end
  else find_peer st q.
Proof.
  induction st as [|y t IH]; intros q; cbn [put_peer find_peer].
  - destruct (p_id x =? q); reflexivity.
  - destruct (N.eqb_spec (p_id y) (p_id x)) as [E1|E1]; cbn [find_peer].
    + destruct (N.eqb_spec (p_id x) q) as [E2|E2]; [reflexivity|].
      destruct (N.eqb_spec (p_id y) q) as [E3|E3]; [congruence|reflexivity].
    + destruct (N.eqb_spec (p_id y) q) as [E3|E3].
      * destruct (N.eqb_spec (p_id x) q) as [E2|E2]; [congruence|reflexivity].
      * apply IH.
Qed.

(* writing peer x (found under its own number) changes the endpoint of that peer only *)
Lemma endpoint_put st x x' q :
  find_peer st (p_id x) = Some x -> p_id x' = p_id x ->
  endpoint (put_peer st x') q = if p_id x =? q then p_endpoint x' else endpoint st q.
Proof.
  intros F I. unfold endpoint. rewrite find_put, I, F. destruct (p_id x =? q); reflexivity.
Qed.

Lemma found_self st p x : find_peer st p = Some x -> find_peer st (p_id x) = Some x.
Proof. intros H. rewrite (find_id st p x H). exact H. Qed.

(* ------------------------------------------ what each acceptance test means *)

Lemma init_accepts_found st now m x : init_accepts st now m = Some x -> find_peer st (p_id x) = Some x.
Proof.
  unfold init_accepts. destruct (i_mac1 m); cbn [negb]; [|discriminate].
  destruct (i_static m) as [p|]; [|discriminate].
  destruct (find_peer st p) as [y|] eqn:F; [|discriminate].
  destruct (i_tsok m); cbn [negb]; [|discriminate].
  destruct (i_ts m <=? p_last_ts y); [discriminate|].
  destruct (now - p_last_consume y <=? HandshakeInitationRate); [discriminate|].
  intros H; inversion H; subst. apply (found_self st p). exact F.
Qed.

(* an initiation is consumed iff: valid MAC1, static opens to a configured peer, timestamp opens,
   is strictly newer than the last consumed one, and the last consumption is more than 20 ms ago *)
Theorem init_accepts_iff st now m x :
  init_accepts st now m = Some x <->
  i_mac1 m = true /\ (exists p, i_static m = Some p /\ find_peer st p = Some x) /\ i_tsok m = true /\
  p_last_ts x < i_ts m /\ HandshakeInitationRate < now - p_last_consume x.
Proof.
  unfold init_accepts. split.
  - destruct (i_mac1 m); cbn [negb]; [|discriminate].
    destruct (i_static m) as [p|]; [|discriminate].
    destruct (find_peer st p) as [y|] eqn:F; [|discriminate].
    destruct (i_tsok m); cbn [negb]; [|discriminate].
    destruct (i_ts m <=? p_last_ts y) eqn:A; [discriminate|].
    destruct (now - p_last_consume y <=? HandshakeInitationRate) eqn:B; [discriminate|].
    intros H; inversion H; subst. apply N.leb_gt in A. apply N.leb_gt in B.
    repeat split; try assumption. exists p. split; [reflexivity|exact F].
  - intros (A & (p & B & C) & D & E & F). rewrite A, B, C, D. cbn [negb].
    apply N.leb_gt in E. apply N.leb_gt in F. rewrite E, F. reflexivity.
Qed.

Lemma resp_accepts_found st m x : resp_accepts st m = Some x -> find_peer st (p_id x) = Some x.
Proof.
  unfold resp_accepts. destruct (r_mac1 m); cbn [negb]; [|discriminate].
  destruct (r_owner m) as [p|]; [|discriminate].
  destruct (find_peer st p) as [y|] eqn:F; [|discriminate].
  destruct (p_pending y) as [h|]; [|discriminate].
  destruct ((h =? r_hid m) && negb (r_hid m =? 0)); [|discriminate].
  intros H; inversion H; subst. apply (found_self st p). exact F.
Qed.

Theorem resp_accepts_iff st m x :
  resp_accepts st m = Some x <->
  r_mac1 m = true /\ (exists p, r_owner m = Some p /\ find_peer st p = Some x) /\
  p_pending x = Some (r_hid m) /\ r_hid m <> 0.
Proof.
  unfold resp_accepts. split.
  - destruct (r_mac1 m); cbn [negb]; [|discriminate].
    destruct (r_owner m) as [p|]; [|discriminate].
    destruct (find_peer st p) as [y|] eqn:F; [|discriminate].
    destruct (p_pending y) as [h|] eqn:P; [|discriminate].
    destruct (N.eqb_spec h (r_hid m)) as [A|A]; cbn [andb]; [|discriminate].
    destruct (N.eqb_spec (r_hid m) 0) as [B|B]; cbn [negb]; [discriminate|].
    intros H; inversion H; subst. repeat split; try assumption; try reflexivity.
    exists p. split; [reflexivity|exact F].
  - intros (A & (p & B & C) & D & E). rewrite A, B, C, D. cbn [negb].
    rewrite N.eqb_refl. destruct (N.eqb_spec (r_hid m) 0); [contradiction|reflexivity].
Qed.

Lemma elem_accepts_found st e x sl s : elem_accepts st e = Some (x, sl, s) -> find_peer st (p_id x) = Some x.
Proof.
  unfold elem_accepts. destruct (t_owner e) as [[p sid]|]; [|discriminate].
  destruct (find_peer st p) as [y|] eqn:F; [|discriminate].
  destruct (slot_of y sid) as [[sl' s']|]; [|discriminate].
  destruct (s_expired s'); [discriminate|].
  destruct (t_tag e); cbn [negb]; [|discriminate].
  destruct (accept (s_filter s') (t_ctr e) RejectAfterMessages); [|discriminate].
  intros H; inversion H; subst. apply (found_self st p). exact F.
Qed.

(* a transport element is accepted iff its receiver index belongs to a session the peer still
   holds in one of its three slots, the AEAD tag verifies, and the counter passes that session's filter *)
Theorem elem_accepts_iff st e x sl s :
  elem_accepts st e = Some (x, sl, s) <->
  exists p sid, t_owner e = Some (p, sid) /\ find_peer st p = Some x /\ slot_of x sid = Some (sl, s) /\
                s_expired s = false /\ t_tag e = true /\ accept (s_filter s) (t_ctr e) RejectAfterMessages = true.
Proof.
  unfold elem_accepts. split.
  - destruct (t_owner e) as [[p sid]|]; [|discriminate].
    destruct (find_peer st p) as [y|] eqn:F; [|discriminate].
    destruct (slot_of y sid) as [[sl' s']|] eqn:S; [|discriminate].
    destruct (s_expired s') eqn:X; [discriminate|].
    destruct (t_tag e); cbn [negb]; [|discriminate].
    destruct (accept (s_filter s') (t_ctr e) RejectAfterMessages) eqn:A; [|discriminate].
    intros H; inversion H; subst. exists p, sid. repeat split; assumption.
  - intros (p & sid & A & B & C & X & D & E). rewrite A, B, C, X, D. cbn [negb]. rewrite E. reflexivity.
Qed.

(* freshness of counters: a delivered counter is refused afterwards, and so is one further
   than the window behind the greatest delivered one *)
Lemma delivered_counter_refused f c l :
  accept f c l = true -> accept (fst (sstep f (Validate c l))) c l = false.
Proof.
  intros H. cbn [sstep]. rewrite H. cbn [fst]. unfold accept. cbn [seen mx mem existsb].
  rewrite N.eqb_refl. cbn [orb negb]. rewrite andb_false_r. reflexivity.
Qed.

Lemma behind_window_refused f c l : c + W < mx f -> accept f c l = false.
Proof. intros H. unfold accept. apply N.leb_gt in H. rewrite H. apply andb_false_r. Qed.

(* ---------------------------------------------------------- single events *)

Theorem reply_to_new_endpoint st now m sid x :
  init_accepts st now m = Some x ->
  snd (step st (EInit now m sid)) = [OResp (i_src m) (p_id x)] /\
  endpoint (fst (step st (EInit now m sid))) (p_id x) = Some (i_src m).
Proof.
  intros H. cbn [step]. unfold recv_init. rewrite H. cbn [fst snd]. split; [reflexivity|].
  rewrite (endpoint_put st x) by (try reflexivity; apply (init_accepts_found st now m); exact H).
  rewrite N.eqb_refl. reflexivity.
Qed.

Theorem rejected_initiation_inert st now m sid :
  init_accepts st now m = None -> step st (EInit now m sid) = (st, []).
Proof. intros H. cbn [step]. unfold recv_init. rewrite H. reflexivity. Qed.

Theorem rejected_response_inert st now m sid :
  resp_accepts st m = None -> step st (EResp now m sid) = (st, []).
Proof. intros H. cbn [step]. unfold recv_resp. rewrite H. reflexivity. Qed.

(* the reasons for which an initiation is rejected, each by itself *)
Theorem forged_initiation_rejected st now m :
  i_mac1 m = false \/ i_static m = None \/ i_tsok m = false \/
  (exists p x, i_static m = Some p /\ find_peer st p = Some x /\
               (i_ts m <= p_last_ts x \/ now - p_last_consume x <= HandshakeInitationRate)) ->
  init_accepts st now m = None.
Proof.
  intros H. destruct (init_accepts st now m) as [x|] eqn:E; [|reflexivity]. exfalso.
  apply init_accepts_iff in E. destruct E as (A & (p & B & C) & D & F & G).
  destruct H as [H|[H|[H|(p' & x' & H1 & H2 & H3)]]]; try congruence.
  rewrite B in H1. inversion H1; subst. rewrite C in H2. inversion H2; subst. lia.
Qed.

Theorem forged_response_rejected st m :
  r_mac1 m = false \/ r_owner m = None \/ r_hid m = 0 \/
  (exists p x, r_owner m = Some p /\ find_peer st p = Some x /\ p_pending x <> Some (r_hid m)) ->
  resp_accepts st m = None.
Proof.
  intros H. destruct (resp_accepts st m) as [x|] eqn:E; [|reflexivity]. exfalso.
  apply resp_accepts_iff in E. destruct E as (A & (p & B & C) & D & F).
  destruct H as [H|[H|[H|(p' & x' & H1 & H2 & H3)]]]; try congruence.
  all: try (rewrite B in H1; inversion H1; subst; rewrite C in H2; inversion H2; subst; contradiction).
Qed.

(* ------------------------------------------------------- transport batches *)

(* sources of the elements of a batch that are accepted for peer p, in order *)
Fixpoint accepted_srcs (st : dstate) (l : list telem) (p : N) : list addr :=
  match l with
  | [] => []
  | e :: t =>
      (match elem_accepts st e with
       | Some (x, _, _) => if p_id x =? p then [t_src e] else []
       | None => []
       end) ++ accepted_srcs (fst (recv_elem st e)) t p
  end.

Lemma recv_elem_endpoint st e q :
  endpoint (fst (recv_elem st e)) q =
  match elem_accepts st e with
  | Some (x, _, _) => if p_id x =? q then Some (t_src e) else endpoint st q
  | None => endpoint st q
  end.
Proof.
  unfold recv_elem. destruct (elem_accepts st e) as [[[x sl] s]|] eqn:E; [|reflexivity].
  pose proof (elem_accepts_found st e x sl s E) as F.
  destruct sl; cbn [fst]; rewrite (endpoint_put st x) by (try reflexivity; exact F);
    destruct (p_id x =? q); reflexivity.
Qed.

Lemma last_cons_ne {A} (x : A) (l : list A) (d : A) : l <> [] -> List.last (x :: l) d = List.last l d.
Proof. destruct l; [contradiction|reflexivity]. Qed.

Theorem batch_endpoint l : forall st q,
  endpoint (fst (recv_batch st l)) q =
  match accepted_srcs st l q with
  | [] => endpoint st q
  | s => Some (List.last s (0, 0))
  end.
Proof.
  induction l as [|e t IH]; intros st q; [reflexivity|].
  cbn [recv_batch accepted_srcs].
  destruct (recv_elem st e) as [st1 o1] eqn:R1. destruct (recv_batch st1 t) as [st2 o2] eqn:R2.
  cbn [fst]. specialize (IH st1 q). rewrite R2 in IH. cbn [fst] in IH. rewrite IH.
  pose proof (recv_elem_endpoint st e q) as H. rewrite R1 in H. cbn [fst] in H.
  destruct (elem_accepts st e) as [[[x sl] s]|].
  - destruct (p_id x =? q).
    + cbn [app]. destruct (accepted_srcs st1 t q) as [|a r] eqn:A.
      * cbn [List.last]. exact H.
      * reflexivity.
    + cbn [app]. destruct (accepted_srcs st1 t q); [exact H|reflexivity].
  - cbn [app]. destruct (accepted_srcs st1 t q); [exact H|reflexivity].
Qed.

Theorem forged_batch_inert l : forall st,
  (forall e, In e l -> elem_accepts st e = None) -> recv_batch st l = (st, []).
Proof.
  induction l as [|e t IH]; intros st H; [reflexivity|]. cbn [recv_batch].
  unfold recv_elem. rewrite (H e (or_introl eq_refl)).
  rewrite IH; [reflexivity|]. intros e' I. apply H. right. exact I.
Qed.

(* --------------------------------- the endpoint changes only when ... (main) *)

Definition moves_to (st : dstate) (e : event) (p : N) (a : addr) : Prop :=
  match e with
  | EInit now m _ => exists x, init_accepts st now m = Some x /\ p_id x = p /\ a = i_src m
  | EResp _ m _ => exists x, resp_accepts st m = Some x /\ p_id x = p /\ a = r_src m
  | EBatch _ l => accepted_srcs st l p <> [] /\ a = List.last (accepted_srcs st l p) (0, 0)
  | EUapi _ q b _ => q = p /\ a = b
  | _ => False
  end.

Lemma send_staged_endpoint st now x hid q :
  find_peer st (p_id x) <> None ->
  endpoint (fst (send_staged st now x hid)) q = if p_id x =? q then p_endpoint x else endpoint st q.
Proof.
  intros F. destruct (find_peer st (p_id x)) as [y|] eqn:Fy; [|contradiction].
  pose proof (found_self st (p_id x) y Fy) as Fy'. pose proof (find_id st (p_id x) y Fy) as Iy.
  assert (P : forall x', p_id x' = p_id x -> p_endpoint x' = p_endpoint x ->
              endpoint (put_peer st x') q = if p_id x =? q then p_endpoint x else endpoint st q).
  { intros x' I E. rewrite (endpoint_put st y) by (try exact Fy'; congruence). rewrite Iy, E. reflexivity. }
  unfold send_staged. destruct (p_staged x =? 0); cbn [fst]; [apply P; reflexivity|].
  destruct (match p_cur x with Some c => if s_expired c then None else Some c | None => None end); cbn [fst]; [apply P; reflexivity|].
  destruct (now - p_last_sent x <? RekeyTimeout); cbn [fst]; apply P; reflexivity.
Qed.

Lemma find_restart now st : forall p,
  find_peer (map (restart_peer now) st) p =
  match find_peer st p with Some x => Some (restart_peer now x) | None => None end.
Proof.
  induction st as [|y t IH]; intros p; [reflexivity|]. cbn [map find_peer restart_peer p_id].
  destruct (p_id y =? p); [reflexivity|apply IH].
Qed.

(* a restart keeps every endpoint *)
Lemma endpoint_restart now st p : endpoint (map (restart_peer now) st) p = endpoint st p.
Proof. unfold endpoint. rewrite find_restart. destruct (find_peer st p); reflexivity. Qed.

Theorem endpoint_after st e p :
  endpoint (fst (step st e)) p = endpoint st p \/
  exists a, moves_to st e p a /\ endpoint (fst (step st e)) p = Some a.
Proof.
  destruct e as [now m sid|now m sid|now src|now src|now l|now q hid|now q a hid|q d|now|q|q]; cbn [step].
  - unfold recv_init. destruct (init_accepts st now m) as [x|] eqn:E; [|left; reflexivity]. cbn [fst].
    rewrite (endpoint_put st x) by (try reflexivity; apply (init_accepts_found st now m); exact E).
    destruct (N.eqb_spec (p_id x) p) as [I|I]; [|left; reflexivity].
    right. exists (i_src m). split; [|reflexivity]. cbn [moves_to]. exists x. auto.
  - unfold recv_resp. destruct (resp_accepts st m) as [x|] eqn:E; [|left; reflexivity]. cbn [fst].
    rewrite (endpoint_put st x) by (try reflexivity; apply (resp_accepts_found st m); exact E).
    destruct (N.eqb_spec (p_id x) p) as [I|I]; [|left; reflexivity].
    right. exists (r_src m). split; [|reflexivity]. cbn [moves_to]. exists x. auto.
  - left; reflexivity.
  - left; reflexivity.
  - rewrite batch_endpoint. destruct (accepted_srcs st l p) as [|a r] eqn:A; [left; reflexivity|].
    right. exists (List.last (a :: r) (0, 0)). split; [|reflexivity]. cbn [moves_to]. rewrite A. split; [discriminate|reflexivity].
  - destruct (find_peer st q) as [x|] eqn:F; [|left; reflexivity].
    rewrite send_staged_endpoint by (cbn [with_staged p_id]; rewrite (found_self st q x F); discriminate).
    cbn [with_staged p_id p_endpoint]. destruct (N.eqb_spec (p_id x) p) as [I|I]; [|left; reflexivity].
    left. unfold endpoint. rewrite <- I, (found_self st q x F). reflexivity.
  - destruct (find_peer st q) as [x|] eqn:F; [|left; reflexivity].
    rewrite send_staged_endpoint by (cbn [with_ep p_id]; rewrite (found_self st q x F); discriminate).
    cbn [with_ep p_id p_endpoint]. destruct (N.eqb_spec (p_id x) p) as [I|I]; [|left; reflexivity].
    right. exists a. split; [|reflexivity]. cbn [moves_to]. rewrite <- (find_id st q x F). auto.
  - destruct (find_peer st q) as [x|] eqn:F; [|left; reflexivity]. cbn [fst].
    rewrite (endpoint_put st x) by (try reflexivity; apply (found_self st q); exact F).
    cbn [shift_hs p_endpoint]. destruct (N.eqb_spec (p_id x) p) as [I|I]; [|left; reflexivity].
    left. unfold endpoint. rewrite <- I, (found_self st q x F). reflexivity.
  - left. cbn [fst]. apply endpoint_restart.
  - destruct (find_peer st q) as [x|] eqn:F; [|left; reflexivity]. cbn [fst].
    rewrite (endpoint_put st x) by (try reflexivity; apply (found_self st q); exact F).
    cbn [set_rekey p_endpoint]. destruct (N.eqb_spec (p_id x) p) as [I|I]; [|left; reflexivity].
    left. unfold endpoint. rewrite <- I, (found_self st q x F). reflexivity.
  - destruct (find_peer st q) as [x|] eqn:F; [|left; reflexivity]. cbn [fst].
    rewrite (endpoint_put st x) by (try reflexivity; apply (found_self st q); exact F).
    cbn [age_keys p_endpoint]. destruct (N.eqb_spec (p_id x) p) as [I|I]; [|left; reflexivity].
    left. unfold endpoint. rewrite <- I, (found_self st q x F). reflexivity.
Qed.

Theorem endpoint_changes_only_when st e p :
  endpoint (fst (step st e)) p <> endpoint st p ->
  exists a, moves_to st e p a /\ endpoint (fst (step st e)) p = Some a.
Proof. intros H. destruct (endpoint_after st e p) as [E|E]; [contradiction|exact E]. Qed.

(* forged, corrupted, replayed or stale datagrams never move an endpoint *)
Theorem forged_never_moves st e :
  match e with
  | EInit now m _ => init_accepts st now m = None
  | EResp _ m _ => resp_accepts st m = None
  | ECookie _ _ | EOther _ _ => True
  | EBatch _ l => forall x, In x l -> elem_accepts st x = None
  | _ => False
  end ->
  step st e = (st, []).
Proof.
  destruct e; intros H; try contradiction; try reflexivity.
  - apply rejected_initiation_inert; exact H.
  - apply rejected_response_inert; exact H.
  - cbn [step]. apply forged_batch_inert. exact H.
Qed.

(* ------------------------------------------------------------ all histories *)

Lemma final_cons s e l : final step s (e :: l) = final step (fst (step s e)) l.
Proof. unfold final. cbn [run]. destruct (step s e) as [s1 r]. cbn [fst]. destruct (run step s1 l). reflexivity. Qed.

(* no event of the history moves p *)
Fixpoint quiet (st : dstate) (evs : list event) (p : N) : Prop :=
  match evs with
  | [] => True
  | e :: t => (forall a, ~ moves_to st e p a) /\ quiet (fst (step st e)) t p
  end.

(* until an authentic fresh packet or a UAPI endpoint= arrives, the endpoint stays what it was *)
Theorem until_then_the_configured_endpoint evs : forall st p,
  quiet st evs p -> endpoint (final step st evs) p = endpoint st p.
Proof.
  induction evs as [|e t IH]; intros st p Q; [reflexivity|].
  destruct Q as [Q1 Q2]. rewrite final_cons, (IH _ _ Q2).
  destruct (endpoint_after st e p) as [E|(a & M & _)]; [exact E|]. exfalso. exact (Q1 a M).
Qed.

(* the endpoint at the end of any history is the one written by the last moving event *)
Theorem endpoint_is_last_move pre e post : forall st p a,
  find_peer (final step st pre) p <> None ->          (* p is a configured peer *)
  moves_to (final step st pre) e p a -> quiet (fst (step (final step st pre) e)) post p ->
  endpoint (final step st (pre ++ e :: post)) p = Some a.
Proof.
  intros st p a K M Q. rewrite final_app, final_cons, (until_then_the_configured_endpoint _ _ _ Q).
  destruct (endpoint_after (final step st pre) e p) as [E|(a' & M' & E')].
  - (* a moving event writes its address even if it equals the old one *)
    destruct e as [now m sid|now m sid|now src|now src|now l|now q hid|now q b hid|q d|now|q|q]; cbn [moves_to] in M; try contradiction.
    + destruct M as (x & A & I & ->). rewrite <- I. apply (reply_to_new_endpoint _ now m sid x A).
    + destruct M as (x & A & I & ->). cbn [step]. unfold recv_resp. rewrite A. cbn [fst].
      rewrite (endpoint_put _ x) by (try reflexivity; apply (resp_accepts_found _ m); exact A).
      rewrite I, N.eqb_refl. reflexivity.
    + destruct M as (N0 & ->). cbn [step]. rewrite batch_endpoint.
      destruct (accepted_srcs (final step st pre) l p); [contradiction|reflexivity].
    + destruct M as (-> & ->). cbn [step]. destruct (find_peer (final step st pre) p) as [x|] eqn:F.
      * rewrite send_staged_endpoint by (cbn [with_ep p_id]; rewrite (found_self _ p x F); discriminate).
        cbn [with_ep p_id p_endpoint]. rewrite (find_id _ p x F), N.eqb_refl. reflexivity.
      * contradiction.
  - rewrite E'. f_equal.
    destruct e as [now m sid|now m sid|now src|now src|now l|now q hid|now q b hid|q d|now|q|q]; cbn [moves_to] in *; try contradiction.
    + destruct M as (x & A & I & ->). destruct M' as (x' & A' & I' & ->). reflexivity.
    + destruct M as (x & A & I & ->). destruct M' as (x' & A' & I' & ->). reflexivity.
    + destruct M as (_ & ->). destruct M' as (_ & ->). reflexivity.
    + destruct M as (_ & ->). destruct M' as (_ & ->). reflexivity.
Qed.

(* ------------------------------------- every datagram goes to the endpoint *)

Definition out_peer (o : output) : N :=
  match o with OResp _ p => p | OInit _ p _ => p | OTransport _ p => p end.
Definition out_to (o : output) : addr :=
  match o with OResp a _ => a | OInit a _ _ => a | OTransport a _ => a end.

Lemma Forall_rep {A} (P : A -> Prop) n x : P x -> Forall P (rep n x).
Proof. intros H. induction n; cbn [rep]; constructor; assumption. Qed.

Lemma send_to_ok st' x (o : addr -> output) n :
  endpoint st' (p_id x) = p_endpoint x ->
  (forall a, out_peer (o a) = p_id x /\ out_to (o a) = a) ->
  Forall (fun y => endpoint st' (out_peer y) = Some (out_to y)) (send_to x o n).
Proof.
  intros E H. unfold send_to. destruct (p_endpoint x) as [a|]; [|constructor].
  apply Forall_rep. destruct (H a) as [H1 H2]. rewrite H1, H2. exact E.
Qed.

Lemma send_staged_outputs st now x hid :
  find_peer st (p_id x) <> None ->
  Forall (fun y => endpoint (fst (send_staged st now x hid)) (out_peer y) = Some (out_to y))
         (snd (send_staged st now x hid)).
Proof.
  intros F. pose proof (send_staged_endpoint st now x hid (p_id x) F) as E. rewrite N.eqb_refl in E.
  revert E. unfold send_staged. destruct (p_staged x =? 0); cbn [fst snd]; [constructor|].
  destruct (match p_cur x with Some c => if s_expired c then None else Some c | None => None end); cbn [fst snd].
  - intros E. apply Forall_app. split.
    + apply send_to_ok; [exact E|]. intros a. split; reflexivity.
    + destruct (p_rekey x && negb (now - p_last_sent x <? RekeyTimeout)); [|constructor].
      apply send_to_ok; [exact E|]. intros a. split; reflexivity.
  - destruct (now - p_last_sent x <? RekeyTimeout); cbn [fst snd]; [constructor|].
    intros E. apply send_to_ok; [exact E|]. intros a. split; reflexivity.
Qed.

(* Outside transport batches every datagram an event makes the device send for a peer goes to
   that peer's endpoint as it is after the event: the response to a roaming initiation and the
   keepalive after a roaming response go to the new address, and so does everything later. *)
Theorem outputs_go_to_endpoint st e :
  (forall now l, e <> EBatch now l) ->
  Forall (fun y => endpoint (fst (step st e)) (out_peer y) = Some (out_to y)) (snd (step st e)).
Proof.
  intros NB. destruct e as [now m sid|now m sid|now src|now src|now l|now q hid|now q a hid|q d|now|q|q]; cbn [step].
  - unfold recv_init. destruct (init_accepts st now m) as [x|] eqn:E; cbn [fst snd]; [|constructor].
    constructor; [|constructor]. cbn [out_peer out_to].
    rewrite (endpoint_put st x) by (try reflexivity; apply (init_accepts_found st now m); exact E).
    rewrite N.eqb_refl. reflexivity.
  - unfold recv_resp. destruct (resp_accepts st m) as [x|] eqn:E; cbn [fst snd]; [|constructor].
    apply send_to_ok.
    + cbn [p_id p_endpoint]. rewrite (endpoint_put st x) by (try reflexivity; apply (resp_accepts_found st m); exact E).
      rewrite N.eqb_refl. reflexivity.
    + intros a. split; reflexivity.
  - constructor.
  - constructor.
  - exfalso. apply (NB now l). reflexivity.
  - destruct (find_peer st q) as [x|] eqn:F; cbn [fst snd]; [|constructor].
    apply send_staged_outputs. cbn [with_staged p_id]. rewrite (found_self st q x F). discriminate.
  - destruct (find_peer st q) as [x|] eqn:F; cbn [fst snd]; [|constructor].
    apply send_staged_outputs. cbn [with_ep p_id]. rewrite (found_self st q x F). discriminate.
  - destruct (find_peer st q); cbn [fst snd]; constructor.
  - constructor.
  - destruct (find_peer st q); cbn [fst snd]; constructor.
  - destruct (find_peer st q); cbn [fst snd]; constructor.
Qed.

(* -------------------------- replays stay replays, across restarts as well *)

Definition last_ts (st : dstate) (p : N) : N :=
  match find_peer st p with Some x => p_last_ts x | None => 0 end.

Lemma last_ts_put st x x' q :
  find_peer st (p_id x) = Some x -> p_id x' = p_id x ->
  last_ts (put_peer st x') q = if p_id x =? q then p_last_ts x' else last_ts st q.
Proof.
  intros F I. unfold last_ts. rewrite find_put, I, F. destruct (p_id x =? q); reflexivity.
Qed.

Lemma last_ts_self st p x : find_peer st p = Some x -> last_ts st (p_id x) = p_last_ts x.
Proof. intros F. unfold last_ts. rewrite (found_self st p x F). reflexivity. Qed.

Lemma put_mono st x x' q :
  find_peer st (p_id x) = Some x -> p_id x' = p_id x -> p_last_ts x <= p_last_ts x' ->
  last_ts st q <= last_ts (put_peer st x') q.
Proof.
  intros F I L. rewrite (last_ts_put st x x' q F I).
  destruct (N.eqb_spec (p_id x) q) as [E|E]; [|lia].
  subst q. unfold last_ts. rewrite F. exact L.
Qed.

Lemma recv_elem_mono st e q : last_ts st q <= last_ts (fst (recv_elem st e)) q.
Proof.
  unfold recv_elem. destruct (elem_accepts st e) as [[[x sl] s]|] eqn:E; [|cbn [fst]; lia].
  pose proof (elem_accepts_found st e x sl s E) as F.
  destruct sl; cbn [fst]; apply (put_mono st x); try exact F; try reflexivity; cbn [p_last_ts]; lia.
Qed.

Lemma recv_batch_mono l : forall st q, last_ts st q <= last_ts (fst (recv_batch st l)) q.
Proof.
  induction l as [|e t IH]; intros st q; [cbn [recv_batch fst]; lia|].
  cbn [recv_batch]. destruct (recv_elem st e) as [st1 o1] eqn:R1.
  destruct (recv_batch st1 t) as [st2 o2] eqn:R2. cbn [fst].
  pose proof (recv_elem_mono st e q) as A. rewrite R1 in A. cbn [fst] in A.
  pose proof (IH st1 q) as B. rewrite R2 in B. cbn [fst] in B. lia.
Qed.

Lemma send_staged_mono st now x hid q :
  find_peer st (p_id x) <> None ->
  (forall y, find_peer st (p_id x) = Some y -> p_last_ts y <= p_last_ts x) ->
  last_ts st q <= last_ts (fst (send_staged st now x hid)) q.
Proof.
  intros F L. destruct (find_peer st (p_id x)) as [y|] eqn:Fy; [|contradiction].
  pose proof (found_self st (p_id x) y Fy) as Fy'. pose proof (find_id st (p_id x) y Fy) as Iy.
  assert (P : forall x', p_id x' = p_id x -> p_last_ts x' = p_last_ts x ->
              last_ts st q <= last_ts (put_peer st x') q).
  { intros x' I E. apply (put_mono st y); [exact Fy'|congruence|]. rewrite E. apply L. reflexivity. }
  unfold send_staged. destruct (p_staged x =? 0); cbn [fst]; [apply P; reflexivity|].
  destruct (match p_cur x with Some c => if s_expired c then None else Some c | None => None end); cbn [fst]; [apply P; reflexivity|].
  destruct (now - p_last_sent x <? RekeyTimeout); cbn [fst]; apply P; reflexivity.
Qed.

(* the greatest consumed timestamp of a peer never decreases, whatever happens — restarts included *)
Theorem last_timestamp_monotone st e q : last_ts st q <= last_ts (fst (step st e)) q.
Proof.
  destruct e as [now m sid|now m sid|now src|now src|now l|now p hid|now p a hid|p d|now|p|p]; cbn [step].
  - unfold recv_init. destruct (init_accepts st now m) as [x|] eqn:E; cbn [fst]; [|lia].
    apply (put_mono st x); [apply (init_accepts_found st now m); exact E|reflexivity|].
    cbn [p_last_ts]. apply init_accepts_iff in E. lia.
  - unfold recv_resp. destruct (resp_accepts st m) as [x|] eqn:E; cbn [fst]; [|lia].
    apply (put_mono st x); [apply (resp_accepts_found st m); exact E|reflexivity|]. cbn [p_last_ts]. lia.
  - cbn [fst]. lia.
  - cbn [fst]. lia.
  - apply recv_batch_mono.
  - destruct (find_peer st p) as [x|] eqn:F; cbn [fst]; [|lia].
    apply send_staged_mono; cbn [with_staged p_id p_last_ts]; rewrite (found_self st p x F); [discriminate|].
    intros y Hy. inversion Hy. lia.
  - destruct (find_peer st p) as [x|] eqn:F; cbn [fst]; [|lia].
    apply send_staged_mono; cbn [with_ep p_id p_last_ts]; rewrite (found_self st p x F); [discriminate|].
    intros y Hy. inversion Hy. lia.
  - destruct (find_peer st p) as [x|] eqn:F; cbn [fst]; [|lia].
    apply (put_mono st x); [apply (found_self st p); exact F|reflexivity|]. cbn [shift_hs p_last_ts]. lia.
  - cbn [fst]. unfold last_ts. rewrite find_restart. destruct (find_peer st q); cbn [restart_peer p_last_ts]; lia.
  - destruct (find_peer st p) as [x|] eqn:F; cbn [fst]; [|lia].
    apply (put_mono st x); [apply (found_self st p); exact F|reflexivity|]. cbn [set_rekey p_last_ts]. lia.
  - destruct (find_peer st p) as [x|] eqn:F; cbn [fst]; [|lia].
    apply (put_mono st x); [apply (found_self st p); exact F|reflexivity|]. cbn [age_keys p_last_ts]. lia.
Qed.

Lemma final_last_ts evs : forall st q, last_ts st q <= last_ts (final step st evs) q.
Proof.
  induction evs as [|e t IH]; intros st q; [cbn; lia|].
  rewrite final_cons. pose proof (last_timestamp_monotone st e q). pose proof (IH (fst (step st e)) q). lia.
Qed.

(* An initiation that was consumed once — and any initiation of that peer with the same or an
   older timestamp — is never accepted again, after any history (restarts, new sessions, shifted
   handshake times, other traffic) and from any source: it changes nothing and moves nothing. *)
Theorem replayed_initiation_never_accepted st now m sid x mid now2 m2 sid2 :
  init_accepts st now m = Some x ->
  i_static m2 = i_static m -> i_ts m2 <= i_ts m ->
  let st2 := final step (fst (step st (EInit now m sid))) mid in
  step st2 (EInit now2 m2 sid2) = (st2, []).
Proof.
  intros A S T st2. apply rejected_initiation_inert.
  pose proof (init_accepts_found st now m x A) as F.
  pose proof (proj1 (init_accepts_iff st now m x) A) as (_ & (p & Sp & Fp) & _ & _ & _).
  pose proof (find_id st p x Fp) as I.
  assert (L : i_ts m <= last_ts st2 p).
  { unfold st2. eapply N.le_trans; [|apply final_last_ts].
    cbn [step]. unfold recv_init. rewrite A. cbn [fst].
    rewrite (last_ts_put st x) by (try reflexivity; exact F).
    rewrite I, N.eqb_refl. cbn [p_last_ts]. lia. }
  destruct (init_accepts st2 now2 m2) as [y|] eqn:E; [|reflexivity]. exfalso.
  apply init_accepts_iff in E. destruct E as (_ & (p' & Sp' & Fp') & _ & Ts & _).
  rewrite S, Sp in Sp'. inversion Sp'; subst p'. unfold last_ts in L. rewrite Fp' in L. lia.
Qed.

(* ------------------------------------------------------ crossed handshakes *)

(* The device holds an unconfirmed responder keypair (next) when its own initiation completes:
   next becomes previous and the OLD CURRENT session is discarded.  A transport message under
   that discarded session — whatever its counter, tag or source — is then refused: stale
   sessions cannot move the endpoint. *)
Theorem crossed_handshake_discards_current st now m sid x s0 s1 e :
  resp_accepts st m = Some x -> p_cur x = Some s0 -> p_next x = Some s1 ->
  s_id s0 <> sid -> s_id s0 <> s_id s1 ->
  t_owner e = Some (p_id x, s_id s0) ->
  elem_accepts (fst (step st (EResp now m sid))) e = None.
Proof.
  intros A C Nx D1 D2 O. pose proof (resp_accepts_found st m x A) as F.
  cbn [step]. unfold recv_resp. rewrite A. cbn [fst].
  unfold elem_accepts. rewrite O, find_put. cbn [p_id]. rewrite N.eqb_refl, F.
  unfold slot_of. cbn [p_next p_cur p_prev new_sess s_id]. rewrite Nx.
  destruct (N.eqb_spec sid (s_id s0)) as [E|E]; [congruence|].
  destruct (N.eqb_spec (s_id s1) (s_id s0)) as [E'|E']; [congruence|]. reflexivity.
Qed.

(* ------------------------------------------------ keypairs older than 180 s *)

(* after all keypairs of a peer have passed RejectAfterTime, no transport element for that peer is
   accepted, whatever it carries and wherever it comes from *)
Lemma slot_aged x sid sl s : slot_of (age_keys x) sid = Some (sl, s) -> s_expired s = true.
Proof.
  unfold slot_of, age_keys, expire. cbn [p_next p_cur p_prev].
  destruct (p_next x), (p_cur x), (p_prev x); cbn [s_id];
    repeat match goal with |- context [if ?c then _ else _] => destruct c end;
    intros H; inversion H; reflexivity.
Qed.

Theorem expired_keys_accept_nothing st p x e :
  find_peer st p = Some x -> (exists sid, t_owner e = Some (p, sid)) ->
  elem_accepts (fst (step st (EAgeKeys p))) e = None.
Proof.
  intros F (sid & O). cbn [step]. rewrite F. cbn [fst].
  unfold elem_accepts. rewrite O, find_put.
  replace (p_id (age_keys x)) with (p_id x) by reflexivity.
  rewrite (find_id st p x F), N.eqb_refl, F.
  destruct (slot_of (age_keys x) sid) as [[sl s]|] eqn:S; [|reflexivity].
  rewrite (slot_aged x sid sl s S). reflexivity.
Qed.

(* ------------------------------------------------------- timestamp order *)

(* The model's timestamp is seconds * 10^9 + nanoseconds (the harness encodes it as TAI64N seconds and
   nanoseconds, big-endian, which the device compares bytewise): an earlier second is older whatever the
   nanosecond parts are. *)
Lemma timestamp_order s1 n1 s2 n2 : n1 < 1000000000 -> n2 < 1000000000 ->
  (s1 * 1000000000 + n1 < s2 * 1000000000 + n2 <-> s1 < s2 \/ (s1 = s2 /\ n1 < n2)).
Proof. intros A B. split; intros H; nia. Qed.
