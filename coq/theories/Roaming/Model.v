(* Slice model of the device for property C11 (endpoint roaming): per peer the
   endpoint slot and exactly the state that decides whether an arriving datagram
   is authentic AND fresh — greatest timestamp and time of the last consumed
   initiation (ConsumeMessageInitiation), the outstanding own initiation
   (ConsumeMessageResponse), the three keypair slots with one replay filter each
   (BeginSymmetricSession, ReceivedWithKeypair, RoutineSequentialReceiver) —
   plus SetEndpointFromPacket, SendBuffers' use of the endpoint, the UAPI
   endpoint= line, staging and the 5 s initiation spacing.

   A datagram is described by how it was BUILT (valid MAC1 or not, which static
   key, whether the AEADs open, which timestamp / counter / session / index);
   whether it is accepted is decided here.  The replay filter is the
   specification filter of C05 (Replay/Spec.v, proved equal to the ring filter).
   The device is not under load (that is C10). *)
From WG Require Import Base.Prelude Gen.Constants Replay.Model Replay.Spec.
Local Open Scope N_scope.

Definition addr := (N * N)%type.          (* address number, port *)
Definition addr_eqb (a b : addr) : bool := (fst a =? fst b) && (snd a =? snd b).

(* ------------------------------------------------------ datagram descriptors *)

Record imsg := {           (* handshake initiation *)
  i_src : addr;
  i_mac1 : bool;           (* MAC1 valid for the device's key *)
  i_static : option N;     (* encrypted static opens to configured peer p *)
  i_tsok : bool;           (* encrypted timestamp opens *)
  i_ts : N }.              (* the timestamp *)

Record rmsg := {           (* handshake response *)
  r_src : addr;
  r_mac1 : bool;
  r_owner : option N;      (* receiver index is the handshake index of peer p *)
  r_hid : N }.             (* number of the device initiation it completes (0 = none: AEAD fails) *)

Record telem := {          (* transport message *)
  t_src : addr;
  t_owner : option (N * N);(* receiver index belongs to session sid of peer p *)
  t_tag : bool;            (* sealed under that session's key, not altered *)
  t_ctr : N }.

Inductive event :=
| EInit (now : N) (m : imsg) (sid : N)     (* sid = number of the session if one is created *)
| EResp (now : N) (m : rmsg) (sid : N)
| ECookie (now : N) (src : addr)           (* cookie reply, whatever its content *)
| EOther (now : N) (src : addr)            (* unknown type or wrong size *)
| EBatch (now : N) (l : list telem)        (* transport messages received in one batch *)
| ETun (now : N) (p hid : N)               (* packet from the TUN routed to p; hid = number of an initiation if created *)
| EUapi (now : N) (p : N) (a : addr) (hid : N)  (* set public_key=p endpoint=a *)
| EShiftHs (p d : N)                       (* hook VerifShiftHandshakeTimes *)
| ERestart (now : N)
| ESetNonce (p : N)
| EAgeKeys (p : N).                        (* hook VerifShiftKeypairAges(p, 181 s): all three keypairs are older than RejectAfterTime *)                       (* hook VerifSetSendNonce(p, RekeyAfterMessages + 1): the next data packet sent asks for a new handshake *)                      (* Device.Down then Device.Up: every peer is stopped and started *)

Inductive output :=
| OResp (to : addr) (p : N)
| OInit (to : addr) (p : N) (hid : N)
| OTransport (to : addr) (p : N).

(* ---------------------------------------------------------------------- state *)

Record sess := { s_id : N; s_filter : sstate; s_expired : bool }.   (* s_expired: created more than RejectAfterTime (180 s) ago *)

Record peer := {
  p_id : N;
  p_endpoint : option addr;
  p_last_ts : N;                 (* handshake.lastTimestamp *)
  p_last_consume : N;            (* handshake.lastInitiationConsumption *)
  p_last_sent : N;               (* handshake.lastSentHandshake *)
  p_pending : option N;          (* outstanding own initiation (state InitiationCreated) *)
  p_prev : option sess; p_cur : option sess; p_next : option sess;
  p_staged : N;
  p_rekey : bool }.              (* send counter of the current keypair above RekeyAfterMessages (hook VerifSetSendNonce) *)

Definition dstate := list peer.

Fixpoint find_peer (l : dstate) (p : N) : option peer :=
  match l with
  | [] => None
  | x :: t => if p_id x =? p then Some x else find_peer t p
  end.

Fixpoint put_peer (l : dstate) (x : peer) : dstate :=
  match l with
  | [] => []
  | y :: t => if p_id y =? p_id x then x :: t else y :: put_peer t x
  end.

Definition endpoint (st : dstate) (p : N) : option addr :=
  match find_peer st p with Some x => p_endpoint x | None => None end.

Fixpoint rep {A} (n : nat) (x : A) : list A := match n with O => [] | S k => x :: rep k x end.

(* SendBuffers: to the endpoint if there is one *)
Definition send_to (x : peer) (o : addr -> output) (n : N) : list output :=
  match p_endpoint x with Some a => rep (N.to_nat n) (o a) | None => [] end.

Definition with_ep (x : peer) (a : option addr) : peer :=
  {| p_id := p_id x; p_endpoint := a; p_last_ts := p_last_ts x; p_last_consume := p_last_consume x;
     p_last_sent := p_last_sent x; p_pending := p_pending x; p_prev := p_prev x; p_cur := p_cur x;
     p_next := p_next x; p_staged := p_staged x; p_rekey := p_rekey x |}.

Definition new_sess (sid : N) : sess := {| s_id := sid; s_filter := sempty; s_expired := false |}.

(* -------------------------------------------------------- ConsumeMessageInitiation *)

(* the checks of RoutineHandshake (not under load) and ConsumeMessageInitiation, in order *)
Definition init_accepts (st : dstate) (now : N) (m : imsg) : option peer :=
  if negb (i_mac1 m) then None else
  match i_static m with
  | None => None
  | Some p =>
      match find_peer st p with
      | None => None
      | Some x =>
          if negb (i_tsok m) then None
          else if i_ts m <=? p_last_ts x then None                               (* replay *)
          else if now - p_last_consume x <=? HandshakeInitationRate then None    (* flood *)
          else Some x
      end
  end.

(* consume, SetEndpointFromPacket, SendHandshakeResponse (BeginSymmetricSession as responder) *)
Definition recv_init (st : dstate) (now : N) (m : imsg) (sid : N) : dstate * list output :=
  match init_accepts st now m with
  | None => (st, [])
  | Some x =>
      let x' := {| p_id := p_id x; p_endpoint := Some (i_src m); p_last_ts := i_ts m;
                   p_last_consume := now; p_last_sent := now; p_pending := None;
                   p_prev := None; p_cur := p_cur x; p_next := Some (new_sess sid);
                   p_staged := p_staged x; p_rekey := p_rekey x |} in
      (put_peer st x', [OResp (i_src m) (p_id x)])
  end.

(* ---------------------------------------------------------- ConsumeMessageResponse *)

Definition resp_accepts (st : dstate) (m : rmsg) : option peer :=
  if negb (r_mac1 m) then None else
  match r_owner m with
  | None => None
  | Some p =>
      match find_peer st p with
      | None => None
      | Some x =>
          match p_pending x with
          | Some h => if (h =? r_hid m) && negb (r_hid m =? 0) then Some x else None
          | None => None
          end
      end
  end.

(* consume, SetEndpointFromPacket, BeginSymmetricSession as initiator, SendKeepalive *)
Definition recv_resp (st : dstate) (now : N) (m : rmsg) (sid : N) : dstate * list output :=
  match resp_accepts st m with
  | None => (st, [])
  | Some x =>
      let n := if p_staged x =? 0 then 1 else p_staged x in
      let x' := {| p_id := p_id x; p_endpoint := Some (r_src m); p_last_ts := p_last_ts x;
                   p_last_consume := p_last_consume x; p_last_sent := p_last_sent x; p_pending := None;
                   p_prev := match p_next x with Some s => Some s | None => p_cur x end;
                   p_cur := Some (new_sess sid); p_next := None; p_staged := 0; p_rekey := false |} in
      (put_peer st x', send_to x' (fun a => OTransport a (p_id x)) n)
  end.

(* ------------------------------------------------------- transport, one element *)

Inductive slot := SPrev | SCur | SNext.

Definition slot_of (x : peer) (sid : N) : option (slot * sess) :=
  match p_next x, p_cur x, p_prev x with
  | Some s, _, _ => if s_id s =? sid then Some (SNext, s) else
      match p_cur x, p_prev x with
      | Some c, _ => if s_id c =? sid then Some (SCur, c) else
          match p_prev x with Some v => if s_id v =? sid then Some (SPrev, v) else None | None => None end
      | None, Some v => if s_id v =? sid then Some (SPrev, v) else None
      | None, None => None
      end
  | None, Some c, _ => if s_id c =? sid then Some (SCur, c) else
      match p_prev x with Some v => if s_id v =? sid then Some (SPrev, v) else None | None => None end
  | None, None, Some v => if s_id v =? sid then Some (SPrev, v) else None
  | None, None, None => None
  end.

(* opened under a live key of the peer and passed the replay filter:
   index lookup finds a keypair not older than 180 s, AEAD opens, ValidateCounter accepts *)
Definition elem_accepts (st : dstate) (e : telem) : option (peer * slot * sess) :=
  match t_owner e with
  | None => None
  | Some (p, sid) =>
      match find_peer st p with
      | None => None
      | Some x =>
          match slot_of x sid with
          | None => None
          | Some (sl, s) =>
              if s_expired s then None            (* keypair.created + RejectAfterTime is in the past: dropped before decryption *)
              else if negb (t_tag e) then None
              else if accept (s_filter s) (t_ctr e) RejectAfterMessages then Some (x, sl, s) else None
          end
      end
  end.

Definition mark (s : sess) (c : N) : sess :=
  {| s_id := s_id s; s_filter := fst (sstep (s_filter s) (Validate c RejectAfterMessages)); s_expired := s_expired s |}.

(* one element of RoutineSequentialReceiver's loop; the endpoint written here is
   the value SetEndpointFromPacket leaves at the end of the batch if no later
   element is accepted (validTailPacket), and the value it writes at once when
   the element confirms the next keypair (ReceivedWithKeypair) *)
Definition recv_elem (st : dstate) (e : telem) : dstate * list output :=
  match elem_accepts st e with
  | None => (st, [])
  | Some (x, sl, s) =>
      let s' := mark s (t_ctr e) in
      match sl with
      | SNext =>
          let x' := {| p_id := p_id x; p_endpoint := Some (t_src e); p_last_ts := p_last_ts x;
                       p_last_consume := p_last_consume x; p_last_sent := p_last_sent x;
                       p_pending := p_pending x; p_prev := p_cur x; p_cur := Some s'; p_next := None;
                       p_staged := 0; p_rekey := false |} in
          (put_peer st x', send_to x' (fun a => OTransport a (p_id x)) (p_staged x))
      | SCur =>
          (put_peer st {| p_id := p_id x; p_endpoint := Some (t_src e); p_last_ts := p_last_ts x;
                          p_last_consume := p_last_consume x; p_last_sent := p_last_sent x;
                          p_pending := p_pending x; p_prev := p_prev x; p_cur := Some s'; p_next := p_next x;
                          p_staged := p_staged x; p_rekey := p_rekey x |}, [])
      | SPrev =>
          (put_peer st {| p_id := p_id x; p_endpoint := Some (t_src e); p_last_ts := p_last_ts x;
                          p_last_consume := p_last_consume x; p_last_sent := p_last_sent x;
                          p_pending := p_pending x; p_prev := Some s'; p_cur := p_cur x; p_next := p_next x;
                          p_staged := p_staged x; p_rekey := p_rekey x |}, [])
      end
  end.

Fixpoint recv_batch (st : dstate) (l : list telem) : dstate * list output :=
  match l with
  | [] => (st, [])
  | e :: t => let '(st1, o1) := recv_elem st e in
              let '(st2, o2) := recv_batch st1 t in (st2, o1 ++ o2)
  end.

(* ------------------------------------- SendStagedPackets / SendHandshakeInitiation *)

Definition send_staged (st : dstate) (now : N) (x : peer) (hid : N) : dstate * list output :=
  if p_staged x =? 0 then (put_peer st x, [])
  else
    match (match p_cur x with Some c => if s_expired c then None else Some c | None => None end) with
    | Some _ =>
        (* the packets go out under the current keypair; then keepKeyFreshSending: a send counter above
           RekeyAfterMessages asks for a new handshake, subject to the 5 s spacing *)
        let rk := p_rekey x && negb (now - p_last_sent x <? RekeyTimeout) in
        let x' := {| p_id := p_id x; p_endpoint := p_endpoint x; p_last_ts := p_last_ts x;
                     p_last_consume := p_last_consume x; p_last_sent := if rk then now else p_last_sent x;
                     p_pending := if rk then Some hid else p_pending x;
                     p_prev := p_prev x; p_cur := p_cur x; p_next := p_next x;
                     p_staged := 0; p_rekey := p_rekey x |} in
        (put_peer st x',
         send_to x (fun a => OTransport a (p_id x)) (p_staged x) ++
         (if rk then send_to x (fun a => OInit a (p_id x) hid) 1 else []))
    | None =>
        if now - p_last_sent x <? RekeyTimeout then (put_peer st x, [])
        else
          let x' := {| p_id := p_id x; p_endpoint := p_endpoint x; p_last_ts := p_last_ts x;
                       p_last_consume := p_last_consume x; p_last_sent := now;
                       p_pending := Some hid; p_prev := p_prev x; p_cur := p_cur x; p_next := p_next x;
                       p_staged := p_staged x; p_rekey := p_rekey x |} in
          (put_peer st x', send_to x (fun a => OInit a (p_id x) hid) 1)
    end.

Definition with_staged (x : peer) (n : N) : peer :=
  {| p_id := p_id x; p_endpoint := p_endpoint x; p_last_ts := p_last_ts x; p_last_consume := p_last_consume x;
     p_last_sent := p_last_sent x; p_pending := p_pending x; p_prev := p_prev x; p_cur := p_cur x;
     p_next := p_next x; p_staged := n; p_rekey := p_rekey x |}.

Definition shift_hs (x : peer) (d : N) : peer :=
  {| p_id := p_id x; p_endpoint := p_endpoint x; p_last_ts := p_last_ts x;
     p_last_consume := p_last_consume x - d; p_last_sent := p_last_sent x - d; p_pending := p_pending x;
     p_prev := p_prev x; p_cur := p_cur x; p_next := p_next x; p_staged := p_staged x; p_rekey := p_rekey x |}.

Definition set_rekey (x : peer) : peer :=
  {| p_id := p_id x; p_endpoint := p_endpoint x; p_last_ts := p_last_ts x; p_last_consume := p_last_consume x;
     p_last_sent := p_last_sent x; p_pending := p_pending x; p_prev := p_prev x; p_cur := p_cur x;
     p_next := p_next x; p_staged := p_staged x;
     p_rekey := match p_cur x with Some _ => true | None => p_rekey x end |}.

Definition expire (o : option sess) : option sess :=
  match o with
  | Some s => Some {| s_id := s_id s; s_filter := s_filter s; s_expired := true |}
  | None => None
  end.

Definition age_keys (x : peer) : peer :=
  {| p_id := p_id x; p_endpoint := p_endpoint x; p_last_ts := p_last_ts x; p_last_consume := p_last_consume x;
     p_last_sent := p_last_sent x; p_pending := p_pending x; p_prev := expire (p_prev x); p_cur := expire (p_cur x);
     p_next := expire (p_next x); p_staged := p_staged x; p_rekey := p_rekey x |}.

(* Peer.Stop (ZeroAndFlushAll: keypairs deleted, Handshake.Clear, staged packets dropped) followed by
   Peer.Start (lastSentHandshake := now - RekeyTimeout - 1 s).  What a restart KEEPS is what the
   freshness checks live on: the greatest consumed timestamp, the time of the last consumption,
   and the endpoint. *)
Definition restart_peer (now : N) (x : peer) : peer :=
  {| p_id := p_id x; p_endpoint := p_endpoint x; p_last_ts := p_last_ts x;
     p_last_consume := p_last_consume x; p_last_sent := now - (RekeyTimeout + 1000000000);
     p_pending := None; p_prev := None; p_cur := None; p_next := None; p_staged := 0; p_rekey := false |}.

Definition step (st : dstate) (e : event) : dstate * list output :=
  match e with
  | EInit now m sid => recv_init st now m sid
  | EResp now m sid => recv_resp st now m sid
  | ECookie _ _ => (st, [])
  | EOther _ _ => (st, [])
  | EBatch _ l => recv_batch st l
  | ETun now p hid =>
      match find_peer st p with
      | Some x => send_staged st now (with_staged x (p_staged x + 1)) hid
      | None => (st, [])
      end
  | EUapi now p a hid =>
      match find_peer st p with
      | Some x => send_staged st now (with_ep x (Some a)) hid
      | None => (st, [])
      end
  | EShiftHs p d =>
      match find_peer st p with
      | Some x => (put_peer st (shift_hs x d), [])
      | None => (st, [])
      end
  | ERestart now => (map (restart_peer now) st, [])
  | ESetNonce p =>
      match find_peer st p with
      | Some x => (put_peer st (set_rekey x), [])
      | None => (st, [])
      end
  | EAgeKeys p =>
      match find_peer st p with
      | Some x => (put_peer st (age_keys x), [])
      | None => (st, [])
      end
  end.

(* Peer.Start: lastSentHandshake = start - (RekeyTimeout + 1 s) *)
Definition peer0 (id : N) (ep : option addr) (now : N) : peer :=
  {| p_id := id; p_endpoint := ep; p_last_ts := 0; p_last_consume := 0;
     p_last_sent := now - (RekeyTimeout + 1000000000); p_pending := None;
     p_prev := None; p_cur := None; p_next := None; p_staged := 0; p_rekey := false |}.
