(* Property C11 as an executable checker over observed traces: the events the
   harness applied (with the construction descriptor of every datagram) and,
   after each, the datagrams the device emitted and every peer's endpoint
   (VerifPeer / the endpoint= line of IpcGet).  It does not run the mirror
   model; it keeps only what the text refers to: the endpoints before the
   step, the greatest initiation timestamp the device has answered per peer,
   and per session the set of counters already delivered (C05's filter). *)
From WG Require Import Base.Prelude Gen.Constants Replay.Model Replay.Spec Roaming.Model.
Local Open Scope N_scope.

Record oobs := {
  o_kind : N;          (* 1 initiation, 2 response, 3 cookie reply, 4 transport, 0 other *)
  o_to : addr;
  o_peer : N }.        (* the peer it is for (MAC1 key of a handshake message, owner of the session that opens a transport message) *)

Record sobs := {
  s_outs : list oobs;
  s_eps : list (N * option addr) }.   (* every peer's endpoint after the step *)

Record hist := {
  h_eps : list (N * option addr);
  h_ts : list (N * N);                (* peer -> greatest timestamp of an initiation the device answered *)
  h_filters : list (N * sstate) }.    (* session -> counters delivered *)

Fixpoint lookup {A} (l : list (N * A)) (k : N) : option A :=
  match l with [] => None | (k', v) :: t => if k' =? k then Some v else lookup t k end.

Definition oaddr_eqb (a b : option addr) : bool :=
  match a, b with
  | Some x, Some y => addr_eqb x y
  | None, None => true
  | _, _ => false
  end.

Definition ep_of (l : list (N * option addr)) (p : N) : option addr :=
  match lookup l p with Some a => a | None => None end.

Definition ts_of (h : hist) (p : N) : N := match lookup (h_ts h) p with Some t => t | None => 0 end.
Definition filter_of (l : list (N * sstate)) (sid : N) : sstate :=
  match lookup l sid with Some f => f | None => sempty end.

(* run the delivered-counter sets over a batch; returns the sources of the elements that are
   authentic and fresh for peer p, in order, and the updated sets *)
Fixpoint batch_fresh (fl : list (N * sstate)) (l : list telem) (p : N) : list addr * list (N * sstate) :=
  match l with
  | [] => ([], fl)
  | e :: t =>
      match t_owner e with
      | Some (q, sid) =>
          if t_tag e && accept (filter_of fl sid) (t_ctr e) RejectAfterMessages then
            let fl' := (sid, fst (sstep (filter_of fl sid) (Validate (t_ctr e) RejectAfterMessages))) :: fl in
            let '(srcs, fl2) := batch_fresh fl' t p in
            ((if q =? p then t_src e :: srcs else srcs), fl2)
          else batch_fresh fl t p
      | None => batch_fresh fl t p
      end
  end.

Definition answered (o : sobs) (p : N) : bool :=
  existsb (fun x => (o_kind x =? 2) && (o_peer x =? p)) (s_outs o).

Definition all_to (o : sobs) (p : N) (ok : addr -> bool) : bool :=
  forallb (fun x => negb (o_peer x =? p) || ok (o_to x)) (s_outs o).

(* the clauses of the property for one peer and one step *)
Definition peer_ok (h : hist) (e : event) (o : sobs) (p : N) : bool :=
  let before := ep_of (h_eps h) p in
  let after := ep_of (s_eps o) p in
  let moved := negb (oaddr_eqb before after) in
  let to_after := all_to o p (fun a => oaddr_eqb (Some a) after) in
  match e with
  | EInit _ m _ =>
      let mine := match i_static m with Some q => q =? p | None => false end in
      let authentic_fresh := i_mac1 m && mine && i_tsok m && (ts_of h p <? i_ts m) in
      (negb moved || (authentic_fresh && oaddr_eqb after (Some (i_src m)))) &&
      (negb (answered o p) || (authentic_fresh && oaddr_eqb after (Some (i_src m)))) &&
      to_after
  | EResp _ m _ =>
      let mine := match r_owner m with Some q => q =? p | None => false end in
      let authentic := r_mac1 m && mine && negb (r_hid m =? 0) in
      (negb moved || (authentic && oaddr_eqb after (Some (r_src m)))) && to_after
  | EBatch _ l =>
      let srcs := fst (batch_fresh (h_filters h) l p) in
      oaddr_eqb after (match srcs with [] => before | _ => Some (List.last srcs (0, 0)) end) &&
      all_to o p (fun a => existsb (addr_eqb a) srcs || oaddr_eqb (Some a) before)
  | EUapi _ q a _ =>
      (if q =? p then oaddr_eqb after (Some a) else negb moved) && to_after
  | ECookie _ _ | EOther _ _ | ETun _ _ _ | EShiftHs _ _ | ERestart _ | ESetNonce _ | EAgeKeys _ => negb moved && to_after
  end.

Definition step_ok (h : hist) (e : event) (o : sobs) : bool :=
  forallb (fun pe => peer_ok h e o (fst pe)) (h_eps h).

Definition advance (h : hist) (e : event) (o : sobs) : hist :=
  {| h_eps := s_eps o;
     h_ts := match e with
             | EInit _ m _ =>
                 match i_static m with
                 | Some p => if answered o p then (p, N.max (ts_of h p) (i_ts m)) :: h_ts h else h_ts h
                 | None => h_ts h
                 end
             | _ => h_ts h
             end;
     h_filters := match e with EBatch _ l => snd (batch_fresh (h_filters h) l 0) | _ => h_filters h end |}.

Fixpoint first_bad (h : hist) (tr : list (event * sobs)) (i : N) : option N :=
  match tr with
  | [] => None
  | (e, o) :: r => if step_ok h e o then first_bad (advance h e o) r (i + 1) else Some i
  end.

Definition hist0 (eps : list (N * option addr)) : hist := {| h_eps := eps; h_ts := []; h_filters := [] |}.

Definition holdsb (eps : list (N * option addr)) (tr : list (event * sobs)) : bool :=
  match first_bad (hist0 eps) tr 0 with None => true | Some _ => false end.
