(* Correspondence checker for C11: run the slice model over the events the
   harness applied to the real device, compare outputs and every peer's
   endpoint with what was observed (kind 1), and evaluate the property's
   checker [Spec.holdsb] on the observations (kind 2).  Depends on Model and
   Spec only. *)
From WG Require Import Base.Prelude Gen.Constants Replay.Model Replay.Spec Roaming.Model Roaming.Spec.
From WG Require Import Base.Ints.
Local Open Scope N_scope.

(* ---------------------------------------------- descriptors in case files *)
(* times, timestamps and counters are primitive integers (counters as high and low 32 bits) *)

Definition Im (ip port : N) (mac1 : bool) (static : option N) (tsok : bool) (ts : Uint63.int) : imsg :=
  {| i_src := (ip, port); i_mac1 := mac1; i_static := static; i_tsok := tsok; i_ts := n_of_int ts |}.
Definition Rm (ip port : N) (mac1 : bool) (owner : option N) (hid : N) : rmsg :=
  {| r_src := (ip, port); r_mac1 := mac1; r_owner := owner; r_hid := hid |}.
Definition Te (ip port : N) (owner : option (N * N)) (tag : bool) (hi lo : Uint63.int) : telem :=
  {| t_src := (ip, port); t_owner := owner; t_tag := tag; t_ctr := n_of_int hi * 4294967296 + n_of_int lo |}.

Definition EI (t : Uint63.int) (m : imsg) (sid : N) : event := EInit (n_of_int t) m sid.
Definition ER (t : Uint63.int) (m : rmsg) (sid : N) : event := EResp (n_of_int t) m sid.
Definition EC (t : Uint63.int) (ip port : N) : event := ECookie (n_of_int t) (ip, port).
Definition EO (t : Uint63.int) (ip port : N) : event := EOther (n_of_int t) (ip, port).
Definition EB (t : Uint63.int) (l : list telem) : event := EBatch (n_of_int t) l.
Definition ET (t : Uint63.int) (p hid : N) : event := ETun (n_of_int t) p hid.
Definition EU (t : Uint63.int) (p ip port hid : N) : event := EUapi (n_of_int t) p (ip, port) hid.
Definition SH (p : N) (d : Uint63.int) : event := EShiftHs p (n_of_int d).
Definition ERS (t : Uint63.int) : event := ERestart (n_of_int t).
Definition ESN (p : N) : event := ESetNonce p.
Definition EAK (p : N) : event := EAgeKeys p.

Definition OD (kind ip port peer : N) : oobs := {| o_kind := kind; o_to := (ip, port); o_peer := peer |}.
Definition OB (outs : list oobs) (eps : list (N * option addr)) : sobs := {| s_outs := outs; s_eps := eps |}.

Record case := {
  c_t0 : Uint63.int;
  c_peers : list (N * option addr);       (* key number, configured endpoint *)
  c_steps : list (event * sobs) }.

Definition mk (t0 : Uint63.int) (peers : list (N * option addr)) (steps : list (event * sobs)) : case :=
  {| c_t0 := t0; c_peers := peers; c_steps := steps |}.

(* ------------------------------------------------------------- comparison *)

Definition describe (o : output) : oobs :=
  match o with
  | OResp to p => {| o_kind := 2; o_to := to; o_peer := p |}
  | OInit to p _ => {| o_kind := 1; o_to := to; o_peer := p |}
  | OTransport to p => {| o_kind := 4; o_to := to; o_peer := p |}
  end.

Definition oobs_eqb (a b : oobs) : bool :=
  (o_kind a =? o_kind b) && addr_eqb (o_to a) (o_to b) && (o_peer a =? o_peer b).

Fixpoint list_eqb {A} (f : A -> A -> bool) (a b : list A) : bool :=
  match a, b with
  | [], [] => true
  | x :: a', y :: b' => f x y && list_eqb f a' b'
  | _, _ => false
  end.

(* Inside a batch the staged packets released by a confirming element are handed to the sender
   goroutine while the receiver goes on with the batch: they may leave for the source of that
   element or of a later accepted one.  Any source present in the batch is tolerated here;
   the property checker (kind 2) is stricter. *)
Definition out_agrees (e : event) (m o : oobs) : bool :=
  match e with
  | EBatch _ l =>
      (o_kind m =? o_kind o) && (o_peer m =? o_peer o) &&
      (addr_eqb (o_to m) (o_to o) || existsb (fun x => addr_eqb (t_src x) (o_to o)) l)
  | _ => oobs_eqb m o
  end.

Definition eps_of (st : dstate) : list (N * option addr) := map (fun x => (p_id x, p_endpoint x)) st.

Definition ep_eqb (a b : N * option addr) : bool := (fst a =? fst b) && oaddr_eqb (snd a) (snd b).

(* Datagrams for different peers leave through different sender goroutines: their relative order
   is not determined.  Per peer the order is; the totals must agree. *)
Definition outs_agree (e : event) (m o : list oobs) (peers : list N) : bool :=
  (N.of_nat (length m) =? N.of_nat (length o)) &&
  forallb (fun p => list_eqb (out_agrees e) (List.filter (fun x => o_peer x =? p) m) (List.filter (fun x => o_peer x =? p) o)) peers.

Definition agrees (st' : dstate) (e : event) (outs : list output) (o : sobs) : bool :=
  outs_agree e (map describe outs) (s_outs o) (map p_id st') && list_eqb ep_eqb (eps_of st') (s_eps o).

Fixpoint first_mismatch (st : dstate) (tr : list (event * sobs)) (i : N) : option N :=
  match tr with
  | [] => None
  | (e, o) :: r =>
      let '(st', outs) := step st e in
      if agrees st' e outs o then first_mismatch st' r (i + 1) else Some i
  end.

Definition init_state (k : case) : dstate :=
  map (fun pe => peer0 (fst pe) (snd pe) (n_of_int (c_t0 k))) (c_peers k).

(* kind 1 = the device differs from the mirror model; kind 2 = the property fails on the observations *)
Definition check_case (k : case) : list (N * N) :=
  (match first_mismatch (init_state k) (c_steps k) 0 with Some i => [(1, i)] | None => [] end) ++
  (match first_bad (hist0 (c_peers k)) (c_steps k) 0 with Some i => [(2, i)] | None => [] end).

Fixpoint check_cases (ks : list case) (idx : N) : list (N * N * N) :=
  match ks with
  | [] => []
  | k :: ks' => map (fun p => (idx, fst p, snd p)) (check_case k) ++ check_cases ks' (idx + 1)
  end.

(* what the model predicts, step by step (used when looking into a mismatch) *)
Fixpoint predict (st : dstate) (tr : list (event * sobs)) : list (list oobs * list (N * option addr)) :=
  match tr with
  | [] => []
  | (e, _) :: r => let '(st', outs) := step st e in (map describe outs, eps_of st') :: predict st' r
  end.
Definition predict_case (k : case) := predict (init_state k) (c_steps k).

(* ----------------------------------------------------- branch statistics *)
(* [0 initiation consumed; 1 initiation bad MAC1; 2 initiation AEAD fails / stranger; 3 initiation replayed
    timestamp; 4 initiation flood; 5 response consumed; 6 response rejected; 7 cookie reply; 8 other datagram;
    9 transport accepted; 10 transport replayed / out of window; 11 transport bad tag; 12 transport wrong
    index or dead session; 13 batch with more than one element; 14 TUN -> initiation; 15 TUN -> transport;
    16 TUN staged only; 17 UAPI endpoint=; 18 steps in which an endpoint moved; 19 confirming element released staged packets;
    20 restart (Down/Up); 21 send counter pushed over RekeyAfterMessages; 22 TUN packet -> transport and rekey initiation;
    23 keypairs aged beyond 180 s; 24 transport under a keypair older than 180 s] *)

Fixpoint bump (l : list N) (i : nat) : list N :=
  match l, i with
  | [], _ => []
  | x :: t, O => (x + 1) :: t
  | x :: t, S j => x :: bump t j
  end.

Definition classify_elem (st : dstate) (e : telem) : nat :=
  match elem_accepts st e with
  | Some _ => 9%nat
  | None =>
      match t_owner e with
      | None => 12%nat
      | Some (p, sid) =>
          match find_peer st p with
          | None => 12%nat
          | Some x => match slot_of x sid with
                      | None => 12%nat
                      | Some (_, s) => if s_expired s then 24%nat else if t_tag e then 10%nat else 11%nat
                      end
          end
      end
  end.

Fixpoint classify_batch (st : dstate) (l : list telem) : list nat :=
  match l with
  | [] => []
  | e :: t => classify_elem st e :: classify_batch (fst (recv_elem st e)) t
  end.

Definition classify (st : dstate) (e : event) : list nat :=
  let '(st', outs) := step st e in
  (if list_eqb ep_eqb (eps_of st) (eps_of st') then [] else [18%nat]) ++
  match e with
  | EInit now m _ =>
      match init_accepts st now m with
      | Some _ => [0%nat]
      | None =>
          if negb (i_mac1 m) then [1%nat]
          else match i_static m with
               | None => [2%nat]
               | Some p =>
                   match find_peer st p with
                   | None => [2%nat]
                   | Some x => if negb (i_tsok m) then [2%nat]
                               else if i_ts m <=? p_last_ts x then [3%nat] else [4%nat]
                   end
               end
      end
  | EResp _ m _ => match resp_accepts st m with Some _ => [5%nat] | None => [6%nat] end
  | ECookie _ _ => [7%nat]
  | EOther _ _ => [8%nat]
  | EBatch _ l =>
      (match l with _ :: _ :: _ => [13%nat] | _ => [] end) ++
      (match outs with [] => [] | _ => [19%nat] end) ++ classify_batch st l
  | ETun _ _ _ =>
      match outs with
      | OInit _ _ _ :: _ => [14%nat]
      | OTransport _ _ :: _ =>
          15%nat :: (if existsb (fun o => match o with OInit _ _ _ => true | _ => false end) outs then [22%nat] else [])
      | _ => [16%nat]
      end
  | EUapi _ _ _ _ => [17%nat]
  | EShiftHs _ _ => []
  | ERestart _ => [20%nat]
  | ESetNonce _ => [21%nat]
  | EAgeKeys _ => [23%nat]
  end.

Fixpoint stats_steps (st : dstate) (tr : list (event * sobs)) (acc : list N) : list N :=
  match tr with
  | [] => acc
  | (e, _) :: r => stats_steps (fst (step st e)) r (fold_left bump (classify st e) acc)
  end.

Definition stats (ks : list case) : list N :=
  fold_left (fun acc k => stats_steps (init_state k) (c_steps k) acc) ks (repeat 0 25).
