(* Theorems about the timer automaton of Timers/Model.v under the ideal clock
   [idle] (a pending timer's closure runs exactly at its deadline). *)
From WG Require Import Base.Prelude Gen.Constants Timers.Model.
Local Open Scope N_scope.

Definition mkev (t : N) (i : input) (j : N * N) : ev :=
  {| e_t := t; e_in := i; e_jr := fst j; e_jn := snd j |}.
(* fastrandn(RekeyTimeoutJitterMaxMs) *)
Definition jit_ok (j : N * N) : Prop :=
  fst j < RekeyTimeoutJitterMaxMs /\ snd j < RekeyTimeoutJitterMaxMs.
(* the peer after device.Up at time ts, persistent keepalive p seconds *)
Definition started (p ts : N) : st := fst (step (init_st p) (mkev ts IStart (0, 0))).
(* t, t + 5 s + j0, t + 5 s + j0 + 5 s + j1, ... (n times) *)
Fixpoint tx_times (n : nat) (t : N) (js : list (N * N)) : list N :=
  match n with
  | O => []
  | S k => t :: tx_times k (t + RekeyTimeout + ms * fst (hd (0, 0) js)) (tl js)
  end.
Definition at_times (ts : list N) (o : output) : list (N * output) := map (fun t => (t, o)) ts.
Definition stage_all (cs q : list container) : list container :=
  fold_left (fun q c => stagePackets c q) cs q.


Ltac consts := unfold RekeyTimeout, KeepaliveTimeout, RekeyAfterTime, RejectAfterTime,
  RekeyTimeoutJitterMaxMs, MaxTimerHandshakes, QueueStagedSize, ms, sec,
  hsZeroed, hsInitiationCreated, hsResponseCreated in *.

Lemma jit_hd js : Forall jit_ok js -> jit_ok (hd (0, 0) js).
Proof.
  intros H. destruct H as [|j js Hj Hjs]; cbn [hd]; [|exact Hj].
  unfold jit_ok; cbn [fst snd]. consts. lia.
Qed.
Lemma jit_tl js : Forall jit_ok js -> Forall jit_ok (tl js).
Proof. intros H. destruct H; cbn [tl]; auto. Qed.

Lemma tx_nth_bounds : forall n t js i,
  Forall jit_ok js -> (i < n)%nat ->
  t + N.of_nat i * RekeyTimeout <= nth i (tx_times n t js) 0 /\
  nth i (tx_times n t js) 0 <= t + N.of_nat i * (RekeyTimeout + 333 * ms).
Proof.
  induction n as [|n IH]; intros t js i Hj Hi; [lia|].
  cbn [tx_times]. destruct i as [|i]; cbn [nth].
  - lia.
  - pose proof (jit_hd js Hj) as [Hh _].
    specialize (IH (t + RekeyTimeout + ms * fst (hd (0,0) js)) (tl js) i (jit_tl js Hj) ltac:(lia)).
    rewrite Nat2N.inj_succ. consts. lia.
Qed.

Theorem retransmit_gaps : forall n t js i,
  Forall jit_ok js -> (S i < n)%nat ->
  let a := nth i (tx_times n t js) 0 in
  let b := nth (S i) (tx_times n t js) 0 in
  a + RekeyTimeout <= b /\ b < a + RekeyTimeout + RekeyTimeoutJitterMaxMs * ms.
Proof.
  induction n as [|n IH]; intros t js i Hj Hi; [lia|].
  destruct i as [|i].
  - destruct n as [|n]; [lia|]. cbn [tx_times nth].
    pose proof (jit_hd js Hj) as [Hh _]. consts. lia.
  - cbn [tx_times]. cbn [nth].
    apply (IH _ (tl js) i (jit_tl js Hj)). lia.
Qed.

Theorem giveup_time_bounds : forall t js,
  Forall jit_ok js ->
  let times := tx_times 21 t js in
  t + 19 * RekeyTimeout <= nth 19 times 0 /\ nth 19 times 0 <= t + 19 * (RekeyTimeout + 333 * ms) /\
  t + 20 * RekeyTimeout <= nth 20 times 0 /\ nth 20 times 0 <= t + 20 * (RekeyTimeout + 333 * ms).
Proof.
  intros t js Hj times.
  pose proof (tx_nth_bounds 21 t js 19 Hj ltac:(lia)) as [A B].
  pose proof (tx_nth_bounds 21 t js 20 Hj ltac:(lia)) as [C D].
  fold times in A, B, C, D.
  change (N.of_nat 19) with 19 in *. change (N.of_nat 20) with 20 in *.
  repeat split; assumption.
Qed.
Lemma stage_all_gen : forall cs q,
  (length q <= N.to_nat QueueStagedSize)%nat ->
  stage_all cs q = skipn (length (q ++ cs) - N.to_nat QueueStagedSize) (q ++ cs).
Proof.
  unfold stage_all.
  induction cs as [|c cs IH]; intros q Hq.
  - cbn [fold_left]. rewrite app_nil_r.
    replace (length q - N.to_nat QueueStagedSize)%nat with O by lia. reflexivity.
  - cbn [fold_left]. unfold stagePackets at 2.
    destruct (N.ltb_spec (N.of_nat (length q)) QueueStagedSize) as [Hlt|Hge].
    + rewrite IH by (rewrite app_length; cbn [length]; lia).
      rewrite <- app_assoc. reflexivity.
    + destruct q as [|x q]; [cbn [length] in Hge; unfold QueueStagedSize in Hge; lia|].
      cbn [tl length] in *.
      rewrite IH by (rewrite app_length; cbn [length]; lia).
      rewrite <- !app_assoc. cbn [app length].
      assert (Hl : (N.to_nat QueueStagedSize <= length (q ++ c :: cs))%nat)
        by (rewrite app_length; cbn [length]; lia).
      replace (S (length (q ++ c :: cs)) - N.to_nat QueueStagedSize)%nat
        with (S (length (q ++ c :: cs) - N.to_nat QueueStagedSize)) by lia.
      reflexivity.
Qed.

Theorem staged_keeps_most_recent : forall cs : list container,
  stage_all cs [] = skipn (length cs - N.to_nat QueueStagedSize) cs.
Proof.
  intros cs. rewrite stage_all_gen by (cbn [length]; lia). reflexivity.
Qed.
Ltac projs := cbn [active tm_retransmit tm_keepalive tm_newhs tm_zero tm_persist attempts
  need_another sent_last_minute last_sent_hs pka staged kp_cur kp_next hs
  set_active set_tm_retransmit set_tm_keepalive set_tm_newhs set_tm_zero set_tm_persist
  set_attempts set_need_another set_sent_last_minute set_last_sent_hs set_pka set_staged
  set_kp_cur set_kp_next set_hs pending deadline t_mod t_del t_off kp_created kp_initiator
  fst snd] in *.

Lemma trav_pres now s :
  kp_cur (timersAnyAuthenticatedPacketTraversal now s) = kp_cur s /\
  staged (timersAnyAuthenticatedPacketTraversal now s) = staged s.
Proof. unfold timersAnyAuthenticatedPacketTraversal. destruct (_ && _); split; reflexivity. Qed.
Lemma sent_pres s :
  kp_cur (timersAnyAuthenticatedPacketSent s) = kp_cur s /\
  staged (timersAnyAuthenticatedPacketSent s) = staged s.
Proof. unfold timersAnyAuthenticatedPacketSent. destruct (active s); split; reflexivity. Qed.
Lemma datasent_pres now jn s :
  kp_cur (timersDataSent now jn s) = kp_cur s /\
  staged (timersDataSent now jn s) = staged s.
Proof. unfold timersDataSent. destruct (_ && _); split; reflexivity. Qed.
Lemma recvd_pres s :
  kp_cur (timersAnyAuthenticatedPacketReceived s) = kp_cur s /\
  staged (timersAnyAuthenticatedPacketReceived s) = staged s.
Proof. unfold timersAnyAuthenticatedPacketReceived. destruct (active s); split; reflexivity. Qed.

Lemma seq_nokf now jr jn : forall cs s k,
  kp_cur s = Some k ->
  kp_initiator k && (RekeyAfterTime <? now - kp_created k) = false ->
  snd (sequentialSender now jr jn cs s) = map out_of_elem (concat cs) /\
  staged (fst (sequentialSender now jr jn cs s)) = staged s /\
  kp_cur (fst (sequentialSender now jr jn cs s)) = Some k.
Proof.
  induction cs as [|c cs IH]; intros s k Hk Hf.
  - cbn [sequentialSender concat map fst snd]. auto.
  - cbn [sequentialSender].
    set (s1 := timersAnyAuthenticatedPacketSent (timersAnyAuthenticatedPacketTraversal now s)).
    set (s2 := if existsb is_data c then timersDataSent now jn s1 else s1).
    assert (H1 : kp_cur s1 = Some k /\ staged s1 = staged s).
    { unfold s1. destruct (sent_pres (timersAnyAuthenticatedPacketTraversal now s)) as [-> ->].
      destruct (trav_pres now s) as [-> ->]. auto. }
    assert (H2 : kp_cur s2 = Some k /\ staged s2 = staged s).
    { unfold s2. destruct (existsb is_data c); [|exact H1].
      destruct (datasent_pres now jn s1) as [-> ->]. exact H1. }
    destruct H2 as [H2k H2s].
    unfold keepKeyFreshSending. rewrite H2k, Hf.
    destruct (IH s2 k H2k Hf) as (Ho & Hs & Hc).
    destruct (sequentialSender now jr jn cs s2) as [s3 o3]. cbn [fst snd] in *.
    subst o3. cbn [concat app]. rewrite map_app. split; [reflexivity|]. split; congruence.
Qed.
(* ---------- symbolic execution, call-by-value on literal states ---------- *)
Ltac pcbn := cbn beta iota delta [step_in e_t e_in e_jr e_jn
  active tm_retransmit tm_keepalive tm_newhs tm_zero tm_persist attempts
  need_another sent_last_minute last_sent_hs pka staged kp_cur kp_next hs
  set_active set_tm_retransmit set_tm_keepalive set_tm_newhs set_tm_zero set_tm_persist
  set_attempts set_need_another set_sent_last_minute set_last_sent_hs set_pka set_staged
  set_kp_cur set_kp_next set_hs pending deadline t_mod t_del t_off kp_created kp_initiator
  get_timer set_timer fst snd negb andb orb app map existsb is_data out_of_elem].

Lemma trav_eq now s :
  timersAnyAuthenticatedPacketTraversal now s =
  set_tm_persist s (if (0 <? pka s) && active s then t_mod now (pka s * sec) else tm_persist s).
Proof. destruct s. unfold timersAnyAuthenticatedPacketTraversal. pcbn. destruct (_ && _); reflexivity. Qed.
Lemma datasent_eq now jn s :
  timersDataSent now jn s =
  set_tm_newhs s (if active s && negb (pending (tm_newhs s))
                  then t_mod now (KeepaliveTimeout + RekeyTimeout + ms * jn) else tm_newhs s).
Proof. destruct s. unfold timersDataSent. pcbn. destruct (_ && _); reflexivity. Qed.
Lemma datarecv_eq now s :
  timersDataReceived now s =
  set_need_another
    (set_tm_keepalive s (if active s && negb (pending (tm_keepalive s))
                         then t_mod now KeepaliveTimeout else tm_keepalive s))
    (if active s && pending (tm_keepalive s) then true else need_another s).
Proof.
  destruct s as [a tr tk tn tz tp att na slm lsh p q kc kn h]. unfold timersDataReceived. pcbn.
  destruct a; [|reflexivity]. destruct tk as [[|] ?]; reflexivity.
Qed.

Ltac is_mk s := lazymatch s with Build_st _ _ _ _ _ _ _ _ _ _ _ _ _ _ _ => idtac end.
Ltac hook_eq :=
  match goal with
  | |- context [timersAnyAuthenticatedPacketTraversal ?n ?s] => is_mk s; rewrite (trav_eq n s)
  | |- context [timersDataSent ?n ?j ?s] => is_mk s; rewrite (datasent_eq n j s)
  | |- context [timersDataReceived ?n ?s] => is_mk s; rewrite (datarecv_eq n s)
  end.
Ltac nf_state t :=
  eval cbv beta iota zeta delta [
    timersAnyAuthenticatedPacketSent timersAnyAuthenticatedPacketReceived timersHandshakeInitiated
    timersHandshakeComplete timersSessionDerived flushStagedPackets
    set_active set_tm_retransmit set_tm_keepalive set_tm_newhs set_tm_zero
    set_tm_persist set_attempts set_need_another set_sent_last_minute set_last_sent_hs set_pka set_staged
    set_kp_cur set_kp_next set_hs
    active tm_retransmit tm_keepalive tm_newhs tm_zero tm_persist attempts
    need_another sent_last_minute last_sent_hs pka staged kp_cur kp_next hs] in t.
Ltac norm_at t := let r := nf_state t in is_mk r; change t with r.
Ltac is_setter f := lazymatch f with
  | set_active => idtac | set_tm_retransmit => idtac | set_tm_keepalive => idtac | set_tm_newhs => idtac
  | set_tm_zero => idtac | set_tm_persist => idtac | set_attempts => idtac | set_need_another => idtac
  | set_sent_last_minute => idtac | set_last_sent_hs => idtac | set_pka => idtac | set_staged => idtac
  | set_kp_cur => idtac | set_kp_next => idtac | set_hs => idtac end.
Ltac norm1 :=
  match goal with
  | |- context [?f ?s ?v] => is_mk s; is_setter f; norm_at (f s v)
  | |- context [timersAnyAuthenticatedPacketSent ?s] => is_mk s; norm_at (timersAnyAuthenticatedPacketSent s)
  | |- context [timersAnyAuthenticatedPacketReceived ?s] => is_mk s; norm_at (timersAnyAuthenticatedPacketReceived s)
  | |- context [timersHandshakeInitiated ?a ?b ?s] => is_mk s; norm_at (timersHandshakeInitiated a b s)
  | |- context [timersHandshakeComplete ?s] => is_mk s; norm_at (timersHandshakeComplete s)
  | |- context [timersSessionDerived ?a ?s] => is_mk s; norm_at (timersSessionDerived a s)
  | |- context [flushStagedPackets ?s] => is_mk s; norm_at (flushStagedPackets s)
  end.
Ltac zeta_lit :=
  match goal with
  | |- context [let x := ?v in @?b x] => is_mk v;
      let b' := eval cbv beta in (b v) in change (let x := v in b x) with b'
  end.

Ltac lia' := consts; lia.
Ltac dec_test :=
  match goal with
  | |- context [N.ltb ?a ?b] =>
      first [ rewrite (proj2 (N.ltb_lt a b)) by lia' | rewrite (proj2 (N.ltb_ge a b)) by lia' ]
  | |- context [N.leb ?a ?b] =>
      first [ rewrite (proj2 (N.leb_le a b)) by lia' | rewrite (proj2 (N.leb_gt a b)) by lia' ]
  | |- context [N.eqb ?a ?b] =>
      first [ rewrite (proj2 (N.eqb_eq a b)) by lia' | rewrite (proj2 (N.eqb_neq a b)) by lia' ]
  end.
Ltac andb_s := first [ rewrite andb_false_r | rewrite andb_true_r ].
Ltac unf_ctl := first
  [ progress unfold step | progress unfold mkev | progress unfold start | progress unfold tunRead
  | progress unfold recvResponse | progress unfold recvInitiation | progress unfold recvTransport
  | progress unfold fire
  | progress unfold expiredRetransmitHandshake | progress unfold expiredSendKeepalive
  | progress unfold expiredNewHandshake | progress unfold expiredZeroKeyMaterial
  | progress unfold expiredPersistentKeepalive
  | progress unfold sendKeepalive | progress unfold sendStagedPackets
  | progress unfold stagedSync | progress unfold stageKeepalive
  | progress unfold keepKeyFreshSending | progress unfold keepKeyFreshReceiving
  | progress unfold sendHandshakeInitiation | progress unfold init_st ].
Ltac seq_lit :=
  match goal with
  | |- context [sequentialSender _ _ _ [] _] => cbn [sequentialSender]
  | |- context [sequentialSender _ _ _ [_] _] => cbn [sequentialSender]
  end.
Lemma stage_nil c : stagePackets c [] = [c].
Proof. reflexivity. Qed.
Ltac go1 := first [ rewrite stage_nil | norm1 | hook_eq | zeta_lit | progress pcbn | dec_test | andb_s | seq_lit | unf_ctl ].
Ltac go := repeat go1.
Ltac use_seq_nokf k :=
  match goal with |- context [sequentialSender ?a ?b ?c ?cs ?S] =>
    let A := fresh "A" in let B := fresh "B" in let C := fresh "C" in
    destruct (seq_nokf a b c cs S k) as (A & B & C);
    [ reflexivity
    | pcbn; try rewrite N.sub_diag; try dec_test; rewrite ?andb_false_r; reflexivity
    | destruct (sequentialSender a b c cs S) as [?s3 ?o3]; cbn [fst snd] in A, B, C ]
  end.

Theorem staged_flushed_oldest_first_on_completion : forall s t j,
  active s = true -> hs s = hsInitiationCreated ->
  let r := step s (mkev t IResp j) in
  snd r = (match staged s with [] => [OKeepalive] | q => map out_of_elem (concat q) end) /\
  staged (fst r) = [].
Proof.
  intros s t j Ha Hh.
  destruct s as [a tr tk tn tz tp att na slm lsh p q kc kn h].
  cbn [active hs staged] in *. subst a h. cbv zeta. destruct q as [|c q]; go.
  all: try use_seq_nokf {| kp_created := t; kp_initiator := true |}.
  all: cbn [fst snd app]; subst; pcbn; split; first [reflexivity|assumption].
Qed.

Theorem staged_flushed_on_confirmation : forall s t j k,
  active s = true -> kp_next s = Some k -> kp_created k <= t -> t - kp_created k <= RekeyAfterTime ->
  let r := step s (mkev t (IRecv None) j) in
  snd r = map out_of_elem (concat (staged s)) /\ staged (fst r) = [].
Proof.
  intros s t j k Ha Hk Hc Hr.
  destruct s as [a tr tk tn tz tp att na slm lsh p q kc kn h].
  destruct k as [kt ki].
  cbn [active kp_next kp_created staged] in *. subst a kn. cbv zeta. destruct q as [|c q]; go.
  all: try use_seq_nokf {| kp_created := kt; kp_initiator := ki |}.
  all: cbn [fst snd app]; subst; rewrite ?app_nil_r; split; first [reflexivity|assumption].
Qed.
(* ---------- idle ---------- *)
Lemma idle_fire f js T s k d :
  next_due s = Some (k, d) -> d <= T ->
  idle (S f) js T s =
    (let '(s1, o) := fire d (fst (hd (0, 0) js)) (snd (hd (0, 0) js)) k s in
     let '(s2, os) := idle f (tl js) T s1 in (s2, map (pair d) o ++ os)).
Proof. intros H1 H2. cbn [idle]. rewrite H1, (proj2 (N.leb_le d T) H2). reflexivity. Qed.
Lemma idle_late f js T s k d : next_due s = Some (k, d) -> T < d -> idle f js T s = (s, []).
Proof. intros H1 H2. destruct f; cbn [idle]; [reflexivity|]. rewrite H1, (proj2 (N.leb_gt d T) H2). reflexivity. Qed.
Lemma idle_none f js T s : next_due s = None -> idle f js T s = (s, []).
Proof. intros H1. destruct f; cbn [idle]; [reflexivity|]. rewrite H1. reflexivity. Qed.

Lemma earliest_sound s : forall ks best k d,
  (forall k0 d0, best = Some (k0, d0) -> pending (get_timer s k0) = true /\ d0 = deadline (get_timer s k0)) ->
  earliest s ks best = Some (k, d) -> pending (get_timer s k) = true /\ d = deadline (get_timer s k).
Proof.
  induction ks as [|a ks IH]; intros best k d Hb He; cbn [earliest] in He.
  - apply Hb. exact He.
  - refine (IH _ _ _ _ He). clear He. intros k0 d0 E.
    destruct (pending (get_timer s a)) eqn:P; [|apply Hb; exact E].
    destruct best as [[kb db]|].
    + destruct (deadline (get_timer s a) <? db); [|apply Hb; exact E].
      inversion E; subst. auto.
    + inversion E; subst. auto.
Qed.
Lemma next_due_sound s k d :
  next_due s = Some (k, d) -> pending (get_timer s k) = true /\ d = deadline (get_timer s k).
Proof. apply earliest_sound. intros ? ? E. discriminate E. Qed.

Lemma idle_quiet f js T s :
  (forall k, pending (get_timer s k) = true -> T < deadline (get_timer s k)) -> idle f js T s = (s, []).
Proof.
  intros H. destruct (next_due s) as [[k d]|] eqn:E; [|apply idle_none; exact E].
  apply (idle_late f js T s k d E). destruct (next_due_sound s k d E) as [Hp ->]. apply H, Hp.
Qed.

Lemma fire_persist0 d jr jn s :
  pending (tm_persist s) = true -> pka s = 0 ->
  fire d jr jn TPersist s = (set_tm_persist s (t_del (tm_persist s)), []).
Proof.
  intros Hp H0. unfold fire. cbn [get_timer set_timer]. rewrite Hp. cbn [negb].
  unfold expiredPersistentKeepalive. cbn [pka set_tm_persist]. rewrite H0. reflexivity.
Qed.

Lemma idle_only_persist0 f js T s :
  pka s = 0 ->
  (forall k, k <> TPersist -> pending (get_timer s k) = true -> T < deadline (get_timer s k)) ->
  snd (idle f js T s) = [].
Proof.
  intros H0 H. destruct f as [|f]; [reflexivity|].
  destruct (next_due s) as [[k d]|] eqn:E; [|rewrite (idle_none _ _ _ _ E); reflexivity].
  destruct (N.le_gt_cases d T) as [Hle|Hgt]; [|rewrite (idle_late _ _ _ _ _ _ E Hgt); reflexivity].
  destruct (next_due_sound s k d E) as [Hp Hd].
  assert (k = TPersist) as ->.
  { destruct k; try reflexivity; exfalso;
      match type of Hp with pending (get_timer _ ?k) = true =>
        assert (Hx : T < deadline (get_timer s k)) by (apply H; [discriminate|exact Hp]) end; lia. }
  rewrite (idle_fire _ _ _ _ _ _ E Hle). cbn [get_timer] in Hp.
  rewrite (fire_persist0 _ _ _ _ Hp H0).
  rewrite idle_quiet; [reflexivity|].
  intros k Hk. destruct k; cbn [get_timer set_tm_persist tm_retransmit tm_keepalive tm_newhs tm_zero tm_persist t_del pending] in *;
    try discriminate;
    (first [apply (H TRetransmit) | apply (H TKeepalive) | apply (H TNewHs) | apply (H TZero)]; [discriminate|exact Hk]).
Qed.

Ltac idle1 :=
  match goal with
  | |- context [idle (S ?f) ?js ?T ?s] => is_mk s;
      let ND := fresh "ND" in
      eassert (ND : next_due s = _) by (unfold next_due, all_tids; cbn [earliest]; go; reflexivity);
      lazymatch type of ND with
      | _ = Some (?k, ?d) =>
          first [ rewrite (idle_fire f js T s k d ND) by lia'
                | rewrite (idle_late (S f) js T s k d ND) by lia' ]
      | _ = None => rewrite (idle_none (S f) js T s ND)
      end; clear ND
  end.
Ltac eval_step :=
  match goal with
  | |- context [step ?s ?e] =>
      let E := fresh "E" in
      eassert (E : step s e = _) by (go; reflexivity); rewrite E; clear E
  end.

Ltac fin_quiet :=
  match goal with
  | |- context [idle ?f ?js ?T ?s] =>
      let Q := fresh "Q" in
      assert (Q : snd (idle f js T s) = [])
        by (apply idle_only_persist0; [reflexivity|];
            let k := fresh "k" in let Hk := fresh "Hk" in
            intros k Hk; destruct k; try congruence; pcbn; intros; try discriminate; lia');
      destruct (idle f js T s) as [? ?]; cbn [fst snd] in *; subst; reflexivity
  end.

Theorem keepalive_after_10s_receive_only : forall s k t id j js T fuel,
  active s = true -> pka s = 0 -> staged s = [] -> kp_cur s = Some k -> kp_next s = None ->
  pending (tm_retransmit s) = false -> pending (tm_keepalive s) = false -> need_another s = false ->
  (pending (tm_zero s) = true -> T < deadline (tm_zero s)) ->
  kp_created k <= t -> t + KeepaliveTimeout - kp_created k <= RekeyAfterTime ->
  t + KeepaliveTimeout <= T -> (2 <= fuel)%nat ->
  let r1 := step s (mkev t (IRecv (Some id)) j) in
  let r2 := idle fuel js T (fst r1) in
  snd r1 = [OTun id] /\ snd r2 = [(t + KeepaliveTimeout, OKeepalive)].
Proof.
  intros s k t id j js T fuel Ha Hp Hs Hk Hn Hr Hka Hna Hz Hc Hrk HT Hf.
  destruct s as [a tr tk tn tz tp att na slm lsh p q kc kn h].
  destruct k as [kt ki]. destruct tr as [pr dr], tk as [pk dk], tp as [pp dp], tz as [pz dz].
  cbn [active pka staged kp_cur kp_next tm_retransmit tm_keepalive tm_zero need_another pending deadline kp_created] in *.
  subst a p q kc kn pr pk na. cbv zeta. destruct slm.
  all: eval_step; cbn [fst snd]; split; [reflexivity|].
  all: destruct fuel as [|[|f]]; [lia|lia|].
  all: destruct pz; [specialize (Hz eq_refl)|clear Hz].
  all: (destruct pp; [destruct (N.lt_ge_cases dp (t + KeepaliveTimeout))|]).
  all: repeat (idle1; go).

  all: first [reflexivity | fin_quiet].
Qed.
Theorem new_handshake_after_15s_unanswered_send : forall s k t ids j js T fuel,
  active s = true -> pka s = 0 -> staged s = [] -> kp_cur s = Some k ->
  pending (tm_retransmit s) = false -> pending (tm_newhs s) = false ->
  (pending (tm_zero s) = true -> T < deadline (tm_zero s)) ->
  ids <> [] -> jit_ok j ->
  kp_created k <= t -> t - kp_created k <= RekeyAfterTime -> last_sent_hs s <= t ->
  let tn := t + KeepaliveTimeout + RekeyTimeout + ms * snd j in
  tn <= T -> T < tn + RekeyTimeout -> (2 <= fuel)%nat ->
  let r1 := step s (mkev t (ITun ids) j) in
  let r2 := idle fuel js T (fst r1) in
  snd r1 = map OData ids /\ snd r2 = [(tn, OInit)].
Proof.
  intros s k t ids j js T fuel Ha Hp Hs Hk Hr Hnh Hz Hids Hj Hc Hrk Hl.
  destruct s as [a tr tk tn0 tz tp att na slm lsh p q kc kn h].
  destruct k as [kt ki]. destruct tr as [pr dr], tn0 as [pn dn], tp as [pp dp], tz as [pz dz].
  cbn [active pka staged kp_cur kp_next tm_retransmit tm_newhs tm_zero last_sent_hs pending deadline kp_created] in *.
  subst a p q kc pr pn. cbv zeta. intros HT1 HT2 Hf.
  destruct ids as [|i0 ids]; [congruence|].
  assert (Hm : forall l, map out_of_elem (map Pkt l) = map OData l)
    by (intros l; rewrite map_map; reflexivity).
  eval_step; cbn [fst snd]. split.
  { rewrite ?app_nil_r. rewrite Hm. reflexivity. }
  destruct fuel as [|[|f]]; [lia|lia|].
  destruct pz; [specialize (Hz eq_refl)|clear Hz].
  all: (destruct pp; [destruct (N.lt_ge_cases dp (t + KeepaliveTimeout + RekeyTimeout + ms * snd j))|]).
  all: repeat (idle1; go).

  all: rewrite ?N.add_assoc; first [reflexivity | fin_quiet].
Qed.
(* ---------- retransmission schedule ---------- *)
Definition toff : timer := {| pending := false; deadline := 0 |}.
(* after the i-th retry: last initiation at t, retransmit timer due at d *)
Definition rstate (q : list container) (i t d : N) : st :=
  {| active := true; tm_retransmit := {| pending := true; deadline := d |};
     tm_keepalive := toff; tm_newhs := toff; tm_zero := toff; tm_persist := toff;
     attempts := i; need_another := false; sent_last_minute := false; last_sent_hs := t;
     pka := 0; staged := q; kp_cur := None; kp_next := None; hs := hsInitiationCreated |}.
(* after giving up at time g *)
Definition gstate (i t g : N) : st :=
  {| active := true; tm_retransmit := {| pending := false; deadline := g |};
     tm_keepalive := toff; tm_newhs := toff;
     tm_zero := {| pending := true; deadline := g + RejectAfterTime * 3 |}; tm_persist := toff;
     attempts := i; need_another := false; sent_last_minute := false; last_sent_hs := t;
     pka := 0; staged := []; kp_cur := None; kp_next := None; hs := hsInitiationCreated |}.

Lemma next_due_rstate q i t d : next_due (rstate q i t d) = Some (TRetransmit, d).
Proof. reflexivity. Qed.
Lemma next_due_gstate i t g : next_due (gstate i t g) = Some (TZero, g + RejectAfterTime * 3).
Proof. reflexivity. Qed.

Lemma fire_retry q i t d jr jn :
  i <= 18 -> t + RekeyTimeout <= d ->
  fire d jr jn TRetransmit (rstate q i t d) = (rstate q (i + 1) d (d + RekeyTimeout + ms * jr), [OInit]).
Proof.
  intros Hi Hd. unfold rstate, toff. go. unfold t_mod. rewrite N.add_assoc. reflexivity.
Qed.
Lemma fire_giveup q i t d jr jn :
  18 < i ->
  fire d jr jn TRetransmit (rstate q i t d) = (gstate i t d, []).
Proof.
  intros Hi. unfold rstate, gstate, toff. go. reflexivity.
Qed.

Lemma tx_nth_ge n t js i : Forall jit_ok js -> (i < n)%nat -> t <= nth i (tx_times n t js) 0.
Proof. intros Hj Hi. destruct (tx_nth_bounds n t js i Hj Hi) as [A _]. lia. Qed.

Lemma idle_retx q : forall n i t d js fuel T,
  Forall jit_ok js -> N.of_nat n + i = 19 -> t + RekeyTimeout <= d -> (n + 2 <= fuel)%nat ->
  let times := tx_times (S n) d js in
  let tg := nth n times 0 in
  tg <= T -> T < tg + RejectAfterTime * 3 ->
  snd (idle fuel js T (rstate q i t d)) = at_times (firstn n times) OInit /\
  exists L, L + RekeyTimeout <= tg /\ fst (idle fuel js T (rstate q i t d)) = gstate 19 L tg.
Proof.
  induction n as [|n IH]; intros i t d js fuel T Hj Hi Hd Hf times tg HT1 HT2.
  - cbn [tx_times nth] in times, tg. subst times tg. assert (i = 19) as -> by lia.
    destruct fuel as [|f]; [lia|].
    rewrite (idle_fire f js T _ _ _ (next_due_rstate q 19 t d) HT1).
    rewrite fire_giveup by lia.
    rewrite (idle_late f (tl js) T _ _ _ (next_due_gstate 19 t d) HT2).
    cbn [fst snd map app firstn at_times]. split; [reflexivity|]. exists t. split; [assumption|reflexivity].
  - destruct fuel as [|f]; [lia|].
    assert (Hd' : d <= T).
    { pose proof (tx_nth_ge (S (S n)) d js (S n) Hj ltac:(lia)). fold times in H. fold tg in H. lia. }
    rewrite (idle_fire f js T _ _ _ (next_due_rstate q i t d) Hd').
    rewrite fire_retry by lia.
    specialize (IH (i + 1) d (d + RekeyTimeout + ms * fst (hd (0, 0) js)) (tl js) f T
                  (jit_tl js Hj) ltac:(lia) ltac:(lia) ltac:(lia)).
    cbv zeta in IH.
    change (nth (S n) (tx_times (S (S n)) d js) 0)
      with (nth n (tx_times (S n) (d + RekeyTimeout + ms * fst (hd (0, 0) js)) (tl js)) 0) in tg.
    specialize (IH HT1 HT2). destruct IH as [IHo (L & HL & IHs)].
    destruct (idle f (tl js) T _) as [s2 os]. cbn [fst snd] in *. subst os.
    split.
    + subst times. cbn [tx_times firstn at_times map app]. reflexivity.
    + exists L. split; assumption.
Qed.
Lemma firstn_tx : forall n m t js, firstn n (tx_times (n + m) t js) = tx_times n t js.
Proof.
  induction n as [|n IH]; intros m t js; [reflexivity|].
  cbn [plus tx_times firstn]. rewrite IH. reflexivity.
Qed.
Lemma tx_S n t js : tx_times (S n) t js = t :: tx_times n (t + RekeyTimeout + ms * fst (hd (0, 0) js)) (tl js).
Proof. reflexivity. Qed.
Lemma tx_cons n t j js : tx_times (S n) t (j :: js) = t :: tx_times n (t + RekeyTimeout + ms * fst j) js.
Proof. reflexivity. Qed.
Lemma nth_S_cons {A} k (x : A) l d : nth (S k) (x :: l) d = nth k l d.
Proof. reflexivity. Qed.
Lemma tx_length : forall n t js, length (tx_times n t js) = n.
Proof. induction n as [|n IH]; intros t js; cbn [tx_times length]; [reflexivity|]. rewrite IH. reflexivity. Qed.

Definition sstate (ts : N) : st :=
  {| active := true; tm_retransmit := toff; tm_keepalive := toff; tm_newhs := toff; tm_zero := toff;
     tm_persist := toff; attempts := 0; need_another := false; sent_last_minute := false;
     last_sent_hs := ts - (RekeyTimeout + sec); pka := 0; staged := []; kp_cur := None; kp_next := None;
     hs := hsZeroed |}.
Lemma started_eq ts : started 0 ts = sstate ts.
Proof. unfold started. eval_step. reflexivity. Qed.

Lemma first_tun ts t0 ids j0 :
  RekeyTimeout + sec <= ts -> ts <= t0 ->
  step (started 0 ts) (mkev t0 (ITun ids) j0) =
  (rstate [map Pkt ids] 0 t0 (t0 + RekeyTimeout + ms * fst j0), [OInit]).
Proof.
  intros H1 H2. rewrite started_eq. unfold sstate, toff. go.
  unfold rstate, toff, t_mod. rewrite N.add_assoc. reflexivity.
Qed.

Theorem retransmit_schedule : forall ts t0 ids j0 js T fuel,
  RekeyTimeout + sec <= ts -> ts <= t0 -> jit_ok j0 -> Forall jit_ok js ->
  let s0 := started 0 ts in
  let r1 := step s0 (mkev t0 (ITun ids) j0) in
  let times := tx_times 20 t0 (j0 :: js) in
  let tg := nth 20 (tx_times 21 t0 (j0 :: js)) 0 in
  tg <= T -> T < tg + RejectAfterTime * 3 -> (21 <= fuel)%nat ->
  let r2 := idle fuel js T (fst r1) in
  snd r1 = [OInit] /\
  snd r2 = at_times (tl times) OInit /\
  length times = 20%nat /\
  staged (fst r2) = [] /\
  next_due (fst r2) = Some (TZero, tg + RejectAfterTime * 3) /\
  (forall t' ids' j', tg <= t' -> snd (step (fst r2) (mkev t' (ITun ids') j')) = [OInit]) /\
  (forall t' t'' j' j'', tg <= t' -> t' <= t'' -> t'' < t' + RekeyAfterTime ->
     let r3 := step (fst r2) (mkev t' IInit j') in
     snd r3 = [OResp] /\ snd (step (fst r3) (mkev t'' (IRecv None) j'')) = []).
Proof.
  intros ts t0 ids j0 js T fuel H1 H2 Hj0 Hjs s0 r1 times tg HT1 HT2 Hf r2.
  subst r2 r1 s0 tg times. rewrite (first_tun ts t0 ids j0 H1 H2).
  cbn [fst snd].
  rewrite (tx_cons 20 t0 j0 js) in *. rewrite (tx_cons 19 t0 j0 js) in *.
  rewrite (nth_S_cons 19) in *.
  remember (t0 + RekeyTimeout + ms * fst j0) as d0 eqn:Ed0.
  remember (nth 19 (tx_times 20 d0 js) 0) as tg eqn:Etg.
  assert (P1 : t0 + RekeyTimeout <= d0) by (subst d0; lia).
  clear Ed0.
  assert (P2 : (19 + 2 <= fuel)%nat) by lia.
  assert (P0 : N.of_nat 19 + 0 = 19) by reflexivity.
  pose proof (idle_retx [map Pkt ids] 19 0 t0 d0 js fuel T Hjs P0 P1 P2) as X.
  cbv zeta in X. rewrite <- Etg in X. specialize (X HT1 HT2).
  destruct X as [Ho (L & HL & Hs)].
  clear Etg.
  split; [reflexivity|]. split.
  { rewrite Ho. cbn [tl]. rewrite (firstn_tx 19 1). reflexivity. }
  split. { cbn [length]. rewrite tx_length. reflexivity. }
  rewrite Hs. split; [reflexivity|]. split; [apply next_due_gstate|].
  split.
  - intros t' ids' j' Ht'. unfold gstate, toff. go. reflexivity.
  - intros t' t'' j' j'' Ht' Ht'' Hlt. unfold gstate, toff. cbv zeta.
    match goal with |- context [step ?s ?e] => is_mk s;
      let E := fresh "E" in eassert (E : step s e = _) by (go; reflexivity); rewrite E; clear E end.
    cbn [fst snd]. split; [reflexivity|]. go. reflexivity.
Qed.
(* ---------- persistent keepalive ---------- *)
Lemma pk_ind : forall n dr dk dn pz dz att na slm lsh kn h kt ki p l js T fuel,
  0 < p -> (pz = true -> T < dz) -> kt <= l -> T - kt <= RekeyAfterTime ->
  l + N.of_nat n * (p * sec) <= T -> T < l + (N.of_nat n + 1) * (p * sec) -> (n < fuel)%nat ->
  snd (idle fuel js T
    {| active := true; tm_retransmit := {| pending := false; deadline := dr |};
       tm_keepalive := {| pending := false; deadline := dk |};
       tm_newhs := {| pending := false; deadline := dn |};
       tm_zero := {| pending := pz; deadline := dz |};
       tm_persist := {| pending := true; deadline := l + p * sec |};
       attempts := att; need_another := na; sent_last_minute := slm; last_sent_hs := lsh;
       pka := p; staged := []; kp_cur := Some {| kp_created := kt; kp_initiator := ki |};
       kp_next := kn; hs := h |}) =
  map (fun i => (l + N.of_nat i * (p * sec), OKeepalive)) (seq 1 n).
Proof.
  induction n as [|n IH]; intros dr dk dn pz dz att na slm lsh kn h kt ki p l js T fuel Hp Hz Hc Hr H1 H2 Hf.
  - rewrite idle_quiet; [reflexivity|].
    intros k; destruct k; pcbn; intros; try discriminate; first [ apply Hz; assumption | lia' ].
  - destruct fuel as [|f]; [lia|].
    rewrite Nat2N.inj_succ, N.mul_succ_l in H1. rewrite Nat2N.inj_succ in H2.
    assert (H3 : l + p * sec <= T) by lia.
    destruct pz; [specialize (Hz eq_refl)|clear Hz].
    all: idle1; go.
    all: cbv [t_del t_mod pending deadline].
    all: match goal with |- context [idle ?f ?js' ?T' ?S] =>
      let Q := fresh "Q" in
      assert (Q : snd (idle f js' T' S) =
                  map (fun i => (l + p * sec + N.of_nat i * (p * sec), OKeepalive)) (seq 1 n))
        by (apply IH; first [assumption | discriminate | lia']);
      destruct (idle f js' T' S) as [s2 os]; cbn [fst snd] in Q |- *; subst os end.
    all: cbn [seq map]; rewrite <- (seq_shift n 1), map_map; f_equal;
      [ f_equal; lia
      | apply map_ext; intros i; f_equal; rewrite (Nat2N.inj_succ i), N.mul_succ_l; lia ].
Qed.

Theorem persistent_keepalive_every_interval_of_silence : forall n s k p l js T fuel,
  active s = true -> pka s = p -> 0 < p -> staged s = [] -> kp_cur s = Some k ->
  pending (tm_retransmit s) = false -> pending (tm_keepalive s) = false ->
  pending (tm_newhs s) = false ->
  tm_persist s = {| pending := true; deadline := l + p * sec |} ->
  (pending (tm_zero s) = true -> T < deadline (tm_zero s)) ->
  kp_created k <= l -> T - kp_created k <= RekeyAfterTime ->
  l + N.of_nat n * (p * sec) <= T -> T < l + (N.of_nat n + 1) * (p * sec) -> (n < fuel)%nat ->
  snd (idle fuel js T s) = map (fun i => (l + N.of_nat i * (p * sec), OKeepalive)) (seq 1 n).
Proof.
  intros n s k p l js T fuel Ha Hp Hp0 Hs Hk Hr Hka Hnh Htp Hz Hc Hrk H1 H2 Hf.
  destruct s as [a tr tk tn tz tp att na slm lsh p' q kc kn h].
  destruct k as [kt ki]. destruct tr as [pr dr], tk as [pk dk], tn as [pn dn], tz as [pz dz].
  cbn [active pka staged kp_cur tm_retransmit tm_keepalive tm_newhs tm_zero tm_persist pending deadline kp_created] in *.
  subst a p' q kc pr pk pn tp.
  apply pk_ind; assumption.
Qed.
(* ---------- staged queue, end to end ---------- *)
Lemma stage_nonempty c q : stagePackets c q <> [].
Proof.
  unfold stagePackets. destruct (_ <? _); intro H; apply app_eq_nil in H; destruct H; discriminate.
Qed.
Lemma stage_all_nonempty : forall cs q, q <> [] -> stage_all cs q <> [].
Proof.
  unfold stage_all. induction cs as [|c cs IH]; intros q Hq; cbn [fold_left]; [exact Hq|].
  apply IH, stage_nonempty.
Qed.

Lemma tun_limited q t0 d0 t ids j :
  t0 <= t -> t < t0 + RekeyTimeout ->
  step (rstate q 0 t0 d0) (mkev t (ITun ids) j) = (rstate (stagePackets (map Pkt ids) q) 0 t0 d0, []).
Proof.
  intros H1 H2. unfold rstate, toff. go.
  destruct (stagePackets (map Pkt ids) q) eqn:E; [exfalso; exact (stage_nonempty _ _ E)|].
  go. reflexivity.
Qed.

Definition ev_of (p : N * list N * (N * N)) : ev := mkev (fst (fst p)) (ITun (snd (fst p))) (snd p).
Lemma run_rest t0 d0 : forall rest q,
  Forall (fun p => t0 <= fst (fst p) /\ fst (fst p) < t0 + RekeyTimeout) rest ->
  run step (rstate q 0 t0 d0) (map ev_of rest) =
  (rstate (stage_all (map (fun p => map Pkt (snd (fst p))) rest) q) 0 t0 d0, map (fun _ => []) rest).
Proof.
  induction rest as [|p rest IH]; intros q Hf; [reflexivity|].
  inversion Hf as [|? ? [Ha Hb] Hf']; subst.
  cbn [map run]. unfold ev_of at 1. rewrite (tun_limited q t0 d0 _ _ _ Ha Hb).
  rewrite (IH _ Hf'). reflexivity.
Qed.

Theorem staged_end_to_end : forall ts t0 c0 (rest : list (N * list N * (N * N))) j0 tr jr,
  RekeyTimeout + sec <= ts -> ts <= t0 ->
  Forall (fun p => t0 <= fst (fst p) /\ fst (fst p) < t0 + RekeyTimeout) rest ->
  let evs := mkev t0 (ITun c0) j0 :: map (fun p => mkev (fst (fst p)) (ITun (snd (fst p))) (snd p)) rest in
  let cs := c0 :: map (fun p => snd (fst p)) rest in
  outs step (started 0 ts) evs = [OInit] :: map (fun _ => []) rest /\
  snd (step (final step (started 0 ts) evs) (mkev tr IResp jr)) =
    map OData (concat (skipn (length cs - N.to_nat QueueStagedSize) cs)).
Proof.
  intros ts t0 c0 rest j0 tr jr H1 H2 Hf evs cs. subst evs.
  change (map (fun p => mkev (fst (fst p)) (ITun (snd (fst p))) (snd p)) rest) with (map ev_of rest).
  unfold outs, final. cbn [run]. rewrite (first_tun ts t0 c0 j0 H1 H2).
  rewrite (run_rest t0 _ rest _ Hf). cbn [fst snd]. split; [reflexivity|].
  set (Q := stage_all _ _).
  pose proof (staged_flushed_oldest_first_on_completion
                (rstate Q 0 t0 (t0 + RekeyTimeout + ms * fst j0)) tr jr eq_refl eq_refl) as [Ho _].
  cbv zeta in Ho. rewrite Ho. cbn [staged rstate].
  assert (HQ : Q <> []) by (apply stage_all_nonempty; discriminate).
  assert (EQ : Q = skipn (length cs - N.to_nat QueueStagedSize) (map (map Pkt) cs)).
  { subst Q cs.
    match goal with |- stage_all ?l [?c] = _ => change (stage_all l [c]) with (stage_all (c :: l) []) end.
    rewrite staged_keeps_most_recent. cbn [map length]. rewrite !map_length, map_map. reflexivity. }
  destruct Q as [|c l] eqn:E; [congruence|]. rewrite EQ.
  rewrite skipn_map, <- concat_map, map_map. reflexivity.
Qed.
(* ---------- retransmission, shorter horizon ---------- *)
Lemma tx_nth_indep : forall k m m' t js,
  (k < m)%nat -> (k < m')%nat -> nth k (tx_times m t js) 0 = nth k (tx_times m' t js) 0.
Proof.
  induction k as [|k IH]; intros m m' t js Hm Hm'; destruct m as [|m], m' as [|m']; try lia.
  - reflexivity.
  - rewrite !tx_S, !nth_S_cons. apply IH; lia.
Qed.

Lemma idle_retx_prefix q : forall n i t d js fuel T,
  Forall jit_ok js -> N.of_nat n + i <= 19 -> t + RekeyTimeout <= d -> (n < fuel)%nat ->
  nth n (t :: tx_times n d js) 0 <= T -> T < nth n (tx_times (S n) d js) 0 ->
  snd (idle fuel js T (rstate q i t d)) = at_times (tx_times n d js) OInit.
Proof.
  induction n as [|n IH]; intros i t d js fuel T Hj Hi Hd Hf HA HB.
  - rewrite tx_S in HB. cbn [nth] in HB.
    rewrite (idle_late fuel js T _ _ _ (next_due_rstate q i t d) HB). reflexivity.
  - destruct fuel as [|f]; [lia|].
    rewrite nth_S_cons in HA. rewrite (tx_S n) in HA.
    rewrite (tx_S (S n)), nth_S_cons in HB.
    assert (Hd' : d <= T).
    { pose proof (tx_nth_ge (S n) d js n Hj ltac:(lia)) as G. rewrite (tx_S n) in G. lia. }
    rewrite (idle_fire f js T _ _ _ (next_due_rstate q i t d) Hd').
    rewrite fire_retry by lia.
    specialize (IH (i + 1) d (d + RekeyTimeout + ms * fst (hd (0, 0) js)) (tl js) f T
                  (jit_tl js Hj) ltac:(lia) ltac:(lia) ltac:(lia) HA HB).
    destruct (idle f (tl js) T _) as [s2 os]. cbn [fst snd] in *. subst os.
    rewrite (tx_S n). reflexivity.
Qed.

Theorem retransmit_prefix : forall ts t0 ids j0 js T fuel n,
  RekeyTimeout + sec <= ts -> ts <= t0 -> jit_ok j0 -> Forall jit_ok js ->
  let r1 := step (started 0 ts) (mkev t0 (ITun ids) j0) in
  let times := tx_times 21 t0 (j0 :: js) in
  (n <= 19)%nat -> nth n times 0 <= T -> T < nth (S n) times 0 -> (21 <= fuel)%nat ->
  snd (idle fuel js T (fst r1)) = at_times (firstn n (tl times)) OInit.
Proof.
  intros ts t0 ids j0 js T fuel n H1 H2 Hj0 Hjs r1 times Hn HA HB Hf.
  subst r1 times. rewrite (first_tun ts t0 ids j0 H1 H2). cbn [fst].
  rewrite (tx_cons 20 t0 j0 js) in *. rewrite nth_S_cons in HB.
  remember (t0 + RekeyTimeout + ms * fst j0) as d0 eqn:Ed0.
  assert (P1 : t0 + RekeyTimeout <= d0) by (subst d0; lia). clear Ed0.
  cbn [tl].
  assert (E1 : firstn n (tx_times 20 d0 js) = tx_times n d0 js).
  { replace 20%nat with (n + (20 - n))%nat by lia. apply firstn_tx. }
  rewrite E1.
  apply idle_retx_prefix; try assumption; try lia.
  - destruct n as [|k]; [exact HA|].
    rewrite nth_S_cons in HA |- *. rewrite (tx_nth_indep k (S k) 20) by lia. exact HA.
  - rewrite (tx_nth_indep n (S n) 20) by lia. exact HB.
Qed.

(* ---- fault: the bind refuses an initiation; restart (device Down/Up) ---- *)

Lemma step_fail_retry q i t d j :
  i <= 18 -> t + RekeyTimeout <= d ->
  step (rstate q i t d) (mkev d (IFail (IFire TRetransmit)) j) =
  (rstate q (i + 1) d (d + RekeyTimeout + ms * fst j), [OErr 0]).
Proof.
  intros Hi Hd. unfold step, mkev. cbn [e_t e_in e_jr e_jn step_in].
  rewrite (fire_retry q i t d (fst j) (snd j) Hi Hd). reflexivity.
Qed.

(* The retransmission whose Send fails is an attempt like any other: the next
   one follows 5 s + jitter after it. *)
Theorem retransmit_after_send_error : forall ts t0 ids j0 j1 js T fuel,
  RekeyTimeout + sec <= ts -> ts <= t0 -> jit_ok j0 -> jit_ok j1 ->
  let r1 := step (started 0 ts) (mkev t0 (ITun ids) j0) in
  let d1 := t0 + RekeyTimeout + ms * fst j0 in
  let r2 := step (fst r1) (mkev d1 (IFail (IFire TRetransmit)) j1) in
  let d2 := d1 + RekeyTimeout + ms * fst j1 in
  d2 <= T -> T < d2 + RekeyTimeout -> (2 <= fuel)%nat ->
  snd r1 = [OInit] /\ snd r2 = [OErr 0] /\ snd (idle fuel js T (fst r2)) = [(d2, OInit)].
Proof.
  intros ts t0 ids j0 j1 js T fuel H1 H2 Hj0 Hj1 r1 d1 r2 d2 HA HB Hf.
  subst r1 r2 d2 d1. rewrite (first_tun ts t0 ids j0 H1 H2). cbn [fst snd].
  rewrite step_fail_retry by lia. cbn [fst snd].
  refine (conj eq_refl (conj eq_refl _)).
  destruct fuel as [|f]; [lia|]. destruct f as [|f]; [lia|].
  rewrite (idle_fire _ js T _ _ _ (next_due_rstate _ _ _ _) HA).
  rewrite fire_retry by lia.
  rewrite (idle_late _ (tl js) T _ _ _ (next_due_rstate _ _ _ _)) by lia.
  reflexivity.
Qed.

Lemma stop_eq a tr tk tn tz tp att na slm lsh p q kc kn h t j :
  fst (step {| active := a; tm_retransmit := tr; tm_keepalive := tk; tm_newhs := tn; tm_zero := tz;
               tm_persist := tp; attempts := att; need_another := na; sent_last_minute := slm;
               last_sent_hs := lsh; pka := p; staged := q; kp_cur := kc; kp_next := kn; hs := h |}
            (mkev t IStop j)) =
  {| active := false; tm_retransmit := t_del tr; tm_keepalive := t_del tk; tm_newhs := t_del tn;
     tm_zero := t_del tz; tm_persist := t_del tp; attempts := att; need_another := na;
     sent_last_minute := slm; last_sent_hs := lsh; pka := p; staged := []; kp_cur := None;
     kp_next := None; hs := hsZeroed |}.
Proof. reflexivity. Qed.

(* Device Down then Up at t' (any earlier history, any lastSentHandshake): with a
   persistent keepalive the restarted peer initiates at once ... *)
Theorem restart_with_persistent_keepalive_initiates : forall s t t' j j',
  0 < pka s -> RekeyTimeout + sec <= t' ->
  snd (step (fst (step s (mkev t IStop j))) (mkev t' IStart j')) = [OInit].
Proof.
  intros s t t' j j' Hp Ht.
  destruct s as [a tr tk tn tz tp att na slm lsh p q kc kn h].
  cbn [pka] in Hp. rewrite stop_eq. go.
  all: try reflexivity; try lia'.
Qed.

(* ... and without one, the first TUN batch after the restart does. *)
Theorem restart_then_traffic_initiates : forall s t t' t'' j j' j'' ids,
  pka s = 0 -> RekeyTimeout + sec <= t' -> t' <= t'' ->
  let r2 := step (fst (step s (mkev t IStop j))) (mkev t' IStart j') in
  snd r2 = [] /\ snd (step (fst r2) (mkev t'' (ITun ids) j'')) = [OInit].
Proof.
  intros s t t' t'' j j' j'' ids Hp Ht Ht' r2. subst r2.
  destruct s as [a tr tk tn tz tp att na slm lsh p q kc kn h].
  cbn [pka] in Hp. subst p. rewrite stop_eq. go.
  all: try (split; reflexivity); try lia'.
Qed.

(* Giving up discards what was queued in EVERY state: whether or not the
   zero-key-material timer of an earlier session is still pending. *)
Theorem giveup_always_discards : forall s d jr jn,
  pending (tm_retransmit s) = true -> MaxTimerHandshakes < attempts s ->
  snd (fire d jr jn TRetransmit s) = [] /\ staged (fst (fire d jr jn TRetransmit s)) = [] /\
  pending (tm_zero (fst (fire d jr jn TRetransmit s))) = active s || pending (tm_zero s).
Proof.
  intros s d jr jn Hp Ha.
  destruct s as [a [ptr dtr] tk tn [pz dz] tp att na slm lsh p q kc kn h].
  cbn [tm_retransmit pending attempts] in Hp, Ha. subst ptr.
  unfold fire, expiredRetransmitHandshake, flushStagedPackets.
  cbn [get_timer set_timer tm_retransmit pending negb].
  assert (E : (MaxTimerHandshakes <? att) = true) by (apply N.ltb_lt; exact Ha).
  destruct a, pz; pcbn; rewrite E; pcbn; refine (conj eq_refl (conj eq_refl eq_refl)).
Qed.

(* A peer created with a persistent keepalive by a UAPI set operation on a
   device that is already up initiates at once (handlePostConfig starts the
   peer BEFORE SendKeepalive, which needs a running peer). *)
Theorem configured_with_persistent_keepalive_initiates : forall p t j,
  0 < p -> RekeyTimeout + sec <= t ->
  snd (step (init_st p) (mkev t IConfigure j)) = [OInit].
Proof.
  intros p t j Hp Ht. unfold configure || idtac.
  unfold step, mkev. cbn [e_t e_in e_jr e_jn step_in fst snd]. unfold configure. go.
  all: try reflexivity; try lia'.
Qed.

(* A fresh (non-retry) initiation while the retransmit timer of an earlier one
   is still pending moves that timer: the next retransmission is due 5 s +
   jitter after the FRESH initiation (timersHandshakeInitiated re-arms
   unconditionally).  The fresh initiation is let through the 5 s rate limit
   here by ageing lastSentHandshake (hook event IShiftHs). *)
Theorem fresh_initiation_rearms_retransmit : forall q i t d sh t1 ids j js T fuel,
  t <= t1 -> t1 + sh >= t + RekeyTimeout -> sh <= t -> jit_ok j ->
  let s1 := fst (step (rstate q i t d) (mkev t1 (IShiftHs sh) (0, 0))) in
  let r2 := step s1 (mkev t1 (ITun ids) j) in
  let d2 := t1 + RekeyTimeout + ms * fst j in
  d2 <= T -> T < d2 + RekeyTimeout -> (2 <= fuel)%nat ->
  snd r2 = [OInit] /\ next_due (fst r2) = Some (TRetransmit, d2) /\
  snd (idle fuel js T (fst r2)) = [(d2, OInit)].
Proof.
  intros q i t d sh t1 ids j js T fuel H1 H2 H3 Hj s1 r2 d2 HA HB Hf.
  assert (E : r2 = (rstate (stagePackets (map Pkt ids) q) 0 t1 d2, [OInit])).
  { subst r2 s1 d2. unfold rstate, toff. go.
    all: try lia'.
    destruct (stagePackets (map Pkt ids) q) eqn:Eq; [exfalso; exact (stage_nonempty _ _ Eq)|].
    go. all: try lia'. unfold t_mod. rewrite N.add_assoc. reflexivity. }
  rewrite E. cbn [fst snd]. refine (conj eq_refl (conj (next_due_rstate _ _ _ _) _)).
  destruct fuel as [|f]; [lia|]. destruct f as [|f]; [lia|].
  rewrite (idle_fire _ js T _ _ _ (next_due_rstate _ _ _ _) HA).
  rewrite fire_retry by lia.
  rewrite (idle_late _ (tl js) T _ _ _ (next_due_rstate _ _ _ _)) by lia.
  reflexivity.
Qed.

(* Second episode after a give-up: new traffic resets the attempt counter
   (SendStagedPackets calls SendHandshakeInitiation(false)), so the new
   initiation is retransmitted again instead of being given up at its first
   expiry. *)
Theorem second_episode_after_giveup : forall i t g t' ids j j2,
  t + RekeyTimeout <= t' -> jit_ok j ->
  t' + RekeyTimeout + ms * fst j < g + RejectAfterTime * 3 ->
  let r := step (gstate i t g) (mkev t' (ITun ids) j) in
  let d := t' + RekeyTimeout + ms * fst j in
  snd r = [OInit] /\ attempts (fst r) = 0 /\ next_due (fst r) = Some (TRetransmit, d) /\
  snd (fire d (fst j2) (snd j2) TRetransmit (fst r)) = [OInit] /\
  attempts (fst (fire d (fst j2) (snd j2) TRetransmit (fst r))) = 1.
Proof.
  intros i t g t' ids j j2 H1 Hj H2 r d.
  assert (E : r = ({| active := true; tm_retransmit := {| pending := true; deadline := d |};
                      tm_keepalive := toff; tm_newhs := toff;
                      tm_zero := {| pending := true; deadline := g + RejectAfterTime * 3 |};
                      tm_persist := toff; attempts := 0; need_another := false;
                      sent_last_minute := false; last_sent_hs := t'; pka := 0;
                      staged := [map Pkt ids]; kp_cur := None; kp_next := None;
                      hs := hsInitiationCreated |}, [OInit])).
  { subst r d. unfold gstate, toff. go. all: try lia'.
    unfold t_mod. rewrite N.add_assoc. reflexivity. }
  rewrite E. cbn [fst snd attempts].
  refine (conj eq_refl (conj eq_refl (conj _ _))).
  - unfold next_due, all_tids, toff. cbn [earliest get_timer tm_retransmit tm_keepalive tm_newhs
      tm_persist tm_zero pending deadline].
    rewrite (proj2 (N.ltb_ge _ _)) by (subst d; lia). reflexivity.
  - unfold toff. go. all: try lia'. all: split; reflexivity.
Qed.

(* Every kind of authenticated arrival deletes the new-handshake timer: a
   handshake initiation of the peer (in any state), and — with nothing staged,
   so that no data is sent in the same step — a transport message (data or
   keepalive) and the response to the pending initiation. *)
Theorem initiation_cancels_new_handshake : forall s t j,
  active s = true -> pending (tm_newhs (fst (step s (mkev t IInit j)))) = false.
Proof.
  intros s t j Ha. destruct s as [a tr tk tn tz tp att na slm lsh p q kc kn h].
  cbn [active] in Ha. subst a. unfold recvInitiation || idtac.
  unfold step, mkev. cbn [e_t e_in e_jr e_jn step_in fst snd]. unfold recvInitiation. go.
  all: reflexivity.
Qed.

Theorem transport_cancels_new_handshake : forall s t j d k,
  active s = true -> staged s = [] -> kp_next s = None -> kp_cur s = Some k ->
  pending (tm_newhs (fst (step s (mkev t (IRecv d) j)))) = false.
Proof.
  intros s t j d k Ha Hq Hn Hc. destruct s as [a tr tk tn tz tp att na slm lsh p q kc kn h].
  cbn [active staged kp_next kp_cur] in *. subst a q kn kc.
  unfold step, mkev. cbn [e_t e_in e_jr e_jn step_in fst snd]. unfold recvTransport.
  destruct d; destruct slm; go.
  all: try reflexivity.
  all: repeat (match goal with |- context [if ?b then _ else _] => destruct b end; go); try reflexivity.
Qed.

Theorem response_cancels_new_handshake : forall s t j,
  active s = true -> staged s = [] -> hs s = hsInitiationCreated ->
  pending (tm_newhs (fst (step s (mkev t IResp j)))) = false.
Proof.
  intros s t j Ha Hq Hh. destruct s as [a tr tk tn tz tp att na slm lsh p q kc kn h].
  cbn [active staged hs] in *. subst a q h.
  unfold step, mkev. cbn [e_t e_in e_jr e_jn step_in fst snd]. unfold recvResponse. go.
  all: try reflexivity.
  all: repeat (match goal with |- context [if ?b then _ else _] => destruct b end; go); try reflexivity.
Qed.
