(* Correspondence checker for C14 (real-time trace validation).
   A case is the observed trace of one peer of one device: what the harness
   delivered and when, what the device emitted and when (microseconds).
   kind 1 = the trace is not a behaviour of the timer automaton of Model.v
            within the tolerances (code says how);
   kind 2 = the property monitor of Spec.v is violated (code = clause);
   kind 3 = inconclusive (an input fell into the firing window of a timer, so
            the order of the two is not determined by the observation).

   How a trace is validated against Model.v: the automaton is run with all
   jitter draws 0, so a jittered timer's deadline is its EARLIEST firing time
   and [deadline + jmax] its latest.  Inputs are applied at their observed
   times.  An observed datagram either is the next output owed by the last
   step, or must be explained by a pending timer whose window
   [deadline - tol_lo, deadline (+ jmax) + tol_hi] contains its time and whose
   closure, run at that time, emits it first; the closure's state change is
   applied at the observed time (as time.Now in the callback would read).
   Timers whose closure emits nothing (give-up, rate-limited initiation) are
   run silently at their deadline once their window has passed; a timer whose
   closure would emit something and whose window has passed is a miss. *)
From WG Require Import Base.Prelude Gen.Constants Timers.Model Timers.Spec.
Local Open Scope N_scope.

Definition tol_lo : N := 2 * ms.      (* clock granularity *)
Definition tol_hi : N := 500 * ms.    (* scheduling slack (shared, loaded machine) *)

Record case := { c_pka : N; c_trace : list item }.

Definition jittered (k : tid) : bool :=
  match k with TRetransmit | TNewHs => true | _ => false end.
Definition d_lo (s : st) (k : tid) : N := deadline (get_timer s k).
Definition d_hi (s : st) (k : tid) : N := d_lo s k + (if jittered k then jmax else 0).

Definition ev0 (t : N) (i : input) : ev := {| e_t := t; e_in := i; e_jr := 0; e_jn := 0 |}.

Definition dgrams (t : N) (os : list output) : list (output * N) :=
  flat_map (fun o => match o with OTun _ => [] | _ => [(o, t)] end) os.
Definition tuns (t : N) (os : list output) : list (N * N) :=
  flat_map (fun o => match o with OTun id => [(id, t)] | _ => [] end) os.

Record cst := {
  c_s : st;
  c_exp : list (output * N);     (* datagrams the automaton emitted, not yet observed *)
  c_tun : list (N * N);
  c_fires : list N }.            (* histogram: firings explained per timer + silent + inputs *)

Fixpoint bump (l : list N) (i : nat) : list N :=
  match l, i with
  | [], _ => []
  | x :: t, O => (x + 1) :: t
  | x :: t, S j => x :: bump t j
  end.
Definition tid_ix (k : tid) : nat :=
  match k with TRetransmit => 0 | TKeepalive => 1 | TNewHs => 2 | TZero => 3 | TPersist => 4 end%nat.

(* pending timers, earliest deadline first *)
Fixpoint insert_by (s : st) (k : tid) (l : list tid) : list tid :=
  match l with
  | [] => [k]
  | x :: l' => if d_lo s k <? d_lo s x then k :: l else x :: insert_by s k l'
  end.
Definition pending_sorted (s : st) : list tid :=
  fold_right (fun k acc => if pending (get_timer s k) then insert_by s k acc else acc) [] all_tids.

(* Run silently the timers whose window has passed before t; report those that
   should have emitted something. *)
Fixpoint catch_up (fuel : nat) (t : N) (c : cst) : cst * list N :=
  match fuel with
  | O => (c, [])
  | S f =>
      match filter (fun k => d_hi (c_s c) k + tol_hi <? t) (pending_sorted (c_s c)) with
      | [] => (c, [])
      | k :: _ =>
          let '(s', o) := fire (d_lo (c_s c) k) 0 0 k (c_s c) in
          let c' := {| c_s := s'; c_exp := c_exp c; c_tun := c_tun c;
                       c_fires := bump (c_fires c) 5 |} in
          let '(c'', fs) := catch_up f t c' in
          (c'', match dgrams 0 o with [] => fs | _ => 21 :: fs end)
      end
  end.

(* is t inside the firing window of some pending timer? *)
Definition ambiguous (t : N) (s : st) : bool :=
  existsb (fun k => (d_lo s k <=? t + tol_lo) && (t <=? d_hi s k + tol_hi)) (pending_sorted s).

Fixpoint explain (t : N) (o : output) (c : cst) (ks : list tid) : option (cst * list N) :=
  match ks with
  | [] => None
  | k :: ks' =>
      if d_lo (c_s c) k <=? t + tol_lo then
        (* an observed failed send is explained by the closure running against a failing bind *)
        let '(s', os) := step_in t 0 0 (match o with OErr _ => IFail (IFire k) | _ => IFire k end) (c_s c) in
        match dgrams t os with
        | (o1, _) :: rest =>
            if output_eqb o1 o then
              Some ({| c_s := s'; c_exp := rest; c_tun := c_tun c ++ tuns t os;
                       c_fires := bump (c_fires c) (tid_ix k) |},
                    if d_hi (c_s c) k + tol_hi <? t then [25] else [])
            else explain t o c ks'
        | [] => explain t o c ks'
        end
      else explain t o c ks'
  end.

(* codes: 21 a timer's output is missing; 22 an owed output is missing;
   23 an owed output came late; 24 another datagram than the one owed;
   25 a timer fired late; 26 a datagram no step and no timer explains;
   27/28 TUN write unexpected / late;  30 inconclusive *)
Definition cstep (c : cst) (x : item) : cst * list N :=
  let '(c, f0) := catch_up 8 (item_time x) c in
  match x with
  | In t i =>
      let f1 := match c_exp c with (_, tc) :: _ => if tc + tol_hi <? t then [22] else [] | [] => [] end in
      let f2 := if ambiguous t (c_s c) then [30] else [] in
      let '(s', os) := step (c_s c) (ev0 t i) in
      ({| c_s := s'; c_exp := (if match f1 with [] => true | _ => false end then c_exp c else []) ++ dgrams t os;
          c_tun := c_tun c ++ tuns t os; c_fires := bump (c_fires c) 6 |}, f0 ++ f1 ++ f2)
  | Out t (OTun id) =>
      match c_tun c with
      | (i, tc) :: rest =>
          if i =? id then
            ({| c_s := c_s c; c_exp := c_exp c; c_tun := rest; c_fires := c_fires c |},
             f0 ++ if tc + tol_hi <? t then [28] else [])
          else (c, f0 ++ [27])
      | [] => (c, f0 ++ [27])
      end
  | Out t o =>
      match c_exp c with
      | (e, tc) :: rest =>
          (* an owed datagram may be observed as refused by the bind: IFail i changes the
             state exactly like i and turns its outputs into fail_of *)
          if output_eqb e o || output_eqb (fail_of e) o then
            ({| c_s := c_s c; c_exp := rest; c_tun := c_tun c; c_fires := c_fires c |},
             f0 ++ if tc + tol_hi <? t then [23] else [])
          else (c, f0 ++ [24])
      | [] =>
          match explain t o c (pending_sorted (c_s c)) with
          | Some (c', fs) => (c', f0 ++ fs)
          | None => (c, f0 ++ [26])
          end
      end
  | End T =>
      (c, f0 ++ (match c_exp c with (_, tc) :: _ => if tc + tol_hi <? T then [22] else [] | [] => [] end)
             ++ (match c_tun c with (_, tc) :: _ => if tc + tol_hi <? T then [28] else [] | [] => [] end))
  end.

Fixpoint crun (c : cst) (tr : list item) (pos : N) : cst * list (N * N) :=
  match tr with
  | [] => (c, [])
  | x :: tr' =>
      let '(c1, fs) := cstep c x in
      let '(c2, rest) := crun c1 tr' (pos + 1) in
      (c2, map (pair pos) fs ++ rest)
  end.

Definition cst0 (pka0 : N) : cst :=
  {| c_s := init_st pka0; c_exp := []; c_tun := []; c_fires := [0;0;0;0;0;0;0] |}.

(* (kind, code, position) *)
Definition check_case (k : case) : list (N * N * N) :=
  let m := snd (crun (cst0 (c_pka k)) (c_trace k) 0) in
  let s := violations (c_pka k) tol_lo tol_hi (c_trace k) in
  map (fun p => ((if snd p =? 30 then 3 else 1), snd p, fst p)) m ++
  map (fun p => (2, snd p, fst p)) s.

(* (case idx, kind, code, position) *)
Fixpoint check_cases (ks : list case) (idx : N) : list (N * N * N * N) :=
  match ks with
  | [] => []
  | k :: ks' => map (fun p => (idx, fst (fst p), snd (fst p), snd p)) (check_case k) ++ check_cases ks' (idx + 1)
  end.

(* [retransmit; keepalive; new-handshake; zero-key; persistent] firings explained,
   silent firings, inputs applied — summed over the cases *)
Definition stats (ks : list case) : list N :=
  fold_left (fun acc k =>
               let f := c_fires (fst (crun (cst0 (c_pka k)) (c_trace k) 0)) in
               map (fun p => fst p + snd p) (combine acc f))
            ks [0;0;0;0;0;0;0].

(* ---- decoding of generated case files: quadruples of primitive integers
   (code, time in microseconds, a, b); primitive integers occur only here ---- *)
From WG Require Import Base.Ints.
Fixpoint ids_from (a : N) (n : nat) : list N :=
  match n with O => [] | S k => a :: ids_from (a + 1) k end.
Fixpoint decode (l : list Uint63.int) : list item :=
  match l with
  | c :: t :: a :: b :: rest =>
      let t := n_of_int t * 1000 in let a := n_of_int a in let b := n_of_int b in
      (match n_of_int c with
       | 0 => In t IStart
       | 1 => In t (ITun (ids_from a (N.to_nat b)))
       | 2 => In t IResp
       | 3 => In t IInit
       | 4 => In t (IRecv (Some a))
       | 5 => In t (IRecv None)
       | 6 => In t IStop
       | 7 => In t (IShiftKeys (a * sec))
       | 8 => In t (ISetAttempts a)
       | 9 => In t IConfigure
       | 17 => In t (IShiftHs (a * sec))
       | 18 => In t (ISetPka a)
       | 10 => Out t OInit
       | 11 => Out t OResp
       | 12 => Out t OKeepalive
       | 13 => Out t (OData a)
       | 14 => Out t (OTun a)
       | 15 => Out t (OErr a)
       | _ => End t
       end) :: decode rest
  | _ => []
  end.
Definition mk (pka0 : Uint63.int) (l : list Uint63.int) : case :=
  {| c_pka := n_of_int pka0; c_trace := decode l |}.
