(* Mirror of device/timers.go and of the parts of send.go / receive.go /
   peer.go / noise-protocol.go that drive it, for ONE peer, with EXPLICIT time
   (N nanoseconds, the reading of time.Now at the moment a step runs).

   What is mirrored line by line: Timer.Mod/Del and the AfterFunc closure of
   NewTimer (pending flag + deadline), the eight timers* event hooks, the five
   expired* callbacks, SendHandshakeInitiation (REKEY_TIMEOUT rate limit on
   lastSentHandshake, attempt counter reset), SendHandshakeResponse,
   SendKeepalive, StagePackets (drop-oldest), SendStagedPackets,
   FlushStagedPackets, RoutineSequentialSender's hook calls and
   keepKeyFreshSending, RoutineSequentialReceiver's hook calls and
   keepKeyFreshReceiving, the handshake branches of RoutineHandshake,
   BeginSymmetricSession / ReceivedWithKeypair (only: which slot holds a key,
   when it was created, who initiated), Peer.Start.

   Outside the model (assumptions of every theorem, see notes/C14.md): one step
   is atomic (the real code spreads it over the TUN reader, the handshake
   worker, the per-peer sender/receiver goroutines and timer goroutines); an
   endpoint is known (SendBuffers succeeds); send nonces stay below
   RejectAfterMessages; cryptographic validity of what is received is decided
   by the harness (an input event IS an authenticated message); wall-clock
   accuracy of time.AfterFunc.  The two jittered timers take their jitter
   (fastrandn(RekeyTimeoutJitterMaxMs) milliseconds) from the event as oracle
   inputs [e_jr] (retransmit) and [e_jn] (new handshake). *)
From WG Require Import Base.Prelude Gen.Constants.
Local Open Scope N_scope.

Definition ms : N := 1000000.
Definition sec : N := 1000000000.

(* type Timer struct { *time.Timer; isPending bool } *)
Record timer := { pending : bool; deadline : N }.
Definition t_off : timer := {| pending := false; deadline := 0 |}.
(* func (timer *Timer) Mod(d) { isPending = true; Reset(d) } *)
Definition t_mod (now d : N) : timer := {| pending := true; deadline := now + d |}.
(* func (timer *Timer) Del() { isPending = false; Stop() } *)
Definition t_del (t : timer) : timer := {| pending := false; deadline := deadline t |}.

(* QueueOutboundElement: a data packet (identified by a number) or the empty
   packet of a keepalive.  A container = the packets of one TUN read batch. *)
Inductive elem := Ka | Pkt (id : N).
Definition container := list elem.

(* Keypair: only creation time and role. *)
Record keypair := { kp_created : N; kp_initiator : bool }.

Inductive output :=
| OInit              (* handshake initiation handed to Bind.Send *)
| OResp              (* handshake response *)
| OKeepalive         (* transport message with empty payload *)
| OData (id : N)     (* transport message carrying packet id *)
| OTun (id : N)      (* packet id written to the TUN device *)
| OErr (kind : N).   (* a datagram handed to Bind.Send for which Send returned an error
                        (not transmitted): 0 initiation, 1 response, 2 keepalive, 3 data *)

(* handshake.state *)
Definition hsZeroed : N := 0.
Definition hsInitiationCreated : N := 1.
Definition hsResponseCreated : N := 4.

Record st := {
  active : bool;
  tm_retransmit : timer;
  tm_keepalive : timer;
  tm_newhs : timer;
  tm_zero : timer;
  tm_persist : timer;
  attempts : N;
  need_another : bool;
  sent_last_minute : bool;
  last_sent_hs : N;
  pka : N;
  staged : list container;
  kp_cur : option keypair;
  kp_next : option keypair;
  hs : N }.

Definition set_active (s : st) (v : bool) : st :=
  {| active := v; tm_retransmit := tm_retransmit s; tm_keepalive := tm_keepalive s; tm_newhs := tm_newhs s; tm_zero := tm_zero s; tm_persist := tm_persist s; attempts := attempts s; need_another := need_another s; sent_last_minute := sent_last_minute s; last_sent_hs := last_sent_hs s; pka := pka s; staged := staged s; kp_cur := kp_cur s; kp_next := kp_next s; hs := hs s |}.
Definition set_tm_retransmit (s : st) (v : timer) : st :=
  {| active := active s; tm_retransmit := v; tm_keepalive := tm_keepalive s; tm_newhs := tm_newhs s; tm_zero := tm_zero s; tm_persist := tm_persist s; attempts := attempts s; need_another := need_another s; sent_last_minute := sent_last_minute s; last_sent_hs := last_sent_hs s; pka := pka s; staged := staged s; kp_cur := kp_cur s; kp_next := kp_next s; hs := hs s |}.
Definition set_tm_keepalive (s : st) (v : timer) : st :=
  {| active := active s; tm_retransmit := tm_retransmit s; tm_keepalive := v; tm_newhs := tm_newhs s; tm_zero := tm_zero s; tm_persist := tm_persist s; attempts := attempts s; need_another := need_another s; sent_last_minute := sent_last_minute s; last_sent_hs := last_sent_hs s; pka := pka s; staged := staged s; kp_cur := kp_cur s; kp_next := kp_next s; hs := hs s |}.
Definition set_tm_newhs (s : st) (v : timer) : st :=
  {| active := active s; tm_retransmit := tm_retransmit s; tm_keepalive := tm_keepalive s; tm_newhs := v; tm_zero := tm_zero s; tm_persist := tm_persist s; attempts := attempts s; need_another := need_another s; sent_last_minute := sent_last_minute s; last_sent_hs := last_sent_hs s; pka := pka s; staged := staged s; kp_cur := kp_cur s; kp_next := kp_next s; hs := hs s |}.
Definition set_tm_zero (s : st) (v : timer) : st :=
  {| active := active s; tm_retransmit := tm_retransmit s; tm_keepalive := tm_keepalive s; tm_newhs := tm_newhs s; tm_zero := v; tm_persist := tm_persist s; attempts := attempts s; need_another := need_another s; sent_last_minute := sent_last_minute s; last_sent_hs := last_sent_hs s; pka := pka s; staged := staged s; kp_cur := kp_cur s; kp_next := kp_next s; hs := hs s |}.
Definition set_tm_persist (s : st) (v : timer) : st :=
  {| active := active s; tm_retransmit := tm_retransmit s; tm_keepalive := tm_keepalive s; tm_newhs := tm_newhs s; tm_zero := tm_zero s; tm_persist := v; attempts := attempts s; need_another := need_another s; sent_last_minute := sent_last_minute s; last_sent_hs := last_sent_hs s; pka := pka s; staged := staged s; kp_cur := kp_cur s; kp_next := kp_next s; hs := hs s |}.
Definition set_attempts (s : st) (v : N) : st :=
  {| active := active s; tm_retransmit := tm_retransmit s; tm_keepalive := tm_keepalive s; tm_newhs := tm_newhs s; tm_zero := tm_zero s; tm_persist := tm_persist s; attempts := v; need_another := need_another s; sent_last_minute := sent_last_minute s; last_sent_hs := last_sent_hs s; pka := pka s; staged := staged s; kp_cur := kp_cur s; kp_next := kp_next s; hs := hs s |}.
Definition set_need_another (s : st) (v : bool) : st :=
  {| active := active s; tm_retransmit := tm_retransmit s; tm_keepalive := tm_keepalive s; tm_newhs := tm_newhs s; tm_zero := tm_zero s; tm_persist := tm_persist s; attempts := attempts s; need_another := v; sent_last_minute := sent_last_minute s; last_sent_hs := last_sent_hs s; pka := pka s; staged := staged s; kp_cur := kp_cur s; kp_next := kp_next s; hs := hs s |}.
Definition set_sent_last_minute (s : st) (v : bool) : st :=
  {| active := active s; tm_retransmit := tm_retransmit s; tm_keepalive := tm_keepalive s; tm_newhs := tm_newhs s; tm_zero := tm_zero s; tm_persist := tm_persist s; attempts := attempts s; need_another := need_another s; sent_last_minute := v; last_sent_hs := last_sent_hs s; pka := pka s; staged := staged s; kp_cur := kp_cur s; kp_next := kp_next s; hs := hs s |}.
Definition set_last_sent_hs (s : st) (v : N) : st :=
  {| active := active s; tm_retransmit := tm_retransmit s; tm_keepalive := tm_keepalive s; tm_newhs := tm_newhs s; tm_zero := tm_zero s; tm_persist := tm_persist s; attempts := attempts s; need_another := need_another s; sent_last_minute := sent_last_minute s; last_sent_hs := v; pka := pka s; staged := staged s; kp_cur := kp_cur s; kp_next := kp_next s; hs := hs s |}.
Definition set_pka (s : st) (v : N) : st :=
  {| active := active s; tm_retransmit := tm_retransmit s; tm_keepalive := tm_keepalive s; tm_newhs := tm_newhs s; tm_zero := tm_zero s; tm_persist := tm_persist s; attempts := attempts s; need_another := need_another s; sent_last_minute := sent_last_minute s; last_sent_hs := last_sent_hs s; pka := v; staged := staged s; kp_cur := kp_cur s; kp_next := kp_next s; hs := hs s |}.
Definition set_staged (s : st) (v : list container) : st :=
  {| active := active s; tm_retransmit := tm_retransmit s; tm_keepalive := tm_keepalive s; tm_newhs := tm_newhs s; tm_zero := tm_zero s; tm_persist := tm_persist s; attempts := attempts s; need_another := need_another s; sent_last_minute := sent_last_minute s; last_sent_hs := last_sent_hs s; pka := pka s; staged := v; kp_cur := kp_cur s; kp_next := kp_next s; hs := hs s |}.
Definition set_kp_cur (s : st) (v : option keypair) : st :=
  {| active := active s; tm_retransmit := tm_retransmit s; tm_keepalive := tm_keepalive s; tm_newhs := tm_newhs s; tm_zero := tm_zero s; tm_persist := tm_persist s; attempts := attempts s; need_another := need_another s; sent_last_minute := sent_last_minute s; last_sent_hs := last_sent_hs s; pka := pka s; staged := staged s; kp_cur := v; kp_next := kp_next s; hs := hs s |}.
Definition set_kp_next (s : st) (v : option keypair) : st :=
  {| active := active s; tm_retransmit := tm_retransmit s; tm_keepalive := tm_keepalive s; tm_newhs := tm_newhs s; tm_zero := tm_zero s; tm_persist := tm_persist s; attempts := attempts s; need_another := need_another s; sent_last_minute := sent_last_minute s; last_sent_hs := last_sent_hs s; pka := pka s; staged := staged s; kp_cur := kp_cur s; kp_next := v; hs := hs s |}.
Definition set_hs (s : st) (v : N) : st :=
  {| active := active s; tm_retransmit := tm_retransmit s; tm_keepalive := tm_keepalive s; tm_newhs := tm_newhs s; tm_zero := tm_zero s; tm_persist := tm_persist s; attempts := attempts s; need_another := need_another s; sent_last_minute := sent_last_minute s; last_sent_hs := last_sent_hs s; pka := pka s; staged := staged s; kp_cur := kp_cur s; kp_next := kp_next s; hs := v |}.
Definition init_st (pka0 : N) : st :=
  {| active := false; tm_retransmit := t_off; tm_keepalive := t_off; tm_newhs := t_off;
     tm_zero := t_off; tm_persist := t_off; attempts := 0; need_another := false;
     sent_last_minute := false; last_sent_hs := 0; pka := pka0; staged := [];
     kp_cur := None; kp_next := None; hs := hsZeroed |}.

(* ------------------------------------------------------------ event hooks *)

(* func (peer *Peer) timersDataSent() *)
Definition timersDataSent (now jn : N) (s : st) : st :=
  if active s && negb (pending (tm_newhs s))
  then set_tm_newhs s (t_mod now (KeepaliveTimeout + RekeyTimeout + ms * jn))
  else s.

(* func (peer *Peer) timersDataReceived() *)
Definition timersDataReceived (now : N) (s : st) : st :=
  if active s then
    if negb (pending (tm_keepalive s))
    then set_tm_keepalive s (t_mod now KeepaliveTimeout)
    else set_need_another s true
  else s.

(* func (peer *Peer) timersAnyAuthenticatedPacketSent() *)
Definition timersAnyAuthenticatedPacketSent (s : st) : st :=
  if active s then set_tm_keepalive s (t_del (tm_keepalive s)) else s.

(* func (peer *Peer) timersAnyAuthenticatedPacketReceived() *)
Definition timersAnyAuthenticatedPacketReceived (s : st) : st :=
  if active s then set_tm_newhs s (t_del (tm_newhs s)) else s.

(* func (peer *Peer) timersHandshakeInitiated() *)
Definition timersHandshakeInitiated (now jr : N) (s : st) : st :=
  if active s then set_tm_retransmit s (t_mod now (RekeyTimeout + ms * jr)) else s.

(* func (peer *Peer) timersHandshakeComplete()   (lastHandshakeNano not modelled) *)
Definition timersHandshakeComplete (s : st) : st :=
  let s := if active s then set_tm_retransmit s (t_del (tm_retransmit s)) else s in
  let s := set_attempts s 0 in
  set_sent_last_minute s false.

(* func (peer *Peer) timersSessionDerived() *)
Definition timersSessionDerived (now : N) (s : st) : st :=
  if active s then set_tm_zero s (t_mod now (RejectAfterTime * 3)) else s.

(* func (peer *Peer) timersAnyAuthenticatedPacketTraversal() *)
Definition timersAnyAuthenticatedPacketTraversal (now : N) (s : st) : st :=
  if (0 <? pka s) && active s then set_tm_persist s (t_mod now (pka s * sec)) else s.

(* ------------------------------------------------------------ send.go *)

(* func (peer *Peer) SendHandshakeInitiation(isRetry bool) *)
Definition sendHandshakeInitiation (now jr : N) (isRetry : bool) (s : st) : st * list output :=
  let s := if isRetry then s else set_attempts s 0 in
  if now - last_sent_hs s <? RekeyTimeout        (* time.Since(lastSentHandshake) < RekeyTimeout *)
  then (s, [])
  else
    let s := set_last_sent_hs s now in
    let s := set_hs s hsInitiationCreated in     (* CreateMessageInitiation *)
    let s := timersAnyAuthenticatedPacketTraversal now s in
    let s := timersAnyAuthenticatedPacketSent s in
    (* SendBuffers *)
    let s := timersHandshakeInitiated now jr s in
    (s, [OInit]).

(* func (peer *Peer) keepKeyFreshSending() *)
Definition keepKeyFreshSending (now jr : N) (s : st) : st * list output :=
  match kp_cur s with
  | None => (s, [])
  | Some k =>
      if kp_initiator k && (RekeyAfterTime <? now - kp_created k)
      then sendHandshakeInitiation now jr false s
      else (s, [])
  end.

Definition out_of_elem (e : elem) : output :=
  match e with Ka => OKeepalive | Pkt id => OData id end.
Definition is_data (e : elem) : bool := match e with Ka => false | Pkt _ => true end.

(* RoutineSequentialSender, one iteration per container taken from peer.queue.outbound *)
Fixpoint sequentialSender (now jr jn : N) (cs : list container) (s : st) : st * list output :=
  match cs with
  | [] => (s, [])
  | c :: cs' =>
      let s := timersAnyAuthenticatedPacketTraversal now s in
      let s := timersAnyAuthenticatedPacketSent s in
      let o1 := map out_of_elem c in             (* SendBuffers *)
      let s := if existsb is_data c then timersDataSent now jn s else s in
      let '(s, o2) := keepKeyFreshSending now jr s in
      let '(s, o3) := sequentialSender now jr jn cs' s in
      (s, o1 ++ o2 ++ o3)
  end.

(* func (peer *Peer) StagePackets(elems): push; when full drop the oldest and retry *)
Definition stagePackets (c : container) (q : list container) : list container :=
  if N.of_nat (length q) <? QueueStagedSize then q ++ [c] else tl q ++ [c].

(* func (peer *Peer) SendStagedPackets(), the part that runs in the caller:
   either a handshake initiation, or the staged containers are handed to
   peer.queue.outbound (returned as third component); the per-peer sender
   goroutine (sequentialSender) transmits them afterwards. *)
Definition stagedSync (now jr : N) (s : st) : st * list output * list container :=
  match staged s with
  | [] => (s, [], [])
  | q =>
      if negb (active s) then (s, [], []) else
      match kp_cur s with
      | None => let '(s, o) := sendHandshakeInitiation now jr false s in (s, o, [])
      | Some k =>
          if RejectAfterTime <=? now - kp_created k
          then let '(s, o) := sendHandshakeInitiation now jr false s in (s, o, [])
          else (set_staged s [], [], q)
      end
  end.

(* SendStagedPackets followed by the sender goroutine's work *)
Definition sendStagedPackets (now jr jn : N) (s : st) : st * list output :=
  let '(s, o, cs) := stagedSync now jr s in
  let '(s, o2) := sequentialSender now jr jn cs s in
  (s, o ++ o2).

(* func (peer *Peer) SendKeepalive(): staging of the empty packet *)
Definition stageKeepalive (s : st) : st :=
  match staged s with
  | [] => if active s then set_staged s [[Ka]] else s
  | _ => s
  end.

Definition sendKeepalive (now jr jn : N) (s : st) : st * list output :=
  sendStagedPackets now jr jn (stageKeepalive s).

(* func (peer *Peer) FlushStagedPackets() *)
Definition flushStagedPackets (s : st) : st := set_staged s [].

(* ------------------------------------------------------------ expired* *)

(* func expiredRetransmitHandshake(peer *Peer) *)
Definition expiredRetransmitHandshake (now jr : N) (s : st) : st * list output :=
  if MaxTimerHandshakes <? attempts s then
    let s := if active s then set_tm_keepalive s (t_del (tm_keepalive s)) else s in
    let s := flushStagedPackets s in
    let s := if active s && negb (pending (tm_zero s))
             then set_tm_zero s (t_mod now (RejectAfterTime * 3)) else s in
    (s, [])
  else
    let s := set_attempts s (attempts s + 1) in
    sendHandshakeInitiation now jr true s.

(* func expiredSendKeepalive(peer *Peer).  The callback re-arms the timer
   (needAnotherKeepalive) BEFORE the sender goroutine transmits the keepalive
   and calls timersAnyAuthenticatedPacketSent, which deletes the timer again:
   observed on the real device (no second keepalive), so mirrored in this order. *)
Definition expiredSendKeepalive (now jr jn : N) (s : st) : st * list output :=
  let '(s, o, cs) := stagedSync now jr (stageKeepalive s) in
  let s :=
    if need_another s then
      let s := set_need_another s false in
      if active s then set_tm_keepalive s (t_mod now KeepaliveTimeout) else s
    else s in
  let '(s, o2) := sequentialSender now jr jn cs s in
  (s, o ++ o2).

(* func expiredNewHandshake(peer *Peer) *)
Definition expiredNewHandshake (now jr : N) (s : st) : st * list output :=
  sendHandshakeInitiation now jr false s.

(* func expiredZeroKeyMaterial(peer *Peer): ZeroAndFlushAll *)
Definition expiredZeroKeyMaterial (s : st) : st * list output :=
  let s := set_kp_cur s None in
  let s := set_kp_next s None in
  let s := set_hs s hsZeroed in
  (flushStagedPackets s, []).

(* func expiredPersistentKeepalive(peer *Peer) *)
Definition expiredPersistentKeepalive (now jr jn : N) (s : st) : st * list output :=
  if 0 <? pka s then sendKeepalive now jr jn s else (s, []).

Inductive tid := TRetransmit | TKeepalive | TNewHs | TZero | TPersist.

Definition get_timer (s : st) (k : tid) : timer :=
  match k with
  | TRetransmit => tm_retransmit s | TKeepalive => tm_keepalive s | TNewHs => tm_newhs s
  | TZero => tm_zero s | TPersist => tm_persist s
  end.
Definition set_timer (s : st) (k : tid) (t : timer) : st :=
  match k with
  | TRetransmit => set_tm_retransmit s t | TKeepalive => set_tm_keepalive s t
  | TNewHs => set_tm_newhs s t | TZero => set_tm_zero s t | TPersist => set_tm_persist s t
  end.

(* The closure given to time.AfterFunc in NewTimer:
   if !isPending { return }; isPending = false; expirationFunction(peer) *)
Definition fire (now jr jn : N) (k : tid) (s : st) : st * list output :=
  if negb (pending (get_timer s k)) then (s, []) else
  let s := set_timer s k (t_del (get_timer s k)) in
  match k with
  | TRetransmit => expiredRetransmitHandshake now jr s
  | TKeepalive => expiredSendKeepalive now jr jn s
  | TNewHs => expiredNewHandshake now jr s
  | TZero => expiredZeroKeyMaterial s
  | TPersist => expiredPersistentKeepalive now jr jn s
  end.

(* ------------------------------------------------------------ inputs *)

(* device.upLocked for this peer: peer.Start() (nothing is staged at that
   point: Stop flushed it and the TUN reader drops packets for a stopped peer),
   then "if persistentKeepaliveInterval > 0 { peer.SendKeepalive() }" *)
Definition start (now jr jn : N) (s : st) : st * list output :=
  let s := set_last_sent_hs s (now - (RekeyTimeout + sec)) in
  let s := set_attempts s 0 in                       (* timersStart *)
  let s := set_sent_last_minute s false in
  let s := set_need_another s false in
  let s := set_active s true in
  if 0 <? pka s then sendKeepalive now jr jn s else (s, []).

(* ipcSetPeer.handlePostConfig on a device that is up, for a peer created by
   this set operation: peer.Start(); if pkaOn { peer.SendKeepalive() };
   peer.SendStagedPackets()   (pkaOn: the interval went from 0 to non-zero) *)
Definition configure (now jr jn : N) (s : st) : st * list output :=
  let '(s, o1) := start now jr jn s in
  let '(s, o2) := sendStagedPackets now jr jn s in
  (s, o1 ++ o2).

(* handlePersistentKeepaliveIntervalLine + handlePostConfig for an EXISTING peer:
   old := interval.Swap(n); pkaOn = old == 0 && n != 0; when the device is up:
   peer.Start() (no effect on a running peer); if pkaOn { SendKeepalive() };
   SendStagedPackets().  The persistent-keepalive timer itself is not touched. *)
Definition setPka (now jr jn n : N) (s : st) : st * list output :=
  let on := (pka s =? 0) && (0 <? n) in
  let s := set_pka s n in
  if negb (active s) then (s, []) else
  let '(s, o1) := if on then sendKeepalive now jr jn s else (s, []) in
  let '(s, o2) := sendStagedPackets now jr jn s in
  (s, o1 ++ o2).

(* RoutineReadFromTUN: one read batch routed to this peer *)
Definition tunRead (now jr jn : N) (ids : list N) (s : st) : st * list output :=
  if active s then
    let s := set_staged s (stagePackets (map Pkt ids) (staged s)) in
    sendStagedPackets now jr jn s
  else (s, []).

(* RoutineHandshake, case MessageResponseType, for a response that
   ConsumeMessageResponse accepts (it does only in state InitiationCreated) *)
Definition recvResponse (now jr jn : N) (s : st) : st * list output :=
  if negb (hs s =? hsInitiationCreated) then (s, []) else
  let s := timersAnyAuthenticatedPacketTraversal now s in
  let s := timersAnyAuthenticatedPacketReceived s in
  (* BeginSymmetricSession, isInitiator: current := new keypair, next := nil *)
  let s := set_hs s hsZeroed in
  let s := set_kp_next s None in
  let s := set_kp_cur s (Some {| kp_created := now; kp_initiator := true |}) in
  let s := timersSessionDerived now s in
  let s := timersHandshakeComplete s in
  sendKeepalive now jr jn s.

(* RoutineHandshake, case MessageInitiationType, for an initiation that
   ConsumeMessageInitiation accepts; then SendHandshakeResponse *)
Definition recvInitiation (now : N) (s : st) : st * list output :=
  let s := timersAnyAuthenticatedPacketTraversal now s in
  let s := timersAnyAuthenticatedPacketReceived s in
  let s := set_last_sent_hs s now in
  let s := set_hs s hsResponseCreated in           (* CreateMessageResponse *)
  (* BeginSymmetricSession, responder: next := new keypair *)
  let s := set_hs s hsZeroed in
  let s := set_kp_next s (Some {| kp_created := now; kp_initiator := false |}) in
  let s := timersSessionDerived now s in
  let s := timersAnyAuthenticatedPacketTraversal now s in
  let s := timersAnyAuthenticatedPacketSent s in
  (s, [OResp]).

(* func (peer *Peer) keepKeyFreshReceiving() *)
Definition keepKeyFreshReceiving (now jr : N) (s : st) : st * list output :=
  if sent_last_minute s then (s, []) else
  match kp_cur s with
  | None => (s, [])
  | Some k =>
      if kp_initiator k && (RejectAfterTime - KeepaliveTimeout - RekeyTimeout <? now - kp_created k)
      then sendHandshakeInitiation now jr false (set_sent_last_minute s true)
      else (s, [])
  end.

(* RoutineSequentialReceiver, one container holding one authentic, fresh
   transport message sent under the peer's newest session (the device's next
   keypair when there is one, else its current one); d = None is a keepalive *)
Definition recvTransport (now jr jn : N) (d : option N) (s : st) : st * list output :=
  match kp_next s, kp_cur s with
  | None, None => (s, [])                            (* no key opens it *)
  | _, _ =>
    let '(s, o1, cs) :=
      match kp_next s with
      | Some k =>                                    (* ReceivedWithKeypair: next becomes current *)
          let s := set_kp_cur s (Some k) in
          let s := set_kp_next s None in
          let s := timersHandshakeComplete s in
          stagedSync now jr s                        (* SendStagedPackets, caller's part *)
      | None => (s, [], [])
      end in
    let '(s, o2) := keepKeyFreshReceiving now jr s in
    let s := timersAnyAuthenticatedPacketTraversal now s in
    let s := timersAnyAuthenticatedPacketReceived s in
    let s := match d with Some _ => timersDataReceived now s | None => s end in
    (* the sender goroutine transmits what was staged after the receiver went on *)
    let '(s, o3) := sequentialSender now jr jn cs s in
    (s, o1 ++ o2 ++ o3 ++ match d with Some id => [OTun id] | None => [] end)
  end.

(* device.downLocked for this peer: Peer.Stop = isRunning false, timersStop
   (DelSync of the five timers), ZeroAndFlushAll (keypairs, handshake.Clear,
   FlushStagedPackets).  handshake.Clear does NOT touch lastSentHandshake, nor
   does Stop reset the counters: Start does (above). *)
Definition stop (s : st) : st * list output :=
  let s := set_active s false in
  let s := set_tm_retransmit s (t_del (tm_retransmit s)) in
  let s := set_tm_keepalive s (t_del (tm_keepalive s)) in
  let s := set_tm_newhs s (t_del (tm_newhs s)) in
  let s := set_tm_zero s (t_del (tm_zero s)) in
  let s := set_tm_persist s (t_del (tm_persist s)) in
  let s := set_kp_cur s None in
  let s := set_kp_next s None in
  let s := set_hs s hsZeroed in
  (flushStagedPackets s, []).

(* What a failing bind turns an emitted datagram into.  A send error changes
   nothing else in SendHandshakeInitiation / SendHandshakeResponse (the error is
   logged, timersHandshakeInitiated is still called, callers ignore the result);
   RoutineSequentialSender skips keepKeyFreshSending after a failed send, which
   matters only for keys older than RekeyAfterTime (not mirrored: see notes). *)
Definition fail_of (o : output) : output :=
  match o with
  | OInit => OErr 0 | OResp => OErr 1 | OKeepalive => OErr 2 | OData _ => OErr 3
  | OTun id => OTun id | OErr k => OErr k
  end.

(* VerifShiftKeypairAges (verif_device.go): kp.created = kp.created.Add(-d) for every slot *)
Definition older (d : N) (k : option keypair) : option keypair :=
  match k with
  | Some k => Some {| kp_created := kp_created k - d; kp_initiator := kp_initiator k |}
  | None => None
  end.
Definition shiftKeys (d : N) (s : st) : st :=
  set_kp_next (set_kp_cur s (older d (kp_cur s))) (older d (kp_next (set_kp_cur s (older d (kp_cur s))))).

Inductive input :=
| IStart                      (* device up: Peer.Start (+ SendKeepalive when persistent keepalive is set) *)
| IStop                       (* device down: Peer.Stop *)
| ITun (ids : list N)         (* one TUN read batch routed to the peer *)
| IResp                       (* valid response to the pending initiation *)
| IInit                       (* valid fresh initiation from the peer *)
| IRecv (d : option N)        (* valid transport message: data packet d, or keepalive *)
| IFire (k : tid)             (* the runtime runs timer k's AfterFunc closure *)
| IFail (i : input)           (* i happens while Bind.Send returns an error for every datagram *)
| IShiftKeys (d : N)          (* harness hook VerifShiftKeypairAges: every keypair becomes d older *)
| ISetAttempts (n : N)        (* harness hook VerifSetHandshakeAttempts: handshakeAttempts := n *)
| IShiftHs (d : N)            (* harness hook VerifShiftHandshakeTimes: lastSentHandshake becomes d older *)
| ISetPka (n : N)             (* UAPI set changing persistent_keepalive_interval of the existing peer *)
| IConfigure.                 (* UAPI set creating the peer (with its persistent keepalive) on a device that is up *)

(* An event: when it runs, what it is, and the two jitter draws (milliseconds). *)
Record ev := { e_t : N; e_in : input; e_jr : N; e_jn : N }.

Fixpoint step_in (now jr jn : N) (i : input) (s : st) : st * list output :=
  match i with
  | IStart => start now jr jn s
  | IStop => stop s
  | ITun ids => tunRead now jr jn ids s
  | IResp => recvResponse now jr jn s
  | IInit => recvInitiation now s
  | IRecv d => recvTransport now jr jn d s
  | IFire k => fire now jr jn k s
  | IFail i' => let '(s', o) := step_in now jr jn i' s in (s', map fail_of o)
  | IShiftKeys d => (shiftKeys d s, [])
  | ISetAttempts n => (set_attempts s n, [])
  | IShiftHs d => (set_last_sent_hs s (last_sent_hs s - d), [])
  | ISetPka n => setPka now jr jn n s
  | IConfigure => configure now jr jn s
  end.

Definition step (s : st) (e : ev) : st * list output :=
  step_in (e_t e) (e_jr e) (e_jn e) (e_in e) s.

(* ------------------------------------------------------------ ideal clock
   The scheduler of the theorems: a pending timer's closure runs exactly at its
   deadline (the earliest first; ties in the fixed order below), nothing else
   happens in between.  [js] are the jitter draws of the successive firings. *)
Definition all_tids : list tid := [TRetransmit; TKeepalive; TNewHs; TPersist; TZero].

Fixpoint earliest (s : st) (ks : list tid) (best : option (tid * N)) : option (tid * N) :=
  match ks with
  | [] => best
  | k :: ks' =>
      let t := get_timer s k in
      earliest s ks'
        (if pending t then
           match best with
           | None => Some (k, deadline t)
           | Some (_, d) => if deadline t <? d then Some (k, deadline t) else best
           end
         else best)
  end.
Definition next_due (s : st) : option (tid * N) := earliest s all_tids None.

(* Run the timers that are due up to and including time T. *)
Fixpoint idle (fuel : nat) (js : list (N * N)) (T : N) (s : st) : st * list (N * output) :=
  match fuel with
  | O => (s, [])
  | S f =>
      match next_due s with
      | Some (k, d) =>
          if d <=? T then
            let j := hd (0, 0) js in
            let '(s1, o) := fire d (fst j) (snd j) k s in
            let '(s2, os) := idle f (tl js) T s1 in
            (s2, map (pair d) o ++ os)
          else (s, [])
      | None => (s, [])
      end
  end.
