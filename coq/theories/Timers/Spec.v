(* Property C14 as an executable monitor over OBSERVED traces (what the harness
   did to one peer of the device and what the device emitted, with times).
   It does not use the timer automaton of Model.v (only its event alphabet):
   it is the plain reading of the property text, clause by clause, with a lower
   tolerance [lo] (clock granularity) and an upper tolerance [hi] (scheduling
   slack); lo = hi = 0 is the exact property.

   Clauses (violation codes):
     1  initiation retransmitted less than 5 s after the previous one
     2  retransmission later than 5 s + 333 ms, or missing
     3  a 21st transmission / an initiation after giving up without new traffic
     4  keepalive 10 s after receive-only late or missing
     5  that keepalive earlier than 10 s
     6  new handshake after unanswered send later than 15 s + 333 ms, or missing
     7  that handshake earlier than 15 s
     8  persistent keepalive late or missing
     9  persistent keepalive early
     10 datagram that nobody asked for, or queued packets out of order /
        discarded packets sent after all / not the most recent ones kept
     11 queued packets not sent (in time) after the handshake completed,
        response not sent
     12 unexpected TUN write      13 TUN write late or missing
     15 packets were queued for a peer without session and without a handshake
        attempt in progress (e.g. right after the device came up again) and no
        initiation follows at once
     14 a handshake is started although a young session exists and the peer
        answered everything sent (the converse reading of clause 6) *)
From WG Require Import Base.Prelude Gen.Constants Timers.Model.
Local Open Scope N_scope.

Inductive item :=
| In (t : N) (i : input)      (* the harness delivered i at time t (IFire never occurs here) *)
| Out (t : N) (o : output)    (* the device emitted o at time t *)
| End (t : N).                (* end of observation *)

Definition item_time (x : item) : N :=
  match x with In t _ => t | Out t _ => t | End t => t end.

Definition output_eqb (a b : output) : bool :=
  match a, b with
  | OInit, OInit | OResp, OResp | OKeepalive, OKeepalive => true
  | OData x, OData y | OTun x, OTun y | OErr x, OErr y => x =? y
  | _, _ => false
  end.

(* The numbers of the PROPERTY TEXT, as literals (Props/C14.v, C14_constants,
   ties them to the constants of the code; a changed constant then shows both
   as a broken theorem and as violated clauses on concrete traces). *)
Definition p_rekey : N := 5 * sec.             (* "every 5 s" *)
Definition jmax : N := 333 * ms.               (* "plus at most 334 ms of jitter": fastrandn(334) <= 333 *)
Definition maxTransmissions : N := 20.         (* "gives up after 20 transmissions" *)
Definition p_keepalive : N := 10 * sec.        (* "a keepalive 10 s after receiving data" *)
Definition p_newhs : N := 15 * sec.            (* "within 15 s (plus jitter) of sending data" *)

Record mon := {
  m_sess : N;                      (* 0 no session, 1 responder awaiting confirmation, 2 established, 3 device down *)
  m_queue : list (list N);         (* TUN batches queued while no session, oldest first *)
  m_expect : list (output * N);    (* datagrams owed at once, with the time of their cause *)
  m_tun : list (N * N);            (* TUN writes owed (id, time of cause) *)
  m_optka : bool;                  (* the key-confirming keepalive of a completed handshake may come *)
  m_init : option (N * N);         (* last initiation: time, how many in this attempt *)
  m_recv : option N;               (* first data received and nothing sent since *)
  m_sent : option N;               (* first data sent and nothing authenticated received since *)
  m_last : option N;               (* last authenticated packet in either direction *)
  m_est : N;                       (* when the session was established *)
  m_owed : option N;               (* an initiation is owed since then *)
  m_hs : N;                        (* last handshake message sent (the code's 5 s rate limit on initiations) *)
  m_pka : N }.                     (* persistent-keepalive interval now (s) *)

Definition mon0 : mon :=
  {| m_sess := 0; m_queue := []; m_expect := []; m_tun := []; m_optka := false;
     m_init := None; m_recv := None; m_sent := None; m_last := None; m_est := 0; m_owed := None; m_hs := 0; m_pka := 0 |}.

Section Monitor.
  Variables pka0 lo hi : N.   (* pka0: the persistent-keepalive interval configured at the start *)

  (* with a persistent keepalive of at most 5 s the attempt counter is reset
     before every retransmission: the device never gives up *)
  Definition no_giveup (m : mon) : bool := (0 <? m_pka m) && (m_pka m * sec <=? p_rekey + jmax).

  Definition push_queue (ids : list N) (q : list (list N)) : list (list N) :=
    if N.of_nat (length q) <? QueueStagedSize then q ++ [ids] else tl q ++ [ids].

  (* giving up discards what was queued *)
  Definition tick (t : N) (m : mon) : mon :=
    match m_init m with
    | Some (t', n) =>
        if (maxTransmissions <=? n) && negb (no_giveup m) && (t' + p_rekey + jmax + hi <? t)
        then {| m_sess := m_sess m; m_queue := []; m_expect := m_expect m; m_tun := m_tun m;
                m_optka := m_optka m; m_init := m_init m; m_recv := m_recv m; m_sent := m_sent m;
                m_last := m_last m; m_est := m_est m; m_owed := m_owed m; m_hs := m_hs m; m_pka := m_pka m |}
        else m
    | None => m
    end.

  (* the handshake completed: what was queued is owed, oldest first; a keepalive
     (key confirmation, or the staged keepalive of a persistent-keepalive peer)
     may accompany it *)
  Definition complete (t : N) (m : mon) : mon :=
    {| m_sess := 2; m_queue := [];
       m_expect := m_expect m ++ map (fun id => (OData id, t)) (concat (m_queue m));
       m_tun := m_tun m;
       m_optka := true;
       m_init := None; m_recv := m_recv m; m_sent := None; m_last := Some t; m_est := t; m_owed := None; m_hs := m_hs m; m_pka := m_pka m |}.

  Definition on_input (t : N) (i : input) (m : mon) : mon :=
    match i with
    | IFire _ | IFail _ => m
    | IShiftKeys d =>                (* harness hook: the session's key becomes d older *)
        {| m_sess := m_sess m; m_queue := m_queue m; m_expect := m_expect m; m_tun := m_tun m;
           m_optka := m_optka m; m_init := m_init m; m_recv := m_recv m; m_sent := m_sent m;
           m_last := m_last m; m_est := m_est m - d; m_owed := m_owed m; m_hs := m_hs m; m_pka := m_pka m |}
    | ISetPka n =>                   (* UAPI: the interval is changed on the existing peer; when it is turned
                                        on the interval of silence starts now and a keepalive may come at once *)
        {| m_sess := m_sess m; m_queue := m_queue m; m_expect := m_expect m; m_tun := m_tun m;
           m_optka := true; m_init := m_init m; m_recv := m_recv m; m_sent := m_sent m;
           m_last := if (m_pka m =? 0) && (0 <? n) then Some t else m_last m;
           m_est := m_est m; m_owed := m_owed m; m_hs := m_hs m; m_pka := n |}
    | IShiftHs d =>                  (* harness hook: the last handshake message counts as sent d earlier;
                                        the gap to the next initiation is then not the device's doing *)
        {| m_sess := m_sess m; m_queue := m_queue m; m_expect := m_expect m; m_tun := m_tun m;
           m_optka := m_optka m; m_init := None; m_recv := m_recv m; m_sent := m_sent m;
           m_last := m_last m; m_est := m_est m; m_owed := m_owed m; m_hs := m_hs m - d; m_pka := m_pka m |}
    | ISetAttempts n =>              (* harness hook: n retries are counted as made *)
        {| m_sess := m_sess m; m_queue := m_queue m; m_expect := m_expect m; m_tun := m_tun m;
           m_optka := m_optka m;
           m_init := match m_init m with Some (t', _) => Some (t', n + 1) | None => None end;
           m_recv := m_recv m; m_sent := m_sent m; m_last := m_last m; m_est := m_est m;
           m_owed := m_owed m; m_hs := m_hs m; m_pka := m_pka m |}
    | IStop =>                       (* device down: everything is dropped, nothing is owed *)
        {| m_sess := 3; m_queue := []; m_expect := []; m_tun := []; m_optka := false;
           m_init := None; m_recv := None; m_sent := None; m_last := None; m_est := 0; m_owed := None; m_hs := m_hs m; m_pka := m_pka m |}
    | IStart | IConfigure =>         (* device up / peer created on an up device: the interval of silence starts now *)
        {| m_sess := 0; m_queue := []; m_expect := []; m_tun := []; m_optka := false;
           m_init := None; m_recv := None; m_sent := None; m_last := Some t; m_est := 0; m_owed := None;
           m_hs := 0 (* Start back-dates lastSentHandshake *); m_pka := m_pka m |}
    | ITun ids =>
        (* a session whose key is older than RejectAfterTime (180 s) is no session any more *)
        let m := if (m_sess m =? 2) && (m_est m + RejectAfterTime <=? t)
                 then {| m_sess := 0; m_queue := m_queue m; m_expect := m_expect m; m_tun := m_tun m;
                         m_optka := m_optka m; m_init := m_init m; m_recv := m_recv m;
                         m_sent := m_sent m; m_last := m_last m; m_est := m_est m; m_owed := m_owed m; m_hs := m_hs m; m_pka := m_pka m |}
                 else m in
        if m_sess m =? 2 then
          {| m_sess := 2; m_queue := m_queue m;
             m_expect := m_expect m ++ map (fun id => (OData id, t)) ids;
             m_tun := m_tun m; m_optka := m_optka m; m_init := m_init m; m_recv := m_recv m;
             m_sent := m_sent m; m_last := m_last m; m_est := m_est m; m_owed := m_owed m; m_hs := m_hs m; m_pka := m_pka m |}
        else if m_sess m =? 3 then m       (* the TUN reader drops packets for a stopped peer *)
        else
          let init' := match m_init m with
                       | Some (t', n) =>
                           if (maxTransmissions <=? n) && negb (no_giveup m) && (t' + p_rekey <=? t)
                           then None else Some (t', 1)
                       | None => None
                       end in
          {| m_sess := m_sess m; m_queue := push_queue ids (m_queue m); m_expect := m_expect m;
             m_tun := m_tun m; m_optka := m_optka m;
             (* new traffic restarts the attempt counter; after giving up it starts a new attempt *)
             m_init := init';
             m_recv := m_recv m; m_sent := m_sent m; m_last := m_last m; m_est := m_est m;
             (* no session and no attempt in progress: the queued packets need a handshake now *)
             m_owed := match m_owed m, init' with
                       | None, None => if (m_sess m =? 0) && (m_hs m + p_rekey <=? t) then Some t else None
                       | o, _ => o
                       end; m_hs := m_hs m; m_pka := m_pka m |}
    | IResp => complete t m
    | IInit =>
        {| m_sess := if m_sess m =? 2 then 2 else 1; m_queue := m_queue m;
           m_expect := m_expect m ++ [(OResp, t)]; m_tun := m_tun m; m_optka := m_optka m;
           (* the peer's handshake supersedes the device's pending attempt (its
              retransmission is rate-limited against the response just sent) *)
           m_init := None; m_recv := m_recv m; m_sent := None; m_last := Some t; m_est := m_est m; m_owed := m_owed m; m_hs := m_hs m; m_pka := m_pka m |}
    | IRecv d =>
        if m_sess m =? 0 then m else
        let m := if m_sess m =? 1 then complete t m else m in
        {| m_sess := m_sess m; m_queue := m_queue m; m_expect := m_expect m;
           m_tun := m_tun m ++ match d with Some id => [(id, t)] | None => [] end;
           m_optka := m_optka m; m_init := m_init m;
           m_recv := match d, m_recv m with Some _, None => Some t | _, r => r end;
           m_sent := None; m_last := Some t; m_est := m_est m; m_owed := m_owed m; m_hs := m_hs m; m_pka := m_pka m |}
    end.

  Definition opt_min (a b : option N) : option N :=
    match a, b with
    | Some x, Some y => Some (N.min x y)
    | Some x, None | None, Some x => Some x
    | None, None => None
    end.

  Definition persist_due (m : mon) : option N :=
    if (0 <? m_pka m) && ((m_sess m =? 2) ||
                      (* no session, no attempt in progress (device just came up): the keepalive
                         that is due needs a handshake first; the initiation counts *)
                      ((m_sess m =? 0) && match m_init m with None => true | _ => false end))
    then match m_last m with Some l => Some (l + m_pka m * sec) | None => None end
    else None.
  Definition recv_due (m : mon) : option N :=
    match m_recv m with Some r => Some (r + p_keepalive) | None => None end.

  (* a datagram handed to the bind at time t *)
  Definition on_dgram (t : N) (o : output) (m : mon) : mon * list N :=
    let is_ka := output_eqb o OKeepalive in
    let is_init := output_eqb o OInit in
    let free_ka := is_ka && m_optka m in
    (* keepalive clauses *)
    let c_late_p := match persist_due m with Some d => if d + hi <? t then [8] else [] | None => [] end in
    let c_late_r := match recv_due m with Some d => if d + hi <? t then [4] else [] | None => [] end in
    let c_early :=
      if is_ka && negb free_ka && match m_expect m with [] => true | _ => false end then
        match opt_min (persist_due m) (recv_due m) with
        | Some d => if t + lo <? d then [match persist_due m with Some _ => 9 | None => 5 end] else []
        | None => []
        end
      else [] in
    (* new-handshake clause *)
    let c_newhs :=
      if is_init then
        match m_sent m with
        | Some st =>
            (if st + p_newhs + jmax + hi <? t then [6] else []) ++
            (if (m_sess m =? 2) && match m_init m with None => true | _ => false end
                && (t + lo <? st + p_newhs) then [7] else [])
        | None => []
        end
      else [] in
    let sent' :=
      if is_init then None
      else match o, m_sent m with OData _, None => Some t | _, x => x end in
    (* retransmission clause *)
    let c_retx :=
      if is_init then
        match m_init m with
        | Some (t', n) =>
            (if t + lo <? t' + p_rekey then [1] else []) ++
            (if n <? maxTransmissions then (if t' + p_rekey + jmax + hi <? t then [2] else [])
             else if no_giveup m then (if t' + p_rekey + jmax + hi <? t then [2] else [])
             else if m_pka m =? 0 then [3]
             (* after the give-up the persistent keepalive starts the next cycle one interval after the
                last transmission: clause 8 *)
             else (if t' + N.max (p_rekey + jmax) (m_pka m * sec) + hi <? t then [8] else []))
        | None => []
        end
      else [] in
    let c_owed :=
      if is_init then match m_owed m with Some c => if c + hi <? t then [15] else [] | None => [] end
      else [] in
    let c_needless :=
      if is_init && (m_sess m =? 2) && (t <? m_est m + RekeyAfterTime)
         && match m_sent m, m_init m with None, None => true | _, _ => false end
      then [14] else [] in
    let init' :=
      if is_init then
        match m_init m with
        | Some (_, n) =>
            (* after the 20th: with a persistent keepalive a new attempt starts; without one every
               further initiation is a violation of clause 3 and keeps counting *)
            Some (t, if no_giveup m then 1
                     else if (maxTransmissions <=? n) && negb (m_pka m =? 0) then 1 else n + 1)
        | None => Some (t, 1)
        end
      else m_init m in
    (* owed datagrams: queued packets oldest first, responses *)
    let '(expect', c_exp) :=
      if is_init then (m_expect m, [])
      else match m_expect m with
           | (e, c) :: rest =>
               if output_eqb e o then (rest, if c + hi <? t then [11] else [])
               else if is_ka then (m_expect m, [])      (* a keepalive among the owed datagrams *)
               else (m_expect m, [10])
           | [] => ([], match o with OData _ | OResp => [10] | _ => [] end)
           end in
    ({| m_sess := m_sess m; m_queue := m_queue m; m_expect := expect'; m_tun := m_tun m;
        m_optka := if free_ka then false else m_optka m;
        m_init := init'; m_recv := None; m_sent := sent'; m_last := Some t; m_est := m_est m;
        m_owed := if is_init then None else m_owed m;
        m_hs := if is_init || output_eqb o OResp then t else m_hs m; m_pka := m_pka m |},
     c_late_p ++ c_late_r ++ c_early ++ c_newhs ++ c_needless ++ c_owed ++ c_retx ++ c_exp).

  Definition on_tun (t id : N) (m : mon) : mon * list N :=
    match m_tun m with
    | (i, c) :: rest =>
        if i =? id then
          ({| m_sess := m_sess m; m_queue := m_queue m; m_expect := m_expect m; m_tun := rest;
              m_optka := m_optka m; m_init := m_init m; m_recv := m_recv m; m_sent := m_sent m;
              m_last := m_last m; m_est := m_est m; m_owed := m_owed m; m_hs := m_hs m; m_pka := m_pka m |}, if c + hi <? t then [13] else [])
        else (m, [12])
    | [] => (m, [12])
    end.

  Definition on_end (T : N) (m : mon) : list N :=
    (match m_expect m with (_, c) :: _ => if c + hi <? T then [11] else [] | [] => [] end) ++
    (match m_tun m with (_, c) :: _ => if c + hi <? T then [13] else [] | [] => [] end) ++
    (match m_init m with
     | Some (t', n) =>
         if (n <? maxTransmissions) || no_giveup m
         then (if t' + p_rekey + jmax + hi <? T then [2] else [])
         else if m_pka m =? 0 then []
         else (if t' + N.max (p_rekey + jmax) (m_pka m * sec) + hi <? T then [8] else [])
     | None => []
     end) ++
    (match recv_due m with Some d => if d + hi <? T then [4] else [] | None => [] end) ++
    (match m_sent m with
     | Some st => if st + p_newhs + jmax + hi <? T then [6] else []
     | None => []
     end) ++
    (match persist_due m with Some d => if d + hi <? T then [8] else [] | None => [] end) ++
    (match m_owed m with Some c => if c + hi <? T then [15] else [] | None => [] end).

  Definition mstep (m : mon) (x : item) : mon * list N :=
    let m := tick (item_time x) m in
    match x with
    | In t i => (on_input t i m, [])
    | Out t (OTun id) => on_tun t id m
    | Out t (OErr k) =>
        (* a send the bind refused is an ATTEMPT: for the timing clauses it counts
           like the datagram itself (the device cannot do better), the packet is lost *)
        match k with
        | 0 => on_dgram t OInit m
        | 1 => on_dgram t OResp m
        | 2 => on_dgram t OKeepalive m
        | _ => match m_expect m with
               | (OData id, _) :: _ => on_dgram t (OData id) m
               | _ => on_dgram t OKeepalive m
               end
        end
    | Out t o => on_dgram t o m
    | End T => (m, on_end T m)
    end.

  (* (position in the trace, violated clause) *)
  Fixpoint violations_from (m : mon) (tr : list item) (pos : N) : list (N * N) :=
    match tr with
    | [] => []
    | x :: tr' =>
        let '(m', cs) := mstep m x in
        map (pair pos) cs ++ violations_from m' tr' (pos + 1)
    end.
  Definition mon_start : mon :=
    {| m_sess := 0; m_queue := []; m_expect := []; m_tun := []; m_optka := false; m_init := None;
       m_recv := None; m_sent := None; m_last := None; m_est := 0; m_owed := None; m_hs := 0;
       m_pka := pka0 |}.
  Definition violations (tr : list item) : list (N * N) := violations_from mon_start tr 0.
  Definition holdsb (tr : list item) : bool :=
    match violations tr with [] => true | _ => false end.
End Monitor.
