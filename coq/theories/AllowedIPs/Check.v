(* Correspondence checker for C08: replays the operation histories the real
   device.AllowedIPs ran on the trie model and on the association-list
   specification and compares every observation.
     kind 1 = implementation differs from the mirror model (lookups, per-peer
              listings, pre-order shape of both roots, parent/peer-list pointers)
     kind 2 = the specification fails on the implementation's answers
              (lookup <> longest-prefix match over the spec map, listing <> the
              set of masked prefixes the peer owns or has duplicates, root not
              nil although the spec map is empty, panic / non-termination)
   position = 8 * item index + what (1 lookup, 2 listing, 3 shape, 4 root not
   empty, 5 pointers, 6 crash, 7 undecodable operation or a concurrent plan whose
   answers are not the specification's, 0 look-up concurrent with unrelated churn
   operations gave another owner than the specification).
   Depends only on Trie.v and Spec.v.  Also: exhaustive sweeps of the model
   against the specification over a small alphabet (thorough tier). *)
From WG Require Import Base.Prelude Base.Ints AllowedIPs.Trie AllowedIPs.Spec.
From Coq Require Uint63.

(* ---------- decoding of the generated data (primitive ints only here) ---------- *)
Definition word_bits (w : N) : bits :=
  map (fun i => N.testbit w (N.of_nat (31 - i))) (seq 0 32).

Definition fam_of (n : N) : fam := if N.eqb n 4 then V4 else V6.
Definition width (f : fam) : nat := match f with V4 => W4 | V6 => W6 end.

Definition addr_bits (f : fam) (w0 w1 w2 w3 : N) : bits :=
  match f with
  | V4 => word_bits w0
  | V6 => word_bits w0 ++ word_bits w1 ++ word_bits w2 ++ word_bits w3
  end.

(* numbers of the implementation become unary naturals only through this
   clamp: an out-of-range value (e.g. the length of an invalid netip.Prefix in
   a listing) must give a wrong but SMALL number, not a 2^32-long unary one *)
Definition small (n : N) : nat := N.to_nat (N.min n 1023).

(* [code; fam; cidr; peer; w0; w1; w2; w3]   code 1 insert, 2 remove, 3 remove-by-peer *)
Definition dec_op (l : list N) : option op :=
  match l with
  | [c; f; cidr; x; w0; w1; w2; w3] =>
      let a := addr_bits (fam_of f) w0 w1 w2 w3 in
      if N.eqb c 1 then Some (Insert (fam_of f) a (small cidr) (small x))
      else if N.eqb c 2 then Some (Remove (fam_of f) a (small cidr) (small x))
      else if N.eqb c 3 then Some (RemoveByPeer (small x))
      else None
  | _ => None
  end.

(* probes: 5 numbers each  [fam; w0; w1; w2; w3] *)
Fixpoint dec_probes (l : list N) : list (fam * bits) :=
  match l with
  | f :: w0 :: w1 :: w2 :: w3 :: t => (fam_of f, addr_bits (fam_of f) w0 w1 w2 w3) :: dec_probes t
  | _ => []
  end.

(* lookup answers: 0 = nil, k+1 = peer k *)
Definition dec_ans (n : N) : option peer := if N.eqb n 0 then None else Some (small (n - 1)).

(* an entry / a node as the implementation shows it: cidr and the full-width
   stored address (which must be masked) *)
Definition ent := (nat * bits)%type.
Definition ent_eqb (a b : ent) : bool := Nat.eqb (fst a) (fst b) && beqb (snd a) (snd b).
Definition pad (w : nat) (p : bits) : ent := (length p, p ++ repeat false (w - length p)).

(* listing of one peer: 6 numbers per entry [fam; cidr; w0; w1; w2; w3] *)
Fixpoint dec_listing (l : list N) : list (fam * ent) :=
  match l with
  | f :: c :: w0 :: w1 :: w2 :: w3 :: t =>
      (fam_of f, (small c, addr_bits (fam_of f) w0 w1 w2 w3)) :: dec_listing t
  | _ => []
  end.
Definition fam_eqb (f g : fam) : bool := match f, g with V4, V4 | V6, V6 => true | _, _ => false end.
Definition of_fam (f : fam) (l : list (fam * ent)) : list ent :=
  map snd (filter (fun e => fam_eqb (fst e) f) l).

Definition mem (e : ent) (l : list ent) : bool := existsb (ent_eqb e) l.
Definition incl_b (a b : list ent) : bool := forallb (fun e => mem e b) a.
Fixpoint nodup_b (l : list ent) : bool :=
  match l with [] => true | e :: t => negb (mem e t) && nodup_b t end.
Definition seteq_b (a b : list ent) : bool := incl_b a b && incl_b b a.

(* shape tokens, pre-order with explicit nil children *)
Inductive tok := TL | TN (e : ent) (o : option peer) | TBad.
Definition opt_eqb (a b : option peer) : bool :=
  match a, b with
  | None, None => true
  | Some x, Some y => Nat.eqb x y
  | _, _ => false
  end.
Definition tok_eqb (a b : tok) : bool :=
  match a, b with
  | TL, TL => true
  | TN e o, TN e' o' => ent_eqb e e' && opt_eqb o o'
  | _, _ => false
  end.
Fixpoint toks_eqb (a b : list tok) : bool :=
  match a, b with
  | [], [] => true
  | x :: a', y :: b' => tok_eqb x y && toks_eqb a' b'
  | _, _ => false
  end.

Fixpoint shape (w : nat) (t : trie) : list tok :=
  match t with
  | Leaf => [TL]
  | Node q o l r => TN (pad w q) o :: shape w l ++ shape w r
  end.

(* observed shape: nil = 0; node = cidr+1, owner+1 (0 = none), address words *)
Fixpoint dec_shape4 (l : list N) : list tok :=
  match l with
  | [] => []
  | c :: t =>
      if N.eqb c 0 then TL :: dec_shape4 t else
      match t with
      | x :: w0 :: t' => TN (small (c - 1), word_bits w0) (dec_ans x) :: dec_shape4 t'
      | _ => [TBad]
      end
  end.
Fixpoint dec_shape6 (l : list N) : list tok :=
  match l with
  | [] => []
  | c :: t =>
      if N.eqb c 0 then TL :: dec_shape6 t else
      match t with
      | x :: w0 :: w1 :: w2 :: w3 :: t' =>
          TN (small (c - 1), addr_bits V6 w0 w1 w2 w3) (dec_ans x) :: dec_shape6 t'
      | _ => [TBad]
      end
  end.

(* ---------- cases ---------- *)
Inductive item :=
| IOp (l : list Uint63.int)
| IObs (look : list Uint63.int) (lists : list (list Uint63.int)) (sh4 sh6 : list Uint63.int).

Record case := mkcase {
  c_probes : list Uint63.int;
  c_items : list item;
  c_ptrbad : Uint63.int;   (* 0, or 1 + index of the item after which the pointer check failed *)
  c_crash : Uint63.int;    (* 0, or 1 + index of the item at which the implementation panicked / hung *)
  c_cwant : list Uint63.int; (* concurrent plan: pairs [probe index; answer] the concurrent look-ups are compared with *)
  c_cfrom : Uint63.int;    (* ... which must be the specification's answers at every observation from this item on *)
  c_conc : Uint63.int      (* concurrent phase (if any): number of look-ups, run concurrently with churn
                              operations that cannot change their answer, that did NOT return the owner
                              the specification gives for the address (what = 0) *)
}.

Definition is_nil {A} (l : list A) : bool := match l with [] => true | _ => false end.

Fixpoint forallb2 {A B} (f : A -> B -> bool) (a : list A) (b : list B) : bool :=
  match a, b with
  | [], [] => true
  | x :: a', y :: b' => f x y && forallb2 f a' b'
  | _, _ => false
  end.

(* listings: list index = peer id *)
Fixpoint listings_ok (model : fam -> peer -> list bits) (strict : bool)
         (ls : list (list Uint63.int)) (x : peer) : bool :=
  match ls with
  | [] => true
  | l :: ls' =>
      let obs := dec_listing (ns_of_ints l) in
      let o4 := of_fam V4 obs in
      let o6 := of_fam V6 obs in
      seteq_b o4 (map (pad W4) (model V4 x)) && seteq_b o6 (map (pad W6) (model V6 x)) &&
      (if strict then nodup_b o4 && nodup_b o6 else true) &&
      listings_ok model strict ls' (S x)
  end.

Section Obs.
  Variable probes : list (fam * bits).
  Variable s : table.
  Variable sp : sstate.

  (* which observation differs: 0 none *)
  Definition model_obs (look : list Uint63.int) (lists : list (list Uint63.int)) (sh4 sh6 : list Uint63.int) : N :=
    if negb (forallb2 (fun pr r => opt_eqb (tlookup s (fst pr) (snd pr)) (dec_ans r)) probes (ns_of_ints look)) then 1%N
    else if negb (listings_ok (tentries s) false lists 0) then 2%N
    else if negb (toks_eqb (shape W4 (t4 s)) (dec_shape4 (ns_of_ints sh4)) &&
                  toks_eqb (shape W6 (t6 s)) (dec_shape6 (ns_of_ints sh6))) then 3%N
    else 0%N.

  Definition spec_obs (look : list Uint63.int) (lists : list (list Uint63.int)) (sh4 sh6 : list Uint63.int) : N :=
    if negb (forallb2 (fun pr r => opt_eqb (slookup (ssel sp (fst pr)) (snd pr)) (dec_ans r)) probes (ns_of_ints look)) then 1%N
    else if negb (listings_ok (fun f x => sentries (ssel sp f) x) true lists 0) then 2%N
    else if (is_nil (s4 sp) && negb (toks_eqb [TL] (dec_shape4 (ns_of_ints sh4)))) ||
            (is_nil (s6 sp) && negb (toks_eqb [TL] (dec_shape6 (ns_of_ints sh6)))) then 4%N
    else 0%N.
End Obs.

(* the concurrent oracle: from item [cfrom] on the specification must give the
   planned answer for every planned probe (so that the owners the concurrent
   look-ups are compared with ARE the specification's, whatever the interleaving;
   theorem lookup_stable_under_unrelated_ops) *)
Fixpoint dec_want (l : list N) : list (nat * option peer) :=
  match l with
  | i :: w :: t => (small i, dec_ans w) :: dec_want t
  | _ => []
  end.
Definition plan_ok (probes : list (fam * bits)) (sp : sstate) (cw : list (nat * option peer)) : bool :=
  forallb (fun iw => match nth_error probes (fst iw) with
                     | Some pr => opt_eqb (slookup (ssel sp (fst pr)) (snd pr)) (snd iw)
                     | None => false
                     end) cw.

Fixpoint walk (probes : list (fam * bits)) (cw : list (nat * option peer)) (cfrom : N)
         (its : list item) (s : table) (sp : sstate) (i : N)
         (k1 k2 : option N) : option N * option N :=
  match its with
  | [] => (k1, k2)
  | IOp l :: its' =>
      match dec_op (ns_of_ints l) with
      | Some o => walk probes cw cfrom its' (fst (step s o)) (fst (sstep sp o)) (i + 1) k1 k2
      | None => (Some (8 * i + 7)%N, k2)
      end
  | IObs look lists sh4 sh6 :: its' =>
      let k1' := match k1 with
                 | Some _ => k1
                 | None => let w := model_obs probes s look lists sh4 sh6 in
                           if negb (N.eqb w 0) then Some (8 * i + w)%N
                           else if (cfrom <=? i)%N && negb (plan_ok probes sp cw) then Some (8 * i + 7)%N
                           else None
                 end in
      let k2' := match k2 with
                 | Some _ => k2
                 | None => let w := spec_obs probes sp look lists sh4 sh6 in
                           if N.eqb w 0 then None else Some (8 * i + w)%N
                 end in
      walk probes cw cfrom its' s sp (i + 1) k1' k2'
  end.

Definition check_case (k : case) : list (N * N) :=
  let '(k1, k2) := walk (dec_probes (ns_of_ints (c_probes k))) (dec_want (ns_of_ints (c_cwant k))) (n_of_int (c_cfrom k))
                        (c_items k) empty sempty 0 None None in
  let pb := n_of_int (c_ptrbad k) in
  let cr := n_of_int (c_crash k) in
  (match k1 with Some p => [(1, p)] | None => [] end)%N ++
  (if N.eqb pb 0 then [] else [(1, 8 * (pb - 1) + 5)])%N ++
  (match k2 with Some p => [(2, p)] | None => [] end)%N ++
  (if N.eqb cr 0 then [] else [(2, 8 * (cr - 1) + 6)])%N ++
  (if N.eqb (n_of_int (c_conc k)) 0 then [] else [(2, 8 * N.of_nat (length (c_items k)))])%N.

Fixpoint check_cases (ks : list case) (idx : N) : list (N * N * N) :=
  match ks with
  | [] => []
  | k :: ks' => map (fun p => (idx, fst p, snd p)) (check_case k) ++ check_cases ks' (idx + 1)
  end.

(* ---------- branch statistics of the model over the cases ----------
   0 insert into empty root   1 reassign (exact node)   2 new leaf below a node
   3 new node above a node    4 glue node at a fork
   5 remove: no such entry    6 remove: other owner     7 removed node keeps two children (becomes glue)
   8 removed node replaced by its only child            9 removed leaf, parent stays
   10 removed leaf, glue parent collapses               11 remove-by-peer with entries
   12 remove-by-peer without entries                    13 operation leaves the root empty *)
Fixpoint cls_insert (t : trie) (p : bits) : nat :=
  match t with
  | Leaf => 2
  | Node q o l r =>
    let c := common q p in
    if (c =? length q) && (length q <=? length p) then
      if length q =? length p then 1
      else if nthb p (length q) then cls_insert r p else cls_insert l p
    else if c =? length p then 3 else 4
  end.

Fixpoint cls_remove (t : trie) (p : bits) (x : peer) (glue_parent : bool) : nat :=
  match t with
  | Leaf => 5
  | Node q o l r =>
    if prefixb q p then
      if length q =? length p then
        match o with
        | Some y => if y =? x then
                      match l, r with
                      | Leaf, Leaf => if glue_parent then 10 else 9
                      | Leaf, _ | _, Leaf => 8
                      | _, _ => 7
                      end
                    else 6
        | None => 5
        end
      else cls_remove (if nthb p (length q) then r else l) p x (match o with None => true | _ => false end)
    else 5
  end.

Definition classify (s : table) (o : op) : nat :=
  match o with
  | Insert f a c x => match sel s f with Leaf => 0 | t => cls_insert t (mask a c) end
  | Remove f a c x => cls_remove (sel s f) (mask a c) x false
  | RemoveByPeer x => if is_nil (tentries s V4 x) && is_nil (tentries s V6 x) then 12 else 11
  end.

Fixpoint bump (l : list N) (i : nat) : list N :=
  match l, i with
  | [], _ => []
  | x :: t, O => (x + 1)%N :: t
  | x :: t, S j => x :: bump t j
  end.

Definition emptied (s s' : table) (o : op) : bool :=
  match o with
  | Insert _ _ _ _ => false
  | Remove f _ _ _ => negb (is_leaf (sel s f)) && is_leaf (sel s' f)
  | RemoveByPeer _ => (negb (is_leaf (t4 s)) && is_leaf (t4 s')) || (negb (is_leaf (t6 s)) && is_leaf (t6 s'))
  end.

Fixpoint stats_items (its : list item) (s : table) (st : list N) : list N :=
  match its with
  | [] => st
  | IOp l :: its' =>
      match dec_op (ns_of_ints l) with
      | Some o =>
          let s' := fst (step s o) in
          let st1 := bump st (classify s o) in
          stats_items its' s' (if emptied s s' o then bump st1 13 else st1)
      | None => st
      end
  | IObs _ _ _ _ :: its' => stats_items its' s st
  end.

Definition stats (ks : list case) : list N :=
  fold_left (fun st k => stats_items (c_items k) empty st) ks (repeat 0%N 14).

(* ---------- exhaustive sweeps: model against specification ----------
   All operation sequences up to a given length over a small alphabet of
   nested / sibling prefixes and two peers; at EVERY visited state: lookups on
   all addresses agree with the spec, listings agree as sets, the invariant
   holds, an empty spec map means a nil root.  (Redundant with the theorems in
   Proofs.v; kept as an independent executable cross-check of model and spec.) *)
Fixpoint wfb (pre : bits) (t : trie) : bool :=
  match t with
  | Leaf => true
  | Node q o l r =>
      prefixb pre q && wfb (q ++ [false]) l && wfb (q ++ [true]) r &&
      match o with None => negb (is_leaf l) && negb (is_leaf r) | Some _ => true end
  end.

Definition agree (probes : list bits) (s : table) (sp : sstate) : bool :=
  forallb (fun a => opt_eqb (tlookup s V4 a) (slookup (s4 sp) a)) probes &&
  seteq_b (map (pad 4) (tentries s V4 0)) (map (pad 4) (sentries (s4 sp) 0)) &&
  seteq_b (map (pad 4) (tentries s V4 1)) (map (pad 4) (sentries (s4 sp) 1)) &&
  wfb [] (t4 s) &&
  (if is_nil (s4 sp) then is_leaf (t4 s) else true).

Definition alphabet (prefixes : list bits) : list op :=
  flat_map (fun p => [Insert V4 p (length p) 0; Insert V4 p (length p) 1;
                      Remove V4 p (length p) 0; Remove V4 p (length p) 1]) prefixes
  ++ [RemoveByPeer 0; RemoveByPeer 1].

(* (visited states, first disagreeing path as op indices) *)
Fixpoint sweep (d : nat) (alpha : list op) (probes : list bits) (s : table) (sp : sstate)
  : N * option (list N) :=
  if negb (agree probes s sp) then (1%N, Some []) else
  match d with
  | O => (1%N, None)
  | S d' =>
      snd (fold_left
             (fun acc o =>
                let '(i, (n, b)) := acc in
                match b with
                | Some _ => acc
                | None =>
                    let r := sweep d' alpha probes (fst (step s o)) (fst (sstep sp o)) in
                    ((i + 1)%N, ((n + fst r)%N, option_map (cons i) (snd r)))
                end)
             alpha (0%N, (1%N, None)))
  end.

(* sweep below the given first operations (indices into the alphabet) *)
Definition sweep_shard (d : nat) (alpha : list op) (probes : list bits) (first : list N)
  : N * option (list N) :=
  fold_left
    (fun acc i =>
       let '(n, b) := acc in
       match b, nth_error alpha (N.to_nat i) with
       | None, Some o =>
           let r := sweep d alpha probes (fst (step empty o)) (fst (sstep sempty o)) in
           ((n + fst r)%N, option_map (cons i) (snd r))
       | _, _ => acc
       end)
    first (0%N, None).

Fixpoint all_bits (n : nat) : list bits :=
  match n with
  | O => [[]]
  | S k => map (cons false) (all_bits k) ++ map (cons true) (all_bits k)
  end.

Definition F := false.
Definition T := true.
(* 14 prefixes of a 4-bit address space: the chain [] < 0 < 00 < 000 < 0000,
   siblings on every level, far branches, a prefix (1) that doubles as a fork *)
Definition prefixes14 : list bits :=
  [ []; [F]; [T]; [F;F]; [F;T]; [T;F]; [F;F;F]; [F;F;T]; [F;T;T];
    [F;F;F;F]; [F;F;F;T]; [F;F;T;F]; [T;F;T;T]; [T;T;T;T] ].
Definition prefixes6 : list bits :=
  [ []; [F;F;F;F]; [F;F;F;T]; [F;F;T]; [F;T]; [T;T;T] ].
Definition alpha14 := alphabet prefixes14.   (* 58 operations *)
Definition alpha6 := alphabet prefixes6.     (* 26 operations *)
Definition probes4 := all_bits 4.
