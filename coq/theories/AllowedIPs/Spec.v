(* The property C08 as the simplest executable specification: per family an
   association list  masked prefix |-> owner  (at most one entry per prefix)
   and longest-prefix match by scanning it. *)
From WG Require Import Base.Prelude AllowedIPs.Trie.

Definition amap := list (bits * peer).

Fixpoint beqb (a b : bits) : bool :=
  match a, b with
  | [], [] => true
  | x :: a', y :: b' => Bool.eqb x y && beqb a' b'
  | _, _ => false
  end.

(* the better of two candidate matches (length of the prefix, owner) *)
Definition better (u v : option (nat * peer)) : option (nat * peer) :=
  match u, v with
  | None, _ => v
  | _, None => u
  | Some (n, x), Some (m, y) => if n <? m then v else u
  end.

(* longest stored prefix containing [a], with its owner *)
Fixpoint lpm (cs : amap) (a : bits) : option (nat * peer) :=
  match cs with
  | [] => None
  | (p, x) :: cs' => better (if prefixb p a then Some (length p, x) else None) (lpm cs' a)
  end.

Definition slookup (cs : amap) (a : bits) : option peer := option_map snd (lpm cs a).

(* insert = (re)assign the prefix *)
Definition sinsert (cs : amap) (p : bits) (x : peer) : amap :=
  (p, x) :: filter (fun e => negb (beqb (fst e) p)) cs.
(* remove the prefix if this peer owns it *)
Definition sremove (cs : amap) (p : bits) (x : peer) : amap :=
  filter (fun e => negb (beqb (fst e) p && (snd e =? x))) cs.
Definition sremove_by_peer (cs : amap) (x : peer) : amap :=
  filter (fun e => negb (snd e =? x)) cs.
Definition sentries (cs : amap) (x : peer) : list bits :=
  map fst (filter (fun e => snd e =? x) cs).

Record sstate := { s4 : amap; s6 : amap }.
Definition sempty : sstate := {| s4 := []; s6 := [] |}.
Definition ssel (s : sstate) (f : fam) : amap := match f with V4 => s4 s | V6 => s6 s end.
Definition supd (s : sstate) (f : fam) (m : amap) : sstate :=
  match f with V4 => {| s4 := m; s6 := s6 s |} | V6 => {| s4 := s4 s; s6 := m |} end.

Definition sstep (s : sstate) (o : op) : sstate * unit :=
  match o with
  | Insert f a c x => (supd s f (sinsert (ssel s f) (mask a c) x), tt)
  | Remove f a c x => (supd s f (sremove (ssel s f) (mask a c) x), tt)
  | RemoveByPeer x => ({| s4 := sremove_by_peer (s4 s) x; s6 := sremove_by_peer (s6 s) x |}, tt)
  end.
