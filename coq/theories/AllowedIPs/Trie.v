(* Functional image of device/allowedips.go: the path-compressed binary trie
   behind device.AllowedIPs, one trie per address family (DESIGN.md appendix A).

   A node carries its MASKED prefix as a list of bits (length = cidr, so
   0..32 / 0..128 for the two families), an optional owner (None = glue node
   created at a fork) and two children.  Pointer surgery of the Go code
   (parentIndirection, the unsafe parent recovery in trieEntry.remove) has as
   functional image "rebuild the path" + [splice].  No proofs in this file. *)
From WG Require Import Base.Prelude.

Definition bits := list bool.
Definition peer := nat.

(* address widths of the two tables (net.IPv4len*8, net.IPv6len*8) *)
Definition W4 : nat := 32.
Definition W6 : nat := 128.

(* p is a prefix of a:  commonBits(node.bits, ip) >= node.cidr *)
Fixpoint prefixb (p a : bits) : bool :=
  match p, a with
  | [], _ => true
  | x :: p', y :: a' => Bool.eqb x y && prefixb p' a'
  | _ :: _, [] => false
  end.

(* commonBits, cut at the shorter length (the Go code takes min(common, cidr)) *)
Fixpoint common (a b : bits) : nat :=
  match a, b with
  | x :: a', y :: b' => if Bool.eqb x y then S (common a' b') else 0
  | _, _ => 0
  end.

(* node.choose(ip) for a node of cidr n: bit number n of the address *)
Definition nthb (a : bits) (n : nat) : bool := nth n a false.

Inductive trie := Leaf | Node (q : bits) (o : option peer) (l r : trie).

(* parentIndirection.insert *)
Fixpoint insert (t : trie) (p : bits) (x : peer) : trie :=
  match t with
  | Leaf => Node p (Some x) Leaf Leaf
  | Node q o l r =>
    let c := common q p in
    if (c =? length q) && (length q <=? length p) then      (* nodePlacement walks through q *)
      if length q =? length p then Node q (Some x) l r      (* exact: reassign *)
      else if nthb p (length q) then Node q o l (insert r p x) else Node q o (insert l p x) r
    else if c =? length p then                              (* newNode.cidr == cidr: p above q *)
      if nthb q (length p) then Node p (Some x) Leaf t else Node p (Some x) t Leaf
    else                                                    (* glue node at the fork *)
      if nthb q c then Node (firstn c p) None (Node p (Some x) Leaf Leaf) t
      else Node (firstn c p) None t (Node p (Some x) Leaf Leaf)
  end.

(* trieEntry.lookup *)
Fixpoint lookup (t : trie) (a : bits) : option peer :=
  match t with
  | Leaf => None
  | Node q o l r =>
    if prefixb q a then
      let deeper := if length q <? length a
                    then (if nthb a (length q) then lookup r a else lookup l a) else None in
      match deeper with Some x => Some x | None => o end
    else None
  end.

(* a peer-less node with fewer than two children disappears *)
Definition splice (t : trie) : trie :=
  match t with
  | Node q None Leaf r => r
  | Node q None l Leaf => l
  | _ => t
  end.

(* AllowedIPs.Remove = nodePlacement (exact, same owner) + trieEntry.remove:
   the node loses its owner; with <2 children it is replaced by its child (or
   nothing), and if that leaves a glue parent with one child the parent goes
   too.  Glue nodes have two children, so [splice] is the identity on every
   higher level of the path. *)
Fixpoint remove (t : trie) (p : bits) (x : peer) : trie :=
  match t with
  | Leaf => Leaf
  | Node q o l r =>
    if prefixb q p then
      if length q =? length p then
        match o with
        | Some y => if y =? x then splice (Node q None l r) else t
        | None => t
        end
      else if nthb p (length q) then splice (Node q o l (remove r p x))
           else splice (Node q o (remove l p x) r)
    else t
  end.

(* stored (masked prefix, owner) pairs, pre-order *)
Fixpoint contents (t : trie) : list (bits * peer) :=
  match t with
  | Leaf => []
  | Node q o l r => (match o with Some x => [(q, x)] | None => [] end) ++ contents l ++ contents r
  end.

(* EntriesForPeer: the peer's reverse index (as a set; the Go list is in
   insertion order, this one in pre-order) *)
Definition entries_for (t : trie) (x : peer) : list bits :=
  map fst (filter (fun e => snd e =? x) (contents t)).

(* RemoveByPeer: trieEntry.remove on every node of the peer's list *)
Definition remove_by_peer (t : trie) (x : peer) : trie :=
  fold_left (fun t p => remove t p x) (entries_for t x) t.

(* ---------- the table: two tries, API-level operations ---------- *)
Inductive fam := V4 | V6.
Record table := { t4 : trie; t6 : trie }.
Definition empty : table := {| t4 := Leaf; t6 := Leaf |}.

Definition sel (s : table) (f : fam) : trie := match f with V4 => t4 s | V6 => t6 s end.
Definition upd (s : table) (f : fam) (t : trie) : table :=
  match f with V4 => {| t4 := t; t6 := t6 s |} | V6 => {| t4 := t4 s; t6 := t |} end.

(* maskSelf / "cidr = min(common, cidr)": only the first cidr bits of the
   address given with a prefix take part *)
Definition mask (a : bits) (cidr : nat) : bits := firstn cidr a.

(* [a] is the full address of the netip.Prefix (host bits may be set) *)
Inductive op :=
| Insert (f : fam) (a : bits) (cidr : nat) (x : peer)
| Remove (f : fam) (a : bits) (cidr : nat) (x : peer)
| RemoveByPeer (x : peer).

Definition step (s : table) (o : op) : table * unit :=
  match o with
  | Insert f a c x => (upd s f (insert (sel s f) (mask a c) x), tt)
  | Remove f a c x => (upd s f (remove (sel s f) (mask a c) x), tt)
  | RemoveByPeer x => ({| t4 := remove_by_peer (t4 s) x; t6 := remove_by_peer (t6 s) x |}, tt)
  end.

Definition tlookup (s : table) (f : fam) (a : bits) : option peer := lookup (sel s f) a.
Definition tentries (s : table) (f : fam) (x : peer) : list bits := entries_for (sel s f) x.

(* ---------- representation invariant ---------- *)
Definition is_leaf t := match t with Leaf => true | _ => false end.

(* every node extends [pre]; the left/right subtree extends the node's prefix
   by a 0/1 bit; glue nodes have two children *)
Fixpoint wf (pre : bits) (t : trie) : Prop :=
  match t with
  | Leaf => True
  | Node q o l r =>
    prefixb pre q = true /\ wf (q ++ [false]) l /\ wf (q ++ [true]) r /\
    (o = None -> is_leaf l = false /\ is_leaf r = false)
  end.

Definition wf_table (s : table) : Prop := wf [] (t4 s) /\ wf [] (t6 s).
