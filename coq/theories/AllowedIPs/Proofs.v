(* Proofs for C08: the trie of AllowedIPs/Trie.v is an exact longest-prefix-
   match map (AllowedIPs/Spec.v) for ALL operation sequences and addresses. *)
From WG Require Import Base.Prelude AllowedIPs.Trie AllowedIPs.Spec.
From Coq Require Import Arith.

(* ---------- basic facts ---------- *)
Lemma prefixb_refl p : prefixb p p = true.
Proof. induction p as [|x p IH]; cbn; auto. now rewrite eqb_reflx, IH. Qed.

Lemma prefixb_trans p q a : prefixb p q = true -> prefixb q a = true -> prefixb p a = true.
Proof.
  revert q a. induction p as [|x p IH]; intros [|y q] [|z a]; cbn; auto; try discriminate.
  intros H1 H2. apply andb_true_iff in H1 as [E1 H1]. apply andb_true_iff in H2 as [E2 H2].
  apply eqb_prop in E1. apply eqb_prop in E2. subst. rewrite eqb_reflx. cbn. eauto.
Qed.

Lemma prefixb_length p a : prefixb p a = true -> length p <= length a.
Proof.
  revert a. induction p as [|x p IH]; intros [|y a]; cbn; try lia; try discriminate.
  intros H. apply andb_true_iff in H as [_ H]. apply IH in H. lia.
Qed.

Lemma prefixb_app_bit q b a :
  prefixb (q ++ [b]) a = prefixb q a && (length q <? length a) && Bool.eqb b (nthb a (length q)).
Proof.
  revert a. induction q as [|x q IH]; intros [|y a]; cbn; rewrite ?andb_true_r, ?andb_false_r; auto.
  rewrite IH. unfold nthb. cbn. rewrite <- !andb_assoc. reflexivity.
Qed.

Lemma prefixb_app_l q s : prefixb q (q ++ s) = true.
Proof. induction q as [|x q IH]; cbn; auto. now rewrite eqb_reflx, IH. Qed.

Lemma better_assoc u v w : better u (better v w) = better (better u v) w.
Proof.
  destruct u as [[n x]|], v as [[m y]|], w as [[k z]|]; cbn [better]; auto;
  repeat match goal with |- context [?a <? ?b] => destruct (Nat.ltb_spec a b) end;
  cbn [better]; auto;
  repeat match goal with |- context [?a <? ?b] => destruct (Nat.ltb_spec a b) end; auto; lia.
Qed.

Lemma lpm_app cs ds a : lpm (cs ++ ds) a = better (lpm cs a) (lpm ds a).
Proof.
  induction cs as [|[p x] cs IH]; cbn [app lpm]; [reflexivity|].
  now rewrite IH, better_assoc.
Qed.

Lemma contents_prefix t : forall pre p x, wf pre t -> In (p, x) (contents t) -> prefixb pre p = true.
Proof.
  induction t as [|q o l IHl r IHr]; intros pre p x Hwf Hin; cbn in *; [tauto|].
  destruct Hwf as (Hq & Hl & Hr & _).
  apply in_app_or in Hin as [Hin|Hin].
  - destruct o; cbn in Hin; [|tauto]. destruct Hin as [E|[]]. now inversion E; subst.
  - assert (prefixb q p = true).
    { apply in_app_or in Hin as [Hin|Hin].
      - eapply prefixb_trans; [apply (prefixb_app_l q [false])|]. eapply IHl; eauto.
      - eapply prefixb_trans; [apply (prefixb_app_l q [true])|]. eapply IHr; eauto. }
    eapply prefixb_trans; eauto.
Qed.

Lemma lpm_none_list cs a : (forall p x, In (p, x) cs -> prefixb p a = false) -> lpm cs a = None.
Proof.
  induction cs as [|[p x] cs IH]; cbn; auto. intros H.
  rewrite (H p x) by (left; auto). cbn. apply IH. intros; eapply H; right; eauto.
Qed.

Lemma lpm_none_under t pre a : wf pre t -> prefixb pre a = false -> lpm (contents t) a = None.
Proof.
  intros Hwf Hna. apply lpm_none_list. intros p x Hin.
  destruct (prefixb p a) eqn:E; auto.
  pose proof (contents_prefix t pre p x Hwf Hin) as Hp.
  rewrite (prefixb_trans _ _ _ Hp E) in Hna. discriminate.
Qed.

Lemma lpm_len_list cs a k : (forall p y, In (p, y) cs -> k <= length p) ->
  forall n x, lpm cs a = Some (n, x) -> k <= n.
Proof.
  induction cs as [|[p y] cs IH]; cbn [lpm]; [discriminate|]. intros H n x.
  pose proof (H p y (or_introl eq_refl)) as Hp.
  assert (IH' := IH (fun p y Hin => H p y (or_intror Hin))).
  destruct (prefixb p a); cbn [better].
  - destruct (lpm cs a) as [[m z]|] eqn:E.
    + destruct (length p <? m); intros Heq; inversion Heq; subst; eauto.
    + intros Heq; inversion Heq; subst; auto.
  - apply IH'.
Qed.

Lemma lpm_len_under t pre a n x : wf pre t -> lpm (contents t) a = Some (n, x) -> length pre <= n.
Proof.
  intros Hwf. apply lpm_len_list. intros p y Hin. apply prefixb_length. eapply contents_prefix; eauto.
Qed.

Theorem lookup_is_lpm t : forall pre a, wf pre t -> lookup t a = option_map snd (lpm (contents t) a).
Proof.
  induction t as [|q o l IHl r IHr]; intros pre a Hwf; cbn [lookup contents]; auto.
  pose proof Hwf as (Hq & Hl & Hr & Hg).
  destruct (prefixb q a) eqn:Eq.
  2:{ assert (Hwq: wf q (Node q o l r)) by (cbn; repeat split; auto using prefixb_refl; now apply Hg).
      change ((match o with Some x => [(q, x)] | None => [] end) ++ contents l ++ contents r)
        with (contents (Node q o l r)).
      now rewrite (lpm_none_under _ q a Hwq Eq). }
  rewrite !lpm_app.
  (* the branch not taken contributes nothing; the branch taken is strictly longer than q *)
  match goal with |- context [better (lpm ?L a) _] =>
    assert (Hown: lpm L a = match o with Some x => Some (length q, x) | None => None end)
      by (destruct o; cbn [lpm better]; rewrite ?Eq; auto);
    rewrite Hown end.
  destruct (length q <? length a) eqn:Elen.
  - destruct (nthb a (length q)) eqn:Ebit.
    + rewrite (lpm_none_under l (q ++ [false]) a Hl).
      2:{ rewrite prefixb_app_bit, Eq, Elen, Ebit. reflexivity. }
      rewrite (IHr _ a Hr). cbn [better].
      destruct (lpm (contents r) a) as [[n y]|] eqn:Er; cbn [option_map snd better].
      * apply lpm_len_under with (pre := q ++ [true]) in Er; auto. rewrite app_length in Er. cbn in Er.
        destruct o; cbn [option_map snd better]; auto. replace (length q <? n) with true; auto. symmetry; apply Nat.ltb_lt; lia.
      * destruct o; auto.
    + rewrite (lpm_none_under r (q ++ [true]) a Hr).
      2:{ rewrite prefixb_app_bit, Eq, Elen, Ebit. reflexivity. }
      rewrite (IHl _ a Hl).
      destruct (lpm (contents l) a) as [[n y]|] eqn:El; cbn [option_map snd better].
      * apply lpm_len_under with (pre := q ++ [false]) in El; auto. rewrite app_length in El. cbn in El.
        destruct o; cbn [option_map snd better]; auto. replace (length q <? n) with true; auto. symmetry; apply Nat.ltb_lt; lia.
      * destruct o; auto.
  - rewrite (lpm_none_under l (q ++ [false]) a Hl), (lpm_none_under r (q ++ [true]) a Hr).
    + destruct o; auto.
    + rewrite prefixb_app_bit, Eq, Elen. reflexivity.
    + rewrite prefixb_app_bit, Eq, Elen. reflexivity.
Qed.

(* ---------- insert ---------- *)
Lemma common_le_l a b : common a b <= length a.
Proof. revert b; induction a as [|x a IH]; intros [|y b]; cbn; try lia. destruct (eqb x y); cbn; [specialize (IH b)|]; lia. Qed.
Lemma common_le_r a b : common a b <= length b.
Proof. revert b; induction a as [|x a IH]; intros [|y b]; cbn; try lia. destruct (eqb x y); cbn; [specialize (IH b)|]; lia. Qed.
Lemma common_full_l a b : common a b = length a -> prefixb a b = true.
Proof.
  revert b; induction a as [|x a IH]; intros [|y b]; cbn; auto; try discriminate.
  destruct (eqb x y) eqn:E; [|discriminate]. intros H. cbn. apply IH. lia.
Qed.
Lemma common_sym a b : common a b = common b a.
Proof. revert b; induction a as [|x a IH]; intros [|y b]; cbn; auto.
  rewrite IH. destruct x, y; reflexivity. Qed.
Lemma prefixb_common a b : prefixb a b = true -> common a b = length a.
Proof.
  revert b; induction a as [|x a IH]; intros [|y b]; cbn; auto; try discriminate.
  intros H. apply andb_true_iff in H as [E H]. rewrite E. f_equal. auto.
Qed.
Lemma common_firstn a b : prefixb (firstn (common a b) b) a = true /\ prefixb (firstn (common a b) b) b = true.
Proof.
  revert b; induction a as [|x a IH]; intros [|y b]; cbn; auto.
  destruct (eqb x y) eqn:E; cbn; auto. apply eqb_prop in E; subst.
  rewrite eqb_reflx. cbn. apply IH.
Qed.
Lemma common_diff a b : common a b < length a -> common a b < length b ->
  nthb a (common a b) <> nthb b (common a b).
Proof.
  revert b; induction a as [|x a IH]; intros [|y b]; cbn; try lia.
  destruct (eqb x y) eqn:E; cbn.
  - intros H1 H2. unfold nthb in *. cbn. apply IH; lia.
  - intros _ _. unfold nthb. cbn. intro; subst. now rewrite eqb_reflx in E.
Qed.
(* a common prefix of both is no longer than [common] *)
Lemma prefix_both_le pre a b : prefixb pre a = true -> prefixb pre b = true -> length pre <= common a b.
Proof.
  revert a b; induction pre as [|z pre IH]; intros [|x a] [|y b]; cbn; try lia; try discriminate.
  intros H1 H2. apply andb_true_iff in H1 as [E1 H1]. apply andb_true_iff in H2 as [E2 H2].
  apply eqb_prop in E1, E2. subst. rewrite eqb_reflx. specialize (IH a b H1 H2). lia.
Qed.
Lemma prefixb_firstn pre p n : prefixb pre p = true -> length pre <= n -> prefixb pre (firstn n p) = true.
Proof.
  revert p n; induction pre as [|z pre IH]; intros [|x p] [|n]; cbn; auto; try lia; try discriminate.
  intros H Hl. apply andb_true_iff in H as [E H]. rewrite E. cbn. apply IH; auto. lia.
Qed.
Lemma prefixb_ext_bit q p : prefixb q p = true -> length q < length p -> prefixb (q ++ [nthb p (length q)]) p = true.
Proof. intros H1 H2. rewrite prefixb_app_bit, H1. apply Nat.ltb_lt in H2. rewrite H2, eqb_reflx. reflexivity. Qed.
Lemma firstn_len_le (p : bits) n : n <= length p -> length (firstn n p) = n.
Proof. intros. rewrite firstn_length. lia. Qed.

Lemma negb_bit (a b : bool) : a <> b -> a = negb b.
Proof. destruct a, b; auto; intros H; exfalso; now apply H. Qed.

Lemma wf_node pre q o l r : prefixb pre q = true -> wf (q ++ [false]) l -> wf (q ++ [true]) r ->
  (o = None -> is_leaf l = false /\ is_leaf r = false) -> wf pre (Node q o l r).
Proof. cbn; auto. Qed.

Lemma insert_not_leaf t p x : is_leaf (insert t p x) = false.
Proof.
  destruct t as [|q o l r]; cbn [insert]; [reflexivity|].
  repeat match goal with |- context [if ?c then _ else _] => destruct c end; reflexivity.
Qed.

Lemma wf_insert t : forall pre p x, wf pre t -> prefixb pre p = true -> wf pre (insert t p x).
Proof.
  induction t as [|q o l IHl r IHr]; intros pre p x Hwf Hp; cbn [insert].
  { apply wf_node; cbn; auto. discriminate. }
  pose proof Hwf as (Hq & Hl & Hr & Hg).
  destruct (Nat.eqb_spec (common q p) (length q)) as [Ec|Ec]; cbn [andb].
  - destruct (Nat.leb_spec (length q) (length p)) as [Hle|Hgt].
    + pose proof (common_full_l q p Ec) as Hqp.
      destruct (Nat.eqb_spec (length q) (length p)) as [El|El].
      * apply wf_node; auto. discriminate.
      * assert (Hlt: length q < length p) by lia.
        pose proof (prefixb_ext_bit q p Hqp Hlt) as Hext.
        destruct (nthb p (length q)) eqn:Eb.
        -- apply wf_node; auto. intros E. destruct (Hg E) as [G1 G2]. split; auto. apply insert_not_leaf.
        -- apply wf_node; auto. intros E. destruct (Hg E) as [G1 G2]. split; auto. apply insert_not_leaf.
    + pose proof (common_le_r q p). lia.
  - destruct (Nat.eqb_spec (common q p) (length p)) as [Ep|Ep].
    + assert (Hpq: prefixb p q = true) by (apply common_full_l; rewrite common_sym; exact Ep).
      assert (Hlt: length p < length q).
      { pose proof (common_le_l q p). pose proof (prefixb_length _ _ Hpq). lia. }
      pose proof (prefixb_ext_bit p q Hpq Hlt) as Hext.
      assert (Hsub: forall pre', prefixb pre' q = true -> wf pre' (Node q o l r)) by (intros; apply wf_node; auto).
      destruct (nthb q (length p)) eqn:Eb; apply wf_node; cbn [wf]; auto; discriminate.
    + pose proof (common_firstn q p) as [Hf1 Hf2].
      pose proof (common_le_l q p) as Hc1. pose proof (common_le_r q p) as Hc2.
      assert (Hcl: length (firstn (common q p) p) = common q p) by (apply firstn_len_le; lia).
      assert (Hpre: prefixb pre (firstn (common q p) p) = true).
      { apply prefixb_firstn; auto. apply prefix_both_le; auto. }
      assert (Hd: nthb q (common q p) <> nthb p (common q p)) by (apply common_diff; lia).
      assert (Hq': prefixb (firstn (common q p) p ++ [nthb q (common q p)]) q = true).
      { rewrite <- Hcl at 2. apply prefixb_ext_bit; auto. lia. }
      assert (Hp': prefixb (firstn (common q p) p ++ [nthb p (common q p)]) p = true).
      { rewrite <- Hcl at 2. apply prefixb_ext_bit; auto. lia. }
      assert (Hsub: forall pre', prefixb pre' q = true -> wf pre' (Node q o l r)) by (intros; apply wf_node; auto).
      assert (Hnew: forall pre', prefixb pre' p = true -> wf pre' (Node p (Some x) Leaf Leaf)) by (intros; apply wf_node; cbn; auto; discriminate).
      destruct (nthb q (common q p)) eqn:Eb, (nthb p (common q p)) eqn:Ebp;
        try (exfalso; apply Hd; reflexivity);
        apply wf_node; auto; intros _; split; reflexivity.
Qed.

(* ---------- contents of insert ---------- *)
Lemma prefixb_eq_len q p : prefixb q p = true -> length q = length p -> q = p.
Proof.
  revert p; induction q as [|x q IH]; intros [|y p]; cbn; auto; try discriminate.
  intros H L. apply andb_true_iff in H as [E H]. apply eqb_prop in E. subst. f_equal. apply IH; auto.
Qed.

Lemma in_node p' y q o l r :
  In (p', y) (contents (Node q o l r)) <->
  (o = Some y /\ p' = q) \/ In (p', y) (contents l) \/ In (p', y) (contents r).
Proof.
  cbn [contents]. rewrite !in_app_iff. destruct o as [z|]; cbn.
  - split.
    + intros [[E|[]]|H]; auto. inversion E; subst. auto.
    + intros [[E1 E2]|H]; auto. inversion E1; subst. auto.
  - split; [intros [[]|H]; auto|intros [[E _]|H]; [discriminate|auto]].
Qed.

(* keys below a child are strictly longer than the node's prefix *)
Lemma below_longer t q b p' y : wf (q ++ [b]) t -> In (p', y) (contents t) -> length q < length p'.
Proof.
  intros Hwf Hin. pose proof (contents_prefix _ _ _ _ Hwf Hin) as H.
  apply prefixb_length in H. rewrite app_length in H. cbn in H. lia.
Qed.
Lemma below_bit t q b p' y : wf (q ++ [b]) t -> In (p', y) (contents t) -> nthb p' (length q) = b.
Proof.
  intros Hwf Hin. pose proof (contents_prefix _ _ _ _ Hwf Hin) as H.
  rewrite prefixb_app_bit in H. apply andb_true_iff in H as [_ H]. apply eqb_prop in H. auto.
Qed.

Theorem in_insert t : forall pre p x p' y, wf pre t -> prefixb pre p = true ->
  (In (p', y) (contents (insert t p x)) <->
   (p' = p /\ y = x) \/ (p' <> p /\ In (p', y) (contents t))).
Proof.
  induction t as [|q o l IHl r IHr]; intros pre p x p' y Hwf Hp; cbn [insert].
  { cbn. split; [intros [E|[]]; inversion E; auto|intros [[-> ->]|[_ []]]; auto]. }
  pose proof Hwf as (Hq & Hl & Hr & Hg).
  assert (Hold: forall k z, In (k, z) (contents (Node q o l r)) -> prefixb q k = true).
  { intros k z Hin. eapply contents_prefix; [|exact Hin]. apply wf_node; auto using prefixb_refl. }
  destruct (Nat.eqb_spec (common q p) (length q)) as [Ec|Ec]; cbn [andb].
  - destruct (Nat.leb_spec (length q) (length p)) as [Hle|Hgt]; [|pose proof (common_le_r q p); lia].
    pose proof (common_full_l q p Ec) as Hqp.
    destruct (Nat.eqb_spec (length q) (length p)) as [El|El].
    + pose proof (prefixb_eq_len q p Hqp El) as ->.
      rewrite !in_node. split.
      * intros [[E ->]|[H|H]]; [inversion E; auto| |]; right; (split; [|auto]); intros ->.
        -- pose proof (below_longer _ _ _ _ _ Hl H); lia.
        -- pose proof (below_longer _ _ _ _ _ Hr H); lia.
      * intros [[-> ->]|[Hne [[_ E]|H]]]; auto. contradiction.
    + assert (Hlt: length q < length p) by lia.
      pose proof (prefixb_ext_bit q p Hqp Hlt) as Hext.
      assert (HA: o = Some y /\ p' = q -> p' <> p) by (intros [_ ->] ->; lia).
      destruct (nthb p (length q)) eqn:Eb; rewrite !in_node.
      * rewrite (IHr (q ++ [true]) p x p' y Hr Hext).
        assert (HB: In (p', y) (contents l) -> p' <> p).
        { intros H ->. pose proof (below_bit _ _ _ _ _ Hl H). congruence. }
        tauto.
      * rewrite (IHl (q ++ [false]) p x p' y Hl Hext).
        assert (HB: In (p', y) (contents r) -> p' <> p).
        { intros H ->. pose proof (below_bit _ _ _ _ _ Hr H). congruence. }
        tauto.
  - assert (Hnp: forall k z, In (k, z) (contents (Node q o l r)) -> k <> p).
    { intros k z Hin ->. apply Hold in Hin. apply prefixb_common in Hin. contradiction. }
    destruct (Nat.eqb_spec (common q p) (length p)) as [Ep|Ep].
    + destruct (nthb q (length p)); rewrite in_node; cbn [contents In]; split.
      * intros [[E ->]|[[]|H]]; [inversion E; auto|]. right. split; eauto.
      * intros [[-> ->]|[Hne H]]; auto.
      * intros [[E ->]|[H|[]]]; [inversion E; auto|]. right. split; eauto.
      * intros [[-> ->]|[Hne H]]; auto.
    + destruct (nthb q (common q p)); rewrite in_node; split.
      * intros [[E _]|[H|H]]; [discriminate| |].
        -- cbn in H. destruct H as [E|[]]. inversion E; auto.
        -- right. split; eauto.
      * intros [[-> ->]|[Hne H]]; [right; left; cbn; auto|auto].
      * intros [[E _]|[H|H]]; [discriminate| |].
        -- right. split; eauto.
        -- cbn in H. destruct H as [E|[]]. inversion E; auto.
      * intros [[-> ->]|[Hne H]]; [right; right; cbn; auto|auto].
Qed.


Lemma wf_weaken t : forall pre pre', wf pre' t -> prefixb pre pre' = true -> wf pre t.
Proof.
  destruct t as [|q o l r]; cbn; auto. intros pre pre' (H1 & H2 & H3 & H4) Hp.
  repeat split; auto; try apply H4; auto. eapply prefixb_trans; eauto.
Qed.

Lemma wf_splice pre q o l r :
  prefixb pre q = true -> wf (q ++ [false]) l -> wf (q ++ [true]) r -> wf pre (splice (Node q o l r)).
Proof.
  intros Hq Hl Hr.
  assert (Hpl: prefixb pre (q ++ [false]) = true) by (eapply prefixb_trans; [exact Hq|apply prefixb_app_l]).
  assert (Hpr: prefixb pre (q ++ [true]) = true) by (eapply prefixb_trans; [exact Hq|apply prefixb_app_l]).
  destruct o as [y|]; cbn [splice].
  - apply wf_node; auto. discriminate.
  - destruct l as [|ql ol ll rl].
    + eapply wf_weaken; eauto.
    + destruct r as [|qr or lr rr].
      * eapply wf_weaken; eauto.
      * apply wf_node; auto.
Qed.

Lemma wf_remove t : forall pre p x, wf pre t -> wf pre (remove t p x).
Proof.
  induction t as [|q o l IHl r IHr]; intros pre p x Hwf; cbn [remove]; auto.
  pose proof Hwf as (Hq & Hl & Hr & Hg).
  destruct (prefixb q p); auto.
  destruct (length q =? length p).
  - destruct o as [y|]; auto. destruct (y =? x); auto. apply wf_splice; auto.
  - destruct (nthb p (length q)); apply wf_splice; auto.
Qed.

Lemma in_splice p' y q o l r :
  In (p', y) (contents (splice (Node q o l r))) <-> In (p', y) (contents (Node q o l r)).
Proof.
  destruct o as [z|]; cbn [splice]; [tauto|].
  destruct l as [|ql ol ll rl]; [rewrite in_node; cbn [contents In]; intuition discriminate|].
  destruct r as [|qr or lr rr]; [|tauto].
  rewrite (in_node p' y q None). cbn [contents In]. intuition discriminate.
Qed.

Theorem in_remove t : forall pre p x p' y, wf pre t ->
  (In (p', y) (contents (remove t p x)) <-> In (p', y) (contents t) /\ ~ (p' = p /\ y = x)).
Proof.
  induction t as [|q o l IHl r IHr]; intros pre p x p' y Hwf; cbn [remove].
  { cbn. tauto. }
  pose proof Hwf as (Hq & Hl & Hr & Hg).
  assert (Hold: forall k z, In (k, z) (contents (Node q o l r)) -> prefixb q k = true).
  { intros k z Hin. eapply contents_prefix; [|exact Hin]. apply wf_node; auto using prefixb_refl. }
  destruct (prefixb q p) eqn:Eqp.
  2:{ split; [|tauto]. intros Hin. split; auto. intros [-> _]. apply Hold in Hin. congruence. }
  destruct (Nat.eqb_spec (length q) (length p)) as [El|El].
  - pose proof (prefixb_eq_len q p Eqp El) as ->.
    assert (HL: In (p', y) (contents l) -> p' <> p) by (intros H ->; pose proof (below_longer _ _ _ _ _ Hl H); lia).
    assert (HR: In (p', y) (contents r) -> p' <> p) by (intros H ->; pose proof (below_longer _ _ _ _ _ Hr H); lia).
    destruct o as [z|].
    + destruct (Nat.eqb_spec z x) as [->|Ne].
      * rewrite in_splice, !in_node. split.
        -- intros [[E _]|H]; [discriminate|]. split; [tauto|]. intros [-> _]. tauto.
        -- intros [[[E ->]|H] Hn]; [inversion E; subst; exfalso; apply Hn; auto|tauto].
      * rewrite in_node. split; [|tauto]. intros H. split; auto. intros [-> ->].
        destruct H as [[E _]|H]; [inversion E; congruence|tauto].
    + rewrite in_node. split; [|tauto]. intros H. split; auto. intros [-> _].
      destruct H as [[E _]|H]; [discriminate|tauto].
  - assert (Hlt: length q < length p) by (pose proof (prefixb_length _ _ Eqp); lia).
    assert (HA: o = Some y /\ p' = q -> p' <> p) by (intros [_ ->] ->; lia).
    destruct (nthb p (length q)) eqn:Eb; rewrite in_splice, !in_node.
    + rewrite (IHr (q ++ [true]) p x p' y Hr).
      assert (HB: In (p', y) (contents l) -> p' <> p).
      { intros H ->. pose proof (below_bit _ _ _ _ _ Hl H). congruence. }
      tauto.
    + rewrite (IHl (q ++ [false]) p x p' y Hl).
      assert (HB: In (p', y) (contents r) -> p' <> p).
      { intros H ->. pose proof (below_bit _ _ _ _ _ Hr H). congruence. }
      tauto.
Qed.

(* a well-formed trie without entries is empty: removing everything leaves Leaf *)
Lemma contents_nil_leaf t : forall pre, wf pre t -> contents t = [] -> t = Leaf.
Proof.
  induction t as [|q o l IHl r IHr]; intros pre Hwf Hc; auto.
  destruct Hwf as (_ & Hl & Hr & Hg). cbn [contents] in Hc.
  destruct o as [z|]; [discriminate|]. cbn [app] in Hc.
  apply app_eq_nil in Hc as [Hcl Hcr].
  destruct (Hg eq_refl) as [G1 _]. rewrite (IHl _ Hl Hcl) in G1. discriminate.
Qed.

(* keys are unique *)
Lemma NoDup_app_intro {A} (l l' : list A) :
  NoDup l -> NoDup l' -> (forall k, In k l -> In k l' -> False) -> NoDup (l ++ l').
Proof.
  induction l as [|a l IH]; cbn; auto. intros H1 H2 H3. inversion H1; subst.
  constructor.
  - intro Hin. apply in_app_or in Hin as [Hin|Hin]; [auto|]. eapply H3; eauto.
  - apply IH; auto. intros k Hk Hk'. eapply H3; eauto.
Qed.

Lemma keys_nodup t : forall pre, wf pre t -> NoDup (map fst (contents t)).
Proof.
  induction t as [|q o l IHl r IHr]; intros pre Hwf; cbn [contents map]; [constructor|].
  pose proof Hwf as (Hq & Hl & Hr & Hg).
  assert (HL: forall k, In k (map fst (contents l)) -> length q < length k /\ nthb k (length q) = false).
  { intros k Hk. apply in_map_iff in Hk as [[k' z] [E Hin]]. cbn in E. subst k'.
    split; [exact (below_longer l q false k z Hl Hin)|exact (below_bit l q false k z Hl Hin)]. }
  assert (HR: forall k, In k (map fst (contents r)) -> length q < length k /\ nthb k (length q) = true).
  { intros k Hk. apply in_map_iff in Hk as [[k' z] [E Hin]]. cbn in E. subst k'.
    split; [exact (below_longer r q true k z Hr Hin)|exact (below_bit r q true k z Hr Hin)]. }
  assert (Hlr: NoDup (map fst (contents l) ++ map fst (contents r))).
  { apply NoDup_app_intro; eauto. intros k H1 H2. apply HL in H1. apply HR in H2. destruct H1, H2. congruence. }
  rewrite map_app, map_app. destruct o as [z|]; cbn [map app fst]; auto.
  constructor; auto. intros Hin. apply in_app_or in Hin as [Hin|Hin]; [apply HL in Hin|apply HR in Hin]; lia.
Qed.

(* ====================================================================== *)
(* lpm is determined by the SET of (prefix, owner) pairs when prefixes are
   unique: this ties the trie's contents to the association-list spec.    *)

Lemma beqb_refl a : beqb a a = true.
Proof. induction a as [|x a IH]; cbn; auto. now rewrite eqb_reflx, IH. Qed.

Lemma beqb_eq a b : beqb a b = true <-> a = b.
Proof.
  split; [|intros ->; apply beqb_refl].
  revert b; induction a as [|x a IH]; intros [|y b]; cbn; auto; try discriminate.
  intros H. apply andb_true_iff in H as [E H]. apply eqb_prop in E. f_equal; auto.
Qed.

Lemma beqb_neq a b : beqb a b = false <-> a <> b.
Proof.
  split.
  - intros H E. apply beqb_eq in E. congruence.
  - intros H. destruct (beqb a b) eqn:E; auto. apply beqb_eq in E. contradiction.
Qed.

Lemma better_none u v : better u v = None -> u = None /\ v = None.
Proof.
  destruct u as [[n x]|], v as [[m y]|]; cbn [better]; auto; try discriminate.
  destruct (n <? m); discriminate.
Qed.

Lemma better_some u v n x : better u v = Some (n, x) ->
  (u = Some (n, x) /\ forall m y, v = Some (m, y) -> m <= n) \/
  (v = Some (n, x) /\ forall m y, u = Some (m, y) -> m <= n).
Proof.
  destruct u as [[k z]|], v as [[m y]|]; cbn [better]; try discriminate.
  - destruct (Nat.ltb_spec k m) as [Hlt|Hge]; intros H; inversion H; subst.
    + right. split; auto. intros ? ? E; inversion E; subst; lia.
    + left. split; auto. intros ? ? E; inversion E; subst; lia.
  - intros H. left. split; auto. discriminate.
  - intros H. right. split; auto. discriminate.
Qed.

Lemma lpm_none cs a : lpm cs a = None -> forall p y, In (p, y) cs -> prefixb p a = false.
Proof.
  induction cs as [|[q z] cs IH]; cbn [lpm In]; [tauto|].
  intros H p y [E|Hin]; apply better_none in H; destruct H as [H1 H2].
  - inversion E; subst. destruct (prefixb p a); [discriminate|reflexivity].
  - eauto.
Qed.

Lemma lpm_some cs a : forall n x, lpm cs a = Some (n, x) ->
  (exists p, In (p, x) cs /\ prefixb p a = true /\ length p = n) /\
  (forall p y, In (p, y) cs -> prefixb p a = true -> length p <= n).
Proof.
  induction cs as [|[q z] cs IH]; cbn [lpm]; [discriminate|].
  intros n x H. apply better_some in H as [[H1 H2]|[H1 H2]].
  - destruct (prefixb q a) eqn:Eq; [|discriminate]. inversion H1; subst. split.
    + exists q. cbn [In]. auto.
    + intros p y [E|Hin] Hp; [inversion E; subst; lia|].
      destruct (lpm cs a) as [[m w]|] eqn:L.
      * destruct (IH m w eq_refl) as [_ Hmax]. specialize (Hmax p y Hin Hp).
        specialize (H2 m w eq_refl). lia.
      * rewrite (lpm_none cs a L p y Hin) in Hp. discriminate.
  - destruct (IH n x H1) as [(p & Hin & Hp & Hl) Hmax]. split.
    + exists p. cbn [In]. auto.
    + intros p' y [E|Hin'] Hp'; [|eauto]. inversion E; subst. rewrite Hp' in H2.
      apply (H2 _ _ eq_refl).
Qed.

(* conversely: a maximal matching entry is what lpm returns (up to the owner
   being unique) *)
Lemma prefixb_same_len p p' a :
  prefixb p a = true -> prefixb p' a = true -> length p = length p' -> p = p'.
Proof.
  revert p' a; induction p as [|x p IH]; intros [|y p'] [|z a]; cbn; auto; try discriminate.
  intros H1 H2 L. apply andb_true_iff in H1 as [E1 H1]. apply andb_true_iff in H2 as [E2 H2].
  apply eqb_prop in E1, E2. subst. f_equal. eapply IH; eauto.
Qed.

Lemma nodup_keys_fun (cs : amap) p x y :
  NoDup (map fst cs) -> In (p, x) cs -> In (p, y) cs -> x = y.
Proof.
  induction cs as [|[q z] cs IH]; cbn [map fst In]; [tauto|].
  intros Hnd. inversion Hnd as [|? ? Hnot Hnd']; subst.
  assert (Hk: forall w, In (q, w) cs -> False).
  { intros w Hin. apply Hnot. apply in_map_iff. exists (q, w). auto. }
  intros [E1|H1] [E2|H2].
  - inversion E1; inversion E2; subst; auto.
  - inversion E1; subst. exfalso; eauto.
  - inversion E2; subst. exfalso; eauto.
  - auto.
Qed.

Theorem lpm_equiv (cs ds : amap) a :
  NoDup (map fst cs) -> (forall e, In e cs <-> In e ds) -> lpm cs a = lpm ds a.
Proof.
  intros Hnd Heq.
  destruct (lpm cs a) as [[n x]|] eqn:A; destruct (lpm ds a) as [[m y]|] eqn:B; auto.
  - destruct (lpm_some _ _ _ _ A) as [(p & Hin & Hp & Hl) Hmax].
    destruct (lpm_some _ _ _ _ B) as [(p' & Hin' & Hp' & Hl') Hmax'].
    pose proof (Hmax' p x (proj1 (Heq _) Hin) Hp).
    pose proof (Hmax p' y (proj2 (Heq _) Hin') Hp').
    assert (p = p') by (eapply prefixb_same_len; eauto; lia). subst p'.
    assert (x = y) by (eapply nodup_keys_fun; eauto; apply Heq; auto).
    f_equal. f_equal; lia || auto.
  - destruct (lpm_some _ _ _ _ A) as [(p & Hin & Hp & Hl) _].
    rewrite (lpm_none _ _ B p x (proj1 (Heq _) Hin)) in Hp. discriminate.
  - destruct (lpm_some _ _ _ _ B) as [(p & Hin & Hp & Hl) _].
    rewrite (lpm_none _ _ A p y (proj2 (Heq _) Hin)) in Hp. discriminate.
Qed.

(* ---------- the specification's operations, as sets ---------- *)
Lemma in_sinsert cs p x k y :
  In (k, y) (sinsert cs p x) <-> (k = p /\ y = x) \/ (k <> p /\ In (k, y) cs).
Proof.
  unfold sinsert. cbn [In]. rewrite filter_In. cbn [fst]. rewrite negb_true_iff, beqb_neq.
  split.
  - intros [E|[H1 H2]]; [inversion E; auto|auto].
  - intros [[-> ->]|[H1 H2]]; auto.
Qed.

Lemma in_sremove cs p x k y :
  In (k, y) (sremove cs p x) <-> In (k, y) cs /\ ~ (k = p /\ y = x).
Proof.
  unfold sremove. rewrite filter_In. cbn [fst snd]. rewrite negb_true_iff.
  destruct (beqb k p) eqn:E1; [apply beqb_eq in E1|apply beqb_neq in E1];
  (destruct (Nat.eqb_spec y x) as [E2|E2]); cbn [andb]; intuition congruence.
Qed.

Lemma in_sremove_by_peer cs x k y :
  In (k, y) (sremove_by_peer cs x) <-> In (k, y) cs /\ y <> x.
Proof.
  unfold sremove_by_peer. rewrite filter_In. cbn [snd]. rewrite negb_true_iff, Nat.eqb_neq. tauto.
Qed.

Lemma in_sentries cs x k : In k (sentries cs x) <-> In (k, x) cs.
Proof.
  unfold sentries. rewrite in_map_iff. split.
  - intros [[k' y] [E H]]. apply filter_In in H as [H1 H2]. cbn in *. apply Nat.eqb_eq in H2. subst. auto.
  - intros H. exists (k, x). split; auto. apply filter_In. cbn. rewrite Nat.eqb_refl. auto.
Qed.

Lemma nodup_filter_keys (f : bits * peer -> bool) (cs : amap) :
  NoDup (map fst cs) -> NoDup (map fst (filter f cs)).
Proof.
  induction cs as [|e cs IH]; cbn [map filter]; auto.
  intros H. inversion H as [|? ? Hnot Hnd]; subst.
  destruct (f e); cbn [map]; auto. constructor; auto.
  intros Hin. apply Hnot. apply in_map_iff in Hin as [e' [E Hin]]. apply filter_In in Hin as [Hin _].
  apply in_map_iff. eauto.
Qed.

Lemma nodup_sinsert cs p x : NoDup (map fst cs) -> NoDup (map fst (sinsert cs p x)).
Proof.
  intros H. unfold sinsert. cbn [map fst]. constructor; [|apply nodup_filter_keys; auto].
  intros Hin. apply in_map_iff in Hin as [[k y] [E Hin]]. apply filter_In in Hin as [_ Hf].
  cbn in *. subst. rewrite beqb_refl in Hf. discriminate.
Qed.

(* ---------- contents of the trie operations = specification operations ---------- *)
Theorem contents_insert t p x : wf [] t ->
  forall e, In e (contents (insert t p x)) <-> In e (sinsert (contents t) p x).
Proof.
  intros Hwf [k y]. rewrite in_sinsert. apply (in_insert t [] p x k y Hwf). reflexivity.
Qed.

Theorem contents_remove t p x : wf [] t ->
  forall e, In e (contents (remove t p x)) <-> In e (sremove (contents t) p x).
Proof. intros Hwf [k y]. rewrite in_sremove. apply (in_remove t [] p x k y Hwf). Qed.

Lemma in_entries_for t x k : In k (entries_for t x) <-> In (k, x) (contents t).
Proof. apply (in_sentries (contents t) x k). Qed.

Lemma fold_remove x ks : forall t pre, wf pre t ->
  let t' := fold_left (fun t p => remove t p x) ks t in
  wf pre t' /\
  forall k y, In (k, y) (contents t') <-> In (k, y) (contents t) /\ ~ (y = x /\ In k ks).
Proof.
  induction ks as [|k0 ks IH]; intros t pre Hwf; cbn [fold_left].
  - split; auto. intros k y. cbn [In]. tauto.
  - destruct (IH (remove t k0 x) pre (wf_remove t pre k0 x Hwf)) as [Hwf' Hin]. split; auto.
    intros k y. rewrite Hin, (in_remove t pre k0 x k y Hwf). cbn [In].
    split.
    + intros [[H1 H2] H3]. split; auto. intros [-> [->|H4]]; tauto.
    + intros [H1 H2]. repeat split; auto.
      * intros [-> ->]. apply H2; auto.
      * intros [-> H3]. apply H2; auto.
Qed.

Lemma wf_remove_by_peer t pre x : wf pre t -> wf pre (remove_by_peer t x).
Proof. intros H. apply (fold_remove x (entries_for t x) t pre H). Qed.

Lemma in_remove_by_peer t pre x k y : wf pre t ->
  (In (k, y) (contents (remove_by_peer t x)) <-> In (k, y) (contents t) /\ y <> x).
Proof.
  intros H. destruct (fold_remove x (entries_for t x) t pre H) as [_ Hin].
  unfold remove_by_peer. rewrite Hin, in_entries_for. split.
  - intros [H1 H2]. split; auto. intros ->. tauto.
  - intros [H1 H2]. split; auto. intros [-> _]. congruence.
Qed.

Theorem contents_remove_by_peer t x : wf [] t ->
  forall e, In e (contents (remove_by_peer t x)) <-> In e (sremove_by_peer (contents t) x).
Proof. intros Hwf [k y]. rewrite in_sremove_by_peer. apply (in_remove_by_peer t [] x k y Hwf). Qed.

(* ---------- simulation: trie table vs. specification ---------- *)
Definition R1 (t : trie) (m : amap) : Prop :=
  wf [] t /\ NoDup (map fst m) /\ forall e, In e (contents t) <-> In e m.
Definition Rel (s : table) (sp : sstate) : Prop := R1 (t4 s) (s4 sp) /\ R1 (t6 s) (s6 sp).

Lemma R1_empty : R1 Leaf [].
Proof. repeat split; auto; constructor. Qed.

Lemma R1_insert t m p x : R1 t m -> R1 (insert t p x) (sinsert m p x).
Proof.
  intros (Hwf & Hnd & Heq). split; [apply wf_insert; auto|]. split; [apply nodup_sinsert; auto|].
  intros [k y]. rewrite (contents_insert t p x Hwf), !in_sinsert, (Heq (k, y)). tauto.
Qed.

Lemma R1_remove t m p x : R1 t m -> R1 (remove t p x) (sremove m p x).
Proof.
  intros (Hwf & Hnd & Heq). split; [apply wf_remove; auto|]. split; [apply nodup_filter_keys; auto|].
  intros [k y]. rewrite (contents_remove t p x Hwf), !in_sremove, (Heq (k, y)). tauto.
Qed.

Lemma R1_remove_by_peer t m x : R1 t m -> R1 (remove_by_peer t x) (sremove_by_peer m x).
Proof.
  intros (Hwf & Hnd & Heq). split; [apply wf_remove_by_peer; auto|]. split; [apply nodup_filter_keys; auto|].
  intros [k y]. rewrite (contents_remove_by_peer t x Hwf), !in_sremove_by_peer, (Heq (k, y)). tauto.
Qed.

Lemma step_rel s sp o : Rel s sp ->
  snd (step s o) = snd (sstep sp o) /\ Rel (fst (step s o)) (fst (sstep sp o)).
Proof.
  intros [H4 H6]. split; [destruct o; reflexivity|].
  destruct o as [[|] a c x|[|] a c x|x]; cbn [step sstep fst sel ssel upd supd]; split; cbn [t4 t6 s4 s6];
    auto using R1_insert, R1_remove, R1_remove_by_peer.
Qed.

Theorem reach_rel ops : Rel (final step empty ops) (final sstep sempty ops).
Proof.
  apply (sim_run step sstep Rel step_rel ops empty sempty).
  split; apply R1_empty.
Qed.

Lemma sel_rel s sp f : Rel s sp -> R1 (sel s f) (ssel sp f).
Proof. intros [H4 H6]. destruct f; auto. Qed.

Lemma R1_lookup t m a : R1 t m -> lookup t a = slookup m a.
Proof.
  intros (Hwf & Hnd & Heq). rewrite (lookup_is_lpm t [] a Hwf). unfold slookup. f_equal.
  symmetry. apply lpm_equiv; auto. intros e. symmetry. apply Heq.
Qed.

(* ---------- main theorems over all operation sequences ---------- *)
Theorem wf_preserved ops :
  let s := final step empty ops in
  wf_table s /\ NoDup (map fst (contents (t4 s))) /\ NoDup (map fst (contents (t6 s))).
Proof.
  destruct (reach_rel ops) as [(H4 & _) (H6 & _)]. cbn zeta. split; [split; auto|].
  split; eapply keys_nodup; eauto.
Qed.

Theorem refines ops f a :
  tlookup (final step empty ops) f a = slookup (ssel (final sstep sempty ops) f) a.
Proof. apply R1_lookup. apply sel_rel. apply reach_rel. Qed.

Theorem entries_for_exact ops f x :
  let l := tentries (final step empty ops) f x in
  NoDup l /\ forall p, In p l <-> In (p, x) (ssel (final sstep sempty ops) f).
Proof.
  pose proof (sel_rel _ _ f (reach_rel ops)) as (Hwf & Hnd & Heq). cbn zeta. unfold tentries. split.
  - unfold entries_for. apply nodup_filter_keys. eapply keys_nodup; eauto.
  - intros p. rewrite in_entries_for. apply Heq.
Qed.

Lemma R1_nil t : R1 t [] -> t = Leaf.
Proof.
  intros (Hwf & _ & Heq). eapply contents_nil_leaf; eauto.
  destruct (contents t) as [|e l]; auto. exfalso. apply (Heq e). left; auto.
Qed.

Theorem remove_all_empty_family ops f :
  ssel (final sstep sempty ops) f = [] -> sel (final step empty ops) f = Leaf.
Proof. intros H. apply R1_nil. rewrite <- H. apply sel_rel, reach_rel. Qed.

Theorem remove_all_empty ops :
  final sstep sempty ops = sempty -> final step empty ops = empty.
Proof.
  intros H. pose proof (remove_all_empty_family ops V4) as H4. pose proof (remove_all_empty_family ops V6) as H6.
  rewrite H in H4, H6. cbn in H4, H6. destruct (final step empty ops) as [a b]. cbn in *.
  rewrite H4, H6; auto.
Qed.

(* ---------- reassignment, host bits ---------- *)
Lemma common_refl p : common p p = length p.
Proof. induction p as [|x p IH]; cbn; auto. now rewrite eqb_reflx, IH. Qed.

Lemma insert_insert t : forall p x y, insert (insert t p x) p y = insert t p y.
Proof.
  induction t as [|q o l IHl r IHr]; intros p x y.
  - cbn [insert]. rewrite common_refl, !Nat.eqb_refl, Nat.leb_refl. reflexivity.
  - cbn [insert].
    destruct (Nat.eqb_spec (common q p) (length q)) as [Ec|Ec]; cbn [andb].
    + destruct (Nat.leb_spec (length q) (length p)) as [Hle|Hgt].
      * destruct (Nat.eqb_spec (length q) (length p)) as [El|El]; cbn [insert].
        -- rewrite Ec, Nat.eqb_refl. replace (length q <=? length p) with true by (symmetry; apply Nat.leb_le; lia).
           cbn [andb]. replace (length q =? length p) with true by (symmetry; apply Nat.eqb_eq; lia). reflexivity.
        -- destruct (nthb p (length q)) eqn:Eb; cbn [insert]; rewrite Ec, Nat.eqb_refl;
           replace (length q <=? length p) with true by (symmetry; apply Nat.leb_le; lia); cbn [andb];
           replace (length q =? length p) with false by (symmetry; apply Nat.eqb_neq; lia); rewrite Eb;
           [rewrite IHr|rewrite IHl]; reflexivity.
      * pose proof (common_le_r q p). lia.
    + destruct (Nat.eqb_spec (common q p) (length p)) as [Ep|Ep].
      * destruct (nthb q (length p)); cbn [insert]; rewrite common_refl, !Nat.eqb_refl, Nat.leb_refl; reflexivity.
      * pose proof (common_le_l q p) as Hc1. pose proof (common_le_r q p) as Hc2.
        assert (Hcl: length (firstn (common q p) p) = common q p) by (apply firstn_len_le; lia).
        assert (Hd: nthb q (common q p) <> nthb p (common q p)) by (apply common_diff; lia).
        assert (Hcf: common (firstn (common q p) p) p = common q p).
        { rewrite <- Hcl at 2. apply prefixb_common. apply common_firstn. }
        destruct (nthb q (common q p)) eqn:Eb; cbn [insert]; rewrite Hcf, Hcl, Nat.eqb_refl;
          replace (common q p <=? length p) with true by (symmetry; apply Nat.leb_le; lia); cbn [andb];
          replace (common q p =? length p) with false by (symmetry; apply Nat.eqb_neq; lia);
          destruct (nthb p (common q p)) eqn:Ebp; try (exfalso; apply Hd; reflexivity);
          rewrite common_refl, !Nat.eqb_refl, Nat.leb_refl; reflexivity.
Qed.

Lemma upd_upd s f t t' : upd (upd s f t) f t' = upd s f t'.
Proof. destruct f; reflexivity. Qed.
Lemma sel_upd s f t : sel (upd s f t) f = t.
Proof. destruct f; reflexivity. Qed.

(* inserting a stored prefix again (possibly for another peer) is the same as
   having inserted it for the last peer only: same table, same shape *)
Theorem reinsert_reassigns ops f a c x y :
  final step empty (ops ++ [Insert f a c x; Insert f a c y]) =
  final step empty (ops ++ [Insert f a c y]).
Proof.
  rewrite !final_app. generalize (final step empty ops). intros s.
  unfold final. cbn [run step fst]. rewrite sel_upd, upd_upd, insert_insert. reflexivity.
Qed.

(* ... and afterwards the prefix is owned by exactly the last peer *)
Theorem reinsert_owner ops f a c x y :
  let s := final step empty (ops ++ [Insert f a c x; Insert f a c y]) in
  In (mask a c, y) (contents (sel s f)) /\
  forall z, In (mask a c, z) (contents (sel s f)) -> z = y.
Proof.
  cbn zeta. rewrite reinsert_reassigns.
  pose proof (sel_rel _ _ f (reach_rel (ops ++ [Insert f a c y]))) as (Hwf & Hnd & Heq).
  pose proof (sel_rel _ _ f (reach_rel ops)) as (Hwf0 & _ & _).
  assert (E: sel (final step empty (ops ++ [Insert f a c y])) f = insert (sel (final step empty ops) f) (mask a c) y).
  { rewrite final_app. unfold final at 1. cbn [run step fst]. apply sel_upd. }
  rewrite E in *.
  assert (Hin: In (mask a c, y) (contents (insert (sel (final step empty ops) f) (mask a c) y))).
  { apply (in_insert _ [] (mask a c) y (mask a c) y Hwf0 eq_refl). auto. }
  split; auto. intros z Hz.
  apply (in_insert _ [] (mask a c) y (mask a c) z Hwf0 eq_refl) in Hz. destruct Hz as [[_ ->]|[Hne _]]; auto.
  contradiction.
Qed.

(* address bits beyond the prefix length take no part in Insert / Remove *)
Theorem host_bits_ignored s f a a' c x :
  firstn c a = firstn c a' ->
  step s (Insert f a c x) = step s (Insert f a' c x) /\
  step s (Remove f a c x) = step s (Remove f a' c x).
Proof. intros H. cbn [step]. unfold mask. rewrite H. auto. Qed.

(* what the specification's lpm means *)
Theorem lpm_characterisation (cs : amap) a :
  match lpm cs a with
  | Some (n, x) => (exists p, In (p, x) cs /\ prefixb p a = true /\ length p = n) /\
                   (forall p y, In (p, y) cs -> prefixb p a = true -> length p <= n)
  | None => forall p y, In (p, y) cs -> prefixb p a = false
  end.
Proof.
  destruct (lpm cs a) as [[n x]|] eqn:E; [apply lpm_some; auto|apply lpm_none; auto].
Qed.

(* ---------- the shape of a well-formed trie is determined by its contents ---------- *)
Lemma prefixb_antisym p q : prefixb p q = true -> prefixb q p = true -> p = q.
Proof.
  intros H1 H2. apply prefixb_eq_len; auto.
  apply prefixb_length in H1. apply prefixb_length in H2. lia.
Qed.

Lemma prefixb_shorter p q k : prefixb p k = true -> prefixb q k = true -> length p <= length q -> prefixb p q = true.
Proof.
  revert q k; induction p as [|x p IH]; intros [|y q] [|z k]; cbn; auto; try discriminate; try lia.
  intros H1 H2 L. apply andb_true_iff in H1 as [E1 H1]. apply andb_true_iff in H2 as [E2 H2].
  apply eqb_prop in E1, E2. subst. rewrite eqb_reflx. cbn. eapply IH; eauto. lia.
Qed.

Lemma nonleaf_has_key t pre : wf pre t -> is_leaf t = false -> exists k y, In (k, y) (contents t).
Proof.
  intros Hwf Hnl. destruct (contents t) as [|[k y] cs] eqn:E.
  - rewrite (contents_nil_leaf t pre Hwf E) in Hnl. discriminate.
  - exists k, y. left; auto.
Qed.

(* the root prefix is the greatest common prefix of all keys *)
Lemma root_gcp q o l r pre p : wf pre (Node q o l r) ->
  (forall k y, In (k, y) (contents (Node q o l r)) -> prefixb p k = true) -> prefixb p q = true.
Proof.
  intros Hwf Hall. pose proof Hwf as (Hq & Hl & Hr & Hg).
  destruct o as [x|].
  - apply (Hall q x). apply in_node. auto.
  - destruct (Hg eq_refl) as [G1 G2].
    destruct (nonleaf_has_key l _ Hl G1) as (kl & yl & Hkl).
    destruct (nonleaf_has_key r _ Hr G2) as (kr & yr & Hkr).
    pose proof (Hall kl yl (proj2 (in_node kl yl q None l r) (or_intror (or_introl Hkl)))) as Pl.
    pose proof (Hall kr yr (proj2 (in_node kr yr q None l r) (or_intror (or_intror Hkr)))) as Pr.
    pose proof (contents_prefix _ _ _ _ Hl Hkl) as Ql. pose proof (contents_prefix _ _ _ _ Hr Hkr) as Qr.
    pose proof (below_bit _ _ _ _ _ Hl Hkl) as Bl. pose proof (below_bit _ _ _ _ _ Hr Hkr) as Br.
    assert (Ql': prefixb q kl = true) by (eapply prefixb_trans; [apply (prefixb_app_l q [false])|exact Ql]).
    destruct (Nat.le_gt_cases (length p) (length q)) as [Hle|Hgt].
    + apply (prefixb_shorter p q kl); auto.
    + (* p longer than q: then p fixes bit |q|, but kl and kr differ there *)
      exfalso.
      assert (Hp: forall k, prefixb p k = true -> nthb k (length q) = nthb p (length q)).
      { clear -Hgt. revert p Hgt. generalize (length q) as n. intros n p. revert n.
        induction p as [|x p IH]; intros n Hgt k Hk; [cbn in Hgt; lia|].
        destruct k as [|z k]; [discriminate|]. cbn in Hk. apply andb_true_iff in Hk as [E Hk].
        apply eqb_prop in E. subst. destruct n as [|n]; [reflexivity|].
        unfold nthb in *. cbn [nth]. apply IH; auto. cbn in Hgt. lia. }
      pose proof (Hp kl Pl). pose proof (Hp kr Pr). congruence.
Qed.

Lemma keys_extend_root q o l r pre k y : wf pre (Node q o l r) ->
  In (k, y) (contents (Node q o l r)) -> prefixb q k = true.
Proof.
  intros (Hq & Hl & Hr & Hg) Hin. eapply contents_prefix; [|exact Hin]. apply wf_node; auto using prefixb_refl.
Qed.

Theorem wf_canonical t1 : forall t2 pre1 pre2, wf pre1 t1 -> wf pre2 t2 ->
  (forall e, In e (contents t1) <-> In e (contents t2)) -> t1 = t2.
Proof.
  induction t1 as [|q1 o1 l1 IHl r1 IHr]; intros t2 pre1 pre2 H1 H2 Heq.
  - destruct t2 as [|q2 o2 l2 r2]; auto.
    destruct (nonleaf_has_key _ _ H2 eq_refl) as (k & y & Hk). apply Heq in Hk. cbn in Hk. contradiction.
  - destruct t2 as [|q2 o2 l2 r2].
    { destruct (nonleaf_has_key _ _ H1 eq_refl) as (k & y & Hk). apply Heq in Hk. cbn in Hk. contradiction. }
    assert (Eq: q1 = q2).
    { apply prefixb_antisym.
      - eapply root_gcp; eauto. intros k y Hk. apply Heq in Hk. eapply keys_extend_root; eauto.
      - eapply root_gcp; eauto. intros k y Hk. apply Heq in Hk. eapply keys_extend_root; eauto. }
    subst q2. pose proof H1 as (Hq1 & Hl1 & Hr1 & Hg1). pose proof H2 as (Hq2 & Hl2 & Hr2 & Hg2).
    (* classification of an entry of either trie by its key *)
    assert (Cl: forall o l r, wf (q1 ++ [false]) l -> wf (q1 ++ [true]) r -> forall k y,
              In (k, y) (contents (Node q1 o l r)) ->
              (In (k, y) (contents l) <-> (length q1 < length k /\ nthb k (length q1) = false)) /\
              (In (k, y) (contents r) <-> (length q1 < length k /\ nthb k (length q1) = true)) /\
              ((o = Some y /\ k = q1) <-> length k = length q1)).
    { intros o l r Hl Hr k y Hin. apply in_node in Hin.
      assert (A: In (k, y) (contents l) -> length q1 < length k /\ nthb k (length q1) = false)
        by (intros H; split; [exact (below_longer l q1 false k y Hl H)|exact (below_bit l q1 false k y Hl H)]).
      assert (B: In (k, y) (contents r) -> length q1 < length k /\ nthb k (length q1) = true)
        by (intros H; split; [exact (below_longer r q1 true k y Hr H)|exact (below_bit r q1 true k y Hr H)]).
      destruct Hin as [[E ->]|[H|H]].
      - split; [|split].
        + split; intros H; [apply A in H|]; lia.
        + split; intros H; [apply B in H|]; lia.
        + split; auto.
      - destruct (A H) as [A1 A2]. split; [|split].
        + split; intros _; auto.
        + split; intros H'; [apply B in H'|]; destruct H' as [_ H']; congruence.
        + split; intros H'; [destruct H' as [_ ->]|]; lia.
      - destruct (B H) as [B1 B2]. split; [|split].
        + split; intros H'; [apply A in H'|]; destruct H' as [_ H']; congruence.
        + split; intros _; auto.
        + split; intros H'; [destruct H' as [_ ->]|]; lia. }
    assert (El: forall e, In e (contents l1) <-> In e (contents l2)).
    { intros [k y]. split; intros H.
      - assert (I1: In (k, y) (contents (Node q1 o1 l1 r1))) by (apply in_node; auto).
        pose proof (proj1 (Heq _) I1) as I2.
        apply (Cl o2 l2 r2 Hl2 Hr2 k y I2). apply (Cl o1 l1 r1 Hl1 Hr1 k y I1). exact H.
      - assert (I2: In (k, y) (contents (Node q1 o2 l2 r2))) by (apply in_node; auto).
        pose proof (proj2 (Heq _) I2) as I1.
        apply (Cl o1 l1 r1 Hl1 Hr1 k y I1). apply (Cl o2 l2 r2 Hl2 Hr2 k y I2). exact H. }
    assert (Er: forall e, In e (contents r1) <-> In e (contents r2)).
    { intros [k y]. split; intros H.
      - assert (I1: In (k, y) (contents (Node q1 o1 l1 r1))) by (apply in_node; auto).
        pose proof (proj1 (Heq _) I1) as I2.
        apply (Cl o2 l2 r2 Hl2 Hr2 k y I2). apply (Cl o1 l1 r1 Hl1 Hr1 k y I1). exact H.
      - assert (I2: In (k, y) (contents (Node q1 o2 l2 r2))) by (apply in_node; auto).
        pose proof (proj2 (Heq _) I2) as I1.
        apply (Cl o1 l1 r1 Hl1 Hr1 k y I1). apply (Cl o2 l2 r2 Hl2 Hr2 k y I2). exact H. }
    assert (Eo: o1 = o2).
    { destruct o1 as [x1|], o2 as [x2|]; auto.
      - assert (I1: In (q1, x1) (contents (Node q1 (Some x1) l1 r1))) by (apply in_node; auto).
        pose proof (proj1 (Heq _) I1) as I2.
        destruct (proj2 (proj2 (proj2 (Cl _ _ _ Hl2 Hr2 _ _ I2))) eq_refl) as [E _]. congruence.
      - assert (I1: In (q1, x1) (contents (Node q1 (Some x1) l1 r1))) by (apply in_node; auto).
        pose proof (proj1 (Heq _) I1) as I2.
        destruct (proj2 (proj2 (proj2 (Cl _ _ _ Hl2 Hr2 _ _ I2))) eq_refl) as [E _]. discriminate.
      - assert (I2: In (q1, x2) (contents (Node q1 (Some x2) l2 r2))) by (apply in_node; auto).
        pose proof (proj2 (Heq _) I2) as I1.
        destruct (proj2 (proj2 (proj2 (Cl _ _ _ Hl1 Hr1 _ _ I1))) eq_refl) as [E _]. discriminate. }
    rewrite (IHl l2 _ _ Hl1 Hl2 El), (IHr r2 _ _ Hr1 Hr2 Er), Eo. reflexivity.
Qed.

(* the table is a function of the current map: histories that leave the same
   (prefix, owner) sets leave the same tries, node for node *)
Lemma R1_canonical t1 t2 m1 m2 : R1 t1 m1 -> R1 t2 m2 -> (forall e, In e m1 <-> In e m2) -> t1 = t2.
Proof.
  intros (W1 & _ & E1) (W2 & _ & E2) Heq. eapply wf_canonical; eauto.
  intros e. rewrite E1, E2. apply Heq.
Qed.

Theorem history_independent ops ops' :
  (forall f e, In e (ssel (final sstep sempty ops) f) <-> In e (ssel (final sstep sempty ops') f)) ->
  final step empty ops = final step empty ops'.
Proof.
  intros Heq. pose proof (reach_rel ops) as [A4 A6]. pose proof (reach_rel ops') as [B4 B6].
  pose proof (R1_canonical _ _ _ _ A4 B4 (Heq V4)) as E4.
  pose proof (R1_canonical _ _ _ _ A6 B6 (Heq V6)) as E6.
  destruct (final step empty ops), (final step empty ops'). cbn in *. subst. reflexivity.
Qed.

(* RemoveByPeer: the order in which the peer's entries are removed (the Go
   list is in insertion order, the model removes in pre-order) is irrelevant,
   also for the shape *)
Theorem remove_by_peer_any_order t x ks : wf [] t ->
  (forall k, In k ks <-> In k (entries_for t x)) ->
  fold_left (fun t p => remove t p x) ks t = remove_by_peer t x.
Proof.
  intros Hwf Hks. destruct (fold_remove x ks t [] Hwf) as [W1 I1].
  eapply wf_canonical; [exact W1|apply wf_remove_by_peer; exact Hwf|].
  intros [k y]. rewrite I1, (in_remove_by_peer t [] x k y Hwf), Hks, in_entries_for. split.
  - intros [H1 H2]. split; auto. intros ->. tauto.
  - intros [H1 H2]. split; auto. intros [-> _]. congruence.
Qed.

(* ---------- look-ups inside a stable prefix are invariant under unrelated operations ----------
   The sequential fact behind the concurrent stress part of the C08 check: if P (owned by x) is the
   longest stored prefix containing the address a, then no Insert / Remove / RemoveByPeer that
   leaves (P, x) alone and does not add a LONGER prefix containing a changes the answer for a. *)
Definition stable (t : trie) (a P : bits) (x : peer) : Prop :=
  wf [] t /\ In (P, x) (contents t) /\ prefixb P a = true /\
  forall p z, In (p, z) (contents t) -> prefixb p a = true -> length p <= length P.

Lemma lpm_intro (cs : amap) a P x :
  NoDup (map fst cs) -> In (P, x) cs -> prefixb P a = true ->
  (forall p z, In (p, z) cs -> prefixb p a = true -> length p <= length P) ->
  lpm cs a = Some (length P, x).
Proof.
  intros Hnd Hin Hp Hmax. destruct (lpm cs a) as [[n z]|] eqn:E.
  - destruct (lpm_some _ _ _ _ E) as [(p' & Hin' & Hp' & Hl') Hmax'].
    pose proof (Hmax p' z Hin' Hp'). pose proof (Hmax' P x Hin Hp).
    assert (p' = P) by (eapply prefixb_same_len; eauto; lia). subst p'.
    assert (z = x) by (eapply nodup_keys_fun; eauto). subst. reflexivity.
  - rewrite (lpm_none _ _ E P x Hin) in Hp. discriminate.
Qed.

Lemma stable_lookup t a P x : stable t a P x -> lookup t a = Some x.
Proof.
  intros (Hwf & Hin & Hp & Hmax). rewrite (lookup_is_lpm t [] a Hwf).
  rewrite (lpm_intro (contents t) a P x); auto. eapply keys_nodup; eauto.
Qed.

Lemma stable_insert t a P x q y : stable t a P x ->
  q <> P -> ~ (prefixb q a = true /\ length P < length q) -> stable (insert t q y) a P x.
Proof.
  intros (Hwf & Hin & Hp & Hmax) Hne Hnl. split; [apply wf_insert; auto|]. split; [|split; auto].
  - apply (in_insert t [] q y P x Hwf eq_refl). right. split; auto.
  - intros p z Hpz Hpa. apply (in_insert t [] q y p z Hwf eq_refl) in Hpz as [[-> ->]|[_ Hold]]; eauto.
    destruct (Nat.le_gt_cases (length q) (length P)); auto. exfalso. apply Hnl. split; auto.
Qed.

Lemma stable_remove t a P x q y : stable t a P x -> q <> P \/ y <> x -> stable (remove t q y) a P x.
Proof.
  intros (Hwf & Hin & Hp & Hmax) Hne. split; [apply wf_remove; auto|]. split; [|split; auto].
  - apply (in_remove t [] q y P x Hwf). split; auto. intros [-> ->]. destruct Hne; congruence.
  - intros p z Hpz Hpa. apply (in_remove t [] q y p z Hwf) in Hpz as [Hold _]. eauto.
Qed.

Lemma stable_remove_by_peer t a P x z : stable t a P x -> z <> x -> stable (remove_by_peer t z) a P x.
Proof.
  intros (Hwf & Hin & Hp & Hmax) Hne. split; [apply wf_remove_by_peer; auto|]. split; [|split; auto].
  - apply (in_remove_by_peer t [] z P x Hwf). split; auto.
  - intros p w Hpw Hpa. apply (in_remove_by_peer t [] z p w Hwf) in Hpw as [Hold _]. eauto.
Qed.

(* an operation that may run concurrently with look-ups of [a] without being able to change their answer *)
Definition unrelated_op (f : fam) (a P : bits) (x : peer) (o : op) : Prop :=
  match o with
  | Insert g b c y => g <> f \/ (mask b c <> P /\ ~ (prefixb (mask b c) a = true /\ length P < length (mask b c)))
  | Remove g b c y => g <> f \/ mask b c <> P \/ y <> x
  | RemoveByPeer z => z <> x
  end.

Lemma fam_dec (f g : fam) : {f = g} + {f <> g}.
Proof. decide equality. Qed.

Lemma sel_upd_other s f g t : g <> f -> sel (upd s g t) f = sel s f.
Proof. destruct f, g; intros H; try reflexivity; contradiction. Qed.

Lemma stable_step s f a P x o : stable (sel s f) a P x -> unrelated_op f a P x o ->
  stable (sel (fst (step s o)) f) a P x.
Proof.
  intros Hst Hun. destruct o as [g b c y|g b c y|z]; cbn [step fst unrelated_op] in *.
  - destruct (fam_dec g f) as [->|Hgf]; [|rewrite sel_upd_other; auto].
    rewrite sel_upd. destruct Hun as [Hun|[H1 H2]]; [contradiction|]. apply stable_insert; auto.
  - destruct (fam_dec g f) as [->|Hgf]; [|rewrite sel_upd_other; auto].
    rewrite sel_upd. destruct Hun as [Hun|Hun]; [contradiction|]. apply stable_remove; auto.
  - destruct f; cbn [sel t4 t6] in *; apply stable_remove_by_peer; auto.
Qed.

Theorem lookup_stable_under_unrelated_ops : forall (churn : list op) s f a P x,
  stable (sel s f) a P x -> Forall (unrelated_op f a P x) churn ->
  stable (sel (final step s churn) f) a P x /\ tlookup (final step s churn) f a = Some x.
Proof.
  induction churn as [|o churn IH]; intros s f a P x Hst Hall.
  - unfold final. cbn [run fst]. split; auto. apply stable_lookup in Hst. exact Hst.
  - inversion Hall as [|? ? Ho Hrest]; subst.
    change (o :: churn) with ([o] ++ churn). rewrite final_app.
    apply IH; auto. unfold final at 1. cbn [run]. destruct (step s o) as [s1 r] eqn:E. cbn [fst].
    change s1 with (fst (s1, r)). rewrite <- E. apply stable_step; auto.
Qed.
