(* Common imports and arithmetic set-up for every stdlib-style file. *)
From Coq Require Export List NArith ZArith Bool Lia ZifyN ZifyNat ZifyBool.
Export ListNotations.
Ltac Zify.zify_post_hook ::= Z.div_mod_to_equations.

(* Reachability over operation lists: every theorem "for all histories" is an
   instance of these two folds. *)
Section Hist.
  Context {S O R : Type}.
  Variable step : S -> O -> S * R.

  Fixpoint run (s : S) (ops : list O) : S * list R :=
    match ops with
    | [] => (s, [])
    | o :: ops' =>
        let '(s1, r) := step s o in
        let '(s2, rs) := run s1 ops' in (s2, r :: rs)
    end.

  Definition final (s : S) (ops : list O) : S := fst (run s ops).
  Definition outs (s : S) (ops : list O) : list R := snd (run s ops).

  Lemma run_app s a b :
    run s (a ++ b) =
    let '(s1, r1) := run s a in let '(s2, r2) := run s1 b in (s2, r1 ++ r2).
  Proof.
    revert s; induction a as [|o a IH]; intros s; cbn [run app].
    - destruct (run s b); reflexivity.
    - destruct (step s o) as [s1 r]. rewrite IH.
      destruct (run s1 a) as [s2 rs]. destruct (run s2 b). reflexivity.
  Qed.

  Lemma final_app s a b : final s (a ++ b) = final (final s a) b.
  Proof.
    unfold final. rewrite run_app. destruct (run s a) as [s1 r1]. cbn [fst].
    destruct (run s1 b). reflexivity.
  Qed.

  Lemma outs_app s a b : outs s (a ++ b) = outs s a ++ outs (final s a) b.
  Proof.
    unfold outs, final. rewrite run_app. destruct (run s a) as [s1 r1]. cbn [fst snd].
    destruct (run s1 b). reflexivity.
  Qed.

  Lemma outs_length s ops : length (outs s ops) = length ops.
  Proof.
    unfold outs. revert s; induction ops as [|o ops IH]; intros s; cbn [run]; [reflexivity|].
    destruct (step s o) as [s1 r]. specialize (IH s1). destruct (run s1 ops). cbn [snd length] in *. lia.
  Qed.

  (* Invariant lifting *)
  Lemma final_inv (Inv : S -> Prop) :
    (forall s o, Inv s -> Inv (fst (step s o))) ->
    forall ops s, Inv s -> Inv (final s ops).
  Proof.
    intros Hstep ops. unfold final. induction ops as [|o ops IH]; intros s Hs; cbn [run]; [exact Hs|].
    specialize (Hstep s o Hs). destruct (step s o) as [s1 r]. cbn [fst] in Hstep.
    specialize (IH s1 Hstep). destruct (run s1 ops). exact IH.
  Qed.
End Hist.

(* Simulation between two step functions with the same outputs. *)
Section Sim.
  Context {S1 S2 O R : Type}.
  Variable step1 : S1 -> O -> S1 * R.
  Variable step2 : S2 -> O -> S2 * R.
  Variable Rel : S1 -> S2 -> Prop.
  Hypothesis Hstep : forall s1 s2 o, Rel s1 s2 ->
     snd (step1 s1 o) = snd (step2 s2 o) /\ Rel (fst (step1 s1 o)) (fst (step2 s2 o)).

  Lemma sim_run ops : forall s1 s2, Rel s1 s2 ->
     outs step1 s1 ops = outs step2 s2 ops /\ Rel (final step1 s1 ops) (final step2 s2 ops).
  Proof.
    unfold outs, final. induction ops as [|o ops IH]; intros s1 s2 H; cbn [run].
    - split; [reflexivity|exact H].
    - destruct (Hstep s1 s2 o H) as [Ho Hr].
      destruct (step1 s1 o) as [a r1], (step2 s2 o) as [b r2]. cbn [fst snd] in *.
      destruct (IH a b Hr) as [IHo IHr].
      destruct (run step1 a ops), (run step2 b ops). cbn [fst snd] in *. subst. split; [reflexivity|exact IHr].
  Qed.
End Sim.

Fixpoint set_nth {A} (l : list A) (i : nat) (v : A) : list A :=
  match l, i with
  | [], _ => []
  | _ :: t, O => v :: t
  | h :: t, S k => h :: set_nth t k v
  end.

Lemma set_nth_length {A} (l : list A) i v : length (set_nth l i v) = length l.
Proof. revert i; induction l as [|h t IH]; intros [|i]; cbn; auto. Qed.

Lemma nth_set_nth {A} (l : list A) i j v d :
  nth j (set_nth l i v) d = if Nat.eqb j i then (if Nat.ltb i (length l) then v else nth j l d) else nth j l d.
Proof.
  revert i j; induction l as [|h t IH]; intros i j.
  - cbn. destruct (Nat.eqb j i); destruct j; reflexivity.
  - destruct i as [|i], j as [|j]; cbn [set_nth nth length]; try reflexivity.
    rewrite IH. cbn [Nat.eqb]. destruct (Nat.eqb j i); [|reflexivity].
    change (S i <? S (length t))%nat with (i <? length t)%nat. reflexivity.
Qed.
