(* Primitive 63-bit integers are used ONLY to carry data in generated case
   files (N numerals of many digits are slow to parse).  Models and theorems
   never mention them. *)
From Coq Require Import NArith ZArith List Uint63.
Import ListNotations.

Definition n_of_int (x : int) : N := Z.to_N (Uint63.to_Z x).
Definition int_is (x : int) (v : int) : bool := Uint63.eqb x v.

(* 7 bytes per literal, little end first; [len] is the byte length. *)
Fixpoint bytes_of_n (n : nat) (x : N) : list N :=
  match n with
  | O => []
  | S k => N.modulo x 256 :: bytes_of_n k (N.div x 256)
  end.
Fixpoint unpack7 (l : list int) : list N :=
  match l with
  | [] => []
  | x :: t => bytes_of_n 7 (n_of_int x) ++ unpack7 t
  end.
Definition unpack (len : int) (l : list int) : list N :=
  firstn (N.to_nat (n_of_int len)) (unpack7 l).
Definition ns_of_ints (l : list int) : list N := map n_of_int l.
