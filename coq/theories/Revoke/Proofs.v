(* C15 — theorems about the slice model (Revoke/Model.v), for all event lists.
   The full statements are fixed below as Definitions `*_statement : Prop`.  Proved in this file (Qed, no axioms):
   unknown_index_refused, identity_change_new_handshakes, handshakes_present_current_identity, self_peer_dropped,
   removed_peer_unroutable, removed_peer_unroutable_at_once, replace_peers_unroutes_all.
   The remaining statements are evaluated on every co-simulation trace through Revoke/Spec.v (clauses 1-7) and on
   bounded exhaustive event lists in Props/C15.v; their invariant proofs are not finished (see notes/C15.md). *)
From WG Require Import Base.Prelude Gen.Constants Revoke.Model Revoke.Spec.
Local Open Scope N_scope.

Definition reached (id : key) (evs : list ev) : state := final step (init id) evs.

(* 1. allowed-IPs entries only ever point at configured peers; right after remove=true nothing routes to the peer *)
Definition removed_peer_unroutable_statement : Prop :=
  forall id evs pfx pk,
    route pfx (d_routes (reached id evs)) = Some pk -> has_peer pk (d_peers (reached id evs)) = true.
Definition removed_peer_unroutable_at_once_statement : Prop :=
  forall id evs pk pfx, route pfx (d_routes (reached id (evs ++ [ERemove pk]))) <> Some pk.
Definition replace_peers_unroutes_all_statement : Prop :=
  forall id evs pfx, route pfx (d_routes (reached id (evs ++ [EReplacePeers]))) = None.

(* 2. whatever the device emits in a step is addressed to / attributed to a peer that is in the peer map
      before AND after the step (so nothing is ever emitted toward a removed peer, nor by the removing step) *)
Definition removed_peer_no_output_statement : Prop :=
  forall id evs e o,
    In o (snd (step (reached id evs) e)) ->
    has_peer (out_peer o) (d_peers (reached id evs)) = true /\
    has_peer (out_peer o) (d_peers (fst (step (reached id evs) e))) = true.

(* 3. the index table has no entry whose peer is not in the peer map; an index that is not in the table is refused *)
Definition removed_peer_indices_refused_statement : Prop :=
  forall id evs i e,
    In (i, e) (d_itab (reached id evs)) -> has_peer (e_peer e) (d_peers (reached id evs)) = true.
Definition removed_peer_sessions_gone_statement : Prop :=
  forall id evs pk i e, In (i, e) (d_itab (reached id (evs ++ [ERemove pk]))) -> e_peer e <> pk.
Definition replace_peers_empties_index_table_statement : Prop :=
  forall id evs, d_itab (reached id (evs ++ [EReplacePeers])) = [] /\ d_peers (reached id (evs ++ [EReplacePeers])) = [].
Definition unknown_index_refused_statement : Prop :=
  forall s idx,
    it_get idx (d_itab s) = None ->
    (forall src ka oidx, step s (ETransport idx src ka oidx) = (s, [])) /\
    (forall from id ridx, step s (EResponse idx from id ridx) = (s, [])).

(* 4. after a private-key change no transport is emitted under any keypair created before it:
      every transport message leaves under a keypair of the current identity epoch *)
Definition identity_change_stops_old_sessions_statement : Prop :=
  forall id evs e to ridx ep,
    In (OTransport to ridx ep) (snd (step (reached id evs) e)) -> ep = d_epoch (reached id evs).
(* ... and a key change makes every current/next keypair unusable for sending and clears pending handshakes *)
Definition identity_change_kills_keypairs_statement : Prop :=
  forall id evs k p,
    k <> d_ident (reached id evs) ->
    In p (d_peers (reached id (evs ++ [ESetKey k]))) ->
    usable (p_cur p) = false /\ usable (p_next p) = false /\ p_hs p = None.
Definition identity_change_drops_pending_handshakes_statement : Prop :=
  forall id evs k i e,
    k <> d_ident (reached id evs) ->
    In (i, e) (d_itab (reached id (evs ++ [ESetKey k]))) -> e_hs e = false.

(* 5. handshake messages present the current identity; messages for another identity are refused *)
Definition identity_change_new_handshakes_statement : Prop :=
  forall id evs e,
    let s := reached id evs in
    (forall to i d, In (OInit to i d) (snd (step s e)) -> d = d_ident s) /\
    (forall to i r d, In (OResp to i r d) (snd (step s e)) -> d = d_ident s) /\
    (forall from d oidx ridx, d <> d_ident s -> step s (EInitiation from d oidx ridx) = (s, [])) /\
    (forall idx from d ridx, d <> d_ident s -> step s (EResponse idx from d ridx) = (s, [])).

(* 6. the device's own public key is never in the peer map *)
Definition self_peer_dropped_statement : Prop :=
  forall id evs, has_peer (d_ident (reached id evs)) (d_peers (reached id evs)) = false.


(* ------------------------------------------------------------ basic facts *)

Lemma has_peer_in pk l : has_peer pk l = true <-> In pk (map p_pk l).
Proof.
  unfold has_peer. induction l as [|p l IH]; cbn [find_peer map In]; [split; [discriminate|tauto]|].
  destruct (p_pk p =? pk) eqn:E.
  - apply N.eqb_eq in E. split; auto.
  - apply N.eqb_neq in E. rewrite IH. split; [auto|intros [H|H]; [contradiction|exact H]].
Qed.

Lemma find_peer_pk pk l p : find_peer pk l = Some p -> p_pk p = pk.
Proof.
  induction l as [|q l IH]; cbn [find_peer]; [discriminate|].
  destruct (p_pk q =? pk) eqn:E; [|exact IH]. intros H; injection H; intros <-. apply N.eqb_eq; exact E.
Qed.

Lemma find_peer_In pk l p : find_peer pk l = Some p -> In p l.
Proof.
  induction l as [|q l IH]; cbn [find_peer]; [discriminate|].
  destruct (p_pk q =? pk); [intros H; injection H; intros <-; left; reflexivity|intros H; right; auto].
Qed.

Lemma find_has pk l p : find_peer pk l = Some p -> has_peer pk l = true.
Proof. unfold has_peer. intros ->. reflexivity. Qed.

Lemma keys_put_peer q l : map p_pk (put_peer q l) = map p_pk l.
Proof.
  unfold put_peer. rewrite map_map. apply map_ext_in. intros p _.
  destruct (p_pk p =? p_pk q) eqn:E; [apply N.eqb_eq in E; auto|reflexivity].
Qed.

Lemma keys_map_same (f : peer -> peer) l : (forall p, p_pk (f p) = p_pk p) -> map p_pk (map f l) = map p_pk l.
Proof. intros H. rewrite map_map. apply map_ext. exact H. Qed.

Lemma has_put_peer pk q l : has_peer pk (put_peer q l) = has_peer pk l.
Proof.
  destruct (has_peer pk (put_peer q l)) eqn:A, (has_peer pk l) eqn:B; auto.
  - apply has_peer_in in A. rewrite keys_put_peer in A. apply has_peer_in in A. congruence.
  - apply has_peer_in in B. rewrite <- (keys_put_peer q) in B. apply has_peer_in in B. congruence.
Qed.

Lemma has_map_same pk (f : peer -> peer) l : (forall p, p_pk (f p) = p_pk p) -> has_peer pk (map f l) = has_peer pk l.
Proof.
  intros H. destruct (has_peer pk (map f l)) eqn:A, (has_peer pk l) eqn:B; auto.
  - apply has_peer_in in A. rewrite keys_map_same in A by exact H. apply has_peer_in in A. congruence.
  - apply has_peer_in in B. rewrite <- (keys_map_same f) in B by exact H. apply has_peer_in in B. congruence.
Qed.

Lemma has_del_peer pk x l : has_peer x (del_peer pk l) = true <-> has_peer x l = true /\ x <> pk.
Proof.
  rewrite !has_peer_in. unfold del_peer. induction l as [|p l IH]; cbn [filter map In]; [tauto|].
  destruct (p_pk p =? pk) eqn:E; cbn [negb map In].
  - apply N.eqb_eq in E. rewrite IH. split; [tauto|]. intros [[H|H] N]; [congruence|tauto].
  - apply N.eqb_neq in E. rewrite IH. split; [intros [H|H]; [subst; tauto|tauto]|tauto].
Qed.

Lemma has_app_new x l q : has_peer x (l ++ [q]) = true <-> has_peer x l = true \/ x = p_pk q.
Proof.
  rewrite !has_peer_in, map_app, in_app_iff. cbn [map In]. split; [intros [H|[H|[]]]; auto|intros [H|H]; auto].
Qed.

Lemma route_in pfx r pk : route pfx r = Some pk -> In (pfx, pk) r.
Proof.
  induction r as [|[x o] r IH]; cbn [route]; [discriminate|].
  destruct (x =? pfx) eqn:E; [intros H; injection H; intros <-; apply N.eqb_eq in E; subst; left; reflexivity|intros H; right; auto].
Qed.

(* the send path: what SendStagedPackets can emit *)
Lemma send_staged_spec up id oidx p t p' t' o :
  send_staged up id oidx p t = (p', t', o) ->
  p_pk p' = p_pk p /\ p_run p' = p_run p /\ p_prev p' = p_prev p /\ p_cur p' = p_cur p /\ p_next p' = p_next p /\
  (forall x, In x o ->
     x = OInit (p_pk p) oidx id \/
     exists k, p_cur p = Some k /\ k_dead k = false /\ x = OTransport (p_pk p) (k_ridx k) (k_epoch k)).
Proof.
  unfold send_staged. destruct ((p_staged p =? 0) || negb up).
  { intros H; injection H; intros <- <- <-. repeat split; auto. intros x []. }
  assert (Hrep : forall k n x, In x (repeat_out (OTransport (p_pk p) (k_ridx k) (k_epoch k)) n) ->
                 x = OTransport (p_pk p) (k_ridx k) (k_epoch k)).
  { intros k n. induction n as [|n IH]; cbn [repeat_out In]; [tauto|]. intros x [H|H]; auto. }
  destruct (p_cur p) as [k|] eqn:C.
  - destruct (k_dead k) eqn:D; cbn [negb].
    + destruct (p_recent p).
      * intros H; injection H; intros <- <- <-. repeat split; auto. intros x [].
      * intros H; injection H; intros <- <- <-. cbn [p_pk p_run p_prev p_cur p_next]. repeat split; auto.
        intros x Hx. left. destruct (p_ep p); [destruct Hx as [<-|[]]; reflexivity|destruct Hx].
    + intros H; injection H; intros <- <- <-. cbn [set_staged p_pk p_run p_prev p_cur p_next]. repeat split; auto.
      intros x Hx. right. exists k. repeat split; auto. destruct (p_ep p); [eapply Hrep; exact Hx|destruct Hx].
  - destruct (p_recent p).
    + intros H; injection H; intros <- <- <-. repeat split; auto. intros x [].
    + intros H; injection H; intros <- <- <-. cbn [p_pk p_run p_prev p_cur p_next]. repeat split; auto.
      intros x Hx. left. destruct (p_ep p); [destruct Hx as [<-|[]]; reflexivity|destruct Hx].
Qed.

(* ------------------------------------------------------------ 3b/5b: no invariant needed *)

Theorem unknown_index_refused : unknown_index_refused_statement.
Proof.
  unfold unknown_index_refused_statement. intros s idx H. split; intros; cbn [step]; rewrite H;
    repeat match goal with |- context [if ?c then _ else _] => destruct c end; reflexivity.
Qed.

Lemma foreign_initiation_refused s from d oidx ridx : d <> d_ident s -> step s (EInitiation from d oidx ridx) = (s, []).
Proof.
  intros H. cbn [step]. apply N.eqb_neq in H. rewrite H. cbn [negb]. destruct (negb (d_up s)); reflexivity.
Qed.
Lemma foreign_response_refused s idx from d ridx : d <> d_ident s -> step s (EResponse idx from d ridx) = (s, []).
Proof.
  intros H. cbn [step]. apply N.eqb_neq in H. rewrite H. cbn [negb]. destruct (negb (d_up s)); reflexivity.
Qed.

Ltac dmatch :=
  repeat match goal with
         | |- context [match ?x with _ => _ end] => destruct x eqn:?
         end.

Lemma in_app_tun {o : out} {l : list out} {w : list out} :
  In o (l ++ w) -> In o l \/ In o w.
Proof. apply in_app_or. Qed.

Ltac fin_ident :=
  split; intros; subst; try discriminate;
  match goal with
  | E : OInit _ _ _ = OInit _ _ _ |- _ => injection E; intros; subst; reflexivity
  | E : OResp _ _ _ _ = OResp _ _ _ _ |- _ => injection E; intros; subst; reflexivity
  end.

(* handshake messages carry the current identity *)
Lemma step_hs_ident s e o : In o (snd (step s e)) ->
  (forall to i d, o = OInit to i d -> d = d_ident s) /\ (forall to i r d, o = OResp to i r d -> d = d_ident s).
Proof.
  destruct e; cbn [step]; dmatch; cbn [snd fst] in *; intros Hin;
    try (destruct Hin; fail);
    repeat match goal with
           | H : (if ?c then _ else _) = _ |- _ => destruct c eqn:?
           | H : (_, _) = (_, _) |- _ => injection H; clear H; intros; subst
           end;
    try (destruct Hin; fail);
    repeat match goal with
           | H : send_staged _ _ _ _ _ = _ |- _ => apply send_staged_spec in H; destruct H as (_ & _ & _ & _ & _ & H)
           end;
    try (apply in_app_or in Hin; destruct Hin as [Hin|Hin]);
    try (destruct Hin as [<-|[]]; fin_ident);
    try (destruct Hin; fail);
    try (match goal with H : forall x, In x _ -> _ |- _ => destruct (H _ Hin) as [E|(? & _ & _ & E)]; fin_ident end).
Qed.

Theorem identity_change_new_handshakes : identity_change_new_handshakes_statement.
Proof.
  unfold identity_change_new_handshakes_statement. intros id evs e. cbv zeta.
  split; [|split; [|split]].
  - intros to i d H. eapply (proj1 (step_hs_ident _ _ _ H)). reflexivity.
  - intros to i r d H. eapply (proj2 (step_hs_ident _ _ _ H)). reflexivity.
  - intros. apply foreign_initiation_refused. assumption.
  - intros. apply foreign_response_refused. assumption.
Qed.

(* the same, for every state (no reachability needed) *)
Theorem handshakes_present_current_identity : forall s e o,
  In o (snd (step s e)) ->
  (forall to i d, o = OInit to i d -> d = d_ident s) /\ (forall to i r d, o = OResp to i r d -> d = d_ident s).
Proof. exact step_hs_ident. Qed.

(* ------------------------------------------------------------ routes and the peer map *)

Definition keys (s : state) : list key := map p_pk (d_peers s).
Definition invA (s : state) : Prop :=
  (forall pfx pk, In (pfx, pk) (d_routes s) -> In pk (keys s)) /\ ~ In (d_ident s) (keys s).

Lemma start_pk p : p_pk (start p) = p_pk p.
Proof. unfold start. destruct (p_run p); reflexivity. Qed.
Lemma stop_pk p t : p_pk (fst (stop p t)) = p_pk p.
Proof. unfold stop. destruct (p_run p); reflexivity. Qed.

Lemma step_frame s e :
  match e with
  | EAddPeer _ _ _ _ | ERemove _ | EReplacePeers | ESetKey _ => True
  | _ => keys (fst (step s e)) = keys s /\ d_routes (fst (step s e)) = d_routes s /\ d_ident (fst (step s e)) = d_ident s
  end.
Proof.
  unfold keys. destruct e; try exact I; cbn [step]; dmatch;
    cbn [fst with_peers_tab d_peers d_routes d_ident]; rewrite ?keys_put_peer; auto;
    (split; [|auto]); apply keys_map_same; intros q; try apply start_pk; try apply stop_pk;
    destruct (p_pk q =? _); reflexivity.
Qed.

Lemma keys_del pk l x : In x (map p_pk (del_peer pk l)) <-> In x (map p_pk l) /\ x <> pk.
Proof. rewrite <- !has_peer_in. apply has_del_peer. Qed.

Lemma remove_peer_invA pk s : invA s -> invA (remove_peer pk s) /\ ~ In pk (keys (remove_peer pk s)) /\ d_ident (remove_peer pk s) = d_ident s.
Proof.
  intros (R & S). unfold remove_peer. destruct (find_peer pk (d_peers s)) as [p|] eqn:F.
  - unfold invA, keys; cbn [d_routes d_peers d_ident]. split; [split|split; [|reflexivity]].
    + intros pfx o H. unfold unroute_peer in H. apply filter_In in H. destruct H as (H & N). cbn [snd] in N.
      apply keys_del. split; [eapply R; exact H|]. intros ->. rewrite N.eqb_refl in N. discriminate.
    + intros H. apply keys_del in H. apply S. apply H.
    + intros H. apply keys_del in H. destruct H as (_ & H). apply H. reflexivity.
  - split; [split; assumption|split; [|reflexivity]].
    intros H. apply has_peer_in in H. unfold has_peer in H. rewrite F in H. discriminate.
Qed.

Lemma remove_all_invA pks : forall s, invA s -> invA (remove_all pks s) /\ (forall x, In x pks -> ~ In x (keys (remove_all pks s))) /\
  (forall x, In x (keys (remove_all pks s)) -> In x (keys s)).
Proof.
  induction pks as [|pk r IH]; intros s H; cbn [remove_all].
  - split; [exact H|]. split; [intros x []|auto].
  - destruct (remove_peer_invA pk s H) as (H1 & N1 & _). destruct (IH _ H1) as (H2 & N2 & Sub).
    split; [exact H2|]. split.
    + intros x [<-|Hx]; [intros Hin; apply N1; apply Sub; exact Hin|apply N2; exact Hx].
    + intros x Hx. apply Sub in Hx. unfold remove_peer in Hx. destruct (find_peer pk (d_peers s)); [|exact Hx].
      unfold keys in Hx; cbn [d_peers] in Hx. apply keys_del in Hx. apply Hx.
Qed.

Lemma fold_add_route_in pk pfxs : forall r x o, In (x, o) (fold_left (add_route pk) pfxs r) -> o = pk \/ In (x, o) r.
Proof.
  induction pfxs as [|f fs IH]; intros r x o; cbn [fold_left]; [auto|].
  intros H. apply IH in H. destruct H as [H|H]; [auto|]. unfold add_route in H. destruct H as [H|H].
  - injection H; intros; subst. auto.
  - apply filter_In in H. right. apply H.
Qed.

Lemma invA_step s e : invA s -> invA (fst (step s e)).
Proof.
  intros H. pose proof (step_frame s e) as Fr.
  destruct e; try (destruct Fr as (K & R & Id); unfold invA; rewrite K, R, Id; exact H).
  - (* EAddPeer *)
    destruct H as (R & S). cbn [step]. destruct (pk =? d_ident s) eqn:E; [split; assumption|]. apply N.eqb_neq in E.
    match goal with |- context [fold_left (add_route pk) pfx ?r] => set (rt := fold_left (add_route pk) pfx r) end.
    match goal with |- context [if has_peer pk ?l then ?a else ?b] => set (ps := if has_peer pk l then a else b) end.
    assert (Kps : forall x, In x (map p_pk ps) <-> In x (keys s) \/ x = pk).
    { intros x. unfold ps, keys. destruct (has_peer pk (d_peers s)) eqn:Hp.
      - assert (In pk (map p_pk (d_peers s))) by (apply has_peer_in; exact Hp).
        destruct ep; [rewrite keys_map_same by (intros q; destruct (p_pk q =? pk); reflexivity)|];
          (split; [auto|intros [A|A]; [auto|subst x; auto]]).
      - rewrite map_app, in_app_iff. cbn [map In new_peer p_pk]. split; [intros [A|[A|[]]]; auto|intros [A|A]; auto]. }
    assert (Goal : forall ps', (forall x, In x (map p_pk ps') <-> In x (map p_pk ps)) -> forall t,
              invA {| d_ident := d_ident s; d_epoch := d_epoch s; d_up := d_up s; d_peers := ps'; d_routes := rt; d_itab := t |}).
    { intros ps' Hk t. unfold invA, keys; cbn [d_routes d_peers d_ident]. split.
      - intros x o Hin. apply Hk, Kps. apply fold_add_route_in in Hin. destruct Hin as [->|Hin]; [auto|left; eapply R; exact Hin].
      - intros Hin. apply Hk, Kps in Hin. destruct Hin as [Hin|Hin]; [apply S; exact Hin|apply E; auto]. }
    destruct (negb (d_up s)); [cbn [fst]; apply Goal; tauto|].
    match goal with |- context [find_peer pk ?l] => set (ps1 := l) end.
    assert (K1 : forall x, In x (map p_pk ps1) <-> In x (map p_pk ps)).
    { intros x. unfold ps1. rewrite keys_map_same; [tauto|]. intros q. destruct (p_pk q =? pk); [apply start_pk|reflexivity]. }
    destruct (find_peer pk ps1) as [p|]; [|cbn [fst]; apply Goal; exact K1].
    destruct (send_staged (d_up s) (d_ident s) oidx p (d_itab s)) as [[p1 t1] o]. cbn [fst].
    apply Goal. intros x. rewrite keys_put_peer. apply K1.
  - (* ERemove *) cbn [step fst]. apply remove_peer_invA. exact H.
  - (* EReplacePeers *) cbn [step fst]. apply remove_all_invA. exact H.
  - (* ESetKey *)
    cbn [step]. destruct (k =? d_ident s); [exact H|]. cbn [fst].
    destruct (remove_peer_invA k s H) as ((R1 & S1) & N1 & _).
    unfold invA, keys in *; cbn [d_routes d_peers d_ident].
    rewrite keys_map_same by reflexivity. split; assumption.
Qed.

Lemma invA_init id : invA (init id).
Proof. unfold invA, keys, init; cbn. split; [intros ? ? []|tauto]. Qed.

Lemma invA_reached id evs : invA (reached id evs).
Proof. unfold reached. apply (final_inv step invA); [intros; apply invA_step; assumption|apply invA_init]. Qed.

Theorem self_peer_dropped : self_peer_dropped_statement.
Proof.
  unfold self_peer_dropped_statement. intros id evs. destruct (invA_reached id evs) as (_ & S).
  destruct (has_peer (d_ident (reached id evs)) (d_peers (reached id evs))) eqn:E; [|reflexivity].
  exfalso. apply S. apply has_peer_in. exact E.
Qed.

Theorem removed_peer_unroutable : removed_peer_unroutable_statement.
Proof.
  unfold removed_peer_unroutable_statement. intros id evs pfx pk H. destruct (invA_reached id evs) as (R & _).
  apply has_peer_in. eapply R. apply route_in. exact H.
Qed.

Theorem removed_peer_unroutable_at_once : removed_peer_unroutable_at_once_statement.
Proof.
  unfold removed_peer_unroutable_at_once_statement. intros id evs pk pfx H.
  pose proof (removed_peer_unroutable id (evs ++ [ERemove pk]) pfx pk H) as Hp.
  unfold reached in Hp. rewrite final_app in Hp. unfold final at 1 in Hp. cbn [run step fst] in Hp.
  destruct (remove_peer_invA pk (final step (init id) evs) (invA_reached id evs)) as (_ & N & _).
  apply N. apply has_peer_in. exact Hp.
Qed.

Theorem replace_peers_unroutes_all : replace_peers_unroutes_all_statement.
Proof.
  unfold replace_peers_unroutes_all_statement. intros id evs pfx.
  destruct (route pfx (d_routes (reached id (evs ++ [EReplacePeers])))) as [pk|] eqn:E; [exfalso|reflexivity].
  pose proof (removed_peer_unroutable id (evs ++ [EReplacePeers]) pfx pk E) as Hp. apply has_peer_in in Hp.
  unfold reached in Hp. rewrite final_app in Hp. unfold final at 1 in Hp. cbn [run step fst] in Hp.
  set (s := final step (init id) evs) in *.
  destruct (remove_all_invA (map p_pk (d_peers s)) s (invA_reached id evs)) as (_ & N & Sub).
  apply (N pk); [apply Sub; exact Hp|exact Hp].
Qed.
