(* C15 — theorems about the slice model (Revoke/Model.v), for all event lists.
   The full statements are fixed below as Definitions `*_statement : Prop`.  Proved in this file (Qed, no axioms):
   unknown_index_refused, identity_change_new_handshakes, handshakes_present_current_identity, self_peer_dropped,
   removed_peer_unroutable, removed_peer_unroutable_at_once, replace_peers_unroutes_all, removed_peer_indices_refused,
   removed_peer_sessions_gone, replace_peers_empties_index_table, removed_peer_no_output, identity_change_kills_keypairs,
   identity_change_stops_old_sessions, identity_change_refuses_pending_responses.
   Invariants: invA (route owners and own key vs the peer map), invIQ (every index-table entry is held by a slot of its
   owner's record; a peer that is not running holds no index), invE (keypairs usable for sending have the current epoch).
   Not proved: identity_change_drops_pending_handshakes_statement (the table-level form: no handshake ENTRY survives an
   identity change); its behavioural form identity_change_refuses_pending_responses is proved. *)
From WG Require Import Base.Prelude Gen.Constants Revoke.Model Revoke.Spec.
Local Open Scope N_scope.

Definition reached (id : key) (evs : list ev) : state := final step (init id) evs.

(* 1. allowed-IPs entries only ever point at configured peers; right after remove=true nothing routes to the peer *)
Definition removed_peer_unroutable_statement : Prop :=
  forall id evs pfx pk,
    route pfx (d_routes (reached id evs)) = Some pk -> has_peer pk (d_peers (reached id evs)) = true.
Definition removed_peer_unroutable_at_once_statement : Prop :=
  forall id evs pk pfx, route pfx (d_routes (reached id (evs ++ [ERemove pk]))) <> Some pk.
Definition replace_peers_unroutes_all_statement : Prop :=
  forall id evs pfx, route pfx (d_routes (reached id (evs ++ [EReplacePeers]))) = None.

(* 2. whatever the device emits in a step is addressed to / attributed to a peer that is in the peer map
      before AND after the step (so nothing is ever emitted toward a removed peer, nor by the removing step) *)
Definition removed_peer_no_output_statement : Prop :=
  forall id evs e o,
    In o (snd (step (reached id evs) e)) ->
    has_peer (out_peer o) (d_peers (reached id evs)) = true /\
    has_peer (out_peer o) (d_peers (fst (step (reached id evs) e))) = true.

(* 3. the index table has no entry whose peer is not in the peer map; an index that is not in the table is refused *)
Definition removed_peer_indices_refused_statement : Prop :=
  forall id evs i e,
    In (i, e) (d_itab (reached id evs)) -> has_peer (e_peer e) (d_peers (reached id evs)) = true.
Definition removed_peer_sessions_gone_statement : Prop :=
  forall id evs pk i e, In (i, e) (d_itab (reached id (evs ++ [ERemove pk]))) -> e_peer e <> pk.
Definition replace_peers_empties_index_table_statement : Prop :=
  forall id evs, d_itab (reached id (evs ++ [EReplacePeers])) = [] /\ d_peers (reached id (evs ++ [EReplacePeers])) = [].
Definition unknown_index_refused_statement : Prop :=
  forall s idx,
    it_get idx (d_itab s) = None ->
    (forall src ka oidx, step s (ETransport idx src ka oidx) = (s, [])) /\
    (forall from id ridx, step s (EResponse idx from id ridx) = (s, [])).

(* 4. after a private-key change no transport is emitted under any keypair created before it:
      every transport message leaves under a keypair of the current identity epoch *)
Definition identity_change_stops_old_sessions_statement : Prop :=
  forall id evs e to ridx ep,
    In (OTransport to ridx ep) (snd (step (reached id evs) e)) -> ep = d_epoch (reached id evs).
(* ... and a key change makes every current/next keypair unusable for sending and clears pending handshakes *)
Definition identity_change_kills_keypairs_statement : Prop :=
  forall id evs k p,
    k <> d_ident (reached id evs) ->
    In p (d_peers (reached id (evs ++ [ESetKey k]))) ->
    usable (p_cur p) = false /\ usable (p_next p) = false /\ p_hs p = None.
Definition identity_change_drops_pending_handshakes_statement : Prop :=
  forall id evs k i e,
    k <> d_ident (reached id evs) ->
    In (i, e) (d_itab (reached id (evs ++ [ESetKey k]))) -> e_hs e = false.

(* 5. handshake messages present the current identity; messages for another identity are refused *)
Definition identity_change_new_handshakes_statement : Prop :=
  forall id evs e,
    let s := reached id evs in
    (forall to i d, In (OInit to i d) (snd (step s e)) -> d = d_ident s) /\
    (forall to i r d, In (OResp to i r d) (snd (step s e)) -> d = d_ident s) /\
    (forall from d oidx ridx, d <> d_ident s -> step s (EInitiation from d oidx ridx) = (s, [])) /\
    (forall idx from d ridx, d <> d_ident s -> step s (EResponse idx from d ridx) = (s, [])).

(* 6. the device's own public key is never in the peer map *)
Definition self_peer_dropped_statement : Prop :=
  forall id evs, has_peer (d_ident (reached id evs)) (d_peers (reached id evs)) = false.


(* ------------------------------------------------------------ basic facts *)

Lemma has_peer_in pk l : has_peer pk l = true <-> In pk (map p_pk l).
Proof.
  unfold has_peer. induction l as [|p l IH]; cbn [find_peer map In]; [split; [discriminate|tauto]|].
  destruct (p_pk p =? pk) eqn:E.
  - apply N.eqb_eq in E. split; auto.
  - apply N.eqb_neq in E. rewrite IH. split; [auto|intros [H|H]; [contradiction|exact H]].
Qed.

Lemma find_peer_pk pk l p : find_peer pk l = Some p -> p_pk p = pk.
Proof.
  induction l as [|q l IH]; cbn [find_peer]; [discriminate|].
  destruct (p_pk q =? pk) eqn:E; [|exact IH]. intros H; injection H; intros <-. apply N.eqb_eq; exact E.
Qed.

Lemma find_peer_In pk l p : find_peer pk l = Some p -> In p l.
Proof.
  induction l as [|q l IH]; cbn [find_peer]; [discriminate|].
  destruct (p_pk q =? pk); [intros H; injection H; intros <-; left; reflexivity|intros H; right; auto].
Qed.

Lemma find_has pk l p : find_peer pk l = Some p -> has_peer pk l = true.
Proof. unfold has_peer. intros ->. reflexivity. Qed.

Lemma keys_put_peer q l : map p_pk (put_peer q l) = map p_pk l.
Proof.
  unfold put_peer. rewrite map_map. apply map_ext_in. intros p _.
  destruct (p_pk p =? p_pk q) eqn:E; [apply N.eqb_eq in E; auto|reflexivity].
Qed.

Lemma keys_map_same (f : peer -> peer) l : (forall p, p_pk (f p) = p_pk p) -> map p_pk (map f l) = map p_pk l.
Proof. intros H. rewrite map_map. apply map_ext. exact H. Qed.

Lemma has_put_peer pk q l : has_peer pk (put_peer q l) = has_peer pk l.
Proof.
  destruct (has_peer pk (put_peer q l)) eqn:A, (has_peer pk l) eqn:B; auto.
  - apply has_peer_in in A. rewrite keys_put_peer in A. apply has_peer_in in A. congruence.
  - apply has_peer_in in B. rewrite <- (keys_put_peer q) in B. apply has_peer_in in B. congruence.
Qed.

Lemma has_map_same pk (f : peer -> peer) l : (forall p, p_pk (f p) = p_pk p) -> has_peer pk (map f l) = has_peer pk l.
Proof.
  intros H. destruct (has_peer pk (map f l)) eqn:A, (has_peer pk l) eqn:B; auto.
  - apply has_peer_in in A. rewrite keys_map_same in A by exact H. apply has_peer_in in A. congruence.
  - apply has_peer_in in B. rewrite <- (keys_map_same f) in B by exact H. apply has_peer_in in B. congruence.
Qed.

Lemma has_del_peer pk x l : has_peer x (del_peer pk l) = true <-> has_peer x l = true /\ x <> pk.
Proof.
  rewrite !has_peer_in. unfold del_peer. induction l as [|p l IH]; cbn [filter map In]; [tauto|].
  destruct (p_pk p =? pk) eqn:E; cbn [negb map In].
  - apply N.eqb_eq in E. rewrite IH. split; [tauto|]. intros [[H|H] N]; [congruence|tauto].
  - apply N.eqb_neq in E. rewrite IH. split; [intros [H|H]; [subst; tauto|tauto]|tauto].
Qed.

Lemma has_app_new x l q : has_peer x (l ++ [q]) = true <-> has_peer x l = true \/ x = p_pk q.
Proof.
  rewrite !has_peer_in, map_app, in_app_iff. cbn [map In]. split; [intros [H|[H|[]]]; auto|intros [H|H]; auto].
Qed.

Lemma route_in pfx r pk : route pfx r = Some pk -> In (pfx, pk) r.
Proof.
  induction r as [|[x o] r IH]; cbn [route]; [discriminate|].
  destruct (x =? pfx) eqn:E; [intros H; injection H; intros <-; apply N.eqb_eq in E; subst; left; reflexivity|intros H; right; auto].
Qed.

(* the send path: what SendStagedPackets can emit *)
Lemma send_staged_spec up id oidx p t p' t' o :
  send_staged up id oidx p t = (p', t', o) ->
  p_pk p' = p_pk p /\ p_run p' = p_run p /\ p_prev p' = p_prev p /\ p_cur p' = p_cur p /\ p_next p' = p_next p /\
  (forall x, In x o ->
     x = OInit (p_pk p) oidx id \/
     exists k, p_cur p = Some k /\ k_dead k = false /\ x = OTransport (p_pk p) (k_ridx k) (k_epoch k)).
Proof.
  unfold send_staged. destruct ((p_staged p =? 0) || negb up).
  { intros H; injection H; intros <- <- <-. repeat split; auto. intros x []. }
  assert (Hrep : forall k n x, In x (repeat_out (OTransport (p_pk p) (k_ridx k) (k_epoch k)) n) ->
                 x = OTransport (p_pk p) (k_ridx k) (k_epoch k)).
  { intros k n. induction n as [|n IH]; cbn [repeat_out In]; [tauto|]. intros x [H|H]; auto. }
  destruct (p_cur p) as [k|] eqn:C.
  - destruct (k_dead k) eqn:D; cbn [negb].
    + destruct (p_recent p).
      * intros H; injection H; intros <- <- <-. repeat split; auto. intros x [].
      * intros H; injection H; intros <- <- <-. cbn [p_pk p_run p_prev p_cur p_next]. repeat split; auto.
        intros x Hx. left. destruct (p_ep p); [destruct Hx as [<-|[]]; reflexivity|destruct Hx].
    + intros H; injection H; intros <- <- <-. cbn [set_staged p_pk p_run p_prev p_cur p_next]. repeat split; auto.
      intros x Hx. right. exists k. repeat split; auto. destruct (p_ep p); [eapply Hrep; exact Hx|destruct Hx].
  - destruct (p_recent p).
    + intros H; injection H; intros <- <- <-. repeat split; auto. intros x [].
    + intros H; injection H; intros <- <- <-. cbn [p_pk p_run p_prev p_cur p_next]. repeat split; auto.
      intros x Hx. left. destruct (p_ep p); [destruct Hx as [<-|[]]; reflexivity|destruct Hx].
Qed.

(* ------------------------------------------------------------ 3b/5b: no invariant needed *)

Theorem unknown_index_refused : unknown_index_refused_statement.
Proof.
  unfold unknown_index_refused_statement. intros s idx H. split; intros; cbn [step]; rewrite H;
    repeat match goal with |- context [if ?c then _ else _] => destruct c end; reflexivity.
Qed.

Lemma foreign_initiation_refused s from d oidx ridx : d <> d_ident s -> step s (EInitiation from d oidx ridx) = (s, []).
Proof.
  intros H. cbn [step]. apply N.eqb_neq in H. rewrite H. cbn [negb]. destruct (negb (d_up s)); reflexivity.
Qed.
Lemma foreign_response_refused s idx from d ridx : d <> d_ident s -> step s (EResponse idx from d ridx) = (s, []).
Proof.
  intros H. cbn [step]. apply N.eqb_neq in H. rewrite H. cbn [negb]. destruct (negb (d_up s)); reflexivity.
Qed.

Ltac dmatch :=
  repeat match goal with
         | |- context [match ?x with _ => _ end] => destruct x eqn:?
         end.

Lemma in_app_tun {o : out} {l : list out} {w : list out} :
  In o (l ++ w) -> In o l \/ In o w.
Proof. apply in_app_or. Qed.

Ltac fin_ident :=
  split; intros; subst; try discriminate;
  match goal with
  | E : OInit _ _ _ = OInit _ _ _ |- _ => injection E; intros; subst; reflexivity
  | E : OResp _ _ _ _ = OResp _ _ _ _ |- _ => injection E; intros; subst; reflexivity
  end.

(* handshake messages carry the current identity *)
Lemma step_hs_ident s e o : In o (snd (step s e)) ->
  (forall to i d, o = OInit to i d -> d = d_ident s) /\ (forall to i r d, o = OResp to i r d -> d = d_ident s).
Proof.
  destruct e; cbn [step]; dmatch; cbn [snd fst] in *; intros Hin;
    try (destruct Hin; fail);
    repeat match goal with
           | H : (if ?c then _ else _) = _ |- _ => destruct c eqn:?
           | H : (_, _) = (_, _) |- _ => injection H; clear H; intros; subst
           end;
    try (destruct Hin; fail);
    repeat match goal with
           | H : send_staged _ _ _ _ _ = _ |- _ => apply send_staged_spec in H; destruct H as (_ & _ & _ & _ & _ & H)
           end;
    try (apply in_app_or in Hin; destruct Hin as [Hin|Hin]);
    try (destruct Hin as [<-|[]]; fin_ident);
    try (destruct Hin; fail);
    try (match goal with H : forall x, In x _ -> _ |- _ => destruct (H _ Hin) as [E|(? & _ & _ & E)]; fin_ident end).
Qed.

Theorem identity_change_new_handshakes : identity_change_new_handshakes_statement.
Proof.
  unfold identity_change_new_handshakes_statement. intros id evs e. cbv zeta.
  split; [|split; [|split]].
  - intros to i d H. eapply (proj1 (step_hs_ident _ _ _ H)). reflexivity.
  - intros to i r d H. eapply (proj2 (step_hs_ident _ _ _ H)). reflexivity.
  - intros. apply foreign_initiation_refused. assumption.
  - intros. apply foreign_response_refused. assumption.
Qed.

(* the same, for every state (no reachability needed) *)
Theorem handshakes_present_current_identity : forall s e o,
  In o (snd (step s e)) ->
  (forall to i d, o = OInit to i d -> d = d_ident s) /\ (forall to i r d, o = OResp to i r d -> d = d_ident s).
Proof. exact step_hs_ident. Qed.

(* ------------------------------------------------------------ routes and the peer map *)

Definition keys (s : state) : list key := map p_pk (d_peers s).
Definition invA (s : state) : Prop :=
  (forall pfx pk, In (pfx, pk) (d_routes s) -> In pk (keys s)) /\ ~ In (d_ident s) (keys s).

Lemma start_pk p : p_pk (start p) = p_pk p.
Proof. unfold start. destruct (p_run p); reflexivity. Qed.
Lemma stop_pk p t : p_pk (fst (stop p t)) = p_pk p.
Proof. unfold stop. destruct (p_run p); reflexivity. Qed.

Lemma step_frame s e :
  match e with
  | EAddPeer _ _ _ _ | ERemove _ | EReplacePeers | ESetKey _ => True
  | _ => keys (fst (step s e)) = keys s /\ d_routes (fst (step s e)) = d_routes s /\ d_ident (fst (step s e)) = d_ident s
  end.
Proof.
  unfold keys. destruct e; try exact I; cbn [step]; dmatch;
    cbn [fst with_peers_tab d_peers d_routes d_ident]; rewrite ?keys_put_peer; auto;
    (split; [|auto]); apply keys_map_same; intros q; try apply start_pk; try apply stop_pk;
    destruct (p_pk q =? _); reflexivity.
Qed.

Lemma keys_del pk l x : In x (map p_pk (del_peer pk l)) <-> In x (map p_pk l) /\ x <> pk.
Proof. rewrite <- !has_peer_in. apply has_del_peer. Qed.

Lemma remove_peer_invA pk s : invA s -> invA (remove_peer pk s) /\ ~ In pk (keys (remove_peer pk s)) /\ d_ident (remove_peer pk s) = d_ident s.
Proof.
  intros (R & S). unfold remove_peer. destruct (find_peer pk (d_peers s)) as [p|] eqn:F.
  - unfold invA, keys; cbn [d_routes d_peers d_ident]. split; [split|split; [|reflexivity]].
    + intros pfx o H. unfold unroute_peer in H. apply filter_In in H. destruct H as (H & N). cbn [snd] in N.
      apply keys_del. split; [eapply R; exact H|]. intros ->. rewrite N.eqb_refl in N. discriminate.
    + intros H. apply keys_del in H. apply S. apply H.
    + intros H. apply keys_del in H. destruct H as (_ & H). apply H. reflexivity.
  - split; [split; assumption|split; [|reflexivity]].
    intros H. apply has_peer_in in H. unfold has_peer in H. rewrite F in H. discriminate.
Qed.

Lemma remove_all_invA pks : forall s, invA s -> invA (remove_all pks s) /\ (forall x, In x pks -> ~ In x (keys (remove_all pks s))) /\
  (forall x, In x (keys (remove_all pks s)) -> In x (keys s)).
Proof.
  induction pks as [|pk r IH]; intros s H; cbn [remove_all].
  - split; [exact H|]. split; [intros x []|auto].
  - destruct (remove_peer_invA pk s H) as (H1 & N1 & _). destruct (IH _ H1) as (H2 & N2 & Sub).
    split; [exact H2|]. split.
    + intros x [<-|Hx]; [intros Hin; apply N1; apply Sub; exact Hin|apply N2; exact Hx].
    + intros x Hx. apply Sub in Hx. unfold remove_peer in Hx. destruct (find_peer pk (d_peers s)); [|exact Hx].
      unfold keys in Hx; cbn [d_peers] in Hx. apply keys_del in Hx. apply Hx.
Qed.

Lemma fold_add_route_in pk pfxs : forall r x o, In (x, o) (fold_left (add_route pk) pfxs r) -> o = pk \/ In (x, o) r.
Proof.
  induction pfxs as [|f fs IH]; intros r x o; cbn [fold_left]; [auto|].
  intros H. apply IH in H. destruct H as [H|H]; [auto|]. unfold add_route in H. destruct H as [H|H].
  - injection H; intros; subst. auto.
  - apply filter_In in H. right. apply H.
Qed.

Lemma invA_step s e : invA s -> invA (fst (step s e)).
Proof.
  intros H. pose proof (step_frame s e) as Fr.
  destruct e; try (destruct Fr as (K & R & Id); unfold invA; rewrite K, R, Id; exact H).
  - (* EAddPeer *)
    destruct H as (R & S). cbn [step]. destruct (pk =? d_ident s) eqn:E; [split; assumption|]. apply N.eqb_neq in E.
    match goal with |- context [fold_left (add_route pk) pfx ?r] => set (rt := fold_left (add_route pk) pfx r) end.
    match goal with |- context [if has_peer pk ?l then ?a else ?b] => set (ps := if has_peer pk l then a else b) end.
    assert (Kps : forall x, In x (map p_pk ps) <-> In x (keys s) \/ x = pk).
    { intros x. unfold ps, keys. destruct (has_peer pk (d_peers s)) eqn:Hp.
      - assert (In pk (map p_pk (d_peers s))) by (apply has_peer_in; exact Hp).
        destruct ep; [rewrite keys_map_same by (intros q; destruct (p_pk q =? pk); reflexivity)|];
          (split; [auto|intros [A|A]; [auto|subst x; auto]]).
      - rewrite map_app, in_app_iff. cbn [map In new_peer p_pk]. split; [intros [A|[A|[]]]; auto|intros [A|A]; auto]. }
    assert (Goal : forall ps', (forall x, In x (map p_pk ps') <-> In x (map p_pk ps)) -> forall t,
              invA {| d_ident := d_ident s; d_epoch := d_epoch s; d_up := d_up s; d_peers := ps'; d_routes := rt; d_itab := t |}).
    { intros ps' Hk t. unfold invA, keys; cbn [d_routes d_peers d_ident]. split.
      - intros x o Hin. apply Hk, Kps. apply fold_add_route_in in Hin. destruct Hin as [->|Hin]; [auto|left; eapply R; exact Hin].
      - intros Hin. apply Hk, Kps in Hin. destruct Hin as [Hin|Hin]; [apply S; exact Hin|apply E; auto]. }
    destruct (negb (d_up s)); [cbn [fst]; apply Goal; tauto|].
    match goal with |- context [find_peer pk ?l] => set (ps1 := l) end.
    assert (K1 : forall x, In x (map p_pk ps1) <-> In x (map p_pk ps)).
    { intros x. unfold ps1. rewrite keys_map_same; [tauto|]. intros q. destruct (p_pk q =? pk); [apply start_pk|reflexivity]. }
    destruct (find_peer pk ps1) as [p|]; [|cbn [fst]; apply Goal; exact K1].
    destruct (send_staged (d_up s) (d_ident s) oidx p (d_itab s)) as [[p1 t1] o]. cbn [fst].
    apply Goal. intros x. rewrite keys_put_peer. apply K1.
  - (* ERemove *) cbn [step fst]. apply remove_peer_invA. exact H.
  - (* EReplacePeers *) cbn [step fst]. apply remove_all_invA. exact H.
  - (* ESetKey *)
    cbn [step]. destruct (k =? d_ident s); [exact H|]. cbn [fst].
    destruct (remove_peer_invA k s H) as ((R1 & S1) & N1 & _).
    unfold invA, keys in *; cbn [d_routes d_peers d_ident].
    rewrite keys_map_same by reflexivity. split; assumption.
Qed.

Lemma invA_init id : invA (init id).
Proof. unfold invA, keys, init; cbn. split; [intros ? ? []|tauto]. Qed.

Lemma invA_reached id evs : invA (reached id evs).
Proof. unfold reached. apply (final_inv step invA); [intros; apply invA_step; assumption|apply invA_init]. Qed.

Theorem self_peer_dropped : self_peer_dropped_statement.
Proof.
  unfold self_peer_dropped_statement. intros id evs. destruct (invA_reached id evs) as (_ & S).
  destruct (has_peer (d_ident (reached id evs)) (d_peers (reached id evs))) eqn:E; [|reflexivity].
  exfalso. apply S. apply has_peer_in. exact E.
Qed.

Theorem removed_peer_unroutable : removed_peer_unroutable_statement.
Proof.
  unfold removed_peer_unroutable_statement. intros id evs pfx pk H. destruct (invA_reached id evs) as (R & _).
  apply has_peer_in. eapply R. apply route_in. exact H.
Qed.

Theorem removed_peer_unroutable_at_once : removed_peer_unroutable_at_once_statement.
Proof.
  unfold removed_peer_unroutable_at_once_statement. intros id evs pk pfx H.
  pose proof (removed_peer_unroutable id (evs ++ [ERemove pk]) pfx pk H) as Hp.
  unfold reached in Hp. rewrite final_app in Hp. unfold final at 1 in Hp. cbn [run step fst] in Hp.
  destruct (remove_peer_invA pk (final step (init id) evs) (invA_reached id evs)) as (_ & N & _).
  apply N. apply has_peer_in. exact Hp.
Qed.

Theorem replace_peers_unroutes_all : replace_peers_unroutes_all_statement.
Proof.
  unfold replace_peers_unroutes_all_statement. intros id evs pfx.
  destruct (route pfx (d_routes (reached id (evs ++ [EReplacePeers])))) as [pk|] eqn:E; [exfalso|reflexivity].
  pose proof (removed_peer_unroutable id (evs ++ [EReplacePeers]) pfx pk E) as Hp. apply has_peer_in in Hp.
  unfold reached in Hp. rewrite final_app in Hp. unfold final at 1 in Hp. cbn [run step fst] in Hp.
  set (s := final step (init id) evs) in *.
  destruct (remove_all_invA (map p_pk (d_peers s)) s (invA_reached id evs)) as (_ & N & Sub).
  apply (N pk); [apply Sub; exact Hp|exact Hp].
Qed.

(* ------------------------------------------------------------ the index table and its owners *)

Definition kpi (k : option kp) : list N := match k with Some x => [k_idx x] | None => [] end.
Definition hsi (h : option N) : list N := match h with Some i => [i] | None => [] end.
Definition idxs (p : peer) : list N := kpi (p_prev p) ++ kpi (p_cur p) ++ kpi (p_next p) ++ hsi (p_hs p).

Definition invI (ps : list peer) (t : list (N * ient)) : Prop :=
  forall i e, In (i, e) t -> exists p, find_peer (e_peer e) ps = Some p /\ In i (idxs p).
Definition invQ (ps : list peer) : Prop := forall p, In p ps -> p_run p = false -> idxs p = [].

Lemma in_it_del i t x : In x (it_del i t) <-> In x t /\ fst x <> i.
Proof.
  unfold it_del. rewrite filter_In. split; intros (A & B); split; auto.
  - intros E. rewrite E, N.eqb_refl in B. discriminate.
  - apply Bool.negb_true_iff. apply N.eqb_neq. exact B.
Qed.
Lemma in_it_set i e t x : In x (it_set i e t) <-> x = (i, e) \/ (In x t /\ fst x <> i).
Proof. unfold it_set. cbn [In]. rewrite in_it_del. split; intros [A|A]; auto. Qed.
Lemma in_it_del_kp k t x : In x (it_del_kp k t) <-> In x t /\ ~ In (fst x) (kpi k).
Proof.
  destruct k as [k|]; cbn [it_del_kp kpi In]; [|tauto].
  rewrite in_it_del. split; intros (A & B); (split; [exact A|]).
  - intros [E|[]]; apply B; auto.
  - intros E; apply B; left; auto.
Qed.
Lemma in_it_del_hs h t x : In x (it_del_hs h t) <-> In x t /\ ~ In (fst x) (hsi h).
Proof.
  destruct h as [h|]; cbn [it_del_hs hsi In]; [|tauto].
  rewrite in_it_del. split; intros (A & B); (split; [exact A|]).
  - intros [E|[]]; apply B; auto.
  - intros E; apply B; left; auto.
Qed.

Lemma find_put_peer x q l :
  find_peer x (put_peer q l) = if x =? p_pk q then (if has_peer x l then Some q else None) else find_peer x l.
Proof.
  unfold put_peer, has_peer. induction l as [|p l IH]; cbn [map find_peer].
  - destruct (x =? p_pk q); reflexivity.
  - destruct (p_pk p =? p_pk q) eqn:E.
    + apply N.eqb_eq in E. destruct (x =? p_pk q) eqn:F.
      * apply N.eqb_eq in F. subst x. rewrite N.eqb_refl. rewrite E, N.eqb_refl. reflexivity.
      * rewrite E. rewrite N.eqb_sym, F. rewrite IH. reflexivity.
    + destruct (p_pk p =? x) eqn:G.
      * apply N.eqb_eq in G. subst x. rewrite E. reflexivity.
      * exact IH.
Qed.

Lemma find_map_same (f : peer -> peer) x l :
  (forall p, p_pk (f p) = p_pk p) -> find_peer x (map f l) = option_map f (find_peer x l).
Proof.
  intros H. induction l as [|p l IH]; cbn [map find_peer option_map]; [reflexivity|].
  rewrite H. destruct (p_pk p =? x); [reflexivity|exact IH].
Qed.

Lemma find_del_peer x pk l : x <> pk -> find_peer x (del_peer pk l) = find_peer x l.
Proof.
  intros Hn. unfold del_peer. induction l as [|p l IH]; cbn [filter find_peer]; [reflexivity|].
  destruct (p_pk p =? pk) eqn:E; cbn [negb].
  - apply N.eqb_eq in E. destruct (p_pk p =? x) eqn:F; [apply N.eqb_eq in F; congruence|exact IH].
  - cbn [find_peer]. destruct (p_pk p =? x); [reflexivity|exact IH].
Qed.

Lemma in_put_peer q l x : In x (put_peer q l) -> x = q \/ In x l.
Proof.
  unfold put_peer. intros H. apply in_map_iff in H. destruct H as (p & E & Hp).
  destruct (p_pk p =? p_pk q); subst; auto.
Qed.

(* replacing one peer record: every entry that stays must still be held by its owner *)
Lemma invI_put ps t pk p q t' :
  invI ps t -> find_peer pk ps = Some p -> p_pk q = pk ->
  (forall i e, In (i, e) t' ->
     (In (i, e) t /\ (In i (idxs p) -> In i (idxs q))) \/ (e_peer e = pk /\ In i (idxs q))) ->
  invI (put_peer q ps) t'.
Proof.
  intros HI F Hq Ht i e Hin. rewrite find_put_peer, Hq.
  destruct (Ht i e Hin) as [(A & B)|(A & B)].
  - destruct (HI i e A) as (p0 & F0 & I0).
    destruct (e_peer e =? pk) eqn:E.
    + apply N.eqb_eq in E. rewrite E in *. rewrite (find_has _ _ _ F). exists q. split; [reflexivity|].
      rewrite F in F0. injection F0; intros <-. auto.
    + exists p0. auto.
  - rewrite A, N.eqb_refl, (find_has _ _ _ F). exists q. auto.
Qed.

Lemma invQ_put ps q : invQ ps -> (p_run q = false -> idxs q = []) -> invQ (put_peer q ps).
Proof. intros H Hq x Hx. destruct (in_put_peer _ _ _ Hx) as [->|Hi]; auto. Qed.

(* SendStagedPackets on the table *)
Lemma send_staged_tab up id oidx p t p' t' o :
  send_staged up id oidx p t = (p', t', o) ->
  (p' = p /\ t' = t) \/ (p_staged p' = 0 /\ p_hs p' = p_hs p /\ t' = t) \/
  (p_hs p' = Some oidx /\ t' = it_set oidx {| e_peer := p_pk p; e_hs := true |} (it_del_hs (p_hs p) t)).
Proof.
  unfold send_staged. destruct ((p_staged p =? 0) || negb up); [intros H; injection H; intros; subst; auto|].
  destruct (p_cur p) as [k|].
  - destruct (negb (k_dead k)).
    + intros H; injection H; intros; subst. right; left. cbn [set_staged p_staged p_hs]. auto.
    + destruct (p_recent p); intros H; injection H; intros; subst; auto; right; right; cbn [p_hs]; auto.
  - destruct (p_recent p); intros H; injection H; intros; subst; auto; right; right; cbn [p_hs]; auto.
Qed.

Lemma idxs_eq p q : p_prev q = p_prev p -> p_cur q = p_cur p -> p_next q = p_next p -> p_hs q = p_hs p -> idxs q = idxs p.
Proof. unfold idxs. intros -> -> -> ->. reflexivity. Qed.

(* after SendStagedPackets the owner still holds every entry it had (minus the replaced pending index) *)
Lemma send_staged_inv up id oidx ps t pk p0 p t1 p' t' o :
  send_staged up id oidx p t1 = (p', t', o) ->
  find_peer pk ps = Some p0 -> p_pk p = pk ->
  (forall i e, In (i, e) t1 ->
     (In (i, e) t /\ (In i (idxs p0) -> In i (idxs p))) \/ (e_peer e = pk /\ In i (idxs p))) ->
  (forall i e, In (i, e) t' ->
     (In (i, e) t /\ (In i (idxs p0) -> In i (idxs p'))) \/ (e_peer e = pk /\ In i (idxs p'))).
Proof.
  intros H F Hpk Ht. pose proof (send_staged_spec _ _ _ _ _ _ _ _ H) as (S1 & S2 & S3 & S4 & S5 & _).
  destruct (send_staged_tab _ _ _ _ _ _ _ _ H) as [(-> & ->)|[(_ & Hh & ->)|(Hh & ->)]]; [exact Ht| |].
  - rewrite (idxs_eq p p') by assumption. exact Ht.
  - intros i e Hin. apply in_it_set in Hin. destruct Hin as [E|(Hin & Hne)].
    + injection E; intros Ee Ei. subst i e. right. cbn [e_peer]. split; [exact Hpk|].
      unfold idxs. rewrite Hh. cbn [hsi]. rewrite !in_app_iff. cbn [In]. auto.
    + apply in_it_del_hs in Hin. destruct Hin as (Hin & Hnh). cbn [fst] in *.
      assert (Keep : In i (idxs p) -> In i (idxs p')).
      { unfold idxs. rewrite S3, S4, S5, Hh. rewrite !in_app_iff. cbn [hsi In]. tauto. }
      destruct (Ht i e Hin) as [(A & B)|(A & B)]; [left|right]; split; auto.
Qed.

Definition invIQ (s : state) : Prop := invI (d_peers s) (d_itab s) /\ invQ (d_peers s).

Ltac slots :=
  unfold idxs in *; cbn [kpi hsi p_prev p_cur p_next p_hs k_idx app In fst e_peer] in *;
  intuition (subst; try congruence; auto).

Lemma stage1_idxs p : idxs (stage1 p) = idxs p.
Proof. reflexivity. Qed.

Lemma invIQ_tun s pfx oidx : invIQ s -> invIQ (fst (step s (ETun pfx oidx))).
Proof.
  intros (HI & HQ). cbn [step].
  destruct (route pfx (d_routes s)) as [pk|]; [|split; assumption].
  destruct (find_peer pk (d_peers s)) as [p|] eqn:F; [|split; assumption].
  destruct (p_run p) eqn:R; cbn [negb]; [|split; assumption].
  destruct (send_staged (d_up s) (d_ident s) oidx (stage1 p) (d_itab s)) as [[p1 t1] o] eqn:S.
  cbn [fst with_peers_tab d_peers d_itab].
  pose proof (send_staged_spec _ _ _ _ _ _ _ _ S) as (S1 & S2 & _).
  split.
  - eapply invI_put; [exact HI|exact F|rewrite S1; cbn [stage1 set_staged p_pk]; eapply find_peer_pk; exact F|].
    apply (send_staged_inv _ _ _ (d_peers s) (d_itab s) pk p _ _ _ _ _ S F); [cbn [stage1 set_staged p_pk]; eapply find_peer_pk; exact F|].
    intros i e Hin. left. split; [exact Hin|]. rewrite stage1_idxs. auto.
  - apply invQ_put; [exact HQ|]. rewrite S2. cbn [stage1 set_staged p_run]. rewrite R. discriminate.
Qed.

Lemma invIQ_transport s idx src ka oidx : invIQ s -> invIQ (fst (step s (ETransport idx src ka oidx))).
Proof.
  intros (HI & HQ). cbn [step].
  destruct (negb (d_up s)); [split; assumption|].
  destruct (it_get idx (d_itab s)) as [e|]; [|split; assumption].
  destruct (e_hs e); [split; assumption|].
  destruct (find_peer (e_peer e) (d_peers s)) as [p|] eqn:F; [|split; assumption].
  destruct (p_run p) eqn:R; cbn [negb]; [|split; assumption].
  pose proof (find_peer_pk _ _ _ F) as Hpk.
  destruct (same_idx (p_next p) idx) eqn:Sm.
  - match goal with |- context [send_staged ?u ?i ?o ?pp ?tt] => destruct (send_staged u i o pp tt) as [[p2 t2] o2] eqn:S end.
    cbn [fst with_peers_tab d_peers d_itab].
    pose proof (send_staged_spec _ _ _ _ _ _ _ _ S) as (S1 & S2 & _). cbn [p_pk p_run] in S1, S2.
    split.
    + eapply invI_put; [exact HI|exact F|rewrite S1; exact Hpk|].
      apply (send_staged_inv _ _ _ (d_peers s) (d_itab s) (e_peer e) p _ _ _ _ _ S F); [exact Hpk|].
      intros i e' Hin. apply in_it_del_kp in Hin. destruct Hin as (Hin & Hn). left. split; [exact Hin|].
      cbn [fst] in Hn. revert Hn. unfold idxs; cbn [p_prev p_cur p_next p_hs].
      destruct (p_prev p), (p_cur p), (p_next p), (p_hs p); slots.
    + apply invQ_put; [exact HQ|]. rewrite S2. discriminate.
  - cbn [fst with_peers_tab d_peers d_itab]. split.
    + eapply invI_put; [exact HI|exact F|exact Hpk|]. intros i e' Hin. left. split; [exact Hin|]. auto.
    + apply invQ_put; [exact HQ|]. cbn [p_run]. discriminate.
Qed.

Lemma invIQ_response s idx from ident ridx : invIQ s -> invIQ (fst (step s (EResponse idx from ident ridx))).
Proof.
  intros (HI & HQ). cbn [step].
  destruct (negb (d_up s)); [split; assumption|].
  destruct (negb (ident =? d_ident s)); [split; assumption|].
  destruct (it_get idx (d_itab s)) as [e|]; [|split; assumption].
  destruct (negb (e_hs e)); [split; assumption|].
  destruct (negb (e_peer e =? from)); [split; assumption|].
  destruct (find_peer (e_peer e) (d_peers s)) as [p|] eqn:F; [|split; assumption].
  pose proof (find_peer_pk _ _ _ F) as Hpk.
  destruct (p_hs p) as [h|] eqn:Hh; [|split; assumption].
  destruct (negb (h =? idx)) eqn:Hx; [split; assumption|].
  apply Bool.negb_false_iff, N.eqb_eq in Hx. subst h.
  assert (Rn : p_run p = true).
  { destruct (p_run p) eqn:R; [reflexivity|]. pose proof (HQ p (find_peer_In _ _ _ F) R) as E.
    unfold idxs in E. rewrite Hh in E. destruct (kpi (p_prev p)), (kpi (p_cur p)), (kpi (p_next p)); discriminate. }
  destruct (p_next p) as [n|] eqn:Hn.
  - match goal with |- context [send_staged ?u ?i ?o ?pp ?tt] => destruct (send_staged u i o pp tt) as [[p2 t2] o2] eqn:S end.
    cbn [fst with_peers_tab d_peers d_itab].
    pose proof (send_staged_spec _ _ _ _ _ _ _ _ S) as (S1 & S2 & _). cbn [p_pk p_run] in S1, S2.
    split.
    + eapply invI_put; [exact HI|exact F|rewrite S1; exact Hpk|].
      apply (send_staged_inv _ _ _ (d_peers s) (d_itab s) (e_peer e) p _ _ _ _ _ S F); [exact Hpk|].
      intros i e' Hin. apply in_it_del_kp in Hin. destruct Hin as (Hin & N1).
      apply in_it_del_kp in Hin. destruct Hin as (Hin & N2).
      apply in_it_set in Hin. cbn [fst] in *. revert N1 N2. unfold idxs; cbn [p_prev p_cur p_next p_hs]. rewrite Hh, Hn.
      destruct Hin as [E|(Hin & N3)].
      * injection E; intros E1 E2; subst i e'. intros _ _. right. split; [exact Hpk|]. slots.
      * intros N1 N2. left. split; [exact Hin|]. cbn [fst] in N3. destruct (p_prev p), (p_cur p); slots.
    + apply invQ_put; [exact HQ|]. rewrite S2, Rn. discriminate.
  - match goal with |- context [send_staged ?u ?i ?o ?pp ?tt] => destruct (send_staged u i o pp tt) as [[p2 t2] o2] eqn:S end.
    cbn [fst with_peers_tab d_peers d_itab].
    pose proof (send_staged_spec _ _ _ _ _ _ _ _ S) as (S1 & S2 & _). cbn [p_pk p_run] in S1, S2.
    split.
    + eapply invI_put; [exact HI|exact F|rewrite S1; exact Hpk|].
      apply (send_staged_inv _ _ _ (d_peers s) (d_itab s) (e_peer e) p _ _ _ _ _ S F); [exact Hpk|].
      intros i e' Hin. apply in_it_del_kp in Hin. destruct Hin as (Hin & N1).
      apply in_it_set in Hin. cbn [fst] in *. revert N1. unfold idxs; cbn [p_prev p_cur p_next p_hs]. rewrite Hh, Hn.
      destruct Hin as [E|(Hin & N3)].
      * injection E; intros E1 E2; subst i e'. intros _. right. split; [exact Hpk|]. destruct (p_cur p); slots.
      * intros N1. left. split; [exact Hin|]. cbn [fst] in N3. destruct (p_prev p), (p_cur p); slots.
    + apply invQ_put; [exact HQ|]. rewrite S2, Rn. discriminate.
Qed.

Lemma invIQ_initiation s from ident oidx ridx : invIQ s -> invIQ (fst (step s (EInitiation from ident oidx ridx))).
Proof.
  intros (HI & HQ). cbn [step].
  destruct (negb (d_up s)); [split; assumption|].
  destruct (negb (ident =? d_ident s)); [split; assumption|].
  destruct (find_peer from (d_peers s)) as [p|] eqn:F; [|split; assumption].
  pose proof (find_peer_pk _ _ _ F) as Hpk.
  destruct (p_run p) eqn:R; cbn [negb]; [|split; assumption].
  destruct (p_flood p); [split; assumption|].
  cbn [fst with_peers_tab d_peers d_itab]. split.
  - eapply invI_put; [exact HI|exact F|exact Hpk|].
    intros i e' Hin. apply in_it_del_kp in Hin. destruct Hin as (Hin & N1).
    apply in_it_del_kp in Hin. destruct Hin as (Hin & N2).
    apply in_it_set in Hin. cbn [fst] in *. revert N1 N2. unfold idxs; cbn [p_prev p_cur p_next p_hs].
    destruct Hin as [E|(Hin & N3)].
    + injection E; intros E1 E2; subst i e'. intros _ _. right. split; [exact Hpk|]. destruct (p_cur p); slots.
    + apply in_it_del_hs in Hin. destruct Hin as (Hin & N4). cbn [fst] in *. intros N1 N2. left. split; [exact Hin|].
      revert N4. destruct (p_prev p), (p_cur p), (p_next p), (p_hs p); slots.
  - apply invQ_put; [exact HQ|]. cbn [p_run]. discriminate.
Qed.

Lemma invI_map (f : peer -> peer) ps t :
  (forall p, p_pk (f p) = p_pk p) -> (forall p i, In i (idxs p) -> In i (idxs (f p))) ->
  invI ps t -> invI (map f ps) t.
Proof.
  intros Hk Hi HI i e Hin. destruct (HI i e Hin) as (p & F & I0).
  exists (f p). rewrite find_map_same by exact Hk. rewrite F. split; [reflexivity|auto].
Qed.

Lemma invQ_map (f : peer -> peer) ps :
  (forall p, p_run (f p) = false -> p_run p = false /\ idxs (f p) = idxs p) -> invQ ps -> invQ (map f ps).
Proof.
  intros Hf HQ x Hx R. apply in_map_iff in Hx. destruct Hx as (p & <- & Hp).
  destruct (Hf p R) as (Rp & E). rewrite E. apply HQ; assumption.
Qed.

Lemma invI_sub ps t t' : (forall x, In x t' -> In x t) -> invI ps t -> invI ps t'.
Proof. intros Hs HI i e Hin. apply HI. apply Hs. exact Hin. Qed.

Lemma start_idxs p : idxs (start p) = idxs p.
Proof. unfold start. destruct (p_run p); reflexivity. Qed.

Lemma invIQ_up s : invIQ s -> invIQ (fst (step s EUp)).
Proof.
  intros (HI & HQ). cbn [step]. destruct (d_up s); [split; assumption|]. cbn [fst d_peers d_itab]. split.
  - apply invI_map; [apply start_pk| |exact HI]. intros p i. rewrite start_idxs. auto.
  - apply invQ_map; [|exact HQ]. intros p R. unfold start in *. destruct (p_run p) eqn:E; [congruence|]. cbn [p_run] in R. discriminate.
Qed.

Lemma invIQ_age s pk : invIQ s -> invIQ (fst (step s (EAge pk))).
Proof.
  intros (HI & HQ). cbn [step fst with_peers_tab d_peers d_itab]. split.
  - apply invI_map; [| |exact HI]; intros p; destruct (p_pk p =? pk); auto.
  - apply invQ_map; [|exact HQ]. intros p R. destruct (p_pk p =? pk); cbn [p_run] in R; auto.
Qed.

(* Stop *)
Lemma in_zero_tab p t x : In x (zero_tab p t) <-> In x t /\ ~ In (fst x) (idxs p).
Proof.
  unfold zero_tab, idxs. rewrite in_it_del_hs, !in_it_del_kp, !in_app_iff. tauto.
Qed.

Lemma stop_tab_sub p t x : In x (snd (stop p t)) -> In x t /\ (p_run p = true -> ~ In (fst x) (idxs p)).
Proof.
  unfold stop. destruct (p_run p); cbn [snd].
  - rewrite in_zero_tab. tauto.
  - intros H. split; [exact H|discriminate].
Qed.

Lemma remove_peer_invIQ pk s : invIQ s -> invIQ (remove_peer pk s).
Proof.
  intros (HI & HQ). unfold remove_peer. destruct (find_peer pk (d_peers s)) as [p|] eqn:F; [|split; assumption].
  unfold invIQ; cbn [d_peers d_itab]. split.
  - intros i e Hin. apply stop_tab_sub in Hin. destruct Hin as (Hin & Hz). cbn [fst] in Hz.
    destruct (HI i e Hin) as (p0 & F0 & I0).
    assert (Hne : e_peer e <> pk).
    { intros E. rewrite E, F in F0. injection F0; intros <-.
      destruct (p_run p) eqn:R; [apply Hz; auto|]. rewrite (HQ p (find_peer_In _ _ _ F) R) in I0. destruct I0. }
    exists p0. rewrite find_del_peer by exact Hne. auto.
  - intros x Hx. apply HQ. unfold del_peer in Hx. apply filter_In in Hx. apply Hx.
Qed.

Lemma remove_all_invIQ pks : forall s, invIQ s -> invIQ (remove_all pks s).
Proof. induction pks as [|pk r IH]; intros s H; cbn [remove_all]; [exact H|]. apply IH. apply remove_peer_invIQ. exact H. Qed.

Lemma in_expire_tab ps : forall t x, In x (expire_tab ps t) -> In x t /\ (forall p, In p ps -> ~ In (fst x) (hsi (p_hs p))).
Proof.
  unfold expire_tab. induction ps as [|q r IH]; intros t x; cbn [fold_left].
  - intros H. split; [exact H|intros p []].
  - intros H. apply IH in H. destruct H as (H & Hr). apply in_it_del_hs in H. destruct H as (H & Hq).
    split; [exact H|]. intros p [<-|Hp]; auto.
Qed.

Lemma invIQ_setkey s k : invIQ s -> invIQ (fst (step s (ESetKey k))).
Proof.
  intros H. cbn [step]. destruct (k =? d_ident s); [exact H|]. cbn [fst].
  destruct (remove_peer_invIQ k s H) as (HI & HQ). unfold invIQ; cbn [d_peers d_itab]. split.
  - intros i e Hin. apply in_expire_tab in Hin. destruct Hin as (Hin & Hh). cbn [fst] in Hh.
    destruct (HI i e Hin) as (p & F & I0). exists (expire_peer p).
    rewrite find_map_same by reflexivity. rewrite F. split; [reflexivity|].
    specialize (Hh p (find_peer_In _ _ _ F)). revert I0 Hh. unfold idxs; cbn [expire_peer p_prev p_cur p_next p_hs].
    destruct (p_prev p), (p_cur p), (p_next p), (p_hs p); cbn [kill]; slots.
  - intros x Hx R. apply in_map_iff in Hx. destruct Hx as (p & <- & Hp). cbn [expire_peer p_run] in R.
    pose proof (HQ p Hp R) as E. revert E. unfold idxs; cbn [expire_peer p_prev p_cur p_next p_hs].
    destruct (p_prev p), (p_cur p), (p_next p), (p_hs p); cbn [kill kpi hsi app]; try discriminate. reflexivity.
Qed.

Lemma in_stop_fold ps : forall t x,
  In x (fold_left (fun t p => snd (stop p t)) ps t) -> In x t /\ (forall p, In p ps -> p_run p = true -> ~ In (fst x) (idxs p)).
Proof.
  induction ps as [|q r IH]; intros t x; cbn [fold_left].
  - intros H. split; [exact H|intros p []].
  - intros H. apply IH in H. destruct H as (H & Hr). apply stop_tab_sub in H. destruct H as (H & Hq).
    split; [exact H|]. intros p [<-|Hp]; auto.
Qed.

Lemma invIQ_down s : invIQ s -> invIQ (fst (step s EDown)).
Proof.
  intros (HI & HQ). cbn [step]. destruct (negb (d_up s)); [split; assumption|]. cbn [fst d_peers d_itab]. split.
  - intros i e Hin. exfalso. apply in_stop_fold in Hin. destruct Hin as (Hin & Hz). cbn [fst] in Hz.
    destruct (HI i e Hin) as (p & F & I0). pose proof (find_peer_In _ _ _ F) as Hp.
    destruct (p_run p) eqn:R; [exact (Hz p Hp R I0)|]. rewrite (HQ p Hp R) in I0. destruct I0.
  - intros x Hx R. apply in_map_iff in Hx. destruct Hx as (p & <- & Hp).
    unfold stop in *. destruct (p_run p) eqn:E; cbn [fst] in *; [reflexivity|]. apply HQ; assumption.
Qed.

Lemma start_run p : p_run (start p) = true.
Proof. unfold start. destruct (p_run p) eqn:E; [exact E|reflexivity]. Qed.

Lemma find_app_l x l q p : find_peer x l = Some p -> find_peer x (l ++ [q]) = Some p.
Proof.
  induction l as [|a l IH]; cbn [find_peer app]; [discriminate|]. destruct (p_pk a =? x); auto.
Qed.

Lemma invIQ_add s pk ep pfx oidx : invIQ s -> invIQ (fst (step s (EAddPeer pk ep pfx oidx))).
Proof.
  intros (HI & HQ). cbn [step]. destruct (pk =? d_ident s); [split; assumption|].
  match goal with |- context [if has_peer pk ?l then ?a else ?b] => set (ps := if has_peer pk l then a else b) end.
  assert (Hps : invI ps (d_itab s) /\ invQ ps).
  { unfold ps. destruct (has_peer pk (d_peers s)).
    - destruct ep; [|split; assumption]. split.
      + apply invI_map; [| |exact HI]; intros p; destruct (p_pk p =? pk); auto.
      + apply invQ_map; [|exact HQ]. intros p R. destruct (p_pk p =? pk); cbn [p_run] in R; auto.
    - split.
      + intros i e Hin. destruct (HI i e Hin) as (p & F & I0). exists p. split; [apply find_app_l; exact F|exact I0].
      + intros x Hx R. apply in_app_or in Hx. destruct Hx as [Hx|[<-|[]]]; [apply HQ; assumption|reflexivity]. }
  destruct Hps as (HI1 & HQ1).
  destruct (negb (d_up s)); [cbn [fst]; split; assumption|].
  match goal with |- context [find_peer pk ?l] => set (ps1 := l) end.
  assert (HI2 : invI ps1 (d_itab s)).
  { unfold ps1. apply invI_map; [| |exact HI1]; intros p; destruct (p_pk p =? pk); auto; [apply start_pk|]. intros i. rewrite start_idxs. auto. }
  assert (HQ2 : invQ ps1).
  { unfold ps1. apply invQ_map; [|exact HQ1]. intros p R. destruct (p_pk p =? pk); auto. rewrite start_run in R. discriminate. }
  destruct (find_peer pk ps1) as [p|] eqn:F; [|cbn [fst]; split; assumption].
  assert (Rp : p_run p = true).
  { unfold ps1 in F. rewrite find_map_same in F by (intros q; destruct (p_pk q =? pk); [apply start_pk|reflexivity]).
    destruct (find_peer pk ps) as [p'|] eqn:F'; [|discriminate]. cbn [option_map] in F. injection F; intros <-.
    rewrite (find_peer_pk _ _ _ F'), N.eqb_refl. apply start_run. }
  destruct (send_staged (d_up s) (d_ident s) oidx p (d_itab s)) as [[p1 t1] o] eqn:S. cbn [fst d_peers d_itab].
  pose proof (send_staged_spec _ _ _ _ _ _ _ _ S) as (S1 & S2 & _).
  pose proof (find_peer_pk _ _ _ F) as Hpk.
  split.
  - eapply invI_put; [exact HI2|exact F|rewrite S1; exact Hpk|].
    apply (send_staged_inv _ _ _ ps1 (d_itab s) pk p _ _ _ _ _ S F); [exact Hpk|].
    intros i e Hin. left. auto.
  - apply invQ_put; [exact HQ2|]. rewrite S2, Rp. discriminate.
Qed.

Lemma invIQ_step s e : invIQ s -> invIQ (fst (step s e)).
Proof.
  intros H. destruct e.
  - apply invIQ_add; exact H.
  - cbn [step fst]. apply remove_peer_invIQ; exact H.
  - cbn [step fst]. apply remove_all_invIQ; exact H.
  - apply invIQ_setkey; exact H.
  - apply invIQ_up; exact H.
  - apply invIQ_down; exact H.
  - apply invIQ_age; exact H.
  - apply invIQ_tun; exact H.
  - apply invIQ_transport; exact H.
  - apply invIQ_response; exact H.
  - apply invIQ_initiation; exact H.
Qed.

Lemma invIQ_reached id evs : invIQ (reached id evs).
Proof.
  unfold reached. apply (final_inv step invIQ); [intros; apply invIQ_step; assumption|].
  unfold invIQ, init; cbn [d_peers d_itab]. split; [intros i e []|intros p []].
Qed.

Theorem removed_peer_indices_refused : removed_peer_indices_refused_statement.
Proof.
  unfold removed_peer_indices_refused_statement. intros id evs i e Hin.
  destruct (invIQ_reached id evs) as (HI & _). destruct (HI i e Hin) as (p & F & _). eapply find_has. exact F.
Qed.

Theorem removed_peer_sessions_gone : removed_peer_sessions_gone_statement.
Proof.
  unfold removed_peer_sessions_gone_statement. intros id evs pk i e Hin E.
  pose proof (removed_peer_indices_refused id (evs ++ [ERemove pk]) i e Hin) as Hp. rewrite E in Hp.
  unfold reached in Hp. rewrite final_app in Hp. unfold final at 1 in Hp. cbn [run step fst] in Hp.
  destruct (remove_peer_invA pk (final step (init id) evs) (invA_reached id evs)) as (_ & N & _).
  apply N. apply has_peer_in. exact Hp.
Qed.

Theorem replace_peers_empties_index_table : replace_peers_empties_index_table_statement.
Proof.
  unfold replace_peers_empties_index_table_statement. intros id evs.
  assert (Hp : d_peers (reached id (evs ++ [EReplacePeers])) = []).
  { unfold reached. rewrite final_app. unfold final at 1. cbn [run step fst].
    set (s := final step (init id) evs).
    destruct (remove_all_invA (map p_pk (d_peers s)) s (invA_reached id evs)) as (_ & N & Sub).
    destruct (d_peers (remove_all (map p_pk (d_peers s)) s)) as [|p l] eqn:E; [reflexivity|exfalso].
    assert (Hin : In (p_pk p) (keys (remove_all (map p_pk (d_peers s)) s))) by (unfold keys; rewrite E; left; reflexivity).
    apply (N (p_pk p)); [apply Sub; exact Hin|exact Hin]. }
  split; [|exact Hp].
  destruct (invIQ_reached id (evs ++ [EReplacePeers])) as (HI & _). rewrite Hp in HI.
  destruct (d_itab (reached id (evs ++ [EReplacePeers]))) as [|[i e] t]; [reflexivity|exfalso].
  destruct (HI i e (or_introl eq_refl)) as (p & F & _). discriminate.
Qed.

(* ------------------------------------------------------------ outputs only toward peers in the peer map *)

Lemma send_staged_out_peer up id oidx p t p' t' o x :
  send_staged up id oidx p t = (p', t', o) -> In x o -> out_peer x = p_pk p.
Proof.
  intros H Hx. destruct (send_staged_spec _ _ _ _ _ _ _ _ H) as (_ & _ & _ & _ & _ & Ho).
  destruct (Ho x Hx) as [->|(k & _ & _ & ->)]; reflexivity.
Qed.

Lemma send_staged_nothing up id oidx p t : p_staged p = 0 -> snd (send_staged up id oidx p t) = [].
Proof. intros H. unfold send_staged. rewrite H. reflexivity. Qed.

Lemma find_app_r x l q : has_peer x l = false -> p_pk q = x -> find_peer x (l ++ [q]) = Some q.
Proof.
  unfold has_peer. intros H Hq. induction l as [|a l IH]; cbn [find_peer app] in *.
  - rewrite Hq, N.eqb_refl. reflexivity.
  - destruct (p_pk a =? x); [discriminate|auto].
Qed.

Lemma step_out_present s e o : In o (snd (step s e)) ->
  has_peer (out_peer o) (d_peers s) = true /\ has_peer (out_peer o) (d_peers (fst (step s e))) = true.
Proof.
  destruct e; cbn [step].
  - (* EAddPeer *)
    destruct (pk =? d_ident s); [intros []|].
    match goal with |- context [if has_peer pk ?l then ?a else ?b] => set (ps := if has_peer pk l then a else b) end.
    destruct (negb (d_up s)); [intros []|].
    match goal with |- context [find_peer pk ?l] => set (ps1 := l) end.
    destruct (find_peer pk ps1) as [p|] eqn:F; [|intros []].
    destruct (send_staged (d_up s) (d_ident s) oidx p (d_itab s)) as [[p1 t1] o1] eqn:S. cbn [fst snd d_peers].
    intros Hin. rewrite (send_staged_out_peer _ _ _ _ _ _ _ _ _ S Hin), (find_peer_pk _ _ _ F).
    split; [|rewrite has_put_peer; eapply find_has; exact F].
    destruct (has_peer pk (d_peers s)) eqn:Hp; [reflexivity|exfalso].
    assert (Hz : p_staged p = 0).
    { unfold ps1, ps in F. rewrite find_map_same in F by (intros q; destruct (p_pk q =? pk); [apply start_pk|reflexivity]).
      rewrite (find_app_r pk (d_peers s) (new_peer pk ep) Hp eq_refl) in F. cbn [option_map new_peer p_pk] in F.
      rewrite N.eqb_refl in F. injection F; intros <-. reflexivity. }
    pose proof (send_staged_nothing (d_up s) (d_ident s) oidx p (d_itab s) Hz) as E. rewrite S in E. cbn [snd] in E.
    rewrite E in Hin. destruct Hin.
  - intros [].
  - intros [].
  - destruct (k =? d_ident s); intros [].
  - destruct (d_up s); intros [].
  - destruct (negb (d_up s)); intros [].
  - intros [].
  - (* ETun *)
    destruct (route pfx (d_routes s)) as [pk|]; [|intros []].
    destruct (find_peer pk (d_peers s)) as [p|] eqn:F; [|intros []].
    destruct (negb (p_run p)); [intros []|].
    destruct (send_staged (d_up s) (d_ident s) oidx (stage1 p) (d_itab s)) as [[p1 t1] o1] eqn:S.
    cbn [fst snd with_peers_tab d_peers]. intros Hin.
    rewrite (send_staged_out_peer _ _ _ _ _ _ _ _ _ S Hin). cbn [stage1 set_staged p_pk].
    rewrite (find_peer_pk _ _ _ F), has_put_peer, (find_has _ _ _ F). auto.
  - (* ETransport *)
    destruct (negb (d_up s)); [intros []|].
    destruct (it_get idx (d_itab s)) as [e|]; [|intros []].
    destruct (e_hs e); [intros []|].
    destruct (find_peer (e_peer e) (d_peers s)) as [p|] eqn:F; [|intros []].
    destruct (negb (p_run p)); [intros []|].
    pose proof (find_peer_pk _ _ _ F) as Hpk.
    assert (Hw : forall x, In x (if keepalive then [] else
                  match route src (d_routes s) with
                  | Some owner => if owner =? p_pk p then [OTunWrite (p_pk p)] else []
                  | None => [] end) -> out_peer x = p_pk p).
    { intros x. destruct keepalive; [intros []|]. destruct (route src (d_routes s)); [|intros []].
      destruct (k =? p_pk p); [intros [<-|[]]; reflexivity|intros []]. }
    destruct (same_idx (p_next p) idx).
    + match goal with |- context [send_staged ?u ?i ?oo ?pp ?tt] => destruct (send_staged u i oo pp tt) as [[p2 t2] o2] eqn:S end.
      cbn [fst snd with_peers_tab d_peers]. intros Hin. apply in_app_or in Hin.
      assert (E : out_peer o = p_pk p).
      { destruct Hin as [Hin|Hin]; [rewrite (send_staged_out_peer _ _ _ _ _ _ _ _ _ S Hin); reflexivity|apply Hw; exact Hin]. }
      rewrite E, Hpk, has_put_peer, (find_has _ _ _ F). auto.
    + cbn [fst snd with_peers_tab d_peers app]. intros Hin. rewrite (Hw _ Hin), Hpk, has_put_peer, (find_has _ _ _ F). auto.
  - (* EResponse *)
    destruct (negb (d_up s)); [intros []|].
    destruct (negb (ident =? d_ident s)); [intros []|].
    destruct (it_get idx (d_itab s)) as [e|]; [|intros []].
    destruct (negb (e_hs e)); [intros []|].
    destruct (negb (e_peer e =? from)); [intros []|].
    destruct (find_peer (e_peer e) (d_peers s)) as [p|] eqn:F; [|intros []].
    pose proof (find_peer_pk _ _ _ F) as Hpk.
    destruct (p_hs p) as [h|]; [|intros []].
    destruct (negb (h =? idx)); [intros []|].
    destruct (p_next p);
      match goal with |- context [send_staged ?u ?i ?oo ?pp ?tt] => destruct (send_staged u i oo pp tt) as [[p2 t2] o2] eqn:S end;
      cbn [fst snd with_peers_tab d_peers]; intros Hin;
      rewrite (send_staged_out_peer _ _ _ _ _ _ _ _ _ S Hin); cbn [p_pk];
      rewrite Hpk, has_put_peer, (find_has _ _ _ F); auto.
  - (* EInitiation *)
    destruct (negb (d_up s)); [intros []|].
    destruct (negb (ident =? d_ident s)); [intros []|].
    destruct (find_peer from (d_peers s)) as [p|] eqn:F; [|intros []].
    destruct (negb (p_run p)); [intros []|]. destruct (p_flood p); [intros []|].
    cbn [fst snd with_peers_tab d_peers]. intros [<-|[]]. cbn [out_peer].
    rewrite (find_peer_pk _ _ _ F), has_put_peer, (find_has _ _ _ F). auto.
Qed.

Theorem removed_peer_no_output : removed_peer_no_output_statement.
Proof. unfold removed_peer_no_output_statement. intros id evs e o H. apply step_out_present. exact H. Qed.

Theorem identity_change_kills_keypairs : identity_change_kills_keypairs_statement.
Proof.
  unfold identity_change_kills_keypairs_statement. intros id evs k p Hk Hp.
  unfold reached in Hp. rewrite final_app in Hp. unfold final at 1 in Hp. cbn [run step] in Hp.
  fold (reached id evs) in Hp. apply N.eqb_neq in Hk. rewrite Hk in Hp. cbn [fst d_peers] in Hp.
  apply in_map_iff in Hp. destruct Hp as (q & <- & _). cbn [expire_peer p_cur p_next p_hs].
  destruct (p_cur q), (p_next q); cbn [kill usable k_dead negb]; auto.
Qed.

(* ------------------------------------------------------------ keypairs usable for sending have the current epoch *)

Definition okk (ep : N) (k : option kp) : Prop := forall x, k = Some x -> k_dead x = false -> k_epoch x = ep.
Definition okp (ep : N) (p : peer) : Prop := okk ep (p_cur p) /\ okk ep (p_next p).
Definition allp (ep : N) (ps : list peer) : Prop := forall p, In p ps -> okp ep p.
Definition invE (s : state) : Prop := allp (d_epoch s) (d_peers s).

Lemma okk_none ep : okk ep None.
Proof. intros x H. discriminate. Qed.

Lemma allp_put ep q ps : allp ep ps -> okp ep q -> allp ep (put_peer q ps).
Proof. intros H Hq x Hx. destruct (in_put_peer _ _ _ Hx) as [->|Hi]; auto. Qed.

Lemma allp_map ep (f : peer -> peer) ps : (forall p, okp ep p -> okp ep (f p)) -> allp ep ps -> allp ep (map f ps).
Proof. intros Hf H x Hx. apply in_map_iff in Hx. destruct Hx as (p & <- & Hp). auto. Qed.

Lemma okp_same ep p q : p_cur q = p_cur p -> p_next q = p_next p -> okp ep p -> okp ep q.
Proof. unfold okp. intros -> ->. auto. Qed.

Lemma start_okp ep p : okp ep p -> okp ep (start p).
Proof. unfold start. destruct (p_run p); auto. Qed.

Lemma send_transport_epoch up id oidx p t p' t' o ep to r e :
  send_staged up id oidx p t = (p', t', o) -> okk ep (p_cur p) -> In (OTransport to r e) o -> e = ep.
Proof.
  intros H Hk Hin. destruct (send_staged_spec _ _ _ _ _ _ _ _ H) as (_ & _ & _ & _ & _ & Ho).
  destruct (Ho _ Hin) as [E|(k & C & D & E)]; [discriminate|]. injection E; intros; subst. apply Hk; assumption.
Qed.

Lemma remove_peer_sub pk s p : In p (d_peers (remove_peer pk s)) -> In p (d_peers s).
Proof.
  unfold remove_peer. destruct (find_peer pk (d_peers s)); [|auto]. cbn [d_peers]. unfold del_peer. intros H. apply filter_In in H. apply H.
Qed.
Lemma remove_peer_epoch pk s : d_epoch (remove_peer pk s) = d_epoch s.
Proof. unfold remove_peer. destruct (find_peer pk (d_peers s)); reflexivity. Qed.
Lemma remove_all_sub pks : forall s p, In p (d_peers (remove_all pks s)) -> In p (d_peers s).
Proof. induction pks as [|pk r IH]; intros s p; cbn [remove_all]; [auto|]. intros H. apply IH in H. eapply remove_peer_sub; exact H. Qed.
Lemma remove_all_epoch pks : forall s, d_epoch (remove_all pks s) = d_epoch s.
Proof. induction pks as [|pk r IH]; intros s; cbn [remove_all]; [reflexivity|]. rewrite IH. apply remove_peer_epoch. Qed.

Lemma invE_step_out s e : invE s ->
  invE (fst (step s e)) /\ (forall to r ep, In (OTransport to r ep) (snd (step s e)) -> ep = d_epoch s).
Proof.
  intros H. unfold invE in *. destruct e; cbn [step].
  - (* EAddPeer *)
    destruct (pk =? d_ident s); [split; [exact H|intros ? ? ? []]|].
    match goal with |- context [if has_peer pk ?l then ?a else ?b] => set (ps := if has_peer pk l then a else b) end.
    assert (Hps : allp (d_epoch s) ps).
    { unfold ps. destruct (has_peer pk (d_peers s)).
      - destruct ep; [|exact H]. apply allp_map; [|exact H]. intros p Hp. destruct (p_pk p =? pk); [|exact Hp]. exact Hp.
      - intros x Hx. apply in_app_or in Hx. destruct Hx as [Hx|[<-|[]]]; [auto|]. split; apply okk_none. }
    destruct (negb (d_up s)); [cbn [fst snd d_epoch d_peers]; split; [exact Hps|intros ? ? ? []]|].
    match goal with |- context [find_peer pk ?l] => set (ps1 := l) end.
    assert (Hps1 : allp (d_epoch s) ps1).
    { unfold ps1. apply allp_map; [|exact Hps]. intros p Hp. destruct (p_pk p =? pk); [apply start_okp|]; exact Hp. }
    destruct (find_peer pk ps1) as [p|] eqn:F; [|cbn [fst snd d_epoch d_peers]; split; [exact Hps1|intros ? ? ? []]].
    destruct (send_staged (d_up s) (d_ident s) oidx p (d_itab s)) as [[p1 t1] o] eqn:S. cbn [fst snd d_epoch d_peers].
    pose proof (Hps1 p (find_peer_In _ _ _ F)) as Hp.
    destruct (send_staged_spec _ _ _ _ _ _ _ _ S) as (_ & _ & _ & S4 & S5 & _).
    split; [apply allp_put; [exact Hps1|eapply okp_same; eassumption]|].
    intros to r e Hin. eapply send_transport_epoch; [exact S|apply Hp|exact Hin].
  - (* ERemove *) cbn [fst snd]. split; [|intros ? ? ? []]. rewrite remove_peer_epoch. intros p Hp. apply H. eapply remove_peer_sub; exact Hp.
  - (* EReplacePeers *) cbn [fst snd]. split; [|intros ? ? ? []]. rewrite remove_all_epoch. intros p Hp. apply H. eapply remove_all_sub; exact Hp.
  - (* ESetKey *)
    destruct (k =? d_ident s); [split; [exact H|intros ? ? ? []]|]. cbn [fst snd d_epoch d_peers]. split; [|intros ? ? ? []].
    intros x Hx. apply in_map_iff in Hx. destruct Hx as (p & <- & _). unfold okp, expire_peer; cbn [p_cur p_next].
    split; destruct (p_cur p), (p_next p); cbn [kill]; intros y Hy Hd; try discriminate; injection Hy; intros <-; cbn [k_dead] in Hd; discriminate.
  - (* EUp *) destruct (d_up s); [split; [exact H|intros ? ? ? []]|]. cbn [fst snd d_epoch d_peers]. split; [|intros ? ? ? []].
    apply allp_map; [|exact H]. intros p. apply start_okp.
  - (* EDown *) destruct (negb (d_up s)); [split; [exact H|intros ? ? ? []]|]. cbn [fst snd d_epoch d_peers]. split; [|intros ? ? ? []].
    apply allp_map; [|exact H]. intros p Hp. unfold stop. destruct (p_run p); cbn [fst]; [split; apply okk_none|exact Hp].
  - (* EAge *) cbn [fst snd with_peers_tab d_epoch d_peers]. split; [|intros ? ? ? []].
    apply allp_map; [|exact H]. intros p Hp. destruct (p_pk p =? pk); exact Hp.
  - (* ETun *)
    destruct (route pfx (d_routes s)) as [pk|]; [|split; [exact H|intros ? ? ? []]].
    destruct (find_peer pk (d_peers s)) as [p|] eqn:F; [|split; [exact H|intros ? ? ? []]].
    destruct (negb (p_run p)); [split; [exact H|intros ? ? ? []]|].
    destruct (send_staged (d_up s) (d_ident s) oidx (stage1 p) (d_itab s)) as [[p1 t1] o] eqn:S.
    cbn [fst snd with_peers_tab d_epoch d_peers].
    pose proof (H p (find_peer_In _ _ _ F)) as Hp.
    destruct (send_staged_spec _ _ _ _ _ _ _ _ S) as (_ & _ & _ & S4 & S5 & _).
    split; [apply allp_put; [exact H|eapply (okp_same _ p); [rewrite S4|rewrite S5|]; auto]|].
    intros to r e Hin. eapply send_transport_epoch; [exact S|apply Hp|exact Hin].
  - (* ETransport *)
    destruct (negb (d_up s)); [split; [exact H|intros ? ? ? []]|].
    destruct (it_get idx (d_itab s)) as [e|]; [|split; [exact H|intros ? ? ? []]].
    destruct (e_hs e); [split; [exact H|intros ? ? ? []]|].
    destruct (find_peer (e_peer e) (d_peers s)) as [p|] eqn:F; [|split; [exact H|intros ? ? ? []]].
    destruct (negb (p_run p)); [split; [exact H|intros ? ? ? []]|].
    pose proof (H p (find_peer_In _ _ _ F)) as (Hc & Hn).
    assert (Hw : forall to r ep (x : Prop), In (OTransport to r ep) (if keepalive then [] else
                  match route src (d_routes s) with
                  | Some owner => if owner =? p_pk p then [OTunWrite (p_pk p)] else []
                  | None => [] end) -> x).
    { intros to r ep x. destruct keepalive; [intros []|]. destruct (route src (d_routes s)); [|intros []].
      destruct (k =? p_pk p); [intros [E|[]]; discriminate|intros []]. }
    destruct (same_idx (p_next p) idx).
    + match goal with |- context [send_staged ?u ?i ?oo ?pp ?tt] => destruct (send_staged u i oo pp tt) as [[p2 t2] o2] eqn:S end.
      cbn [fst snd with_peers_tab d_epoch d_peers].
      destruct (send_staged_spec _ _ _ _ _ _ _ _ S) as (_ & _ & _ & S4 & S5 & _). cbn [p_cur p_next] in S4, S5.
      split.
      * apply allp_put; [exact H|]. split; [rewrite S4; exact Hn|rewrite S5; apply okk_none].
      * intros to r ep Hin. apply in_app_or in Hin. destruct Hin as [Hin|Hin]; [|eapply Hw; exact Hin].
        eapply send_transport_epoch; [exact S|cbn [p_cur]; exact Hn|exact Hin].
    + cbn [fst snd with_peers_tab d_epoch d_peers app]. split.
      * apply allp_put; [exact H|]. split; assumption.
      * intros to r ep Hin. eapply Hw; exact Hin.
  - (* EResponse *)
    destruct (negb (d_up s)); [split; [exact H|intros ? ? ? []]|].
    destruct (negb (ident =? d_ident s)); [split; [exact H|intros ? ? ? []]|].
    destruct (it_get idx (d_itab s)) as [e|]; [|split; [exact H|intros ? ? ? []]].
    destruct (negb (e_hs e)); [split; [exact H|intros ? ? ? []]|].
    destruct (negb (e_peer e =? from)); [split; [exact H|intros ? ? ? []]|].
    destruct (find_peer (e_peer e) (d_peers s)) as [p|] eqn:F; [|split; [exact H|intros ? ? ? []]].
    destruct (p_hs p) as [h|]; [|split; [exact H|intros ? ? ? []]].
    destruct (negb (h =? idx)); [split; [exact H|intros ? ? ? []]|].
    assert (Hk : okk (d_epoch s) (Some {| k_idx := idx; k_ridx := ridx; k_epoch := d_epoch s; k_dead := false |})).
    { intros x Hx _. injection Hx; intros <-. reflexivity. }
    destruct (p_next p);
      match goal with |- context [send_staged ?u ?i ?oo ?pp ?tt] => destruct (send_staged u i oo pp tt) as [[p2 t2] o2] eqn:S end;
      cbn [fst snd with_peers_tab d_epoch d_peers];
      destruct (send_staged_spec _ _ _ _ _ _ _ _ S) as (_ & _ & _ & S4 & S5 & _); cbn [p_cur p_next] in S4, S5;
      (split; [apply allp_put; [exact H|]; split; [rewrite S4; exact Hk|rewrite S5; apply okk_none]|
               intros to r ep Hin; eapply send_transport_epoch; [exact S|cbn [p_cur]; exact Hk|exact Hin]]).
  - (* EInitiation *)
    destruct (negb (d_up s)); [split; [exact H|intros ? ? ? []]|].
    destruct (negb (ident =? d_ident s)); [split; [exact H|intros ? ? ? []]|].
    destruct (find_peer from (d_peers s)) as [p|] eqn:F; [|split; [exact H|intros ? ? ? []]].
    destruct (negb (p_run p)); [split; [exact H|intros ? ? ? []]|]. destruct (p_flood p); [split; [exact H|intros ? ? ? []]|].
    cbn [fst snd with_peers_tab d_epoch d_peers]. pose proof (H p (find_peer_In _ _ _ F)) as (Hc & Hn). split.
    + apply allp_put; [exact H|]. split; cbn [p_cur p_next]; [exact Hc|]. intros x Hx _. injection Hx; intros <-. reflexivity.
    + intros to r ep [E|[]]. discriminate.
Qed.

Lemma invE_reached id evs : invE (reached id evs).
Proof.
  unfold reached. apply (final_inv step invE); [intros s o Hs; apply invE_step_out; exact Hs|].
  intros p [].
Qed.

Theorem identity_change_stops_old_sessions : identity_change_stops_old_sessions_statement.
Proof.
  unfold identity_change_stops_old_sessions_statement. intros id evs e to ridx ep Hin.
  eapply (proj2 (invE_step_out _ e (invE_reached id evs))). exact Hin.
Qed.

(* behavioural form of "pending handshakes are dropped by an identity change": whatever initiation the device had sent
   before, a response arriving after the change has no effect at all *)
Theorem identity_change_refuses_pending_responses : forall id evs k idx from d ridx,
  k <> d_ident (reached id evs) ->
  let s := reached id (evs ++ [ESetKey k]) in
  step s (EResponse idx from d ridx) = (s, []).
Proof.
  intros id evs k idx from d ridx Hk s. cbn [step].
  destruct (negb (d_up s)); [reflexivity|].
  destruct (negb (d =? d_ident s)); [reflexivity|].
  destruct (it_get idx (d_itab s)) as [e|]; [|reflexivity].
  destruct (negb (e_hs e)); [reflexivity|].
  destruct (negb (e_peer e =? from)); [reflexivity|].
  destruct (find_peer (e_peer e) (d_peers s)) as [p|] eqn:F; [|reflexivity].
  destruct (identity_change_kills_keypairs id evs k p Hk (find_peer_In _ _ _ F)) as (_ & _ & Hh).
  rewrite Hh. reflexivity.
Qed.
