(* C15 — work that is in flight inside the device's own goroutines at the moment of a revocation.

   The events of Revoke.Model are atomic: a response is consumed and the session derived in one step, and a TUN
   packet is routed, encrypted and transmitted in one step.  In the device two of these are two steps of a worker
   that holds no lock in between, and a revocation can land there:

   1. RoutineHandshake: ConsumeMessageResponse (validation, handshake.state := ResponseConsumed) ... then
      BeginSymmetricSession (derives the keys iff the state still is ResponseConsumed) and SendKeepalive.
      `consume_response` / `begin_session` split EResponse at that point.  `split_response_same`: with nothing in
      between the two halves are exactly the atomic event.  `response_worker_revoked`: with a removal of the peer,
      replace_peers or a change of identity in between, the second half does nothing at all — in ANY state.  What
      carries the proof is the test of the handshake state in the second half (p_hs = Some idx): every revocation
      clears it (Handshake.Clear) or takes the peer out of the map.

   2. RoutineSequentialSender: containers that were encrypted before the revocation wait in peer.queue.outbound;
      the sender reads the peer's running flag once per container.  `sender` is that loop over a backlog with the
      values the flag had at each read; Peer.Stop clears the flag once and nothing sets it during a removal, so the
      reads are `true` k times and `false` from then on.  `stopped_backlog_dropped`: nothing behind the k-th
      container is transmitted.

   The co-simulation scenarios inside-response:* and queued:* (harness/cmd/c15/round9.go) place the revocation at
   exactly these two points of the real device. *)
From WG Require Import Base.Prelude Gen.Constants Revoke.Model Revoke.Proofs.
Local Open Scope N_scope.

(* ------------------------------------------------------------ 1. the response worker *)

(* ConsumeMessageResponse: the peer whose pending handshake the response completes *)
Definition consume_response (s : state) (idx : N) (from ident : key) : option key :=
  if negb (d_up s) then None else
  if negb (ident =? d_ident s) then None else
  match it_get idx (d_itab s) with
  | None => None
  | Some e =>
      if negb (e_hs e) then None else
      if negb (e_peer e =? from) then None else
      match find_peer (e_peer e) (d_peers s) with
      | None => None
      | Some p =>
          match p_hs p with
          | None => None
          | Some h => if negb (h =? idx) then None else Some (p_pk p)
          end
      end
  end.

(* BeginSymmetricSession + SendKeepalive for the peer the worker holds, in the state the device is in by then.  A peer
   that is no longer in the map was stopped and zeroed (handshake.state = Zeroed), like one whose handshake was cleared. *)
Definition begin_session (s : state) (pk : key) (idx ridx : N) : state * list out :=
  match find_peer pk (d_peers s) with
  | None => (s, [])
  | Some p =>
      match p_hs p with
      | None => (s, [])                    (* "invalid state for keypair derivation" *)
      | Some h =>
          if negb (h =? idx) then (s, []) else
          let k := {| k_idx := idx; k_ridx := ridx; k_epoch := d_epoch s; k_dead := false |} in
          let t0 := it_set idx {| e_peer := p_pk p; e_hs := false |} (d_itab s) in
          let '(prev1, t1) :=
            match p_next p with
            | Some n => (Some n, it_del_kp (p_prev p) (it_del_kp (p_cur p) t0))
            | None => (p_cur p, it_del_kp (p_prev p) t0)
            end in
          let st := if (p_staged p =? 0) && p_run p then 1 else p_staged p in
          let p1 := {| p_pk := p_pk p; p_run := p_run p; p_ep := true; p_prev := prev1; p_cur := Some k;
                       p_next := None; p_hs := None; p_recent := p_recent p; p_flood := p_flood p;
                       p_staged := st |} in
          let '(p2, t2, o) := send_staged (d_up s) (d_ident s) 0 p1 t1 in
          (with_peers_tab s (put_peer p2 (d_peers s)) t2, o)
      end
  end.

Definition response_in_two (s : state) (idx : N) (from ident : key) (ridx : N) : state * list out :=
  match consume_response s idx from ident with
  | Some pk => begin_session s pk idx ridx
  | None => (s, [])
  end.

Lemma split_response_same s idx from ident ridx :
  step s (EResponse idx from ident ridx) = response_in_two s idx from ident ridx.
Proof.
  unfold response_in_two, consume_response. cbn [step].
  destruct (negb (d_up s)); [reflexivity|].
  destruct (negb (ident =? d_ident s)); [reflexivity|].
  destruct (it_get idx (d_itab s)) as [e|]; [|reflexivity].
  destruct (negb (e_hs e)); [reflexivity|].
  destruct (negb (e_peer e =? from)); [reflexivity|].
  destruct (find_peer (e_peer e) (d_peers s)) as [p|] eqn:F; [|reflexivity].
  destruct (p_hs p) as [h|] eqn:H; [|reflexivity].
  destruct (negb (h =? idx)) eqn:E; [reflexivity|].
  pose proof (find_peer_pk _ _ _ F) as Hp. rewrite <- Hp in F.
  unfold begin_session. rewrite F, H, E. reflexivity.
Qed.

(* what revokes peer pk (or every peer) in state s *)
Definition revokes (s : state) (pk : key) (r : ev) : bool :=
  match r with
  | ERemove x => x =? pk
  | EReplacePeers => true
  | ESetKey k => negb (k =? d_ident s)
  | _ => false
  end.

Lemma find_del_same pk l : find_peer pk (del_peer pk l) = None.
Proof.
  unfold del_peer. induction l as [|p l IH]; cbn [filter find_peer]; [reflexivity|].
  destruct (p_pk p =? pk) eqn:E; cbn [negb]; [exact IH|].
  cbn [find_peer]. rewrite E. exact IH.
Qed.

Lemma find_none_notin pk l : find_peer pk l = None <-> ~ In pk (map p_pk l).
Proof.
  rewrite <- has_peer_in. unfold has_peer. destruct (find_peer pk l).
  - split; [discriminate|intros H; exfalso; apply H; reflexivity].
  - split; [intros _ H; discriminate|reflexivity].
Qed.

Lemma remove_peer_keys pk s x :
  In x (map p_pk (d_peers (remove_peer pk s))) -> In x (map p_pk (d_peers s)) /\ x <> pk.
Proof.
  unfold remove_peer. destruct (find_peer pk (d_peers s)) eqn:F; cbn [d_peers].
  - apply keys_del.
  - intros H. split; [exact H|]. intros ->. apply find_none_notin in F. exact (F H).
Qed.

Lemma remove_all_keys pks : forall s x,
  In x (map p_pk (d_peers (remove_all pks s))) -> In x (map p_pk (d_peers s)) /\ ~ In x pks.
Proof.
  induction pks as [|pk r IH]; intros s x H; cbn [remove_all] in *.
  - split; [exact H|intros []].
  - apply IH in H. destruct H as [H1 H2]. apply remove_peer_keys in H1. destruct H1 as [H1 H3].
    split; [exact H1|]. intros [->|Hr]; [congruence|exact (H2 Hr)].
Qed.

Lemma begin_session_absent s pk idx ridx :
  find_peer pk (d_peers s) = None -> begin_session s pk idx ridx = (s, []).
Proof. intros F. unfold begin_session. rewrite F. reflexivity. Qed.

Lemma begin_session_cleared s pk idx ridx :
  (forall p, find_peer pk (d_peers s) = Some p -> p_hs p = None) -> begin_session s pk idx ridx = (s, []).
Proof.
  intros H. unfold begin_session. destruct (find_peer pk (d_peers s)) as [p|]; [|reflexivity].
  rewrite (H p eq_refl). reflexivity.
Qed.

Definition response_worker_revoked_statement : Prop :=
  forall s pk idx ridx r, revokes s pk r = true ->
    begin_session (fst (step s r)) pk idx ridx = (fst (step s r), []).

Theorem response_worker_revoked : response_worker_revoked_statement.
Proof.
  intros s pk idx ridx r Hr. destruct r; cbn [revokes] in Hr; try discriminate.
  - (* ERemove *)
    apply N.eqb_eq in Hr. subst pk0. cbn [step fst]. apply begin_session_absent.
    unfold remove_peer. destruct (find_peer pk (d_peers s)) eqn:F; cbn [d_peers]; [apply find_del_same|exact F].
  - (* EReplacePeers *)
    cbn [step fst]. apply begin_session_absent. apply find_none_notin. intros H.
    apply remove_all_keys in H. destruct H as [H1 H2]. exact (H2 H1).
  - (* ESetKey *)
    cbn [step]. destruct (k =? d_ident s); [discriminate|]. cbn [fst]. apply begin_session_cleared.
    cbn [d_peers]. intros p F. rewrite find_map_same in F by reflexivity.
    destruct (find_peer pk (d_peers (remove_peer k s))); cbn [option_map] in F; [|discriminate].
    injection F as <-. reflexivity.
Qed.

(* the same for a worker whose response was valid when it was consumed, in the states the device reaches *)
Definition response_revoked_in_flight_statement : Prop :=
  forall id evs idx from ident ridx pk r,
    let s := reached id evs in
    consume_response s idx from ident = Some pk ->
    revokes s pk r = true ->
    let s1 := fst (step s r) in
    begin_session s1 pk idx ridx = (s1, []).

Theorem response_revoked_in_flight : response_revoked_in_flight_statement.
Proof. intros id evs idx from ident ridx pk r s _ Hr s1. exact (response_worker_revoked s pk idx ridx r Hr). Qed.

(* ------------------------------------------------------------ 2. the sequential sender and its backlog *)

(* one decision per container: Some o = handed to Bind.Send, None = given back to the pools *)
Fixpoint sender (reads : list bool) (q : list out) : list (option out) :=
  match reads, q with
  | b :: reads', o :: q' => (if b then Some o else None) :: sender reads' q'
  | _, _ => []
  end.

Definition stopped_backlog_dropped_statement : Prop :=
  forall k m q x, In x (skipn k (sender (repeat true k ++ repeat false m) q)) -> x = None.

Theorem stopped_backlog_dropped : stopped_backlog_dropped_statement.
Proof.
  intros k. induction k as [|k IH]; intros m q x H.
  - cbn [repeat app skipn] in H. revert q H. induction m as [|m IHm]; intros q H.
    + cbn [repeat sender] in H. destruct H.
    + cbn [repeat sender] in H. destruct q as [|o q]; [destruct H|].
      destruct H as [H|H]; [symmetry; exact H|exact (IHm q H)].
  - cbn [repeat app sender] in H. destruct q as [|o q]; [destruct H|].
    cbn [skipn] in H. exact (IH m q x H).
Qed.

(* while the flag reads true the backlog is transmitted in order: the statement above is not about an idle sender *)
Lemma running_backlog_sent k : forall q, (length q <= k)%nat -> sender (repeat true k) q = map Some q.
Proof.
  induction k as [|k IH]; intros q H.
  - destruct q as [|o q]; [reflexivity|]. cbn [length] in H. inversion H.
  - destruct q as [|o q]; [reflexivity|]. cbn [repeat sender map length] in *.
    rewrite IH; [reflexivity|]. apply le_S_n. exact H.
Qed.
