(* C15 as an executable safety specification over observed traces.

   The specification knows nothing of the device's internals: it follows the
   configuration events (who is configured, what the identity is, which
   sessions were negotiated since the last identity change, which device-side
   indices were handed out to which configured peer) and judges what was
   observed after every step: the datagrams sent, the packets written to the
   TUN, the dump of the index table and the list of configured peers.

   Clauses (numbers are reported by the checker):
     1  a datagram is addressed to / a TUN packet is attributed to a peer that is not configured
     2  the index table holds an entry whose peer is not configured
     3  a transport message is sent under a session negotiated before the last identity change
     4  a handshake message presents an identity other than the current one, or a
        handshake message addressed to another identity is answered
     5  the peer map holds the device's own public key, or a peer that was removed
     6  a transport / response under an index that was never handed out to a still
        configured peer (removed since, or never existed) has an effect
     7  the allowed-ips table returns a peer that is not configured *)
From WG Require Import Base.Prelude Gen.Constants Revoke.Model.
Local Open Scope N_scope.

Record obs := {
  o_outs : list out;
  o_itab : list (N * key * bool);     (* index, owner, is-handshake *)
  o_keys : list key;                  (* peer map *)
  o_rows : list (list N);             (* per-peer digests, used by the correspondence check only *)
  o_routes : list (N * key)           (* allowed-ips lookups for the probed prefixes that return a peer *)
}.

Record sp := {
  s_ident : key;
  s_conf : list key;                  (* configured peers *)
  s_fresh : list N;                   (* peer-side indices of handshakes made since the last identity change *)
  s_live : list (N * key)             (* device-side indices handed out to a peer that is still configured *)
}.

Definition sp_init (ident : key) : sp := {| s_ident := ident; s_conf := []; s_fresh := []; s_live := [] |}.

Definition memN (x : N) (l : list N) : bool := existsb (N.eqb x) l.
Definition rem (x : N) (l : list N) : list N := filter (fun y => negb (y =? x)) l.

(* configuration part of an event *)
Definition sp_event (s : sp) (e : ev) : sp :=
  match e with
  | EAddPeer pk _ _ _ =>
      if (pk =? s_ident s) || memN pk (s_conf s) then s else
      {| s_ident := s_ident s; s_conf := pk :: s_conf s; s_fresh := s_fresh s; s_live := s_live s |}
  | ERemove pk =>
      {| s_ident := s_ident s; s_conf := rem pk (s_conf s); s_fresh := s_fresh s;
         s_live := filter (fun x => negb (snd x =? pk)) (s_live s) |}
  | EReplacePeers =>
      {| s_ident := s_ident s; s_conf := []; s_fresh := s_fresh s; s_live := [] |}
  | ESetKey k =>
      if k =? s_ident s then s else
      {| s_ident := k; s_conf := rem k (s_conf s); s_fresh := [];
         s_live := filter (fun x => negb (snd x =? k)) (s_live s) |}
  | EResponse _ _ _ ridx => {| s_ident := s_ident s; s_conf := s_conf s; s_fresh := ridx :: s_fresh s; s_live := s_live s |}
  | EInitiation _ _ _ ridx => {| s_ident := s_ident s; s_conf := s_conf s; s_fresh := ridx :: s_fresh s; s_live := s_live s |}
  | _ => s
  end.

(* indices the device hands out show in its handshake messages *)
Definition sp_learn (s : sp) (outs : list out) : sp :=
  {| s_ident := s_ident s; s_conf := s_conf s; s_fresh := s_fresh s;
     s_live := fold_left (fun l o => match o with
                                     | OInit to idx _ => (idx, to) :: l
                                     | OResp to idx _ _ => (idx, to) :: l
                                     | _ => l end) outs (s_live s) |}.

Definition out_peer (o : out) : key :=
  match o with OInit to _ _ => to | OResp to _ _ _ => to | OTransport to _ _ => to | OTunWrite from => from end.

Definition live_idx (i : N) (s : sp) : bool := existsb (fun x => fst x =? i) (s_live s).

Definition clause1 (s : sp) (b : obs) : bool := forallb (fun o => memN (out_peer o) (s_conf s)) (o_outs b).
Definition clause2 (s : sp) (b : obs) : bool := forallb (fun x => memN (snd (fst x)) (s_conf s)) (o_itab b).
Definition clause3 (s : sp) (b : obs) : bool :=
  forallb (fun o => match o with OTransport _ ridx _ => memN ridx (s_fresh s) | _ => true end) (o_outs b).
Definition clause4 (s : sp) (e : ev) (b : obs) : bool :=
  forallb (fun o => match o with
                    | OInit _ _ id => id =? s_ident s
                    | OResp _ _ _ id => id =? s_ident s
                    | _ => true end) (o_outs b) &&
  match e with
  | EInitiation _ id _ _ => (id =? s_ident s) || match o_outs b with [] => true | _ => false end
  | EResponse _ _ id _ => (id =? s_ident s) || match o_outs b with [] => true | _ => false end
  | _ => true
  end.
Definition clause5 (s : sp) (b : obs) : bool :=
  negb (memN (s_ident s) (o_keys b)) && forallb (fun k => memN k (s_conf s)) (o_keys b).
Definition clause6 (s : sp) (e : ev) (b : obs) : bool :=
  match e with
  | ETransport idx _ _ _ => live_idx idx s || match o_outs b with [] => true | _ => false end
  | EResponse idx _ _ _ => live_idx idx s || match o_outs b with [] => true | _ => false end
  | _ => true
  end.

Definition clause7 (s : sp) (b : obs) : bool := forallb (fun x => memN (snd x) (s_conf s)) (o_routes b).

(* failing clauses of one step; the state passed is the one AFTER the
   configuration part of the event (a removal takes effect "at once"), indices
   handed out during the step are learnt afterwards *)
(* a state inside one multi-line set operation cannot be observed: the harness marks such a step (the whole operation
   is judged at its last step) *)
Definition unobserved (b : obs) : bool :=
  match o_keys b with [k] => k =? 4294967295 | _ => false end.

Definition judge (s : sp) (e : ev) (b : obs) : list N :=
  if unobserved b then [] else
  (if clause1 s b then [] else [1]) ++ (if clause2 s b then [] else [2]) ++
  (if clause3 s b then [] else [3]) ++ (if clause4 s e b then [] else [4]) ++
  (if clause5 s b then [] else [5]) ++ (if clause6 s e b then [] else [6]) ++
  (if clause7 s b then [] else [7]).

Definition sp_step (s : sp) (eb : ev * obs) : sp * list N :=
  let s1 := sp_event s (fst eb) in
  (sp_learn s1 (o_outs (snd eb)), judge s1 (fst eb) (snd eb)).

Definition verdicts (ident : key) (tr : list (ev * obs)) : list (list N) := outs sp_step (sp_init ident) tr.
Definition holdsb (ident : key) (tr : list (ev * obs)) : bool :=
  forallb (fun v => match v with [] => true | _ => false end) (verdicts ident tr).

(* What the model lets an observer see after a step. *)
Definition kp_idx0 (k : option kp) : N := match k with Some x => k_idx x | None => 0 end.
Definition kp_dead0 (k : option kp) : N := match k with Some x => if k_dead x then 1 else 0 | None => 0 end.
Definition hs0 (h : option N) : N := match h with Some i => i | None => 0 end.
Definition row (p : peer) : list N :=
  [p_pk p; if p_run p then 1 else 0; kp_idx0 (p_prev p); kp_idx0 (p_cur p); kp_idx0 (p_next p);
   hs0 (p_hs p); kp_dead0 (p_cur p); kp_dead0 (p_next p); p_staged p; if p_ep p then 1 else 0].
Definition probed : list N := [1; 2; 3; 4].
Definition observe (s : state) (o : list out) : obs :=
  {| o_outs := o;
     o_itab := map (fun x => (fst x, e_peer (snd x), e_hs (snd x))) (d_itab s);
     o_keys := map p_pk (d_peers s);
     o_rows := map row (d_peers s);
     o_routes := fold_right (fun pfx l => match route pfx (d_routes s) with Some o => (pfx, o) :: l | None => l end)
                            [] probed |}.

(* The model's own trace for a list of events. *)
Fixpoint model_trace (s : state) (evs : list ev) : list (ev * obs) :=
  match evs with
  | [] => []
  | e :: r => let '(s1, o) := step s e in (e, observe s1 o) :: model_trace s1 r
  end.
