(* Correspondence checker for C15: runs the slice model over the events of a
   co-simulation scenario (kind 1: the device's observed behaviour differs from
   the model's prediction) and the specification over the observed trace
   (kind 2: the property fails on what the device did).
   Depends on Model and Spec only. *)
From WG Require Import Base.Prelude Gen.Constants Revoke.Model Revoke.Spec.
Local Open Scope N_scope.

(* c_mode 0: sequential scenario (model and specification); 1: a scenario with work raced against the removal, where
   the sequential model has no prediction: specification only *)
Record case := { c_mode : N; c_ident : key; c_trace : list (ev * obs) }.
Definition mkcase (mode : N) (ident : key) (tr : list (ev * obs)) : case :=
  {| c_mode := mode; c_ident := ident; c_trace := tr |}.
Definition mkobs (o : list out) (t : list (N * key * bool)) (k : list key) (r : list (list N)) (rt : list (N * key)) : obs :=
  {| o_outs := o; o_itab := t; o_keys := k; o_rows := r; o_routes := rt |}.

Definition out_eqb (a b : out) : bool :=
  match a, b with
  | OInit t i d, OInit t' i' d' => (t =? t') && (i =? i') && (d =? d')
  | OResp t i r d, OResp t' i' r' d' => (t =? t') && (i =? i') && (r =? r') && (d =? d')
  | OTransport t r _, OTransport t' r' _ => (t =? t') && (r =? r')      (* the epoch is not visible on the wire *)
  | OTunWrite f, OTunWrite f' => f =? f'
  | _, _ => false
  end.
Fixpoint list_eqb {A} (eq : A -> A -> bool) (a b : list A) : bool :=
  match a, b with
  | [], [] => true
  | x :: a', y :: b' => eq x y && list_eqb eq a' b'
  | _, _ => false
  end.
Definition subset {A} (eq : A -> A -> bool) (a b : list A) : bool := forallb (fun x => existsb (eq x) b) a.
Definition same_set {A} (eq : A -> A -> bool) (a b : list A) : bool :=
  subset eq a b && subset eq b a && (N.of_nat (length a) =? N.of_nat (length b)).
Definition ent_eqb (a b : N * key * bool) : bool :=
  (fst (fst a) =? fst (fst b)) && (snd (fst a) =? snd (fst b)) && Bool.eqb (snd a) (snd b).

(* which part of the observation differs: 1 outputs, 2 index table, 3 peer map, 4 peer digests, 5 allowed-ips owners *)
Definition obs_diff (m b : obs) : N :=
  if negb (list_eqb out_eqb (o_outs m) (o_outs b)) then 1
  else if negb (same_set ent_eqb (o_itab m) (o_itab b)) then 2
  else if negb (same_set N.eqb (o_keys m) (o_keys b)) then 3
  else if negb (same_set (list_eqb N.eqb) (o_rows m) (o_rows b)) then 4
  else if negb (same_set (fun x y => (fst x =? fst y) && (snd x =? snd y)) (o_routes m) (o_routes b)) then 5
  else 0.

(* first step whose observation differs from the model: position = 10*step + part.  Steps marked unobserved (states
   inside one multi-line set operation) are not compared; what the model emits in them is expected, in order, in front
   of the outputs of the next observed step. *)
Fixpoint first_mismatch_acc (s : state) (tr : list (ev * obs)) (i : N) (acc : list out) : option N :=
  match tr with
  | [] => None
  | (e, b) :: r =>
      let '(s1, o) := step s e in
      if unobserved b then first_mismatch_acc s1 r (i + 1) (acc ++ o) else
      let d := obs_diff (observe s1 (acc ++ o)) b in
      if d =? 0 then first_mismatch_acc s1 r (i + 1) [] else Some (10 * i + d)
  end.
Definition first_mismatch (s : state) (tr : list (ev * obs)) (i : N) : option N := first_mismatch_acc s tr i [].

Fixpoint first_verdict (vs : list (list N)) (i : N) : option N :=
  match vs with
  | [] => None
  | [] :: r => first_verdict r (i + 1)
  | (c :: _) :: _ => Some (10 * i + c)
  end.

Definition check_case (k : case) : list (N * N) :=
  (if c_mode k =? 0 then
     match first_mismatch (init (c_ident k)) (c_trace k) 0 with Some p => [(1, p)] | None => [] end
   else []) ++
  (match first_verdict (verdicts (c_ident k) (c_trace k)) 0 with Some p => [(2, p)] | None => [] end).

Fixpoint check_cases (ks : list case) (idx : N) : list (N * N * N) :=
  match ks with
  | [] => []
  | k :: ks' => map (fun p => (idx, fst p, snd p)) (check_case k) ++ check_cases ks' (idx + 1)
  end.

(* Statistics on the model's run:
   [steps; removals of a present peer; replace_peers with peers; identity changes; identity changes that drop a
    self-peer; same-key sets; transports accepted; transports refused; responses accepted; responses refused;
    initiations answered; initiations refused; TUN packets sent or staged; TUN packets unrouted or dropped;
    removals/changes hitting a peer with >= 2 keypairs; ... with a pending handshake; ... with staged packets] *)
Fixpoint bump (l : list N) (i : nat) : list N :=
  match l, i with
  | [], _ => []
  | x :: t, O => (x + 1) :: t
  | x :: t, S j => x :: bump t j
  end.
Definition nkeys (p : peer) : N :=
  (match p_prev p with Some _ => 1 | None => 0 end) + (match p_cur p with Some _ => 1 | None => 0 end) +
  (match p_next p with Some _ => 1 | None => 0 end).
Definition bump_life (st : list N) (ps : list peer) : list N :=
  let st := if existsb (fun p => 2 <=? nkeys p) ps then bump st 14 else st in
  let st := if existsb (fun p => match p_hs p with Some _ => true | None => false end) ps then bump st 15 else st in
  if existsb (fun p => negb (p_staged p =? 0)) ps then bump st 16 else st.
Definition classify (s : state) (e : ev) (s1 : state) (o : list out) (st : list N) : list N :=
  let st := bump st 0 in
  let nonempty := match o with [] => false | _ => true end in
  match e with
  | ERemove pk =>
      match find_peer pk (d_peers s) with
      | Some p => bump_life (bump st 1) [p]
      | None => st
      end
  | EReplacePeers => match d_peers s with [] => st | _ => bump_life (bump st 2) (d_peers s) end
  | ESetKey k =>
      if k =? d_ident s then bump st 5
      else bump_life (if has_peer k (d_peers s) then bump (bump st 3) 4 else bump st 3) (d_peers s)
  | ETransport _ _ _ _ => if nonempty || negb (N.of_nat (length (d_itab s1)) =? N.of_nat (length (d_itab s))) then bump st 6 else bump st 7
  | EResponse _ _ _ _ => if nonempty then bump st 8 else bump st 9
  | EInitiation _ _ _ _ => if nonempty then bump st 10 else bump st 11
  | ETun pfx _ =>
      match route pfx (d_routes s) with
      | Some pk => match find_peer pk (d_peers s) with
                   | Some p => if p_run p then bump st 12 else bump st 13
                   | None => bump st 13 end
      | None => bump st 13
      end
  | _ => st
  end.
Fixpoint stats_run (s : state) (evs : list ev) (st : list N) : list N :=
  match evs with
  | [] => st
  | e :: r => let '(s1, o) := step s e in stats_run s1 r (classify s e s1 o st)
  end.
Definition stats (ks : list case) : list N :=
  fold_left (fun st k => stats_run (init (c_ident k)) (map fst (c_trace k)) st) ks (repeat 0 17).
