(* C15 — slice model of one device's peer set, as far as revocation is concerned.
   Mirrors device/device.go (removePeerLocked, RemovePeer, RemoveAllPeers,
   SetPrivateKey, Up/Down), device/peer.go (Start, Stop, ZeroAndFlushAll,
   ExpireCurrentKeypairs), device/uapi.go (public_key / remove / replace_peers /
   private_key lines, handlePostConfig), device/indextable.go, the keypair
   rotation of device/noise-protocol.go (BeginSymmetricSession,
   ReceivedWithKeypair) and the routing / staging decisions of send.go and
   receive.go, at quiescent points (one harness step = one event, the device has
   settled in between).

   Static keys are numbers: private key k has public key k.  Values the device
   draws at random (its handshake indices) are oracle inputs carried by the
   event that makes the device draw them.  No proofs in this file. *)
From WG Require Import Base.Prelude Gen.Constants.
Local Open Scope N_scope.

Definition key := N.

(* A keypair: device-side index, remote (peer-side) index, the identity epoch
   of the device in which it was negotiated, sendNonce >= RejectAfterMessages. *)
Record kp := { k_idx : N; k_ridx : N; k_epoch : N; k_dead : bool }.

Record peer := {
  p_pk : key;
  p_run : bool;                (* isRunning *)
  p_ep : bool;                 (* has an endpoint *)
  p_prev : option kp;
  p_cur : option kp;
  p_next : option kp;
  p_hs : option N;             (* handshake.localIndex of a created initiation (state InitiationCreated) *)
  p_recent : bool;             (* lastSentHandshake less than RekeyTimeout ago *)
  p_flood : bool;              (* lastInitiationConsumption less than 1/HandshakeInitationRate ago *)
  p_staged : N                 (* staged packets (one container each: the TUN batch size is 1 in C15 runs) *)
}.

(* index-table entry: owner and kind (handshake vs keypair) *)
Record ient := { e_peer : key; e_hs : bool }.

Record state := {
  d_ident : key;               (* staticIdentity *)
  d_epoch : N;                 (* number of identity replacements so far *)
  d_up : bool;
  d_peers : list peer;
  d_routes : list (N * key);   (* allowed-ips ownership: prefix id -> owner (prefixes are disjoint) *)
  d_itab : list (N * ient)
}.

Inductive ev :=
| EAddPeer (pk : key) (ep : bool) (pfx : list N) (oidx : N)
    (* set: public_key=pk [endpoint=..] allowed_ip=..; oidx = index the device draws if the set makes it initiate *)
| ERemove (pk : key)                               (* set: public_key=pk remove=true *)
| EReplacePeers                                    (* set: replace_peers=true *)
| ESetKey (k : key)                                (* set: private_key=k *)
| EUp
| EDown
| EAge (pk : key)                                  (* hook: the peer's handshake times move 10 s into the past *)
| ETun (pfx : N) (oidx : N)                        (* TUN packet to an address of prefix pfx *)
| ETransport (idx : N) (src : N) (keepalive : bool) (oidx : N)
    (* authentic transport message with a fresh counter under the session whose
       device-side index is idx; inner source address in prefix src; oidx = index the device draws if the message
       makes it initiate (a promoted keypair that may not send, with packets staged) *)
| EResponse (idx : N) (from : key) (ident : key) (ridx : N)
    (* well-formed response by peer `from` to the initiation the device sent with
       index idx, MAC1 and transcript for device identity `ident` *)
| EInitiation (from : key) (ident : key) (oidx : N) (ridx : N).
    (* well-formed initiation with a fresh timestamp by peer `from`, addressed to
       device identity `ident`; oidx = index the device draws if it answers *)

Inductive out :=
| OInit (to : key) (idx : N) (ident : key)          (* initiation to peer, sender index, static it carries *)
| OResp (to : key) (idx ridx : N) (ident : key)     (* response to peer, sender, receiver, identity of the transcript *)
| OTransport (to : key) (ridx : N) (epoch : N)      (* one transport message (data or keepalive), receiver field, epoch of its keypair *)
| OTunWrite (from : key).                           (* one packet written to the TUN, decrypted from peer *)

(* ------------------------------------------------------------ index table *)

Definition it_del (i : N) (t : list (N * ient)) : list (N * ient) :=
  filter (fun x => negb (fst x =? i)) t.
Definition it_set (i : N) (e : ient) (t : list (N * ient)) : list (N * ient) :=
  (i, e) :: it_del i t.
Fixpoint it_get (i : N) (t : list (N * ient)) : option ient :=
  match t with
  | [] => None
  | (j, e) :: t' => if j =? i then Some e else it_get i t'
  end.
Definition it_del_kp (k : option kp) (t : list (N * ient)) : list (N * ient) :=
  match k with Some x => it_del (k_idx x) t | None => t end.
Definition it_del_hs (h : option N) (t : list (N * ient)) : list (N * ient) :=
  match h with Some i => it_del i t | None => t end.

(* ------------------------------------------------------------ peers, routes *)

Fixpoint find_peer (pk : key) (l : list peer) : option peer :=
  match l with
  | [] => None
  | p :: l' => if p_pk p =? pk then Some p else find_peer pk l'
  end.
Definition has_peer (pk : key) (l : list peer) : bool :=
  match find_peer pk l with Some _ => true | None => false end.
(* replace every record with this key *)
Definition put_peer (q : peer) (l : list peer) : list peer :=
  map (fun p => if p_pk p =? p_pk q then q else p) l.
Definition del_peer (pk : key) (l : list peer) : list peer :=
  filter (fun p => negb (p_pk p =? pk)) l.

Fixpoint route (pfx : N) (r : list (N * key)) : option key :=
  match r with
  | [] => None
  | (x, o) :: r' => if x =? pfx then Some o else route pfx r'
  end.
Definition unroute_peer (pk : key) (r : list (N * key)) : list (N * key) :=
  filter (fun x => negb (snd x =? pk)) r.
(* allowedips.Insert: the prefix now belongs to pk, whoever had it *)
Definition add_route (pk : key) (r : list (N * key)) (pfx : N) : list (N * key) :=
  (pfx, pk) :: filter (fun x => negb (fst x =? pfx)) r.

Definition new_peer (pk : key) (ep : bool) : peer :=
  {| p_pk := pk; p_run := false; p_ep := ep; p_prev := None; p_cur := None; p_next := None;
     p_hs := None; p_recent := false; p_flood := false; p_staged := 0 |}.

(* ------------------------------------------------------------ peer life cycle *)

(* Peer.Start: lastSentHandshake is put RekeyTimeout+1s into the past *)
Definition start (p : peer) : peer :=
  if p_run p then p else
  {| p_pk := p_pk p; p_run := true; p_ep := p_ep p; p_prev := p_prev p; p_cur := p_cur p; p_next := p_next p;
     p_hs := p_hs p; p_recent := false; p_flood := p_flood p; p_staged := p_staged p |}.

(* Peer.ZeroAndFlushAll *)
Definition zero_tab (p : peer) (t : list (N * ient)) : list (N * ient) :=
  it_del_hs (p_hs p) (it_del_kp (p_next p) (it_del_kp (p_cur p) (it_del_kp (p_prev p) t))).
Definition zero_peer (p : peer) : peer :=
  {| p_pk := p_pk p; p_run := false; p_ep := p_ep p; p_prev := None; p_cur := None; p_next := None;
     p_hs := None; p_recent := p_recent p; p_flood := p_flood p; p_staged := 0 |}.

(* Peer.Stop: nothing at all happens when the peer is not running *)
Definition stop (p : peer) (t : list (N * ient)) : peer * list (N * ient) :=
  if p_run p then (zero_peer p, zero_tab p t) else (p, t).

(* removePeerLocked: RemoveByPeer, Stop, delete from the map *)
Definition remove_peer (pk : key) (s : state) : state :=
  match find_peer pk (d_peers s) with
  | None => s
  | Some p =>
      {| d_ident := d_ident s; d_epoch := d_epoch s; d_up := d_up s;
         d_peers := del_peer pk (d_peers s);
         d_routes := unroute_peer pk (d_routes s);
         d_itab := snd (stop p (d_itab s)) |}
  end.

Fixpoint remove_all (pks : list key) (s : state) : state :=
  match pks with
  | [] => s
  | pk :: r => remove_all r (remove_peer pk s)
  end.

(* Peer.ExpireCurrentKeypairs *)
Definition kill (k : option kp) : option kp :=
  match k with
  | Some x => Some {| k_idx := k_idx x; k_ridx := k_ridx x; k_epoch := k_epoch x; k_dead := true |}
  | None => None
  end.
Definition expire_peer (p : peer) : peer :=
  {| p_pk := p_pk p; p_run := p_run p; p_ep := p_ep p; p_prev := p_prev p; p_cur := kill (p_cur p);
     p_next := kill (p_next p); p_hs := None; p_recent := false; p_flood := p_flood p; p_staged := p_staged p |}.
Definition expire_tab (ps : list peer) (t : list (N * ient)) : list (N * ient) :=
  fold_left (fun t p => it_del_hs (p_hs p) t) ps t.

(* ------------------------------------------------------------ sending *)

Definition usable (k : option kp) : bool :=
  match k with Some x => negb (k_dead x) | None => false end.

Fixpoint repeat_out (o : out) (n : nat) : list out :=
  match n with O => [] | S m => o :: repeat_out o m end.

Definition set_staged (p : peer) (n : N) : peer :=
  {| p_pk := p_pk p; p_run := p_run p; p_ep := p_ep p; p_prev := p_prev p; p_cur := p_cur p; p_next := p_next p;
     p_hs := p_hs p; p_recent := p_recent p; p_flood := p_flood p; p_staged := n |}.

(* Peer.StagePackets with one-packet containers: the oldest is dropped at QueueStagedSize *)
Definition stage1 (p : peer) : peer :=
  set_staged p (if p_staged p <? QueueStagedSize then p_staged p + 1 else QueueStagedSize).

(* Peer.SendStagedPackets, followed to quiescence.  Returns the peer, the index
   table and the datagrams (none reach the wire when the peer has no endpoint). *)
Definition send_staged (s_up : bool) (ident : key) (oidx : N) (p : peer) (t : list (N * ient))
  : peer * list (N * ient) * list out :=
  if (p_staged p =? 0) || negb s_up then (p, t, []) else
  match p_cur p with
  | Some k =>
      if negb (k_dead k) then
        (set_staged p 0, t,
         if p_ep p then repeat_out (OTransport (p_pk p) (k_ridx k) (k_epoch k)) (N.to_nat (p_staged p)) else [])
      else
        (* SendHandshakeInitiation(false) *)
        if p_recent p then (p, t, []) else
        ({| p_pk := p_pk p; p_run := p_run p; p_ep := p_ep p; p_prev := p_prev p; p_cur := p_cur p; p_next := p_next p;
            p_hs := Some oidx; p_recent := true; p_flood := p_flood p; p_staged := p_staged p |},
         it_set oidx {| e_peer := p_pk p; e_hs := true |} (it_del_hs (p_hs p) t),
         if p_ep p then [OInit (p_pk p) oidx ident] else [])
  | None =>
      if p_recent p then (p, t, []) else
      ({| p_pk := p_pk p; p_run := p_run p; p_ep := p_ep p; p_prev := p_prev p; p_cur := p_cur p; p_next := p_next p;
          p_hs := Some oidx; p_recent := true; p_flood := p_flood p; p_staged := p_staged p |},
       it_set oidx {| e_peer := p_pk p; e_hs := true |} (it_del_hs (p_hs p) t),
       if p_ep p then [OInit (p_pk p) oidx ident] else [])
  end.

Definition with_peers_tab (s : state) (ps : list peer) (t : list (N * ient)) : state :=
  {| d_ident := d_ident s; d_epoch := d_epoch s; d_up := d_up s; d_peers := ps;
     d_routes := d_routes s; d_itab := t |}.

Definition same_idx (k : option kp) (i : N) : bool :=
  match k with Some x => k_idx x =? i | None => false end.

(* ------------------------------------------------------------ the step *)

Definition step (s : state) (e : ev) : state * list out :=
  match e with
  | EAddPeer pk ep pfx oidx =>
      (* handlePublicKeyLine: a peer with the device's own public key is a dummy, every line for it is ignored *)
      if pk =? d_ident s then (s, []) else
      let ps := if has_peer pk (d_peers s) then
                  (if ep then map (fun p => if p_pk p =? pk then
                       {| p_pk := p_pk p; p_run := p_run p; p_ep := true; p_prev := p_prev p; p_cur := p_cur p;
                          p_next := p_next p; p_hs := p_hs p; p_recent := p_recent p; p_flood := p_flood p;
                          p_staged := p_staged p |} else p) (d_peers s)
                   else d_peers s)
                else d_peers s ++ [new_peer pk ep] in
      let r := fold_left (add_route pk) pfx (d_routes s) in
      (* handlePostConfig: when the device is up, Start and SendStagedPackets *)
      if negb (d_up s) then
        ({| d_ident := d_ident s; d_epoch := d_epoch s; d_up := d_up s; d_peers := ps; d_routes := r; d_itab := d_itab s |}, [])
      else
        let ps1 := map (fun p => if p_pk p =? pk then start p else p) ps in
        match find_peer pk ps1 with
        | None => ({| d_ident := d_ident s; d_epoch := d_epoch s; d_up := d_up s; d_peers := ps1; d_routes := r;
                      d_itab := d_itab s |}, [])
        | Some p =>
            let '(p1, t1, o) := send_staged (d_up s) (d_ident s) oidx p (d_itab s) in
            ({| d_ident := d_ident s; d_epoch := d_epoch s; d_up := d_up s; d_peers := put_peer p1 ps1; d_routes := r;
                d_itab := t1 |}, o)
        end
  | ERemove pk => (remove_peer pk s, [])
  | EReplacePeers => (remove_all (map p_pk (d_peers s)) s, [])
  | ESetKey k =>
      if k =? d_ident s then (s, []) else
      let s1 := remove_peer k s in
      ({| d_ident := k; d_epoch := d_epoch s + 1; d_up := d_up s;
          d_peers := map expire_peer (d_peers s1);
          d_routes := d_routes s1;
          d_itab := expire_tab (d_peers s1) (d_itab s1) |}, [])
  | EUp =>
      if d_up s then (s, []) else
      ({| d_ident := d_ident s; d_epoch := d_epoch s; d_up := true; d_peers := map start (d_peers s);
          d_routes := d_routes s; d_itab := d_itab s |}, [])
  | EDown =>
      if negb (d_up s) then (s, []) else
      ({| d_ident := d_ident s; d_epoch := d_epoch s; d_up := false;
          d_peers := map (fun p => fst (stop p [])) (d_peers s);
          d_routes := d_routes s;
          d_itab := fold_left (fun t p => snd (stop p t)) (d_peers s) (d_itab s) |}, [])
  | EAge pk =>
      (with_peers_tab s (map (fun p => if p_pk p =? pk then
          {| p_pk := p_pk p; p_run := p_run p; p_ep := p_ep p; p_prev := p_prev p; p_cur := p_cur p; p_next := p_next p;
             p_hs := p_hs p; p_recent := false; p_flood := false; p_staged := p_staged p |} else p) (d_peers s))
         (d_itab s), [])
  | ETun pfx oidx =>
      match route pfx (d_routes s) with
      | None => (s, [])
      | Some pk =>
          match find_peer pk (d_peers s) with
          | None => (s, [])
          | Some p =>
              if negb (p_run p) then (s, []) else
              let '(p1, t1, o) := send_staged (d_up s) (d_ident s) oidx (stage1 p) (d_itab s) in
              (with_peers_tab s (put_peer p1 (d_peers s)) t1, o)
          end
      end
  | ETransport idx src keepalive oidx =>
      if negb (d_up s) then (s, []) else
      match it_get idx (d_itab s) with
      | None => (s, [])
      | Some e =>
          if e_hs e then (s, []) else        (* value.keypair == nil *)
          match find_peer (e_peer e) (d_peers s) with
          | None => (s, [])                  (* a ghost entry: its peer is not running *)
          | Some p =>
              if negb (p_run p) then (s, []) else
              (* ReceivedWithKeypair: only the next keypair is promoted *)
              let '(p1, t1) :=
                if same_idx (p_next p) idx then
                  ({| p_pk := p_pk p; p_run := p_run p; p_ep := true; p_prev := p_cur p; p_cur := p_next p; p_next := None;
                      p_hs := p_hs p; p_recent := p_recent p; p_flood := p_flood p; p_staged := p_staged p |},
                   it_del_kp (p_prev p) (d_itab s))
                else
                  ({| p_pk := p_pk p; p_run := p_run p; p_ep := true; p_prev := p_prev p; p_cur := p_cur p; p_next := p_next p;
                      p_hs := p_hs p; p_recent := p_recent p; p_flood := p_flood p; p_staged := p_staged p |},
                   d_itab s) in
              let '(p2, t2, o) :=
                if same_idx (p_next p) idx then send_staged (d_up s) (d_ident s) oidx p1 t1 else (p1, t1, []) in
              let w := if keepalive then [] else
                       match route src (d_routes s) with
                       | Some owner => if owner =? p_pk p then [OTunWrite (p_pk p)] else []
                       | None => []
                       end in
              (with_peers_tab s (put_peer p2 (d_peers s)) t2, o ++ w)
          end
      end
  | EResponse idx from ident ridx =>
      if negb (d_up s) then (s, []) else
      if negb (ident =? d_ident s) then (s, []) else          (* MAC1 / static-ephemeral DH under the current identity *)
      match it_get idx (d_itab s) with
      | None => (s, [])
      | Some e =>
          if negb (e_hs e) then (s, []) else                    (* lookup.handshake == nil *)
          if negb (e_peer e =? from) then (s, []) else          (* transcript does not authenticate *)
          match find_peer (e_peer e) (d_peers s) with
          | None => (s, [])
          | Some p =>
              match p_hs p with
              | None => (s, [])
              | Some h =>
                  if negb (h =? idx) then (s, []) else
                  (* BeginSymmetricSession, initiator side *)
                  let k := {| k_idx := idx; k_ridx := ridx; k_epoch := d_epoch s; k_dead := false |} in
                  let t0 := it_set idx {| e_peer := p_pk p; e_hs := false |} (d_itab s) in
                  let '(prev1, t1) :=
                    match p_next p with
                    | Some n => (Some n, it_del_kp (p_prev p) (it_del_kp (p_cur p) t0))
                    | None => (p_cur p, it_del_kp (p_prev p) t0)
                    end in
                  (* SendKeepalive *)
                  let st := if (p_staged p =? 0) && p_run p then 1 else p_staged p in
                  let p1 := {| p_pk := p_pk p; p_run := p_run p; p_ep := true; p_prev := prev1; p_cur := Some k;
                               p_next := None; p_hs := None; p_recent := p_recent p; p_flood := p_flood p;
                               p_staged := st |} in
                  let '(p2, t2, o) := send_staged (d_up s) (d_ident s) 0 p1 t1 in
                  (with_peers_tab s (put_peer p2 (d_peers s)) t2, o)
              end
          end
      end
  | EInitiation from ident oidx ridx =>
      if negb (d_up s) then (s, []) else
      if negb (ident =? d_ident s) then (s, []) else          (* MAC1 / encrypted static under the current identity *)
      match find_peer from (d_peers s) with
      | None => (s, [])
      | Some p =>
          if negb (p_run p) then (s, []) else
          if p_flood p then (s, []) else
          (* SendHandshakeResponse: CreateMessageResponse draws oidx, BeginSymmetricSession (responder side) *)
          let k := {| k_idx := oidx; k_ridx := ridx; k_epoch := d_epoch s; k_dead := false |} in
          let t1 := it_del_kp (p_prev p) (it_del_kp (p_next p)
                      (it_set oidx {| e_peer := p_pk p; e_hs := false |} (it_del_hs (p_hs p) (d_itab s)))) in
          let p1 := {| p_pk := p_pk p; p_run := p_run p; p_ep := true; p_prev := None; p_cur := p_cur p;
                       p_next := Some k; p_hs := None; p_recent := true; p_flood := true;
                       p_staged := p_staged p |} in
          (with_peers_tab s (put_peer p1 (d_peers s)) t1, [OResp (p_pk p) oidx ridx (d_ident s)])
      end
  end.

Definition init (ident : key) : state :=
  {| d_ident := ident; d_epoch := 0; d_up := false; d_peers := []; d_routes := []; d_itab := [] |}.
