(* The table an allowed-IPs configuration denotes: assigning a prefix that is
   already present moves it to the new owner (UAPI semantics, property C08), so
   of several entries with the same family, length and masked bits only the
   last one counts.  [Lpm.lookup] on the raw list computes the same owner
   (ties go to the later entry); the specifications evaluate "P is the
   longest-prefix match" on [effective tbl], where it is unambiguous. *)
From WG Require Import Base.Prelude DataPath.Lpm.
Local Open Scope N_scope.

Definition same_prefix (a b : entry) : bool :=
  fam_eqb (e_fam a) (e_fam b) && (e_len a =? e_len b) &&
  (N.shiftr (e_bits a) (width (e_fam a) - e_len a) =? N.shiftr (e_bits b) (width (e_fam a) - e_len a)).

Fixpoint effective (tbl : list entry) : list entry :=
  match tbl with
  | [] => []
  | e :: t => if existsb (same_prefix e) t then effective t else e :: effective t
  end.
