(* Faster decoding of the packed byte data of generated case files (glue for
   Outbound/Check.v and Inbound/Check.v only).  Same format as Base.Ints.unpack
   (7 bytes per Uint63 literal, little end first), but bytes are split off with
   N.land / N.shiftr (linear) instead of N.modulo / N.div (binary long division,
   quadratic in the 56 bits): about 100x faster on 64 KiB packets. *)
From Coq Require Import NArith ZArith List Uint63.
From WG Require Import Base.Ints.
Import ListNotations.

Fixpoint bytes_fast (n : nat) (x : N) : list N :=
  match n with
  | O => []
  | S k => N.land x 255 :: bytes_fast k (N.shiftr x 8)
  end.

Fixpoint unpack7f (l : list int) : list N :=
  match l with
  | [] => []
  | x :: t => bytes_fast 7 (n_of_int x) ++ unpack7f t
  end.

Definition unpackf (len : int) (l : list int) : list N :=
  firstn (N.to_nat (n_of_int len)) (unpack7f l).

Example unpackf_agrees :
  unpackf 9%uint63 [71776119061217280%uint63; 513%uint63] = unpack 9%uint63 [71776119061217280%uint63; 513%uint63].
Proof. vm_compute. reflexivity. Qed.
