(* Longest-prefix match over an association list of
   (family, prefix bits, prefix length, owner), shared by the C01 (outbound)
   and C02 (inbound) slice models.  Addresses are numbers (big-endian value of
   the 4 / 16 address bytes).  The list is in configuration order; when the
   same prefix occurs twice the later entry wins (UAPI re-assignment).
   This file is deliberately independent of AllowedIPs/ (C08 proves that the
   trie of the code computes this function). *)
From WG Require Import Base.Prelude.
Local Open Scope N_scope.

Inductive fam := V4 | V6.
Definition fam_eqb (a b : fam) : bool :=
  match a, b with V4, V4 => true | V6, V6 => true | _, _ => false end.
Definition width (f : fam) : N := match f with V4 => 32 | V6 => 128 end.

Record entry := { e_fam : fam; e_bits : N; e_len : N; e_owner : N }.

Definition matches (f : fam) (a : N) (e : entry) : bool :=
  fam_eqb (e_fam e) f && (e_len e <=? width f) &&
  (N.shiftr a (width f - e_len e) =? N.shiftr (e_bits e) (width f - e_len e)).

Definition pick (f : fam) (a : N) (acc : option entry) (e : entry) : option entry :=
  if matches f a e then
    match acc with
    | None => Some e
    | Some b => if e_len b <=? e_len e then Some e else Some b
    end
  else acc.

Fixpoint best (f : fam) (a : N) (tbl : list entry) (acc : option entry) : option entry :=
  match tbl with
  | [] => acc
  | e :: t => best f a t (pick f a acc e)
  end.

Definition lookup (tbl : list entry) (f : fam) (a : N) : option N :=
  option_map e_owner (best f a tbl None).

(* big-endian value of a byte string *)
Definition be_val (l : list N) : N := fold_left (fun acc b => acc * 256 + b) l 0.

(* The meaning of "p is the longest-prefix match of a". *)
Definition lpm_spec (tbl : list entry) (f : fam) (a : N) (r : option N) : Prop :=
  match r with
  | Some p => exists e, In e tbl /\ matches f a e = true /\ e_owner e = p /\
                        forall e', In e' tbl -> matches f a e' = true -> e_len e' <= e_len e
  | None => forall e, In e tbl -> matches f a e = false
  end.

(* The same as a boolean, for evaluating the property on observed behaviour
   without going through [lookup]. *)
Definition lpm_okb (tbl : list entry) (f : fam) (a : N) (p : N) : bool :=
  existsb (fun e => matches f a e && (e_owner e =? p) &&
                    forallb (fun e' => negb (matches f a e') || (e_len e' <=? e_len e)) tbl) tbl.
Definition lpm_noneb (tbl : list entry) (f : fam) (a : N) : bool :=
  forallb (fun e => negb (matches f a e)) tbl.

Lemma best_spec f a tbl : forall acc,
  (forall b, acc = Some b -> matches f a b = true) ->
  match best f a tbl acc with
  | Some e => (In e tbl \/ acc = Some e) /\ matches f a e = true /\
              (forall e', In e' tbl -> matches f a e' = true -> e_len e' <= e_len e) /\
              (forall b, acc = Some b -> e_len b <= e_len e)
  | None => acc = None /\ forall e, In e tbl -> matches f a e = false
  end.
Proof.
  induction tbl as [|x t IH]; intros acc Hacc; cbn [best].
  - destruct acc as [b|].
    + split; [right; reflexivity|]. split; [apply Hacc; reflexivity|].
      split; [intros e' []|]. intros b' Hb; inversion Hb; subst; lia.
    + split; [reflexivity|]. intros e [].
  - assert (Hp : forall b, pick f a acc x = Some b -> matches f a b = true).
    { intros b. unfold pick. destruct (matches f a x) eqn:Hm.
      - destruct acc as [c|].
        + destruct (e_len c <=? e_len x); intros H; inversion H; subst; auto.
        + intros H; inversion H; subst; auto.
      - apply Hacc. }
    specialize (IH (pick f a acc x) Hp).
    destruct (best f a t (pick f a acc x)) as [e|].
    + destruct IH as (Hin & Hm & Hmax & Hge).
      split.
      { destruct Hin as [Hin|Hin]; [left; right; exact Hin|].
        unfold pick in Hin. destruct (matches f a x).
        - destruct acc as [c|].
          + destruct (e_len c <=? e_len x); inversion Hin; subst; [left; left; reflexivity|right; reflexivity].
          + inversion Hin; subst. left; left; reflexivity.
        - right; exact Hin. }
      split; [exact Hm|]. split.
      { intros e' [He'|He'] Hm'.
        - subst e'. unfold pick in Hge. rewrite Hm' in Hge.
          destruct acc as [c|].
          + destruct (e_len c <=? e_len x) eqn:Hc.
            * apply (Hge x); reflexivity.
            * specialize (Hge c eq_refl). apply N.leb_gt in Hc. lia.
          + apply (Hge x); reflexivity.
        - apply Hmax; assumption. }
      { intros b Hb. subst acc. unfold pick in Hge.
        destruct (matches f a x).
        - destruct (e_len b <=? e_len x) eqn:Hc.
          + specialize (Hge x eq_refl). apply N.leb_le in Hc. lia.
          + apply (Hge b); reflexivity.
        - apply (Hge b); reflexivity. }
    + destruct IH as (Hnone & Hall). unfold pick in Hnone.
      destruct (matches f a x) eqn:Hm.
      * destruct acc as [c|]; [destruct (e_len c <=? e_len x)|]; discriminate.
      * split; [exact Hnone|]. intros e [He|He]; [subst; exact Hm|apply Hall; exact He].
Qed.

Theorem lookup_is_lpm tbl f a : lpm_spec tbl f a (lookup tbl f a).
Proof.
  unfold lookup, lpm_spec.
  pose proof (best_spec f a tbl None) as H.
  assert (H0 : forall b : entry, None = Some b -> matches f a b = true) by (intros b Hb; discriminate).
  specialize (H H0). destruct (best f a tbl None) as [e|]; cbn [option_map].
  - destruct H as (Hin & Hm & Hmax & _). exists e.
    destruct Hin as [Hin|Hin]; [|discriminate]. repeat split; auto.
  - destruct H as (_ & Hall). exact Hall.
Qed.

Lemma lpm_okb_spec tbl f a p : lpm_okb tbl f a p = true <-> lpm_spec tbl f a (Some p).
Proof.
  unfold lpm_okb, lpm_spec. rewrite existsb_exists. split.
  - intros (e & Hin & H). apply andb_prop in H. destruct H as [H Hall].
    apply andb_prop in H. destruct H as [Hm Ho]. apply N.eqb_eq in Ho.
    exists e. repeat split; auto. intros e' Hin' Hm'.
    rewrite forallb_forall in Hall. specialize (Hall e' Hin'). rewrite Hm' in Hall.
    cbn in Hall. apply N.leb_le in Hall. exact Hall.
  - intros (e & Hin & Hm & Ho & Hmax). exists e. split; [exact Hin|].
    rewrite Hm. cbn [andb]. apply N.eqb_eq in Ho. rewrite Ho. cbn [andb].
    apply forallb_forall. intros e' Hin'. destruct (matches f a e') eqn:Hm'; cbn; [|reflexivity].
    apply N.leb_le. apply Hmax; assumption.
Qed.
