(* C05: a grid on which the interpreter of the source-generated AST
   (Replay/Ast.v on Gen/ReplayAst.v) is compared with the set SPECIFICATION of
   the property (Replay/Spec.v).  Used only when Replay/AstProofs.v no longer
   checks, to look for a history on which the changed source violates the
   property; it decides nothing.  No proofs in this file. *)
From Coq Require Import String.
From WG Require Import Base.Prelude Gen.Constants Replay.Model Replay.Spec Replay.Ast Gen.ReplayAst.
Local Open Scope N_scope.

(* run the interpreted source over a history of counters from the empty filter;
   None = the interpreter stops (Unknown node, index out of range, fuel) *)
Fixpoint src_run (f : filter) (cs : list N) (l : N) : option (filter * list bool) :=
  match cs with
  | [] => Some (f, [])
  | c :: t => match run_validate validate_body f c l with
              | None => None
              | Some (f1, b) => match src_run f1 t l with Some (f2, bs) => Some (f2, b :: bs) | None => None end
              end
  end.

Definition spec_verdicts (cs : list N) (l : N) : list bool :=
  outs sstep sempty (map (fun c => Validate c l) cs).

Definition g_lim : N := RejectAfterMessages.
Definition g_prefixes : list (list N) :=
  [[]; [5]; [8128]; [5; 8128]; [5; 70; 8191]; [5; 8192]; [5; 100000]; [63; 64; 8127; 16383]; [9000; 9001];
   [200; 201]; [0; 274877906944]; [5; 4194309]; [100; 99; 98]; [8128; 0]; [8129; 0; 1]].
Definition g_counters : list N :=
  [0; 1; 5; 63; 64; 70; 99; 100; 127; 128; 200; 8127; 8128; 8129; 8191; 8192; 8197; 8256; 9000; 16383; 16384; 16389;
   100000; 108128; 4194309; 274877906944; 274877906949; 9223372036854775808; 18446744073709543422; 18446744073709543423;
   18446744073709551615].

Fixpoint beqb (a b : list bool) : bool :=
  match a, b with [] , [] => true | x :: a', y :: b' => Bool.eqb x y && beqb a' b' | _, _ => false end.

(* (prefix index, counter index, 0 = interpreter stopped / 1 = verdicts differ) *)
Definition grid_diffs : list (N * N * N) :=
  flat_map (fun ip =>
    flat_map (fun ic =>
      let h := snd ip ++ [snd ic] in
      match src_run empty h g_lim with
      | None => [(fst ip, fst ic, 0)]
      | Some (_, bs) => if beqb bs (spec_verdicts h g_lim) then [] else [(fst ip, fst ic, 1)]
      end)
      (combine (map N.of_nat (seq 0 (length g_counters))) g_counters))
    (combine (map N.of_nat (seq 0 (length g_prefixes))) g_prefixes).
