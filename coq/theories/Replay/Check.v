(* Correspondence checker for C05: run model and spec on the histories the
   implementation ran, compare with the observed verdicts. *)
From WG Require Import Base.Prelude Gen.Constants Replay.Model Replay.Spec.
Local Open Scope N_scope.

Record case := { c_ops : list op; c_obs : list bool }.

(* Case files carry counters as pairs of primitive 63-bit integers (high and
   low 32 bits): N numerals of 20 digits cost ~1 ms each to parse.  A high
   word of 2^40 encodes Reset.  Primitive integers occur only here. *)
From WG Require Import Base.Ints.
Fixpoint decode (limit : N) (l : list Uint63.int) : list op :=
  match l with
  | hi :: lo :: t =>
      (if n_of_int hi =? 1099511627776 then Reset
       else Validate (n_of_int hi * 4294967296 + n_of_int lo) limit) :: decode limit t
  | _ => []
  end.
Definition mk (limit : N) (l : list Uint63.int) (obs : list bool) : case :=
  {| c_ops := decode limit l; c_obs := obs |}.

Fixpoint first_diff (a b : list bool) (i : N) : option N :=
  match a, b with
  | [], [] => None
  | x :: a', y :: b' => if Bool.eqb x y then first_diff a' b' (i + 1) else Some i
  | _, _ => Some i
  end.

(* kind 1 = implementation differs from the mirror model (K.C05.verdicts)
   kind 2 = implementation differs from the specification (property fails) *)
Definition check_case (k : case) : list (N * N) :=
  let m := outs step empty (c_ops k) in
  let s := outs sstep sempty (c_ops k) in
  (match first_diff m (c_obs k) 0 with Some i => [(1, i)] | None => [] end) ++
  (match first_diff s (c_obs k) 0 with Some i => [(2, i)] | None => [] end).

Fixpoint check_cases (ks : list case) (idx : N) : list (N * N * N) :=
  match ks with
  | [] => []
  | k :: ks' => map (fun p => (idx, fst p, snd p)) (check_case k) ++ check_cases ks' (idx + 1)
  end.

(* Branch statistics of the specification over the cases:
   [accepted ahead; accepted within window; rejected duplicate;
    rejected behind window; rejected at/over limit; resets] *)
Definition classify (s : sstate) (o : op) : nat :=
  match o with
  | Reset => 5%nat
  | Validate c l =>
      if l <=? c then 4%nat
      else if mem c (seen s) then 2%nat
      else if mx s <=? c + W then (if mx s <? c then 0%nat else 1%nat)
      else 3%nat
  end.

Fixpoint bump (l : list N) (i : nat) : list N :=
  match l, i with
  | [], _ => []
  | x :: t, O => (x + 1) :: t
  | x :: t, S j => x :: bump t j
  end.

Fixpoint stats_ops (s : sstate) (ops : list op) (st : list N) : list N :=
  match ops with
  | [] => st
  | o :: ops' => stats_ops (fst (sstep s o)) ops' (bump st (classify s o))
  end.

Definition stats (ks : list case) : list N :=
  fold_left (fun st k => stats_ops sempty (c_ops k) st) ks [0;0;0;0;0;0].
