(* Mirror of replay/replay.go: Filter{last uint64; ring [ringBlocks]block}.
   Counters are N below 2^64 (no arithmetic of the Go code can wrap for such
   inputs: last-counter is computed only when counter <= last, current+diff
   <= 2^58+128).  The ring is a list of ringBlocks 64-bit blocks. *)
From WG Require Import Base.Prelude Gen.Constants.
Local Open Scope N_scope.

Definition R := replay_ringBlocks.
Definition B := replay_blockBits.
Definition W := replay_windowSize.

Record filter := { last : N; ring : list N }.

Definition get (l : list N) (i : N) : N := nth (N.to_nat i) l 0.
Definition put (l : list N) (i v : N) : list N := set_nth l (N.to_nat i) v.

Definition empty : filter := {| last := 0; ring := repeat 0 (N.to_nat R) |}.

(* for i := current+1; i <= current+diff; i++ { ring[i&blockMask] = 0 } *)
Fixpoint clear (r : list N) (start : N) (n : nat) : list N :=
  match n with
  | O => r
  | S k => clear (put r (start mod R) 0) (start + 1) k
  end.

Definition validate (f : filter) (c limit : N) : filter * bool :=
  if limit <=? c then (f, false) else
  let ib := c / B in
  if last f <? c then
    let cur := last f / B in
    let diff := N.min (ib - cur) R in
    let r1 := clear (ring f) (cur + 1) (N.to_nat diff) in
    let slot := ib mod R in
    let old := get r1 slot in
    let new := N.lor old (N.shiftl 1 (c mod B)) in
    ({| last := c; ring := put r1 slot new |}, negb (old =? new))
  else if W <? last f - c then (f, false)
  else
    let slot := ib mod R in
    let old := get (ring f) slot in
    let new := N.lor old (N.shiftl 1 (c mod B)) in
    ({| last := last f; ring := put (ring f) slot new |}, negb (old =? new)).

(* func (f *Filter) Reset() { f.last = 0; f.ring[0] = 0 } *)
Definition reset (f : filter) : filter := {| last := 0; ring := put (ring f) 0 0 |}.

Inductive op := Validate (c limit : N) | Reset.

Definition step (f : filter) (o : op) : filter * bool :=
  match o with
  | Validate c limit => validate f c limit
  | Reset => (reset f, true)
  end.
