(* The ring filter refines the set specification, for every history. *)
From WG Require Import Base.Prelude Gen.Constants Replay.Model Replay.Spec.
Local Open Scope N_scope.

(* ---- arithmetic helpers: all div/mod reasoning lives here ---- *)
Lemma R_pos : 0 < R. Proof. reflexivity. Qed.
Lemma B_pos : 0 < B. Proof. reflexivity. Qed.
Lemma W_def : W = (R - 1) * B. Proof. reflexivity. Qed.
Ltac unfold_consts := unfold W, R, B, replay_windowSize, replay_ringBlocks, replay_blockBits in *.
Lemma mod_lt_R a : a mod R < R. Proof. unfold_consts. lia. Qed.
Lemma mod_inj_range a b : a mod R = b mod R -> a < b + R -> b < a + R -> a = b.
Proof. unfold_consts. intros. lia. Qed.
Lemma blk_of b i : i < B -> (B * b + i) / B = b /\ (B * b + i) mod B = i.
Proof. unfold_consts. intros. lia. Qed.
Lemma blk_decomp c : B * (c / B) + c mod B = c /\ c mod B < B.
Proof. unfold_consts. lia. Qed.
Lemma blk_mono a b : a <= b -> a / B <= b / B.
Proof. unfold_consts. intros. lia. Qed.
Lemma blk_lt a b : a / B < b -> a < B * b.
Proof. unfold_consts. intros. lia. Qed.
Lemma blk_ge a b : b <= a / B -> B * b <= a.
Proof. unfold_consts. intros. lia. Qed.
Lemma window_blk l c : c <= l -> l - c <= W -> l / B < c / B + R.
Proof. unfold_consts. intros. lia. Qed.
Lemma add_sub_mod b s : (s + (b mod R + R - s mod R) mod R) mod R = b mod R.
Proof. unfold_consts. lia. Qed.

(* ---- list ring ---- *)
Lemma get_put l i v j : i < N.of_nat (length l) ->
  get (put l i v) j = if j =? i then v else get l j.
Proof.
  intros Hi. unfold get, put. rewrite nth_set_nth.
  destruct (N.eqb_spec j i) as [->|Ne].
  - rewrite Nat.eqb_refl. replace (N.to_nat i <? length l)%nat with true by lia. reflexivity.
  - replace (N.to_nat j =? N.to_nat i)%nat with false by lia. reflexivity.
Qed.
Lemma put_length l i v : length (put l i v) = length l.
Proof. apply set_nth_length. Qed.

Definition okl (l : list N) : Prop := N.of_nat (length l) = R.

Lemma clear_okl n : forall r s, okl r -> okl (clear r s n).
Proof. induction n as [|n IH]; intros r s H; cbn [clear]; auto. apply IH. unfold okl. now rewrite put_length. Qed.

Lemma clear_miss n : forall r s j, okl r ->
  (forall k, (k < n)%nat -> j <> (s + N.of_nat k) mod R) -> get (clear r s n) j = get r j.
Proof.
  induction n as [|n IH]; intros r s j Hl H; cbn [clear]; auto.
  rewrite IH.
  - rewrite get_put by (rewrite Hl; apply mod_lt_R).
    destruct (N.eqb_spec j (s mod R)) as [E|E]; auto.
    exfalso. apply (H 0%nat); [lia|]. rewrite E. f_equal. lia.
  - unfold okl. now rewrite put_length.
  - intros k Hk. specialize (H (S k) ltac:(lia)). intro E. apply H. rewrite E. f_equal. lia.
Qed.

Lemma clear_keeps_zero m : forall r s' j, okl r -> get r j = 0 -> get (clear r s' m) j = 0.
Proof.
  induction m as [|m IHm]; intros r s' j Hl H0; cbn [clear]; auto.
  apply IHm; [unfold okl; now rewrite put_length|].
  rewrite get_put by (rewrite Hl; apply mod_lt_R). destruct (_ =? _); auto.
Qed.

Lemma clear_hit n : forall r s k, okl r -> (k < n)%nat -> get (clear r s n) ((s + N.of_nat k) mod R) = 0.
Proof.
  induction n as [|n IH]; intros r s k Hl Hk; [lia|]. cbn [clear].
  destruct k as [|k].
  - replace (s + N.of_nat 0) with s by lia. apply clear_keeps_zero.
    + unfold okl. now rewrite put_length.
    + rewrite get_put by (rewrite Hl; apply mod_lt_R). now rewrite N.eqb_refl.
  - replace (s + N.of_nat (S k)) with ((s + 1) + N.of_nat k) by lia. apply IH; [|lia].
    unfold okl. now rewrite put_length.
Qed.

Lemma clear_in r s n b : okl r -> s <= b -> b < s + n -> get (clear r s (N.to_nat n)) (b mod R) = 0.
Proof.
  intros Hl H1 H2. replace b with (s + N.of_nat (N.to_nat (b - s))) by lia.
  apply clear_hit; [assumption|lia].
Qed.
Lemma clear_out r s n b : okl r -> b < s -> s + n <= b + R -> get (clear r s (N.to_nat n)) (b mod R) = get r (b mod R).
Proof.
  intros Hl H1 H2. apply clear_miss; [assumption|]. intros k Hk E.
  apply mod_inj_range in E; lia.
Qed.
Lemma clear_all r s b : okl r -> get (clear r s (N.to_nat R)) (b mod R) = 0.
Proof.
  intros Hl. pose proof R_pos as HR.
  set (k := (b mod R + R - s mod R) mod R).
  assert (Hk : k < R) by apply mod_lt_R.
  replace (b mod R) with ((s + N.of_nat (N.to_nat k)) mod R).
  - apply clear_hit; [assumption|lia].
  - rewrite N2Nat.id. unfold k. apply add_sub_mod.
Qed.

Lemma setbit_test old k i : N.testbit (N.lor old (N.shiftl 1 k)) i = N.testbit old i || (i =? k).
Proof. rewrite N.lor_spec, N.shiftl_1_l, N.pow2_bits_eqb. f_equal. apply N.eqb_sym. Qed.

Lemma setbit_same old k : (old =? N.lor old (N.shiftl 1 k)) = N.testbit old k.
Proof.
  destruct (N.testbit old k) eqn:E.
  - apply N.eqb_eq. apply N.bits_inj. intro i. rewrite setbit_test.
    destruct (N.eqb_spec i k); subst; rewrite ?E, ?orb_true_r, ?orb_false_r; auto.
  - apply N.eqb_neq. intro H.
    assert (H0 : N.testbit (N.lor old (N.shiftl 1 k)) k = false) by (rewrite <- H; exact E).
    rewrite setbit_test, N.eqb_refl, orb_true_r in H0. discriminate.
Qed.

(* ---- the refinement invariant (J1, J2 of DESIGN.md C05) ---- *)
Definition Inv (f : filter) (s : sstate) : Prop :=
  okl (ring f) /\
  mx s = last f /\
  (forall x, mem x (seen s) = true -> x <= last f) /\
  (last f = 0 \/ mem (last f) (seen s) = true) /\
  (forall b i, b <= last f / B -> last f / B < b + R -> i < B ->
      N.testbit (get (ring f) (b mod R)) i = mem (B * b + i) (seen s)).

Lemma mem_cons c x l : mem x (c :: l) = (x =? c) || mem x l.
Proof. reflexivity. Qed.

Lemma inv_empty : Inv empty sempty.
Proof.
  unfold Inv, empty, sempty, okl. cbn [last ring seen mx].
  refine (conj _ (conj _ (conj _ (conj _ _)))).
  - rewrite repeat_length. apply N2Nat.id.
  - reflexivity.
  - intros x H. discriminate.
  - left; reflexivity.
  - intros b i _ _ _. unfold get, mem. cbn [existsb].
    replace (nth _ _ _) with 0; [apply N.bits_0|].
    generalize (N.to_nat (b mod R)) (N.to_nat R). intros a n. revert a.
    induction n as [|n IH]; intros [|a]; cbn; auto.
Qed.

Lemma validate_refines f s c limit :
  Inv f s ->
  snd (validate f c limit) = accept s c limit /\
  Inv (fst (validate f c limit)) (fst (sstep s (Validate c limit))).
Proof.
  intros (Hl & Hmx & Hmax & Hlast & Hbits).
  unfold validate, sstep, accept. rewrite Hmx.
  destruct (N.leb_spec limit c) as [Hlim|Hlim].
  { replace (c <? limit) with false by lia. cbn [andb fst snd]. split; [reflexivity|].
    unfold Inv. tauto. }
  replace (c <? limit) with true by lia. cbn [andb].
  pose proof (blk_decomp c) as [Hc1 Hc2]. pose proof R_pos as HR.
  destruct (N.ltb_spec (last f) c) as [Hnew|Hold].
  - set (cur := last f / B) in *. set (ib := c / B) in *.
    set (diff := N.min (ib - cur) R).
    set (r1 := clear (ring f) (cur + 1) (N.to_nat diff)).
    assert (Hl1 : okl r1) by (apply clear_okl; assumption).
    assert (Hcur: cur <= ib) by (apply blk_mono; lia).
    assert (HnotS: forall x, last f < x -> mem x (seen s) = false).
    { intros x Hx. destruct (mem x (seen s)) eqn:E; auto. apply Hmax in E. lia. }
    assert (Hr1_new: forall b, cur < b -> b <= ib -> ib < b + R -> get r1 (b mod R) = 0).
    { intros b Hb1 Hb2 Hb3. unfold r1, diff.
      destruct (N.leb_spec R (ib - cur)).
      - rewrite N.min_r by lia. apply clear_all. assumption.
      - rewrite N.min_l by lia. apply clear_in; [assumption|lia|lia]. }
    assert (Hr1_old: forall b, b <= cur -> ib < b + R -> get r1 (b mod R) = get (ring f) (b mod R)).
    { intros b Hb1 Hb2. unfold r1, diff. rewrite N.min_l by lia. apply clear_out; [assumption|lia|lia]. }
    assert (Hblock: forall b i, b <= ib -> ib < b + R -> i < B ->
               N.testbit (get r1 (b mod R)) i = mem (B * b + i) (seen s)).
    { intros b i Hb1 Hb2 Hi. destruct (N.leb_spec b cur) as [Hle|Hgt].
      - rewrite Hr1_old by lia. apply Hbits; fold cur; lia.
      - rewrite Hr1_new by lia. rewrite N.bits_0. symmetry. apply HnotS.
        pose proof (blk_lt (last f) b) as Hb. fold cur in Hb. lia. }
    cbn [fst snd]. rewrite setbit_same. fold ib.
    rewrite (Hblock ib (c mod B)) by lia. rewrite Hc1.
    rewrite (HnotS c) by lia. cbn [negb andb].
    replace (last f <=? c + W) with true by lia.
    split; [reflexivity|].
    cbn [fst]. unfold Inv. cbn [last ring seen mx]. fold ib.
    refine (conj _ (conj _ (conj _ (conj _ _)))).
    + unfold okl. rewrite put_length. exact Hl1.
    + lia.
    + intros x Hx. rewrite mem_cons in Hx. apply orb_true_iff in Hx as [Hx|Hx]; [apply N.eqb_eq in Hx; lia|].
      apply Hmax in Hx. lia.
    + right. rewrite mem_cons. now rewrite N.eqb_refl.
    + intros b i Hb1 Hb2 Hi. rewrite get_put by (rewrite Hl1; apply mod_lt_R). rewrite mem_cons.
      destruct (N.eqb_spec (b mod R) (ib mod R)) as [Es|Es].
      * apply mod_inj_range in Es; [|lia|lia]. subst b.
        rewrite setbit_test, Hblock by lia.
        destruct (N.eqb_spec i (c mod B)) as [->|Ne].
        -- rewrite orb_true_r, Hc1, N.eqb_refl. reflexivity.
        -- rewrite orb_false_r. replace (B * ib + i =? c) with false; [reflexivity|].
           symmetry. apply N.eqb_neq. intro E. apply Ne. rewrite <- E.
           now destruct (blk_of ib i Hi) as [_ ->].
      * rewrite Hblock by lia.
        replace (B * b + i =? c) with false; [reflexivity|].
        symmetry. apply N.eqb_neq. intro E. apply Es. f_equal. unfold ib. rewrite <- E.
        now destruct (blk_of b i Hi) as [-> _].
  - destruct (N.ltb_spec W (last f - c)) as [Hbehind|Hin].
    { replace (last f <=? c + W) with false by lia. rewrite andb_false_r. cbn [fst snd].
      split; [reflexivity|]. unfold Inv. tauto. }
    replace (last f <=? c + W) with true by lia. rewrite andb_true_r.
    cbn [fst snd]. rewrite setbit_same.
    pose proof (window_blk (last f) c Hold Hin) as Hwb.
    pose proof (blk_mono c (last f) Hold) as Hmono.
    assert (Hblk: N.testbit (get (ring f) ((c / B) mod R)) (c mod B) = mem c (seen s)).
    { rewrite Hbits by lia. now rewrite Hc1. }
    rewrite Hblk. split; [reflexivity|].
    assert (Hupd: forall b i, b <= last f / B -> last f / B < b + R -> i < B ->
       N.testbit (get (put (ring f) ((c / B) mod R) (N.lor (get (ring f) ((c / B) mod R)) (N.shiftl 1 (c mod B)))) (b mod R)) i
       = (B * b + i =? c) || mem (B * b + i) (seen s)).
    { intros b i Hb1 Hb2 Hi. rewrite get_put by (rewrite Hl; apply mod_lt_R).
      destruct (N.eqb_spec (b mod R) ((c / B) mod R)) as [Es|Es].
      - apply mod_inj_range in Es; [|lia|lia]. subst b.
        rewrite setbit_test, Hbits by assumption.
        destruct (N.eqb_spec i (c mod B)) as [->|Ne].
        + rewrite orb_true_r, Hc1, N.eqb_refl. reflexivity.
        + rewrite orb_false_r. replace (B * (c / B) + i =? c) with false; [reflexivity|].
          symmetry. apply N.eqb_neq. intro E. apply Ne.
          replace (c mod B) with ((B * (c / B) + i) mod B) by (now rewrite E).
          now destruct (blk_of (c / B) i Hi) as [_ ->].
      - rewrite Hbits by assumption.
        replace (B * b + i =? c) with false; [reflexivity|].
        symmetry. apply N.eqb_neq. intro E. apply Es. f_equal. rewrite <- E.
        now destruct (blk_of b i Hi) as [-> _]. }
    destruct (mem c (seen s)) eqn:ESc; cbn [negb fst].
    + unfold Inv. cbn [last ring]. refine (conj _ (conj Hmx (conj Hmax (conj Hlast _)))).
      * unfold okl. rewrite put_length. exact Hl.
      * intros b i Hb1 Hb2 Hi. rewrite Hupd by assumption.
        destruct (N.eqb_spec (B * b + i) c) as [->|]; [now rewrite ESc|reflexivity].
    + unfold Inv. cbn [last ring seen mx].
      refine (conj _ (conj _ (conj _ (conj _ _)))).
      * unfold okl. rewrite put_length. exact Hl.
      * lia.
      * intros x Hx. rewrite mem_cons in Hx. apply orb_true_iff in Hx as [Hx|Hx]; [apply N.eqb_eq in Hx; lia|]. now apply Hmax.
      * rewrite mem_cons. destruct Hlast as [H0|H1]; [left; auto|right; now rewrite H1, orb_true_r].
      * intros b i Hb1 Hb2 Hi. rewrite mem_cons. now rewrite Hupd.
Qed.

Lemma reset_refines f s : Inv f s -> Inv (reset f) sempty.
Proof.
  intros (Hl & _). unfold Inv, reset, sempty. cbn [last ring seen mx].
  pose proof R_pos as HR.
  refine (conj _ (conj _ (conj _ (conj _ _)))).
  - unfold okl. rewrite put_length. exact Hl.
  - reflexivity.
  - intros x H; discriminate.
  - left; reflexivity.
  - intros b i Hb1 Hb2 Hi. rewrite N.div_0_l in Hb1 by (pose proof B_pos; lia).
    assert (b = 0) by lia. subst b. rewrite N.mod_0_l by lia.
    rewrite get_put by (rewrite Hl; exact HR). rewrite N.eqb_refl. apply N.bits_0.
Qed.

Lemma step_refines f s o : Inv f s ->
  snd (step f o) = snd (sstep s o) /\ Inv (fst (step f o)) (fst (sstep s o)).
Proof.
  intros H. destruct o as [c limit|].
  - destruct (validate_refines f s c limit H) as [Ho Hi]. cbn [step]. split; [|exact Hi].
    rewrite Ho. cbn [sstep]. destruct (accept s c limit); reflexivity.
  - cbn [step sstep fst snd]. split; [reflexivity|]. eapply reset_refines; eassumption.
Qed.

(* Main refinement theorem: for EVERY finite history the ring filter answers
   exactly as the set specification. *)
Theorem filter_refines_spec : forall ops : list op,
  outs step empty ops = outs sstep sempty ops.
Proof.
  intros ops. apply (sim_run step sstep Inv step_refines ops empty sempty inv_empty).
Qed.

(* The same from any related pair of states (used for corollaries). *)
Lemma filter_refines_from f s ops : Inv f s ->
  outs step f ops = outs sstep s ops /\ Inv (final step f ops) (final sstep s ops).
Proof. intros H. apply (sim_run step sstep Inv step_refines ops f s H). Qed.
